(* C13 -- the demodulator of Spec/BkTape.v recovers header, bytes and checksum from the samples
   produced by encode_as_wav, for every image.  The facts about the envelopes of Gen/GenBkWav.v
   (every unit starts high and ends low, its pulse widths fall in the right classes, the
   lead-ins are found) are vm_compute facts; the rest is induction over the byte list. *)
From Coq Require Import String List ZArith Lia Bool.
From Verif Require Import Base.Res Base.Bytes Base.Range Gen.GenBkWav Model.Formats Model.BkWav Spec.Riff Spec.BkTape
  Proofs.C13Formats Proofs.C13Checksum Proofs.C13Wav.
Import ListNotations.
Open Scope list_scope.
Open Scope Z_scope.

(* ------------------------------------------------------------------ bits of a byte *)
Lemma byte_bits_01 byte : Forall (fun b => b = 0 \/ b = 1) (byte_bits byte).
Proof.
  unfold byte_bits. cbn [map].
  repeat (apply Forall_cons; [match goal with |- context [Z.testbit ?a ?b] => destruct (Z.testbit a b) end; cbn; auto|]).
  apply Forall_nil.
Qed.

Lemma bits_val_byte_bits byte : 0 <= byte < 256 -> bits_val (byte_bits byte) = byte.
Proof.
  intros H.
  assert (A : forallb (fun b => bits_val (byte_bits b) =? b) (zrange 0 256) = true) by (vm_compute; reflexivity).
  apply Z.eqb_eq. apply (zrange_forallb 0 256 _ A). lia.
Qed.

(* ------------------------------------------------------------------ reading bytes back, generically *)
Section ReadGeneric.
  Variable X : Type.
  Variable rb : list X -> option (Z * list X).
  Variable unit : Z -> list X.
  Hypothesis unit_ok : forall b rest, b = 0 \/ b = 1 -> rb (unit b ++ rest) = Some (b, rest).

  Definition ubits (data : list Z) : list X := flat_map (fun byte => flat_map unit (byte_bits byte)) data.

  Lemma read_bits_units bs : Forall (fun b => b = 0 \/ b = 1) bs ->
    forall rest, read_bits rb (length bs) (flat_map unit bs ++ rest) = Some (bs, rest).
  Proof.
    induction 1 as [|b r Hb Hr IH]; intros rest; [reflexivity|].
    cbn [length flat_map read_bits]. rewrite <- app_assoc, unit_ok by assumption. rewrite IH. reflexivity.
  Qed.

  Lemma read_byte_unit byte rest : 0 <= byte < 256 ->
    read_byte rb (flat_map unit (byte_bits byte) ++ rest) = Some (byte, rest).
  Proof.
    intros H. unfold read_byte. change 8%nat with (length (byte_bits byte)).
    rewrite read_bits_units by apply byte_bits_01. rewrite bits_val_byte_bits by assumption. reflexivity.
  Qed.

  Lemma read_bytes_units data : Forall is_byte_z data ->
    forall rest, read_bytes rb (length data) (ubits data ++ rest) = Some (data, rest).
  Proof.
    induction 1 as [|b r Hb Hr IH]; intros rest; [reflexivity|].
    unfold ubits. cbn [length flat_map read_bytes]. rewrite <- app_assoc, read_byte_unit by exact Hb.
    fold (ubits r). rewrite IH. reflexivity.
  Qed.
End ReadGeneric.

(* ------------------------------------------------------------------ pulse trains *)
Definition valid_pulse (p : Z * Z) : bool := (1 <=? fst p) && (1 <=? snd p).

Definition expand1 (p : Z * Z) : list bool := repeat true (Z.to_nat (fst p)) ++ repeat false (Z.to_nat (snd p)).
Definition expandp (ps : list (Z * Z)) : list bool := flat_map expand1 ps.

Lemma expandp_app a b : expandp (a ++ b) = expandp a ++ expandp b.
Proof. apply flat_map_app. Qed.

Lemma pulses_aux_trues n : forall h rest, pulses_aux h 0 (repeat true n ++ rest) = pulses_aux (h + Z.of_nat n) 0 rest.
Proof.
  induction n as [|k IH]; intros h rest.
  - cbn [repeat app]. f_equal. lia.
  - cbn [repeat app pulses_aux]. rewrite Z.eqb_refl, IH. f_equal. lia.
Qed.

Lemma pulses_aux_falses n : forall h l rest, h <> 0 ->
  pulses_aux h l (repeat false n ++ rest) = pulses_aux h (l + Z.of_nat n) rest.
Proof.
  induction n as [|k IH]; intros h l rest Hh.
  - cbn [repeat app]. f_equal. lia.
  - cbn [repeat app pulses_aux]. destruct (h =? 0) eqn:E; [apply Z.eqb_eq in E; contradiction|].
    rewrite IH by assumption. f_equal. lia.
Qed.

Lemma pulses_aux_expandp ps : forallb valid_pulse ps = true ->
  forall a b, 1 <= a -> 1 <= b -> pulses_aux a b (expandp ps) = (a, b) :: ps.
Proof.
  induction ps as [|[a' b'] r IH]; intros V a b Ha Hb.
  - cbn [expandp flat_map pulses_aux]. destruct (a =? 0) eqn:E; [lia|reflexivity].
  - cbn [forallb] in V. apply andb_prop in V. destruct V as [V1 V2].
    unfold valid_pulse in V1. cbn [fst snd] in V1. apply andb_prop in V1. destruct V1 as [A1 B1].
    apply Z.leb_le in A1. apply Z.leb_le in B1.
    cbn [expandp flat_map]. fold (expandp r). unfold expand1. cbn [fst snd].
    replace (Z.to_nat a') with (S (Z.to_nat (a' - 1))) by lia.
    cbn [repeat app pulses_aux]. destruct (b =? 0) eqn:E; [lia|]. f_equal.
    rewrite <- !app_assoc, pulses_aux_trues, pulses_aux_falses by lia.
    rewrite IH by (assumption || lia). f_equal. f_equal; lia.
Qed.

Lemma pulses_expandp ps : forallb valid_pulse ps = true -> pulses (expandp ps) = ps.
Proof.
  destruct ps as [|[a b] r]; intros V; [reflexivity|].
  cbn [forallb] in V. apply andb_prop in V. destruct V as [V1 V2].
  unfold valid_pulse in V1. cbn [fst snd] in V1. apply andb_prop in V1. destruct V1 as [A1 B1].
  apply Z.leb_le in A1. apply Z.leb_le in B1.
  unfold pulses. cbn [expandp flat_map]. fold (expandp r). unfold expand1. cbn [fst snd].
  rewrite <- !app_assoc, pulses_aux_trues, pulses_aux_falses by lia.
  rewrite pulses_aux_expandp by (assumption || lia). f_equal. f_equal; lia.
Qed.

(* high runs: a valid pulse train ends low, so what follows it is read from a clean state *)
Lemma high_runs_aux_trues n : forall h rest, high_runs_aux h (repeat true n ++ rest) = high_runs_aux (h + Z.of_nat n) rest.
Proof.
  induction n as [|k IH]; intros h rest.
  - cbn [repeat app]. f_equal. lia.
  - cbn [repeat app high_runs_aux]. rewrite IH. f_equal. lia.
Qed.

Lemma high_runs_aux_lows s : forallb negb s = true -> forall rest, high_runs_aux 0 (s ++ rest) = high_runs_aux 0 rest.
Proof.
  induction s as [|x r IH]; intros H rest; [reflexivity|].
  cbn [forallb] in H. apply andb_prop in H. destruct H as [H1 H2]. destruct x; [discriminate|].
  cbn [app high_runs_aux]. rewrite Z.eqb_refl. apply IH. exact H2.
Qed.

Lemma repeat_false_lows n : forallb negb (repeat false n) = true.
Proof. induction n; [reflexivity|]. cbn [repeat forallb negb]. exact IHn. Qed.

Lemma high_runs_expandp ps : forallb valid_pulse ps = true ->
  forall rest, high_runs_aux 0 (expandp ps ++ rest) = map fst ps ++ high_runs_aux 0 rest.
Proof.
  induction ps as [|[a b] r IH]; intros V rest; [reflexivity|].
  cbn [forallb] in V. apply andb_prop in V. destruct V as [V1 V2].
  unfold valid_pulse in V1. cbn [fst snd] in V1. apply andb_prop in V1. destruct V1 as [A1 B1].
  apply Z.leb_le in A1. apply Z.leb_le in B1.
  cbn [expandp flat_map map fst]. fold (expandp r). unfold expand1. cbn [fst snd].
  rewrite <- !app_assoc, high_runs_aux_trues.
  replace (Z.to_nat b) with (S (Z.to_nat (b - 1))) by lia.
  cbn [repeat app high_runs_aux]. destruct (0 + Z.of_nat (Z.to_nat a) =? 0) eqn:E; [lia|].
  rewrite high_runs_aux_lows by apply repeat_false_lows.
  rewrite IH by assumption. cbn [app]. f_equal. lia.
Qed.

(* ------------------------------------------------------------------ map high over the encoder *)
Lemma map_flat_map {A B C} (g : B -> C) (f : A -> list B) l : map g (flat_map f l) = flat_map (fun x => map g (f x)) l.
Proof. induction l as [|x r IH]; [reflexivity|]. cbn [flat_map]. rewrite map_app, IH. reflexivity. Qed.

Lemma flat_map_flat_map {A B C} (g : B -> list C) (f : A -> list B) l :
  flat_map g (flat_map f l) = flat_map (fun x => flat_map g (f x)) l.
Proof. induction l as [|x r IH]; [reflexivity|]. cbn [flat_map]. rewrite flat_map_app, IH. reflexivity. Qed.

Lemma flat_map_ext' {A B} (f g : A -> list B) l : (forall x, f x = g x) -> flat_map f l = flat_map g l.
Proof. intros H. induction l as [|x r IH]; [reflexivity|]. cbn [flat_map]. rewrite H, IH. reflexivity. Qed.

(* the pulse train of an envelope *)
Definition ps_of (turbo : bool) (attr : string) : list (Z * Z) := pulses (map high (seg turbo attr)).

Definition unit_ps (turbo : bool) (b : Z) : list (Z * Z) := if b =? 0 then ps_of turbo "ZERO" else ps_of turbo "ONE".

(* every envelope that opens with a high sample is the expansion of its own pulse train,
   i.e. it starts high, ends low and has no empty runs *)
Lemma seg_expand turbo attr : In (turbo, attr)
    [(false, "SYNC"); (false, "PAUSE"); (false, "EOF"); (false, "ZERO"); (false, "ONE");
     (true, "SYNC"); (true, "EOF"); (true, "ZERO"); (true, "ONE")]%string ->
  map high (seg turbo attr) = expandp (ps_of turbo attr) /\ forallb valid_pulse (ps_of turbo attr) = true.
Proof.
  intros H. cbn [In] in H.
  repeat (destruct H as [E | H]; [inversion E; subst; split; vm_compute; reflexivity|]). contradiction.
Qed.

Lemma bit_unit_expand turbo b : map high (bit_unit turbo b) = expandp (unit_ps turbo b)
                                /\ forallb valid_pulse (unit_ps turbo b) = true.
Proof.
  unfold bit_unit, unit_ps. destruct (b =? 0); destruct turbo; apply seg_expand; cbn [In]; auto 12.
Qed.

Definition bits_ps (turbo : bool) (data : list Z) : list (Z * Z) := ubits _ (unit_ps turbo) data.

Lemma enc_bytes_expand turbo data : map high (enc_bytes turbo data) = expandp (bits_ps turbo data).
Proof.
  unfold enc_bytes, enc_byte, bits_ps, ubits, expandp.
  rewrite map_flat_map, flat_map_flat_map. apply flat_map_ext'. intros byte.
  rewrite map_flat_map, flat_map_flat_map. apply flat_map_ext'. intros b.
  apply bit_unit_expand.
Qed.

Lemma forallb_flat_map' {A B} (p : B -> bool) (f : A -> list B) l :
  (forall x, forallb p (f x) = true) -> forallb p (flat_map f l) = true.
Proof.
  intros H. induction l as [|x r IH]; [reflexivity|]. cbn [flat_map]. rewrite forallb_app, H, IH. reflexivity.
Qed.

Lemma bits_ps_valid turbo data : forallb valid_pulse (bits_ps turbo data) = true.
Proof.
  unfold bits_ps, ubits. apply forallb_flat_map'. intros byte. apply forallb_flat_map'. intros b.
  apply bit_unit_expand.
Qed.

(* ------------------------------------------------------------------ standard format *)
Lemma skip_short_app p0 a : forall n r rest, skip_short p0 a = (n, r) -> r <> [] ->
  skip_short p0 (a ++ rest) = (n, r ++ rest).
Proof.
  induction a as [|p t IH]; intros n r rest H Hr.
  - cbn in H. inversion H; subst. contradiction.
  - cbn [skip_short app] in *. destruct (is_short p0 p).
    + destruct (skip_short p0 t) as [n' r'] eqn:E. inversion H; subst.
      rewrite (IH n' r rest eq_refl Hr). reflexivity.
    + inversion H; subst. reflexivity.
Qed.

Lemma lead_in_app p0 need a r' rest : lead_in p0 need a = Some r' ->
  lead_in p0 need (a ++ rest) = Some (r' ++ rest).
Proof.
  unfold lead_in. destruct (skip_short p0 a) as [n r] eqn:E.
  destruct (n <? need) eqn:N; [discriminate|].
  destruct r as [|m [|o r2]]; try discriminate. intros H.
  rewrite (skip_short_app _ _ _ _ rest E) by discriminate. rewrite N. cbn [app].
  destruct (is_marker p0 m && is_long p0 o); [|discriminate]. inversion H; subst. reflexivity.
Qed.

Lemma std_first : exists t, ps_of false "SYNC" = (2, 2) :: t.
Proof.
  assert (H : hd_error (ps_of false "SYNC") = Some (2, 2)) by (vm_compute; reflexivity).
  destruct (ps_of false "SYNC") as [|p t]; [discriminate|]. cbn in H. inversion H; subst. eauto.
Qed.

Lemma std_sync_lead_in : exists r0, lead_in 4 min_pilot (ps_of false "SYNC") = Some r0
                                    /\ lead_in 4 min_block_pilot r0 = Some [].
Proof. eexists. split; vm_compute; reflexivity. Qed.

Lemma std_pause_lead_in : lead_in 4 min_block_pilot (ps_of false "PAUSE") = Some [].
Proof. vm_compute. reflexivity. Qed.

Lemma std_unit_ok b rest : b = 0 \/ b = 1 -> read_bit_std 4 (unit_ps false b ++ rest) = Some (b, rest).
Proof.
  assert (Z0 : ps_of false "ZERO" = [(2, 2); (2, 2)]) by (vm_compute; reflexivity).
  assert (Z1 : ps_of false "ONE" = [(2, 2); (4, 4)]) by (vm_compute; reflexivity).
  intros [-> | ->]; unfold unit_ps; cbn [Z.eqb]; [rewrite Z0 | rewrite Z1]; reflexivity.
Qed.

Global Opaque ps_of.

Lemma fit_id n : forall l, length l = n -> fit n l = l.
Proof.
  induction n as [|k IH]; intros l H; destruct l as [|b r]; try discriminate; [reflexivity|].
  cbn [fit]. rewrite IH; [reflexivity|]. cbn in H. lia.
Qed.

Lemma le16_bytes_z v : Forall is_byte_z (le16 v).
Proof.
  unfold le16. repeat constructor; unfold is_byte_z; apply Z.mod_pos_bound; lia.
Qed.

Lemma word_le16 v : 0 <= v < 65536 -> word (v mod 256) ((v / 256) mod 256) = v.
Proof.
  intros H. pose proof (le16_word v H) as W. unfold le16, word_of in W. unfold word. apply W.
Qed.

Lemma tape_header_facts base code name :
  0 <= base < 65536 -> Z.of_nat (length code) < 65536 -> Forall is_byte_z name -> length name = 16%nat ->
  length (tape_header base code name) = 20%nat /\ Forall is_byte_z (tape_header base code name) /\
  header_fields (tape_header base code name) = Some (base, Z.of_nat (length code), name).
Proof.
  intros Hb Hl Hn Hn16. unfold tape_header. rewrite (fit_id 16 name Hn16). split; [|split].
  - rewrite !app_length, Hn16. reflexivity.
  - repeat (apply Forall_app; split); auto using le16_bytes_z.
  - unfold le16. cbn [app header_fields]. rewrite !word_le16 by lia. reflexivity.
Qed.

(* demod_std once the pilot period is known *)
Definition demod_std_body (p0 : Z) (ps : list (Z * Z)) : option tape :=
  match lead_in p0 min_pilot ps with None => None | Some r0 =>
  match lead_in p0 min_block_pilot r0 with None => None | Some r1 =>
  match read_bytes (read_bit_std p0) 20 r1 with None => None | Some (hdr, r2) =>
  match header_fields hdr with None => None | Some (base, length, name) =>
  match lead_in p0 min_block_pilot r2 with None => None | Some r3 =>
  match read_bytes (read_bit_std p0) (Z.to_nat length) r3 with None => None | Some (data, r4) =>
  match read_bytes (read_bit_std p0) 2 r4 with
  | Some ([c0; c1], _) =>
      Some {| t_base := base; t_length := length; t_name := name; t_data := data; t_checksum := word c0 c1 |}
  | _ => None
  end end end end end end end.

Lemma demod_std_app a first t rest : a = first :: t ->
  demod_std (a ++ rest) = demod_std_body (period first) (a ++ rest).
Proof. intros ->. reflexivity. Qed.

Lemma demod_std_body_steps p0 ps r0 r1 hdr r2 base length name r3 data r4 c0 c1 r5 :
  lead_in p0 min_pilot ps = Some r0 ->
  lead_in p0 min_block_pilot r0 = Some r1 ->
  read_bytes (read_bit_std p0) 20 r1 = Some (hdr, r2) ->
  header_fields hdr = Some (base, length, name) ->
  lead_in p0 min_block_pilot r2 = Some r3 ->
  read_bytes (read_bit_std p0) (Z.to_nat length) r3 = Some (data, r4) ->
  read_bytes (read_bit_std p0) 2 r4 = Some ([c0; c1], r5) ->
  demod_std_body p0 ps =
  Some {| t_base := base; t_length := length; t_name := name; t_data := data; t_checksum := word c0 c1 |}.
Proof.
  intros H1 H2 H3 H4 H5 H6 H7. unfold demod_std_body. rewrite H1, H2, H3, H4, H5, H6, H7. reflexivity.
Qed.

Theorem demod_std_samples base code name :
  0 <= base < 65536 -> Z.of_nat (length code) < 65536 -> Forall is_byte_z code ->
  Forall is_byte_z name -> length name = 16%nat ->
  demod false (samples_of false base code name) =
  Some {| t_base := base; t_length := Z.of_nat (length code); t_name := name; t_data := code;
          t_checksum := cksum_spec code |}.
Proof.
  intros Hb Hl Hc Hn Hn16.
  destruct (tape_header_facts base code name Hb Hl Hn Hn16) as (HL & HB & HF).
  unfold demod, samples_of. cbv iota.
  rewrite !map_app, !enc_bytes_expand. cbn [map app].
  destruct (seg_expand false "SYNC") as [E1 V1]; [cbn [In]; auto 12|].
  destruct (seg_expand false "PAUSE") as [E2 V2]; [cbn [In]; auto 12|].
  destruct (seg_expand false "EOF") as [E3 V3]; [cbn [In]; auto 12|].
  rewrite E1, E2, E3, <- !expandp_app.
  rewrite pulses_expandp by (rewrite !forallb_app, !bits_ps_valid, V1, V2, V3; reflexivity).
  destruct std_first as [t Ht]. destruct std_sync_lead_in as (r0 & L0 & L1).
  rewrite (demod_std_app _ _ _ _ Ht). change (period (2, 2)) with 4.
  pose proof (cksum_spec_range code Hc) as CR.
  match goal with |- ?L = _ =>
    assert (G : L = Some {| t_base := base; t_length := Z.of_nat (length code); t_name := name; t_data := code;
                            t_checksum := word (cksum_spec code mod 256) ((cksum_spec code / 256) mod 256) |});
    [|rewrite G, word_le16 by lia; reflexivity] end.
  eapply demod_std_body_steps.
  - apply lead_in_app. exact L0.
  - apply lead_in_app. exact L1.
  - cbn [app]. rewrite <- HL. apply (read_bytes_units _ _ _ std_unit_ok _ HB).
  - exact HF.
  - apply lead_in_app. exact std_pause_lead_in.
  - cbn [app]. rewrite Nat2Z.id. apply (read_bytes_units _ _ _ std_unit_ok _ Hc).
  - apply (read_bytes_units _ _ _ std_unit_ok (le16 (cksum_spec code)) (le16_bytes_z _)).
Qed.

(* ------------------------------------------------------------------ turbo format *)
Lemma skip_pilot_turbo_app h0 a : forall n r rest, skip_pilot_turbo h0 a = (n, r) -> r <> [] ->
  skip_pilot_turbo h0 (a ++ rest) = (n, r ++ rest).
Proof.
  induction a as [|h t IH]; intros n r rest H Hr.
  - cbn in H. inversion H; subst. contradiction.
  - cbn [skip_pilot_turbo app] in *. destruct (classify_turbo h0 h).
    + inversion H; subst. reflexivity.
    + destruct (skip_pilot_turbo h0 t) as [n' r'] eqn:E. inversion H; subst.
      rewrite (IH n' r rest eq_refl Hr). reflexivity.
    + inversion H; subst. reflexivity.
Qed.

Definition hunit (b : Z) : list Z := map fst (unit_ps true b).

Local Transparent ps_of.

Lemma turbo_first : exists t, map fst (ps_of true "SYNC") = 3 :: t.
Proof.
  assert (H : hd_error (map fst (ps_of true "SYNC")) = Some 3) by (vm_compute; reflexivity).
  destruct (map fst (ps_of true "SYNC")) as [|p t]; [discriminate|]. cbn in H. inversion H; subst. eauto.
Qed.

Lemma turbo_skip : skip_pilot_turbo 3 (map fst (ps_of true "SYNC")) = (1024, [12]).
Proof. vm_compute. reflexivity. Qed.

Lemma turbo_unit_ok b rest : b = 0 \/ b = 1 -> read_bit_turbo 3 (hunit b ++ rest) = Some (b, rest).
Proof.
  assert (Z0 : ps_of true "ZERO" = [(1, 2)]) by (vm_compute; reflexivity).
  assert (Z1 : ps_of true "ONE" = [(3, 2)]) by (vm_compute; reflexivity).
  intros [-> | ->]; unfold hunit, unit_ps; cbn [Z.eqb]; [rewrite Z0 | rewrite Z1]; reflexivity.
Qed.

Lemma turbo_pause_lows : forallb negb (map high (seg true "PAUSE")) = true.
Proof. vm_compute. reflexivity. Qed.

Global Opaque ps_of.

Lemma map_fst_bits_ps data : map fst (bits_ps true data) = ubits _ hunit data.
Proof.
  unfold bits_ps, ubits. rewrite map_flat_map. apply flat_map_ext'. intros byte.
  rewrite map_flat_map. reflexivity.
Qed.

Definition demod_turbo_body (h0 : Z) (hs : list Z) : option tape :=
  let (n, r0) := skip_pilot_turbo h0 hs in
  if n <? min_pilot then None else
  match r0 with
  | m :: r1 =>
      match classify_turbo h0 m with
      | TMarker =>
          match read_bytes (read_bit_turbo h0) 20 r1 with None => None | Some (hdr, r2) =>
          match header_fields hdr with None => None | Some (base, length, name) =>
          match read_bytes (read_bit_turbo h0) (Z.to_nat length) r2 with None => None | Some (data, r3) =>
          match read_bytes (read_bit_turbo h0) 2 r3 with
          | Some ([c0; c1], _) =>
              Some {| t_base := base; t_length := length; t_name := name; t_data := data; t_checksum := word c0 c1 |}
          | _ => None
          end end end end
      | _ => None
      end
  | [] => None
  end.

Lemma demod_turbo_app a h0 t rest : a = h0 :: t -> demod_turbo (a ++ rest) = demod_turbo_body h0 (a ++ rest).
Proof. intros ->. reflexivity. Qed.

Lemma demod_turbo_body_steps h0 hs n m r1 hdr r2 base length name data r3 c0 c1 r4 :
  skip_pilot_turbo h0 hs = (n, m :: r1) -> (n <? min_pilot) = false -> classify_turbo h0 m = TMarker ->
  read_bytes (read_bit_turbo h0) 20 r1 = Some (hdr, r2) ->
  header_fields hdr = Some (base, length, name) ->
  read_bytes (read_bit_turbo h0) (Z.to_nat length) r2 = Some (data, r3) ->
  read_bytes (read_bit_turbo h0) 2 r3 = Some ([c0; c1], r4) ->
  demod_turbo_body h0 hs =
  Some {| t_base := base; t_length := length; t_name := name; t_data := data; t_checksum := word c0 c1 |}.
Proof.
  intros H1 H2 H3 H4 H5 H6 H7. unfold demod_turbo_body. rewrite H1, H2, H3, H4, H5, H6, H7. reflexivity.
Qed.

Theorem demod_turbo_samples base code name :
  0 <= base < 65536 -> Z.of_nat (length code) < 65536 -> Forall is_byte_z code ->
  Forall is_byte_z name -> length name = 16%nat ->
  demod true (samples_of true base code name) =
  Some {| t_base := base; t_length := Z.of_nat (length code); t_name := name; t_data := code;
          t_checksum := cksum_spec code |}.
Proof.
  intros Hb Hl Hc Hn Hn16.
  destruct (tape_header_facts base code name Hb Hl Hn Hn16) as (HL & HB & HF).
  unfold demod, samples_of. cbv iota.
  rewrite !map_app, !enc_bytes_expand.
  destruct (seg_expand true "SYNC") as [E1 V1]; [cbn [In]; auto 12|].
  destruct (seg_expand true "EOF") as [E3 V3]; [cbn [In]; auto 12|].
  rewrite E1, E3. rewrite <- (app_nil_r (expandp (ps_of true "EOF"))).
  unfold high_runs.
  rewrite (high_runs_expandp _ V1), (high_runs_expandp _ (bits_ps_valid _ _)),
          (high_runs_aux_lows _ turbo_pause_lows), (high_runs_expandp _ (bits_ps_valid _ _)),
          (high_runs_aux_lows _ turbo_pause_lows), (high_runs_expandp _ (bits_ps_valid _ _)),
          (high_runs_expandp _ V3).
  cbn [high_runs_aux Z.eqb]. rewrite !map_fst_bits_ps.
  destruct turbo_first as [t Ht].
  rewrite (demod_turbo_app _ _ _ _ Ht).
  pose proof (cksum_spec_range code Hc) as CR.
  match goal with |- ?L = _ =>
    assert (G : L = Some {| t_base := base; t_length := Z.of_nat (length code); t_name := name; t_data := code;
                            t_checksum := word (cksum_spec code mod 256) ((cksum_spec code / 256) mod 256) |});
    [|rewrite G, word_le16 by lia; reflexivity] end.
  eapply demod_turbo_body_steps.
  - rewrite (skip_pilot_turbo_app _ _ _ _ _ turbo_skip) by discriminate. cbn [app]. reflexivity.
  - reflexivity.
  - reflexivity.
  - cbn [app]. rewrite <- HL. apply (read_bytes_units _ _ _ turbo_unit_ok _ HB).
  - exact HF.
  - rewrite Nat2Z.id. apply (read_bytes_units _ _ _ turbo_unit_ok _ Hc).
  - apply (read_bytes_units _ _ _ turbo_unit_ok (le16 (cksum_spec code)) (le16_bytes_z _)).
Qed.

(* ------------------------------------------------------------------ the whole chain *)
Theorem wav_roundtrip turbo base code name :
  0 <= base < 65536 -> Z.of_nat (length code) < 65536 -> Forall is_byte_z code ->
  Forall is_byte_z name -> length name = 16%nat ->
  exists f smp t,
    encode_as_wav turbo base code name = Ok f /\
    parse_wav f = Some (sample_rate turbo, 1, 8, smp) /\
    demod turbo smp = Some t /\ carries t base code name.
Proof.
  intros Hb Hl Hc Hn Hn16.
  destruct (wav_wellformed turbo base code name Hb Hl Hc) as (f & Hf & Hp).
  exists f, (samples_of turbo base code name),
    {| t_base := base; t_length := Z.of_nat (length code); t_name := name; t_data := code;
       t_checksum := cksum_spec code |}.
  split; [exact Hf|]. split; [exact Hp|]. split.
  - destruct turbo; [apply demod_turbo_samples | apply demod_std_samples]; assumption.
  - unfold carries. cbn [t_base t_length t_name t_data t_checksum]. auto.
Qed.

(* the bit level on its own: the units are uniquely decodable, bit by bit, least significant
   bit first -- whatever follows *)
Theorem bits_roundtrip_std data rest : Forall is_byte_z data ->
  read_bytes (read_bit_std 4) (length data) (bits_ps false data ++ rest) = Some (data, rest).
Proof. intros H. apply (read_bytes_units _ _ _ std_unit_ok _ H). Qed.

Theorem bits_roundtrip_turbo data rest : Forall is_byte_z data ->
  read_bytes (read_bit_turbo 3) (length data) (map fst (bits_ps true data) ++ rest) = Some (data, rest).
Proof. intros H. rewrite map_fst_bits_ps. apply (read_bytes_units _ _ _ turbo_unit_ok _ H). Qed.
