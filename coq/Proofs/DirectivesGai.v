(* get_as_int (regenerated in Gen/GenGetAsInt.v): accepted iff the magnitude fits the field (and the sign,
   when unsigned); an accepted value is reduced modulo 2^n; a rejected one is always reported and never
   comes back truncated. *)
From Coq Require Import String List ZArith ZifyBool Lia Bool.
From Verif Require Import Base.Res Gen.GenGetAsInt.
Import ListNotations.
Open Scope string_scope.
Open Scope Z_scope.

Definition oob : string := "value-out-of-bounds".

(* the caller-visible effect of a rejection: report, then raise (no default) or hand back the default *)
Definition rejected (d : option Z) : gai_out :=
  match d with None => GaiErrRaise oob | Some x => GaiErrRet oob x end.

Definition admitted (n : Z) (u : bool) (v : Z) : Prop := Z.abs v < 2 ^ n /\ (u = true -> 0 <= v).

Lemma pow2_pos n : 0 <= n -> 0 < 2 ^ n.
Proof. intros. apply Z.pow_pos_nonneg; lia. Qed.

Lemma gai_raw_accept n u d v :
  0 <= n -> admitted n u v -> get_as_int_raw (Some n) u d v = GaiRet (v mod 2 ^ n).
Proof.
  intros Hn [Hv Hu]. pose proof (pow2_pos n Hn) as Hp.
  unfold get_as_int_raw, py_pow, rz_mod, py_mod, gai_of_res; simpl.
  destruct u; simpl.
  - specialize (Hu eq_refl).
    destruct (v <? 0) eqn:E1; [lia|].
    destruct (v <=? - 2 ^ n) eqn:E2; [lia|].
    destruct (v >=? 2 ^ n) eqn:E3; [lia|].
    destruct (2 ^ n =? 0) eqn:E4; [lia|]. reflexivity.
  - destruct (v <=? - 2 ^ n) eqn:E2; [lia|].
    destruct (v >=? 2 ^ n) eqn:E3; [lia|].
    destruct (2 ^ n =? 0) eqn:E4; [lia|]. reflexivity.
Qed.

Lemma gai_raw_reject n u d v :
  0 <= n -> ~ admitted n u v -> get_as_int_raw (Some n) u d v = rejected d.
Proof.
  intros Hn Hna. pose proof (pow2_pos n Hn) as Hp.
  unfold get_as_int_raw, py_pow, rejected, oob; simpl.
  destruct u; simpl.
  - destruct (v <? 0) eqn:E1; [destruct d; reflexivity|].
    destruct (v <=? - 2 ^ n) eqn:E2; [destruct d; reflexivity|].
    destruct (v >=? 2 ^ n) eqn:E3; [destruct d; reflexivity|].
    exfalso. apply Hna. split; [lia|intros _; lia].
  - destruct (v <=? - 2 ^ n) eqn:E2; [destruct d; reflexivity|].
    destruct (v >=? 2 ^ n) eqn:E3; [destruct d; reflexivity|].
    exfalso. apply Hna. split; [lia|intros; discriminate].
Qed.

Lemma admitted_dec n u v : {admitted n u v} + {~ admitted n u v}.
Proof.
  unfold admitted.
  destruct (Z_lt_ge_dec (Z.abs v) (2 ^ n)); [|right; lia].
  destruct u.
  - destruct (Z_le_gt_dec 0 v); [left; auto|right]. intros [_ H]. specialize (H eq_refl). lia.
  - left. split; [assumption|discriminate].
Qed.

(* the statement of DESIGN 4 C06 *)
Lemma get_as_int_spec n u v :
  0 <= n ->
  (forall r, get_as_int (Some n) u None v = Ok r <-> (admitted n u v /\ r = v mod 2 ^ n)) /\
  (~ admitted n u v -> get_as_int (Some n) u None v = Err [oob]).
Proof.
  intros Hn. split.
  - intros r. unfold get_as_int. destruct (admitted_dec n u v) as [A|A].
    + rewrite (gai_raw_accept n u None v Hn A). split.
      * intros H; inversion H; auto.
      * intros [_ ->]; reflexivity.
    + rewrite (gai_raw_reject n u None v Hn A). simpl. split; [discriminate|intros [A' _]; contradiction].
  - intros A. unfold get_as_int. rewrite (gai_raw_reject n u None v Hn A). reflexivity.
Qed.

(* with a default: the value handed back after a rejection is the default, and the rejection is reported *)
Lemma get_as_int_default n u d v :
  0 <= n ->
  (admitted n u v -> get_as_int_raw (Some n) u (Some d) v = GaiRet (v mod 2 ^ n)) /\
  (~ admitted n u v -> get_as_int_raw (Some n) u (Some d) v = GaiErrRet oob d).
Proof.
  intros Hn. split; intros A.
  - apply gai_raw_accept; assumption.
  - rewrite (gai_raw_reject n u (Some d) v Hn A). reflexivity.
Qed.

(* no width (uint / int): only the sign is checked, the value is not reduced *)
Lemma get_as_int_unbounded u d v :
  get_as_int_raw None u d v = if u && (v <? 0) then rejected d else GaiRet v.
Proof.
  unfold get_as_int_raw, rejected, oob. destruct (u && (v <? 0)); [destruct d|]; reflexivity.
Qed.

(* a result is always inside the field *)
Lemma get_as_int_range n u v r : 0 <= n -> get_as_int (Some n) u None v = Ok r -> 0 <= r < 2 ^ n.
Proof.
  intros Hn H. apply (proj1 (get_as_int_spec n u v Hn)) in H. destruct H as [_ ->].
  apply Z.mod_pos_bound. apply pow2_pos; assumption.
Qed.
