(* Proofs/AsmRelocBytesP.v -- R_relocation_bytes: for a program of the class reloc_ok the bytes at base b + d are the
   bytes at base b with exactly the words of Model/AsmRelocBytes.stmt_mask moved by d modulo 2^16. *)
From Coq Require Import ZArith List String Ascii Bool NArith Lia.
From Verif Require Import Base.Res Base.Bytes Spec.PDP11 Spec.Arith Spec.DataSpec Gen.GenGetAsInt Gen.GenOpcodes
  Model.Insns Model.Directives Proofs.DirectivesGai Proofs.DirectivesFill Proofs.DirectivesData Proofs.DirectivesSpec
  Proofs.BlockInsns Model.Asm Model.AsmT Proofs.AsmSized Proofs.AsmP Proofs.AsmMeta Proofs.AsmSem Proofs.AsmReloc Model.AsmRelocBytes.
Import ListNotations.
Notation length := Datatypes.length.
Notation concat := List.concat.
Open Scope string_scope.
Open Scope list_scope.
Open Scope Z_scope.

Ltac xinv H :=
  repeat match type of H with
  | xbind ?r ?f = XOk _ =>
      let a := fresh "a" in let Ha := fresh "Ha" in
      apply xbind_ok in H; destruct H as [a [Ha H]]
  end.

Ltac binv H :=
  repeat match type of H with
  | bind ?r ?f = Ok _ => let a := fresh "a" in let Ha := fresh "Ha" in
      apply bind_ok_inv in H; destruct H as [a [Ha H]]
  end.

(* ---- words and bytes -------------------------------------------------------------------------------------------- *)
Lemma word_of_le r : 0 <= r < 65536 -> word_of (r mod 256) ((r / 256) mod 256) = r.
Proof. intros H. pose proof (le16_word r H) as Q. unfold le16 in Q. tauto. Qed.

Lemma mod16_range v : 0 <= v mod 65536 < 65536.
Proof. apply Z.mod_pos_bound. lia. Qed.

Lemma shift_mod v d : shift_word d (v mod 65536) = (v + d) mod 65536.
Proof. unfold shift_word. rewrite Z.add_mod_idemp_l by lia. reflexivity. Qed.

Lemma words_bytes_cons w ws : words_bytes (w :: ws) = le16 w ++ words_bytes ws.
Proof. reflexivity. Qed.

(* words_bytes of 16-bit words: patching the bytes is shifting the words *)
Lemma patch_words d : forall mask ws, Forall (fun w => 0 <= w < 65536) ws ->
  patch_bytes d mask (words_bytes ws) = words_bytes (shiftw d mask ws).
Proof.
  induction mask as [|m mask IH]; intros ws Hw; [destruct ws; reflexivity|].
  destruct ws as [|w ws]; [reflexivity|]. inversion Hw; subst.
  rewrite words_bytes_cons. unfold le16 at 1. cbn [app patch_bytes shiftw]. rewrite IH by assumption.
  rewrite words_bytes_cons. destruct m; [|reflexivity].
  rewrite word_of_le by assumption. reflexivity.
Qed.

Lemma shiftw_app d : forall m1 w1 m2 w2, length m1 = length w1 ->
  shiftw d (m1 ++ m2) (w1 ++ w2) = shiftw d m1 w1 ++ shiftw d m2 w2.
Proof.
  induction m1 as [|m m1 IH]; intros [|w w1] m2 w2 L; simpl in L; try discriminate; [reflexivity|].
  simpl. rewrite IH by lia. reflexivity.
Qed.

Lemma shiftw_length d : forall mask ws, length (shiftw d mask ws) = length ws.
Proof. induction mask as [|m mask IH]; intros [|w ws]; simpl; auto. Qed.

Lemma shiftw_false d n ws : shiftw d (repeat false n) ws = ws.
Proof. revert ws. induction n; intros [|w ws]; simpl; auto. rewrite IHn. reflexivity. Qed.

(* ---- the operands ------------------------------------------------------------------------------------------------ *)
Lemma closed_not_sym e : closed e = true -> is_sym e = false.
Proof. destruct e; simpl; auto; discriminate. Qed.

Lemma int16_val x w : int16 x = Ok w -> w = x mod 65536.
Proof.
  unfold int16. destruct (x <=? - 2 ^ 16); [discriminate|]. destruct (x >=? 2 ^ 16); [discriminate|].
  intros H. inversion H. reflexivity.
Qed.

(* no address in it: the encoding does not look at rel *)
Definition no_rel (o : operand) : bool := match o with ORel _ | ORelDef _ => false | _ => true end.

Lemma enc_stub_no_rel st o rel rel' : no_rel o = true -> enc_stub st o rel' = enc_stub st o rel.
Proof. destruct o; simpl; try discriminate; intros _; unfold enc_stub; destruct (sk st); reflexivity. Qed.

Section Ops.
Variable d : Z.
Variables ev ev' : expr -> xres Z.
Hypothesis Hc : forall e, closed e = true -> ev' e = ev e.
Hypothesis Hs : forall e, is_sym e = true -> ev' e = match ev e with XOk v => XOk (v + d) | r => r end.

Lemma sym_val e v v' : is_sym e = true -> ev e = XOk v -> ev' e = XOk v' -> v' = v + d.
Proof. intros S E E'. rewrite (Hs _ S), E in E'. inversion E'. reflexivity. Qed.

Lemma closed_val e v v' : closed e = true -> ev e = XOk v -> ev' e = XOk v' -> v' = v.
Proof. intros S E E'. rewrite (Hc _ S), E in E'. inversion E'. reflexivity. Qed.

Lemma mask_len st ao o : eval_opnd ev ao = XOk o -> length (opnd_mask st ao) = ext_of st o.
Proof.
  intros E. unfold opnd_mask. rewrite (ext_of_eval _ st _ _ E).
  assert (B : (ext_of st o <= 1)%nat) by (unfold ext_of; destruct (sk st), o; simpl; lia).
  destruct (ext_of st o) as [|[|n]]; simpl; lia.
Qed.

Lemma stub_shift st ao o o' rel v e v' e' :
  sk st <> SkImmediate -> reloc_opnd ao = true ->
  eval_opnd ev ao = XOk o -> eval_opnd ev' ao = XOk o' ->
  enc_stub st o rel = Ok (v, e) -> enc_stub st o' (rel + d) = Ok (v', e') ->
  v' = v /\ e' = shiftw d (opnd_mask st ao) e /\ length e = length (opnd_mask st ao).
Proof.
  intros Hk Hr E E' S S'.
  assert (L : length e = length (opnd_mask st ao)) by (rewrite (mask_len st ao o E); eapply enc_stub_len; eauto).
  assert (SAME : o' = o -> no_rel o = true -> opnd_moves ao = false ->
                 v' = v /\ e' = shiftw d (opnd_mask st ao) e /\ length e = length (opnd_mask st ao)).
  { intros -> N M. rewrite (enc_stub_no_rel st o rel (rel + d) N) in S'. rewrite S in S'. injection S' as Ev Ee. subst v' e'.
    split; [reflexivity|]. split; [|exact L]. unfold opnd_mask in *. rewrite M.
    destruct (ext_of_a st ao); [reflexivity|]. destruct e as [|w [|w2 e]]; simpl in L; try discriminate; reflexivity. }
  destruct ao; cbn [reloc_opnd] in Hr; cbn [eval_opnd] in E, E'; xinv E; xinv E'; inversion E; inversion E'; subst o o';
    try (apply andb_true_iff in Hr; destruct Hr as [Hr1 Hr2]).
  - apply SAME; auto. f_equal. eapply closed_val; eauto.
  - apply SAME; auto. f_equal. eapply closed_val; eauto.
  - apply SAME; auto. f_equal. eapply closed_val; eauto.
  - apply SAME; auto. f_equal. eapply closed_val; eauto.
  - apply SAME; auto. f_equal. eapply closed_val; eauto.
  - apply SAME; auto. f_equal. eapply closed_val; eauto.
  - apply SAME; auto. f_equal; (eapply closed_val; [ | eassumption | eassumption ]; assumption).
  - apply SAME; auto. f_equal; (eapply closed_val; [ | eassumption | eassumption ]; assumption).
  - (* #e *) unfold re_abs in Hr. destruct (closed v0) eqn:C.
    + apply SAME; auto; [f_equal; eapply closed_val; eauto|]. simpl. apply closed_not_sym; exact C.
    + simpl in Hr. pose proof (sym_val _ _ _ Hr Ha Ha0) as ->.
      clear SAME. unfold opnd_mask in *; cbn [opnd_moves] in *; rewrite Hr in *;
        unfold enc_stub, ext_of_a in *; destruct (sk st); try congruence; cbn [enc_fprm enc_regmode enc_register enc_fpacc] in S, S';
        try discriminate; binv S; binv S'; inversion S; inversion S'; subst;
        cbn [ext_form shiftw length]; apply int16_val in Ha1, Ha2; subst; rewrite shift_mod; auto.
  - (* @#e *) unfold re_abs in Hr. destruct (closed a) eqn:C.
    + apply SAME; auto; [f_equal; eapply closed_val; eauto|]. simpl. apply closed_not_sym; exact C.
    + simpl in Hr. pose proof (sym_val _ _ _ Hr Ha Ha0) as ->.
      clear SAME. unfold opnd_mask in *; cbn [opnd_moves] in *; rewrite Hr in *;
        unfold enc_stub, ext_of_a in *; destruct (sk st); try congruence; cbn [enc_fprm enc_regmode enc_register enc_fpacc] in S, S';
        try discriminate; binv S; binv S'; inversion S; inversion S'; subst;
        cbn [ext_form shiftw length]; apply int16_val in Ha1, Ha2; subst; rewrite shift_mod; auto.
  - (* relative *) pose proof (sym_val _ _ _ Hr Ha Ha0) as ->.
    assert (R : forall t, enc_rel (t + d) (rel + d) = enc_rel t rel) by (intros t0; unfold enc_rel; f_equal; lia).
    assert (O : forall u b t, enc_offset u b (t + d) (rel + d) = enc_offset u b t rel).
    { intros u b t0. unfold enc_offset. replace (t0 + d - (rel + d)) with (t0 - rel) by lia. reflexivity. }
    clear SAME. unfold opnd_mask in *; cbn [opnd_moves] in *;
      unfold enc_stub, ext_of_a in *; destruct (sk st); try congruence; cbn [enc_fprm enc_regmode enc_register enc_fpacc] in S, S';
      try discriminate; try rewrite O in S'; try rewrite R in S'; rewrite S in S'; injection S' as Ev Ee; subst v' e';
      (split; [reflexivity|split; [|exact L]]); cbn [ext_form] in *; try reflexivity;
      destruct e as [|w [|w2 e]]; simpl in L; try discriminate; reflexivity.
  - (* relative deferred *) pose proof (sym_val _ _ _ Hr Ha Ha0) as ->.
    assert (R : forall t, enc_rel (t + d) (rel + d) = enc_rel t rel) by (intros t0; unfold enc_rel; f_equal; lia).
    clear SAME. unfold opnd_mask in *; cbn [opnd_moves] in *;
      unfold enc_stub, ext_of_a in *; destruct (sk st); try congruence; cbn [enc_fprm enc_regmode enc_register enc_fpacc] in S, S';
      try discriminate; try rewrite R in S'; rewrite S in S'; injection S' as Ev Ee; subst v' e';
      (split; [reflexivity|split; [|exact L]]); cbn [ext_form] in *; try reflexivity;
      destruct e as [|w [|w2 e]]; simpl in L; try discriminate; reflexivity.
  - apply SAME; auto.
Qed.
End Ops.

(* ---- the opcode table: inline numbers exactly where the class expects them -------------------------------------- *)
Definition is_imm (st : stub) : bool := match sk st with SkImmediate => true | _ => false end.

Definition entry_ok (e : string * string) : bool :=
  match init_entry (snd e) with
  | Ok i => if inline_num (fst e) then forallb is_imm (stubs i) else forallb (fun st => negb (is_imm st)) (stubs i)
  | _ => true
  end.

Lemma table_ok : forallb entry_ok opcode_table = true.
Proof. vm_compute. reflexivity. Qed.

Lemma lookup_in m : forall t pat, lookup_pat m t = Some pat -> In (m, pat) t.
Proof.
  induction t as [|[k v] t IH]; simpl; intros pat H; [discriminate|].
  destruct (String.eqb k m) eqn:E; [apply String.eqb_eq in E; inversion H; subst; auto|right; auto].
Qed.

Lemma entry_of m pat i : lookup_pat m opcode_table = Some pat -> init_entry pat = Ok i ->
  if inline_num m then forallb is_imm (stubs i) = true else forallb (fun st => negb (is_imm st)) (stubs i) = true.
Proof.
  intros L I. pose proof (proj1 (forallb_forall _ _) table_ok _ (lookup_in _ _ _ L)) as Q.
  unfold entry_ok in Q. cbn [fst snd] in Q. rewrite I in Q. destruct (inline_num m); exact Q.
Qed.

Lemma enc_operands_imm sts : forallb is_imm sts = true -> forall ops addr addr' ext,
  enc_operands sts ops addr ext = enc_operands sts ops addr' ext.
Proof.
  induction sts as [|st sts IH]; intros H ops addr addr' ext; [reflexivity|].
  simpl in H. apply andb_true_iff in H. destruct H as [H1 H2]. destruct ops as [|o ops]; [reflexivity|].
  cbn [enc_operands]. unfold enc_stub. unfold is_imm in H1. destruct (sk st); try discriminate.
  destruct o; cbn [bind]; try reflexivity;
    (destruct (enc_imm _ _ _); cbn [bind]; [|reflexivity..]; rewrite (IH H2 ops addr addr'); reflexivity).
Qed.

Section Ops2.
Variable d : Z.
Variables ev ev' : expr -> xres Z.
Hypothesis Hc : forall e, closed e = true -> ev' e = ev e.
Hypothesis Hs : forall e, is_sym e = true -> ev' e = match ev e with XOk v => XOk (v + d) | r => r end.

Lemma ops_shift sts : forall aops os os' addr m0 ext0 vals ext vals' ext',
  forallb (fun st => negb (is_imm st)) sts = true -> forallb reloc_opnd aops = true ->
  xmapM (eval_opnd ev) aops = XOk os -> xmapM (eval_opnd ev') aops = XOk os' ->
  length ext0 = length m0 ->
  enc_operands sts os addr ext0 = Ok (vals, ext) -> enc_operands sts os' (addr + d) (shiftw d m0 ext0) = Ok (vals', ext') ->
  vals' = vals /\ ext' = shiftw d (m0 ++ ops_mask sts aops) ext /\ length ext = length (m0 ++ ops_mask sts aops).
Proof.
  induction sts as [|st sts IH]; intros aops os os' addr m0 ext0 vals ext vals' ext' Hk Hr E E' L S S'.
  - cbn [enc_operands ops_mask] in *. inversion S; inversion S'; subst. rewrite app_nil_r. auto.
  - destruct aops as [|ao aops].
    + cbn [xmapM] in E, E'. inversion E; inversion E'; subst. cbn [enc_operands ops_mask] in *.
      inversion S; inversion S'; subst. rewrite app_nil_r. auto.
    + cbn [xmapM] in E, E'. xinv E. xinv E'. inversion E; inversion E'; subst os os'. clear E E'.
      cbn [forallb] in Hk, Hr. apply andb_true_iff in Hk, Hr. destruct Hk as [Hk1 Hk2], Hr as [Hr1 Hr2].
      cbn [enc_operands] in S, S'. binv S. binv S'. destruct a3 as [v e], a5 as [v' e']. cbn [fst snd] in *.
      inversion S; inversion S'; subst vals ext vals' ext'. clear S S'.
      destruct a4 as [vs1 ex1], a6 as [vs1' ex1']. cbn [fst snd] in *.
      rewrite shiftw_length in Ha5.
      replace (addr + d + 2 + 2 * Z.of_nat (length ext0)) with (addr + 2 + 2 * Z.of_nat (length ext0) + d) in Ha5 by lia.
      assert (NK : sk st <> SkImmediate) by (unfold is_imm in Hk1; destruct (sk st); try discriminate; simpl in Hk1; discriminate).
      destruct (stub_shift d ev ev' Hc Hs st ao _ _ _ _ _ _ _ NK Hr1 Ha Ha1 Ha3 Ha5) as [-> [-> Le]].
      rewrite <- shiftw_app in Ha6 by (symmetry; exact L).
      assert (L2 : length (ext0 ++ e) = length (m0 ++ opnd_mask st ao)) by (rewrite !app_length; lia).
      destruct (IH aops _ _ addr _ _ _ _ _ _ Hk2 Hr2 Ha0 Ha2 L2 Ha4 Ha6) as [-> [-> Lx]].
      cbn [ops_mask]. rewrite app_assoc. auto.
Qed.

Lemma insn_shift m aops os os' addr ws ws' : reloc_stmt (Insn m aops) = true ->
  xmapM (eval_opnd ev) aops = XOk os -> xmapM (eval_opnd ev') aops = XOk os' ->
  compile_insn m os addr = Ok ws -> compile_insn m os' (addr + d) = Ok ws' ->
  ws' = shiftw d (insn_mask m aops) ws /\ (length (insn_mask m aops) <= length ws)%nat.
Proof.
  intros Hr E E' S S'. cbn [reloc_stmt] in Hr. unfold insn_mask.
  unfold compile_insn in S, S'. destruct (lookup_pat m opcode_table) as [pat|] eqn:L; [|discriminate].
  binv S. binv S'. rewrite Ha in Ha0. inversion Ha0; subst a0. clear Ha0. rewrite Ha.
  pose proof (entry_of _ _ _ L Ha) as T.
  destruct (inline_num m).
  - (* the operands are literal numbers *)
    assert (os' = os).
    { assert (Q : xmapM (eval_opnd ev') aops = xmapM (eval_opnd ev) aops).
      { apply xmapM_agree with (P := fun o => match o with ARel e => closed e | _ => false end); [|exact Hr].
        intros [] Hx; try discriminate. cbn [eval_opnd]. rewrite (Hc _ Hx). reflexivity. }
      rewrite Q, E in E'. inversion E'. reflexivity. }
    subst os'. unfold compile_with in S, S'. rewrite (enc_operands_imm _ T os (addr + d) addr) in S'.
    rewrite S in S'. inversion S'. split; [reflexivity|simpl; lia].
  - unfold compile_with in S, S'.
    destruct (negb (Nat.eqb (length os) (length (stubs a)))); [discriminate|].
    destruct (negb (Nat.eqb (length os') (length (stubs a)))); [discriminate|].
    binv S. binv S'. destruct a0 as [vals ext], a2 as [vals' ext']. cbn [fst snd] in *.
    destruct (ops_shift (stubs a) aops os os' addr [] [] vals ext vals' ext' T Hr E E' eq_refl Ha0 Ha2) as [-> [-> Le]].
    rewrite Ha1 in Ha3. inversion Ha3; subst a3. inversion S; inversion S'; subst. cbn [app] in *.
    split; [reflexivity|simpl; lia].
Qed.
End Ops2.

(* ---- extension words are 16-bit words ------------------------------------------------------------------------------ *)
Definition w16 (w : Z) : Prop := 0 <= w < 65536.

Lemma enc_regmode_range o rel v e : enc_regmode o rel = Ok (v, e) -> Forall w16 e.
Proof.
  destruct o; simpl; intros H; try discriminate; binv H; inversion H; subst; repeat constructor;
    try (match goal with Hi : int16 _ = Ok _ |- _ => apply int16_val in Hi; subst; apply mod16_range end);
    unfold enc_rel; apply Z.mod_pos_bound; lia.
Qed.

Lemma enc_stub_range st o rel v e : enc_stub st o rel = Ok (v, e) -> Forall w16 e.
Proof.
  intros H. destruct (ext_of st o) eqn:X.
  - apply enc_stub_len in H. rewrite X in H. destruct e; [constructor|discriminate].
  - unfold enc_stub in H. unfold ext_of in X. destruct (sk st); try discriminate.
    + eapply enc_regmode_range; eauto.
    + unfold enc_fprm in H. destruct o; try discriminate; eapply enc_regmode_range; eauto.
Qed.

Lemma enc_operands_range sts : forall ops addr ext vs ext',
  Forall w16 ext -> enc_operands sts ops addr ext = Ok (vs, ext') -> Forall w16 ext'.
Proof.
  induction sts as [|st sts IH]; intros ops addr ext vs ext' F H; [inversion H; subst; exact F|].
  destruct ops as [|o ops]; [inversion H; subst; exact F|].
  cbn [enc_operands] in H. binv H. destruct a as [v e], a0 as [vs1 ex1]. cbn [fst snd] in *. inversion H; subst.
  eapply IH; [|exact Ha0]. apply Forall_app. split; [exact F|]. eapply enc_stub_range; eauto.
Qed.

Lemma compile_insn_range m os addr ws : compile_insn m os addr = Ok ws -> exists w ext, ws = w :: ext /\ Forall w16 ext.
Proof.
  unfold compile_insn. destruct (lookup_pat m opcode_table); [|discriminate]. intros H. binv H.
  unfold compile_with in H. destruct (negb _); [discriminate|]. binv H. destruct a0 as [vals ext]. inversion H; subst.
  exists a1, ext. split; [reflexivity|]. eapply enc_operands_range; [constructor|exact Ha0].
Qed.

Lemma patch_words_hd d mask w ext : match mask with true :: _ => False | _ => True end -> Forall w16 ext ->
  patch_bytes d mask (words_bytes (w :: ext)) = words_bytes (shiftw d mask (w :: ext)).
Proof.
  intros Hm F. destruct mask as [|[|] mask]; [reflexivity|contradiction|].
  rewrite words_bytes_cons. unfold le16. cbn [app patch_bytes shiftw]. rewrite patch_words by exact F. reflexivity.
Qed.

Lemma insn_mask_hd m ops : match insn_mask m ops with true :: _ => False | _ => True end.
Proof.
  unfold insn_mask. destruct (inline_num m); [exact I|]. destruct (lookup_pat m opcode_table); [|exact I].
  destruct (init_entry s); exact I.
Qed.

(* ---- data words --------------------------------------------------------------------------------------------------- *)
Lemma vb16 v : value_bytes W16 v = le16 (v mod 65536).
Proof. reflexivity. Qed.

Lemma wordlist_emit_ok enc vs addr bs :
  out_x (emit enc (DWordList vs) addr) = XOk bs -> bs = concat (map (value_bytes W16) vs).
Proof.
  intros E. apply out_x_ok in E. destruct E as [ds [E He]].
  destruct (forallb (fits W16) vs) eqn:F.
  2:{ rewrite words_out_of_range in E by exact F. discriminate. }
  destruct (parity addr) as [P|P].
  - rewrite words_ok in E by auto. inversion E; subst. auto.
  - rewrite words_odd in E by auto. inversion E; subst. discriminate.
Qed.

Section Stmt.
Variable enc : list N -> option (list Z).
Variable d : Z.
Hypothesis Hd : d mod 2 = 0.
Variables ev ev' : expr -> xres Z.
Hypothesis Hc : forall e, closed e = true -> ev' e = ev e.
Hypothesis Hs : forall e, is_sym e = true -> ev' e = match ev e with XOk v => XOk (v + d) | r => r end.

Lemma words_patch es : forall vs vs', forallb re_abs es = true ->
  xmapM ev es = XOk vs -> xmapM ev' es = XOk vs' ->
  concat (map (value_bytes W16) vs') = patch_bytes d (map is_sym es) (concat (map (value_bytes W16) vs)) /\
  length vs = length es /\ length vs' = length es.
Proof.
  induction es as [|e es IH]; intros vs vs' Hr E E'; cbn [xmapM] in E, E'.
  - inversion E; inversion E'; subst. auto.
  - xinv E. xinv E'. inversion E; inversion E'; subst vs vs'. cbn [forallb] in Hr. apply andb_true_iff in Hr. destruct Hr as [H1 H2].
    destruct (IH _ _ H2 Ha0 Ha2) as [I1 [I2 I3]]. cbn [map concat length]. split; [|split; congruence].
    rewrite !vb16. unfold le16 at 2. cbn [app patch_bytes]. rewrite <- I1.
    unfold re_abs in H1. destruct (closed e) eqn:C.
    + rewrite (closed_not_sym _ C). rewrite (closed_val ev ev' Hc _ _ _ C Ha Ha1). reflexivity.
    + simpl in H1. rewrite H1. rewrite (sym_val d ev ev' Hs _ _ _ H1 Ha Ha1).
      rewrite word_of_le by apply mod16_range. rewrite shift_mod. reflexivity.
Qed.

Lemma concat_vb16_length vs : length (concat (map (value_bytes W16) vs)) = (2 * length vs)%nat.
Proof. induction vs as [|v vs IH]; [reflexivity|]. cbn [map concat]. rewrite app_length, IH, vb16. simpl. lia. Qed.

Lemma xmapM_closed es : forallb closed es = true -> xmapM ev' es = xmapM ev es.
Proof. apply xmapM_agree. exact Hc. Qed.

Lemma stmt_reloc s a c c' : reloc_stmt s = true ->
  emit_leaf enc ev a s = XOk c -> emit_leaf enc ev' (a + d) s = XOk c' ->
  c' = patch_bytes d (stmt_mask s) c /\ (2 * length (stmt_mask s) <= length c)%nat.
Proof.
  intros Hr E E'.
  assert (SAME : stmt_mask s = [] -> c' = c -> c' = patch_bytes d (stmt_mask s) c /\ (2 * length (stmt_mask s) <= length c)%nat).
  { intros -> ->. split; [reflexivity|simpl; lia]. }
  assert (CH : forall cs, forallb (fun c => match c with CStr _ => true | CCode e => closed e end) cs = true ->
               xmapM (eval_chunk ev') cs = xmapM (eval_chunk ev) cs /\ xmapM (eval_rchunk ev') cs = xmapM (eval_rchunk ev) cs).
  { intros cs H. split; apply xmapM_agree with (P := fun ch => match ch with CStr _ => true | CCode e => closed e end); auto;
      intros [t|e] Hx; simpl; [reflexivity| |reflexivity|]; rewrite (Hc _ Hx); reflexivity. }
  destruct s; cbn [reloc_stmt] in Hr; try discriminate; cbn [emit_leaf] in E, E'.
  - (* Label *) apply SAME; [reflexivity|congruence].
  - apply SAME; [reflexivity|congruence].
  - (* Insn *) xinv E. xinv E'. inversion E; inversion E'; subst c c'. apply lift_ok in Ha0, Ha2.
    destruct (insn_shift d ev ev' Hc Hs m ops _ _ a _ _ Hr Ha Ha1 Ha0 Ha2) as [-> Ln]. cbn [stmt_mask].
    destruct (compile_insn_range _ _ _ _ Ha0) as [w [ext [-> F]]].
    rewrite (patch_words_hd d _ w ext (insn_mask_hd m ops) F). split; [reflexivity|]. rewrite words_bytes_length. lia.
  - (* Byte *) rewrite (xmapM_closed _ Hr) in E'. xinv E. xinv E'. rewrite Ha in Ha0. inversion Ha0; subst a1.
    change ".byte" with (vname W8) in E, E'. change (Asm.plain a0) with (DirectivesData.plain a0) in E, E'.
    destruct (data_emit_ok _ _ _ _ _ E) as [-> _]. destruct (data_emit_ok _ _ _ _ _ E') as [-> _]. apply SAME; reflexivity.
  - (* Word *) xinv E. xinv E'.
    change ".word" with (vname W16) in E, E'. change (Asm.plain a0) with (DirectivesData.plain a0) in E.
    change (Asm.plain a1) with (DirectivesData.plain a1) in E'.
    destruct (data_emit_ok _ _ _ _ _ E) as [-> _]. destruct (data_emit_ok _ _ _ _ _ E') as [-> _].
    destruct (words_patch es _ _ Hr Ha Ha0) as [P [L1 L2]]. cbn [stmt_mask]. unfold stated.
    destruct a0 as [|v0 r0], a1 as [|v1 r1], es as [|e0 es]; simpl in L1, L2; try discriminate.
    + split; [reflexivity|simpl; lia].
    + split; [exact P|]. rewrite concat_vb16_length, map_length. simpl. lia.
  - (* Dword *) rewrite (xmapM_closed _ Hr) in E'. xinv E. xinv E'. rewrite Ha in Ha0. inversion Ha0; subst a1.
    change ".dword" with (vname W32) in E, E'. change (Asm.plain a0) with (DirectivesData.plain a0) in E, E'.
    destruct (data_emit_ok _ _ _ _ _ E) as [-> _]. destruct (data_emit_ok _ _ _ _ _ E') as [-> _]. apply SAME; reflexivity.
  - (* WordList *) xinv E. xinv E'. apply wordlist_emit_ok in E, E'. subst c c'.
    destruct (words_patch es _ _ Hr Ha Ha0) as [P [L1 L2]]. cbn [stmt_mask]. split; [exact P|].
    rewrite concat_vb16_length, map_length. lia.
  - (* Blkb *) rewrite (Hc _ Hr) in E'. xinv E. xinv E'. rewrite Ha in Ha0. inversion Ha0; subst a1.
    assert (Q : emit enc (DMeta ".blkb" [(false, a0)]) (a + d) = emit enc (DMeta ".blkb" [(false, a0)]) a) by (rewrite !emit_blkb; reflexivity).
    rewrite Q in E'. apply SAME; [reflexivity|congruence].
  - rewrite (Hc _ Hr) in E'. xinv E. xinv E'. rewrite Ha in Ha0. inversion Ha0; subst a1.
    assert (Q : emit enc (DMeta ".blkw" [(false, a0)]) (a + d) = emit enc (DMeta ".blkw" [(false, a0)]) a) by (rewrite !emit_blkw; reflexivity).
    rewrite Q in E'. apply SAME; [reflexivity|congruence].
  - (* Even *) rewrite (even_shift enc d Hd) in E'. apply SAME; [reflexivity|congruence].
  - rewrite (odd_shift enc d Hd) in E'. apply SAME; [reflexivity|congruence].
  - (* Ascii *) rewrite (proj1 (CH _ Hr)) in E'. xinv E. xinv E'. rewrite Ha in Ha0. inversion Ha0; subst a1.
    apply SAME; [reflexivity|]. change (emit enc (DAscii z [a0]) (a + d)) with (emit enc (DAscii z [a0]) a) in E'. congruence.
  - (* Rad50 *) rewrite (proj2 (CH _ Hr)) in E'. apply SAME; [reflexivity|congruence].
  - (* Insert *) apply SAME; [reflexivity|congruence].
  - apply SAME; [reflexivity|congruence].
Qed.
End Stmt.

(* ---- the whole program ------------------------------------------------------------------------------------------- *)
Definition stmt_chunks (d : Z) (it : item) (c c' : list Z) : Prop :=
  c' = patch_bytes d (stmt_mask (i_stmt it)) c /\ (2 * length (stmt_mask (i_stmt it)) <= length c)%nat.

Lemma lay_list_class enc D K X fuel l : forallb reloc_stmt l = true -> forall st st' its,
  lay_list enc D K X fuel false l st = XOk (st', its) -> Forall (fun it => reloc_stmt (i_stmt it) = true) its.
Proof.
  induction l as [|x r IH]; intros Hl st st' its H; simpl in H.
  - inversion H. constructor.
  - simpl in Hl. apply andb_true_iff in Hl. destruct Hl as [Hx Hr].
    assert (Nr : is_repeat x = false) by (destruct x; simpl in Hx; try discriminate; reflexivity).
    rewrite lay_stmt_leaf in H by exact Nr. xinv H. destruct a as [s1 d1], a0 as [s2 d2]. cbn [fst snd] in *. inversion H; subst.
    apply Forall_app. split; [|eapply IH; eauto].
    destruct (lay_leaf_ext _ _ _ _ _ _ _ _ _ _ Ha) as [it [-> [_ [[Q|[e [Q _]]] _]]]].
    + constructor; [rewrite Q; exact Hx|constructor].
    + subst x. discriminate.
Qed.

(* the first item is the `.link b` itself *)
Lemma first_item enc b rest f : forallb reloc_stmt rest = true -> 0 <= b < 65536 ->
  assemble_full enc (at_base b rest) = XOk f ->
  exists it0, f_items f = it0 :: tl (f_items f) /\ stmt_mask (i_stmt it0) = [].
Proof.
  intros Hr Hb H. destruct (reloc_collect _ Hr) as [C1 [C2 [C3 C4]]].
  destruct (assemble_full_inv _ _ _ H) as [st [dv [Hx [Hfb [Hl [Hdv [Hs [He Hg]]]]]]]].
  unfold at_base in *. cbn [cut_end] in *. rewrite C3 in *.
  cbn [Asm.lay_list Asm.lay_stmt] in Hl. unfold Asm.lay_leaf in Hl. cbn [l_inc l_based l_file l_scope l_addr l_labels l_ddots xbind fst snd app] in Hl.
  xinv Hl. destruct a as [s1 d1]. cbn [fst snd] in Hl. injection Hl as E1 E2.
  eexists. rewrite <- E2. cbn [tl app]. split; reflexivity.
Qed.

Section Whole.
Variable enc : list N -> option (list Z).
Variable d : Z.
Hypothesis Hd : d mod 2 = 0.

Lemma items_reloc T : forall its its', Forall2 (item_shift d) its its' -> forall cs cs',
  Forall (fun it => reloc_stmt (i_stmt it) = true) its ->
  xmapM (emit_item enc [] T) its = XOk cs -> xmapM (emit_item enc [] (shiftT d T)) its' = XOk cs' ->
  Forall3 (stmt_chunks d) its cs cs'.
Proof.
  induction 1 as [|it it' its its' Hi Hf IH]; intros cs cs' Hc E E'; cbn [xmapM] in E, E'.
  - inversion E; inversion E'; subst. constructor.
  - xinv E. xinv E'. inversion E; inversion E'; subst cs cs'. inversion Hc; subst.
    constructor; [|apply IH; assumption].
    destruct Hi as [Ea [Es [Et Ez]]]. unfold emit_item in Ha, Ha1. rewrite Ea, Es, Et in Ha1.
    refine (stmt_reloc enc d Hd _ _ _ _ (i_stmt it) (i_addr it) a a1 H1 Ha Ha1).
    + intros e He. exact (proj1 (reloc_values enc d T (i_scope it) (i_addr it) (i_addr it + d) e ltac:(unfold re_abs; rewrite He; reflexivity)) He).
    + intros e He. exact (proj2 (reloc_values enc d T (i_scope it) (i_addr it) (i_addr it + d) e ltac:(unfold re_abs; rewrite He; apply orb_true_r)) He).
Qed.
End Whole.

Theorem reloc_bytes enc b d rest f f' :
  reloc_ok rest = true -> d mod 2 = 0 -> 0 <= b < 65536 -> 0 <= b + d < 65536 ->
  assemble_full enc (at_base b rest) = XOk f -> assemble_full enc (at_base (b + d) rest) = XOk f' ->
  Forall3 (stmt_chunks d) (f_items f) (f_chunks f) (f_chunks f').
Proof.
  intros Hr Hd Hb Hb' H H'.
  destruct (reloc_layout enc b d rest f f' Hr Hd Hb Hb' H H') as [_ [_ [[it0 [it0' [tl0 [tl0' [I [I' [Z0 [Z0' It]]]]]]]] [S [CH _]]]]].
  unfold reloc_ok in Hr.
  destruct (at_base_inv _ _ _ _ Hr Hb H) as [st [_ [_ [L [_ [_ [E G]]]]]]].
  destruct (at_base_inv _ _ _ _ Hr Hb' H') as [st' [_ [_ [L' [_ [_ [E' G']]]]]]].
  destruct (first_item _ _ _ _ Hr Hb H) as [i0 [J M0]].
  rewrite I in J. inversion J; subst i0. clear J.
  rewrite I in L, E, G. rewrite I' in L', E', G'. cbn [tl] in L, L'.
  pose proof (lay_list_class _ _ _ _ _ _ Hr _ _ _ L) as Cl.
  rewrite S in E'. cbn [xmapM] in E, E'. xinv E. xinv E'. rewrite I.
  destruct (f_chunks f) as [|c0 cs]; [discriminate|]. destruct (f_chunks f') as [|c0' cs']; [discriminate|].
  inversion E; inversion E'; subst. inversion CH; subst.
  constructor; [|eapply items_reloc; eauto].
  cbn [combine forallb] in G, G'. apply andb_true_iff in G, G'. destruct G as [G _], G' as [G' _].
  unfold size_ok in G, G'. cbn [fst snd] in G, G'. apply Z.eqb_eq in G, G'. unfold Asm.zlen in *.
  destruct c0; [|simpl in G; lia]. destruct c0'; [|simpl in G'; lia].
  unfold stmt_chunks. rewrite M0. split; [reflexivity|simpl; lia].
Qed.

(* ---- the same, byte by byte -------------------------------------------------------------------------------------- *)
Lemma byte_at_app1 c1 c2 i : 0 <= i < Z.of_nat (length c1) -> byte_at (c1 ++ c2) i = byte_at c1 i.
Proof. intros H. unfold byte_at. apply app_nth1. lia. Qed.

Lemma byte_at_app2 c1 c2 i : Z.of_nat (length c1) <= i -> byte_at (c1 ++ c2) i = byte_at c2 (i - Z.of_nat (length c1)).
Proof. intros H. unfold byte_at. rewrite app_nth2 by lia. f_equal. lia. Qed.

Lemma in_word_app o1 o2 i : in_word (o1 ++ o2) i = in_word o1 i || in_word o2 i.
Proof. unfold in_word. apply existsb_app. Qed.

Lemma in_word_map n offs i : in_word (map (Z.add n) offs) i = in_word offs (i - n).
Proof.
  unfold in_word. induction offs as [|o r IH]; [reflexivity|]. cbn [map existsb]. rewrite IH. f_equal.
  destruct (Z.leb_spec (n + o) i), (Z.leb_spec o (i - n)), (Z.ltb_spec i (n + o + 2)), (Z.ltb_spec (i - n) (o + 2)); simpl; try reflexivity; lia.
Qed.

Lemma chunk_reloc_app d o1 o2 c1 c1' c2 c2' : chunk_reloc d o1 c1 c1' -> chunk_reloc d o2 c2 c2' ->
  chunk_reloc d (o1 ++ map (Z.add (Z.of_nat (length c1))) o2) (c1 ++ c2) (c1' ++ c2').
Proof.
  intros [L1 [B1 W1]] [L2 [B2 W2]]. split; [rewrite !app_length; lia|]. split.
  - intros i Hi Hn. rewrite in_word_app, in_word_map in Hn. apply orb_false_iff in Hn. destruct Hn as [N1 N2].
    destruct (Z_lt_le_dec i (Z.of_nat (length c1))) as [Q|Q].
    + rewrite !byte_at_app1 by lia. apply B1; assumption.
    + rewrite !byte_at_app2 by lia. rewrite L1. apply B2; [lia|exact N2].
  - intros o Ho. apply in_app_or in Ho. destruct Ho as [Ho|Ho].
    + destruct (W1 _ Ho) as [P1 [P2 P3]]. split; [lia|]. split; [rewrite app_length; lia|].
      unfold word_at in *. rewrite !byte_at_app1 by lia. exact P3.
    + apply in_map_iff in Ho. destruct Ho as [o' [<- Ho]]. destruct (W2 _ Ho) as [P1 [P2 P3]].
      split; [lia|]. split; [rewrite app_length; lia|].
      unfold word_at in *. rewrite !byte_at_app2 by lia. rewrite L1.
      replace (Z.of_nat (length c1) + o' - Z.of_nat (length c1)) with o' by lia.
      replace (Z.of_nat (length c1) + o' + 1 - Z.of_nat (length c1)) with (o' + 1) by lia. exact P3.
Qed.

Lemma chunk_reloc_refl d c : chunk_reloc d [] c c.
Proof. split; [reflexivity|]. split; [reflexivity|]. intros o []. Qed.

Lemma mask_offsets_shift k : forall mask p, mask_offsets (k + p) mask = map (Z.add k) (mask_offsets p mask).
Proof.
  induction mask as [|m mask IH]; intros p; [reflexivity|]. cbn [mask_offsets]. rewrite map_app.
  replace (k + p + 2) with (k + (p + 2)) by lia. rewrite IH. destruct m; reflexivity.
Qed.

Lemma le16_word_of w : 0 <= w < 65536 -> word_at (le16 w) 0 = w.
Proof. intros H. unfold word_at, byte_at, le16. simpl. apply word_of_le. exact H. Qed.

Lemma patch_reloc d : forall mask c, (2 * length mask <= length c)%nat ->
  chunk_reloc d (mask_offsets 0 mask) c (patch_bytes d mask c).
Proof.
  induction mask as [|m mask IH]; intros c L; [destruct c; apply chunk_reloc_refl|].
  destruct c as [|x [|y r]]; simpl in L; try lia. cbn [patch_bytes mask_offsets].
  change (x :: y :: r) with ([x; y] ++ r).
  replace (0 + 2) with (2 + 0) by lia. rewrite mask_offsets_shift.
  apply (chunk_reloc_app d _ _ [x; y]); [|apply IH; lia].
  destruct m; [|apply chunk_reloc_refl].
  split; [reflexivity|]. split.
  - intros i Hi Hn. unfold in_word in Hn. simpl in Hn. unfold byte_at.
    destruct (Z.to_nat i) as [|[|n]] eqn:Q; [lia|lia|]. destruct n; reflexivity.
  - intros o [<-|[]]. split; [lia|]. split; [simpl; lia|].
    rewrite le16_word_of by apply mod16_range. reflexivity.
Qed.

Definition stmt_bytes (d : Z) (it : item) (c c' : list Z) : Prop := chunk_reloc d (abs_word_offsets (i_stmt it)) c c'.

Lemma Forall3_impl {A B C} (R R' : A -> B -> C -> Prop) la lb lc :
  (forall a b c, R a b c -> R' a b c) -> Forall3 R la lb lc -> Forall3 R' la lb lc.
Proof. intros H. induction 1; constructor; auto. Qed.

Lemma image_offsets_shift : forall its cs p, image_offsets p its cs = map (Z.add p) (image_offsets 0 its cs).
Proof.
  induction its as [|it its IH]; intros [|c cs] p; try reflexivity. cbn [image_offsets].
  rewrite map_app, map_map. rewrite (IH cs (p + _)), (IH cs (0 + _)), map_map. f_equal; apply map_ext; intros; lia.
Qed.

Lemma image_reloc d its cs cs' : Forall3 (stmt_bytes d) its cs cs' ->
  chunk_reloc d (image_offsets 0 its cs) (concat cs) (concat cs').
Proof.
  induction 1 as [|it c c' its cs cs' H F IH]; [apply chunk_reloc_refl|].
  cbn [image_offsets concat]. rewrite image_offsets_shift.
  replace (map (Z.add 0) (abs_word_offsets (i_stmt it))) with (abs_word_offsets (i_stmt it)) by (symmetry; erewrite map_ext; [apply map_id|reflexivity]).
  simpl Z.add. apply chunk_reloc_app; assumption.
Qed.

Lemma patch_chunks_eq d its cs cs' : Forall3 (stmt_chunks d) its cs cs' -> cs' = patch_chunks d its cs.
Proof. unfold patch_chunks. induction 1 as [|it c c' its cs cs' [H _] F IH]; [reflexivity|]. simpl. congruence. Qed.

(* R_relocation_bytes *)
Theorem reloc_bytes_thm enc b d rest f f' :
  reloc_ok rest = true -> d mod 2 = 0 -> 0 <= b < 65536 -> 0 <= b + d < 65536 ->
  assemble_full enc (at_base b rest) = XOk f -> assemble_full enc (at_base (b + d) rest) = XOk f' ->
  Forall3 (stmt_bytes d) (f_items f) (f_chunks f) (f_chunks f') /\
  f_chunks f' = patch_chunks d (f_items f) (f_chunks f) /\
  chunk_reloc d (image_offsets 0 (f_items f) (f_chunks f)) (concat (f_chunks f)) (concat (f_chunks f')).
Proof.
  intros Hr Hd Hb Hb' H H'. pose proof (reloc_bytes enc b d rest f f' Hr Hd Hb Hb' H H') as Q.
  assert (Q2 : Forall3 (stmt_bytes d) (f_items f) (f_chunks f) (f_chunks f')).
  { eapply Forall3_impl; [|exact Q]. intros it c c' [-> L]. apply patch_reloc. exact L. }
  split; [exact Q2|]. split; [apply patch_chunks_eq; exact Q|apply image_reloc; exact Q2].
Qed.
