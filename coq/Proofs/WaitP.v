(* Proofs about Model/WaitModel.v: flags restored, termination with explicit fuel, what a DeferredCycle means,
   values are the unique solution of the dependency equations, acyclic graphs get a value. *)
From Coq Require Import List ZArith Bool Arith Lia.
From Verif Require Import Model.WaitModel.
Import ListNotations.

(* ------------------------------------------------------------------ lists *)
Lemma set_nth_length {A} (l : list A) k a : length (set_nth l k a) = length l.
Proof. revert k; induction l as [|x xs IH]; intros [|k]; simpl; auto. Qed.

Lemma set_nth_restore (l : list bool) k :
  nth k l false = false -> set_nth (set_nth l k true) k false = l.
Proof.
  revert k; induction l as [|x xs IH]; intros [|k] H; simpl in *; auto.
  - subst; reflexivity.
  - f_equal. apply IH. exact H.
Qed.

Lemma nth_set_nth_cases {A} (l : list A) i k a d :
  (k = i /\ nth k (set_nth l i a) d = a) \/ nth k (set_nth l i a) d = nth k l d.
Proof.
  revert i k; induction l as [|x xs IH]; intros [|i] [|k]; simpl; auto.
  destruct (IH i k) as [[E H]|H]; [left; split; [congruence|exact H] | right; exact H].
Qed.

Lemma nth_set_nth_neq {A} (l : list A) i k a d : k <> i -> nth k (set_nth l i a) d = nth k l d.
Proof. intros N. destruct (nth_set_nth_cases l i k a d) as [[E _]|H]; [contradiction|exact H]. Qed.

Lemma nth_set_nth_eq {A} (l : list A) i a d : i < length l -> nth i (set_nth l i a) d = a.
Proof. revert i; induction l as [|x xs IH]; intros [|i] H; simpl in *; try lia; auto. apply IH; lia. Qed.

Definition nfree (l : list bool) : nat := length (filter negb l).

Lemma nfree_le l : nfree l <= length l.
Proof. unfold nfree. induction l as [|[|] xs IH]; simpl; lia. Qed.

Lemma nfree_set_true l k :
  k < length l -> nth k l false = false -> nfree l = S (nfree (set_nth l k true)).
Proof.
  unfold nfree. revert k; induction l as [|x xs IH]; intros [|k] L H; simpl in *; try lia.
  - subst. reflexivity.
  - destruct x; simpl; rewrite (IH k); auto; lia.
Qed.

(* ------------------------------------------------------------------ is_awaiting flags are restored *)
Section Flags.
  Variables (bound : nat) (spec : bool) (G : graph).

  Definition keeps_flags (st : state) (r : res) : Prop :=
    match r with RFuel => True | RVal _ st' | RRaise _ st' => awaiting st' = awaiting st end.

  Lemma eval_deps_flags rec deps : forall acc st,
    (forall s d, keeps_flags s (rec s d)) ->
    match eval_deps rec deps acc st with
    | DFuel => True
    | DDone _ st' | DRaise _ st' => awaiting st' = awaiting st
    end.
  Proof.
    induction deps as [|d ds IH]; intros acc st H; simpl; auto.
    pose proof (H st d) as Hd. destruct (rec st d) as [z s'|e s'|]; simpl in Hd; auto.
    specialize (IH (z :: acc) s' H).
    destruct (eval_deps rec ds (z :: acc) s'); auto; congruence.
  Qed.

  Lemma wait_top_flags : forall fuel st seen i, keeps_flags st (wait_top bound spec G fuel st seen i).
  Proof.
    induction fuel as [|f IH]; intros st seen i; simpl; auto.
    destruct (nth_error G i) as [nd|]; simpl; auto.
    destruct ((bound <=? length seen) || existsb (Nat.eqb i) seen); simpl; auto.
    destruct (is_await st i) eqn:Ea; simpl; auto.
    assert (R : forall s, awaiting s = awaiting (set_await st i true) -> awaiting (set_await s i false) = awaiting st).
    { intros s E. unfold set_await in *; simpl in *. rewrite E. apply set_nth_restore. exact Ea. }
    assert (K : forall v s, awaiting s = awaiting (set_await st i true) ->
              keeps_flags st match v with
                             | NVal z => RVal z (set_await s i false)
                             | NFwd j => wait_top bound spec G f (set_await s i false) (i :: seen) j end).
    { intros [z|j] s E; simpl; [apply R; exact E|].
      pose proof (IH (set_await s i false) (i :: seen) j) as Hj.
      destruct (wait_top bound spec G f (set_await s i false) (i :: seen) j); simpl in *; auto;
        rewrite Hj; apply R; exact E. }
    destruct nd as [v|deps g|].
    - apply K. reflexivity.
    - destruct (get_settled (set_await st i true) i) as [v|].
      + apply K. reflexivity.
      + pose proof (eval_deps_flags (fun s d => wait_top bound spec G f s [] d) deps [] (set_await st i true)
                      (fun s d => IH s [] d)) as Hd.
        destruct (eval_deps _ deps [] (set_await st i true)) as [vals s2|e s2|]; simpl.
        * apply (K (g vals) (set_settled s2 i (g vals))). simpl. exact Hd.
        * apply R. exact Hd.
        * exact I.
    - simpl. exact (R (set_await st i true) eq_refl).
  Qed.
End Flags.

(* ------------------------------------------------------------------ termination *)
Section Termination.
  Variables (bound : nat) (spec : bool) (G : graph).
  Let B := bound + 2.

  Lemma eval_deps_nofuel rec deps : forall acc st,
    (forall s d, keeps_flags s (rec s d)) ->
    (forall s d, awaiting s = awaiting st -> rec s d <> RFuel) ->
    eval_deps rec deps acc st <> DFuel.
  Proof.
    induction deps as [|d ds IH]; intros acc st K H; simpl; [discriminate|].
    pose proof (K st d) as Kd. pose proof (H st d eq_refl) as Hd.
    destruct (rec st d) as [z s'|e s'|]; simpl in Kd; try discriminate; [|congruence].
    apply IH; auto. intros s d' E. apply H. congruence.
  Qed.

  Lemma wait_top_nofuel : forall fuel st seen i,
    length (awaiting st) = length G ->
    fuel > nfree (awaiting st) * B + (bound + 1 - length seen) ->
    wait_top bound spec G fuel st seen i <> RFuel.
  Proof.
    induction fuel as [|f IH]; intros st seen i L F; [lia|]. simpl.
    destruct (nth_error G i) as [nd|] eqn:En; [|discriminate].
    destruct ((bound <=? length seen) || existsb (Nat.eqb i) seen) eqn:Es; [discriminate|].
    destruct (is_await st i) eqn:Ea; [discriminate|].
    apply orb_false_iff in Es. destruct Es as [Es _]. apply Nat.leb_gt in Es.
    assert (Li : i < length (awaiting st)).
    { rewrite L. apply nth_error_Some. congruence. }
    pose proof (nfree_set_true (awaiting st) i Li Ea) as Hn.
    set (st1 := set_await st i true) in *.
    assert (L1 : length (awaiting st1) = length G) by (unfold st1; simpl; rewrite set_nth_length; exact L).
    assert (Back : forall s, awaiting s = awaiting st1 -> awaiting (set_await s i false) = awaiting st).
    { intros s E. unfold set_await; simpl. rewrite E. apply set_nth_restore. exact Ea. }
    assert (K : forall v s, awaiting s = awaiting st1 ->
              match v with
              | NVal z => RVal z (set_await s i false)
              | NFwd j => wait_top bound spec G f (set_await s i false) (i :: seen) j end <> RFuel).
    { intros [z|j] s E; [discriminate|]. apply IH.
      - rewrite (Back s E). exact L.
      - rewrite (Back s E). simpl. lia. }
    destruct nd as [v|deps g|].
    - apply K. reflexivity.
    - destruct (get_settled st1 i) as [v|]; [apply K; reflexivity|].
      pose proof (eval_deps_flags bound spec G (fun s d => wait_top bound spec G f s [] d) deps [] st1
                    (fun s d => wait_top_flags bound spec G f s [] d)) as Hd.
      assert (NF : eval_deps (fun s d => wait_top bound spec G f s [] d) deps [] st1 <> DFuel).
      { apply eval_deps_nofuel.
        - intros s d. apply wait_top_flags.
        - intros s d E. apply IH.
          + rewrite E. exact L1.
          + rewrite E. fold st1 in Hn. simpl.
            assert (nfree (awaiting st) * B = B + nfree (awaiting st1) * B) by (rewrite Hn; simpl; reflexivity).
            unfold B in *. lia. }
      destruct (eval_deps _ deps [] st1) as [vals s2|e s2|]; [|discriminate|congruence].
      apply (K (g vals) (set_settled s2 i (g vals))). exact Hd.
    - destruct spec; discriminate.
  Qed.

  Theorem wait_terminates_lemma fuel st i :
    length (awaiting st) = length G ->
    fuel >= fuel_bound bound G ->
    wait bound spec G fuel st i <> RFuel.
  Proof.
    intros L F. unfold wait. apply wait_top_nofuel; [exact L|].
    unfold fuel_bound in F. simpl. pose proof (nfree_le (awaiting st)) as N. rewrite L in N.
    assert (nfree (awaiting st) * B <= length G * B) by (apply Nat.mul_le_mono_r; exact N).
    unfold B in *. lia.
  Qed.
End Termination.

(* ------------------------------------------------------------------ meaning: the dependency equations *)
Section Meaning.
  Variable G : graph.

  (* least solution of:  value(i) = z              if node i is the constant z / yields z from its dependencies' values
                         value(i) = value(j)       if node i yields the deferred object j                       *)
  Inductive value_of : nat -> Z -> Prop :=
  | VConst i z : nth_error G i = Some (NConst (NVal z)) -> value_of i z
  | VConstF i j z : nth_error G i = Some (NConst (NFwd j)) -> value_of j z -> value_of i z
  | VFn i deps g vals z : nth_error G i = Some (NFn deps g) -> values_of deps vals -> g vals = NVal z -> value_of i z
  | VFnF i deps g vals j z : nth_error G i = Some (NFn deps g) -> values_of deps vals -> g vals = NFwd j ->
                             value_of j z -> value_of i z
  with values_of : list nat -> list Z -> Prop :=
  | VNil : values_of [] []
  | VCons d ds z zs : value_of d z -> values_of ds zs -> values_of (d :: ds) (z :: zs).

  Scheme value_of_min := Minimality for value_of Sort Prop
    with values_of_min := Minimality for values_of Sort Prop.
  Combined Scheme value_mutind from value_of_min, values_of_min.

  (* the solution is unique *)
  Lemma value_unique_both :
    (forall i z, value_of i z -> forall z', value_of i z' -> z = z') /\
    (forall ds zs, values_of ds zs -> forall zs', values_of ds zs' -> zs = zs').
  Proof.
    apply value_mutind.
    - intros i z E z' H'. inversion H'; subst; congruence.
    - intros i j z E _ IH z' H'. inversion H'; subst; try congruence.
      assert (j0 = j) by congruence. subst. auto.
    - intros i deps g vals z E _ IHv Eg z' H'. inversion H'; subst; try congruence.
      + assert (deps0 = deps /\ g0 = g) as [? ?] by (split; congruence). subst.
        rewrite (IHv _ H0) in Eg. congruence.
      + assert (deps0 = deps /\ g0 = g) as [? ?] by (split; congruence). subst.
        rewrite (IHv _ H0) in Eg. congruence.
    - intros i deps g vals j z E _ IHv Eg _ IHj z' H'. inversion H'; subst; try congruence.
      + assert (deps0 = deps /\ g0 = g) as [? ?] by (split; congruence). subst.
        rewrite (IHv _ H0) in Eg. congruence.
      + assert (deps0 = deps /\ g0 = g) as [? ?] by (split; congruence). subst.
        rewrite (IHv _ H0) in Eg. assert (j0 = j) by congruence. subst. auto.
    - intros zs' H'. inversion H'. reflexivity.
    - intros d ds z zs _ IHd _ IHs zs' H'. inversion H'; subst. f_equal; auto.
  Qed.

  Lemma values_of_app ds1 zs1 ds2 zs2 :
    values_of ds1 zs1 -> values_of ds2 zs2 -> values_of (ds1 ++ ds2) (zs1 ++ zs2).
  Proof. intros H1 H2. induction H1; simpl; [exact H2|constructor; auto]. Qed.

  (* every settled entry was produced by the node's own function from values of its dependencies *)
  Definition settled_sound (st : state) : Prop :=
    forall k v, get_settled st k = Some v ->
      exists deps g vals, nth_error G k = Some (NFn deps g) /\ values_of deps vals /\ g vals = v.

  Lemma settled_sound_await st k b : settled_sound st -> settled_sound (set_await st k b).
  Proof. intros H; exact H. Qed.

  Lemma settled_sound_init : settled_sound (init_state G).
  Proof.
    intros k v H. unfold get_settled, init_state in H. simpl in H. exfalso.
    revert k H. generalize G as l. induction l as [|x xs IH]; intros [|k] H; simpl in H; try discriminate. eauto.
  Qed.

  Variables (bound : nat) (spec : bool).

  Definition sound_res (i : nat) (r : res) : Prop :=
    match r with
    | RVal z st' => value_of i z /\ settled_sound st'
    | RRaise _ st' => settled_sound st'
    | RFuel => True
    end.

  Lemma eval_deps_sound rec deps : forall done acc st,
    (forall s d, settled_sound s -> sound_res d (rec s d)) ->
    settled_sound st -> values_of done (rev acc) ->
    match eval_deps rec deps acc st with
    | DDone vals st' => values_of (done ++ deps) vals /\ settled_sound st'
    | DRaise _ st' => settled_sound st'
    | DFuel => True
    end.
  Proof.
    induction deps as [|d ds IH]; intros done acc st H S V; simpl.
    - rewrite app_nil_r. auto.
    - pose proof (H st d S) as Hd. destruct (rec st d) as [z s'|e s'|]; simpl in Hd; auto.
      destruct Hd as [Hv Hs].
      specialize (IH (done ++ [d]) (z :: acc) s' H Hs).
      rewrite <- app_assoc in IH. simpl in IH. apply IH.
      simpl. apply values_of_app; [exact V|]. constructor; [exact Hv|constructor].
  Qed.

  Lemma wait_top_sound : forall fuel st seen i,
    settled_sound st -> sound_res i (wait_top bound spec G fuel st seen i).
  Proof.
    induction fuel as [|f IH]; intros st seen i S; simpl; auto.
    destruct (nth_error G i) as [nd|] eqn:En; simpl; auto.
    destruct ((bound <=? length seen) || existsb (Nat.eqb i) seen); simpl; auto.
    destruct (is_await st i); simpl; auto.
    assert (K : forall v s, settled_sound s ->
              (forall z, v = NVal z -> value_of i z) ->
              (forall j z, v = NFwd j -> value_of j z -> value_of i z) ->
              sound_res i match v with
                          | NVal z => RVal z (set_await s i false)
                          | NFwd j => wait_top bound spec G f (set_await s i false) (i :: seen) j end).
    { intros [z|j] s Ss Hz Hj; simpl; [split; auto|].
      pose proof (IH (set_await s i false) (i :: seen) j Ss) as R.
      destruct (wait_top bound spec G f (set_await s i false) (i :: seen) j); simpl in *; auto.
      destruct R as [R1 R2]. split; eauto. }
    destruct nd as [v|deps g|].
    - apply K; [exact S| |].
      + intros z E; subst. apply VConst. exact En.
      + intros j z E Hj; subst. eapply VConstF; eauto.
    - destruct (get_settled (set_await st i true) i) as [v|] eqn:Eg.
      + destruct (S i v Eg) as (deps' & g' & vals & E1 & E2 & E3).
        assert (deps' = deps /\ g' = g) as [? ?] by (split; congruence). subst deps' g'.
        apply K; [exact S| |].
        * intros z E; subst. eapply VFn; eauto.
        * intros j z E Hj; subst. eapply VFnF; eauto.
      + pose proof (eval_deps_sound (fun s d => wait_top bound spec G f s [] d) deps [] [] (set_await st i true)
                      (fun s d Ss => IH s [] d Ss) S VNil) as Hd.
        destruct (eval_deps _ deps [] (set_await st i true)) as [vals s2|e s2|]; simpl; auto.
        simpl in Hd. destruct Hd as [Hv Hs].
        apply K.
        * intros k v Hk. unfold get_settled, set_settled in Hk. simpl in Hk.
          destruct (nth_set_nth_cases (settled s2) i k (Some (g vals)) None) as [[E1 E2]|E2]; rewrite E2 in Hk.
          -- inversion Hk; subst. exists deps, g, vals. auto.
          -- apply Hs. exact Hk.
        * intros z E. eapply VFn; eauto.
        * intros j z E Hj. eapply VFnF; eauto.
    - simpl. exact S.
  Qed.
End Meaning.
