(* Proofs about Model/WaitModel.v: flags restored, termination with explicit fuel, what a DeferredCycle means,
   values are the unique solution of the dependency equations, acyclic graphs get a value. *)
From Coq Require Import List ZArith Bool Arith Lia.
From Verif Require Import Model.WaitModel.
Import ListNotations.

(* ------------------------------------------------------------------ lists *)
Lemma set_nth_length {A} (l : list A) k a : length (set_nth l k a) = length l.
Proof. revert k; induction l as [|x xs IH]; intros [|k]; simpl; auto. Qed.

Lemma set_nth_restore (l : list bool) k :
  nth k l false = false -> set_nth (set_nth l k true) k false = l.
Proof.
  revert k; induction l as [|x xs IH]; intros [|k] H; simpl in *; auto.
  - subst; reflexivity.
  - f_equal. apply IH. exact H.
Qed.

Lemma nth_set_nth_cases {A} (l : list A) i k a d :
  (k = i /\ nth k (set_nth l i a) d = a) \/ nth k (set_nth l i a) d = nth k l d.
Proof.
  revert i k; induction l as [|x xs IH]; intros [|i] [|k]; simpl; auto.
  destruct (IH i k) as [[E H]|H]; [left; split; [congruence|exact H] | right; exact H].
Qed.

Lemma nth_set_nth_neq {A} (l : list A) i k a d : k <> i -> nth k (set_nth l i a) d = nth k l d.
Proof. intros N. destruct (nth_set_nth_cases l i k a d) as [[E _]|H]; [contradiction|exact H]. Qed.

Lemma nth_set_nth_eq {A} (l : list A) i a d : i < length l -> nth i (set_nth l i a) d = a.
Proof. revert i; induction l as [|x xs IH]; intros [|i] H; simpl in *; try lia; auto. apply IH; lia. Qed.

Definition nfree (l : list bool) : nat := length (filter negb l).

Lemma nfree_le l : nfree l <= length l.
Proof. unfold nfree. induction l as [|[|] xs IH]; simpl; lia. Qed.

Lemma nfree_set_true l k :
  k < length l -> nth k l false = false -> nfree l = S (nfree (set_nth l k true)).
Proof.
  unfold nfree. revert k; induction l as [|x xs IH]; intros [|k] L H; simpl in *; try lia.
  - subst. reflexivity.
  - destruct x; simpl; rewrite (IH k); auto; lia.
Qed.

(* ------------------------------------------------------------------ the memo only touches its own field *)
Lemma awaiting_memo_rec um spec e s i : awaiting (memo_rec um spec e s i) = awaiting s.
Proof. unfold memo_rec. destruct (um && spec && is_nr e); reflexivity. Qed.
Lemma settled_memo_rec um spec e s i : settled (memo_rec um spec e s i) = settled s.
Proof. unfold memo_rec. destruct (um && spec && is_nr e); reflexivity. Qed.

(* ------------------------------------------------------------------ is_awaiting flags are restored *)
Section Flags.
  Variables (um : bool) (bound bound2 : nat) (isp : nat -> bool) (spec : bool) (G : graph).

  Definition keeps_flags (st : state) (r : res) : Prop :=
    match r with RFuel => True | RVal _ st' | RRaise _ st' => awaiting st' = awaiting st end.

  Lemma eval_deps_flags rec deps : forall acc st,
    (forall s d, keeps_flags s (rec s d)) ->
    match eval_deps rec deps acc st with
    | DFuel => True
    | DDone _ st' | DRaise _ st' => awaiting st' = awaiting st
    end.
  Proof.
    induction deps as [|d ds IH]; intros acc st H; simpl; auto.
    pose proof (H st d) as Hd. destruct (rec st d) as [z s'|e s'|]; simpl in Hd; auto.
    specialize (IH (z :: acc) s' H).
    destruct (eval_deps rec ds (z :: acc) s'); auto; congruence.
  Qed.

  Lemma wait_top_flags : forall fuel st seen p i, keeps_flags st (wait_top um bound bound2 isp spec G fuel st seen p i).
  Proof.
    induction fuel as [|f IH]; intros st seen p i; simpl; auto.
    destruct (nth_error G i) as [nd|]; simpl; auto.
    destruct (stop_check bound bound2 seen p i); simpl; auto.
    destruct (memo_hit um spec st i); simpl; auto.
    destruct (is_await st i) eqn:Ea; simpl; auto.
    assert (R : forall s, awaiting s = awaiting (set_await st i true) -> awaiting (set_await s i false) = awaiting st).
    { intros s E. unfold set_await in *; simpl in *. rewrite E. apply set_nth_restore. exact Ea. }
    assert (K : forall v s, awaiting s = awaiting (set_await st i true) ->
              keeps_flags st match v with
                             | NVal z => RVal z (set_await s i false)
                             | NFwd j => wait_top um bound bound2 isp spec G f (set_await s i false) (i :: seen) (next_p isp p i j) j end).
    { intros [z|j] s E; simpl; [apply R; exact E|].
      pose proof (IH (set_await s i false) (i :: seen) (next_p isp p i j) j) as Hj.
      destruct (wait_top um bound bound2 isp spec G f (set_await s i false) (i :: seen) (next_p isp p i j) j); simpl in *; auto;
        rewrite Hj; apply R; exact E. }
    destruct nd as [v|deps g|].
    - apply K. reflexivity.
    - destruct (get_settled (set_await st i true) i) as [v|].
      + apply K. reflexivity.
      + pose proof (eval_deps_flags (fun s d => wait_top um bound bound2 isp spec G f s [] 0 d) deps [] (set_await st i true)
                      (fun s d => IH s [] 0 d)) as Hd.
        destruct (eval_deps _ deps [] (set_await st i true)) as [vals s2|e s2|]; simpl.
        * apply (K (g vals) (set_settled s2 i (g vals))). simpl. exact Hd.
        * rewrite awaiting_memo_rec. apply R. exact Hd.
        * exact I.
    - simpl. rewrite awaiting_memo_rec. exact (R (set_await st i true) eq_refl).
  Qed.

  (* the memo is only ever written on the way out of a NotReadyError: a call that returns a value left it alone *)
  Definition keeps_memo (st : state) (r : res) : Prop :=
    match r with RVal _ st' => memo st' = memo st | _ => True end.

  Lemma eval_deps_memo rec deps : forall acc st,
    (forall s d, keeps_memo s (rec s d)) ->
    match eval_deps rec deps acc st with DDone _ st' => memo st' = memo st | _ => True end.
  Proof.
    induction deps as [|d ds IH]; intros acc st H; simpl; auto.
    pose proof (H st d) as Hd. destruct (rec st d) as [z s'|e s'|]; simpl in Hd; auto.
    specialize (IH (z :: acc) s' H).
    destruct (eval_deps rec ds (z :: acc) s'); auto; congruence.
  Qed.

  Lemma wait_top_memo : forall fuel st seen p i, keeps_memo st (wait_top um bound bound2 isp spec G fuel st seen p i).
  Proof.
    induction fuel as [|f IH]; intros st seen p i; simpl; auto.
    destruct (nth_error G i) as [nd|]; simpl; auto.
    destruct (stop_check bound bound2 seen p i); simpl; auto.
    destruct (memo_hit um spec st i); simpl; auto.
    destruct (is_await st i); simpl; auto.
    assert (K : forall v s, memo s = memo st ->
              keeps_memo st match v with
                            | NVal z => RVal z (set_await s i false)
                            | NFwd j => wait_top um bound bound2 isp spec G f (set_await s i false) (i :: seen) (next_p isp p i j) j end).
    { intros [z|j] s E; simpl; [exact E|].
      pose proof (IH (set_await s i false) (i :: seen) (next_p isp p i j) j) as Hj.
      destruct (wait_top um bound bound2 isp spec G f (set_await s i false) (i :: seen) (next_p isp p i j) j); simpl in *; auto.
      rewrite Hj. exact E. }
    destruct nd as [v|deps g|].
    - apply K. reflexivity.
    - destruct (get_settled (set_await st i true) i) as [v|].
      + apply K. reflexivity.
      + pose proof (eval_deps_memo (fun s d => wait_top um bound bound2 isp spec G f s [] 0 d) deps [] (set_await st i true)
                      (fun s d => IH s [] 0 d)) as Hd.
        destruct (eval_deps _ deps [] (set_await st i true)) as [vals s2|e s2|]; simpl; auto.
    - simpl. exact I.
  Qed.
End Flags.

(* ------------------------------------------------------------------ termination *)
Section Termination.
  Variables (um : bool) (bound bound2 : nat) (isp : nat -> bool) (spec : bool) (G : graph).
  Let B := bound + 2.

  Lemma eval_deps_nofuel rec deps : forall acc st,
    (forall s d, keeps_flags s (rec s d)) ->
    (forall s d, awaiting s = awaiting st -> rec s d <> RFuel) ->
    eval_deps rec deps acc st <> DFuel.
  Proof.
    induction deps as [|d ds IH]; intros acc st K H; simpl; [discriminate|].
    pose proof (K st d) as Kd. pose proof (H st d eq_refl) as Hd.
    destruct (rec st d) as [z s'|e s'|]; simpl in Kd; try discriminate; [|congruence].
    apply IH; auto. intros s d' E. apply H. congruence.
  Qed.

  Lemma wait_top_nofuel : forall fuel st seen p i,
    length (awaiting st) = length G ->
    fuel > nfree (awaiting st) * B + (bound + 1 - length seen) ->
    wait_top um bound bound2 isp spec G fuel st seen p i <> RFuel.
  Proof.
    induction fuel as [|f IH]; intros st seen p i L F; [lia|]. simpl.
    destruct (nth_error G i) as [nd|] eqn:En; [|discriminate].
    destruct (stop_check bound bound2 seen p i) eqn:Es; [discriminate|].
    destruct (memo_hit um spec st i); [discriminate|].
    destruct (is_await st i) eqn:Ea; [discriminate|].
    unfold stop_check in Es. apply orb_false_iff in Es. destruct Es as [Es _]. apply orb_false_iff in Es. destruct Es as [Es _]. apply Nat.leb_gt in Es.
    assert (Li : i < length (awaiting st)).
    { rewrite L. apply nth_error_Some. congruence. }
    pose proof (nfree_set_true (awaiting st) i Li Ea) as Hn.
    set (st1 := set_await st i true) in *.
    assert (L1 : length (awaiting st1) = length G) by (unfold st1; simpl; rewrite set_nth_length; exact L).
    assert (Back : forall s, awaiting s = awaiting st1 -> awaiting (set_await s i false) = awaiting st).
    { intros s E. unfold set_await; simpl. rewrite E. apply set_nth_restore. exact Ea. }
    assert (K : forall v s, awaiting s = awaiting st1 ->
              match v with
              | NVal z => RVal z (set_await s i false)
              | NFwd j => wait_top um bound bound2 isp spec G f (set_await s i false) (i :: seen) (next_p isp p i j) j end <> RFuel).
    { intros [z|j] s E; [discriminate|]. apply IH.
      - rewrite (Back s E). exact L.
      - rewrite (Back s E). simpl. lia. }
    destruct nd as [v|deps g|].
    - apply K. reflexivity.
    - destruct (get_settled st1 i) as [v|]; [apply K; reflexivity|].
      pose proof (eval_deps_flags (fun s d => wait_top um bound bound2 isp spec G f s [] 0 d) deps [] st1
                    (fun s d => wait_top_flags um bound bound2 isp spec G f s [] 0 d)) as Hd.
      assert (NF : eval_deps (fun s d => wait_top um bound bound2 isp spec G f s [] 0 d) deps [] st1 <> DFuel).
      { apply eval_deps_nofuel.
        - intros s d. apply wait_top_flags.
        - intros s d E. apply IH.
          + rewrite E. exact L1.
          + rewrite E. fold st1 in Hn. simpl.
            assert (nfree (awaiting st) * B = B + nfree (awaiting st1) * B) by (rewrite Hn; simpl; reflexivity).
            unfold B in *. lia. }
      destruct (eval_deps _ deps [] st1) as [vals s2|e s2|]; [|discriminate|congruence].
      apply (K (g vals) (set_settled s2 i (g vals))). exact Hd.
    - destruct spec; discriminate.
  Qed.

  Theorem wait_terminates_lemma fuel st i :
    length (awaiting st) = length G ->
    fuel >= fuel_bound bound G ->
    wait um bound bound2 isp spec G fuel st i <> RFuel.
  Proof.
    intros L F. unfold wait. apply wait_top_nofuel; [exact L|].
    unfold fuel_bound in F. simpl. pose proof (nfree_le (awaiting st)) as N. rewrite L in N.
    assert (nfree (awaiting st) * B <= length G * B) by (apply Nat.mul_le_mono_r; exact N).
    unfold B in *. lia.
  Qed.
End Termination.

(* ------------------------------------------------------------------ meaning: the dependency equations *)
Section Meaning.
  Variable G : graph.

  (* least solution of:  value(i) = z              if node i is the constant z / yields z from its dependencies' values
                         value(i) = value(j)       if node i yields the deferred object j                       *)
  Inductive value_of : nat -> Z -> Prop :=
  | VConst i z : nth_error G i = Some (NConst (NVal z)) -> value_of i z
  | VConstF i j z : nth_error G i = Some (NConst (NFwd j)) -> value_of j z -> value_of i z
  | VFn i deps g vals z : nth_error G i = Some (NFn deps g) -> values_of deps vals -> g vals = NVal z -> value_of i z
  | VFnF i deps g vals j z : nth_error G i = Some (NFn deps g) -> values_of deps vals -> g vals = NFwd j ->
                             value_of j z -> value_of i z
  with values_of : list nat -> list Z -> Prop :=
  | VNil : values_of [] []
  | VCons d ds z zs : value_of d z -> values_of ds zs -> values_of (d :: ds) (z :: zs).

  Scheme value_of_min := Minimality for value_of Sort Prop
    with values_of_min := Minimality for values_of Sort Prop.
  Combined Scheme value_mutind from value_of_min, values_of_min.

  (* the solution is unique *)
  Lemma value_unique_both :
    (forall i z, value_of i z -> forall z', value_of i z' -> z = z') /\
    (forall ds zs, values_of ds zs -> forall zs', values_of ds zs' -> zs = zs').
  Proof.
    apply value_mutind.
    - intros i z E z' H'. inversion H'; subst; congruence.
    - intros i j z E _ IH z' H'. inversion H'; subst; try congruence.
      assert (j0 = j) by congruence. subst. auto.
    - intros i deps g vals z E _ IHv Eg z' H'. inversion H'; subst; try congruence.
      + assert (deps0 = deps /\ g0 = g) as [? ?] by (split; congruence). subst.
        rewrite (IHv _ H0) in Eg. congruence.
      + assert (deps0 = deps /\ g0 = g) as [? ?] by (split; congruence). subst.
        rewrite (IHv _ H0) in Eg. congruence.
    - intros i deps g vals j z E _ IHv Eg _ IHj z' H'. inversion H'; subst; try congruence.
      + assert (deps0 = deps /\ g0 = g) as [? ?] by (split; congruence). subst.
        rewrite (IHv _ H0) in Eg. congruence.
      + assert (deps0 = deps /\ g0 = g) as [? ?] by (split; congruence). subst.
        rewrite (IHv _ H0) in Eg. assert (j0 = j) by congruence. subst. auto.
    - intros zs' H'. inversion H'. reflexivity.
    - intros d ds z zs _ IHd _ IHs zs' H'. inversion H'; subst. f_equal; auto.
  Qed.

  Lemma values_of_app ds1 zs1 ds2 zs2 :
    values_of ds1 zs1 -> values_of ds2 zs2 -> values_of (ds1 ++ ds2) (zs1 ++ zs2).
  Proof. intros H1 H2. induction H1; simpl; [exact H2|constructor; auto]. Qed.

  (* every settled entry was produced by the node's own function from values of its dependencies *)
  Definition settled_sound (st : state) : Prop :=
    forall k v, get_settled st k = Some v ->
      exists deps g vals, nth_error G k = Some (NFn deps g) /\ values_of deps vals /\ g vals = v.

  Lemma settled_sound_await st k b : settled_sound st -> settled_sound (set_await st k b).
  Proof. intros H; exact H. Qed.

  Lemma settled_sound_memo_rec um spec e st k : settled_sound st -> settled_sound (memo_rec um spec e st k).
  Proof. intros H j v Hj. apply H. unfold get_settled in *. rewrite settled_memo_rec in Hj. exact Hj. Qed.

  Lemma settled_sound_init : settled_sound (init_state G).
  Proof.
    intros k v H. unfold get_settled, init_state in H. simpl in H. exfalso.
    revert k H. generalize G as l. induction l as [|x xs IH]; intros [|k] H; simpl in H; try discriminate. eauto.
  Qed.

  Variables (um : bool) (bound bound2 : nat) (isp : nat -> bool) (spec : bool).

  Definition sound_res (i : nat) (r : res) : Prop :=
    match r with
    | RVal z st' => value_of i z /\ settled_sound st'
    | RRaise _ st' => settled_sound st'
    | RFuel => True
    end.

  Lemma eval_deps_sound rec deps : forall done acc st,
    (forall s d, settled_sound s -> sound_res d (rec s d)) ->
    settled_sound st -> values_of done (rev acc) ->
    match eval_deps rec deps acc st with
    | DDone vals st' => values_of (done ++ deps) vals /\ settled_sound st'
    | DRaise _ st' => settled_sound st'
    | DFuel => True
    end.
  Proof.
    induction deps as [|d ds IH]; intros done acc st H S V; simpl.
    - rewrite app_nil_r. auto.
    - pose proof (H st d S) as Hd. destruct (rec st d) as [z s'|e s'|]; simpl in Hd; auto.
      destruct Hd as [Hv Hs].
      specialize (IH (done ++ [d]) (z :: acc) s' H Hs).
      rewrite <- app_assoc in IH. simpl in IH. apply IH.
      simpl. apply values_of_app; [exact V|]. constructor; [exact Hv|constructor].
  Qed.

  Lemma wait_top_sound : forall fuel st seen p i,
    settled_sound st -> sound_res i (wait_top um bound bound2 isp spec G fuel st seen p i).
  Proof.
    induction fuel as [|f IH]; intros st seen p i S; simpl; auto.
    destruct (nth_error G i) as [nd|] eqn:En; simpl; auto.
    destruct (stop_check bound bound2 seen p i); simpl; auto.
    destruct (memo_hit um spec st i); simpl; auto.
    destruct (is_await st i); simpl; auto.
    assert (K : forall v s, settled_sound s ->
              (forall z, v = NVal z -> value_of i z) ->
              (forall j z, v = NFwd j -> value_of j z -> value_of i z) ->
              sound_res i match v with
                          | NVal z => RVal z (set_await s i false)
                          | NFwd j => wait_top um bound bound2 isp spec G f (set_await s i false) (i :: seen) (next_p isp p i j) j end).
    { intros [z|j] s Ss Hz Hj; simpl; [split; auto|].
      pose proof (IH (set_await s i false) (i :: seen) (next_p isp p i j) j Ss) as R.
      destruct (wait_top um bound bound2 isp spec G f (set_await s i false) (i :: seen) (next_p isp p i j) j); simpl in *; auto.
      destruct R as [R1 R2]. split; eauto. }
    destruct nd as [v|deps g|].
    - apply K; [exact S| |].
      + intros z E; subst. apply VConst. exact En.
      + intros j z E Hj; subst. eapply VConstF; eauto.
    - destruct (get_settled (set_await st i true) i) as [v|] eqn:Eg.
      + destruct (S i v Eg) as (deps' & g' & vals & E1 & E2 & E3).
        assert (deps' = deps /\ g' = g) as [? ?] by (split; congruence). subst deps' g'.
        apply K; [exact S| |].
        * intros z E; subst. eapply VFn; eauto.
        * intros j z E Hj; subst. eapply VFnF; eauto.
      + pose proof (eval_deps_sound (fun s d => wait_top um bound bound2 isp spec G f s [] 0 d) deps [] [] (set_await st i true)
                      (fun s d Ss => IH s [] 0 d Ss) S VNil) as Hd.
        destruct (eval_deps _ deps [] (set_await st i true)) as [vals s2|e s2|]; simpl; auto;
          [|apply settled_sound_memo_rec; exact Hd].
        simpl in Hd. destruct Hd as [Hv Hs].
        apply K.
        * intros k v Hk. unfold get_settled, set_settled in Hk. simpl in Hk.
          destruct (nth_set_nth_cases (settled s2) i k (Some (g vals)) None) as [[E1 E2]|E2]; rewrite E2 in Hk.
          -- inversion Hk; subst. exists deps, g, vals. auto.
          -- apply Hs. exact Hk.
        * intros z E. eapply VFn; eauto.
        * intros j z E Hj. eapply VFnF; eauto.
    - simpl. apply settled_sound_memo_rec. exact S.
  Qed.
End Meaning.

(* ------------------------------------------------------------------ what a DeferredCycle means *)
Section Cycle.
  Variable G : graph.

  (* node i can yield the deferred object j / node i waits for j *)
  Definition fedge (i j : nat) : Prop :=
    match nth_error G i with
    | Some (NConst (NFwd k)) => k = j
    | Some (NFn deps g) => exists vals, g vals = NFwd j
    | _ => False
    end.
  Definition dedge (i j : nat) : Prop :=
    match nth_error G i with
    | Some (NFn deps g) => In j deps
    | _ => False
    end.
  Definition edge (i j : nat) : Prop := fedge i j \/ dedge i j.

  Inductive reach : nat -> nat -> Prop :=
  | reach1 i j : edge i j -> reach i j
  | reachS i k j : reach i k -> edge k j -> reach i j.

  Lemma reach_edge_l i k j : edge i k -> reach k j -> reach i j.
  Proof.
    intros E R. induction R as [a b E'|a c b R IH E'].
    - eapply reachS; [apply reach1; exact E|exact E'].
    - eapply reachS; [apply IH; exact E|exact E'].
  Qed.

  Lemma reach_trans i k j : reach i k -> reach k j -> reach i j.
  Proof.
    intros R1 R2. induction R2 as [a b E|a c b R IH E].
    - eapply reachS; [exact R1|exact E].
    - eapply reachS; [apply IH; exact R1|exact E].
  Qed.

  (* seen = [s_n; ...; s_1]: the chain of yielded objects h = s_1 -> s_2 -> ... -> s_n -> i that one run of the loop of
     wait() has followed, starting at h *)
  Fixpoint fchain_from (h : nat) (seen : list nat) (i : nat) : Prop :=
    match seen with
    | [] => h = i
    | s :: rest => fedge s i /\ fchain_from h rest s
    end.

  Lemma fchain_reach h seen : forall i, fchain_from h seen i -> h = i \/ reach h i.
  Proof.
    induction seen as [|s rest IH]; intros i H; simpl in H; [left; exact H|].
    destruct H as [E H]. right. destruct (IH s H) as [->|R].
    - apply reach1. left. exact E.
    - eapply reachS; [exact R|left; exact E].
  Qed.

  Definition reaches_cycle (i : nat) : Prop := exists c, (c = i \/ reach i c) /\ reach c c.
  (* the chain starts at the node o that is waited for, or at a node o reaches (a dependency evaluated on the way) *)
  Definition from (o h : nat) : Prop := h = o \/ reach o h.
  Definition long_forward (o n : nat) : Prop := exists h seen j, from o h /\ fchain_from h seen j /\ n <= length seen.

  Variables (um : bool) (bound bound2 : nat) (isp : nat -> bool) (spec : bool).

  (* number of steps "a polynomial yields a polynomial" along the chain seen -> i (what polynomial_steps counts) *)
  Fixpoint pcount (seen : list nat) (i : nat) : nat :=
    match seen with
    | [] => 0
    | s :: rest => (if isp s && isp i then 1 else 0) + pcount rest s
    end.
  Definition long_poly (o n : nat) : Prop := exists h seen j, from o h /\ fchain_from h seen j /\ n <= pcount seen j.
  Definition too_long (o : nat) : Prop := long_forward o bound \/ long_poly o bound2.

  Lemma too_long_mono o d : reach o d -> too_long d -> too_long o.
  Proof.
    intros R [(h & seen & j & F & C & L)|(h & seen & j & F & C & L)]; [left|right]; exists h, seen, j;
      (split; [|split; [exact C|exact L]]); right; destruct F as [->|F]; [exact R|eapply reach_trans; eauto | exact R|eapply reach_trans; eauto].
  Qed.

  Definition cyc_inv (st : state) (seen : list nat) (p h i : nat) : Prop :=
    settled_sound G st /\
    (forall k, is_await st k = true -> reach k i) /\
    (forall k, In k seen -> reach k i) /\
    fchain_from h seen i /\ p = pcount seen i.

  Definition cyc_res (h i : nat) (r : res) : Prop :=
    match r with
    | RRaise ECycle _ => reaches_cycle i \/ too_long h
    | _ => True
    end.

  Lemma reaches_cycle_step i j : edge i j -> reaches_cycle j -> reaches_cycle i.
  Proof.
    intros E [c [[Ec|Rc] Cc]]; exists c; split; auto; right.
    - subst. apply reach1. exact E.
    - eapply reach_edge_l; eauto.
  Qed.

  (* a raise out of the dependency loop is a raise of one dependency, called on a state with the same flags and
     a sound settled table *)
  Lemma eval_deps_raise rec deps : forall acc st e st',
    (forall s d, keeps_flags s (rec s d)) ->
    (forall s d, settled_sound G s -> sound_res G d (rec s d)) ->
    settled_sound G st ->
    eval_deps rec deps acc st = DRaise e st' ->
    exists d s, In d deps /\ awaiting s = awaiting st /\ settled_sound G s /\ rec s d = RRaise e st'.
  Proof.
    induction deps as [|d ds IH]; intros acc st e st' K S Ss H; simpl in H; [discriminate|].
    pose proof (K st d) as Kd. pose proof (S st d Ss) as Sd.
    destruct (rec st d) as [z s1|e1 s1|] eqn:Er; simpl in Kd, Sd; try discriminate.
    - destruct Sd as [_ Ss1].
      destruct (IH (z :: acc) s1 e st' K S Ss1 H) as (d' & s & I1 & I2 & I3 & I4).
      exists d', s. repeat split; auto; [right; exact I1 | congruence].
    - inversion H; subst. exists d, st. repeat split; auto. left; reflexivity.
  Qed.

  Lemma wait_top_cycle : forall fuel st seen p h i,
    cyc_inv st seen p h i -> cyc_res h i (wait_top um bound bound2 isp spec G fuel st seen p i).
  Proof.
    induction fuel as [|f IH]; intros st seen p h i (Ss & Ia & Is & If & Ip); simpl; auto.
    destruct (nth_error G i) as [nd|] eqn:En; simpl; auto.
    destruct (stop_check bound bound2 seen p i) eqn:Es; simpl.
    { unfold stop_check in Es. apply orb_true_iff in Es. destruct Es as [Es|Es]; [apply orb_true_iff in Es; destruct Es as [Es|Es]|].
      - right. left. exists h, seen, i. split; [left; reflexivity|split; [exact If|apply Nat.leb_le; exact Es]].
      - right. right. exists h, seen, i. split; [left; reflexivity|split; [exact If|apply Nat.leb_le in Es; subst p; exact Es]].
      - left. apply existsb_exists in Es. destruct Es as [k [Hk Ek]]. apply Nat.eqb_eq in Ek. subst k.
        exists i. split; auto. }
    destruct (memo_hit um spec st i); simpl; [exact I|].
    destruct (is_await st i) eqn:Ea; simpl.
    { left. exists i. split; auto. }
    (* continuing with a yielded object j *)
    assert (K : forall v s, awaiting s = awaiting (set_await st i true) -> settled_sound G s ->
              (forall j, v = NFwd j -> fedge i j) ->
              cyc_res h i match v with
                        | NVal z => RVal z (set_await s i false)
                        | NFwd j => wait_top um bound bound2 isp spec G f (set_await s i false) (i :: seen) (next_p isp p i j) j end).
    { intros [z|j] s E Sss Hf; simpl; auto.
      assert (Ef : fedge i j) by (apply Hf; reflexivity).
      assert (Ee : edge i j) by (left; exact Ef).
      assert (Aw : awaiting (set_await s i false) = awaiting st).
      { unfold set_await in *; simpl in *. rewrite E. apply set_nth_restore. exact Ea. }
      pose proof (IH (set_await s i false) (i :: seen) (next_p isp p i j) h j) as R.
      destruct (wait_top um bound bound2 isp spec G f (set_await s i false) (i :: seen) (next_p isp p i j) j) as [z s'|[| |] s'|]; simpl in R |- *; auto.
      destruct R as [R|R]; auto.
      - split; [exact Sss|]. split; [|split].
        + intros k Hk. unfold is_await in Hk. rewrite Aw in Hk. eapply reachS; [apply Ia; exact Hk|exact Ee].
        + intros k [Hk|Hk]; [subst; apply reach1; exact Ee | eapply reachS; [apply Is; exact Hk|exact Ee]].
        + simpl. split; [split; [exact Ef|exact If]|].
          unfold next_p. subst p. destruct (isp i && isp j); simpl; reflexivity.
      - left. eapply reaches_cycle_step; eauto. }
    destruct nd as [v|deps g|].
    - apply K; auto. intros j E. subst v. unfold fedge. rewrite En. reflexivity.
    - destruct (get_settled (set_await st i true) i) as [v|] eqn:Eg.
      + apply K; auto. intros j E. subst v.
        destruct (Ss i (NFwd j) Eg) as (deps' & g' & vals & E1 & E2 & E3).
        unfold fedge. rewrite En. assert (g' = g) by congruence. subst g'. eauto.
      + pose proof (eval_deps_flags (fun s d => wait_top um bound bound2 isp spec G f s [] 0 d) deps [] (set_await st i true)
                      (fun s d => wait_top_flags um bound bound2 isp spec G f s [] 0 d)) as Hd.
        pose proof (eval_deps_sound G (fun s d => wait_top um bound bound2 isp spec G f s [] 0 d) deps [] [] (set_await st i true)
                      (fun s d Sx => wait_top_sound G um bound bound2 isp spec f s [] 0 d Sx) Ss (VNil G)) as Hs.
        destruct (eval_deps _ deps [] (set_await st i true)) as [vals s2|e s2|] eqn:Ed; simpl; auto.
        * destruct Hs as [Hv Hs2]. apply K; auto.
          -- intros k v Hk. unfold get_settled, set_settled in Hk. simpl in Hk.
             destruct (nth_set_nth_cases (settled s2) i k (Some (g vals)) None) as [[E1 E2]|E2]; rewrite E2 in Hk.
             ++ inversion Hk; subst. exists deps, g, vals. auto.
             ++ apply Hs2. exact Hk.
          -- intros j E. unfold fedge. rewrite En. eauto.
        * destruct e; auto.
          destruct (eval_deps_raise _ deps [] (set_await st i true) ECycle s2
                      (fun s d => wait_top_flags um bound bound2 isp spec G f s [] 0 d)
                      (fun s d Sx => wait_top_sound G um bound bound2 isp spec f s [] 0 d Sx) Ss Ed) as (d & s & Hin & Haw & Hss & Hr).
          assert (Ee : edge i d) by (right; unfold dedge; rewrite En; exact Hin).
          assert (Rhd : reach h d).
          { destruct (fchain_reach h seen i If) as [->|Rh]; [apply reach1; exact Ee|eapply reachS; [exact Rh|exact Ee]]. }
          pose proof (IH s [] 0 d d) as R. rewrite Hr in R. simpl in R.
          destruct R as [R|R]; [| |right; eapply too_long_mono; [exact Rhd|exact R]].
          -- split; [exact Hss|]. split; [|split; [intros k []|split; [reflexivity|reflexivity]]].
             intros k Hk. unfold is_await in Hk. rewrite Haw in Hk. simpl in Hk.
             destruct (Nat.eq_dec k i) as [->|Nk]; [apply reach1; exact Ee|].
             rewrite nth_set_nth_neq in Hk by exact Nk.
             eapply reachS; [apply Ia; exact Hk|exact Ee].
          -- left. eapply reaches_cycle_step; eauto.
    - destruct spec; simpl; auto.
  Qed.

  (* from a clean start: no flag set, nothing seen *)
  Theorem cycle_sound fuel i st' :
    wait um bound bound2 isp spec G fuel (init_state G) i = RRaise ECycle st' ->
    reaches_cycle i \/ long_forward i bound \/ long_poly i bound2.
  Proof.
    intros H. pose proof (wait_top_cycle fuel (init_state G) [] 0 i i) as R.
    unfold wait in H. rewrite H in R. apply R.
    split; [apply settled_sound_init|]. split; [|split; [intros k []|split; [reflexivity|reflexivity]]].
    intros k Hk. exfalso. unfold is_await, init_state in Hk. simpl in Hk.
    revert k Hk. generalize G as l. induction l as [|x xs IHl]; intros [|k] Hk; simpl in Hk; try discriminate. eauto.
  Qed.
End Cycle.

(* ------------------------------------------------------------------ acyclic graphs get a value *)
Section Acyclic.
  Variables (G : graph) (um : bool) (bound bound2 : nat) (isp : nat -> bool) (spec : bool).

  (* every reference stays inside the graph and every Promise has been settled *)
  Definition closed : Prop :=
    forall i nd, nth_error G i = Some nd ->
      match nd with
      | NUnsettled => False
      | NConst (NFwd j) => j < length G
      | NConst (NVal _) => True
      | NFn deps g => (forall d, In d deps -> d < length G) /\ (forall vals j, g vals = NFwd j -> j < length G)
      end.

  (* rank: a strict order witnessing that there is no cycle; flen: an upper bound of the length of the chain of
     yielded objects starting at a node, which must stay below the `seen` bound N1 of wait(); plen: an upper bound
     of the number of polynomial-yields-polynomial steps on that chain, which must stay below N2 *)
  Definition ranked (rank flen plen : nat -> nat) : Prop :=
    (forall i j, edge G i j -> rank j < rank i) /\
    (forall i j, fedge G i j -> flen j < flen i) /\
    (forall i, flen i < bound) /\
    (forall i j, fedge G i j -> plen j <= plen i) /\
    (forall i j, fedge G i j -> isp i = true -> isp j = true -> plen j < plen i) /\
    (forall i, plen i < bound2).

  Variables rank flen plen : nat -> nat.
  Hypothesis Hclosed : closed.
  Hypothesis Hranked : ranked rank flen plen.

  Definition acy_inv (st : state) (seen : list nat) (p i : nat) : Prop :=
    settled_sound G st /\ i < length G /\
    (forall k, is_await st k = true -> rank i < rank k) /\
    (forall k, In k seen -> rank i < rank k) /\
    length seen + flen i < bound /\ p + plen i < bound2 /\
    (forall k, is_memo st k = false).

  Definition no_raise (r : res) : Prop := match r with RRaise _ _ => False | _ => True end.

  Lemma eval_deps_noraise rec deps : forall acc st,
    (forall s d, keeps_flags s (rec s d)) ->
    (forall s d, settled_sound G s -> sound_res G d (rec s d)) ->
    (forall s d, keeps_memo s (rec s d)) ->
    (forall s d, In d deps -> awaiting s = awaiting st -> memo s = memo st -> settled_sound G s -> no_raise (rec s d)) ->
    settled_sound G st ->
    match eval_deps rec deps acc st with DRaise _ _ => False | _ => True end.
  Proof.
    induction deps as [|d ds IH]; intros acc st K S M N Ss; simpl; auto.
    pose proof (K st d) as Kd. pose proof (S st d Ss) as Sd. pose proof (M st d) as Md.
    pose proof (N st d (or_introl eq_refl) eq_refl eq_refl Ss) as Nd.
    destruct (rec st d) as [z s1|e s1|]; simpl in *; auto.
    destruct Sd as [_ Ss1]. apply IH; auto.
    intros s d' I1 I2 I3 I4. apply N; auto; congruence.
  Qed.

  Lemma wait_top_noraise : forall fuel st seen p i,
    acy_inv st seen p i -> no_raise (wait_top um bound bound2 isp spec G fuel st seen p i).
  Proof.
    destruct Hranked as (Hr & Hf & Hb & Hp1 & Hp2 & Hpb).
    induction fuel as [|f IH]; intros st seen p i (Ss & Li & Ia & Is & Il & Ipl & Im); simpl; auto.
    destruct (nth_error G i) as [nd|] eqn:En; [|apply nth_error_None in En; lia].
    destruct (stop_check bound bound2 seen p i) eqn:Es; simpl.
    { unfold stop_check in Es. apply orb_true_iff in Es. destruct Es as [Es|Es]; [apply orb_true_iff in Es; destruct Es as [Es|Es]|].
      - apply Nat.leb_le in Es. lia.
      - apply Nat.leb_le in Es. lia.
      - apply existsb_exists in Es. destruct Es as [k [Hk Ek]]. apply Nat.eqb_eq in Ek. subst k.
        specialize (Is i Hk). lia. }
    assert (Mh : memo_hit um spec st i = false) by (unfold memo_hit; rewrite (Im i); apply andb_false_r).
    rewrite Mh.
    destruct (is_await st i) eqn:Ea; simpl.
    { specialize (Ia i Ea). lia. }
    assert (K : forall v s, awaiting s = awaiting (set_await st i true) -> memo s = memo st -> settled_sound G s ->
              (forall j, v = NFwd j -> fedge G i j) ->
              no_raise match v with
                       | NVal z => RVal z (set_await s i false)
                       | NFwd j => wait_top um bound bound2 isp spec G f (set_await s i false) (i :: seen) (next_p isp p i j) j end).
    { intros [z|j] s E Em Sss Hfe; simpl; auto.
      assert (Ef : fedge G i j) by (apply Hfe; reflexivity).
      assert (Ee : edge G i j) by (left; exact Ef).
      assert (Aw : awaiting (set_await s i false) = awaiting st).
      { unfold set_await in *; simpl in *. rewrite E. apply set_nth_restore. exact Ea. }
      apply IH. split; [exact Sss|]. split; [|split; [|split; [|split; [|split]]]];
        [| | | | |intros k; unfold is_memo; simpl; rewrite Em; apply Im].
      - pose proof (Hclosed i nd En) as C. unfold fedge in Ef. rewrite En in Ef.
        destruct nd as [[z|k]|deps g|]; try contradiction.
        + subst. exact C.
        + destruct Ef as [vals Ev]. destruct C as [_ C]. eapply C; eauto.
      - intros k Hk. unfold is_await in Hk. rewrite Aw in Hk. specialize (Ia k Hk). specialize (Hr i j Ee). lia.
      - intros k [Hk|Hk]; [subst; apply Hr; exact Ee | specialize (Is k Hk); specialize (Hr i j Ee); lia].
      - simpl. specialize (Hf i j Ef). lia.
      - unfold next_p. specialize (Hp1 i j Ef). specialize (Hp2 i j Ef).
        destruct (isp i) eqn:Pi; destruct (isp j) eqn:Pj; simpl; try (specialize (Hp2 eq_refl eq_refl)); lia. }
    destruct nd as [v|deps g|].
    - apply K; auto. intros j E. subst. unfold fedge. rewrite En. reflexivity.
    - destruct (get_settled (set_await st i true) i) as [v|] eqn:Eg.
      + apply K; auto. intros j E. subst.
        destruct (Ss i (NFwd j) Eg) as (deps' & g' & vals & E1 & E2 & E3).
        unfold fedge. rewrite En. assert (g' = g) by congruence. subst. eauto.
      + pose proof (eval_deps_flags (fun s d => wait_top um bound bound2 isp spec G f s [] 0 d) deps [] (set_await st i true)
                      (fun s d => wait_top_flags um bound bound2 isp spec G f s [] 0 d)) as Hd.
        pose proof (eval_deps_sound G (fun s d => wait_top um bound bound2 isp spec G f s [] 0 d) deps [] [] (set_await st i true)
                      (fun s d Sx => wait_top_sound G um bound bound2 isp spec f s [] 0 d Sx) Ss (VNil G)) as Hs.
        pose proof (eval_deps_noraise (fun s d => wait_top um bound bound2 isp spec G f s [] 0 d) deps [] (set_await st i true)
                      (fun s d => wait_top_flags um bound bound2 isp spec G f s [] 0 d)
                      (fun s d Sx => wait_top_sound G um bound bound2 isp spec f s [] 0 d Sx)
                      (fun s d => wait_top_memo um bound bound2 isp spec G f s [] 0 d)) as Hn.
        pose proof (eval_deps_memo (fun s d => wait_top um bound bound2 isp spec G f s [] 0 d) deps [] (set_await st i true)
                      (fun s d => wait_top_memo um bound bound2 isp spec G f s [] 0 d)) as Hm.
        destruct (eval_deps _ deps [] (set_await st i true)) as [vals s2|e s2|] eqn:Ed; simpl; auto.
        * destruct Hs as [Hv Hs2]. apply K; auto.
          -- intros k v Hk. unfold get_settled, set_settled in Hk. simpl in Hk.
             destruct (nth_set_nth_cases (settled s2) i k (Some (g vals)) None) as [[E1 E2]|E2]; rewrite E2 in Hk.
             ++ inversion Hk; subst. exists deps, g, vals. auto.
             ++ apply Hs2. exact Hk.
          -- intros j E. unfold fedge. rewrite En. eauto.
        * apply Hn; [|exact Ss].
          intros s d Hin Haw Hme Hss. apply IH.
          assert (Ee : edge G i d) by (right; unfold dedge; rewrite En; exact Hin).
          split; [exact Hss|]. split; [|split; [|split; [|split; [|split]]]];
            [| | | | |intros k; unfold is_memo; rewrite Hme; simpl; apply Im].
          -- pose proof (Hclosed i _ En) as [C _]. apply C. exact Hin.
          -- intros k Hk. unfold is_await in Hk. rewrite Haw in Hk. simpl in Hk.
             specialize (Hr i d Ee).
             destruct (Nat.eq_dec k i) as [->|Nk]; [exact Hr|].
             rewrite nth_set_nth_neq in Hk by exact Nk. specialize (Ia k Hk). lia.
          -- intros k [].
          -- simpl. apply Hb.
          -- simpl. apply Hpb.
    - exfalso. exact (Hclosed i _ En).
  Qed.

  Theorem acyclic_value fuel i :
    i < length G -> fuel >= fuel_bound bound G ->
    exists z st', wait um bound bound2 isp spec G fuel (init_state G) i = RVal z st' /\ value_of G i z /\
                  awaiting st' = awaiting (init_state G).
  Proof.
    intros Li F.
    assert (Inv : acy_inv (init_state G) [] 0 i).
    { destruct Hranked as (Hr & Hf & Hb & Hp1 & Hp2 & Hpb).
      assert (Z : forall (l : graph) k, nth k (map (fun _ => false) l) false = false).
      { induction l as [|x xs IHl]; intros [|k]; simpl; auto. }
      split; [apply settled_sound_init|]. split; [exact Li|]. split; [|split; [intros k []|split; [simpl; apply Hb|split; [simpl; apply Hpb|]]]].
      - intros k Hk. unfold is_await, init_state in Hk. simpl in Hk. rewrite Z in Hk. discriminate.
      - intros k. unfold is_memo, init_state. simpl. apply Z. }
    pose proof (wait_top_noraise fuel (init_state G) [] 0 i Inv) as N.
    pose proof (wait_terminates_lemma um bound bound2 isp spec G fuel (init_state G) i) as T.
    pose proof (wait_top_sound G um bound bound2 isp spec fuel (init_state G) [] 0 i (settled_sound_init G)) as S.
    pose proof (wait_top_flags um bound bound2 isp spec G fuel (init_state G) [] 0 i) as Fl.
    unfold wait in *.
    destruct (wait_top um bound bound2 isp spec G fuel (init_state G) [] 0 i) as [z s'|e s'|]; simpl in *.
    - exists z, s'. destruct S as [S1 S2]. auto.
    - contradiction.
    - exfalso. apply T; auto. unfold init_state; simpl. rewrite !map_length. reflexivity.
  Qed.
End Acyclic.

(* ------------------------------------------------------------------ try_compute *)
Lemma try_wait_flags bound bound2 isp G fuel st i :
  match try_wait bound bound2 isp G fuel st i with
  | TVal _ st' | TSwallowed st' | TCrash st' => awaiting st' = awaiting st
  | TFuel => True
  end.
Proof.
  unfold try_wait, wait. pose proof (wait_top_flags true bound bound2 isp true G fuel (clear_memo st) [] 0 i) as H.
  destruct (wait_top true bound bound2 isp true G fuel (clear_memo st) [] 0 i) as [z s|[| |] s|]; simpl in *; auto.
Qed.

(* while speculating, an unsettled Promise never produces the fatal Exception: only a dangling reference could *)
Lemma spec_no_crash_closed um bound bound2 isp G : forall fuel st seen p i st',
  (forall k nd, nth_error G k = Some nd ->
     match nd with NConst (NFwd j) => j < length G
                 | NFn deps g => (forall d, In d deps -> d < length G) /\ (forall vals j, g vals = NFwd j -> j < length G)
                 | _ => True end) ->
  settled_sound G st -> i < length G ->
  wait_top um bound bound2 isp true G fuel st seen p i <> RRaise ECrash st'.
Proof.
  intros fuel st seen p i st' C. revert st seen p i st'.
  induction fuel as [|f IH]; intros st seen p i st' Ss Li; simpl; [discriminate|].
  destruct (nth_error G i) as [nd|] eqn:En; [|apply nth_error_None in En; lia].
  destruct (stop_check bound bound2 seen p i); [discriminate|].
  destruct (memo_hit um true st i); [discriminate|].
  destruct (is_await st i); [discriminate|].
  assert (K : forall v s, settled_sound G s -> (forall j, v = NFwd j -> j < length G) ->
            match v with
            | NVal z => RVal z (set_await s i false)
            | NFwd j => wait_top um bound bound2 isp true G f (set_await s i false) (i :: seen) (next_p isp p i j) j end <> RRaise ECrash st').
  { intros [z|j] s Sss Hj; [discriminate|]. apply IH; auto. }
  pose proof (C i nd En) as Ci.
  destruct nd as [v|deps g|].
  - apply K; auto. intros j E; subst. exact Ci.
  - destruct (get_settled (set_await st i true) i) as [v|] eqn:Eg.
    + apply K; auto. intros j E; subst.
      destruct (Ss i (NFwd j) Eg) as (deps' & g' & vals & E1 & E2 & E3).
      assert (g' = g) by congruence. subst. destruct Ci as [_ Ci]. eapply Ci; eauto.
    + pose proof (eval_deps_sound G (fun s d => wait_top um bound bound2 isp true G f s [] 0 d) deps [] [] (set_await st i true)
                    (fun s d Sx => wait_top_sound G um bound bound2 isp true f s [] 0 d Sx) Ss (VNil G)) as Hs.
      destruct (eval_deps _ deps [] (set_await st i true)) as [vals s2|e s2|] eqn:Ed.
      * destruct Hs as [Hv Hs2]. apply K.
        -- intros k v Hk. unfold get_settled, set_settled in Hk. simpl in Hk.
           destruct (nth_set_nth_cases (settled s2) i k (Some (g vals)) None) as [[E1 E2]|E2]; rewrite E2 in Hk.
           ++ inversion Hk; subst. exists deps, g, vals. auto.
           ++ apply Hs2. exact Hk.
        -- intros j E. destruct Ci as [_ Ci]. eapply Ci; eauto.
      * destruct e; try discriminate.
        destruct (eval_deps_raise G _ deps [] (set_await st i true) ECrash s2
                    (fun s d => wait_top_flags um bound bound2 isp true G f s [] 0 d)
                    (fun s d Sx => wait_top_sound G um bound bound2 isp true f s [] 0 d Sx) Ss Ed) as (d & s & Hin & Haw & Hss & Hr).
        exfalso. eapply IH; [exact Hss| |exact Hr]. destruct Ci as [Ci _]. apply Ci. exact Hin.
      * discriminate.
  - discriminate.
Qed.

(* ------------------------------------------------------------------ the not_ready_yet memo (fix 9baed24) *)
Lemma eval_deps_ext rec1 rec2 deps : forall acc st,
  (forall s d, rec1 s d = rec2 s d) -> eval_deps rec1 deps acc st = eval_deps rec2 deps acc st.
Proof.
  induction deps as [|d ds IH]; intros acc st H; simpl; auto.
  rewrite <- (H st d). destruct (rec1 st d); auto.
Qed.

(* a real evaluation (try_compute.depth = 0) neither reads nor writes the memo *)
Lemma memo_real_unaffected bound bound2 isp G : forall fuel st seen p i,
  wait_top true bound bound2 isp false G fuel st seen p i = wait_top false bound bound2 isp false G fuel st seen p i.
Proof.
  induction fuel as [|f IH]; intros st seen p i; simpl; auto.
Qed.

Lemma eval_deps_val_transfer rec1 rec2 deps : forall acc st vals st',
  (forall s d z s', rec1 s d = RVal z s' -> rec2 s d = RVal z s') ->
  eval_deps rec1 deps acc st = DDone vals st' -> eval_deps rec2 deps acc st = DDone vals st'.
Proof.
  induction deps as [|d ds IH]; intros acc st vals st' H E; simpl in *; auto.
  destruct (rec1 st d) as [z s1|e s1|] eqn:E1; try discriminate.
  rewrite (H _ _ _ _ E1). eapply IH; eauto.
Qed.

(* whenever the memoised evaluation yields a value, the memo was never hit on the way: the evaluation without the
   memo takes exactly the same steps and ends with the same value in the same state *)
Lemma memo_only_postpones_lemma bound bound2 isp spec G : forall fuel st seen p i z st',
  wait_top true bound bound2 isp spec G fuel st seen p i = RVal z st' ->
  wait_top false bound bound2 isp spec G fuel st seen p i = RVal z st'.
Proof.
  induction fuel as [|f IH]; intros st seen p i z st' H; simpl in *; [discriminate|].
  destruct (nth_error G i) as [nd|]; [|discriminate].
  destruct (stop_check bound bound2 seen p i); [discriminate|].
  destruct (memo_hit true spec st i); [discriminate|].
  unfold memo_hit. simpl.
  destruct (is_await st i); [discriminate|].
  destruct nd as [v|deps g|].
  - destruct v as [z0|j]; [exact H|]. apply IH. exact H.
  - destruct (get_settled (set_await st i true) i) as [v|].
    + destruct v as [z0|j]; [exact H|]. apply IH. exact H.
    + destruct (eval_deps (fun s d => wait_top true bound bound2 isp spec G f s [] 0 d) deps [] (set_await st i true))
        as [vals s2|e s2|] eqn:Ed; try discriminate.
      rewrite (eval_deps_val_transfer _ (fun s d => wait_top false bound bound2 isp spec G f s [] 0 d) _ _ _ _ _
                 (fun s d z1 s1 E => IH s [] 0 d z1 s1 E) Ed).
      destruct (g vals) as [z0|j]; [exact H|]. apply IH. exact H.
  - discriminate.
Qed.

Section MemoSafe.
  Variables (G : graph) (um : bool) (bound bound2 : nat) (isp : nat -> bool) (spec : bool).

  (* what the memo claims: the remembered objects have no value (their evaluation runs into an unsettled promise) *)
  Definition memo_novalue (st : state) : Prop := forall k, is_memo st k = true -> forall z, ~ value_of G k z.
  Definition msafe (st : state) : Prop := settled_sound G st /\ memo_novalue st.

  Lemma values_of_In deps vals d : values_of G deps vals -> In d deps -> exists z, value_of G d z.
  Proof. intros H. induction H; intros I; [destruct I|]. destruct I as [->|I]; eauto. Qed.

  Lemma memo_novalue_await st k b : memo_novalue st -> memo_novalue (set_await st k b).
  Proof. intros H; exact H. Qed.
  Lemma memo_novalue_settled st k v : memo_novalue st -> memo_novalue (set_settled st k v).
  Proof. intros H; exact H. Qed.

  Lemma memo_novalue_rec e st i :
    memo_novalue st -> (e = ENotReady -> forall z, ~ value_of G i z) -> memo_novalue (memo_rec um spec e st i).
  Proof.
    intros H Hi. unfold memo_rec. destruct (um && spec && is_nr e) eqn:E; [|exact H].
    assert (e = ENotReady) by (destruct e; simpl in E; rewrite ?andb_false_r in E; try discriminate; reflexivity).
    intros k Hk. unfold is_memo, set_memo in Hk. simpl in Hk.
    destruct (nth_set_nth_cases (memo st) i k true false) as [[E1 E2]|E2].
    - subst k. apply Hi. assumption.
    - rewrite E2 in Hk. apply H. exact Hk.
  Qed.

  Definition nr_res (i : nat) (r : res) : Prop :=
    match r with
    | RRaise ENotReady st' => (forall z, ~ value_of G i z) /\ msafe st'
    | RRaise _ st' | RVal _ st' => msafe st'
    | RFuel => True
    end.

  Lemma eval_deps_nr rec deps : forall done acc st,
    (forall s d, msafe s -> nr_res d (rec s d)) ->
    (forall s d, settled_sound G s -> sound_res G d (rec s d)) ->
    msafe st -> values_of G done (rev acc) ->
    match eval_deps rec deps acc st with
    | DDone vals st' => values_of G (done ++ deps) vals /\ msafe st'
    | DRaise ENotReady st' => (exists d, In d deps /\ forall z, ~ value_of G d z) /\ msafe st'
    | DRaise _ st' => msafe st'
    | DFuel => True
    end.
  Proof.
    induction deps as [|d ds IH]; intros done acc st H S M V; simpl.
    - rewrite app_nil_r. auto.
    - pose proof (H st d M) as Hd. pose proof (S st d (proj1 M)) as Sd.
      destruct (rec st d) as [z s'|e s'|]; simpl in Hd, Sd; auto.
      + destruct Sd as [Hv _].
        assert (V' : values_of G (done ++ [d]) (rev (z :: acc))).
        { simpl. apply values_of_app; [exact V|]. constructor; [exact Hv|constructor]. }
        specialize (IH (done ++ [d]) (z :: acc) s' H S Hd V').
        rewrite <- app_assoc in IH. simpl in IH.
        destruct (eval_deps rec ds (z :: acc) s') as [vals s2|[| |] s2|]; auto.
        destruct IH as [[d' [I1 I2]] I3]. split; [exists d'; split; [right; exact I1|exact I2]|exact I3].
      + destruct e; auto. destruct Hd as [Hn Hm]. split; [exists d; split; [left; reflexivity|exact Hn]|exact Hm].
  Qed.

  Lemma wait_top_nr : forall fuel st seen p i,
    msafe st -> nr_res i (wait_top um bound bound2 isp spec G fuel st seen p i).
  Proof.
    induction fuel as [|f IH]; intros st seen p i [Ss Mm]; simpl; auto.
    destruct (nth_error G i) as [nd|] eqn:En; simpl; [|split; assumption].
    destruct (stop_check bound bound2 seen p i); simpl; [split; assumption|].
    destruct (memo_hit um spec st i) eqn:Mh; simpl.
    { split; [|split; assumption]. unfold memo_hit in Mh. apply andb_prop in Mh. destruct Mh as [_ Mh]. apply Mm. exact Mh. }
    destruct (is_await st i); simpl; [split; assumption|].
    (* continuing with the yielded value v, where v is what node i yields in every derivation of a value of i *)
    assert (K : forall v s, msafe s ->
              (forall j, v = NFwd j -> forall z, value_of G i z -> value_of G j z) ->
              nr_res i match v with
                       | NVal z => RVal z (set_await s i false)
                       | NFwd j => wait_top um bound bound2 isp spec G f (set_await s i false) (i :: seen) (next_p isp p i j) j end).
    { intros [z|j] s Ms Hj; simpl; [exact Ms|].
      pose proof (IH (set_await s i false) (i :: seen) (next_p isp p i j) j Ms) as R.
      destruct (wait_top um bound bound2 isp spec G f (set_await s i false) (i :: seen) (next_p isp p i j) j) as [z s'|[| |] s'|]; simpl in *; auto.
      destruct R as [R1 R2]. split; [|exact R2]. intros z Hz. apply (R1 z). eapply Hj; eauto. }
    assert (Kfn : forall deps g vals, nth_error G i = Some (NFn deps g) -> values_of G deps vals ->
              forall j, g vals = NFwd j -> forall z, value_of G i z -> value_of G j z).
    { intros deps g vals E Hv j Eg z Hz. inversion Hz; subst; try congruence.
      - assert (deps0 = deps /\ g0 = g) as [? ?] by (split; congruence). subst.
        rewrite (proj2 (value_unique_both G) _ _ H0 _ Hv) in H1. congruence.
      - assert (deps0 = deps /\ g0 = g) as [? ?] by (split; congruence). subst.
        rewrite (proj2 (value_unique_both G) _ _ H0 _ Hv) in H1. assert (j0 = j) by congruence. subst. assumption. }
    destruct nd as [v|deps g|].
    - apply K; [split; assumption|]. intros j E z Hz. subst v. inversion Hz; subst; try congruence.
    - destruct (get_settled (set_await st i true) i) as [v|] eqn:Eg.
      + destruct (Ss i v Eg) as (deps' & g' & vals & E1 & E2 & E3).
        assert (deps' = deps /\ g' = g) as [? ?] by (split; congruence). subst deps' g'.
        apply K; [split; assumption|]. intros j E. subst v. eapply Kfn; eauto.
      + pose proof (eval_deps_nr (fun s d => wait_top um bound bound2 isp spec G f s [] 0 d) deps [] [] (set_await st i true)
                      (fun s d Ms => IH s [] 0 d Ms)
                      (fun s d Sx => wait_top_sound G um bound bound2 isp spec f s [] 0 d Sx)
                      (conj Ss Mm) (VNil G)) as Hd.
        destruct (eval_deps _ deps [] (set_await st i true)) as [vals s2|e s2|] eqn:Ed; simpl; auto.
        * simpl in Hd. destruct Hd as [Hv [Hs Hm]]. apply K.
          -- split; [|exact Hm]. intros k v Hk. unfold get_settled, set_settled in Hk. simpl in Hk.
             destruct (nth_set_nth_cases (settled s2) i k (Some (g vals)) None) as [[E1 E2]|E2]; rewrite E2 in Hk.
             ++ inversion Hk; subst. exists deps, g, vals. auto.
             ++ apply Hs. exact Hk.
          -- intros j E. eapply Kfn; eauto.
        * assert (NV : e = ENotReady -> forall z, ~ value_of G i z).
          { intros -> z Hz. destruct Hd as [[d [I1 I2]] _].
            inversion Hz; subst; try congruence;
              assert (deps0 = deps) by congruence; subst;
              destruct (values_of_In _ _ d H0 I1) as [zd Hzd]; exact (I2 zd Hzd). }
          assert (MS : msafe s2) by (destruct e; [exact Hd|destruct Hd as [_ Hd]; exact Hd|exact Hd]).
          assert (MS' : msafe (memo_rec um spec e (set_await s2 i false) i)).
          { destruct MS as [A B]. split; [apply settled_sound_memo_rec; exact A|apply memo_novalue_rec; [exact B|exact NV]]. }
          destruct e; simpl; auto.
    - assert (NV : forall z, ~ value_of G i z) by (intros z Hz; inversion Hz; congruence).
      assert (MS' : forall e, msafe (memo_rec um spec e (set_await (set_await st i true) i false) i)).
      { intros e. split; [apply settled_sound_memo_rec; exact Ss|apply memo_novalue_rec; [exact Mm|intros _; exact NV]]. }
      destruct spec; simpl; auto.
  Qed.
End MemoSafe.

(* the safety of the memo in one statement: inside one speculation (memo empty at its start, settled table sound),
   if the memoised evaluation of i says NotReadyError -- because of a memo hit or otherwise -- then i has no value
   at all, so no evaluation of i, with or without the memo, speculative or real, from any sound state, can return one *)
Theorem memo_never_hides_a_value G bound bound2 isp fuel st i st' :
  settled_sound G st ->
  wait true bound bound2 isp true G fuel (clear_memo st) i = RRaise ENotReady st' ->
  (forall z, ~ value_of G i z) /\
  (forall um' b1 b2 isp' spec' fuel' s seen p z s', settled_sound G s ->
     wait_top um' b1 b2 isp' spec' G fuel' s seen p i <> RVal z s').
Proof.
  intros Ss H.
  assert (M : msafe G (clear_memo st)).
  { split; [exact Ss|]. intros k Hk. exfalso. unfold is_memo, clear_memo in Hk. simpl in Hk.
    revert k Hk. generalize (memo st) as l. induction l as [|x xs IHl]; intros [|k] Hk; simpl in Hk; try discriminate. eauto. }
  pose proof (wait_top_nr G true bound bound2 isp true fuel (clear_memo st) [] 0 i M) as R.
  unfold wait in H. rewrite H in R. simpl in R. destruct R as [NV _].
  split; [exact NV|].
  intros um' b1 b2 isp' spec' fuel' s seen p z s' Sx E.
  pose proof (wait_top_sound G um' b1 b2 isp' spec' fuel' s seen p i Sx) as S. rewrite E in S. simpl in S.
  destruct S as [S _]. exact (NV z S).
Qed.
