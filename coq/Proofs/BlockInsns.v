(* C02 composed with C01: an instruction's length is a function of its operand *forms* only
   (which is what Instruction.compile_insn announces before any value is known: 2 bytes for the
   opcode word plus 2 per extension word), so an instruction statement is [consistent] in the
   Block model whether it was still deferred or not when its address was committed. *)
From Coq Require Import List ZArith Bool Lia String.
From Verif Require Import Base.Res Spec.PDP11 Model.Insns Model.Block Proofs.BlockP.
Import ListNotations.
Open Scope Z_scope.
Open Scope list_scope.

(* extension words by operand form, independent of values and addresses *)
Definition ext_of_regmode (o : operand) : nat :=
  match o with
  | OReg _ | ORegDef _ | OAutoInc _ | OAutoIncDef _ | OAutoDec _ | OAutoDecDef _ => 0
  | OIndexDef _ _ | OIndex _ _ | OImm _ | OAbs _ | ORelDef _ | ORel _ => 1
  | OAcc _ => 0
  end%nat.

Definition ext_of (st : stub) (o : operand) : nat :=
  match sk st with
  | SkRegister | SkFpAcc | SkOffset | SkImmediate => 0%nat
  | SkRegMode => ext_of_regmode o
  | SkFpRM => match o with OAcc _ | OReg _ => 0%nat | _ => ext_of_regmode o end
  end.

Ltac inv_bind H :=
  repeat match type of H with
  | bind ?r ?f = Ok _ => let a := fresh "a" in let Ha := fresh "Ha" in
      apply bind_ok_inv in H; destruct H as [a [Ha H]]
  end.

Lemma enc_regmode_len o rel v e : enc_regmode o rel = Ok (v, e) -> List.length e = ext_of_regmode o.
Proof.
  destruct o; simpl; intros H; try discriminate; inv_bind H; inversion H; reflexivity.
Qed.

Lemma enc_stub_len st o rel v e : enc_stub st o rel = Ok (v, e) -> List.length e = ext_of st o.
Proof.
  unfold enc_stub, ext_of. destruct (sk st); intros H.
  - unfold enc_register in H. destruct o; try discriminate. inv_bind H. inversion H; reflexivity.
  - eapply enc_regmode_len; eauto.
  - unfold enc_fprm in H. destruct o; try (eapply enc_regmode_len; eauto; fail).
    + inv_bind H. destruct (a <? 6); inversion H; reflexivity.
    + destruct ((0 <=? n) && (n <=? 5))%bool; inversion H; reflexivity.
  - unfold enc_fpacc in H. destruct o; try discriminate.
    destruct ((0 <=? n) && (n <=? 5))%bool; try discriminate.
    destruct (n >=? 2 ^ bitness st); inversion H; reflexivity.
  - destruct o; try discriminate. inv_bind H. inversion H; reflexivity.
  - destruct o; try discriminate; inv_bind H; inversion H; reflexivity.
Qed.

Fixpoint ext_total (sts : list stub) (ops : list operand) : nat :=
  match sts, ops with
  | st :: sts', o :: ops' => (ext_of st o + ext_total sts' ops')%nat
  | _, _ => 0%nat
  end.

Lemma enc_operands_len sts : forall ops addr ext vs ext',
  enc_operands sts ops addr ext = Ok (vs, ext') ->
  List.length ext' = (List.length ext + ext_total sts ops)%nat.
Proof.
  induction sts as [|st sts IH]; intros ops addr ext vs ext' H; simpl in H.
  - inversion H; subst. simpl. lia.
  - destruct ops as [|o ops]; [inversion H; subst; simpl; lia|].
    inv_bind H. destruct a as [v e]. destruct a0 as [vs0 ext0]. simpl in *.
    inversion H; subst. apply IH in Ha0. rewrite Ha0, app_length.
    rewrite (enc_stub_len _ _ _ _ _ Ha). lia.
Qed.

(* the number of words of an instruction depends on the mnemonic's stubs and the operand forms only *)
Theorem insn_length_by_form i ops addr ws :
  compile_with i ops addr = Ok ws -> List.length ws = S (ext_total (stubs i) ops).
Proof.
  unfold compile_with. destruct (negb _); [discriminate|]. intros H.
  inv_bind H. destruct a as [vs ext]. simpl in *. inversion H; subst.
  apply enc_operands_len in Ha. simpl in *. rewrite Ha. reflexivity.
Qed.

(* bytes of a word list, little-endian *)
Definition bytes_of_words (ws : list Z) : list Z := flat_map (fun w => [w mod 256; (w / 256) mod 256]) ws.
Lemma bytes_of_words_len ws : List.length (bytes_of_words ws) = (2 * List.length ws)%nat.
Proof. induction ws as [|w ws IH]; simpl; [reflexivity|]. rewrite IH. lia. Qed.

(* the announced size of an instruction statement: SizedDeferred(2, get_opcode) + operands_encoding *)
Definition announced_insn (i : insn) (ops : list operand) : Z := 2 + 2 * Z.of_nat (ext_total (stubs i) ops).

Theorem insn_statement_consistent i ops addr ws ready :
  compile_with i ops addr = Ok ws ->
  consistent (Leaf ready (Some (announced_insn i ops)) (bytes_of_words ws)) = true.
Proof.
  intros H. simpl. unfold leaf_consistent, adv_leaf, announced_insn, zlen.
  rewrite bytes_of_words_len, (insn_length_by_form _ _ _ _ H).
  destruct ready; apply Z.eqb_eq; lia.
Qed.
