(* Proofs/GenPureInsnsP.v -- the functions of Gen/GenPureInsns.v (regenerated from pdpy11/insns.py on every run by
   tools/gens/gen_pure.py) are EQUAL to the hand-written model Model/Insns.v the theorems of C01 / C04 are about.
   An edit of one of the translated Python functions changes the generated term and breaks the lemma here. *)
From Coq Require Import String List ZArith NArith Bool Lia.
From Verif Require Import Base.Res Base.Bytes Gen.GenPure Gen.GenPureInsns Spec.PDP11 Model.Insns Proofs.GenPureP.
Import ListNotations.
Open Scope list_scope.
Open Scope Z_scope.

(* OffsetOperandStub.encode.fn: whatever `dest_is_label` (it only selects the message text) *)
Lemma offset_fn_is_model u n dl t rel :
  observed (offset_fn u n dl t rel) = enc_offset u (Z.of_nat n) t rel.
Proof.
  unfold offset_fn, enc_offset.
  destruct u; cbv [b2z]; rewrite ?py_pow_nonneg by lia; cbn [bind andb].
  all: split_ifs.
Qed.

Lemma imm_fn_is_model u n v : observed (imm_fn u n v) = enc_imm u (Z.of_nat n) v.
Proof.
  assert (P : 2 ^ Z.of_nat n <> 0) by (apply Z.pow_nonzero; lia).
  unfold imm_fn, enc_imm.
  destruct u; rewrite ?py_pow_nonneg by lia; cbn [bind andb]; rewrite ?py_pow_nonneg by lia; cbn [bind].
  all: split_ifs.
  all: rewrite ?py_pow_nonneg by lia; cbn [bind]; rewrite py_mod_nz by exact P; reflexivity.
Qed.

Lemma rel_word_67_is_model t rel : rel_word_67 t rel = Ok (enc_rel t rel).
Proof. reflexivity. Qed.

Lemma rel_word_77_is_model t rel : rel_word_77 t rel = Ok (enc_rel t rel).
Proof. reflexivity. Qed.

(* operands_encoding is a byte string, the model's [ext] its list of words *)
Lemma rel_address_of_is_model addr (ext : list Z) :
  rel_address_of addr (2 * length ext) = addr + 2 + 2 * Z.of_nat (length ext).
Proof. unfold rel_address_of. lia. Qed.

(* the places of Model/Insns.v where these functions sit: the model, re-expressed over the translated code *)
Lemma enc_stub_offset_translated st t rel dl : sk st = SkOffset ->
  enc_stub st (ORel t) rel =
  (do f <- observed (offset_fn (unsigned_ st) (length (bit_indexes st)) dl t rel); Ok (f, [])).
Proof. intros H. unfold enc_stub. rewrite H, offset_fn_is_model. reflexivity. Qed.

Lemma enc_stub_imm_translated st v rel : sk st = SkImmediate ->
  enc_stub st (OImm v) rel = (do f <- observed (imm_fn (unsigned_ st) (length (bit_indexes st)) v); Ok (f, [])) /\
  enc_stub st (ORel v) rel = (do f <- observed (imm_fn (unsigned_ st) (length (bit_indexes st)) v); Ok (f, [])).
Proof. intros H. unfold enc_stub. rewrite H, imm_fn_is_model. split; reflexivity. Qed.

Lemma enc_regmode_rel_translated t rel :
  enc_regmode (ORel t) rel = (do w <- rel_word_67 t rel; Ok (55, [w])) /\
  enc_regmode (ORelDef t) rel = (do w <- rel_word_77 t rel; Ok (63, [w])).
Proof. split; reflexivity. Qed.

Lemma enc_operands_rel_address_translated st sts o ops addr ext :
  enc_operands (st :: sts) (o :: ops) addr ext =
  (do ve <- enc_stub st o (rel_address_of addr (2 * length ext));
   do r <- enc_operands sts ops addr (ext ++ snd ve);
   Ok (fst ve :: fst r, snd r)).
Proof. rewrite rel_address_of_is_model. reflexivity. Qed.
