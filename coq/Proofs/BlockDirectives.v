(* C02 composed with C06: a block made of the data directives of Model/Directives.v (whose size
   lambdas are regenerated from metacommands.py) satisfies the hypothesis [consistent] of the
   address invariant, whichever of its statements were still deferred when their address was
   committed.  So for such blocks the invariant holds with no residual hypothesis. *)
From Coq Require Import List ZArith Bool Lia.
From Verif Require Import Model.Block Proofs.BlockP Model.Directives Proofs.DirectivesAnnounce.
Import ListNotations.
Open Scope Z_scope.
Open Scope list_scope.

Section Compose.
Variable enc : list N -> option (list Z).

(* lay the directives out as compile_block does: each is emitted at the running address, which
   advances by the announced size when the statement was deferred ([ready = false]) and sized *)
Fixpoint build (a : Z) (ds : list (bool * directive)) : option (list stmt) :=
  match ds with
  | [] => Some []
  | (ready, d) :: rest =>
      match emit enc d a with
      | Out dg bs =>
          match errors dg with
          | [] => match build (a + adv (Leaf ready (announced d) bs)) rest with
                  | Some l => Some (Leaf ready (announced d) bs :: l)
                  | None => None
                  end
          | _ :: _ => None
          end
      | _ => None
      end
  end.

Lemma build_consistent ds : forall a l, build a ds = Some l -> consistent_list l = true.
Proof.
  induction ds as [|[ready d] rest IH]; intros a l H; cbn [build] in H.
  - injection H as H; subst l; reflexivity.
  - destruct (emit enc d a) as [dg bs| |] eqn:He; try discriminate.
    destruct (errors dg) eqn:Hd; try discriminate.
    destruct (build (a + adv (Leaf ready (announced d) bs)) rest) as [l'|] eqn:Hb; try discriminate.
    injection H as H; subst l. unfold consistent_list. cbn [forallb consistent].
    apply andb_true_intro. split.
    + unfold leaf_consistent, adv_leaf. destruct ready; [apply Z.eqb_refl|].
      destruct (announced d) as [sz|] eqn:Ha; [|apply Z.eqb_refl].
      apply Z.eqb_eq. symmetry. unfold zlen.
      eapply announce_eq_emit; eauto.
    + fold (consistent_list l'). eapply IH; eauto.
Qed.

Theorem directive_block_invariant ds a l :
  build a ds = Some l ->
  (forall pre a' bs post, place_list a l = (pre ++ (a', bs) :: post)%list ->
      a' = a + zlen (bytes_of pre) /\
      out_list l = (bytes_of pre ++ bs ++ bytes_of post)%list /\
      firstn (length bs) (skipn (Z.to_nat (a' - a)) (out_list l)) = bs) /\
  adv_list l = zlen (out_list l).
Proof. intros H. apply address_invariant_block. eapply build_consistent; eauto. Qed.
End Compose.
