(* C19 composed with C02: the hypothesis "label value = base + offset of the byte that follows it"
   of C19's label_is_image_address is exactly what C02's address invariant gives for the labels
   (Silent statements) of a consistent block. *)
From Coq Require Import List ZArith Bool Lia String.
From Verif Require Import Model.Block Proofs.BlockP Spec.Listing Proofs.ListingP.
Import ListNotations.
Open Scope Z_scope.
Open Scope list_scope.

Theorem listed_labels_point_into_image (l : list stmt) (base : Z) (syms : list sym) (placed : list (sym * nat)) :
  consistent_list l = true ->
  (* every placed symbol is an ordinary symbol of the listing and is a label of the block: it occurs in the
     trace of the block with no bytes of its own, and [off] is the number of image bytes before it *)
  (forall s off, In (s, off) placed ->
      In s syms /\ exists pre post, place_list base l = pre ++ (s_value s, []) :: post /\ off = List.length (bytes_of pre)) ->
  forall bs, listing_of syms bs -> points_into_image base bs placed.
Proof.
  intros Hc Hp bs Hl.
  apply (label_is_image_address_lemma base syms placed); [| |exact Hl].
  - intros s off H. exact (proj1 (Hp s off H)).
  - intros s off H. destruct (Hp s off H) as [_ [pre [post [E Hoff]]]].
    destruct (address_invariant_block l base Hc) as [Hinv _].
    destruct (Hinv pre (s_value s) [] post E) as [Ha _].
    rewrite Ha, Hoff. unfold zlen. reflexivity.
Qed.
