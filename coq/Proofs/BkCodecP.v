From Coq Require Import List NArith Bool Lia Arith PeanoNat.
From Verif Require Import Base.Range Gen.GenBkTable Model.BkCodec Spec.Koi8.
Import ListNotations.
Open Scope N_scope.

Section General.
Variable table : list (list N).

Lemma mem_In c l : mem c l = true <-> In c l.
Proof.
  unfold mem. rewrite existsb_exists. split.
  - intros [x [Hx E]]. apply N.eqb_eq in E. subst. exact Hx.
  - intros H. exists c. split; [exact H | apply N.eqb_refl].
Qed.

(* A successful lookup returns the index of a row that contains the character. *)
Lemma enc_from_sound rows : forall i c j,
  enc_from i rows c = Some j ->
  exists k r, j = i + N.of_nat k /\ nth_error rows k = Some r /\ In c r.
Proof.
  induction rows as [|r rest IH]; intros i c j H; simpl in H; [discriminate|].
  destruct (enc_from (i + 1) rest c) as [j'|] eqn:E.
  - inversion H; subst j'. destruct (IH _ _ _ E) as [k [r' [Hj [Hn Hin]]]].
    exists (S k), r'. split; [lia|]. split; [exact Hn | exact Hin].
  - destruct (mem c r) eqn:M; [|discriminate]. inversion H; subst.
    exists 0%nat, r. split; [lia|]. split; [reflexivity|]. apply mem_In. exact M.
Qed.

(* A failed lookup means no row contains the character. *)
Lemma enc_from_none rows : forall i c,
  enc_from i rows c = None -> forall r, In r rows -> ~ In c r.
Proof.
  induction rows as [|r rest IH]; intros i c H r' Hin; [destruct Hin|].
  simpl in H. destruct (enc_from (i + 1) rest c) eqn:E; [discriminate|].
  destruct (mem c r) eqn:M; [discriminate|].
  destruct Hin as [->|Hin].
  - intros Hc. apply mem_In in Hc. congruence.
  - eapply IH; eauto.
Qed.

Theorem encode_char_sound c b :
  encode_char table c = Some b ->
  exists r, nth_error table (N.to_nat b) = Some r /\ In c r.
Proof.
  unfold encode_char. intros H. destruct (enc_from_sound _ _ _ _ H) as [k [r [Hj [Hn Hin]]]].
  exists r. split; [|exact Hin]. replace (N.to_nat b) with k by lia. exact Hn.
Qed.

Theorem encode_char_refuses c :
  (forall r, In r table -> ~ In c r) -> encode_char table c = None.
Proof.
  intros H. destruct (encode_char table c) as [b|] eqn:E; [|reflexivity].
  destruct (encode_char_sound _ _ E) as [r [Hn Hin]].
  exfalso. eapply H; [eapply nth_error_In; eauto | exact Hin].
Qed.

Theorem encode_char_complete c r :
  In r table -> In c r -> exists b, encode_char table c = Some b.
Proof.
  intros Hr Hc. destruct (encode_char table c) as [b|] eqn:E; [eauto|].
  exfalso. eapply enc_from_none; eauto.
Qed.

(* ---- strings ---- *)
Lemma encode_all_Forall2 s : forall bs,
  encode_all table s = Some bs <-> Forall2 (fun c b => encode_char table c = Some b) s bs.
Proof.
  induction s as [|c rest IH]; intros bs; simpl.
  - split; intros H; [inversion H; constructor | inversion H; reflexivity].
  - split.
    + intros H. destruct (encode_char table c) as [b|] eqn:E; [|discriminate].
      destruct (encode_all table rest) as [bs'|] eqn:E'; [|discriminate].
      inversion H; subst. constructor; [exact E | apply IH; reflexivity].
    + intros H. inversion H as [|c' b rest' bs' Hc Hrest]; subst.
      rewrite Hc. apply IH in Hrest. rewrite Hrest. reflexivity.
Qed.

Lemma encode_all_none_iff s :
  encode_all table s = None <-> exists c, In c s /\ encodable table c = false.
Proof.
  induction s as [|c rest IH]; simpl.
  - split; [discriminate | intros [c [[] _]]].
  - unfold encodable in *. destruct (encode_char table c) as [b|] eqn:E.
    + destruct (encode_all table rest) as [bs|] eqn:E'.
      * split; [discriminate|]. intros [c' [[->|Hin] Hc']].
        -- rewrite E in Hc'. discriminate.
        -- assert (X : @None (list N) = None) by reflexivity.
           destruct IH as [_ IH2]. discriminate IH2. exists c'. auto.
      * split; [|reflexivity]. intros _. destruct IH as [IH1 _].
        destruct (IH1 eq_refl) as [c' [Hin Hc']]. exists c'. auto.
    + split; [|reflexivity]. intros _. exists c. split; [auto|]. rewrite E. reflexivity.
Qed.

Lemma first_bad_spec s : forall i a,
  first_bad table i s = Some a ->
  (i <= a < i + length s)%nat /\
  (exists c, nth_error s (a - i) = Some c /\ encodable table c = false) /\
  (forall k c, (k < a - i)%nat -> nth_error s k = Some c -> encodable table c = true).
Proof.
  induction s as [|c rest IH]; intros i a H; simpl in H; [discriminate|].
  destruct (encodable table c) eqn:E.
  - destruct (IH _ _ H) as [Hr [[c' [Hn Hc']] Hall]]. split; [simpl; lia|]. split.
    + exists c'. split; [|exact Hc']. replace (a - i)%nat with (S (a - S i)) by lia. exact Hn.
    + intros k c0 Hk Hn0. destruct k as [|k]; simpl in Hn0.
      * inversion Hn0; subst. exact E.
      * eapply Hall; [|exact Hn0]. lia.
  - inversion H; subst. split; [simpl; lia|]. split.
    + exists c. rewrite Nat.sub_diag. split; [reflexivity | exact E].
    + intros k c0 Hk. lia.
Qed.

Lemma first_bad_none s : forall i,
  first_bad table i s = None -> forall c, In c s -> encodable table c = true.
Proof.
  induction s as [|c rest IH]; intros i H c' Hin; [destruct Hin|].
  simpl in H. destruct (encodable table c) eqn:E; [|discriminate].
  destruct Hin as [->|Hin]; [exact E | eapply IH; eauto].
Qed.

Lemma last_bad_end_spec s : forall i e,
  last_bad_end table i s = Some e ->
  (i < e <= i + length s)%nat /\
  (exists c, nth_error s (e - 1 - i) = Some c /\ encodable table c = false) /\
  (forall k c, (e - i <= k)%nat -> nth_error s k = Some c -> encodable table c = true).
Proof.
  induction s as [|c rest IH]; intros i e H; simpl in H; [discriminate|].
  destruct (last_bad_end table (S i) rest) as [e'|] eqn:E'.
  - inversion H; subst e'. destruct (IH _ _ E') as [Hr [[c' [Hn Hc']] Hall]].
    split; [simpl; lia|]. split.
    + exists c'. split; [|exact Hc']. replace (e - 1 - i)%nat with (S (e - 1 - S i)) by lia. exact Hn.
    + intros k c0 Hk Hn0. destruct k as [|k]; [lia|]. simpl in Hn0.
      eapply Hall; [|exact Hn0]. lia.
  - destruct (encodable table c) eqn:E; [discriminate|]. inversion H; subst.
    split; [simpl; lia|]. split.
    + exists c. replace (S i - 1 - i)%nat with 0%nat by lia. split; [reflexivity | exact E].
    + intros k c0 Hk Hn0. destruct k as [|k]; [lia|]. simpl in Hn0.
      clear - E' Hn0. revert i k E' Hn0. induction rest as [|d rest IH]; intros i k E' Hn0.
      * destruct k; discriminate.
      * simpl in E'. destruct (last_bad_end table (S (S i)) rest) eqn:E''; [discriminate|].
        destruct (encodable table d) eqn:Ed; [|discriminate].
        destruct k as [|k]; simpl in Hn0; [inversion Hn0; subst; exact Ed|].
        eapply IH; eauto.
Qed.

Lemma last_bad_end_none s : forall i,
  last_bad_end table i s = None -> forall c, In c s -> encodable table c = true.
Proof.
  induction s as [|c rest IH]; intros i H c' Hin; [destruct Hin|].
  simpl in H. destruct (last_bad_end table (S i) rest) eqn:E'; [discriminate|].
  destruct (encodable table c) eqn:E; [|discriminate].
  destruct Hin as [->|Hin]; [exact E | eapply IH; eauto].
Qed.

(* The error names the first and the last offending character. *)
Theorem encode_error_span s a e :
  encode table s = EncError a e ->
  (a < e <= length s)%nat /\
  (exists c, nth_error s a = Some c /\ encodable table c = false) /\
  (exists c, nth_error s (e - 1) = Some c /\ encodable table c = false) /\
  (forall k c, (k < a)%nat -> nth_error s k = Some c -> encodable table c = true) /\
  (forall k c, (e <= k)%nat -> nth_error s k = Some c -> encodable table c = true).
Proof.
  unfold encode. destruct (encode_all table s) as [bs|] eqn:EA; [discriminate|].
  apply encode_all_none_iff in EA. destruct EA as [c0 [Hin0 Hc0]].
  destruct (first_bad table 0 s) as [a'|] eqn:FB.
  2:{ pose proof (first_bad_none _ _ FB _ Hin0). congruence. }
  destruct (last_bad_end table 0 s) as [e'|] eqn:LB.
  2:{ pose proof (last_bad_end_none _ _ LB _ Hin0). congruence. }
  intros H. inversion H; subst a' e'.
  destruct (first_bad_spec _ _ _ FB) as [Ha [[ca [Hna Hca]] Hbefore]].
  destruct (last_bad_end_spec _ _ _ LB) as [He [[ce [Hne Hce]] Hafter]].
  rewrite Nat.sub_0_r in *.
  assert (a < e)%nat.
  { destruct (Nat.lt_ge_cases a e) as [|Hge]; [assumption|].
    exfalso. assert (X := Hafter a ca Hge Hna). congruence. }
  split; [lia|]. split; [eauto|]. split; [eauto|]. split.
  - exact Hbefore.
  - intros k c Hk. apply Hafter. lia.
Qed.

Theorem encode_ok_iff s bs :
  encode table s = EncOk bs <-> Forall2 (fun c b => encode_char table c = Some b) s bs.
Proof.
  unfold encode. rewrite <- encode_all_Forall2.
  destruct (encode_all table s) as [bs'|].
  - split; intros H; inversion H; reflexivity.
  - split; [|discriminate]. destruct (first_bad table 0 s), (last_bad_end table 0 s); discriminate.
Qed.

End General.

(* ---- facts about the regenerated table (finite, by computation) ---- *)

Definition row_nonempty (r : list N) : bool := match r with [] => false | _ => true end.

Lemma table_256 : length decoding_table = 256%nat /\ forallb row_nonempty decoding_table = true.
Proof. vm_compute. split; reflexivity. Qed.

Definition rt_ok (b : N) : bool :=
  match bk_decode_byte b with
  | Some c => match bk_encode_char c with Some b' => b' =? b | None => false end
  | None => false
  end.

Lemma rt_sweep : forallb rt_ok (nrange 256) = true.
Proof. vm_compute. reflexivity. Qed.

Theorem byte_roundtrip b : b < 256 -> exists c, bk_decode_byte b = Some c /\ bk_encode_char c = Some b.
Proof.
  intros H. pose proof (nrange_forallb 256 rt_ok rt_sweep b H) as R. unfold rt_ok in R.
  destruct (bk_decode_byte b) as [c|]; [|discriminate]. exists c. split; [reflexivity|].
  destruct (bk_encode_char c) as [b'|]; [|discriminate]. apply N.eqb_eq in R. congruence.
Qed.

Definition ascii_ok (b : N) : bool :=
  match bk_decode_byte b with Some c => c =? b | None => false end.
Lemma ascii_sweep : forallb ascii_ok (nrange 127) = true.
Proof. vm_compute. reflexivity. Qed.

Theorem ascii_identity b : b <= 126 -> bk_decode_byte b = Some b /\ bk_encode_char b = Some b.
Proof.
  intros H. assert (Hb : b < N.of_nat 127) by lia.
  pose proof (nrange_forallb 127 ascii_ok ascii_sweep b Hb) as R. unfold ascii_ok in R.
  destruct (bk_decode_byte b) as [c|] eqn:E; [|discriminate]. apply N.eqb_eq in R. subst c.
  split; [reflexivity|].
  destruct (byte_roundtrip b) as [c [Hd He]]; [lia|]. congruence.
Qed.

Definition koi8_ok (b : N) : bool :=
  if (192 <=? b) then
    match bk_decode_byte b, koi8r b with Some c, Some k => c =? k | _, _ => false end
  else true.
Lemma koi8_sweep : forallb koi8_ok (nrange 256) = true.
Proof. vm_compute. reflexivity. Qed.

Theorem koi8_agrees b : 192 <= b < 256 -> exists c, bk_decode_byte b = Some c /\ koi8r b = Some c.
Proof.
  intros [H1 H2]. pose proof (nrange_forallb 256 koi8_ok koi8_sweep b H2) as R. unfold koi8_ok in R.
  apply N.leb_le in H1. rewrite H1 in R.
  destruct (bk_decode_byte b) as [c|]; [|discriminate].
  destruct (koi8r b) as [k|]; [|discriminate]. apply N.eqb_eq in R. subst. eauto.
Qed.

Lemma nth_error_Some_lt {A} (l : list A) n x : nth_error l n = Some x -> (n < length l)%nat.
Proof. intros H. apply nth_error_Some. rewrite H. discriminate. Qed.

(* on 0xC0-0xFF the coincidence with KOI8-R is exact in BOTH directions: the row of such a byte is the
   single KOI8-R character, so no other character (an alias) is accepted for a byte of that range *)
Definition koi8_row_ok (b : N) : bool :=
  if 192 <=? b then
    match nth_error decoding_table (N.to_nat b), koi8r b with
    | Some [c], Some k => c =? k
    | _, _ => false
    end
  else true.
Lemma koi8_rows_sweep : forallb koi8_row_ok (nrange 256) = true.
Proof. vm_compute. reflexivity. Qed.

Theorem koi8_exact c b : bk_encode_char c = Some b -> 192 <= b -> koi8r b = Some c.
Proof.
  intros He Hb.
  destruct (encode_char_sound decoding_table c b He) as [r [Hr Hin]].
  assert (Hlt : b < 256).
  { destruct (N.lt_ge_cases b 256) as [L|G]; [exact L|].
    exfalso. apply nth_error_Some_lt in Hr.
    assert (length decoding_table = 256%nat) by (vm_compute; reflexivity). lia. }
  pose proof (nrange_forallb 256 koi8_row_ok koi8_rows_sweep b Hlt) as R. unfold koi8_row_ok in R.
  apply N.leb_le in Hb. rewrite Hb in R. rewrite Hr in R.
  destruct r as [|c0 [|c1 r']]; try discriminate.
  destruct (koi8r b) as [k|]; [|discriminate]. apply N.eqb_eq in R. subst k.
  destruct Hin as [Hin|[]]. subst. reflexivity.
Qed.

(* every character outside the table is refused, whatever its code point *)
Theorem refuses_outside c : ~ In c bk_all_chars -> bk_encode_char c = None.
Proof.
  intros H. apply encode_char_refuses. intros r Hr Hc. apply H.
  unfold bk_all_chars. apply in_concat. eauto.
Qed.

Theorem accepts_inside c : In c bk_all_chars -> exists b, bk_encode_char c = Some b /\ b < 256.
Proof.
  intros H. unfold bk_all_chars in H. apply in_concat in H. destruct H as [r [Hr Hc]].
  destruct (encode_char_complete _ _ _ Hr Hc) as [b Hb]. exists b. split; [exact Hb|].
  destruct (encode_char_sound _ _ _ Hb) as [r' [Hn _]].
  assert (N.to_nat b < length decoding_table)%nat by (apply nth_error_Some; congruence).
  destruct table_256 as [L _]. rewrite L in H. lia.
Qed.

(* bytes -> string -> bytes is the identity, for byte strings of any length *)
Theorem bytes_roundtrip bs :
  Forall (fun b => b < 256) bs -> exists s, bk_decode bs = Some s /\ bk_encode s = EncOk bs.
Proof.
  induction bs as [|b rest IH]; intros H.
  - exists []. split; reflexivity.
  - inversion H as [|b' rest' Hb Hrest]; subst. destruct (IH Hrest) as [s [Hd He]].
    destruct (byte_roundtrip b Hb) as [c [Hdc Hec]].
    exists (c :: s). split.
    + unfold bk_decode in *. simpl. unfold bk_decode_byte in Hdc. rewrite Hdc, Hd. reflexivity.
    + apply encode_ok_iff. constructor; [exact Hec|]. apply encode_ok_iff. exact He.
Qed.
