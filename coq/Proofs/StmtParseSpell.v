(* P, stage 3 -- spelling lemmas about the character-level parser model (Model/StmtParse.v).

   Blanks:  the model's Context.skip_whitespace IS the [SkipWs.skip] that C10's theorems are about (so they all
            transfer), blank material before a position is absorbed, and every token parser of the form
            `skip_whitespace; match at ctx.pos` gives the same value and the same remaining text whatever blank
            material precedes the token.
   Case:    every table lookup, class test, literal match and digit conversion of the model sees a character only
            through its ASCII lower-case form.
   The whole-parser statements (tree equal up to offsets / up to the stored spelling) are NOT proved here: they need a
   simulation through every function of the model; see Props/P.v for the exact list of what is and is not covered. *)
From Coq Require Import String Ascii List ZArith NArith Bool Lia Arith.
From Verif Require Import Base.Range Gen.GenParserTables Gen.GenRadix50 Model.SkipWs Model.StmtParse.
Import ListNotations.
Open Scope N_scope.

(* ---- blanks ---------------------------------------------------------------------------------------------- *)
Lemma skip_cnt_fst b s k : fst (skip_cnt b s k) = skip_aux b s.
Proof.
  revert b k; induction s as [|x s IH]; intros b k; simpl; auto.
  destruct b.
  - unfold SkipWs.newline. destruct (x =? 10); apply IH.
  - destruct (is_space x); [apply IH|]. unfold semicolon. destruct (x =? 59); [apply IH | reflexivity].
Qed.
Lemma skip_cnt_snd b s k : snd (skip_cnt b s k) + N.of_nat (length (fst (skip_cnt b s k))) = k + N.of_nat (length s).
Proof.
  revert b k; induction s as [|x s IH]; intros b k; [simpl; lia|].
  pose proof (IH false (k + 1)) as Hf. pose proof (IH true (k + 1)) as Ht.
  cbn [skip_cnt]. change (length (x :: s)) with (S (length s)).
  destruct b.
  - destruct (x =? 10); lia.
  - destruct (is_space x); [lia|]. destruct (x =? 59); [lia|]. simpl fst; simpl snd. change (length (x :: s)) with (S (length s)). lia.
Qed.

(* the model's skip_whitespace is C10's [skip]; positions and remaining lengths add up *)
Theorem skip_ctx_is_skip c :
  rest (skip_ctx c) = skip (rest c) /\
  pos (skip_ctx c) + N.of_nat (length (rest (skip_ctx c))) = pos c + N.of_nat (length (rest c)).
Proof.
  unfold skip_ctx, skip. pose proof (skip_cnt_fst false (rest c) 0) as H1. pose proof (skip_cnt_snd false (rest c) 0) as H2.
  destruct (skip_cnt false (rest c) 0) as [r k]; simpl in *. subst. split; auto. lia.
Qed.

(* blank material: blanks, and ';' comments closed by their newline (the same definition as C10's ws_run) *)
Inductive blank_run : list N -> Prop :=
| br_nil : blank_run []
| br_blank c r : is_space c = true -> blank_run r -> blank_run (c :: r)
| br_comment body r : Forall (fun c => c <> 10) body -> blank_run r -> blank_run (59 :: body ++ 10 :: r).

Lemma skip_comment_body body : Forall (fun c => c <> 10) body ->
  forall r, skip_aux true (body ++ 10 :: r) = skip_aux false r.
Proof.
  induction 1 as [|c b Hc _ IH]; intros r; simpl; auto.
  unfold SkipWs.newline. replace (c =? 10) with false by (symmetry; apply N.eqb_neq; exact Hc). apply IH.
Qed.
Theorem skip_blank_prefix ws : blank_run ws -> forall r, skip (ws ++ r) = skip r.
Proof.
  unfold skip. induction 1 as [|c r0 Hc _ IH|body r0 Hb _ IH]; intros r; simpl; auto.
  - rewrite Hc. apply IH.
  - rewrite <- app_assoc. simpl. rewrite skip_comment_body by exact Hb. apply IH.
Qed.
Theorem blank_absorbed ws r p p' :
  blank_run ws -> rest (skip_ctx (mkCtx p (ws ++ r))) = rest (skip_ctx (mkCtx p' r)).
Proof.
  intros H. destruct (skip_ctx_is_skip (mkCtx p (ws ++ r))) as [-> _]. destruct (skip_ctx_is_skip (mkCtx p' r)) as [-> _].
  simpl. apply skip_blank_prefix; auto.
Qed.
Lemma skip_ctx_idem c : skip_ctx (skip_ctx c) = skip_ctx c.
Proof.
  destruct (skip_ctx_is_skip c) as [H1 H2]. destruct (skip_ctx_is_skip (skip_ctx c)) as [H3 H4].
  assert (E : skip (skip (rest c)) = skip (rest c)).
  { unfold skip. generalize (rest c) as s.
    assert (G : forall s b, skip_aux false (skip_aux b s) = skip_aux b s).
    { induction s as [|x s IH]; intros b; simpl; auto.
      destruct b; [destruct (x =? SkipWs.newline); apply IH|].
      destruct (is_space x) eqn:E1; [apply IH|]. destruct (x =? semicolon) eqn:E2; [apply IH|].
      simpl. rewrite E1, E2. reflexivity. }
    intros s; apply G. }
  destruct (skip_ctx (skip_ctx c)) as [p2 r2], (skip_ctx c) as [p1 r1]; simpl in *.
  rewrite H1 in H3. rewrite E in H3. subst r2 r1. f_equal. lia.
Qed.

(* a parser is rest-determined when value, success and remaining text depend on the text at ctx.pos only *)
Definition sim {A} (o o' : out A) : Prop :=
  match o, o' with
  | Ok a k _, Ok a' k' _ => a = a' /\ rest k = rest k'
  | Fail k _, Fail k' _ => rest k = rest k'
  | _, _ => False
  end.
Definition rest_det {A} (q : parser A) : Prop :=
  forall c c2 d d2, rest c = rest c2 -> sim (q c d) (q c2 d2).

Lemma rest_det_literal_ns lit : rest_det (literal_ns lit).
Proof. intros c c2 d d2 E. unfold literal_ns. rewrite E. destruct (lit_match lit (rest c2)); simpl; auto. Qed.
Lemma rest_det_regex_id_ns f m : rest_det (regex_id_ns f m).
Proof.
  intros c c2 d d2 E. unfold regex_id_ns. rewrite E. destruct (rest c2) as [|x r] eqn:E2; simpl; try congruence.
  destruct (f x); simpl; try congruence. destruct (span_n m r 0) as [[a b] k]; simpl; auto.
Qed.
Lemma rest_det_one_of_ns p : rest_det (one_of_ns p).
Proof.
  intros c c2 d d2 E. unfold one_of_ns. rewrite E. destruct (rest c2) as [|x r] eqn:E2; simpl; try congruence.
  destruct (p x); simpl; try congruence; auto.
Qed.
Lemma rest_det_skip {A} (q : parser A) : rest_det q -> rest_det (skip_ws ;;; q).
Proof.
  intros Hq c c2 d d2 E. unfold bind, skip_ws. apply Hq.
  destruct (skip_ctx_is_skip c) as [-> _]. destruct (skip_ctx_is_skip c2) as [-> _]. rewrite E; auto.
Qed.
Lemma rest_det_literal lit : rest_det (literal lit).
Proof. apply rest_det_skip, rest_det_literal_ns. Qed.
Lemma rest_det_symbol_literal : rest_det symbol_literal. Proof. apply rest_det_skip, rest_det_regex_id_ns. Qed.
Lemma rest_det_local_symbol_literal : rest_det local_symbol_literal. Proof. apply rest_det_skip, rest_det_regex_id_ns. Qed.
Lemma rest_det_label_name : rest_det label_name. Proof. apply rest_det_skip, rest_det_regex_id_ns. Qed.
Lemma rest_det_string_quote : rest_det string_quote. Proof. apply rest_det_skip, rest_det_one_of_ns. Qed.
Lemma rest_det_instruction_name : rest_det instruction_name.
Proof.
  apply rest_det_skip. intros c c2 d d2 E. rewrite E. destruct (rest c2) as [|x r] eqn:E2; simpl; try congruence.
  destruct (is_insn_start x).
  - destruct (span_n is_word r 0) as [[a b] k]; simpl; auto.
  - destruct (x =? 46); simpl; try congruence. destruct r as [|y r2]; simpl; try congruence.
    destruct (is_insn_start y); simpl; try congruence. destruct (span_n is_word r2 0) as [[a b] k]; simpl; auto.
Qed.
Lemma rest_det_caret_parenthesis : rest_det caret_parenthesis.
Proof.
  apply rest_det_skip. intros c c2 d d2 E. rewrite E. destruct (rest c2) as [|a [|x r]] eqn:E2; simpl; try congruence.
  destruct ((a =? 94) && caret_paren_char x); simpl; try congruence; auto.
Qed.
Lemma rest_det_either_lit t : rest_det (either_lit t).
Proof.
  induction t as [|o t IH]; intros c c2 d d2 E; simpl; [unfold fail; simpl; auto|].
  unfold bind, maybe. pose proof (rest_det_literal (op_char o) c c2 d d2 E) as H.
  destruct (literal (op_char o) c d) as [a k dd|k dd|dd|sx|], (literal (op_char o) c2 d2) as [a2 k2 dd2|k2 dd2|dd2|sx2|];
    simpl in H; try contradiction.
  - unfold ret; simpl. destruct H; auto.
  - apply IH; auto.
Qed.

(* THE token-level blank theorem: blank material inserted before a token does not change what the token parser
   returns nor the text it leaves *)
Theorem token_blank_insensitive {A} (q : parser A) ws r p p2 d d2 :
  rest_det q -> blank_run ws ->
  sim ((skip_ws ;;; q) (mkCtx p (ws ++ r)) d) ((skip_ws ;;; q) (mkCtx p2 r) d2).
Proof.
  intros Hq Hws. unfold bind, skip_ws. apply Hq. apply blank_absorbed; auto.
Qed.

(* ---- case ------------------------------------------------------------------------------------------------ *)
Definition ceq (a b : N) : Prop := lower a = lower b.
Definition lower_inv (p : N -> bool) : Prop := forall a, p a = p (lower a).
Lemma lower_inv_sweep p : forallb (fun a => Bool.eqb (p a) (p (lower a))) (nrange 128) = true -> lower_inv p.
Proof.
  intros H a. destruct (N.ltb_spec a 128) as [Hlt|Hge].
  - apply (nrange_forallb 128 _ H) in Hlt. apply eqb_prop in Hlt. exact Hlt.
  - unfold lower, is_upper. replace (a <=? 90) with false by (symmetry; apply N.leb_gt; lia). rewrite andb_false_r. reflexivity.
Qed.
Lemma lower_inv_ceq p a b : lower_inv p -> ceq a b -> p a = p b.
Proof. intros H E. rewrite (H a), (H b), E. reflexivity. Qed.

Lemma is_digit_lower : lower_inv is_digit. Proof. apply lower_inv_sweep; vm_compute; reflexivity. Qed.
Lemma is_alpha_lower : lower_inv is_alpha. Proof. apply lower_inv_sweep; vm_compute; reflexivity. Qed.
Lemma is_word_lower : lower_inv is_word. Proof. apply lower_inv_sweep; vm_compute; reflexivity. Qed.
Lemma is_insn_start_lower : lower_inv is_insn_start. Proof. apply lower_inv_sweep; vm_compute; reflexivity. Qed.
Lemma is_sym_start_lower : lower_inv is_sym_start. Proof. apply lower_inv_sweep; vm_compute; reflexivity. Qed.
Lemma is_sym_char_lower : lower_inv is_sym_char. Proof. apply lower_inv_sweep; vm_compute; reflexivity. Qed.
Lemma is_space_lower : lower_inv is_space. Proof. apply lower_inv_sweep; vm_compute; reflexivity. Qed.
Lemma is_ascii_space_lower : lower_inv is_ascii_space. Proof. apply lower_inv_sweep; vm_compute; reflexivity. Qed.
Lemma caret_paren_char_lower : lower_inv caret_paren_char. Proof. apply lower_inv_sweep; vm_compute; reflexivity. Qed.
Lemma rad50_class_lower : lower_inv rad50_class. Proof. apply lower_inv_sweep; vm_compute; reflexivity. Qed.
Lemma valid_digit_lower base : base <= 36 -> lower_inv (valid_digit base).
Proof.
  intros Hb a. unfold valid_digit.
  assert (E : digit_val a = digit_val (lower a)).
  { assert (G : lower_inv (fun x => match digit_val x with Some v => true | None => false end)) by (apply lower_inv_sweep; vm_compute; reflexivity).
    assert (G2 : forall x, match digit_val x, digit_val (lower x) with Some v, Some w => v = w | None, None => True | _, _ => False end).
    { intros x. destruct (N.ltb_spec x 128) as [Hlt|Hge].
      - assert (S : forallb (fun x => match digit_val x, digit_val (lower x) with Some v, Some w => v =? w | None, None => true | _, _ => false end) (nrange 128) = true) by (vm_compute; reflexivity).
        apply (nrange_forallb 128 _ S) in Hlt. destruct (digit_val x), (digit_val (lower x)); try discriminate; auto. apply N.eqb_eq; auto.
      - assert (lower x = x) as ->. { unfold lower, is_upper. replace (x <=? 90) with false by (symmetry; apply N.leb_gt; lia). rewrite andb_false_r. reflexivity. }
        destruct (digit_val x); auto. }
    specialize (G2 a). destruct (digit_val a), (digit_val (lower a)); try tauto. subst; auto. }
  rewrite E. reflexivity.
Qed.
Lemma digit_val_ceq a b : ceq a b -> digit_val a = digit_val b.
Proof.
  intros E.
  assert (G : forall x, digit_val x = digit_val (lower x)).
  { intros x. destruct (N.ltb_spec x 128) as [Hlt|Hge].
    - assert (S : forallb (fun x => match digit_val x, digit_val (lower x) with Some v, Some w => v =? w | None, None => true | _, _ => false end) (nrange 128) = true) by (vm_compute; reflexivity).
      apply (nrange_forallb 128 _ S) in Hlt. destruct (digit_val x), (digit_val (lower x)); try discriminate; auto. apply N.eqb_eq in Hlt; subst; auto.
    - assert (lower x = x) as ->; auto. unfold lower, is_upper. replace (x <=? 90) with false by (symmetry; apply N.leb_gt; lia). rewrite andb_false_r. reflexivity. }
  rewrite (G a), (G b), E. reflexivity.
Qed.

(* hex digits (and the digits of every base): the value does not depend on their case *)
Theorem int_digits_case base l l' acc : Forall2 ceq l l' -> int_digits base l acc = int_digits base l' acc.
Proof.
  intros H; revert acc; induction H as [|a b l l' E _ IH]; intros acc; simpl; auto.
  rewrite (digit_val_ceq a b E). destruct (digit_val b); auto. destruct (n <? base); auto.
Qed.
Lemma lower_idem a : lower (lower a) = lower a.
Proof.
  unfold lower at 1. destruct (is_upper (lower a)) eqn:E; auto.
  exfalso. unfold lower, is_upper in *. destruct ((65 <=? a) && (a <=? 90)) eqn:E2.
  - apply andb_prop in E as [E3 E4]. apply N.leb_le in E4. apply andb_prop in E2 as [E5 E6]. apply N.leb_le in E5. lia.
  - congruence.
Qed.
Theorem py_int_case base s s' : Forall2 ceq s s' -> py_int base s = py_int base s'.
Proof.
  intros H. unfold py_int.
  assert (E : Forall2 ceq (strip_base_prefix base s) (strip_base_prefix base s')).
  { unfold strip_base_prefix. destruct H as [|z z' t t' Ez Ht]; auto. destruct Ht as [|l l' r r' El Hr]; auto.
    assert (Z : (z =? 48) = (z' =? 48)).
    { assert (G : lower_inv (fun x => x =? 48)) by (apply lower_inv_sweep; vm_compute; reflexivity). apply (lower_inv_ceq _ _ _ G Ez). }
    rewrite Z. unfold ceq in El. rewrite El. destruct ((z' =? 48) && _); auto. }
  destruct E as [|a b t t' Ea Et]; auto.
  apply (int_digits_case base (a :: t) (b :: t') 0). constructor; auto.
Qed.

(* literals (radix prefixes ^X ^O ^B ^D, ^R, ^C, every operator, the register-free punctuation): matching sees the
   text through lower() only, and leaves related texts *)
Theorem lit_match_case lit l l' :
  Forall2 ceq l l' ->
  match lit_match lit l, lit_match lit l' with
  | Some r, Some r' => Forall2 ceq r r'
  | None, None => True
  | _, _ => False
  end.
Proof.
  revert l l'; induction lit as [|y lt IH]; intros l l' H; simpl; auto.
  destruct H as [|x x' r r' E Hr]; auto.
  assert (L : (x <? 128) = (x' <? 128)).
  { assert (G : lower_inv (fun x => x <? 128)) by (apply lower_inv_sweep; vm_compute; reflexivity). apply (lower_inv_ceq _ _ _ G E). }
  rewrite L. unfold ceq in E. rewrite E. destruct ((x' <? 128) && (lower x' =? y)); [apply IH; auto | exact I].
Qed.

(* names: mnemonics, directive names, register names -- every table lookup goes through str_lower *)
Lemma str_lower_case a b : Forall2 ceq a b -> str_lower a = str_lower b.
Proof. induction 1; simpl; auto. unfold ceq in H. rewrite H, IHForall2. reflexivity. Qed.
Theorem lookup_cmd_case a b : Forall2 ceq a b -> lookup_cmd a = lookup_cmd b.
Proof. intros H. unfold lookup_cmd. rewrite (str_lower_case a b H). reflexivity. Qed.
Theorem in_builtin_case a b : Forall2 ceq a b -> in_builtin a = in_builtin b.
Proof. intros H. unfold in_builtin. rewrite (lookup_cmd_case a b H). reflexivity. Qed.
Theorem is_register_name_case a b : Forall2 ceq a b -> is_register_name a = is_register_name b.
Proof. intros H. unfold is_register_name. rewrite (str_lower_case a b H). reflexivity. Qed.
Theorem operand_type_case a b idx c d : Forall2 ceq a b -> operand_type a idx c d = operand_type b idx c d.
Proof.
  intros H. unfold operand_type. rewrite (lookup_cmd_case a b H).
  assert (E : lookup_cmd (46 :: a) = lookup_cmd (46 :: b)) by (apply lookup_cmd_case; constructor; [reflexivity | auto]).
  rewrite E.
  assert (D : starts_with_dot a = starts_with_dot b).
  { destruct H as [|x y t t' Exy _]; auto. simpl.
    assert (G : lower_inv (fun x => x =? 46)) by (apply lower_inv_sweep; vm_compute; reflexivity). apply (lower_inv_ceq _ _ _ G Exy). }
  rewrite D. reflexivity.
Qed.
Theorem is_end_insn_case s e s2 e2 a b l1 l2 ops :
  Forall2 ceq a b -> is_end_insn (Insn s e (Symbol s2 e2 a l1) ops) = is_end_insn (Insn s e (Symbol s2 e2 b l2) ops).
Proof. intros H. simpl. rewrite (str_lower_case a b H). reflexivity. Qed.

(* identifier-shaped tokens: the run matched has the same length whatever the case of its letters *)
Theorem span_n_case p l l' k :
  lower_inv p -> Forall2 ceq l l' ->
  let '(m, r, n) := span_n p l k in let '(m', r', n') := span_n p l' k in
  Forall2 ceq m m' /\ Forall2 ceq r r' /\ n = n'.
Proof.
  intros Hp H; revert k; induction H as [|a b t t' E Ht IH]; intros k; simpl; auto.
  rewrite (lower_inv_ceq p a b Hp E). destruct (p b); [|repeat split; auto].
  specialize (IH (k + 1)). destruct (span_n p t (k + 1)) as [[m r] n], (span_n p t' (k + 1)) as [[m' r'] n'].
  destruct IH as [H1 [H2 H3]]. repeat split; auto.
Qed.

(* ---- the conjunctions stated in Props/P.v ------------------------------------------------------------------- *)
Lemma token_parsers_rest_det :
  (forall lit, rest_det (literal lit)) /\ rest_det symbol_literal /\ rest_det local_symbol_literal /\
  rest_det label_name /\ rest_det instruction_name /\ rest_det string_quote /\ rest_det caret_parenthesis /\
  rest_det infix_operator /\ rest_det prefix_operator /\ rest_det postfix_operator.
Proof.
  exact (conj rest_det_literal (conj rest_det_symbol_literal (conj rest_det_local_symbol_literal
        (conj rest_det_label_name (conj rest_det_instruction_name (conj rest_det_string_quote
        (conj rest_det_caret_parenthesis (conj (rest_det_either_lit _) (conj (rest_det_either_lit _) (rest_det_either_lit _)))))))))).
Qed.
Lemma case_names :
  forall a b, Forall2 ceq a b ->
    lookup_cmd a = lookup_cmd b /\ in_builtin a = in_builtin b /\ is_register_name a = is_register_name b /\
    (forall idx c d, operand_type a idx c d = operand_type b idx c d) /\
    (forall s e s2 e2 l1 l2 ops, is_end_insn (Insn s e (Symbol s2 e2 a l1) ops) = is_end_insn (Insn s e (Symbol s2 e2 b l2) ops)).
Proof.
  intros a b H. repeat split.
  - apply lookup_cmd_case; auto.
  - apply in_builtin_case; auto.
  - apply is_register_name_case; auto.
  - intros; apply operand_type_case; auto.
  - intros; apply is_end_insn_case; auto.
Qed.
Lemma case_literals_digits :
  (forall lit l l', Forall2 ceq l l' ->
     match lit_match lit l, lit_match lit l' with
     | Some r, Some r' => Forall2 ceq r r' | None, None => True | _, _ => False end) /\
  (forall base l l' acc, Forall2 ceq l l' -> int_digits base l acc = int_digits base l' acc) /\
  (forall base s s', Forall2 ceq s s' -> py_int base s = py_int base s') /\
  (forall p l l' k, lower_inv p -> Forall2 ceq l l' ->
     let '(m, r, n) := span_n p l k in let '(m', r', n') := span_n p l' k in
     Forall2 ceq m m' /\ Forall2 ceq r r' /\ n = n') /\
  (lower_inv is_digit /\ lower_inv is_alpha /\ lower_inv is_word /\ lower_inv is_insn_start /\ lower_inv is_sym_start /\
   lower_inv is_sym_char /\ lower_inv is_space /\ lower_inv caret_paren_char /\ lower_inv rad50_class).
Proof.
  repeat split.
  - exact lit_match_case.
  - exact int_digits_case.
  - exact py_int_case.
  - exact span_n_case.
  - exact is_digit_lower.
  - exact is_alpha_lower.
  - exact is_word_lower.
  - exact is_insn_start_lower.
  - exact is_sym_start_lower.
  - exact is_sym_char_lower.
  - exact is_space_lower.
  - exact caret_paren_char_lower.
  - exact rad50_class_lower.
Qed.
