(* Proofs/ListingPathP.v -- the --lst path derivation (Model.ListingM.lst_path) puts the listing
   beside the output file, named after it with ".lst" (C19). *)
From Coq Require Import String Ascii List ZArith NArith Bool Lia.
From Verif Require Import Spec.Listing Model.ListingM Proofs.ListingP.
Import ListNotations.
Open Scope string_scope.

Lemma rev_str_acc s : forall acc, rev_str s acc = rev_str s "" ++ acc.
Proof.
  induction s as [|c s IH]; intros acc; simpl; [reflexivity|].
  rewrite IH. rewrite (IH (String c "")). rewrite app_assoc_s. reflexivity.
Qed.

Lemma rev_str_append a b : rev_str (a ++ b) "" = rev_str b "" ++ rev_str a "".
Proof.
  induction a as [|c a IH]; simpl.
  - rewrite app_nil_r_s. reflexivity.
  - rewrite (rev_str_acc (a ++ b) (String c "")), IH. rewrite (rev_str_acc a (String c "")). rewrite app_assoc_s. reflexivity.
Qed.

Lemma rev_str_invol s : rev_str (rev_str s "") "" = s.
Proof.
  induction s as [|c s IH]; simpl; [reflexivity|].
  rewrite (rev_str_acc s (String c "")), rev_str_append, IH. reflexivity.
Qed.

Lemma prefix_app p x : String.prefix p (p ++ x) = true.
Proof.
  induction p as [|c p IH]; simpl; [destruct x; reflexivity|].
  destruct (ascii_dec c c); [exact IH | congruence].
Qed.

Lemma prefix_split p : forall s, String.prefix p s = true -> exists x, s = p ++ x.
Proof.
  induction p as [|c p IH]; intros s H.
  - exists s. reflexivity.
  - destruct s as [|d s]; [discriminate|]. simpl in H.
    destruct (ascii_dec c d) as [->|]; [|discriminate].
    destruct (IH s H) as [x ->]. exists x. reflexivity.
Qed.

Lemma endswith_iff sfx s : endswith sfx s = true <-> exists stem, s = stem ++ sfx.
Proof.
  unfold endswith. split.
  - intros H. apply prefix_split in H. destruct H as [x Hx].
    exists (rev_str x ""). rewrite <- (rev_str_invol s), Hx, rev_str_append, rev_str_invol. reflexivity.
  - intros [stem ->]. rewrite rev_str_append. apply prefix_app.
Qed.

Lemma app_inv_head_s a : forall b c, a ++ b = a ++ c -> b = c.
Proof. induction a as [|x a IH]; simpl; intros b c H; [exact H|]. inversion H. apply IH. assumption. Qed.

Lemma app_inv_tail_s a b s : a ++ s = b ++ s -> a = b.
Proof.
  intros H. apply (f_equal (fun x => rev_str x "")) in H. rewrite !rev_str_append in H.
  apply app_inv_head_s in H. rewrite <- (rev_str_invol a), <- (rev_str_invol b). congruence.
Qed.

Lemma rpartition_head_none c s : no_char c s -> rpartition_head c s = None.
Proof.
  induction s as [|a s IH]; simpl; [reflexivity|]. intros [N H]. rewrite IH by exact H.
  destruct (Ascii.eqb_spec a c); [congruence | reflexivity].
Qed.

Lemma rpartition0_split stem fmt : no_char "." fmt -> rpartition0 "." (stem ++ "." ++ fmt) = stem.
Proof.
  intros H. unfold rpartition0.
  assert (E : rpartition_head "." (stem ++ "." ++ fmt) = Some stem).
  { induction stem as [|a stem IH]; simpl.
    - rewrite rpartition_head_none by exact H. reflexivity.
    - simpl in IH. rewrite IH. reflexivity. }
  rewrite E. reflexivity.
Qed.

Lemma lst_path_stdout fmt path : no_char "." fmt ->
  path = "-" \/ path = "-." ++ fmt -> lst_path path fmt = "listing.lst".
Proof.
  intros ND [->| ->]; unfold lst_path.
  - destruct (endswith ("." ++ fmt) "-") eqn:E; [|reflexivity].
    apply endswith_iff in E. destruct E as [stem E].
    destruct stem as [|c stem]; simpl in E.
    + discriminate.
    + inversion E as [[Hc Hs]]. destruct stem; discriminate.
  - replace (endswith ("." ++ fmt) ("-." ++ fmt)) with true
      by (symmetry; apply endswith_iff; exists "-"; reflexivity).
    change ("-." ++ fmt) with ("-" ++ "." ++ fmt). rewrite rpartition0_split by exact ND. reflexivity.
Qed.

Lemma lst_path_beside fmt path : no_char "." fmt ->
  path <> "-" -> path <> "-." ++ fmt -> lst_beside path fmt (lst_path path fmt).
Proof.
  intros ND N1 N2. unfold lst_path.
  destruct (endswith ("." ++ fmt) path) eqn:E.
  - apply endswith_iff in E. destruct E as [stem ->].
    rewrite rpartition0_split by exact ND.
    destruct (String.eqb_spec (stem ++ ".lst") "-.lst") as [Q|Q].
    + exfalso. apply N2. change "-.lst" with ("-" ++ ".lst") in Q. apply app_inv_tail_s in Q.
      subst stem. reflexivity.
    + right. exists stem. split; reflexivity.
  - destruct (String.eqb_spec (path ++ ".lst") "-.lst") as [Q|Q].
    + exfalso. apply N1. change "-.lst" with ("-" ++ ".lst") in Q. apply app_inv_tail_s in Q. exact Q.
    + left. split; [reflexivity|]. intros stem ->.
      assert (endswith ("." ++ fmt) (stem ++ "." ++ fmt) = true) by (apply endswith_iff; eauto).
      congruence.
Qed.

(* without -o, with a make_xxx directive: named after the first emitted file *)
Lemma cli_lst_emitted fmt path ib infile :
  cli_lst None (Some (fmt, path)) ib infile = Some (lst_path path fmt).
Proof. reflexivity. Qed.

(* nothing emitted, no -o, no --implicit-bin: no listing *)
Lemma cli_lst_none infile : cli_lst None None false infile = None.
Proof. reflexivity. Qed.

(* with -o: named after the -o file, whatever the program emitted *)
Lemma cli_lst_outfile o fe ib infile :
  cli_lst (Some o) fe ib infile
  = Some (lst_path o (if endswith ".bin" (lower (last_component o "")) then "bin" else "raw")).
Proof. unfold cli_lst, cli_emitted. destruct fe; reflexivity. Qed.
