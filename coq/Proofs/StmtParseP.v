(* P -- totality of the character-level parser model (Model/StmtParse.v).

   Main result [parse_total]: with fuel >= 8 * length text + 7, parse_file never ends in PCrash or POutOfFuel.
   That covers: every explicit `crash` site of the model (indexing, int(), list.pop(), the message-list index, the
   assert of Parser.__call__, pack_to_int, a RecoverableError escaping parse()) is unreachable, and every loop of the
   parser consumes input (the fuel bound is linear in the length of the text).

   Method: a Hoare-style predicate [res_ok nf n Q o] over outcomes (no Crash / OutOfFuel; every context handed on has
   at most n characters left; Q relates value and new context; nf = "may not Fail"), one lemma per combinator of
   Parser.__call__ and per primitive parser, then one lemma per function of the model.  The mutually recursive
   functions are handled through the record [funs]: [funs_ok f R] says each field is safe when called with fuel f on
   a context c such that 8 * |rest c| + rank <= f; ranks order the calls that do not consume input. *)
From Coq Require Import String Ascii List ZArith NArith Bool Lia Arith.
From Verif Require Import Gen.GenParserTables Gen.GenRadix50 Model.SkipWs Model.StmtParse.
Import ListNotations.
Open Scope N_scope.

Definition sz (c : ctx) : nat := length (rest c).

Definition res_ok {A} (nf : bool) (n : nat) (Q : A -> ctx -> Prop) (o : out A) : Prop :=
  match o with
  | Ok a c' _ => (sz c' <= n)%nat /\ Q a c'
  | Fail c' _ => nf = false /\ (sz c' <= n)%nat
  | Crit _ => True
  | Crash _ => False
  | OutOfFuel => False
  end.

Lemma res_ok_conseq {A} nf n (Q Q' : A -> ctx -> Prop) o :
  res_ok nf n Q o -> (forall a c', (sz c' <= n)%nat -> Q a c' -> Q' a c') -> res_ok nf n Q' o.
Proof. destruct o; simpl; intuition. Qed.

Lemma res_ok_weaken {A} nf n (Q : A -> ctx -> Prop) o : res_ok true n Q o -> res_ok nf n Q o.
Proof. destruct o; simpl; intuition; discriminate. Qed.

Lemma res_ok_mono {A} nf n n' (Q : A -> ctx -> Prop) o : (n <= n')%nat -> res_ok nf n Q o -> res_ok nf n' Q o.
Proof. destruct o; simpl; intuition; lia. Qed.

Lemma bind_ok {A B} nf n (p : parser A) (k : A -> parser B) c d Q1 (Q : B -> ctx -> Prop) :
  res_ok nf n Q1 (p c d) ->
  (forall a c' d', (sz c' <= n)%nat -> Q1 a c' -> res_ok nf n Q (k a c' d')) ->
  res_ok nf n Q (bind p k c d).
Proof. unfold bind; destruct (p c d); simpl; intuition. Qed.

Lemma ret_ok {A} nf n (Q : A -> ctx -> Prop) a c d : (sz c <= n)%nat -> Q a c -> res_ok nf n Q (ret a c d).
Proof. simpl; auto. Qed.
Lemma fail_ok {A} n (Q : A -> ctx -> Prop) c d : (sz c <= n)%nat -> res_ok false n Q (@fail A c d).
Proof. simpl; auto. Qed.
Lemma get_ok nf n c d : (sz c <= n)%nat -> res_ok nf n (fun a c' => a = c /\ c' = c) (get c d).
Proof. simpl; auto. Qed.
Lemma set_ok nf n c0 c d : (sz c0 <= n)%nat -> res_ok nf n (fun _ c' => c' = c0) (set_ctx c0 c d).
Proof. simpl; auto. Qed.
Lemma emit_ok nf n sv id spans c d : (sz c <= n)%nat -> res_ok nf n (fun _ c' => c' = c) (emit sv id spans c d).
Proof. simpl; auto. Qed.
Lemma critical_ok {A} nf n (Q : A -> ctx -> Prop) id spans c d : res_ok nf n Q (@critical A id spans c d).
Proof. simpl; auto. Qed.
Lemma when_ok nf n b p c d :
  (sz c <= n)%nat -> (b = true -> res_ok nf n (fun _ c' => c' = c) (p c d)) -> res_ok nf n (fun _ c' => c' = c) (when b p c d).
Proof. destruct b; simpl; auto. Qed.

Lemma maybe_ok {A} nf n (p : parser A) c d (Q : A -> ctx -> Prop) :
  (sz c <= n)%nat -> res_ok false n Q (p c d) ->
  res_ok nf n (fun o c' => match o with Some a => Q a c' | None => c' = c end) (maybe p c d).
Proof. unfold maybe; destruct (p c d); simpl; intuition. Qed.
Lemma look_ok {A} nf n (p : parser A) c d (Q : A -> ctx -> Prop) :
  (sz c <= n)%nat -> res_ok false n Q (p c d) ->
  res_ok nf n (fun o c' => c' = c /\ match o with Some a => exists c'', Q a c'' | None => True end) (look p c d).
Proof. unfold look; destruct (p c d); simpl; intuition eauto. Qed.
Lemma not_ok {A} n (p : parser A) c d (Q : A -> ctx -> Prop) :
  (sz c <= n)%nat -> res_ok false n Q (p c d) -> res_ok false n (fun _ c' => c' = c) (not_p p c d).
Proof. unfold not_p, bind, maybe; destruct (p c d); simpl; intuition. Qed.
Lemma por_ok {A} nf n (p q : parser A) c d (Q : A -> ctx -> Prop) :
  (sz c <= n)%nat -> res_ok false n Q (p c d) -> (forall d', res_ok nf n Q (q c d')) -> res_ok nf n Q (por p q c d).
Proof. unfold por, bind, maybe; intros Hc Hp Hq; destruct (p c d); simpl in *; intuition. Qed.
Lemma or_critical_ok {A} nf n (p : parser A) id spans c d (Q : A -> ctx -> Prop) :
  res_ok false n Q (p c d) -> res_ok nf n Q (or_critical p id spans c d).
Proof. unfold or_critical; destruct (p c d); simpl; intuition. Qed.
Lemma or_error_ok {A} nf n (p : parser A) id spans c d (Q : A -> ctx -> Prop) :
  res_ok false n Q (p c d) ->
  res_ok nf n (fun o c' => match o with Some a => Q a c' | None => True end) (or_error p id spans c d).
Proof. unfold or_error; destruct (p c d); simpl; intuition. Qed.
Lemma on_copy_ok {A} nf n (p : parser A) c0 c d (Q : A -> ctx -> Prop) :
  (sz c <= n)%nat -> res_ok nf n Q (p c0 d) ->
  res_ok nf n (fun r c' => c' = c /\ Q (fst r) (snd r) /\ (sz (snd r) <= n)%nat) (on_copy c0 p c d).
Proof. unfold on_copy; destruct (p c0 d); simpl; intuition. Qed.

(* ---- blank skipping ---------------------------------------------------------------------------- *)
Lemma skip_cnt_len b s k : (length (fst (skip_cnt b s k)) <= length s)%nat.
Proof.
  revert b k; induction s as [|x s IH]; intros b k; simpl; auto.
  pose proof (IH false (k + 1)) as H0. pose proof (IH true (k + 1)) as H1.
  destruct b.
  - destruct (x =? 10); lia.
  - destruct (is_space x); [lia|]. destruct (x =? 59); [lia|]. simpl; lia.
Qed.
Lemma skip_ctx_sz c : (sz (skip_ctx c) <= sz c)%nat.
Proof.
  unfold skip_ctx, sz. pose proof (skip_cnt_len false (rest c) 0) as H.
  destruct (skip_cnt false (rest c) 0); simpl in *; exact H.
Qed.
Lemma skip_ws_ok nf n c d : (sz c <= n)%nat -> res_ok nf n (fun _ c' => c' = skip_ctx c) (skip_ws c d).
Proof. intros; simpl; split; auto. pose proof (skip_ctx_sz c); lia. Qed.

(* a parser that starts with skip_ws: specification transfer *)
Lemma after_skip_ok {A} nf n (p : parser A) c d (Q : A -> ctx -> Prop) :
  (sz c <= n)%nat -> res_ok nf n Q (p (skip_ctx c) d) -> res_ok nf n Q ((skip_ws ;;; p) c d).
Proof. intros Hc H. unfold bind, skip_ws. exact H. Qed.

(* ---- literals and one-token regexes ---------------------------------------------------------------- *)
Lemma lit_match_len lit l r : lit_match lit l = Some r -> (length r + length lit = length l)%nat.
Proof.
  revert l; induction lit as [|y lt IH]; intros l H; simpl in *.
  - inversion H; subst; lia.
  - destruct l as [|x l']; try discriminate.
    destruct ((x <? 128) && (lower x =? y)); try discriminate.
    apply IH in H. simpl; lia.
Qed.
Lemma literal_ns_ok n lit c d :
  (sz c <= n)%nat -> lit <> [] ->
  res_ok false n (fun a c' => a = lit /\ (sz c' < sz c)%nat) (literal_ns lit c d).
Proof.
  intros Hc Hl. unfold literal_ns. destruct (lit_match lit (rest c)) eqn:E; simpl; auto.
  apply lit_match_len in E. unfold sz in *; simpl. destruct lit; [congruence|]. simpl in E. repeat split; auto; lia.
Qed.
Lemma literal_ok n lit c d :
  (sz c <= n)%nat -> lit <> [] ->
  res_ok false n (fun a c' => a = lit /\ (sz c' < sz c)%nat) (literal lit c d).
Proof.
  intros Hc Hl. apply after_skip_ok; auto.
  pose proof (skip_ctx_sz c).
  eapply res_ok_conseq. { apply literal_ns_ok; [lia | auto]. }
  simpl; intuition; lia.
Qed.

Lemma span_n_len p l k : (length (snd (fst (span_n p l k))) <= length l)%nat.
Proof.
  revert k; induction l as [|x l IH]; intros k; simpl; auto.
  destruct (p x); simpl; auto.
  specialize (IH (k + 1)). destruct (span_n p l (k + 1)) as [[m r] k']; simpl in *; lia.
Qed.
Lemma span_n_forall p l k : Forall (fun x => p x = true) (fst (fst (span_n p l k))).
Proof.
  revert k; induction l as [|x l IH]; intros k; simpl; auto.
  destruct (p x) eqn:E; simpl; auto.
  specialize (IH (k + 1)). destruct (span_n p l (k + 1)) as [[m r] k']; simpl in *. constructor; auto.
Qed.

Definition idq (first more : N -> bool) (c : ctx) (a : list N) (c' : ctx) : Prop :=
  (sz c' < sz c)%nat /\ exists x m, a = x :: m /\ first x = true /\ Forall (fun y => more y = true) m.

Ltac usz := simpl; unfold sz in *; simpl in *.
Lemma regex_id_ns_ok n first more c d :
  (sz c <= n)%nat -> res_ok false n (idq first more c) (regex_id_ns first more c d).
Proof.
  intros Hc. unfold regex_id_ns, idq. destruct (rest c) as [|x r] eqn:E; [usz; auto|].
  destruct (first x) eqn:Ef; [|usz; auto].
  pose proof (span_n_len more r 0) as Hl. pose proof (span_n_forall more r 0) as Hf.
  destruct (span_n more r 0) as [[m r'] k]. usz. rewrite E in *; simpl in *.
  repeat split; try lia. exists x, m; auto.
Qed.
Lemma regex_id_ok n first more c d :
  (sz c <= n)%nat -> res_ok false n (idq first more c) ((skip_ws ;;; regex_id_ns first more) c d).
Proof.
  intros Hc. apply after_skip_ok; auto. pose proof (skip_ctx_sz c).
  eapply res_ok_conseq. { apply regex_id_ns_ok; lia. }
  unfold idq; simpl; intuition; lia.
Qed.
Lemma one_of_ns_ok n p c d :
  (sz c <= n)%nat -> res_ok false n (fun a c' => (sz c' < sz c)%nat /\ exists x, a = [x] /\ p x = true) (one_of_ns p c d).
Proof.
  intros Hc. unfold one_of_ns. destruct (rest c) as [|x r] eqn:E; [usz; auto|].
  destruct (p x) eqn:Ep; [|usz; auto]. usz. rewrite E in *; simpl in *. repeat split; try lia. eauto.
Qed.
Lemma string_quote_ok n c d :
  (sz c <= n)%nat -> res_ok false n (fun a c' => (sz c' < sz c)%nat /\ exists x, a = [x]) (string_quote c d).
Proof.
  intros Hc. apply after_skip_ok; auto. pose proof (skip_ctx_sz c).
  eapply res_ok_conseq. { apply one_of_ns_ok; lia. }
  simpl; intros a c' _ [H1 [x [H2 _]]]; split; [lia | eauto].
Qed.
Lemma character_ok n c d :
  (sz c <= n)%nat -> res_ok false n (fun a c' => (sz c' < sz c)%nat /\ exists x, a = [x]) (character c d).
Proof.
  intros Hc. eapply res_ok_conseq. { apply one_of_ns_ok; auto. }
  simpl; intros a c' _ [H1 [x [H2 _]]]; eauto.
Qed.

Lemma caret_parenthesis_ok n c d :
  (sz c <= n)%nat -> res_ok false n (fun a c' => (sz c' < sz c)%nat /\ exists x, a = [94; x]) (caret_parenthesis c d).
Proof.
  intros Hc. apply after_skip_ok; auto. pose proof (skip_ctx_sz c) as Hs.
  destruct (rest (skip_ctx c)) as [|a [|x r]] eqn:E; [usz; split; auto; lia | usz; split; auto; lia |].
  destruct ((a =? 94) && caret_paren_char x); [|usz; split; auto; lia].
  usz. rewrite E in *; simpl in *. repeat split; try lia. eauto.
Qed.

Lemma instruction_name_ok n c d :
  (sz c <= n)%nat -> res_ok false n (fun a c' => (sz c' < sz c)%nat) (instruction_name c d).
Proof.
  intros Hc. apply after_skip_ok; auto. pose proof (skip_ctx_sz c) as Hs.
  destruct (rest (skip_ctx c)) as [|x r] eqn:E; [usz; split; auto; lia|].
  destruct (is_insn_start x).
  - pose proof (span_n_len is_word r 0) as Hl. destruct (span_n is_word r 0) as [[m r'] k].
    usz. rewrite E in *; simpl in *. split; lia.
  - destruct (x =? 46); [|usz; split; auto; lia].
    destruct r as [|y r2]; [usz; split; auto; lia|].
    destruct (is_insn_start y); [|usz; split; auto; lia].
    pose proof (span_n_len is_word r2 0) as Hl. destruct (span_n is_word r2 0) as [[m r'] k].
    usz. rewrite E in *; simpl in *. split; lia.
Qed.

Lemma eof_ok n c d : (sz c <= n)%nat -> res_ok false n (fun _ c' => (sz c' <= sz c)%nat) (eof c d).
Proof.
  intros Hc. apply after_skip_ok; auto. pose proof (skip_ctx_sz c).
  destruct (rest (skip_ctx c)); simpl; intuition; lia.
Qed.

Lemma ws_run_len l k last :
  (length (fst (fst (ws_run l k last))) <= length l)%nat /\
  (forall r k', snd (ws_run l k last) = Some (r, k') -> last = Some (r, k') \/ (length r < length l)%nat).
Proof.
  revert k last; induction l as [|x l IH]; intros k last; simpl.
  - split; auto.
  - destruct (is_space x); simpl.
    + destruct (IH (k + 1) (if x =? 10 then Some (l, k + 1) else last)) as [H1 H2]. split; [lia|].
      intros r k' E. destruct (H2 r k' E) as [H|H]; [|right; lia].
      destruct (x =? 10); auto. inversion H; subst. right; lia.
    + split; auto.
Qed.
Lemma until_nl_len l k : (length (fst (until_nl l k)) <= length l)%nat.
Proof.
  revert k; induction l as [|x l IH]; intros k; simpl; auto.
  specialize (IH (k + 1)). destruct (x =? 10); simpl; lia.
Qed.
Lemma newline_ok n c d : (sz c <= n)%nat -> res_ok false n (fun _ c' => (sz c' <= sz c)%nat) (newline c d).
Proof.
  intros Hc. unfold newline.
  destruct (ws_run_len (rest c) 0 None) as [H1 H2].
  destruct (ws_run (rest c) 0 None) as [[r k] last]; simpl in H1, H2.
  destruct last as [[r2 k2]|].
  - destruct (H2 r2 k2 eq_refl) as [H|H]; [discriminate|]. destruct r; usz; split; lia.
  - destruct r as [|a r']; [usz; auto|].
    destruct (a =? 59); [|usz; auto].
    pose proof (until_nl_len r' (k + 1)) as H3. destruct (until_nl r' (k + 1)) as [r'' k'']. usz. split; lia.
Qed.

(* ---- operator tables -------------------------------------------------------------------------------- *)
Definition rows_nonempty (t : list oprow) : bool := forallb (fun o => match op_char o with [] => false | _ => true end) t.
Lemma either_lit_ok n t c d :
  rows_nonempty t = true -> (sz c <= n)%nat ->
  res_ok false n (fun _ c' => (sz c' < sz c)%nat) (either_lit t c d).
Proof.
  intros Ht Hc. revert d. induction t as [|o t IH]; intros d; simpl.
  - auto.
  - simpl in Ht. apply andb_prop in Ht as [Ho Ht].
    eapply bind_ok.
    + apply maybe_ok; auto. apply literal_ok; auto. destruct (op_char o); congruence.
    + intros [a|] c' d' Hc' HQ; simpl in *.
      * simpl; intuition.
      * subst c'. apply IH; auto.
Qed.
Lemma infix_nonempty : rows_nonempty infix_table = true. Proof. vm_compute; reflexivity. Qed.
Lemma prefix_nonempty : rows_nonempty prefix_table = true. Proof. vm_compute; reflexivity. Qed.
Lemma postfix_nonempty : rows_nonempty postfix_table = true. Proof. vm_compute; reflexivity. Qed.
Lemma infix_operator_ok n c d : (sz c <= n)%nat -> res_ok false n (fun _ c' => (sz c' < sz c)%nat) (infix_operator c d).
Proof. apply either_lit_ok, infix_nonempty. Qed.
Lemma prefix_operator_ok n c d : (sz c <= n)%nat -> res_ok false n (fun _ c' => (sz c' < sz c)%nat) (prefix_operator c d).
Proof. apply either_lit_ok, prefix_nonempty. Qed.
Lemma postfix_operator_ok n c d : (sz c <= n)%nat -> res_ok false n (fun _ c' => (sz c' < sz c)%nat) (postfix_operator c d).
Proof. apply either_lit_ok, postfix_nonempty. Qed.

Lemma term_p_ok n t c d : (sz c <= n)%nat -> res_ok false n (fun _ c' => (sz c' < sz c)%nat) (term_p t c d).
Proof.
  intros Hc. revert d; induction t as [|x t IH]; intros d; simpl.
  - unfold never, fail; simpl; auto.
  - apply por_ok; auto. intros d'.
    eapply res_ok_conseq. { apply literal_ok; auto. congruence. } simpl; intuition.
Qed.
Lemma not_term_ok n t c d : (sz c <= n)%nat -> res_ok false n (fun _ c' => c' = c) (not_p (term_p t) c d).
Proof. intros; eapply not_ok; auto. apply term_p_ok; auto. Qed.
Lemma not_term_colon_ok n t c d :
  (sz c <= n)%nat -> res_ok false n (fun _ c' => (sz c' < sz c)%nat) (not_term_colon t c d).
Proof.
  intros Hc. unfold not_term_colon.
  eapply bind_ok. { apply not_term_ok; auto. }
  intros _ c1 d1 H1 ->. eapply bind_ok. { unfold colon. apply literal_ok; auto. congruence. }
  intros a c2 d2 H2 [_ Hlt]. simpl; auto.
Qed.

(* ---- tactics --------------------------------------------------------------------------------------- *)
Tactic Notation "bstep" tactic3(tac) "as" simple_intropattern(a) simple_intropattern(c) simple_intropattern(d) simple_intropattern(Hs) simple_intropattern(HQ) :=
  eapply bind_ok; [ tac | cbv beta; intros a c d Hs HQ ].
Ltac fin := simpl; unfold sz in *; simpl in *; intuition (try lia; try congruence; eauto).
Ltac gstep c0 H := eapply bind_ok; [ apply get_ok; auto | cbv beta; intros c0 ? ? H [-> ->] ].

(* ---- int() ------------------------------------------------------------------------------------------ *)
Lemma int_digits_some base l acc :
  forallb (valid_digit base) l = true -> exists v, int_digits base l acc = Some v.
Proof.
  revert acc; induction l as [|x l IH]; intros acc H; simpl in *; eauto.
  apply andb_prop in H as [Hx Hl]. unfold valid_digit in Hx.
  destruct (digit_val x); try discriminate. rewrite Hx. auto.
Qed.
Lemma digit_valid10 x : is_digit x = true -> valid_digit 10 x = true.
Proof.
  unfold valid_digit, digit_val, is_digit. intros H; rewrite H.
  apply andb_prop in H as [H1 H2]. apply N.leb_le in H1, H2. apply N.ltb_lt. lia.
Qed.
Lemma digit_valid8 x : is_digit x = true -> (x =? 56) || (x =? 57) = false -> valid_digit 8 x = true.
Proof.
  unfold valid_digit, digit_val, is_digit. intros H H8; rewrite H.
  apply andb_prop in H as [H1 H2]. apply N.leb_le in H1, H2. apply orb_false_elim in H8 as [H3 H4].
  apply N.eqb_neq in H3, H4. apply N.ltb_lt. lia.
Qed.
Lemma forallb_impl {A} (p q : A -> bool) l : (forall x, p x = true -> q x = true) -> forallb p l = true -> forallb q l = true.
Proof. intros H; induction l; simpl; auto. intros E; apply andb_prop in E as [E1 E2]. rewrite H, IHl; auto. Qed.
Lemma existsb_false_forallb {A} (p q : A -> bool) l :
  existsb p l = false -> forallb q l = true -> forallb (fun x => q x && negb (p x)) l = true.
Proof.
  induction l; simpl; auto. intros E F. apply orb_false_elim in E as [E1 E2]. apply andb_prop in F as [F1 F2].
  rewrite E1, F1, IHl; auto.
Qed.
Lemma all_digits_forallb s : all_digits s = true -> forallb is_digit s = true.
Proof. destruct s; simpl; [discriminate | auto]. Qed.

Lemma span_n_split p l k :
  (length (snd (fst (span_n p l k))) + length (fst (fst (span_n p l k))) = length l)%nat.
Proof.
  revert k; induction l as [|x l IH]; intros k; simpl; auto.
  destruct (p x); simpl; auto.
  specialize (IH (k + 1)). destruct (span_n p l (k + 1)) as [[m r] k']; simpl in *; lia.
Qed.
Lemma forall_forallb {A} (p : A -> bool) l : Forall (fun x => p x = true) l -> forallb p l = true.
Proof. induction 1; simpl; auto. rewrite H, IHForall; auto. Qed.

Lemma caret_digits_ok n base c d :
  (sz c <= n)%nat ->
  res_ok false n (fun a c' => (sz c' <= sz c)%nat /\ forallb (valid_digit base) a = true) (caret_digits base c d).
Proof.
  intros Hc. unfold caret_digits.
  pose proof (span_n_len (valid_digit base) (rest c) 0) as Hl.
  pose proof (span_n_forall (valid_digit base) (rest c) 0) as Hf.
  destruct (span_n (valid_digit base) (rest c) 0) as [[m r] k]; simpl in Hl, Hf.
  apply forall_forallb in Hf.
  destruct m as [|y m]; [fin|].
  destruct r as [|x r]; [fin|].
  destruct ((x =? 36) || (x =? 46) || is_word x); fin.
Qed.

Lemma number_caret_ok n neg cs forms k c d :
  (sz c <= n)%nat ->
  Forall (fun f => fst (fst f) <> []) forms ->
  (forall d', res_ok false n (fun _ c' => (sz c' < sz c)%nat) (k c d')) ->
  res_ok false n (fun _ c' => (sz c' < sz c)%nat) (number_caret neg cs forms k c d).
Proof.
  intros Hc Hf Hk. revert d. induction Hf as [|[[pl pr] base] fr Hpl Hfr IH]; intros d; simpl; auto.
  simpl in Hpl.
  bstep (apply maybe_ok; [auto | apply literal_ok; auto]) as m c1 d1 Hs1 HQ1.
  destruct m as [a|].
  - destruct HQ1 as [_ HQ1].
    bstep (apply or_critical_ok; apply caret_digits_ok; auto) as num c2 d2 Hs2 [HQ2 Hv].
    gstep ce Hs3.
    destruct (int_digits_some base num 0 Hv) as [v ->]. fin.
  - subst. apply IH.
Qed.

Lemma local_symbol_literal_ok n c d :
  (sz c <= n)%nat -> res_ok false n (idq is_digit is_sym_char c) (local_symbol_literal c d).
Proof. apply regex_id_ok. Qed.
Lemma symbol_literal_ok n c d :
  (sz c <= n)%nat -> res_ok false n (idq is_sym_start is_sym_char c) (symbol_literal c d).
Proof. apply regex_id_ok. Qed.
Lemma label_name_ok n c d :
  (sz c <= n)%nat -> res_ok false n (idq is_sym_char is_sym_char c) (label_name c d).
Proof. apply regex_id_ok. Qed.

Lemma rev_cons_nonempty {A} (x : A) m : rev (x :: m) <> [].
Proof. simpl. destruct (rev m); simpl; congruence. Qed.

Lemma number_plain_ok n t neg cs c d :
  (sz c <= n)%nat -> res_ok false n (fun _ c' => (sz c' < sz c)%nat) (number_plain t neg cs c d).
Proof.
  intros Hc. unfold number_plain.
  bstep (apply local_symbol_literal_ok; auto) as num0 c1 d1 Hs1 [Hlt [x [m [-> [Hx Hm]]]]].
  bstep (apply maybe_ok; [auto | apply not_term_colon_ok; auto]) as mc c2 d2 Hs2 HQ2.
  destruct mc as [u|]; [fin|]. subst c2.
  destruct (rev (x :: m)) as [|lastc rnum] eqn:Er; [exfalso; eapply rev_cons_nonempty; eauto|].
  set (num := if lastc =? 46 then rev rnum else x :: m).
  destruct (existsb (fun c0 : N => (c0 =? 36) || (c0 =? 95) || (c0 =? 46)) num); [fin|].
  destruct (all_digits num) eqn:Ead.
  - pose proof (all_digits_forallb _ Ead) as Hd.
    destruct (int_digits_some 10 num 0 (forallb_impl _ _ _ digit_valid10 Hd)) as [dec ->].
    destruct (lastc =? 46).
    { gstep ce Hs3. fin. }
    destruct (existsb (fun c0 : N => (c0 =? 56) || (c0 =? 57)) num) eqn:E89.
    { destruct neg.
      - gstep ce Hs3.
        bstep (apply emit_ok; auto) as u c4 d4 Hs4 HQ4. subst. fin.
      - gstep ce Hs3. fin. }
    assert (H8 : forallb (valid_digit 8) num = true).
    { pose proof (existsb_false_forallb _ _ _ E89 Hd) as H.
      eapply forallb_impl; [|exact H]. intros y Hy. apply andb_prop in Hy as [Hy1 Hy2].
      apply digit_valid8; auto. apply negb_true_iff in Hy2; auto. }
    destruct (int_digits_some 8 num 0 H8) as [oct ->].
    gstep ce Hs3. fin.
  - destruct num as [|z [|l digits]]; [fin | fin |].
    destruct ((z =? 48) && is_alpha l); [|fin].
    destruct (if lower l =? 120 then Some 16 else if lower l =? 111 then Some 8 else if lower l =? 98 then Some 2 else None) as [b|]; [|fin].
    destruct (py_int b digits); [|fin].
    gstep ce Hs3. fin.
Qed.

Lemma caret_forms_nonempty : Forall (fun f : list N * list N * N => fst (fst f) <> []) caret_forms.
Proof. repeat constructor; simpl; congruence. Qed.

Lemma number_ok n t c d :
  (sz c <= n)%nat -> res_ok false n (fun _ c' => (sz c' < sz c)%nat) (number t c d).
Proof.
  intros Hc. unfold number.
  bstep (apply maybe_ok; [auto | unfold minus; apply literal_ok; [auto | congruence]]) as neg c1 d1 Hs1 HQ1.
  assert (Hc1 : (sz c1 <= sz c)%nat) by (destruct neg as [a|]; [destruct HQ1; lia | subst; lia]).
  bstep (apply skip_ws_ok; auto) as u c2 d2 Hs2 ->. pose proof (skip_ctx_sz c1) as Hsk.
  gstep cs Hs3.
  eapply res_ok_conseq.
  - apply number_caret_ok; [auto | apply caret_forms_nonempty |]. intros d0. apply number_plain_ok; auto.
  - simpl; intros; lia.
Qed.

(* ---- radix50_literal ------------------------------------------------------------------------------- *)
Definition has_idx (y : N) : bool := is_some (index_of y rad50_table 0).
Lemma mem_n_in c l : mem_n c l = true -> In c l.
Proof. induction l; simpl; [discriminate|]. destruct (c =? a) eqn:E; auto. apply N.eqb_eq in E; auto. Qed.
Lemma table_idx : forallb (fun y => has_idx y && has_idx (upper y)) rad50_table = true /\ has_idx 32 = true.
Proof. vm_compute; auto. Qed.
Lemma rad50_class_idx x : rad50_class x = true -> has_idx (upper x) = true.
Proof.
  unfold rad50_class. intros H. apply andb_prop in H as [_ H]. apply orb_prop in H as [H|H].
  - apply mem_n_in in H. destruct table_idx as [T _]. rewrite forallb_forall in T. apply T in H. apply andb_prop in H; tauto.
  - apply andb_prop in H as [_ H]. apply mem_n_in in H. destruct table_idx as [T _]. rewrite forallb_forall in T. apply T in H. apply andb_prop in H; tauto.
Qed.
Lemma has_idx_some y : has_idx y = true -> exists i, index_of y rad50_table 0 = Some i.
Proof. unfold has_idx. destruct (index_of y rad50_table 0); simpl; eauto; discriminate. Qed.
Opaque rad50_table.
Lemma pack_some s : (length s <= 3)%nat -> forallb has_idx s = true -> exists v, pack_to_int s = Some v.
Proof.
  destruct table_idx as [_ H32]. apply has_idx_some in H32 as [i32 E32].
  intros Hl Hs. unfold pack_to_int.
  destruct s as [|a [|b [|c0 [|e s]]]]; simpl in *; try lia.
  - rewrite E32; eauto.
  - apply andb_prop in Hs as [Ha _]. apply has_idx_some in Ha as [ia ->]. rewrite E32; eauto.
  - apply andb_prop in Hs as [Ha Hs]. apply andb_prop in Hs as [Hb _].
    apply has_idx_some in Ha as [ia ->]. apply has_idx_some in Hb as [ib ->]. rewrite E32; eauto.
  - apply andb_prop in Hs as [Ha Hs]. apply andb_prop in Hs as [Hb Hs]. apply andb_prop in Hs as [Hc0 _].
    apply has_idx_some in Ha as [ia ->]. apply has_idx_some in Hb as [ib ->]. apply has_idx_some in Hc0 as [ic ->]. eauto.
Qed.
Transparent rad50_table.
Lemma firstn_forallb {A} (p : A -> bool) k l : forallb p l = true -> forallb p (firstn k l) = true.
Proof.
  revert l; induction k; intros [|x l]; simpl; auto.
  intros H; apply andb_prop in H as [H1 H2]. rewrite H1; simpl; auto.
Qed.
Lemma map_forallb {A B} (f : A -> B) (p : B -> bool) l : forallb (fun x => p (f x)) l = true -> forallb p (map f l) = true.
Proof. induction l; simpl; auto. intros H; apply andb_prop in H as [H1 H2]. rewrite H1; simpl; auto. Qed.

(* tighten the bound to the current context and forget the postcondition: used after a step that consumed input *)
Lemma tighten {A} nf n m (Q : A -> ctx -> Prop) o :
  (m <= n)%nat -> (forall a c', (sz c' <= m)%nat -> Q a c') -> res_ok nf m (fun _ _ => True) o -> res_ok nf n Q o.
Proof. intros Hm HQ H. eapply res_ok_mono; [exact Hm|]. eapply res_ok_conseq; [exact H|]. intros; auto. Qed.

Lemma radix50_literal_ok n c d :
  (sz c <= n)%nat -> res_ok false n (fun _ c' => (sz c' < sz c)%nat) (radix50_literal c d).
Proof.
  intros Hc. unfold radix50_literal.
  bstep (apply skip_ws_ok; auto) as u c1 d1 Hs1 ->. pose proof (skip_ctx_sz c) as Hsk.
  gstep cs Hs2.
  bstep (apply literal_ok; [auto | congruence]) as l c3 d3 Hs3 [_ Hlt].
  apply tighten with (m := sz c3); [lia | intros; lia |].
  bstep (apply or_error_ok; apply regex_id_ns_ok; auto) as str c4 d4 Hs4 HQ4.
  gstep cl Hs5.
  set (s := match str with Some s => s | None => [] end).
  assert (Hcls : forallb (fun x => has_idx (upper x)) s = true).
  { subst s. destruct str as [s|]; simpl; auto.
    destruct HQ4 as [H1 [x [m [-> [Hx Hm]]]]]. simpl. rewrite rad50_class_idx; auto. simpl.
    apply forall_forallb. eapply Forall_impl; [|exact Hm]. intros y Hy. apply rad50_class_idx; auto. }
  bstep (apply when_ok; [auto | intros; apply emit_ok; auto]) as u2 c6 d6 Hs6 ->.
  destruct (pack_some (map upper (firstn 3 s))) as [v ->].
  - rewrite map_length, firstn_length. lia.
  - apply map_forallb, firstn_forallb; auto.
  - fin.
Qed.

(* ---- label, instruction_pointer, symbols ------------------------------------------------------------ *)
Lemma label_ok n c d : (sz c <= n)%nat -> res_ok false n (fun _ c' => (sz c' < sz c)%nat) (label c d).
Proof.
  intros Hc. unfold label.
  bstep (apply skip_ws_ok; auto) as u c1 d1 Hs1 ->. pose proof (skip_ctx_sz c) as Hsk.
  gstep cs Hs2.
  bstep (apply label_name_ok; auto) as name c3 d3 Hs3 [Hlt [x [m [-> _]]]].
  apply tighten with (m := sz c3); [lia | intros; lia |].
  bstep (unfold colon; apply literal_ok; [auto | congruence]) as l c4 d4 Hs4 [_ Hlt4].
  bstep (apply maybe_ok; [auto | apply literal_ns_ok; [auto | congruence]]) as ext c5 d5 Hs5 HQ5.
  gstep cl Hs6.
  bstep (destruct (in_builtin (x :: m)); [apply emit_ok; auto | destruct (is_register_name (x :: m)); [apply emit_ok; auto | apply ret_ok; auto]]) as u3 c7 d7 Hs7 ->.
  destruct (is_digit x && is_some ext).
  - bstep (apply emit_ok; auto) as u4 c8 d8 Hs8 ->. fin.
  - fin.
Qed.

Lemma instruction_pointer_ok n c d :
  (sz c <= n)%nat -> res_ok false n (fun _ c' => (sz c' < sz c)%nat) (instruction_pointer c d).
Proof.
  intros Hc. unfold instruction_pointer.
  bstep (apply skip_ws_ok; auto) as u c1 d1 Hs1 ->. pose proof (skip_ctx_sz c) as Hsk.
  gstep cs Hs2.
  eapply bind_ok with (Q1 := fun _ c' => (sz c' < sz (skip_ctx c))%nat).
  - apply after_skip_ok; auto. pose proof (skip_ctx_sz (skip_ctx c)) as Hsk2.
    destruct (rest (skip_ctx (skip_ctx c))) as [|a r] eqn:E; [fin|].
    destruct (a =? 46); [|fin]. destruct r as [|x r']; [usz; rewrite E in *; simpl in *; split; auto; lia|].
    destruct (is_word x); [fin|]. usz; rewrite E in *; simpl in *; split; auto; lia.
  - cbv beta; intros u2 c3 d3 Hs3 Hlt. gstep ce Hs4. fin.
Qed.

Lemma symbol_expression_ok n t c d :
  (sz c <= n)%nat -> res_ok false n (fun _ c' => (sz c' < sz c)%nat) (symbol_expression t c d).
Proof.
  intros Hc. unfold symbol_expression.
  bstep (apply skip_ws_ok; auto) as u c1 d1 Hs1 ->. pose proof (skip_ctx_sz c) as Hsk.
  gstep cs Hs2.
  bstep (apply symbol_literal_ok; auto) as name c3 d3 Hs3 [Hlt _].
  apply tighten with (m := sz c3); [lia | intros; lia |].
  bstep (apply maybe_ok; [auto | apply not_term_colon_ok; auto]) as hc c4 d4 Hs4 HQ4.
  gstep cl Hs5.
  bstep (apply when_ok; [auto | intros; apply emit_ok; auto]) as u2 c6 d6 Hs6 ->. fin.
Qed.

Lemma local_symbol_expression_ok n t c d :
  (sz c <= n)%nat -> res_ok false n (fun _ c' => (sz c' < sz c)%nat) (local_symbol_expression t c d).
Proof.
  intros Hc. unfold local_symbol_expression.
  bstep (apply skip_ws_ok; auto) as u c1 d1 Hs1 ->. pose proof (skip_ctx_sz c) as Hsk.
  gstep cs Hs2.
  bstep (apply local_symbol_literal_ok; auto) as name c3 d3 Hs3 [Hlt _].
  apply tighten with (m := sz c3); [lia | intros; lia |].
  eapply bind_ok with (Q1 := fun _ _ => True).
  - destruct (all_digits name).
    + bstep (apply not_term_colon_ok; auto) as u2 c4 d4 Hs4 HQ4. fin.
    + bstep (apply maybe_ok; [auto | apply not_term_colon_ok; auto]) as m c4 d4 Hs4 HQ4. fin.
  - cbv beta; intros hc c5 d5 Hs5 _. gstep ce Hs6. fin.
Qed.

(* ---- string escapes and character literals ---------------------------------------------------------- *)
Lemma hex2_ok n c d :
  (sz c <= n)%nat -> res_ok false n (fun a c' => forallb (valid_digit 16) a = true) (hex2 c d).
Proof.
  intros Hc. apply after_skip_ok; auto. pose proof (skip_ctx_sz c) as Hsk.
  destruct (rest (skip_ctx c)) as [|a [|b r]] eqn:E; [fin | fin |].
  unfold is_hex. destruct (valid_digit 16 a) eqn:Ea; [|fin]. destruct (valid_digit 16 b) eqn:Eb; [|fin].
  usz. rewrite E in *; simpl in *. rewrite Ea, Eb. split; auto; lia.
Qed.

Lemma tighten2 {A} nf n m (Q Q' : A -> ctx -> Prop) o :
  (m <= n)%nat -> (forall a c', (sz c' <= m)%nat -> Q' a c' -> Q a c') -> res_ok nf m Q' o -> res_ok nf n Q o.
Proof. intros Hm HQ H. eapply res_ok_mono; [exact Hm|]. eapply res_ok_conseq; [exact H|]. auto. Qed.

Lemma string_escape_ok n c d :
  (sz c <= n)%nat ->
  res_ok false n (fun a c' => (sz c' < sz c)%nat /\ (length a <= 1)%nat) (string_escape c d).
Proof.
  intros Hc. unfold string_escape.
  gstep cs Hs1.
  bstep (unfold string_backslash; apply literal_ns_ok; [auto | congruence]) as l c2 d2 Hs2 [_ Hlt].
  apply tighten2 with (m := sz c2) (Q' := fun a _ => (length a <= 1)%nat); [lia | intros; split; [lia | auto] |].
  bstep (apply or_error_ok; apply character_ok; auto) as ch c3 d3 Hs3 HQ3.
  destruct ch as [[|ch0 chr]|]; [destruct HQ3 as [_ [x Hx]]; discriminate | | fin].
  set (ch := if ch0 <? 128 then lower ch0 else ch0).
  destruct (ch =? 110); [fin|]. destruct (ch =? 114); [fin|]. destruct (ch =? 116); [fin|].
  destruct ((ch =? 92) || (ch =? 34) || (ch =? 39) || (ch =? 47)); [fin|].
  destruct (ch =? 10); [fin|].
  destruct (ch =? 120).
  - bstep (apply or_error_ok; apply hex2_ok; auto) as num c4 d4 Hs4 HQ4.
    destruct num as [num|]; [|fin].
    destruct (int_digits_some 16 num 0 HQ4) as [v ->]. fin.
  - gstep cl Hs4. bstep (apply emit_ok; auto) as u c5 d5 Hs5 ->. fin.
Qed.

Lemma string_char_ok n c d :
  (sz c <= n)%nat ->
  res_ok false n (fun a c' => (sz c' < sz c)%nat /\ (length a <= 1)%nat) (string_char c d).
Proof.
  intros Hc. unfold string_char. apply por_ok; auto.
  - apply string_escape_ok; auto.
  - intros d'. eapply res_ok_conseq; [apply character_ok; auto|].
    intros a c' _ [H1 [x ->]]. simpl; split; auto.
Qed.

Lemma at_line_end_false c : at_line_end c = false -> exists x r, rest c = x :: r.
Proof. unfold at_line_end. destruct (rest c); [discriminate | eauto]. Qed.

Lemma single_quoted_literal_ok n c d :
  (sz c <= n)%nat -> res_ok false n (fun _ c' => (sz c' < sz c)%nat) (single_quoted_literal c d).
Proof.
  intros Hc. unfold single_quoted_literal.
  bstep (apply skip_ws_ok; auto) as u c1 d1 Hs1 ->. pose proof (skip_ctx_sz c) as Hsk.
  gstep cs Hs2.
  bstep (unfold single_quote; apply literal_ok; [auto | congruence]) as l c3 d3 Hs3 [_ Hlt].
  apply tighten with (m := sz c3); [lia | intros; lia |].
  gstep c1 Hs4.
  destruct (at_line_end c3) eqn:Eal.
  { eapply bind_ok; [apply critical_ok with (Q := fun _ _ => False) | intros ? ? ? ? []]. }
  destruct (at_line_end_false _ Eal) as [x [r Er]].
  eapply bind_ok with (Q1 := fun _ c' => c' = c3); [simpl; auto | cbv beta; intros u2 c5 d5 Hs5 ->].
  rewrite Er.
  eapply bind_ok with (Q1 := fun v _ => (length v <= 1)%nat).
  { destruct (x =? 39); [fin|]. eapply res_ok_conseq; [apply string_char_ok; auto|]. cbv beta; intros ? ? ? [? ?]; auto. }
  cbv beta; intros value c6 d6 Hs6 Hv.
  gstep c2 Hs7.
  destruct (match rest c6 with x0 :: _ => x0 =? 39 | [] => false end).
  - bstep (unfold single_quote; apply literal_ok; [auto | congruence]) as l2 c8 d8 Hs8 _.
    gstep cl Hs9.
    apply Nat.leb_le in Hv. rewrite Hv.
    bstep (apply emit_ok; auto) as u3 c10 d10 Hs10 ->. fin.
  - fin.
Qed.

Lemma dq_step_ok n cs value c d :
  (sz c <= n)%nat ->
  res_ok false n (fun v c' => (length v <= length value + 1)%nat) (dq_step cs value c d).
Proof.
  intros Hc. unfold dq_step.
  gstep c1 Hs1.
  destruct (at_line_end c) eqn:Eal.
  { eapply bind_ok; [apply critical_ok with (Q := fun _ _ => False) | intros ? ? ? ? []]. }
  destruct (at_line_end_false _ Eal) as [x [r Er]].
  eapply bind_ok with (Q1 := fun _ c' => c' = c); [simpl; auto | cbv beta; intros u2 c5 d5 Hs5 ->].
  rewrite Er. destruct (x =? 34); [fin|].
  bstep (apply string_char_ok; auto) as v c6 d6 Hs6 [_ Hv].
  simpl; split; auto. rewrite app_length; lia.
Qed.

Lemma double_quoted_literal_ok n c d :
  (sz c <= n)%nat -> res_ok false n (fun _ c' => (sz c' < sz c)%nat) (double_quoted_literal c d).
Proof.
  intros Hc. unfold double_quoted_literal.
  bstep (apply skip_ws_ok; auto) as u c1 d1 Hs1 ->. pose proof (skip_ctx_sz c) as Hsk.
  gstep cs Hs2.
  bstep (unfold double_quote; apply literal_ok; [auto | congruence]) as l c3 d3 Hs3 [_ Hlt].
  apply tighten with (m := sz c3); [lia | intros; lia |].
  bstep (apply dq_step_ok; auto) as v1 c4 d4 Hs4 Hv1.
  bstep (apply dq_step_ok; auto) as value c5 d5 Hs5 Hv.
  gstep c2 Hs6.
  destruct (match rest c5 with x0 :: _ => x0 =? 34 | [] => false end).
  - bstep (unfold double_quote; apply literal_ok; [auto | congruence]) as l2 c8 d8 Hs8 _.
    gstep cl Hs9.
    assert (Hv2 : (length value <=? 2)%nat = true) by (apply Nat.leb_le; simpl in *; lia). rewrite Hv2.
    bstep (apply emit_ok; auto) as u3 c10 d10 Hs10 ->. fin.
  - fin.
Qed.

Lemma quoted_loop_ok n fuel quote value c d :
  (sz c <= n)%nat -> (sz c < fuel)%nat ->
  res_ok false n (fun _ c' => (sz c' <= sz c)%nat) (quoted_loop fuel quote value c d).
Proof.
  revert value c d. induction fuel as [|f IH]; intros value c d Hc Hf; [lia|]. simpl.
  gstep c0 Hs1.
  destruct (rest c) as [|x r] eqn:Er; [fin|].
  destruct (x =? quote); [fin|].
  bstep (apply string_char_ok; auto) as v c2 d2 Hs2 [Hlt _].
  eapply res_ok_conseq; [apply IH; [auto | lia]|]. simpl; intros; lia.
Qed.

Lemma quoted_string_ok n fuel c d :
  (sz c <= n)%nat -> (sz c <= fuel)%nat ->
  res_ok false n (fun _ c' => (sz c' < sz c)%nat) (quoted_string fuel c d).
Proof.
  intros Hc Hf. unfold quoted_string.
  bstep (apply skip_ws_ok; auto) as u c1 d1 Hs1 ->. pose proof (skip_ctx_sz c) as Hsk.
  gstep cs Hs2.
  bstep (apply string_quote_ok; auto) as quote c3 d3 Hs3 [Hlt [q ->]].
  apply tighten with (m := sz c3); [lia | intros; lia |].
  bstep (apply quoted_loop_ok; [auto | lia]) as value c4 d4 Hs4 HQ4.
  gstep c1 Hs5.
  destruct (rest c4) as [|y r] eqn:Er; [apply critical_ok|].
  bstep (apply set_ok; usz; rewrite Er in *; simpl in *; lia) as u2 c6 d6 Hs6 ->. fin.
Qed.

(* ---- expression_literal ------------------------------------------------------------------------------ *)
Lemma expression_literal_ok n t c d :
  (sz c <= n)%nat -> res_ok false n (fun _ c' => (sz c' < sz c)%nat) (expression_literal t c d).
Proof.
  intros Hc. unfold expression_literal.
  bstep (apply maybe_ok; [auto | apply symbol_expression_ok; auto]) as m1 c1 d1 Hs1 HQ1.
  destruct m1 as [e|]; [fin|]. subst c1.
  bstep (apply maybe_ok; [auto | apply radix50_literal_ok; auto]) as m2 c2 d2 Hs2 HQ2.
  destruct m2 as [e|]; [fin|]. subst c2.
  bstep (apply maybe_ok; [auto | apply por_ok; [auto | apply number_ok; auto | intros; apply local_symbol_expression_ok; auto]]) as m3 c3 d3 Hs3 HQ3.
  destruct m3 as [e|]; [fin|]. subst c3.
  apply por_ok; auto.
  - apply por_ok; auto; [apply single_quoted_literal_ok; auto | intros; apply double_quoted_literal_ok; auto].
  - intros; apply instruction_pointer_ok; auto.
Qed.

(* ---- opening3 and its independence of the diagnostics --------------------------------------------------- *)
Definition opens (c : ctx) : Prop := forall d, exists a c', opening3 c d = Ok a c' d.

Lemma literal_pure lit c d d2 :
  match literal lit c d with
  | Ok a c' d' => d' = d /\ literal lit c d2 = Ok a c' d2
  | Fail c' d' => d' = d /\ literal lit c d2 = Fail c' d2
  | _ => False
  end.
Proof. unfold literal, bind, skip_ws, literal_ns. destruct (lit_match lit (rest (skip_ctx c))); auto. Qed.
Lemma caret_parenthesis_pure c d d2 :
  match caret_parenthesis c d with
  | Ok a c' d' => d' = d /\ caret_parenthesis c d2 = Ok a c' d2
  | Fail c' d' => d' = d /\ caret_parenthesis c d2 = Fail c' d2
  | _ => False
  end.
Proof.
  unfold caret_parenthesis, bind, skip_ws. destruct (rest (skip_ctx c)) as [|a [|x r]]; auto.
  destruct ((a =? 94) && caret_paren_char x); auto.
Qed.
Lemma opening3_pure c d d2 :
  match opening3 c d with
  | Ok a c' d' => d' = d /\ opening3 c d2 = Ok a c' d2
  | Fail c' d' => d' = d /\ opening3 c d2 = Fail c' d2
  | _ => False
  end.
Proof.
  unfold opening3, por, bind, maybe, ret, opening_parenthesis, opening_angle_bracket.
  pose proof (literal_pure [40] c d d2) as H1.
  destruct (literal [40] c d) eqn:E1; try tauto; destruct H1 as [-> H1]; rewrite H1; auto.
  pose proof (literal_pure [60] c d d2) as H2.
  destruct (literal [60] c d) eqn:E2; try tauto; destruct H2 as [-> H2]; rewrite H2; auto.
  apply caret_parenthesis_pure.
Qed.
Lemma look_opening3_opens c d a c' d' : look opening3 c d = Ok (Some a) c' d' -> opens c.
Proof.
  unfold look. intros H d2. pose proof (opening3_pure c d d2) as P.
  destruct (opening3 c d); try discriminate; destruct P as [_ P]; eauto.
Qed.
Definition op_shape (a : list N) : Prop := a = [40] \/ a = [60] \/ exists x, a = [94; x].
Lemma opening3_ok n c d :
  (sz c <= n)%nat -> res_ok false n (fun a c' => (sz c' < sz c)%nat /\ op_shape a) (opening3 c d).
Proof.
  intros Hc. unfold opening3, op_shape. apply por_ok; auto.
  - apply por_ok; auto.
    + eapply res_ok_conseq; [unfold opening_parenthesis; apply literal_ok; [auto | congruence]|]. cbv beta; intros ? ? ? [-> ?]; auto.
    + intros. eapply res_ok_conseq; [unfold opening_angle_bracket; apply literal_ok; [auto | congruence]|]. cbv beta; intros ? ? ? [-> ?]; auto.
  - intros. eapply res_ok_conseq; [apply caret_parenthesis_ok; auto|]. cbv beta; intros ? ? ? [? [x ->]]; eauto.
Qed.

(* ---- operator stacks ---------------------------------------------------------------------------------- *)
Fixpoint count_in (ops : list opent) : nat :=
  match ops with [] => O | OIn _ :: r => S (count_in r) | OPre _ _ :: r => count_in r end.
Definition inv (ops : list opent) (stack : list node) : Prop := length stack = S (count_in ops).

Lemma pop_op_inv e ops stack : ops <> [] -> inv ops stack -> exists ops' st', pop_op e ops stack = Some (ops', st') /\ inv ops' st' /\ ops = hd (OIn ([], 0, true)) ops :: ops'.
Proof.
  unfold inv. destruct ops as [|[s o|o] ops']; [congruence| |]; intros _ H; simpl in *.
  - destruct stack as [|x st]; simpl in *; [lia|]. eexists _, _; repeat split; eauto.
  - destruct stack as [|rhs [|lhs st]]; simpl in *; try lia. eexists _, _; repeat split; eauto; simpl; lia.
Qed.
Opaque pop_op.
Lemma pop_while_inv p l e ops stack :
  inv ops stack -> exists ops' st', pop_while p l e ops stack = Some (ops', st') /\ inv ops' st'.
Proof.
  revert stack; induction ops as [|top ops' IH]; intros stack H; simpl.
  - eauto.
  - destruct ((opent_prec top <? p) || (opent_prec top =? p) && l); [|eauto].
    destruct (pop_op_inv e (top :: ops') stack) as [o2 [st2 [E [I2 Eq]]]]; [congruence | auto |].
    rewrite E. simpl in Eq. inversion Eq; subst o2. apply IH; auto.
Qed.
Lemma pop_all_inv e ops stack : inv ops stack -> exists x, pop_all e ops stack = Some [x].
Proof.
  revert stack; induction ops as [|top ops' IH]; intros stack H; simpl.
  - unfold inv in H; simpl in H. destruct stack as [|x [|y st]]; simpl in H; try lia. eauto.
  - destruct (pop_op_inv e (top :: ops') stack) as [o2 [st2 [E [I2 Eq]]]]; [congruence | auto |].
    rewrite E. simpl in Eq. inversion Eq; subst o2. apply IH; auto.
Qed.
Transparent pop_op.
Lemma finish_expression_ok nf n ops stack c d :
  (sz c <= n)%nat -> inv ops stack -> res_ok nf n (fun _ c' => c' = c) (finish_expression ops stack c d).
Proof.
  intros Hc Hi. unfold finish_expression. gstep c0 Hs.
  destruct (pop_all_inv (pos c) ops stack Hi) as [x ->]. fin.
Qed.

(* ---- the recursive layer ---------------------------------------------------------------------------------- *)
Definition need (r : nat) (c : ctx) (f : nat) : Prop := (8 * sz c + r <= f)%nat.

Record funs_ok (f : nat) (R : funs) : Prop := mkOk {
  ok_expression : forall t c d, need 5 c f -> res_ok false (sz c) (fun _ c' => (sz c' < sz c)%nat) (r_expression R t c d);
  ok_prefix_loop : forall t cs cop ops c d, need 4 c f ->
      res_ok false (sz c) (fun r c' => (sz c' < sz c)%nat /\ count_in (snd r) = count_in ops) (r_prefix_loop R t cs cop ops c d);
  ok_infix_loop : forall t ops st c d, need 4 c f -> inv ops st -> res_ok false (sz c) (fun _ _ => True) (r_infix_loop R t ops st c d);
  ok_elr_loop : forall t cs v c d, need 3 c f -> (v = None -> opens c) ->
      res_ok false (sz c) (fun _ c' => v = None -> (sz c' < sz c)%nat) (r_elr_loop R t cs v c d);
  ok_long_loop : forall cs ch c d, need 3 c f -> res_ok false (sz c) (fun _ _ => True) (r_long_loop R cs ch c d);
  ok_operand_loop : forall nm cs can ns ops cbc c d, need 6 c f ->
      res_ok false (sz c) (fun _ _ => True) (r_operand_loop R nm cs can ns ops cbc c d);
  ok_words_loop : forall cs cafo ws c d, need 3 c f -> res_ok false (sz c) (fun _ _ => True) (r_words_loop R cs cafo ws c d);
  ok_code_loop : forall brk cs insns c d, need 7 c f -> res_ok true (sz c) (fun _ _ => True) (r_code_loop R brk cs insns c d);
  ok_quoted : forall c d, need 2 c f -> res_ok false (sz c) (fun _ c' => (sz c' < sz c)%nat) (r_quoted R c d)
}.

(* using a specification proved at the callee's own bound inside a caller with bound n *)
Lemma call_ok {A} nf n m (Q : A -> ctx -> Prop) o :
  res_ok nf m Q o -> (m <= n)%nat -> res_ok nf n (fun a c' => Q a c' /\ (sz c' <= m)%nat) o.
Proof. destruct o; simpl; intuition; lia. Qed.

Section BodiesOk.
Variable R : funs.
Variable f : nat.
Hypothesis HR : funs_ok f R.

Lemma elr_loop_body_ok t cs v c d :
  need 3 c (S f) -> (v = None -> opens c) ->
  res_ok false (sz c) (fun _ c' => v = None -> (sz c' < sz c)%nat) (elr_loop_body R t cs v c d).
Proof.
  intros Hn Hop. unfold need in Hn. unfold elr_loop_body.
  eapply bind_ok with (Q1 := fun o c' => match o with
                                        | Some a => op_shape a /\ (sz c' < sz c)%nat
                                        | None => c' = c /\ v <> None
                                        end).
  { destruct v as [v0|].
    - eapply res_ok_conseq; [apply maybe_ok; [auto | unfold opening_parenthesis; apply literal_ok; [auto | congruence]]|].
      cbv beta; intros [a|] c' _ H; [destruct H as [-> H]; unfold op_shape; auto | split; [auto | congruence]].
    - destruct (Hop eq_refl d) as [a [c1 E]]. pose proof (opening3_ok (sz c) c d (le_n _)) as H.
      unfold maybe. rewrite E in *. simpl in *. tauto. }
  cbv beta; intros opening c1 d1 Hs1 HQ1.
  destruct opening as [op|].
  2:{ destruct HQ1 as [-> Hv]. destruct v; [fin | congruence]. }
  destruct HQ1 as [Hshape Hlt].
  assert (Hcl : exists closing t', closing <> [] /\
            (if list_eqb op [40] then Some ([41], t) else if list_eqb op [60] then Some ([62], t)
             else match op with a :: x :: _ => if a =? 94 then Some ([x], x :: t) else None | _ => None end) = Some (closing, t')).
  { destruct Hshape as [-> | [-> | [x ->]]]; simpl; eexists _, _; split; eauto; congruence. }
  destruct Hcl as [closing [t' [Hne ->]]].
  apply tighten2 with (m := sz c1) (Q' := fun _ _ => True); [lia | intros; lia |].
  gstep cap Hs2.
  bstep (apply skip_ws_ok; auto) as u c3 d3 Hs3 ->. pose proof (skip_ctx_sz c1) as Hsk.
  bstep (apply or_critical_ok; eapply res_ok_mono; [|apply (ok_expression _ _ HR); unfold need; lia]; lia) as e c4 d4 Hs4 _.
  bstep (apply skip_ws_ok; auto) as u2 c5 d5 Hs5 ->. pose proof (skip_ctx_sz c4) as Hsk2.
  bstep (apply or_critical_ok; apply literal_ok; auto) as l c6 d6 Hs6 _.
  gstep ce Hs7.
  eapply res_ok_conseq; [eapply res_ok_mono; [|apply (ok_elr_loop _ _ HR); [unfold need; lia | congruence]]; lia|].
  auto.
Qed.

Lemma elr_body_ok t c d :
  need 3 c f -> res_ok false (sz c) (fun _ c' => (sz c' < sz c)%nat) (elr_body R t c d).
Proof.
  intros Hn. unfold need in Hn. unfold elr_body.
  bstep (apply skip_ws_ok; auto) as u c1 d1 Hs1 ->. pose proof (skip_ctx_sz c) as Hsk.
  gstep cs Hs2.
  eapply bind_ok with (Q1 := fun o c' => c' = skip_ctx c /\ (o <> None -> opens (skip_ctx c))).
  { pose proof (look_ok false (sz c) opening3 (skip_ctx c) d' _ Hs2 (opening3_ok _ _ _ Hs2)) as H.
    destruct (look opening3 (skip_ctx c) d') eqn:E; simpl in *; try tauto.
    destruct H as [H1 [-> _]]. repeat split; auto. intros Hne. destruct a; [|congruence].
    eapply look_opening3_opens; eauto. }
  cbv beta; intros m c3 d3 Hs3 [-> Hop].
  destruct m as [a|].
  - eapply res_ok_conseq; [eapply res_ok_mono; [|apply (ok_elr_loop _ _ HR); [unfold need; lia | intros _; apply Hop; congruence]]; lia|].
    cbv beta; intros. specialize (H0 eq_refl). lia.
  - bstep (apply expression_literal_ok; auto) as v c4 d4 Hs4 Hlt.
    eapply res_ok_conseq; [eapply call_ok; [apply (ok_elr_loop _ _ HR); [unfold need; lia | congruence]|lia]|].
    cbv beta; intros ? ? ? [_ ?]; lia.
Qed.
Lemma caret_nonspace_ok n c d : (sz c <= n)%nat -> res_ok false n (fun _ c' => (sz c' < sz c)%nat) (caret_nonspace c d).
Proof.
  intros Hc. apply after_skip_ok; auto. pose proof (skip_ctx_sz c) as Hs.
  destruct (rest (skip_ctx c)) as [|a [|x r]] eqn:E; [fin | fin |].
  destruct ((a =? 94) && negb (is_ascii_space x)); [|fin].
  usz. rewrite E in *; simpl in *. split; lia.
Qed.

Lemma prefix_loop_body_ok t cs cop ops c d :
  need 4 c (S f) ->
  res_ok false (sz c) (fun r c' => (sz c' < sz c)%nat /\ count_in (snd r) = count_in ops) (prefix_loop_body R t cs cop ops c d).
Proof.
  intros Hn. unfold need in Hn. unfold prefix_loop_body.
  bstep (apply maybe_ok; [auto | apply elr_body_ok; unfold need; lia]) as m c1 d1 Hs1 HQ1.
  destruct m as [e|]; [fin|]. subst c1.
  eapply bind_ok with (Q1 := fun _ c' => c' = c).
  { destruct ops; [apply not_term_ok; auto | apply or_critical_ok; apply not_term_ok; auto]. }
  cbv beta; intros u c2 d2 Hs2 ->.
  bstep (apply maybe_ok; [auto | apply prefix_operator_ok; auto]) as ch c3 d3 Hs3 HQ3.
  destruct ch as [o|].
  - bstep (apply skip_ws_ok; auto) as u2 c4 d4 Hs4 ->. pose proof (skip_ctx_sz c3) as Hsk.
    gstep cop' Hs5.
    eapply res_ok_conseq; [eapply call_ok; [apply (ok_prefix_loop _ _ HR); unfold need; lia | lia]|].
    cbv beta; intros r c' _ [[H1 H2] H3]. simpl in H2. split; [lia | auto].
  - subst c3.
    bstep (apply skip_ws_ok; auto) as u2 c4 d4 Hs4 ->. pose proof (skip_ctx_sz c) as Hsk.
    gstep cb Hs5.
    eapply bind_ok with (Q1 := fun _ _ => True).
    { destruct ops; [eapply res_ok_conseq; [apply caret_nonspace_ok; auto | auto]
                    | apply or_critical_ok; eapply res_ok_conseq; [apply caret_nonspace_ok; auto | auto]]. }
    cbv beta; intros u3 c6 d6 Hs6 _. gstep cl Hs7. apply critical_ok.
Qed.

Definition u_ok {A} n (p : parser A) c d (Q : A -> ctx -> Prop) :
  res_ok false n Q (p c d) -> res_ok false n (fun _ c' => exists a, Q a c') (u p c d).
Proof. unfold u, bind, ret. destruct (p c d); simpl; intuition eauto. Qed.

Lemma infix_loop_body_ok t ops stack c d :
  need 4 c (S f) -> inv ops stack -> res_ok false (sz c) (fun _ _ => True) (infix_loop_body R t ops stack c d).
Proof.
  intros Hn Hi. unfold need in Hn. unfold infix_loop_body.
  gstep cprev Hs0.
  bstep (apply skip_ws_ok; auto) as u1 c1 d1 Hs1 ->. pose proof (skip_ctx_sz c) as Hsk.
  gstep cop Hs2.
  eapply bind_ok with (Q1 := fun _ c' => c' = skip_ctx c).
  { eapply res_ok_conseq.
    - apply look_ok with (Q := fun _ _ => True); auto.
      bstep (apply not_term_ok; auto) as u2 c3 d3 Hs3 ->.
      bstep (apply postfix_operator_ok; auto) as o c4 d4 Hs4 Hlt.
      assert (Hc4 : (sz c4 <= sz c)%nat) by lia.
      eapply res_ok_conseq with (Q := fun _ _ => True); [|auto].
      apply por_ok; auto; [apply por_ok; auto; [apply por_ok; auto; [apply por_ok; auto|]|]|].
      + eapply res_ok_conseq; [apply newline_ok; auto | auto].
      + intros. eapply res_ok_conseq; [apply u_ok; unfold comma; apply literal_ok; [auto | congruence] | auto].
      + intros. eapply res_ok_conseq; [apply u_ok; unfold closing_parenthesis; apply literal_ok; [auto | congruence] | auto].
      + intros. eapply res_ok_conseq; [apply u_ok; unfold closing_bracket; apply literal_ok; [auto | congruence] | auto].
      + intros. eapply res_ok_conseq; [apply eof_ok; auto | auto].
    - cbv beta; intros ? ? ? [? ?]; auto. }
  cbv beta; intros m c3 d3 Hs3 ->.
  destruct m as [x|].
  - bstep (apply postfix_operator_ok; auto) as o c4 d4 Hs4 Hlt.
    gstep cope Hs5.
    destruct (pop_while_inv (op_prec o) (op_left o) (pos c) ops stack Hi) as [ops' [st' [-> Hi']]].
    destruct st' as [|x0 st]; [unfold inv in Hi'; simpl in Hi'; lia|].
    eapply res_ok_conseq; [apply finish_expression_ok; [auto | unfold inv in *; simpl in *; lia] | auto].
  - bstep (apply maybe_ok; [auto | eapply bind_ok; [apply not_term_ok; auto | cbv beta; intros ? ? ? ? ->; apply infix_operator_ok; auto]]) as ch c4 d4 Hs4 HQ4.
    destruct ch as [o|].
    + gstep cope Hs5.
      assert (Hc4 : (sz c4 < sz c)%nat) by lia.
      bstep (apply or_critical_ok; eapply res_ok_mono; [|apply elr_body_ok; unfold need; lia]; lia) as e c6 d6 Hs6 Hlt6.
      destruct (pop_while_inv (op_prec o) (op_left o) (pos c) ops stack Hi) as [ops' [st' [-> Hi']]].
      eapply res_ok_conseq; [eapply res_ok_mono; [|apply (ok_infix_loop _ _ HR); [unfold need; lia | unfold inv in *; simpl; lia]]; lia | auto].
    + subst c4.
      bstep (apply set_ok; auto) as u5 c5 d5 Hs5 ->.
      eapply res_ok_conseq; [apply finish_expression_ok; auto | auto].
Qed.

Lemma expression_body_ok t c d :
  need 5 c (S f) -> res_ok false (sz c) (fun _ c' => (sz c' < sz c)%nat) (expression_body R t c d).
Proof.
  intros Hn. unfold need in Hn. unfold expression_body.
  bstep (apply skip_ws_ok; auto) as u c1 d1 Hs1 ->. pose proof (skip_ctx_sz c) as Hsk.
  gstep cs Hs2.
  bstep (eapply call_ok; [apply (ok_prefix_loop _ _ HR); unfold need; lia | lia]) as r c3 d3 Hs3 [[Hlt Hcnt] _].
  apply tighten with (m := sz c3); [lia | intros; lia |].
  eapply res_ok_conseq; [apply (ok_infix_loop _ _ HR); [unfold need; lia | unfold inv; simpl in *; lia] | auto].
Qed.
Lemma angle_body_ok c d :
  need 0 c f -> res_ok false (sz c) (fun _ c' => (sz c' < sz c)%nat) (angle_body R c d).
Proof.
  intros Hn. unfold need in Hn. unfold angle_body.
  bstep (apply skip_ws_ok; auto) as u c1 d1 Hs1 ->. pose proof (skip_ctx_sz c) as Hsk.
  gstep cs Hs2.
  bstep (unfold opening_angle_bracket; apply literal_ok; [auto | congruence]) as l c3 d3 Hs3 [_ Hlt].
  apply tighten with (m := sz c3); [lia | intros; lia |].
  bstep (apply (ok_expression _ _ HR); unfold need; lia) as e c4 d4 Hs4 _.
  bstep (unfold closing_angle_bracket; apply literal_ok; [auto | congruence]) as l2 c5 d5 Hs5 _.
  gstep ce Hs6. fin.
Qed.

Lemma chunk_ok c d :
  need 2 c f -> res_ok false (sz c) (fun _ c' => (sz c' < sz c)%nat) (chunk R c d).
Proof.
  intros Hn. unfold chunk. apply por_ok; auto.
  - apply (ok_quoted _ _ HR); auto.
  - intros. apply angle_body_ok. unfold need in *; lia.
Qed.

Lemma long_loop_body_ok cs ch c d :
  need 3 c (S f) -> res_ok false (sz c) (fun _ _ => True) (long_loop_body R cs ch c d).
Proof.
  intros Hn. unfold need in Hn. unfold long_loop_body.
  bstep (apply maybe_ok; [auto | apply chunk_ok; unfold need; lia]) as m c1 d1 Hs1 HQ1.
  destruct m as [x|].
  - eapply res_ok_conseq; [eapply res_ok_mono; [|apply (ok_long_loop _ _ HR); unfold need; lia]; lia | auto].
  - subst c1. destruct ch as [|x [|y l]]; try (gstep ce Hs2; fin). fin.
Qed.

Lemma long_string_body_ok c d :
  need 3 c f -> res_ok false (sz c) (fun _ c' => (sz c' < sz c)%nat) (long_string_body R c d).
Proof.
  intros Hn. unfold need in Hn. unfold long_string_body.
  bstep (apply skip_ws_ok; auto) as u c1 d1 Hs1 ->. pose proof (skip_ctx_sz c) as Hsk.
  gstep cs Hs2.
  bstep (eapply res_ok_mono; [|apply chunk_ok; unfold need; lia]; lia) as c0 c3 d3 Hs3 Hlt.
  apply tighten with (m := sz c3); [lia | intros; lia |].
  apply (ok_long_loop _ _ HR). unfold need; lia.
Qed.

Lemma operand_type_ok nf n name idx c d :
  (sz c <= n)%nat -> res_ok nf n (fun _ c' => c' = c) (operand_type name idx c d).
Proof.
  intros Hc. unfold operand_type.
  destruct (starts_with_dot name || match (match lookup_cmd name with Some c0 => Some c0 | None => lookup_cmd (46 :: name) end) with
                                    | Some c0 => c_meta c0 | None => false end); [|fin].
  destruct (match lookup_cmd name with Some c0 => Some c0 | None => lookup_cmd (46 :: name) end) as [[m l mn mx [|ty0 tys]]|].
  - bstep (apply look_ok with (Q := fun _ _ => True); [auto | eapply res_ok_conseq; [apply string_quote_ok; auto | auto]]) as q c1 d1 Hs1 [-> _]. fin.
  - fin.
  - bstep (apply look_ok with (Q := fun _ _ => True); [auto | eapply res_ok_conseq; [apply string_quote_ok; auto | auto]]) as q c1 d1 Hs1 [-> _]. fin.
Qed.

Lemma by_type_ok ty c d :
  need 5 c f -> res_ok false (sz c) (fun _ c' => (sz c' < sz c)%nat) (by_type R ty c d).
Proof.
  intros Hn. unfold by_type. destruct ty; try (apply (ok_expression _ _ HR); auto).
  apply long_string_body_ok. unfold need in *; lia.
Qed.

Lemma assignment_ok c d :
  need 5 c f -> res_ok false (sz c) (fun _ c' => (sz c' < sz c)%nat) (assignment R c d).
Proof.
  intros Hn. unfold need in Hn. unfold assignment.
  bstep (apply skip_ws_ok; auto) as u c1 d1 Hs1 ->. pose proof (skip_ctx_sz c) as Hsk.
  gstep cs Hs2.
  bstep (apply maybe_ok; [auto | apply instruction_pointer_ok; auto]) as ip c2 d2 Hs2' HQ2.
  eapply bind_ok with (Q1 := fun _ c' => (sz c' < sz c)%nat).
  { destruct ip as [t0|]; [fin|]. subst c2.
    bstep (apply symbol_literal_ok; auto) as sym c3 d3 Hs3 [Hlt _]. gstep ce Hs4. fin. }
  cbv beta; intros target c4 d4 Hs4 Hlt4.
  apply tighten with (m := sz c4); [lia | intros; lia |].
  bstep (apply skip_ws_ok; auto) as u5 c5 d5 Hs5 ->. pose proof (skip_ctx_sz c4) as Hsk4.
  gstep c_eq Hs6.
  bstep (unfold equals_sign; apply literal_ok; [auto | congruence]) as l c7 d7 Hs7 _.
  bstep (apply maybe_ok; [auto | apply literal_ns_ok; [auto | congruence]]) as ext c8 d8 Hs8 HQ8.
  gstep c_after Hs9.
  bstep (apply skip_ws_ok; auto) as u10 c10 d10 Hs10 ->. pose proof (skip_ctx_sz c8) as Hsk8.
  bstep (apply or_critical_ok; eapply res_ok_mono; [|apply (ok_expression _ _ HR); unfold need; lia]; lia) as value c11 d11 Hs11 _.
  eapply bind_ok with (Q1 := fun _ c' => c' = c11).
  { destruct target; try (apply ret_ok; auto).
    destruct (in_builtin name); [apply emit_ok; auto|]. destruct (is_register_name name); [apply emit_ok; auto | apply ret_ok; auto]. }
  cbv beta; intros u12 c12 d12 Hs12 ->.
  gstep ce Hs13.
  destruct target; try fin.
  destruct (is_some ext); [|fin].
  bstep (apply emit_ok; auto) as u14 c14 d14 Hs14 ->. fin.
Qed.

Lemma code_body_ok brk c d :
  need 7 c f -> res_ok true (sz c) (fun _ _ => True) (code_body R brk c d).
Proof.
  intros Hn. unfold code_body. gstep cs Hs. apply (ok_code_loop _ _ HR); auto.
Qed.

Lemma operand_loop_body_ok name cs can name_sym ops cbc c d :
  need 6 c (S f) -> res_ok false (sz c) (fun _ _ => True) (operand_loop_body R name cs can name_sym ops cbc c d).
Proof.
  intros Hn. unfold need in Hn. unfold operand_loop_body.
  bstep (apply maybe_ok; [auto | unfold comma; apply literal_ok; [auto | congruence]]) as m c1 d1 Hs1 HQ1.
  destruct m as [x|].
  - destruct HQ1 as [_ Hlt].
    gstep cac Hs2.
    bstep (apply skip_ws_ok; auto) as u c3 d3 Hs3 ->. pose proof (skip_ctx_sz c1) as Hsk.
    bstep (apply operand_type_ok; auto) as ty c4 d4 Hs4 ->.
    bstep (apply or_critical_ok; eapply res_ok_mono; [|apply by_type_ok; unfold need; lia]; lia) as o c5 d5 Hs5 Hlt5.
    gstep cbc' Hs6.
    eapply res_ok_mono; [|apply (ok_operand_loop _ _ HR); unfold need; lia]; lia.
  - subst c1.
    gstep cob Hs2.
    bstep (apply maybe_ok; [auto | unfold opening_bracket; apply literal_ok; [auto | congruence]]) as m2 c3 d3 Hs3 HQ3.
    eapply bind_ok with (Q1 := fun _ _ => True).
    { destruct m2 as [x|]; [|fin]. destruct HQ3 as [_ Hlt].
      bstep (apply res_ok_weaken; eapply res_ok_mono; [|apply code_body_ok; unfold need; lia]; lia) as blk c4 d4 Hs4 _. fin. }
    cbv beta; intros ops' c5 d5 Hs5 _.
    gstep c6 Hs6.
    bstep (apply when_ok; [auto | intros; apply emit_ok; auto]) as u7 c7 d7 Hs7 ->. fin.
Qed.
Lemma advance_sz k c : (sz (advance k c) <= sz c)%nat.
Proof. unfold advance, sz; simpl. rewrite skipn_length. lia. Qed.

Lemma done_ok nf n (g : N -> node) c d : (sz c <= n)%nat -> res_ok nf n (fun _ _ => True) ((ce <- get ;; ret (g (pos ce))) c d).
Proof. intros; simpl; auto. Qed.

Lemma instruction_ok c d :
  need 6 c f -> res_ok false (sz c) (fun _ c' => (sz c' < sz c)%nat) (instruction R c d).
Proof.
  intros Hn. unfold need in Hn. unfold instruction; cbv zeta.
  gstep cs Hs0.
  bstep (apply instruction_name_ok; auto) as name c2 d2 Hs2 Hlt.
  apply tighten with (m := sz c2); [lia | intros; lia |].
  gstep can Hs3.
  bstep (apply when_ok; [auto | intros; apply emit_ok; auto]) as u4 c4 d4 Hs4 ->.
  eapply bind_ok with (Q1 := fun _ c' => c' = c2).
  { destruct (lookup_cmd name) as [cm|].
    - bstep (apply look_ok with (Q := fun _ _ => True); [auto | eapply res_ok_conseq; [unfold comma; apply literal_ok; [auto | congruence] | auto]]) as m c5 d5 Hs5 [-> _].
      destruct (is_some m); [|fin].
      bstep (apply skip_ws_ok; auto) as u6 c6 d6 Hs6 ->. pose proof (skip_ctx_sz c2).
      gstep cbc Hs7.
      bstep (unfold comma; apply literal_ok; [auto | congruence]) as l c8 d8 Hs8 _.
      gstep cl Hs9. apply critical_ok.
    - destruct (starts_with_dot name); [fin|].
      bstep (apply maybe_ok with (Q := fun _ _ => True); [auto|]) as m c5 d5 Hs5 HQ5.
      + apply por_ok; auto.
        * eapply res_ok_conseq; [apply u_ok; unfold comma; apply literal_ok; [auto | congruence] | auto].
        * intros.
          bstep (eapply not_ok; [auto | apply prefix_operator_ok; auto]) as u6 c6 d6 Hs6 ->.
          bstep (eapply not_ok; [auto | apply caret_parenthesis_ok; auto]) as u7 c7 d7 Hs7 ->.
          eapply res_ok_conseq; [apply u_ok; apply infix_operator_ok; auto | auto].
      + destruct m; [fin | subst; fin]. }
  cbv beta; intros u5 c5 d5 Hs5 ->.
  destruct (match lookup_cmd name with Some c0 => c_meta c0 && c_litstr c0 | None => false end).
  { gstep c6 Hs6.
    destruct (strip (line_of (rest c2))) as [|t0 text] eqn:Et.
    - gstep ce Hs7. fin.
    - set (k0 := (length (line_of (rest c2)) - length (strip_left (line_of (rest c2))))%nat).
      bstep (apply set_ok; pose proof (advance_sz k0 c2); lia) as u7 c7 d7 Hs7 ->.
      gstep cbm Hs8.
      bstep (apply set_ok; pose proof (advance_sz (length (t0 :: text)) (advance k0 c2)); lia) as u9 c9 d9 Hs9 ->.
      gstep ce Hs10. fin. }
  bstep (apply look_ok with (Q := fun _ _ => True); [auto | eapply res_ok_conseq; [unfold closing_bracket; apply literal_ok; [auto | congruence] | auto]]) as m6 c6 d6 Hs6 [-> _].
  destruct (is_some m6). { gstep ce Hs7. fin. }
  bstep (apply look_ok with (Q := fun _ _ => True); [auto | eapply res_ok_conseq; [apply newline_ok; auto | auto]]) as m7 c7 d7 Hs7 [-> _].
  eapply bind_ok with (Q1 := fun _ c' => c' = c2).
  { destruct (is_some m7); [|fin].
    destruct (match lookup_cmd name with Some c0 => 0 <? c_min c0 | None => false end); [|fin].
    bstep (apply emit_ok; auto) as u8 c8 d8 Hs8 ->. fin. }
  cbv beta; intros stop c8 d8 Hs8 ->.
  destruct stop. { gstep ce Hs9. fin. }
  bstep (apply look_ok with (Q := fun _ _ => True); [auto|]) as next c9 d9 Hs9 [-> _].
  { bstep (apply instruction_name_ok; auto) as nm c10 d10 Hs10 Hlt10.
    bstep (eapply not_ok; [auto | unfold colon; apply literal_ok; [auto | congruence]]) as u11 c11 d11 Hs11 ->. fin. }
  eapply bind_ok with (Q1 := fun _ c' => c' = c2).
  { destruct (lookup_cmd name) as [cm|]; [|fin]. destruct next as [nm|]; [|fin].
    destruct ((match c_max cm with Some 0 => true | _ => false end) && in_builtin nm); [|fin].
    gstep c0 Hs10.
    bstep (apply on_copy_ok with (Q := fun _ _ => True); [auto|]) as r c11 d11 Hs11 [-> _].
    { pose proof (skip_ctx_sz c2).
      bstep (apply instruction_name_ok; lia) as nm2 c12 d12 Hs12 Hlt12.
      eapply res_ok_conseq; [apply look_ok with (Q := fun _ _ => True); [auto|] | auto].
      apply por_ok; auto; [apply por_ok; auto|].
      - eapply res_ok_conseq; [apply u_ok; unfold comma; apply literal_ok; [auto | congruence] | auto].
      - intros. eapply res_ok_conseq; [apply u_ok; apply infix_operator_ok; auto | auto].
      - intros. eapply res_ok_conseq; [apply u_ok; apply postfix_operator_ok; auto | auto]. }
    destruct (is_some (fst r)); [fin|].
    bstep (apply emit_ok; auto) as u12 c12 d12 Hs12 ->. fin. }
  cbv beta; intros split c10 d10 Hs10 ->.
  destruct split. { gstep ce Hs11. fin. }
  bstep (apply operand_type_ok; auto) as ty c11 d11 Hs11 ->.
  bstep (apply maybe_ok; [auto | apply by_type_ok; unfold need; lia]) as first c12 d12 Hs12 HQ12.
  destruct first as [fo|].
  - gstep cl Hs13.
    bstep (apply when_ok; [auto | intros; apply emit_ok; auto]) as u14 c14 d14 Hs14 ->.
    eapply res_ok_mono; [|apply (ok_operand_loop _ _ HR); unfold need; lia]; lia.
  - subst c12.
    eapply bind_ok with (Q1 := fun _ _ => True).
    { destruct (rest c2); [fin|].
      bstep (apply skip_ws_ok; auto) as u13 c13 d13 Hs13 ->. pose proof (skip_ctx_sz c2).
      gstep cl Hs14. eapply res_ok_conseq; [apply emit_ok; lia | auto]. }
    cbv beta; intros u13 c13 d13 Hs13 _. gstep ce Hs14. fin.
Qed.

Lemma words_loop_body_ok cs cafo ws c d :
  need 3 c (S f) -> res_ok false (sz c) (fun _ _ => True) (words_loop_body R cs cafo ws c d).
Proof.
  intros Hn. unfold need in Hn. unfold words_loop_body.
  gstep c0 Hs0.
  bstep (apply maybe_ok; [auto | unfold comma; apply literal_ok; [auto | congruence]]) as m c1 d1 Hs1 HQ1.
  destruct m as [x|].
  - destruct HQ1 as [_ Hlt].
    gstep cac Hs2.
    bstep (apply skip_ws_ok; auto) as u c3 d3 Hs3 ->. pose proof (skip_ctx_sz c1) as Hsk.
    bstep (apply or_critical_ok; eapply res_ok_mono; [|apply (ok_expression _ _ HR); unfold need; lia]; lia) as w c4 d4 Hs4 Hlt4.
    eapply res_ok_mono; [|apply (ok_words_loop _ _ HR); unfold need; lia]; lia.
  - subst c1.
    gstep c2 Hs2.
    eapply bind_ok with (Q1 := fun _ c' => c' = c).
    { destruct (junk_here c); [apply emit_ok; auto|].
      bstep (apply look_ok with (Q := fun _ _ => True); [auto|]) as m2 c3 d3 Hs3 [-> _].
      - apply por_ok; auto; [eapply res_ok_conseq; [apply newline_ok; auto | auto] | intros; eapply res_ok_conseq; [apply eof_ok; auto | auto]].
      - apply when_ok; [auto | intros; apply emit_ok; auto]. }
    cbv beta; intros u3 c3 d3 Hs3 ->. fin.
Qed.

Lemma word_list_ok c d :
  need 5 c f -> res_ok false (sz c) (fun _ c' => (sz c' < sz c)%nat) (word_list R c d).
Proof.
  intros Hn. unfold need in Hn. unfold word_list.
  bstep (apply skip_ws_ok; auto) as u c1 d1 Hs1 ->. pose proof (skip_ctx_sz c) as Hsk.
  gstep cs Hs2.
  bstep (eapply call_ok; [apply (ok_expression _ _ HR); unfold need; lia | lia]) as w0 c3 d3 Hs3 [Hlt _].
  apply tighten with (m := sz c3); [lia | intros; lia |].
  gstep cafo Hs4.
  apply (ok_words_loop _ _ HR). unfold need; lia.
Qed.

Lemma statement_ok c d :
  need 6 c f -> res_ok false (sz c) (fun _ c' => (sz c' < sz c)%nat) (statement R c d).
Proof.
  intros Hn. unfold statement.
  apply por_ok; auto; [apply por_ok; auto; [apply por_ok; auto|]|].
  - apply label_ok; auto.
  - intros; apply assignment_ok. unfold need in *; lia.
  - intros; apply instruction_ok; auto.
  - intros; apply word_list_ok. unfold need in *; lia.
Qed.

Lemma code_loop_body_ok brk cs insns c d :
  need 7 c (S f) -> res_ok true (sz c) (fun _ _ => True) (code_loop_body R brk cs insns c d).
Proof.
  intros Hn. unfold need in Hn. unfold code_loop_body.
  gstep c0 Hs0.
  destruct (ctx_eof c); [fin|].
  bstep (apply skip_ws_ok; auto) as u c1 d1 Hs1 ->. pose proof (skip_ctx_sz c) as Hsk.
  gstep cs' Hs2.
  eapply bind_ok with (Q1 := fun m c' => match m with Some _ => True | None => c' = skip_ctx c end).
  { destruct brk; [|fin].
    eapply res_ok_conseq; [apply maybe_ok; [auto | unfold closing_bracket; apply literal_ok; [auto | congruence]]|].
    cbv beta; intros [x|] ? ? ?; auto. }
  cbv beta; intros m c3 d3 Hs3 HQ3.
  destruct m as [x|]. { gstep ce Hs4. fin. }
  subst c3.
  bstep (apply or_critical_ok; eapply res_ok_mono; [|apply statement_ok; unfold need; lia]; lia) as insn c4 d4 Hs4 Hlt4.
  destruct (negb brk && is_end_insn insn). { gstep ce Hs5. fin. }
  eapply res_ok_mono; [|apply (ok_code_loop _ _ HR); unfold need; lia]; lia.
Qed.
End BodiesOk.

(* ---- tying the knot ------------------------------------------------------------------------------------- *)
Lemma funs_at_ok fuel : funs_ok fuel (funs_at fuel).
Proof.
  induction fuel as [|f IH].
  - constructor; unfold need; intros; lia.
  - constructor; simpl; intros.
    + apply (expression_body_ok _ _ IH); auto.
    + apply (prefix_loop_body_ok _ _ IH); auto.
    + apply (infix_loop_body_ok _ _ IH); auto.
    + apply (elr_loop_body_ok _ _ IH); auto.
    + apply (long_loop_body_ok _ _ IH); auto.
    + apply (operand_loop_body_ok _ _ IH); auto.
    + apply (words_loop_body_ok _ _ IH); auto.
    + apply (code_loop_body_ok _ _ IH); auto.
    + unfold need in *. apply quoted_string_ok; lia.
Qed.

Definition total_outcome (r : presult) : Prop :=
  match r with POk _ _ | PCritical _ => True | PCrash _ | POutOfFuel => False end.

Theorem parse_total text fuel :
  (8 * length text + 7 <= fuel)%nat -> total_outcome (parse_file fuel text).
Proof.
  intros Hf. unfold parse_file.
  pose proof (code_body_ok _ _ (funs_at_ok fuel) false (mkCtx 0 text) []) as H.
  unfold need, sz in H; simpl in H. specialize (H Hf).
  destruct (code_body (funs_at fuel) false {| pos := 0; rest := text |} []); simpl in *; auto.
  destruct H; discriminate.
Qed.
