(* Proofs/InsnsMain.v -- composition: compile_insn of the model against Spec.decode / Spec.expect. *)
From Coq Require Import ZArith List String Ascii Bool Lia ZifyBool.
From Verif Require Import Base.Res Base.Range Spec.PDP11 Gen.GenOpcodes Model.Insns Proofs.InsnsCheck Proofs.InsnsP.
Import ListNotations.
Open Scope string_scope.
Open Scope list_scope.
Open Scope Z_scope.

Definition shape_rel (st : stub) (k : okind) : Prop := shape st = Some k.

Lemma shapes_Forall2 sts : forall ks, shapes sts = Some ks -> Forall2 shape_rel sts ks.
Proof.
  induction sts as [|st sts IH]; simpl; intros ks H.
  - inv H. constructor.
  - destruct (shape st) as [k|] eqn:E; try discriminate.
    destruct (shapes sts) as [ks'|]; try discriminate. inv H.
    constructor; [exact E | apply IH; reflexivity].
Qed.

Lemma skipn_len_app {A} (l1 l2 : list A) : skipn (List.length l1) (l1 ++ l2) = l2.
Proof. induction l1; simpl; auto. Qed.

Definition no_pc_autoinc (ops : list operand) : Prop := existsb explicit_pc_autoinc ops = false.

(* ------------------------------------------------------------------------------------------ *)
Lemma enc_operands_sound sts ks : Forall2 shape_rel sts ks ->
  forall ops addr ext0 vals ext,
  List.length ops = List.length sts ->
  enc_operands sts ops addr ext0 = Ok (vals, ext) ->
  Forall2 in_range ks vals /\
  (no_pc_autoinc ops ->
   exists ext1 ss, ext = ext0 ++ ext1 /\ Forall wordp ext1 /\
     sem_operands ks ops addr (Z.of_nat (List.length ext0)) = Some ss /\
     forall rest, decode_fields (fields_of_vals ks vals) (ext1 ++ rest) addr (Z.of_nat (List.length ext0))
                  = Some (ss, List.length ext1)).
Proof.
  induction 1 as [|st k sts ks Hst _ IH]; intros ops addr ext0 vals ext Hlen H.
  - destruct ops; try discriminate. simpl in H. inv H. split; [constructor|]. intros _.
    exists [], []. rewrite app_nil_r. repeat split. constructor.
  - destruct ops as [|o ops]; try discriminate. simpl in Hlen. injection Hlen as Hlen.
    cbn [enc_operands] in H. bind_inv H. destruct a as [v e1]. bind_inv H. destruct a as [vals' ext']. inv H.
    cbn [fst snd] in *.
    pose proof (enc_stub_sound _ _ _ _ _ _ _ Hst Ha) as [R1 [W1 S1]].
    specialize (IH ops addr (ext0 ++ e1) vals' ext Hlen Ha0). destruct IH as [R2 S2].
    split; [constructor; assumption|].
    unfold no_pc_autoinc. cbn [existsb]. intros Hpc. apply orb_false_iff in Hpc. destruct Hpc as [Hpc1 Hpc2].
    destruct (S1 Hpc1) as [s [Q1 [Q2 Q3]]]. destruct (S2 Hpc2) as [ext1 [ss [-> [W2 [Q4 Q5]]]]].
    exists (e1 ++ ext1), (s :: ss). split; [rewrite app_assoc; reflexivity|].
    split; [apply Forall_app; split; assumption|]. split.
    + cbn [sem_operands]. rewrite Q1.
      replace (Z.of_nat (List.length ext0) + ext_words s) with (Z.of_nat (List.length (ext0 ++ e1)))
        by (rewrite app_length, Nat2Z.inj_add, Q2; reflexivity).
      rewrite Q4. reflexivity.
    + intros rest. unfold fields_of_vals. cbn [combine map fst snd decode_fields].
      rewrite <- app_assoc. rewrite Q3. rewrite skipn_len_app.
      replace (Z.of_nat (List.length ext0) + Z.of_nat (List.length e1)) with (Z.of_nat (List.length (ext0 ++ e1)))
        by (rewrite app_length, Nat2Z.inj_add; reflexivity).
      fold (fields_of_vals ks vals'). rewrite Q5. rewrite app_length. reflexivity.
Qed.

(* constant operands supplied by pseudo-instructions *)
Lemma decode_cst c ws addr k : decode_field (cst_field c) ws addr k = Some (cst_sop c, 0%nat).
Proof. destruct c; reflexivity. Qed.

Lemma decode_fields_pre pre fs ws addr k :
  decode_fields (map cst_field pre ++ fs) ws addr k =
  match decode_fields fs ws addr k with
  | Some (ss, n) => Some (map cst_sop pre ++ ss, n)
  | None => None
  end.
Proof.
  induction pre as [|c pre IH]; cbn [map app].
  - destruct (decode_fields fs ws addr k) as [[ss n]|]; reflexivity.
  - cbn [decode_fields]. rewrite decode_cst. cbn [skipn Z.of_nat]. rewrite Z.add_0_r, IH.
    destruct (decode_fields fs ws addr k) as [[ss n]|]; reflexivity.
Qed.

Lemma decode_fields_post post fs : forall ws addr k ss n,
  decode_fields fs ws addr k = Some (ss, n) ->
  decode_fields (fs ++ map cst_field post) ws addr k = Some (ss ++ map cst_sop post, n).
Proof.
  induction fs as [|f fs IH]; intros ws addr k ss n H.
  - simpl in H. inv H. cbn [app].
    pose proof (decode_fields_pre post [] ws addr k) as P. rewrite app_nil_r in P. rewrite P.
    simpl. rewrite app_nil_r. reflexivity.
  - cbn [app decode_fields] in *. destruct (decode_field f ws addr k) as [[o m]|]; try discriminate.
    destruct (decode_fields fs (skipn m ws) addr (k + Z.of_nat m)) as [[os m']|] eqn:E; try discriminate.
    inv H. rewrite (IH _ _ _ _ _ E). reflexivity.
Qed.

(* ------------------------------------------------------------------------------------------ *)
(* C01 encode_decode *)
Lemma compile_insn_inv m ops addr ws : compile_insn m ops addr = Ok ws ->
  exists pat i name pre post ks vals ext w,
    lookup_pat m opcode_table = Some pat /\ entry_fact m pat i name pre post ks /\
    List.length ops = List.length (stubs i) /\
    enc_operands (stubs i) ops addr [] = Ok (vals, ext) /\
    get_opcode (opcode_pattern i) (combine (stubs i) vals) = Ok w /\ ws = w :: ext.
Proof.
  unfold compile_insn. destruct (lookup_pat m opcode_table) as [pat|] eqn:L; try discriminate.
  destruct (entry_fact_of_lookup _ _ L) as [i [name [pre [post [ks F]]]]].
  rewrite (ef_init _ _ _ _ _ _ _ F). cbn [bind]. unfold compile_with.
  destruct (Nat.eqb (List.length ops) (List.length (stubs i))) eqn:E; cbn [negb]; try discriminate.
  intros H. bind_inv H. destruct a as [vals ext]. bind_inv H. inv H.
  apply Nat.eqb_eq in E. exists pat, i, name, pre, post, ks, vals, ext, a. auto 10.
Qed.

Lemma encode_decode_struct m ops addr ws rest :
  compile_insn m ops addr = Ok ws -> no_pc_autoinc ops ->
  exists name pre post ks ss,
    canon m = Some (name, pre, post) /\ user_kinds name pre post = Some ks /\
    sem_operands ks ops addr 0 = Some ss /\
    decode (ws ++ rest) addr = Some (name, map cst_sop pre ++ ss ++ map cst_sop post, List.length ws).
Proof.
  intros H Hpc. apply compile_insn_inv in H.
  destruct H as [pat [i [name [pre [post [ks [vals [ext [w [L [F [Hlen [He [Hw ->]]]]]]]]]]]]]].
  pose proof (shapes_Forall2 _ _ (ef_shapes _ _ _ _ _ _ _ F)) as Hs.
  destruct (enc_operands_sound _ _ Hs _ _ _ _ _ Hlen He) as [R S].
  destruct (S Hpc) as [ext1 [ss [E1 [W [Q1 Q2]]]]]. cbn [app List.length Z.of_nat] in *. subst ext1.
  destruct (ef_word _ _ _ _ _ _ _ F vals R) as [w' [G1 [G2 G3]]].
  rewrite G1 in Hw. inv Hw.
  exists name, pre, post, ks, ss.
  split; [exact (ef_canon _ _ _ _ _ _ _ F)|]. split; [exact (ef_kinds _ _ _ _ _ _ _ F)|]. split; [exact Q1|].
  unfold decode. rewrite G2, G3. rewrite decode_fields_pre.
  rewrite (decode_fields_post post _ _ _ _ _ _ (Q2 rest)). reflexivity.
Qed.

Theorem encode_decode m ops addr ws rest :
  compile_insn m ops addr = Ok ws -> no_pc_autoinc ops ->
  exists name sops, expect m ops addr = Some (name, sops) /\
                    decode (ws ++ rest) addr = Some (name, sops, List.length ws).
Proof.
  intros H Hpc. destruct (encode_decode_struct _ _ _ _ rest H Hpc) as [name [pre [post [ks [ss [C [K [S D]]]]]]]].
  exists name, (map cst_sop pre ++ ss ++ map cst_sop post). split; [|exact D].
  unfold expect. rewrite C, K, S. reflexivity.
Qed.

(* ... and the converse: every line the Spec gives a meaning to is accepted by the model *)
Lemma enc_operands_complete sts ks : Forall2 shape_rel sts ks ->
  forall ops addr ext0 ss,
  sem_operands ks ops addr (Z.of_nat (List.length ext0)) = Some ss ->
  exists vals ext, enc_operands sts ops addr ext0 = Ok (vals, ext) /\ List.length ops = List.length sts.
Proof.
  induction 1 as [|st k sts ks Hst Hf IH]; intros ops addr ext0 ss H.
  - destruct ops; try discriminate. simpl. eauto.
  - destruct ops as [|o ops]; try discriminate. cbn [sem_operands] in H.
    destruct (sem_operand k o addr (Z.of_nat (List.length ext0))) as [s|] eqn:E; try discriminate.
    destruct (sem_operands ks ops addr (Z.of_nat (List.length ext0) + ext_words s)) as [ss'|] eqn:E2; try discriminate.
    destruct (enc_stub_complete _ _ _ _ _ _ Hst E) as [v [e1 Hv]].
    assert (Hnp : explicit_pc_autoinc o = false).
    { destruct o; try reflexivity; destruct k; cbn [sem_operand sem_rm] in E; try discriminate;
        unfold explicit_pc_autoinc; destruct (sem_reg r) as [r'|] eqn:R; cbn [obind] in E; try discriminate;
        apply sem_reg_inv in R; destruct R as [-> _]; destruct (r =? 7); try discriminate; reflexivity. }
    pose proof (enc_stub_sound _ _ _ _ _ _ _ Hst Hv) as [_ [_ S1]].
    destruct (S1 Hnp) as [s' [Q1 [Q2 _]]]. rewrite E in Q1. inv Q1.
    replace (Z.of_nat (List.length ext0) + ext_words s') with (Z.of_nat (List.length (ext0 ++ e1))) in E2
      by (rewrite app_length, Nat2Z.inj_add, Q2; reflexivity).
    destruct (IH _ _ _ _ E2) as [vals [ext [Hr Hl]]].
    cbn [enc_operands]. rewrite Hv. cbn [bind fst snd]. rewrite Hr. cbn [bind]. simpl. eauto.
Qed.

Lemma sem_operands_no_pc ks : forall ops addr k ss, sem_operands ks ops addr k = Some ss -> no_pc_autoinc ops.
Proof.
  induction ks as [|c ks IH]; intros ops addr k ss H; destruct ops as [|o ops]; try discriminate.
  - reflexivity.
  - cbn [sem_operands] in H. destruct (sem_operand c o addr k) as [s|] eqn:E; try discriminate.
    destruct (sem_operands ks ops addr (k + ext_words s)) as [ss'|] eqn:E2; try discriminate.
    unfold no_pc_autoinc. cbn [existsb]. apply orb_false_iff. split; [|eapply IH; eauto].
    destruct o; try reflexivity; destruct c; cbn [sem_operand sem_rm] in E; try discriminate;
      unfold explicit_pc_autoinc; destruct (sem_reg r) as [r'|] eqn:R; cbn [obind] in E; try discriminate;
      apply sem_reg_inv in R; destruct R as [-> _]; destruct (r =? 7); try discriminate; reflexivity.
Qed.

Theorem accepted_iff_legal m pat ops addr :
  lookup_pat m opcode_table = Some pat ->
  ((exists ws, compile_insn m ops addr = Ok ws) /\ no_pc_autoinc ops) <-> (exists e, expect m ops addr = Some e).
Proof.
  intros L. split.
  - intros [[ws H] Hpc]. destruct (encode_decode _ _ _ _ [] H Hpc) as [name [sops [E _]]]. eauto.
  - intros [e H].
    destruct (entry_fact_of_lookup _ _ L) as [i [name [pre [post [ks F]]]]].
    unfold expect in H. rewrite (ef_canon _ _ _ _ _ _ _ F), (ef_kinds _ _ _ _ _ _ _ F) in H.
    destruct (sem_operands ks ops addr 0) as [ss|] eqn:E; try discriminate.
    pose proof (shapes_Forall2 _ _ (ef_shapes _ _ _ _ _ _ _ F)) as Hs.
    split; [|eapply sem_operands_no_pc; eauto].
    destruct (enc_operands_complete _ _ Hs ops addr [] ss E) as [vals [ext [He Hl]]].
    destruct (enc_operands_sound _ _ Hs _ _ _ _ _ Hl He) as [R _].
    destruct (ef_word _ _ _ _ _ _ _ F vals R) as [w [G1 _]].
    exists (w :: ext). unfold compile_insn. rewrite L, (ef_init _ _ _ _ _ _ _ F). cbn [bind].
    unfold compile_with. rewrite Hl, Nat.eqb_refl. cbn [negb]. rewrite He. cbn [bind fst snd]. rewrite G1. reflexivity.
Qed.

(* the model of a table mnemonic never ends in a Python exception: it emits words or reports an error *)
Lemma nc_enc_operands sts : forall ops addr ext0, nc (enc_operands sts ops addr ext0).
Proof.
  induction sts as [|st sts IH]; intros ops addr ext0; destruct ops as [|o ops]; try exact I.
  cbn [enc_operands]. apply nc_bind; [apply nc_enc_stub|intros ve].
  apply nc_bind; [apply IH|intros; exact I].
Qed.

Theorem compile_no_crash m ops addr : nc (compile_insn m ops addr).
Proof.
  destruct (lookup_pat m opcode_table) as [pat|] eqn:L; [|unfold compile_insn; rewrite L; exact I].
  destruct (entry_fact_of_lookup _ _ L) as [i [name [pre [post [ks F]]]]].
  unfold compile_insn. rewrite L, (ef_init _ _ _ _ _ _ _ F). cbn [bind]. unfold compile_with.
  destruct (Nat.eqb (List.length ops) (List.length (stubs i))) eqn:E; cbn [negb]; [|exact I].
  apply Nat.eqb_eq in E.
  destruct (enc_operands (stubs i) ops addr []) as [[vals ext]| | |] eqn:He.
  - cbn [bind fst snd].
    pose proof (shapes_Forall2 _ _ (ef_shapes _ _ _ _ _ _ _ F)) as Hs.
    destruct (enc_operands_sound _ _ Hs _ _ _ _ _ E He) as [R _].
    destruct (ef_word _ _ _ _ _ _ _ F vals R) as [w [G1 _]]. rewrite G1. exact I.
  - exact I.
  - pose proof (nc_enc_operands (stubs i) ops addr []) as P. rewrite He in P. contradiction.
  - pose proof (nc_enc_operands (stubs i) ops addr []) as P. rewrite He in P. contradiction.
Qed.

(* distinct: two lines that assemble to the same words at the same address denote the same
   operation with the same operands; in particular their mnemonics are synonyms *)
Theorem distinct m1 m2 ops1 ops2 addr ws :
  compile_insn m1 ops1 addr = Ok ws -> compile_insn m2 ops2 addr = Ok ws ->
  no_pc_autoinc ops1 -> no_pc_autoinc ops2 ->
  expect m1 ops1 addr = expect m2 ops2 addr /\ exists e, expect m1 ops1 addr = Some e.
Proof.
  intros H1 H2 P1 P2.
  destruct (encode_decode _ _ _ _ [] H1 P1) as [n1 [s1 [E1 D1]]].
  destruct (encode_decode _ _ _ _ [] H2 P2) as [n2 [s2 [E2 D2]]].
  rewrite D1 in D2. inv D2. rewrite E1, E2. eauto.
Qed.
