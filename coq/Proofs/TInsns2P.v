(* Proofs/TInsns2P.v -- the loops translated from Instruction.compile_insn (Gen/GenPure2Insns.v, regenerated on every
   run by tools/gens/gen_pure2.py) against the hand model Model/Insns.v: indexes_of_char, subst_bits, subst_all,
   bin_value, get_opcode.  Statements are collected in Props/T_insns2.v. *)
From Coq Require Import String Ascii List ZArith NArith Bool Lia.
From Verif Require Import Base.Res Base.Bytes Gen.GenPure2 Gen.GenPure2Insns Spec.PDP11 Model.Insns.
Import ListNotations.
Open Scope list_scope.
Open Scope Z_scope.

(* equal, except that two Python exceptions are not told apart (the model's crash sites are informative only: it
   names the first offending character where Python first asserts isdigit() of the whole string) *)
Definition res_sim {A} (a b : res A) : Prop :=
  match a, b with
  | Crash _, Crash _ => True
  | _, _ => a = b
  end.

(* the model's stubs / replacements as the Python objects get_opcode reads: pattern_char, bit_indexes (ints) *)
Definition conv_stub (st : stub) : stub2 := mkStub2 (pchar st) (map Z.of_nat (bit_indexes st)).
Definition conv_reps (reps : list (stub * Z)) : list (stub2 * Z) := map (fun sv => (conv_stub (fst sv), snd sv)) reps.

(* d.get(c, []) *)
Definition lookup0 (d : list (ascii * list Z)) (c : ascii) : list Z :=
  match py_dict_find d c with Some l => l | None => [] end.
(* the dict holds the model's indexes_of_char for the pattern p *)
Definition ioc_ok (d : list (ascii * list Z)) (p : list ascii) : Prop :=
  forall c, lookup0 d c = map Z.of_nat (indexes_of_char c p).

Lemma res_sim_refl {A} (a : res A) : res_sim a a.
Proof. destruct a; simpl; auto. Qed.

Lemma res_sim_bind {A B} (a b : res A) (f g : A -> res B) :
  res_sim a b -> (forall x, res_sim (f x) (g x)) -> res_sim (bind a f) (bind b g).
Proof.
  intros H Hf. destruct a, b; simpl in *; try discriminate; try exact I; try (inversion H; subst; auto).
Qed.

Lemma res_sim_ok {A} (a b : res A) v : res_sim a b -> (a = Ok v <-> b = Ok v).
Proof. intros H. destruct a, b; simpl in H; try discriminate; try (rewrite H; tauto); split; discriminate. Qed.

(* ---- list access ---------------------------------------------------------------------------------------- *)
Lemma getitem_nat (l : list nat) n site :
  py_getitem (map Z.of_nat l) (Z.of_nat n) site = match nth_error l n with Some x => Ok (Z.of_nat x) | None => Crash site end.
Proof.
  unfold py_getitem, py_pos. rewrite map_length.
  destruct (Z.of_nat n <? 0) eqn:E0; [apply Z.ltb_lt in E0; lia|].
  destruct (Z.of_nat n <? Z.of_nat (length l)) eqn:E1.
  - rewrite Nat2Z.id, nth_error_map. destruct (nth_error l n); reflexivity.
  - apply Z.ltb_ge in E1. assert (H : nth_error l n = None) by (apply nth_error_None; lia). rewrite H. reflexivity.
Qed.

Lemma list_set_set_nth {A} n (x : A) l : list_set n x l = set_nth n x l.
Proof. revert n; induction l as [|h t IH]; intros [|n]; simpl; auto; rewrite IH; reflexivity. Qed.

Lemma set_nth_beyond {A} n (x : A) l : (length l <= n)%nat -> set_nth n x l = None.
Proof.
  revert n; induction l as [|h t IH]; intros [|n] H; simpl in *; auto; try lia.
  rewrite IH by lia. reflexivity.
Qed.

Lemma set_nth_length {A} n (x : A) l l' : set_nth n x l = Some l' -> length l' = length l.
Proof.
  revert n l'; induction l as [|h t IH]; intros [|n] l' H; simpl in *; try discriminate.
  - inversion H; reflexivity.
  - destruct (set_nth n x t) eqn:E; inversion H; subst. simpl. f_equal. eapply IH; eauto.
Qed.

Lemma setitem_nat {A} (l : list A) n x site :
  py_setitem l (Z.of_nat n) x site = match set_nth n x l with Some l' => Ok l' | None => Crash site end.
Proof.
  unfold py_setitem, py_pos.
  destruct (Z.of_nat n <? 0) eqn:E0; [apply Z.ltb_lt in E0; lia|].
  destruct (Z.of_nat n <? Z.of_nat (length l)) eqn:E1.
  - rewrite Nat2Z.id, list_set_set_nth. reflexivity.
  - apply Z.ltb_ge in E1. rewrite set_nth_beyond by lia. reflexivity.
Qed.

(* str((value >> i) & 1) *)
Lemma bit_char_translated v i : py_str_small (Z.land (Z.shiftr v (Z.of_nat i)) 1) = bit_char v i.
Proof.
  unfold bit_char.
  assert (H : Z.land (Z.shiftr v (Z.of_nat i)) 1 = Z.b2z (Z.testbit v (Z.of_nat i))).
  { change 1 with (Z.ones 1) at 1. rewrite Z.land_ones by lia. change (2 ^ 1) with 2.
    rewrite <- Z.bit0_mod, Z.shiftr_spec by lia. reflexivity. }
  rewrite H. destruct (Z.testbit v (Z.of_nat i)); reflexivity.
Qed.

(* ---- the inner loop: for i, index in enumerate(stub.bit_indexes) ---------------------------------------- *)
Lemma for2_sim orig d st v : ioc_ok d orig -> forall idxs cur i,
  res_sim (g_get_opcode_for2 d (conv_stub st) v cur (Z.of_nat i) (map Z.of_nat idxs))
          (subst_bits orig cur (pchar st) idxs i v).
Proof.
  intros Hd. induction idxs as [|index rest IH]; intros cur i.
  - simpl. reflexivity.
  - cbn [map g_get_opcode_for2 subst_bits]. unfold py_rshift2.
    destruct (Z.of_nat i <? 0) eqn:E0; [apply Z.ltb_lt in E0; lia|].
    cbn [bind]. cbn [conv_stub s_pattern_char]. unfold py_dict_get.
    specialize (Hd (pchar st)). unfold lookup0 in Hd.
    destruct (py_dict_find d (pchar st)) as [l|].
    + subst l. cbn [bind]. rewrite getitem_nat.
      destruct (nth_error (indexes_of_char (pchar st) orig) index) as [pos|]; cbn [bind]; [|exact I].
      rewrite setitem_nat, bit_char_translated.
      destruct (set_nth pos (bit_char v i) cur) as [cur'|]; cbn [bind]; [|exact I].
      replace (Z.add (Z.of_nat i) 1) with (Z.of_nat (S i)) by lia. apply IH.
    + cbn [bind]. symmetry in Hd. apply map_eq_nil in Hd. rewrite Hd.
      destruct index; exact I.
Qed.

(* ---- the outer loop: for stub, opcode_inline_value in replacements -------------------------------------- *)
Lemma for1_sim orig d : ioc_ok d orig -> forall reps cur,
  res_sim (g_get_opcode_for1 d cur (conv_reps reps)) (subst_all orig cur reps).
Proof.
  intros Hd. induction reps as [|[st v] reps IH]; intros cur.
  - simpl. reflexivity.
  - cbn [conv_reps map fst snd g_get_opcode_for1 subst_all].
    apply res_sim_bind.
    + apply (for2_sim orig d st v Hd (bit_indexes st) cur 0%nat).
    + intros x. apply IH.
Qed.

Lemma subst_bits_length orig c v : forall idxs cur i q, subst_bits orig cur c idxs i v = Ok q -> length q = length cur.
Proof.
  induction idxs as [|index rest IH]; intros cur i q H; simpl in H.
  - inversion H; reflexivity.
  - destruct (nth_error (indexes_of_char c orig) index); try discriminate.
    destruct (set_nth n (bit_char v i) cur) eqn:E; try discriminate.
    apply IH in H. rewrite H. eapply set_nth_length; eauto.
Qed.

Lemma subst_all_length orig : forall reps cur q, subst_all orig cur reps = Ok q -> length q = length cur.
Proof.
  induction reps as [|[st v] reps IH]; intros cur q H; simpl in H.
  - inversion H; reflexivity.
  - apply bind_ok_inv in H. destruct H as [c' [H1 H2]]. apply IH in H2. rewrite H2. eapply subst_bits_length; eauto.
Qed.

(* ---- "".join / assert isdigit() / int(s, 2) / struct.pack ----------------------------------------------- *)
Lemma tail_sim site : forall q acc,
  res_sim (py_assert2 (forallb py_is_digit_char q) site (do t4 <- int2_from q acc; do t5 <- pack_H t4; Ok t5))
          (do w <- bin_value q acc; pack_H w).
Proof.
  induction q as [|c q IH]; intros acc.
  - simpl. destruct (pack_H acc); simpl; auto.
  - cbn [forallb int2_from bin_value].
    change (ch "0") with "0"%char. change (ch "1") with "1"%char.
    destruct (Ascii.eqb c "0") eqn:E0.
    { apply Ascii.eqb_eq in E0. subst c. apply IH. }
    destruct (Ascii.eqb c "1") eqn:E1.
    { apply Ascii.eqb_eq in E1. subst c. apply IH. }
    destruct (py_is_digit_char c && forallb py_is_digit_char q)%bool; destruct (is_digit c); simpl; exact I.
Qed.

Lemma get_opcode_given_dict p d reps : ioc_ok d p -> p <> [] ->
  res_sim (g_get_opcode p (conv_reps reps) d) (do w <- get_opcode p reps; pack_H w).
Proof.
  intros Hd Hp. unfold g_get_opcode, get_opcode.
  pose proof (for1_sim p d Hd reps p) as H.
  destruct (g_get_opcode_for1 d p (conv_reps reps)) as [q| | |] eqn:E1;
    destruct (subst_all p p reps) as [q'| | |] eqn:E2; simpl in H; try discriminate; try exact I;
    try (inversion H; subst; simpl; reflexivity).
  inversion H; subst q'. cbn [bind].
  assert (Hq : q <> []).
  { apply subst_all_length in E2. destruct q; [destruct p; [congruence|discriminate]|discriminate]. }
  destruct q as [|c q]; [congruence|].
  change (py_isdigit (c :: q)) with (forallb py_is_digit_char (c :: q)).
  change (py_int2_digits (c :: q)) with (int2_from (c :: q) 0).
  apply tail_sim.
Qed.

(* ---- indexes_of_char = {}; for i, char in enumerate(self.opcode_pattern) -------------------------------- *)
Lemma find_set {V} (d : list (ascii * V)) k v c :
  py_dict_find (py_dict_set d k v) c = if Ascii.eqb k c then Some v else py_dict_find d c.
Proof.
  induction d as [|[k' v'] t IH]; simpl.
  - reflexivity.
  - destruct (Ascii.eqb k' k) eqn:E; simpl.
    + apply Ascii.eqb_eq in E. subst k'. destruct (Ascii.eqb k c); reflexivity.
    + rewrite IH. destruct (Ascii.eqb k' c) eqn:E2; [|reflexivity].
      apply Ascii.eqb_eq in E2. subst k'. rewrite Ascii.eqb_sym, E. reflexivity.
Qed.

Definition ioc_step (d : list (ascii * list Z)) (c : ascii) (i : Z) : list (ascii * list Z) :=
  py_dict_set (match py_dict_find d c with Some _ => d | None => py_dict_set d c [] end) c (lookup0 d c ++ [i]).

Lemma ioc_for1_step d i c rest :
  g_indexes_of_char_for1 d i (c :: rest) = g_indexes_of_char_for1 (ioc_step d c i) (Z.add i 1) rest.
Proof.
  cbn [g_indexes_of_char_for1]. unfold py_dict_mem, py_dict_get, ioc_step, lookup0.
  destruct (py_dict_find d c) eqn:E; cbn [negb].
  - reflexivity.
  - rewrite find_set, Ascii.eqb_refl. reflexivity.
Qed.

Lemma lookup_step d c i x : lookup0 (ioc_step d c i) x = if Ascii.eqb c x then lookup0 d x ++ [i] else lookup0 d x.
Proof.
  unfold ioc_step. unfold lookup0 at 1. rewrite find_set. destruct (Ascii.eqb c x) eqn:E.
  - apply Ascii.eqb_eq in E. subst x. reflexivity.
  - unfold lookup0. destruct (py_dict_find d c); [reflexivity|]. rewrite find_set, E. reflexivity.
Qed.

Lemma ioc_for1_spec : forall l d i, exists d',
  g_indexes_of_char_for1 d (Z.of_nat i) l = Ok d' /\
  forall c, lookup0 d' c = lookup0 d c ++ map Z.of_nat (positions_from c l i).
Proof.
  induction l as [|a l IH]; intros d i.
  - exists d. split; [reflexivity|]. intros c. simpl. rewrite app_nil_r. reflexivity.
  - rewrite ioc_for1_step. replace (Z.add (Z.of_nat i) 1) with (Z.of_nat (S i)) by lia.
    destruct (IH (ioc_step d a (Z.of_nat i)) (S i)) as [d' [H1 H2]].
    exists d'. split; [exact H1|]. intros c. rewrite H2, lookup_step. cbn [positions_from].
    destruct (Ascii.eqb a c); [rewrite <- app_assoc; reflexivity | reflexivity].
Qed.

Lemma indexes_of_char_is_model p : exists d, g_indexes_of_char p = Ok d /\ ioc_ok d p.
Proof.
  unfold g_indexes_of_char. destruct (ioc_for1_spec p [] 0%nat) as [d [H1 H2]].
  exists d. change (Z.of_nat 0) with 0 in H1. rewrite H1. split; [reflexivity|].
  intros c. rewrite H2. reflexivity.
Qed.

(* ---- the two together: what compile_insn defers ---------------------------------------------------------- *)
Definition g_opcode_bytes (p : list ascii) (reps : list (stub2 * Z)) : res (list Z) :=
  do d <- g_indexes_of_char p; g_get_opcode p reps d.

Lemma get_opcode_is_model p reps : p <> [] ->
  res_sim (g_opcode_bytes p (conv_reps reps)) (do w <- get_opcode p reps; pack_H w).
Proof.
  intros Hp. unfold g_opcode_bytes. destruct (indexes_of_char_is_model p) as [d [H1 H2]].
  rewrite H1. cbn [bind]. apply get_opcode_given_dict; assumption.
Qed.

Lemma get_opcode_is_model_ok p reps bs : p <> [] ->
  (g_opcode_bytes p (conv_reps reps) = Ok bs <-> (do w <- get_opcode p reps; pack_H w) = Ok bs).
Proof. intros Hp. apply res_sim_ok. apply get_opcode_is_model. exact Hp. Qed.

(* the model returns the word; the bytes are its little-endian encoding *)
Lemma get_opcode_word p reps w : p <> [] -> get_opcode p reps = Ok w -> 0 <= w < 65536 ->
  g_opcode_bytes p (conv_reps reps) = Ok [w mod 256; w / 256].
Proof.
  intros Hp H Hw. apply get_opcode_is_model_ok; [exact Hp|]. rewrite H. cbn [bind]. unfold pack_H.
  destruct (0 <=? w) eqn:E1; [|apply Z.leb_gt in E1; lia].
  destruct (w <? 65536) eqn:E2; [|apply Z.ltb_ge in E2; lia]. reflexivity.
Qed.
