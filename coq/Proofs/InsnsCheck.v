(* Proofs/InsnsCheck.v -- the finite part of C01: for every entry of the regenerated opcode table
   and every combination of in-range field values, the opcode word produced by the model's
   get_opcode is the one the Spec decoder reads back as the canonical operation with exactly those
   fields.  One vm_compute over all (entry, field values) pairs, lifted with forallb_forall. *)
From Coq Require Import ZArith List String Ascii Bool Lia.
From Verif Require Import Base.Res Base.Range Spec.PDP11 Gen.GenOpcodes Model.Insns.
Import ListNotations.
Open Scope string_scope.
Open Scope list_scope.
Open Scope Z_scope.

(* ------------------------------------------------------------------------------------------ *)
(* which Spec operand class a stub of init() implements *)
Definition shape (st : stub) : option okind :=
  let n := List.length (bit_indexes st) in
  let u := unsigned_ st in
  match sk st with
  | SkRegister => if Nat.eqb n 3 then Some CReg else None
  | SkRegMode => if Nat.eqb n 6 then Some CRM else None
  | SkFpRM => if Nat.eqb n 6 then Some CFpRM else None
  | SkFpAcc => if Nat.eqb n 2 then Some CAcc else None
  | SkOffset => if Nat.eqb n 8 && negb u then Some CBr
                else if Nat.eqb n 6 && u then Some CSob else None
  | SkImmediate => if Nat.eqb n 3 && u then Some (CNum 3 false)
                   else if Nat.eqb n 6 && u then Some (CNum 6 false)
                   else if Nat.eqb n 8 && negb u then Some (CNum 8 true) else None
  end.

Fixpoint shapes (sts : list stub) : option (list okind) :=
  match sts with
  | [] => Some []
  | st :: r => match shape st, shapes r with Some k, Some ks => Some (k :: ks) | _, _ => None end
  end.

(* the values a successful stub can put into its field *)
Definition vlo (c : okind) : Z := match c with CBr => -128 | _ => 0 end.
Definition vcount (c : okind) : nat :=
  match c with
  | CReg => 8 | CRM => 64 | CFpRM => 64 | CAcc => 4 | CBr => 256 | CSob => 64
  | CNum b _ => Z.to_nat (2 ^ b)
  end.
Definition in_range (c : okind) (v : Z) : Prop := vlo c <= v < vlo c + Z.of_nat (vcount c).

Fixpoint enum (ks : list okind) : list (list Z) :=
  match ks with
  | [] => [[]]
  | k :: ks' => let tl := enum ks' in flat_map (fun v => map (cons v) tl) (zrange (vlo k) (vcount k))
  end.

Lemma enum_complete ks vals : Forall2 in_range ks vals -> In vals (enum ks).
Proof.
  induction 1 as [|k v ks vals Hv _ IH]; simpl.
  - left; reflexivity.
  - apply in_flat_map. exists v. split.
    + apply zrange_in. exact Hv.
    + apply in_map. exact IH.
Qed.

(* the raw field the decoder is expected to extract *)
Definition fld (c : okind) (v : Z) : field :=
  match c with
  | CReg => KReg v | CRM => KRM v | CFpRM => KFpRM v | CAcc => KAcc v
  | CBr => KBr (v mod 256) | CSob => KSob v | CNum _ _ => KNum v
  end.
Definition fields_of_vals (ks : list okind) (vals : list Z) : list field :=
  map (fun kv => fld (fst kv) (snd kv)) (combine ks vals).

Definition cst_field (c : cst) : field :=
  match c with CstPc => KReg 7 | CstPopSp => KRM 22 | CstPushSp => KRM 38 end.

(* ------------------------------------------------------------------------------------------ *)
(* boolean equalities with their reflection lemmas *)
Definition field_eqb (a b : field) : bool :=
  match a, b with
  | KReg x, KReg y | KRM x, KRM y | KFpRM x, KFpRM y | KAcc x, KAcc y
  | KBr x, KBr y | KSob x, KSob y | KNum x, KNum y => x =? y
  | _, _ => false
  end.
Lemma field_eqb_eq a b : field_eqb a b = true -> a = b.
Proof. destruct a, b; simpl; try discriminate; intros H; apply Z.eqb_eq in H; congruence. Qed.

Fixpoint fields_eqb (a b : list field) : bool :=
  match a, b with
  | [], [] => true
  | x :: a', y :: b' => field_eqb x y && fields_eqb a' b'
  | _, _ => false
  end.
Lemma fields_eqb_eq a : forall b, fields_eqb a b = true -> a = b.
Proof.
  induction a as [|x a IH]; destruct b as [|y b]; simpl; try discriminate; auto.
  intros H. apply andb_true_iff in H. destruct H as [H1 H2].
  apply field_eqb_eq in H1. apply IH in H2. congruence.
Qed.

Definition okind_eqb (a b : okind) : bool :=
  match a, b with
  | CReg, CReg | CRM, CRM | CFpRM, CFpRM | CAcc, CAcc | CBr, CBr | CSob, CSob => true
  | CNum x s, CNum y t => (x =? y) && Bool.eqb s t
  | _, _ => false
  end.
Lemma okind_eqb_eq a b : okind_eqb a b = true -> a = b.
Proof.
  destruct a, b; simpl; try discriminate; auto.
  intros H. apply andb_true_iff in H. destruct H as [H1 H2].
  apply Z.eqb_eq in H1. apply Bool.eqb_prop in H2. congruence.
Qed.
Fixpoint okinds_eqb (a b : list okind) : bool :=
  match a, b with
  | [], [] => true
  | x :: a', y :: b' => okind_eqb x y && okinds_eqb a' b'
  | _, _ => false
  end.
Lemma okinds_eqb_eq a : forall b, okinds_eqb a b = true -> a = b.
Proof.
  induction a as [|x a IH]; destruct b as [|y b]; simpl; try discriminate; auto.
  intros H. apply andb_true_iff in H. destruct H as [H1 H2].
  apply okind_eqb_eq in H1. apply IH in H2. congruence.
Qed.

Definition head_is (h : option (string * list field)) (name : string) (fs : list field) : bool :=
  match h with
  | Some (n, fs') => String.eqb n name && fields_eqb fs' fs
  | None => false
  end.
Lemma head_is_eq h name fs : head_is h name fs = true -> h = Some (name, fs).
Proof.
  destruct h as [[n fs']|]; simpl; try discriminate.
  intros H. apply andb_true_iff in H. destruct H as [H1 H2].
  apply String.eqb_eq in H1. apply fields_eqb_eq in H2. congruence.
Qed.

(* ------------------------------------------------------------------------------------------ *)
Definition good_char (c : ascii) : bool := existsb (Ascii.eqb c) (chars "01sSdDoOiI").

Definition word_ok (i : insn) (name : string) (pre post : list cst) (ks : list okind) (vals : list Z) : bool :=
  match get_opcode (opcode_pattern i) (combine (stubs i) vals) with
  | Ok w => is_word w &&
            head_is (decode_head w) name (map cst_field pre ++ fields_of_vals ks vals ++ map cst_field post)
  | _ => false
  end.

Definition check_entry (e : string * string) : bool :=
  match init_entry (snd e), canon (fst e) with
  | Ok i, Some (name, pre, post) =>
      Nat.eqb (List.length (opcode_pattern i)) 16 && forallb good_char (opcode_pattern i) &&
      match shapes (stubs i), user_kinds name pre post with
      | Some ks, Some ks' => okinds_eqb ks ks' && forallb (word_ok i name pre post ks) (enum ks)
      | _, _ => false
      end
  | _, _ => false
  end.

(* mnemonics are pairwise distinct, so the first hit of a lookup is the only one *)
Fixpoint nodup_str (l : list string) : bool :=
  match l with
  | [] => true
  | x :: r => negb (existsb (String.eqb x) r) && nodup_str r
  end.

Lemma all_entries_ok : forallb check_entry opcode_table = true.
Proof. vm_compute. reflexivity. Qed.

Lemma names_distinct : nodup_str (map fst opcode_table) = true.
Proof. vm_compute. reflexivity. Qed.

(* ------------------------------------------------------------------------------------------ *)
(* what a successful check says, as propositions *)
Record entry_fact (m pat : string) (i : insn) (name : string) (pre post : list cst) (ks : list okind) : Prop := {
  ef_init : init_entry pat = Ok i;
  ef_len : List.length (opcode_pattern i) = 16%nat;
  ef_chars : forallb good_char (opcode_pattern i) = true;
  ef_canon : canon m = Some (name, pre, post);
  ef_kinds : user_kinds name pre post = Some ks;
  ef_shapes : shapes (stubs i) = Some ks;
  ef_word : forall vals, Forall2 in_range ks vals ->
            exists w, get_opcode (opcode_pattern i) (combine (stubs i) vals) = Ok w /\ is_word w = true /\
                      decode_head w = Some (name, map cst_field pre ++ fields_of_vals ks vals ++ map cst_field post)
}.

Lemma check_entry_fact m pat : check_entry (m, pat) = true ->
  exists i name pre post ks, entry_fact m pat i name pre post ks.
Proof.
  unfold check_entry; simpl.
  destruct (init_entry pat) as [i| | |] eqn:Hi; try discriminate.
  destruct (canon m) as [[[name pre] post]|] eqn:Hc; try discriminate.
  intros H. apply andb_true_iff in H. destruct H as [H H3].
  apply andb_true_iff in H. destruct H as [H1 H2].
  destruct (shapes (stubs i)) as [ks|] eqn:Hs; try discriminate.
  destruct (user_kinds name pre post) as [ks'|] eqn:Hk; try discriminate.
  apply andb_true_iff in H3. destruct H3 as [H3 H4].
  apply okinds_eqb_eq in H3. subst ks'.
  exists i, name, pre, post, ks. constructor; auto.
  - apply Nat.eqb_eq. exact H1.
  - intros vals Hv. rewrite forallb_forall in H4.
    specialize (H4 vals (enum_complete _ _ Hv)). unfold word_ok in H4.
    destruct (get_opcode (opcode_pattern i) (combine (stubs i) vals)) as [w| | |]; try discriminate.
    apply andb_true_iff in H4. destruct H4 as [Hw Hh]. apply head_is_eq in Hh.
    exists w. auto.
Qed.

Lemma lookup_pat_In m t : forall pat, lookup_pat m t = Some pat -> In (m, pat) t.
Proof.
  induction t as [|[k v] t IH]; simpl; intros pat H; try discriminate.
  destruct (String.eqb k m) eqn:E.
  - apply String.eqb_eq in E. inversion H; subst. left; reflexivity.
  - right. apply IH. exact H.
Qed.

Lemma entry_fact_of_lookup m pat : lookup_pat m opcode_table = Some pat ->
  exists i name pre post ks, entry_fact m pat i name pre post ks.
Proof.
  intros H. apply lookup_pat_In in H.
  apply check_entry_fact.
  pose proof all_entries_ok as A. rewrite forallb_forall in A. apply (A _ H).
Qed.
