(* Laws of Model/LinkBase.v (C12). *)
From Coq Require Import String List ZArith Lia Bool.
From Verif Require Import Base.Res Base.Bytes Spec.LinkRef Model.Poly Model.LinkBase Proofs.PolyP.
Import ListNotations.
Open Scope Z_scope.

Lemma nth_error_map' {A B} (f : A -> B) l i : nth_error (map f l) i = option_map f (nth_error l i).
Proof. revert i; induction l; intros [|i]; simpl; auto. Qed.

Ltac inv_bind H :=
  let x := fresh "p" in let Hx := fresh "Hp" in
  apply bind_ok_inv in H; destruct H as [x [Hx H]].

(* ---------- symbolic evaluation agrees with integer arithmetic, for every assignment ---------- *)
Theorem leval_sound labels e : forall p, leval labels e = Ok p ->
  forall rho, zeval (map (fun q => eval q rho) labels) e = Ok (eval p rho).
Proof.
  induction e; intros p H rho; cbn [leval] in H; cbn [zeval].
  - inversion H; reflexivity.
  - rewrite nth_error_map'. destruct (nth_error labels i); simpl; inversion H; reflexivity.
  - inv_bind H. inv_bind H. inversion H; subst. rewrite (IHe1 _ Hp rho), (IHe2 _ Hp0 rho). simpl. rewrite eval_add. reflexivity.
  - inv_bind H. inv_bind H. inversion H; subst. rewrite (IHe1 _ Hp rho), (IHe2 _ Hp0 rho). simpl. rewrite eval_sub. reflexivity.
  - inv_bind H. inversion H; subst. rewrite (IHe _ Hp rho). simpl. rewrite eval_neg. reflexivity.
  - inv_bind H. inv_bind H. rewrite (IHe1 _ Hp rho), (IHe2 _ Hp0 rho). simpl.
    destruct (is_const p1) eqn:C1.
    + inversion H; subst. rewrite eval_scale, (is_const_eval p1 rho C1). f_equal. lia.
    + destruct (is_const p0) eqn:C0; [|discriminate].
      inversion H; subst. rewrite eval_scale, (is_const_eval p0 rho C0). reflexivity.
  - inv_bind H. inv_bind H. rewrite (IHe1 _ Hp rho), (IHe2 _ Hp0 rho). simpl.
    destruct (is_const p0) eqn:C0; [|discriminate]. destruct (is_const p1) eqn:C1; [|discriminate].
    simpl in H. rewrite (is_const_eval p0 rho C0), (is_const_eval p1 rho C1).
    destruct (awz op (const p0) (const p1)); simpl in H; inversion H; reflexivity.
  - inv_bind H. rewrite (IHe _ Hp rho). simpl.
    destruct (is_const p0) eqn:C0; [|discriminate]. inversion H; subst.
    rewrite (is_const_eval p0 rho C0). reflexivity.
  - inv_bind H. inv_bind H. rewrite (IHe1 _ Hp rho), (IHe2 _ Hp0 rho). simpl.
    destruct (is_const p1) eqn:C1; [|discriminate]. rewrite (is_const_eval p1 rho C1). unfold shlz.
    destruct (0 <=? const p1); [|discriminate]. inversion H; subst. rewrite eval_scale. f_equal. lia.
  - inv_bind H. inv_bind H. rewrite (IHe1 _ Hp rho), (IHe2 _ Hp0 rho). simpl.
    destruct (is_const p1) eqn:C1; [|discriminate]. rewrite (is_const_eval p1 rho C1). unfold shrz.
    destruct (const p1 =? 0) eqn:E0.
    + apply Z.eqb_eq in E0. rewrite E0. simpl. inversion H; subst. rewrite Z.shiftr_0_r. reflexivity.
    + destruct (0 <? const p1) eqn:E1; [|discriminate]. apply Z.ltb_lt in E1.
      destruct (is_const p0) eqn:C0; [|discriminate]. inversion H; subst.
      rewrite (is_const_eval p0 rho C0). destruct (0 <=? const p1) eqn:E2; [reflexivity|]. apply Z.leb_gt in E2. lia.
Qed.

Theorem leval_wf labels e : Forall wf labels -> forall p, leval labels e = Ok p -> wf p.
Proof.
  intros Hl. induction e; intros p H; cbn [leval] in H.
  - inversion H. apply wf_pconst.
  - destruct (nth_error labels i) eqn:E; inversion H; subst.
    rewrite Forall_forall in Hl. apply Hl. eapply nth_error_In; eassumption.
  - inv_bind H. inv_bind H. inversion H. apply wf_add.
  - inv_bind H. inv_bind H. inversion H. apply wf_sub.
  - inv_bind H. inversion H. apply wf_neg.
  - inv_bind H. inv_bind H. destruct (is_const p1).
    + inversion H. apply wf_scale.
    + destruct (is_const p0); [|discriminate]. inversion H. apply wf_scale.
  - inv_bind H. inv_bind H. destruct (is_const p0 && is_const p1); [|discriminate].
    destruct (awz op (const p0) (const p1)); simpl in H; inversion H. apply wf_pconst.
  - inv_bind H. destruct (is_const p0); [|discriminate]. inversion H. apply wf_pconst.
  - inv_bind H. inv_bind H. destruct (is_const p1); [|discriminate].
    destruct (0 <=? const p1); [|discriminate]. inversion H. apply wf_scale.
  - inv_bind H. inv_bind H. destruct (is_const p1); [|discriminate].
    destruct (const p1 =? 0).
    + inversion H; subst. apply IHe1. assumption.
    + destruct (0 <? const p1); [|discriminate]. destruct (is_const p0); [|discriminate].
      inversion H. apply wf_pconst.
Qed.

(* ---------- base_solved / base_self_dependent ---------- *)
Theorem base_solved labels e p :
  leval labels e = Ok p -> is_const p = true ->
  solve_base labels e = get_as_int16 (const p) /\
  forall rho, zeval (map (fun q => eval q rho) labels) e = Ok (const p).
Proof.
  intros H C. split.
  - unfold solve_base. rewrite H. simpl. rewrite C. reflexivity.
  - intros rho. rewrite (leval_sound labels e p H rho), (is_const_eval p rho C). reflexivity.
Qed.

Theorem base_self_dependent labels e p :
  leval labels e = Ok p -> is_const p = false -> solve_base labels e = Err ["recursive-definition"%string].
Proof. intros H C. unfold solve_base. rewrite H. simpl. rewrite C. reflexivity. Qed.

(* ... and that rejection is never spurious: the value of such an expression really changes with
   one of the variables (the base, or a gap whose length depends on the base) *)
Theorem self_dependent_is_genuine labels e p :
  Forall wf labels -> leval labels e = Ok p -> is_const p = false ->
  exists x, forall rho,
    zeval (map (fun q => eval q (upd rho x (rho x + 1))) labels) e <>
    zeval (map (fun q => eval q rho) labels) e.
Proof.
  intros Hl H C. pose proof (leval_wf labels e Hl p H) as Hwf.
  destruct (not_const_depends p Hwf C) as [x [_ Hx]]. exists x. intros rho.
  rewrite !(leval_sound labels e p H). intros E. inversion E. exact (Hx rho H1).
Qed.

Theorem awaited_on_address_rejected labels op a b pa :
  leval labels a = Ok pa -> is_const pa = false ->
  (exists q, leval labels b = Ok q) ->
  leval labels (LAw op a b) = Err ["recursive-definition"%string].
Proof. intros H C [q Hq]. cbn [leval]. rewrite H, Hq. simpl. rewrite C. reflexivity. Qed.

Theorem awaited_on_address_rejected_r labels op a b pa pb :
  leval labels a = Ok pa -> leval labels b = Ok pb -> is_const pb = false ->
  leval labels (LAw op a b) = Err ["recursive-definition"%string].
Proof. intros H Hq C. cbn [leval]. rewrite H, Hq. simpl. rewrite C, andb_false_r. reflexivity. Qed.

(* K + sum k_i (L_ai - L_bi) with every label at LA + offset *)
Definition lab_polys (offs : list Z) : list poly := map (fun o => addc (pvar LA) o) offs.

Lemma lab_diff_const oa ob :
  is_const (sub (addc (pvar LA) oa) (addc (pvar LA) ob)) = true /\
  const (sub (addc (pvar LA) oa) (addc (pvar LA) ob)) = oa - ob.
Proof. split; [reflexivity|]. simpl. lia. Qed.

Lemma nth_error_nth_lab offs a : (a < length offs)%nat ->
  nth_error (lab_polys offs) a = Some (addc (pvar LA) (nth a offs 0)).
Proof.
  intros H. unfold lab_polys. rewrite nth_error_map'.
  rewrite (nth_error_nth' offs 0 H). reflexivity.
Qed.

Theorem diff_sum_solved offs K terms :
  Forall (fun t => (snd (fst t) < length offs)%nat /\ (snd t < length offs)%nat) terms ->
  exists p, leval (lab_polys offs) (diff_sum K terms) = Ok p /\ is_const p = true /\
            const p = diff_sum_value offs K terms.
Proof.
  induction terms as [|[[k a] b] r IH]; intros H.
  - exists (pconst K). repeat split.
  - inversion H as [|? ? [Ha Hb] Hr]; subst. simpl in Ha, Hb.
    destruct (IH Hr) as [p [Hp [Cp Vp]]].
    cbn [diff_sum leval]. rewrite Hp. cbn [bind].
    rewrite (nth_error_nth_lab offs a Ha), (nth_error_nth_lab offs b Hb). cbn [bind].
    destruct (lab_diff_const (nth a offs 0) (nth b offs 0)) as [Cd Vd].
    rewrite Cd. eexists. split; [reflexivity|]. split.
    + unfold is_const in *. unfold add. cbn [coeffs mk].
      destruct (coeffs p); [reflexivity|discriminate].
    + cbn [diff_sum_value]. unfold add. rewrite const_mk. rewrite Vp.
      unfold scale. rewrite const_mk. cbn [const pconst mk]. rewrite Vd. lia.
Qed.

(* ---------- get_as_int16 ---------- *)
Theorem get_as_int16_ok v : -65536 < v < 65536 -> get_as_int16 v = Ok (v mod 65536).
Proof.
  intros H. unfold get_as_int16.
  destruct (v <=? -65536) eqn:E1; [apply Z.leb_le in E1; lia|].
  destruct (65536 <=? v) eqn:E2; [apply Z.leb_le in E2; lia|]. reflexivity.
Qed.

Theorem get_as_int16_err v : v <= -65536 \/ 65536 <= v -> get_as_int16 v = Err ["value-out-of-bounds"%string].
Proof.
  intros H. unfold get_as_int16.
  destruct (v <=? -65536) eqn:E1; [reflexivity|]. apply Z.leb_gt in E1.
  destruct (65536 <=? v) eqn:E2; [reflexivity|]. apply Z.leb_gt in E2. lia.
Qed.

(* ---------- pass 1 ---------- *)
Lemma pass1_app a b st : pass1 (a ++ b) st = bind (pass1 a st) (pass1 b).
Proof.
  revert st; induction a as [|s r IH]; intros st; simpl; [reflexivity|].
  destruct (step st s); simpl; auto.
Qed.

Lemma step_err st s ids : step st s = Err ids -> ids = ["address-conflict"%string].
Proof.
  destruct s; simpl; try discriminate.
  - destruct (base_e st); [|discriminate]. intros H; inversion H; reflexivity.
  - destruct (base_e st); discriminate.
Qed.

Lemma step_total st s : (exists st', step st s = Ok st') \/ step st s = Err ["address-conflict"%string].
Proof.
  destruct s; simpl; eauto; destruct (base_e st); eauto.
Qed.

Lemma pass1_total p : forall st, (exists st', pass1 p st = Ok st') \/ pass1 p st = Err ["address-conflict"%string].
Proof.
  induction p as [|s r IH]; intros st; simpl; [eauto|].
  destruct (step_total st s) as [[st' H]|H]; rewrite H; simpl; auto.
Qed.

Lemma step_sticky st s st' e : step st s = Ok st' -> base_e st = Some e -> base_e st' = Some e.
Proof.
  destruct s; simpl; intros H Hb.
  - inversion H; subst; simpl; assumption.
  - inversion H; subst; simpl; assumption.
  - rewrite Hb in H; discriminate.
  - rewrite Hb in H. inversion H; subst; simpl. auto.
Qed.

Lemma pass1_sticky p : forall st st' e, pass1 p st = Ok st' -> base_e st = Some e -> base_e st' = Some e.
Proof.
  induction p as [|s r IH]; simpl; intros st st' e H Hb.
  - inversion H; subst; assumption.
  - apply bind_ok_inv in H. destruct H as [st1 [H1 H]].
    eapply IH; [eassumption|]. eapply step_sticky; eassumption.
Qed.

Definition no_base (p : list stmt) : Prop := forall s, In s p -> is_base_stmt s = false.

Lemma pass1_no_base p : no_base p -> forall st, exists st',
  pass1 p st = Ok st' /\ base_e st' = base_e st /\ nskip st' = nskip st /\
  chunks st' = chunks st ++ map CBytes (
    (fix go (q : list stmt) : list (list Z) :=
       match q with [] => [] | SBytes bs :: r => bs :: go r | _ :: r => go r end) p).
Proof.
  induction p as [|s r IH]; intros Hn st.
  - exists st. simpl. rewrite app_nil_r. auto.
  - assert (Hr : no_base r) by (intros s' Hs; apply Hn; right; assumption).
    assert (Hs : is_base_stmt s = false) by (apply Hn; left; reflexivity).
    destruct s; simpl in Hs; try discriminate; cbn [pass1 step bind].
    + destruct (IH Hr (PState (addc (cur st) (Z.of_nat (length bs))) (labels st) (base_e st) (nskip st) (chunks st ++ [CBytes bs])))
        as [st' [H1 [H2 [H3 H4]]]].
      exists st'. simpl in *. repeat split; try assumption. rewrite H4, <- app_assoc. reflexivity.
    + destruct (IH Hr (PState (cur st) (labels st ++ [cur st]) (base_e st) (nskip st) (chunks st)))
        as [st' [H1 [H2 [H3 H4]]]].
      exists st'. simpl in *. repeat split; assumption.
Qed.

Lemma emit_bytes labels rho l : emit labels rho (map CBytes l) = Ok (concat l).
Proof. induction l as [|bs r IH]; simpl; [reflexivity|]. rewrite IH. reflexivity. Qed.

Lemma bytes_of_concat p : no_base p ->
  concat ((fix go (q : list stmt) : list (list Z) :=
       match q with [] => [] | SBytes bs :: r => bs :: go r | _ :: r => go r end) p) = bytes_of p.
Proof.
  induction p as [|s r IH]; intros Hn; [reflexivity|].
  assert (Hr : no_base r) by (intros s' Hs; apply Hn; right; assumption).
  destruct s; simpl; rewrite IH by assumption; reflexivity.
Qed.

(* no `.link`, no `. =`  ==>  base 0o1000 and the image is the bytes in order *)
Theorem base_default p : no_base p -> run p = Ok (512, bytes_of p).
Proof.
  intros Hn. unfold run. destruct (pass1_no_base p Hn init) as [st [H1 [H2 [_ H4]]]].
  rewrite H1. cbn [bind]. unfold base_of. rewrite H2. cbn [base_e init bind].
  rewrite H4. cbn [chunks init app]. rewrite emit_bytes. cbn [bind].
  rewrite bytes_of_concat by assumption. reflexivity.
Qed.

(* the first base-setting statement (a `.link e`, or a `. = e` met while the promise is unsettled)
   decides the base: it is solve_base of that expression over all labels of the program *)
Lemma first_setter pre s e post st :
  no_base pre -> (s = SLink e \/ s = SDot e) ->
  pass1 (pre ++ s :: post) init = Ok st -> base_e st = Some e.
Proof.
  intros Hn Hs H. rewrite pass1_app in H. apply bind_ok_inv in H. destruct H as [st1 [H1 H]].
  destruct (pass1_no_base pre Hn init) as [st1' [H1' [Hb _]]]. rewrite H1 in H1'. inversion H1'; subst st1'.
  cbn [pass1] in H. apply bind_ok_inv in H. destruct H as [st2 [H2 H]].
  assert (Hb2 : base_e st2 = Some e).
  { destruct Hs; subst s; simpl in H2; rewrite Hb in H2; simpl in H2; inversion H2; reflexivity. }
  eapply pass1_sticky; eassumption.
Qed.

Theorem base_from_setter pre s e post b img :
  no_base pre -> (s = SLink e \/ s = SDot e) ->
  run (pre ++ s :: post) = Ok (b, img) ->
  solve_base (all_labels (pre ++ s :: post)) e = Ok b.
Proof.
  intros Hn Hs H. unfold run in H. apply bind_ok_inv in H. destruct H as [st [H1 H]].
  apply bind_ok_inv in H. destruct H as [b' [Hb H]].
  apply bind_ok_inv in H. destruct H as [img' [_ H]]. inversion H; subst b' img'.
  unfold all_labels. rewrite H1. unfold base_of in Hb.
  rewrite (first_setter pre s e post st Hn Hs H1) in Hb. exact Hb.
Qed.

Theorem base_from_link pre e post b img :
  no_base pre -> run (pre ++ SLink e :: post) = Ok (b, img) ->
  solve_base (all_labels (pre ++ SLink e :: post)) e = Ok b.
Proof. intros Hn. apply base_from_setter; auto. Qed.

Theorem base_from_leading_dot pre e post b img :
  no_base pre -> run (pre ++ SDot e :: post) = Ok (b, img) ->
  solve_base (all_labels (pre ++ SDot e :: post)) e = Ok b.
Proof. intros Hn. apply base_from_setter; auto. Qed.

(* ... and when that expression cannot be solved, the whole assembly is that error *)
Theorem base_error_propagates pre s e post ids :
  no_base pre -> (s = SLink e \/ s = SDot e) ->
  (exists st, pass1 (pre ++ s :: post) init = Ok st) ->
  solve_base (all_labels (pre ++ s :: post)) e = Err ids ->
  run (pre ++ s :: post) = Err ids.
Proof.
  intros Hn Hs [st H1] He. unfold run. rewrite H1. cbn [bind]. unfold base_of.
  rewrite (first_setter pre s e post st Hn Hs H1). unfold all_labels in He. rewrite H1 in He. rewrite He. reflexivity.
Qed.

(* a `.link` after the base has been set (by `.link` or by a leading `. =`) is an error *)
Theorem second_link_rejected pre s e mid e2 post :
  (s = SLink e \/ s = SDot e) ->
  run (pre ++ s :: mid ++ SLink e2 :: post) = Err ["address-conflict"%string].
Proof.
  intros Hs. unfold run. rewrite pass1_app.
  destruct (pass1_total pre init) as [[st0 H0]|H0]; rewrite H0; cbn [bind]; [|reflexivity].
  cbn [pass1].
  destruct (step_total st0 s) as [[st1 H1]|H1]; rewrite H1; cbn [bind]; [|reflexivity].
  assert (Hb1 : exists e1, base_e st1 = Some e1).
  { destruct Hs; subst s; simpl in H1; destruct (base_e st0) eqn:Eb; inversion H1; subst; simpl; eauto. }
  destruct Hb1 as [e1 Hb1].
  rewrite pass1_app.
  destruct (pass1_total mid st1) as [[st2 H2]|H2]; rewrite H2; cbn [bind]; [|reflexivity].
  pose proof (pass1_sticky mid st1 st2 e1 H2 Hb1) as Hb2.
  cbn [pass1 step]. rewrite Hb2. reflexivity.
Qed.

(* ---------- `. = X` once the base is set ---------- *)
Theorem dot_forward labels rho at_ x k xv new :
  uses_later labels x k = false ->
  zeval (map (fun q => eval q rho) labels) x = Ok xv ->
  get_as_int16 xv = Ok new ->
  eval at_ rho <= new ->
  skip_bytes labels rho at_ x k = Ok (zeros (Z.to_nat (new - eval at_ rho))) /\
  Z.of_nat (length (zeros (Z.to_nat (new - eval at_ rho)))) = new - eval at_ rho /\
  (coeff (skipvar k) at_ = 0 ->
   eval (add at_ (pvar (skipvar k))) (upd rho (skipvar k) (new - eval at_ rho)) = new).
Proof.
  intros Hu Hx Hg Hle. split; [|split].
  - unfold skip_bytes. rewrite Hu, Hx. cbn [bind]. rewrite Hg. cbn [bind].
    destruct (new - eval at_ rho <? 0) eqn:E; [apply Z.ltb_lt in E; lia|reflexivity].
  - rewrite zeros_length. lia.
  - intros Hc. rewrite eval_add, eval_pvar, eval_upd, Hc. unfold upd. rewrite Z.eqb_refl. lia.
Qed.

Theorem dot_backward labels rho at_ x k xv new :
  uses_later labels x k = false ->
  zeval (map (fun q => eval q rho) labels) x = Ok xv ->
  get_as_int16 xv = Ok new ->
  new < eval at_ rho ->
  skip_bytes labels rho at_ x k = Err ["value-out-of-bounds"%string].
Proof.
  intros Hu Hx Hg Hlt. unfold skip_bytes. rewrite Hu, Hx. cbn [bind]. rewrite Hg. cbn [bind].
  destruct (new - eval at_ rho <? 0) eqn:E; [reflexivity|apply Z.ltb_ge in E; lia].
Qed.

(* an error in a gap is the result of the whole assembly: nothing is silently dropped *)
Lemma emit_err_skip labels rho at_ x k r ids :
  skip_bytes labels rho at_ x k = Err ids -> emit labels rho (CSkip at_ x k :: r) = Err ids.
Proof. intros H. cbn [emit]. rewrite H. reflexivity. Qed.

(* the programme  .link b ; <pre bytes> ; . = X ; <post bytes>  *)
Definition dot_prog (b : Z) (pre : list Z) (X : Z) (post : list Z) : list stmt :=
  [SLink (LConst b); SBytes pre; SDot (LConst X); SBytes post].

Lemma run_dot_prog b pre X post : 0 <= b < 65536 ->
  run (dot_prog b pre X post) =
  bind (skip_bytes [] (upd (fun _ => 0) LA b) (addc (pvar LA) (Z.of_nat (length pre))) (LConst X) 0)
       (fun z => Ok (b, pre ++ z ++ post)).
Proof.
  intros Hb. unfold run, dot_prog. cbn [pass1 step init bind base_e cur labels nskip chunks app].
  unfold base_of. cbn [base_e labels]. unfold solve_base. cbn [leval bind is_const pconst mk coeffs const dict_of drop_zero fold_left filter].
  rewrite get_as_int16_ok by lia. rewrite Z.mod_small by lia. cbn [bind chunks emit].
  destruct (skip_bytes _ _ _ _ _) as [z| | |]; cbn [bind]; try reflexivity.
  rewrite app_nil_r. reflexivity.
Qed.

Theorem dot_forward_program b pre X post :
  0 <= b -> b + Z.of_nat (length pre) <= X < 65536 ->
  run (dot_prog b pre X post) = Ok (b, pre ++ zeros (Z.to_nat (X - (b + Z.of_nat (length pre)))) ++ post).
Proof.
  intros Hb HX. rewrite run_dot_prog by lia.
  pose proof (dot_forward [] (upd (fun _ => 0) LA b) (addc (pvar LA) (Z.of_nat (length pre))) (LConst X) 0 X X) as D.
  assert (Ev : eval (addc (pvar LA) (Z.of_nat (length pre))) (upd (fun _ : var => 0) LA b) = b + Z.of_nat (length pre)).
  { rewrite eval_addc, eval_pvar. unfold upd. rewrite Z.eqb_refl. reflexivity. }
  rewrite Ev in D. destruct D as [D _]; try reflexivity.
  - rewrite get_as_int16_ok by lia. rewrite Z.mod_small by lia. reflexivity.
  - lia.
  - rewrite D. reflexivity.
Qed.

Theorem dot_backward_program b pre X post :
  0 <= b < 65536 -> 0 <= X < b + Z.of_nat (length pre) -> X < 65536 ->
  run (dot_prog b pre X post) = Err ["value-out-of-bounds"%string].
Proof.
  intros Hb HX HX2. rewrite run_dot_prog by lia.
  pose proof (dot_backward [] (upd (fun _ => 0) LA b) (addc (pvar LA) (Z.of_nat (length pre))) (LConst X) 0 X X) as D.
  assert (Ev : eval (addc (pvar LA) (Z.of_nat (length pre))) (upd (fun _ : var => 0) LA b) = b + Z.of_nat (length pre)).
  { rewrite eval_addc, eval_pvar. unfold upd. rewrite Z.eqb_refl. reflexivity. }
  rewrite Ev in D. rewrite D; try reflexivity.
  - rewrite get_as_int16_ok by lia. rewrite Z.mod_small by lia. reflexivity.
  - lia.
Qed.

(* ---------- unary minus / plus applied directly to a label ----------
   operators.neg is not awaited: -label stays the polynomial -LA - offset (it is NOT forced to a number),
   so it cancels against another label:  -s + e  and  e + (-s)  are the constant  off_e - off_s. *)
Theorem neg_keeps_symbolic labels a p :
  leval labels a = Ok p -> leval labels (LNeg a) = Ok (neg p) /\ forall x, coeff x (neg p) = - coeff x p.
Proof. intros H. cbn [leval]. rewrite H. split; [reflexivity|]. intros x. apply coeff_neg. Qed.

Theorem neg_label_cancels offs s e : (s < length offs)%nat -> (e < length offs)%nat ->
  exists p, leval (lab_polys offs) (LAdd (LNeg (LLabel s)) (LLabel e)) = Ok p /\ is_const p = true /\
            const p = nth e offs 0 - nth s offs 0 /\
  exists q, leval (lab_polys offs) (LAdd (LLabel e) (LNeg (LLabel s))) = Ok q /\ is_const q = true /\
            const q = nth e offs 0 - nth s offs 0.
Proof.
  intros Hs He. cbn [leval]. rewrite (nth_error_nth_lab offs s Hs), (nth_error_nth_lab offs e He). cbn [bind].
  eexists. split; [reflexivity|]. split; [reflexivity|]. split; [simpl; lia|].
  eexists. split; [reflexivity|]. split; [reflexivity|]. simpl; lia.
Qed.
