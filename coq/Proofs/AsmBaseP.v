(* C12 on R: the link base and `. = X` of the whole-program reference assembler Model/Asm.v.
   Statements: Props/R_base.v. *)
From Coq Require Import ZArith List String Ascii Bool NArith Lia.
From Verif Require Import Base.Res Base.Bytes Spec.PDP11 Spec.Arith Gen.GenGetAsInt
  Model.Insns Model.Directives Proofs.DirectivesGai
  Model.Asm Model.AsmT Proofs.AsmP Proofs.AsmMeta Proofs.AsmMove Proofs.AsmReloc.
Import ListNotations.
Notation length := Datatypes.length.
Notation concat := List.concat.
Open Scope string_scope.
Open Scope list_scope.
Open Scope Z_scope.

Ltac xinv H :=
  repeat match type of H with
  | xbind ?r ?f = XOk _ =>
      let a := fresh "a" in let Ha := fresh "Ha" in
      apply xbind_ok in H; destruct H as [a [Ha H]]
  end.

(* ---- the syntactic conditions -------------------------------------------------------------------------------- *)
(* some reached top-level statement (of the program file or of a file linked after it) can fix the base *)
Definition has_base (p : program) : bool :=
  match first_base 0 (cut_end p) with Some _ => true | None => false end.

(* a plain sufficient condition: no .link, no `. =`, no other file at the top level *)
Definition plain_stmt (s : stmt) : bool :=
  match s with Link _ | Skip _ | Include _ _ _ => false | _ => true end.

Definition noend (l : list stmt) : bool := forallb (fun s => negb (is_end s)) l.

Lemma plain_no_base p : forallb plain_stmt p = true -> has_base p = false.
Proof.
  unfold has_base. induction p as [|x r IH]; intros H; [reflexivity|].
  simpl in H. apply andb_true_iff in H. destruct H as [Hx Hr]. specialize (IH Hr).
  destruct x; simpl in Hx; try discriminate; simpl; try exact IH; reflexivity.
Qed.

(* ---- get_as_int(16, signed) ---------------------------------------------------------------------------------- *)
Lemma gai16_ok v r : get_as_int (Some 16) false None v = Ok r -> -65536 < v < 65536 /\ r = v mod 65536 /\ 0 <= r < 65536.
Proof.
  intros H. destruct (get_as_int_spec 16 false v ltac:(lia)) as [S1 _].
  apply S1 in H. destruct H as [[A _] E]. change (2 ^ 16) with 65536 in *.
  split; [lia|]. split; [exact E|]. subst r. apply Z.mod_pos_bound. lia.
Qed.

Lemma gai16_in v : -65536 < v < 65536 -> get_as_int (Some 16) false None v = Ok (v mod 65536).
Proof.
  intros H. destruct (get_as_int_spec 16 false v ltac:(lia)) as [S1 _].
  apply S1. split; [|reflexivity]. red. change (2 ^ 16) with 65536. split; [lia|discriminate].
Qed.

(* ---- the base ------------------------------------------------------------------------------------------------- *)
Theorem base_default enc p f : has_base p = false -> assemble_full enc p = XOk f -> f_base f = 512.
Proof.
  unfold has_base. intros Hn H. destruct (assemble_full_inv _ _ _ H) as [st [dv [_ [Hb _]]]].
  unfold find_base in Hb. destruct (first_base 0 (cut_end p)); [discriminate|]. inversion Hb. reflexivity.
Qed.

Theorem base_range enc p f : assemble_full enc p = XOk f -> 0 <= f_base f < 65536.
Proof.
  intros H. destruct (assemble_full_inv _ _ _ H) as [st [dv [_ [Hb _]]]].
  unfold find_base in Hb. destruct (first_base 0 (cut_end p)) as [[fl e]|].
  - xinv Hb. apply lift_ok' in Hb. apply gai16_ok in Hb. tauto.
  - inversion Hb. unfold default_base. lia.
Qed.

(* the first base statement, spelled with constants only: the base is its value by the 16-bit rule *)
Theorem base_from_first enc p f fl e : assemble_full enc p = XOk f ->
  first_base 0 (cut_end p) = Some (fl, e) -> closed e = true ->
  exists v, Arith.eval (cenc enc) (fun _ => None) 0 e = Ok v /\ -65536 < v < 65536 /\ f_base f = v mod 65536.
Proof.
  intros H Hf Hc. destruct (assemble_full_inv _ _ _ H) as [st [dv [_ [Hb _]]]].
  unfold find_base in Hb. rewrite Hf in Hb. rewrite xeval_closed in Hb by exact Hc. unfold cval in Hb.
  xinv Hb. apply lift_ok' in Ha. apply lift_ok' in Hb. apply gai16_ok in Hb. exists a. tauto.
Qed.

Theorem base_from_link enc b rest f : 0 <= b -> assemble_full enc (at_base b rest) = XOk f ->
  f_base f = b /\ b < 65536.
Proof.
  intros Hb H.
  destruct (base_from_first enc (at_base b rest) f 0%nat (Lit (LNum false SBareOct false false (Z.to_N b))) H) as [v [E [R F]]];
    [reflexivity|reflexivity|].
  simpl in E. inversion E as [Ev]. rewrite Z2N.id in Ev by exact Hb. subst v.
  rewrite Z.mod_small in F by lia. split; [exact F|lia].
Qed.

Theorem base_from_link_nat enc n rest f : assemble_full enc (Link (numlit n) :: rest) = XOk f ->
  f_base f = Z.of_nat n /\ Z.of_nat n < 65536.
Proof.
  intros H. apply (base_from_link enc (Z.of_nat n) rest f); [lia|].
  unfold at_base. rewrite <- nat_N_Z, N2Z.id. exact H.
Qed.

(* ---- a second .link -------------------------------------------------------------------------------------------- *)
Lemma flat_mono cnt b l l' b' : flat cnt b l l' b' -> b = true -> b' = true.
Proof.
  induction 1; intros Hb; auto; try discriminate.
Qed.

Section Lay.
Variable enc : list N -> option (list Z).
Variable alldefs : list defn.
Variable allkeys : list key.
Variable exports : list (string * nat).
Variable fuel : nat.
Notation lay_leaf := (lay_leaf enc alldefs allkeys exports fuel).
Notation lay_list := (lay_list enc alldefs allkeys exports fuel).

Lemma lay_list_flags inrep l st st' d : lay_list inrep l st = XOk (st', d) ->
  l_inc st' = l_inc st /\ (l_based st = true -> l_based st' = true).
Proof.
  intros H.
  assert (F : Forall (stmt_ext enc alldefs allkeys exports fuel) l) by (apply Forall_forall; intros x _; apply lay_stmt_ext).
  destruct (lay_list_ext enc alldefs allkeys exports fuel l F _ _ _ _ H) as [_ [Fl [I _]]].
  split; [exact I|]. eapply flat_mono; eauto.
Qed.

(* a base statement met at the top level of the program (or of a linked file): afterwards the base is fixed *)
Lemma lay_base_stmt s st st' d : is_base s = true -> l_inc st = false ->
  lay_leaf false s st = XOk (st', d) -> l_based st' = true /\ l_inc st' = false.
Proof.
  intros Hs Hi H. destruct s; try discriminate; unfold Asm.lay_leaf in H; rewrite Hi in H.
  - destruct (l_based st); [discriminate|]. inversion H; subst. simpl. auto.
  - destruct (l_based st) eqn:Eb.
    + xinv H. inversion H; subst. simpl. auto.
    + inversion H; subst. simpl. auto.
Qed.

Lemma second_link_lay pre s mid e2 post st : is_base s = true -> l_inc st = false ->
  forall r, lay_list false (pre ++ s :: mid ++ Link e2 :: post) st <> XOk r.
Proof.
  intros Hs Hi r H. rewrite lay_list_app in H. xinv H. destruct a as [s1 d1]. cbn [fst snd] in *.
  destruct (lay_list_flags _ _ _ _ _ Ha) as [I1 _].
  cbn [Asm.lay_list] in Ha0. xinv Ha0. destruct a as [s2 d2]. cbn [fst snd] in *.
  rewrite lay_stmt_leaf in Ha1 by (destruct s; try discriminate; reflexivity).
  assert (I1f : l_inc s1 = false) by congruence.
  destruct (lay_base_stmt _ _ _ _ Hs I1f Ha1) as [B2 I2].
  rewrite lay_list_app in Ha2. xinv Ha2. destruct a as [s3 d3]. cbn [fst snd] in *.
  destruct (lay_list_flags _ _ _ _ _ Ha3) as [I3 B3]. specialize (B3 B2).
  cbn [Asm.lay_list Asm.lay_stmt] in Ha4. xinv Ha4. unfold Asm.lay_leaf in Ha5.
  rewrite I3, I2, B3 in Ha5. discriminate.
Qed.

(* `. = e` once the base is fixed *)
Lemma lay_dot_backward (inrep : bool) e st v :
  l_based st = true -> l_inc st = false ->
  lev enc alldefs allkeys exports fuel st (l_file st, if inrep then @None nat else Some (l_scope st)) e = XOk v ->
  -65536 < v < 65536 -> v mod 65536 < l_addr st ->
  lay_leaf inrep (Skip e) st = XErr ["value-out-of-bounds"].
Proof.
  intros Hb Hi Hv R Lt. unfold Asm.lay_leaf. rewrite Hi, Hb. cbn [emit_leaf]. rewrite Hv. cbn [xbind].
  rewrite gai16_in by exact R. cbn [lift xbind].
  destruct (v mod 65536 - l_addr st <? 0) eqn:E; [reflexivity|]. apply Z.ltb_ge in E. lia.
Qed.

Lemma lay_dot_forward (inrep : bool) e st v :
  l_based st = true -> l_inc st = false ->
  lev enc alldefs allkeys exports fuel st (l_file st, if inrep then @None nat else Some (l_scope st)) e = XOk v ->
  -65536 < v < 65536 -> l_addr st <= v mod 65536 ->
  exists st' it, lay_leaf inrep (Skip e) st = XOk (st', [it]) /\ l_addr st' = v mod 65536 /\
                 i_addr it = l_addr st /\ i_stmt it = Skip e /\ i_size it = v mod 65536 - l_addr st.
Proof.
  intros Hb Hi Hv R Le. unfold Asm.lay_leaf. rewrite Hi, Hb. cbn [emit_leaf]. rewrite Hv. cbn [xbind].
  rewrite gai16_in by exact R. cbn [lift xbind].
  destruct (v mod 65536 - l_addr st <? 0) eqn:E; [apply Z.ltb_lt in E; lia|]. cbn [xbind].
  unfold put. eexists. eexists. split; [reflexivity|]. cbn [l_addr i_addr i_stmt i_size]. unfold zlen. rewrite zeros_length.
  rewrite Z2Nat.id by lia. repeat split; lia.
Qed.
End Lay.

Theorem second_link_rejected enc pre s mid e2 post f : noend pre = true -> noend mid = true -> is_base s = true ->
  assemble_full enc (pre ++ s :: mid ++ Link e2 :: post) <> XOk f.
Proof.
  intros Np Nm Hs H. destruct (assemble_full_inv _ _ _ H) as [st [dv [_ [_ [Hl _]]]]].
  assert (FA : forall l, noend l = true -> Forall (fun y => is_end y = false) l).
  { intros l Hn. apply Forall_forall. intros x Hx. unfold noend in Hn. rewrite forallb_forall in Hn.
    specialize (Hn x Hx). destruct (is_end x); [discriminate|reflexivity]. }
  rewrite cut_end_noend_app in Hl by (apply FA; exact Np).
  rewrite cut_end_cons in Hl by (destruct s; try discriminate; reflexivity).
  rewrite cut_end_noend_app in Hl by (apply FA; exact Nm).
  rewrite cut_end_cons in Hl by reflexivity.
  eapply second_link_lay; [exact Hs| |exact Hl]. reflexivity.
Qed.

(* ---- `. = X` in an assembled program ---------------------------------------------------------------------------- *)
Lemma emit_dot enc ev addr e v : ev e = XOk v -> -65536 < v < 65536 ->
  emit_leaf enc ev addr (Skip e) =
  if v mod 65536 <? addr then XErr ["value-out-of-bounds"] else XOk (zeros (Z.to_nat (v mod 65536 - addr))).
Proof.
  intros Hv R. cbn [emit_leaf]. rewrite Hv. cbn [xbind]. rewrite gai16_in by exact R. cbn [lift xbind].
  destruct (v mod 65536 - addr <? 0) eqn:E; destruct (v mod 65536 <? addr) eqn:E'; try reflexivity;
    rewrite ?Z.ltb_lt, ?Z.ltb_ge in *; lia.
Qed.

Theorem dot_backward_rejected enc ev addr e v : ev e = XOk v -> -65536 < v < 65536 -> v mod 65536 < addr ->
  emit_leaf enc ev addr (Skip e) = XErr ["value-out-of-bounds"].
Proof.
  intros Hv R L. rewrite (emit_dot enc ev addr e v Hv R). destruct (v mod 65536 <? addr) eqn:E; [reflexivity|].
  apply Z.ltb_ge in E. lia.
Qed.

Theorem dot_forward_fills enc ev addr e v : ev e = XOk v -> -65536 < v < 65536 -> addr <= v mod 65536 ->
  emit_leaf enc ev addr (Skip e) = XOk (zeros (Z.to_nat (v mod 65536 - addr))) /\
  zlen (zeros (Z.to_nat (v mod 65536 - addr))) = v mod 65536 - addr.
Proof.
  intros Hv R L. rewrite (emit_dot enc ev addr e v Hv R). destruct (v mod 65536 <? addr) eqn:E; [apply Z.ltb_lt in E; lia|].
  split; [reflexivity|]. unfold zlen. rewrite zeros_length. lia.
Qed.

(* every `. = e` that stayed a skip in an assembled program: e has a value X in the 16-bit rule, X is not before the
   statement's address, and its bytes are exactly X - address zeros *)
Theorem dot_item enc p f k it bs e : assemble_full enc p = XOk f ->
  nth_error (f_items f) k = Some it -> nth_error (f_chunks f) k = Some bs -> i_stmt it = Skip e ->
  exists v, Arith.eval (cenc enc) (sym_of (f_exports f) (f_syms f) (i_scope it)) (i_addr it) e = Ok v /\
            -65536 < v < 65536 /\ i_addr it <= v mod 65536 /\
            bs = zeros (Z.to_nat (v mod 65536 - i_addr it)) /\ i_addr it + zlen bs = v mod 65536.
Proof.
  intros H Hi Hc Hs. destruct (assemble_full_inv _ _ _ H) as [st [dv [_ [_ [_ [_ [_ [He _]]]]]]]].
  destruct (xmapM_nth _ _ _ He) as [_ N]. destruct (N _ _ Hi) as [y [Hy Ey]]. rewrite Hc in Hy. inversion Hy; subst y.
  unfold emit_item in Ey. rewrite Hs in Ey. cbn [emit_leaf] in Ey. xinv Ey.
  unfold fev in Ha. apply lift_ok' in Ha. apply lift_ok' in Ha0. apply gai16_ok in Ha0. destruct Ha0 as [R [E0 _]].
  subst a0. exists a. split; [exact Ha|]. split; [exact R|].
  destruct (a mod 65536 - i_addr it <? 0) eqn:E; [discriminate|]. apply Z.ltb_ge in E. inversion Ey.
  split; [lia|]. split; [reflexivity|]. unfold zlen. rewrite zeros_length. lia.
Qed.
