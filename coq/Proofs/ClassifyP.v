(* Proofs/ClassifyP.v -- lemmas about Model/Classify.v (C01: token tree -> operand form). *)
From Coq Require Import ZArith List String Ascii Bool NArith Lia.
From Verif Require Import Base.Res Model.Classify.
Import ListNotations.
Open Scope string_scope.
Open Scope list_scope.
Open Scope Z_scope.

(* ------------------------------------------------------------------------------------------ *)
(* hoist *)

Lemma hoist_cases t :
  hoist t = t \/ exists x r, is_reg r = true /\ attached t x r /\ hoist t = TCall x r.
Proof.
  induction t; simpl; auto.
  - destruct IHt2 as [E | (x & r & Hr & Ha & E)]; rewrite E.
    + destruct t2; auto. destruct (is_reg t2_2) eqn:Hr; auto.
      right. eexists _, _. split; [exact Hr|]. split; [|reflexivity]. constructor. constructor.
    + rewrite Hr. right. eexists _, _. split; [exact Hr|]. split; [|reflexivity]. constructor. exact Ha.
  - destruct IHt as [E | (x & r & Hr & Ha & E)]; rewrite E.
    + destruct t; auto. destruct (is_reg t2) eqn:Hr; auto.
      right. eexists _, _. split; [exact Hr|]. split; [|reflexivity]. constructor. constructor.
    + rewrite Hr. right. eexists _, _. split; [exact Hr|]. split; [|reflexivity]. constructor. exact Ha.
Qed.

Lemma hoist_attached t e rs : attached t e rs -> is_reg rs = true -> hoist t = TCall e rs.
Proof.
  induction 1; intros Hr; simpl; auto.
  - rewrite (IHattached Hr), Hr. reflexivity.
  - rewrite (IHattached Hr), Hr. reflexivity.
Qed.

Lemma attach_attached e rs : attached (attach e rs) e rs.
Proof. induction e; simpl; try constructor; auto. Qed.

Lemma hoist_attach e rs : is_reg rs = true -> hoist (attach e rs) = TCall e rs.
Proof. intros; apply hoist_attached; auto using attach_attached. Qed.

Lemma no_hoist_fix e : no_hoist e = true -> hoist e = e.
Proof.
  unfold no_hoist. destruct (hoist_cases e) as [E | (x & r & Hr & _ & E)]; auto.
  rewrite E, Hr. discriminate.
Qed.

(* hoisting is idempotent: the cascade sees a tree on which hoist has nothing left to do *)
Lemma hoist_idem t : hoist (hoist t) = hoist t.
Proof.
  destruct (hoist_cases t) as [E | (x & r & _ & _ & E)]; rewrite E; auto.
Qed.

Lemma try_reg_is_reg rs r : try_reg rs = Some r -> is_reg rs = true.
Proof. unfold is_reg; intros ->; reflexivity. Qed.

(* ------------------------------------------------------------------------------------------ *)
(* totality *)
Lemma classify_total t : exists o w, classify t = Ok (o, w).
Proof. unfold classify. destruct (cascade (hoist t)) as [o w]. eauto. Qed.

(* ------------------------------------------------------------------------------------------ *)
(* the cascade only produces forms the tree spells *)

Ltac brk H :=
  repeat (simpl in H;
          match type of H with
          | context [match ?x with _ => _ end] => destruct x eqn:?
          end).

Lemma cascade_spells h o w : cascade h = (o, w) -> spells h o w.
Proof.
  unfold cascade, branches, first_of, b_reg, b_regdef, b_legacy, b_autoinc, b_autoincdef, b_autodec,
    b_autodecdef, b_indexdef, b_index, b_implicit, b_imm, b_abs, b_reldef, with_reg, paren_reg.
  intros H.
  destruct h as [n nl| | | |rd e|op l r|op e|op e|l r].
  - destruct (try_reg (TSym n nl)) eqn:E; inversion H; subst; constructor; auto.
  - inversion H; constructor.
  - inversion H; constructor.
  - inversion H; constructor.
  - simpl in H. destruct rd; [destruct (try_reg e) eqn:E|]; inversion H; subst; constructor; auto.
  - inversion H; constructor.
  - destruct (try_reg (TPrefix op e)) eqn:E0; [inversion H; subst; constructor; auto|].
    destruct op; simpl in E0; try discriminate; simpl in H;
      try (inversion H; subst; constructor; fail).
    + (* neg *)
      destruct e as [ | | | |[] e' | | | | ]; simpl in H; try (inversion H; subst; constructor; fail).
      destruct (try_reg e') eqn:E; inversion H; subst; constructor; auto.
    + (* deferred *)
      destruct (try_reg e) eqn:E1; [inversion H; subst; constructor; auto|].
      destruct e as [ | | | |[] e' | |op2 e'|op2 e'| ]; simpl in H; try (inversion H; subst; constructor; fail).
      * destruct (try_reg e') eqn:E; inversion H; subst; constructor; auto.
      * destruct op2; simpl in H; try (inversion H; subst; constructor; fail).
        destruct e' as [ | | | |[] e'' | | | | ]; simpl in H; try (inversion H; subst; constructor; fail).
        destruct (try_reg e'') eqn:E; inversion H; subst; constructor; auto.
      * destruct op2; simpl in H; try (inversion H; subst; constructor; fail).
        destruct e' as [ | | | |[] e'' | | | | ]; simpl in H; try (inversion H; subst; constructor; fail).
        destruct (try_reg e'') eqn:E; inversion H; subst; constructor; auto.
  - destruct op; simpl in H; try (inversion H; subst; constructor; fail).
    destruct e as [ | | | |[] e' | | | | ]; simpl in H; try (inversion H; subst; constructor; fail).
    destruct (try_reg e') eqn:E; inversion H; subst; constructor; auto.
  - simpl in H.
    destruct (try_reg r) eqn:E.
    + destruct l as [ | | | | | |[] x| | ]; simpl in H; inversion H; subst;
        try (eapply S_index; [exact E|constructor|reflexivity]).
      eapply S_indexdef; [exact E|constructor].
    + destruct l as [ | | | | | |[] x| | ]; simpl in H; inversion H; subst; constructor.
Qed.

Lemma cascade_call x rs r : try_reg rs = Some r ->
  cascade (TCall x rs) = match x with TPrefix PDef y => (FIndexDef y r, []) | _ => (FIndex x r, []) end.
Proof.
  intros E. unfold cascade, branches, first_of, b_reg, b_regdef, b_legacy, b_autoinc, b_autoincdef, b_autodec,
    b_autodecdef, b_indexdef, b_index, b_implicit, b_imm, b_abs, b_reldef, with_reg, paren_reg. simpl.
  rewrite E. destruct x as [ | | | | | |[] y| | ]; reflexivity.
Qed.

Lemma classify_complete t o w : classify t = Ok (o, w) -> spells t o w.
Proof.
  unfold classify. intros H. inversion H as [H1]. clear H.
  destruct (hoist_cases t) as [E | (x & r & Hr & Ha & E)]; rewrite E in H1.
  - apply cascade_spells; exact H1.
  - unfold is_reg in Hr. destruct (try_reg r) eqn:Er; [|discriminate].
    rewrite (cascade_call _ _ _ Er) in H1.
    destruct x as [ | | | | | |[] y| | ]; inversion H1; subst;
      try (eapply S_index; [exact Er|exact Ha|reflexivity]).
    eapply S_indexdef; [exact Er|exact Ha].
Qed.

(* ------------------------------------------------------------------------------------------ *)
(* every legal written form is classified as itself *)

Ltac casc := unfold cascade, branches, first_of, b_reg, b_regdef, b_legacy, b_autoinc, b_autoincdef, b_autodec,
    b_autodecdef, b_indexdef, b_index, b_implicit, b_imm, b_abs, b_reldef, with_reg, paren_reg.

Lemma hoist_prefix_nh op e : no_hoist e = true -> hoist (TPrefix op e) = TPrefix op e.
Proof.
  intros H. simpl. rewrite (no_hoist_fix _ H). unfold no_hoist in H. rewrite (no_hoist_fix _ H) in H.
  destruct e; auto. destruct (is_reg e2); [discriminate|reflexivity].
Qed.

Lemma no_hoist_prefix op e : no_hoist e = true -> no_hoist (TPrefix op e) = true.
Proof. intros H. unfold no_hoist. rewrite (hoist_prefix_nh _ _ H). reflexivity. Qed.

Lemma try_reg_spell b r : wf_reg b r -> try_reg (spell_reg r) = Some r.
Proof.
  destruct r as [n|e]; simpl; auto.
  intros H. assert (n = 0 \/ n = 1 \/ n = 2 \/ n = 3 \/ n = 4 \/ n = 5 \/ n = 6 \/ n = 7) as D by lia.
  repeat (destruct D as [-> | D]; [reflexivity|]). subst; reflexivity.
Qed.

Lemma try_reg_not_paren b e : try_reg (TParen b e) = None.
Proof. reflexivity. Qed.

Lemma negb_is_reg e : negb (is_reg e) = true -> try_reg e = None.
Proof. unfold is_reg. destruct (try_reg e); [discriminate|reflexivity]. Qed.
Lemma negb_is_paren_reg e : negb (is_paren_reg e) = true -> paren_reg e = None.
Proof. unfold is_paren_reg. destruct (paren_reg e); [discriminate|reflexivity]. Qed.

Lemma cascade_rel e : expr_ok e = true -> cascade e = (FRel e, []).
Proof.
  unfold expr_ok. intros H.
  apply andb_prop in H. destruct H as [H H4]. apply andb_prop in H. destruct H as [H H3].
  apply andb_prop in H. destruct H as [_ H2].
  apply negb_is_reg in H2. apply negb_is_paren_reg in H3.
  casc. rewrite H2. fold (paren_reg e). rewrite H3.
  destruct e as [ | | | | | |[] x|[] x|l r]; try reflexivity; try discriminate.
  - apply negb_is_paren_reg in H4. fold (paren_reg x). rewrite H4. reflexivity.
  - apply negb_is_paren_reg in H4. fold (paren_reg x). rewrite H4. reflexivity.
  - apply negb_is_reg in H4. rewrite H4. destruct l as [ | | | | | |[] y| | ]; reflexivity.
Qed.

Lemma cascade_reldef e : expr_ok_def e = true -> cascade (TPrefix PDef e) = (FRelDef e, []).
Proof.
  unfold expr_ok_def. intros H.
  apply andb_prop in H. destruct H as [H H4]. apply andb_prop in H. destruct H as [H H3].
  apply andb_prop in H. destruct H as [_ H2].
  apply negb_is_reg in H2. apply negb_is_paren_reg in H3.
  casc. simpl. rewrite H2. fold (paren_reg e).
  destruct e as [ | | | |rd y| |[] x|[] x|l r]; try reflexivity; try discriminate.
  - destruct rd; [simpl in H3; simpl; rewrite H3|]; reflexivity.
  - apply negb_is_paren_reg in H4. fold (paren_reg x). rewrite H4. reflexivity.
  - apply negb_is_paren_reg in H4. fold (paren_reg x). rewrite H4. reflexivity.
Qed.

Lemma classify_spell o : wf o -> classify (spell o) = Ok (o, []).
Proof.
  unfold classify, spell. destruct o as [r|r|r|r|r|r|e r|e r|e|e|e|e|n|r]; cbv beta iota delta [spell_with wf]; intros W; try contradiction.
  - (* register *)
    pose proof (try_reg_spell _ _ W) as E.
    destruct r as [n|e]; simpl in *.
    + casc. simpl. rewrite E. reflexivity.
    + rewrite (no_hoist_fix _ W). unfold no_hoist in W. rewrite (no_hoist_fix _ W) in W.
      destruct e; try reflexivity. destruct (is_reg e2); [discriminate|reflexivity].
  - pose proof (try_reg_spell _ _ W) as E. casc. simpl. rewrite E. reflexivity.
  - pose proof (try_reg_spell _ _ W) as E. casc. simpl. rewrite E. reflexivity.
  - pose proof (try_reg_spell _ _ W) as E. casc. simpl. rewrite E. reflexivity.
  - pose proof (try_reg_spell _ _ W) as E. casc. simpl. rewrite E. reflexivity.
  - pose proof (try_reg_spell _ _ W) as E. casc. simpl. rewrite E. reflexivity.
  - destruct W as [W T]. pose proof (try_reg_spell _ _ W) as E.
    rewrite (hoist_attach _ _ (try_reg_is_reg _ _ E)), (cascade_call _ _ _ E).
    destruct e as [ | | | | | |[] y| | ]; try reflexivity; discriminate.
  - pose proof (try_reg_spell _ _ W) as E.
    change (TPrefix PDef (attach e (spell_reg r))) with (attach (TPrefix PDef e) (spell_reg r)).
    rewrite (hoist_attach _ _ (try_reg_is_reg _ _ E)), (cascade_call _ _ _ E). reflexivity.
  - rewrite (hoist_prefix_nh PImm e W). reflexivity.
  - rewrite (hoist_prefix_nh PDef _ (no_hoist_prefix PImm e W)). reflexivity.
  - pose proof W as W'. unfold expr_ok in W'. apply andb_prop in W'. destruct W' as [W' _].
    apply andb_prop in W'. destruct W' as [W' _]. apply andb_prop in W'. destruct W' as [W' _].
    rewrite (no_hoist_fix _ W'). rewrite (cascade_rel _ W). reflexivity.
  - pose proof W as W'. unfold expr_ok_def in W'. apply andb_prop in W'. destruct W' as [W' _].
    apply andb_prop in W'. destruct W' as [W' _]. apply andb_prop in W'. destruct W' as [W' _].
    rewrite (hoist_prefix_nh PDef _ W'). rewrite (cascade_reldef _ W). reflexivity.
Qed.

(* ------------------------------------------------------------------------------------------ *)
(* the expression part is opaque: in each context the mode depends on the context alone and the subtree
   kept for the extension word is the written expression itself, whatever it is, as long as the context
   accepts it (the only things looked at: top constructor, '(reg)' at the bottom of the spine) *)
Lemma classify_plug c e : accepts c e = true ->
  mode_of (classify (plug c e)) = Some (ctx_mode c) /\ kept_of (classify (plug c e)) = Some e.
Proof.
  destruct c as [ | | | |rs|rs]; cbv beta iota delta [plug accepts ctx_mode]; intros A.
  - pose proof (classify_spell (FRel e) A) as E. cbv beta iota delta [spell spell_with] in E. rewrite E. auto.
  - pose proof (classify_spell (FRelDef e) A) as E. cbv beta iota delta [spell spell_with] in E. rewrite E. auto.
  - pose proof (classify_spell (FImm e) A) as E. cbv beta iota delta [spell spell_with] in E. rewrite E. auto.
  - pose proof (classify_spell (FAbs e) A) as E. cbv beta iota delta [spell spell_with] in E. rewrite E. auto.
  - apply andb_prop in A. destruct A as [A T]. unfold classify.
    rewrite (hoist_attach _ _ A). unfold is_reg in A. destruct (try_reg rs) eqn:E; [|discriminate].
    rewrite (cascade_call _ _ _ E). destruct e as [ | | | | | |[] y| | ]; try discriminate; auto.
  - unfold classify. change (TPrefix PDef (attach e rs)) with (attach (TPrefix PDef e) rs).
    rewrite (hoist_attach _ _ A). unfold is_reg in A. destruct (try_reg rs) eqn:E; [|discriminate].
    rewrite (cascade_call _ _ _ E). auto.
Qed.

Lemma classify_opaque c e e' : accepts c e = true -> accepts c e' = true ->
  mode_of (classify (plug c e)) = mode_of (classify (plug c e')).
Proof.
  intros A A'. destruct (classify_plug c e A) as [-> _]. destruct (classify_plug c e' A') as [-> _]. reflexivity.
Qed.

(* in the index contexts nothing of e but (for plain index) its top constructor is looked at: any e at all *)
Lemma classify_index_any e rs r : try_reg rs = Some r -> top_def e = false ->
  classify (attach e rs) = Ok (FIndex e r, []).
Proof.
  intros E T. unfold classify. rewrite (hoist_attach _ _ (try_reg_is_reg _ _ E)), (cascade_call _ _ _ E).
  destruct e as [ | | | | | |[] y| | ]; try discriminate; auto.
Qed.
Lemma classify_indexdef_any e rs r : try_reg rs = Some r ->
  classify (attach (TPrefix PDef e) rs) = Ok (FIndexDef e r, []).
Proof.
  intros E. unfold classify. rewrite (hoist_attach _ _ (try_reg_is_reg _ _ E)), (cascade_call _ _ _ E). reflexivity.
Qed.

(* sufficient syntactic conditions for "is an expression operand" *)
Lemma expr_ok_sym n b : try_reg (TSym n b) = None -> expr_ok (TSym n b) = true.
Proof. intros H. unfold expr_ok, no_hoist, is_reg. rewrite H. reflexivity. Qed.
Lemma expr_ok_num v : expr_ok (TNum v) = true.
Proof. reflexivity. Qed.
Lemma expr_ok_infix op l r : no_hoist r = true -> expr_ok (TInfix op l r) = true.
Proof.
  intros H. unfold expr_ok, no_hoist. simpl. rewrite (no_hoist_fix _ H).
  unfold no_hoist in H. rewrite (no_hoist_fix _ H) in H.
  destruct r; auto. destruct (is_reg r2); [discriminate|reflexivity].
Qed.

(* the written form decides the mode: two readings of one tree agree (classify is a function) and
   a tree that spells a legal form in the canonical way is read as that form only *)
Lemma spell_injective o o' : wf o -> wf o' -> spell o = spell o' -> o = o'.
Proof.
  intros W W' E. pose proof (classify_spell o W) as C. rewrite E, (classify_spell o' W') in C. congruence.
Qed.

(* ------------------------------------------------------------------------------------------ *)
(* FP11 *)
Lemma classify_fp_acc n : 0 <= n <= 5 -> classify_fp (spell (FAcc n)) = Ok (FAcc n, []).
Proof.
  intros H. assert (n = 0 \/ n = 1 \/ n = 2 \/ n = 3 \/ n = 4 \/ n = 5) as D by lia.
  repeat (destruct D as [-> | D]; [reflexivity|]). subst; reflexivity.
Qed.
Lemma classify_fp_other t : try_acc t = None -> try_reg t = None -> classify_fp t = classify t.
Proof. unfold classify_fp. intros -> ->. reflexivity. Qed.
Lemma classify_fp_reg n : 0 <= n <= 7 ->
  classify_fp (spell (FReg (RName n))) =
    if n <? 6 then Ok (FAccReg (RName n), ["implicit-accumulator"]) else Err ["implicit-accumulator"].
Proof.
  intros H. assert (n = 0 \/ n = 1 \/ n = 2 \/ n = 3 \/ n = 4 \/ n = 5 \/ n = 6 \/ n = 7) as D by lia.
  repeat (destruct D as [-> | D]; [reflexivity|]). subst; reflexivity.
Qed.
(* a symbol named acN is the accumulator even when written 'acN:' (is_necessarily_label is not consulted) *)
Lemma classify_fp_acc_label : classify_fp (TSym "AC3" true) = Ok (FAcc 3, []).
Proof. reflexivity. Qed.
