(* C10 lemmas stated on the shared models (requested by the audit):
   1. '.word a, b' = implicit word list, over Model/Directives (the model C06 proves things about)
   3. bracket style is irrelevant to evaluation, over Spec/Arith.eval and Model/ExprParse.meval
      (the evaluators C05 proves things about)
   (2., the agreement of the two models of parser.number(), is in Proofs/SpellingLexAgree.v) *)
From Coq Require Import List ZArith NArith Bool String Ascii Lia.
From Verif Require Import Base.Res Spec.DataSpec Spec.Arith Model.Directives Model.ExprParse Proofs.DirectivesData.
Import ListNotations.
Open Scope Z_scope.
Open Scope list_scope.

(* ------------------------------------------------------------------ 1. word lists *)
Lemma word_list_same_directives enc vs addr : vs <> [] ->
  emit enc (DWordList vs) addr = emit enc (DMeta ".word" (plain vs)) addr /\
  announced (DWordList vs) = announced (DMeta ".word" (plain vs)).
Proof.
  intros Hne. split.
  - change ".word"%string with (vname W16).
    destruct (forallb (fits W16) vs) eqn:F.
    + assert (M : addr mod 2 = 0 \/ addr mod 2 = 1) by (pose proof (Z.mod_pos_bound addr 2); lia).
      destruct M as [M|M].
      * rewrite (words_ok enc vs addr F M), (data_ok enc W16 vs addr Hne F (or_intror M)). reflexivity.
      * rewrite (words_odd enc vs addr F M), (data_odd enc W16 vs addr Hne F ltac:(discriminate) M). reflexivity.
    + rewrite (words_out_of_range enc vs addr F), (data_out_of_range enc W16 vs addr F). reflexivity.
  - unfold announced. cbn. rewrite plain_length. destruct vs as [|v r]; [contradiction|].
    cbn [length]. reflexivity.
Qed.

(* ------------------------------------------------------------------ 3. grouping *)
(* re-style every bracket of a Spec expression / of the parser's tree *)
Fixpoint regroup_e (f : bracket -> bracket) (e : expr) : expr :=
  match e with
  | Un u x => Un u (regroup_e f x)
  | Bin o l r => Bin o (regroup_e f l) (regroup_e f r)
  | Group b x => Group (f b) (regroup_e f x)
  | _ => e
  end.

Fixpoint ungroup_e (e : expr) : expr :=
  match e with
  | Un u x => Un u (ungroup_e x)
  | Bin o l r => Bin o (ungroup_e l) (ungroup_e r)
  | Group _ x => ungroup_e x
  | _ => e
  end.

Fixpoint regroup_p (f : string -> string) (t : ptree) : ptree :=
  match t with
  | PInfix c l r => PInfix c (regroup_p f l) (regroup_p f r)
  | PPrefix c x => PPrefix c (regroup_p f x)
  | PPostfix c x => PPostfix c (regroup_p f x)
  | PCall g x => PCall (regroup_p f g) (regroup_p f x)
  | PParen o e => PParen (f o) (regroup_p f e)
  | _ => t
  end.

Lemma eval_regroup_spec enc sym dot f e : eval enc sym dot (regroup_e f e) = eval enc sym dot e.
Proof. induction e; cbn [regroup_e eval]; rewrite ?IHe, ?IHe1, ?IHe2; reflexivity. Qed.

Lemma eval_ungroup_spec enc sym dot e : eval enc sym dot (ungroup_e e) = eval enc sym dot e.
Proof. induction e; cbn [ungroup_e eval]; rewrite ?IHe, ?IHe1, ?IHe2; reflexivity. Qed.

Lemma meval_regroup encode sym dot f t : meval encode sym dot (regroup_p f t) = meval encode sym dot t.
Proof. induction t; cbn [regroup_p meval]; rewrite ?IHt, ?IHt1, ?IHt2; reflexivity. Qed.

Lemma grouping_shared :
  (forall enc sym dot f e, eval enc sym dot (regroup_e f e) = eval enc sym dot e) /\
  (forall enc sym dot e, eval enc sym dot (ungroup_e e) = eval enc sym dot e) /\
  (forall encode sym dot f t, meval encode sym dot (regroup_p f t) = meval encode sym dot t).
Proof. exact (conj eval_regroup_spec (conj eval_ungroup_spec meval_regroup)). Qed.
