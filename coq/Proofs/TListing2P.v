(* Proofs/TListing2P.v -- Gen/GenPure3Listing.v (the whole of Compiler.generate_listing, regenerated from the source on
   every run by tools/gens/gen_pure3.py) is EQUAL to the hand model Model/ListingM.v generate_listing (C19). *)
From Coq Require Import String Ascii List ZArith NArith Bool Lia DecimalString Decimal DecimalN.
From Verif Require Import Base.Res Gen.GenPure Gen.GenPure3 Gen.GenPure3Listing Model.ListingM Proofs.ListingP Proofs.GenPureListingP.
Import ListNotations.
Open Scope list_scope.
Open Scope Z_scope.

(* internal_prefix_to_state as the generated code reads it: int keys *)
Definition conv_pm (pm : list (N * string)) : list (Z * string) := map (fun p => (Z.of_N (fst p), snd p)) pm.

(* ---- the prelude's str operations are the model's *)
Lemma drop3_is_model n : forall s, drop3 n s = drop n s.
Proof. induction n as [|n IH]; intros [|c s]; cbn; auto. Qed.

Lemma py3_drop_is_model s n : py3_drop s (Z.of_nat n) = drop n s.
Proof. unfold py3_drop. rewrite Nat2Z.id. apply drop3_is_model. Qed.

Lemma partition_is_model c s : py3_partition s c = partition_char c s.
Proof.
  induction s as [|a r IH]; [reflexivity|]. cbn [py3_partition partition_char].
  destruct (Ascii.eqb a c); [reflexivity|]. rewrite IH. reflexivity.
Qed.

Lemma py3_int_is_model s site :
  py3_int s site = match py_int s with Some k => Ok (Z.of_N k) | None => Crash site end.
Proof.
  unfold py3_int, py_int. destruct s as [|c s]; [reflexivity|].
  destruct (NilEmpty.uint_of_string (String c s)); reflexivity.
Qed.

Lemma lookup_is_model site k pm :
  py3_lookup (conv_pm pm) (Z.of_N k) site = match lookup k pm with Some f => Ok f | None => Crash site end.
Proof.
  induction pm as [|[k' f] r IH]; [reflexivity|]. cbn [conv_pm map py3_lookup lookup fst snd].
  replace (Z.of_N k' =? Z.of_N k) with (k' =? k)%N.
  - destruct (k' =? k)%N; [reflexivity|]. exact IH.
  - destruct (N.eqb_spec k' k) as [E|E]; [subst; symmetry; apply Z.eqb_refl|].
    symmetry. apply Z.eqb_neq. intros C. apply E. apply N2Z.inj. exact C.
Qed.

Lemma dd_append_is_model f it gs : py3_dd_append gs f it = add_group f it gs.
Proof.
  induction gs as [|[g l] r IH]; [reflexivity|]. cbn [py3_dd_append add_group].
  destruct (String.eqb g f); [reflexivity|]. rewrite IH. reflexivity.
Qed.

Lemma str_ltb_is_model s : forall t, py3_str_ltb s t = str_ltb s t.
Proof.
  induction s as [|a s IH]; intros [|b t]; try reflexivity; cbn [py3_str_ltb str_ltb]; rewrite IH; reflexivity.
Qed.

(* the key translated from `lambda item: (item[1], item[0])` under Python's tuple "<" is the model's key_ltb *)
Definition listing_key (it : string * Z) : Z * string := (snd it, fst it).
Definition listing_lt : Z * string -> Z * string -> bool := py3_pair_ltb Z.ltb Z.eqb py3_str_ltb.

Lemma key_lt_is_model a b : listing_lt (listing_key a) (listing_key b) = key_ltb a b.
Proof. unfold listing_lt, listing_key, py3_pair_ltb, key_ltb. cbn [fst snd]. rewrite str_ltb_is_model. reflexivity. Qed.

Lemma insert_is_model x l : py3_insert listing_lt listing_key x l = insert x l.
Proof.
  induction l as [|y r IH]; [reflexivity|]. cbn [py3_insert insert]. rewrite key_lt_is_model.
  destruct (key_ltb y x); [rewrite IH|]; reflexivity.
Qed.

Lemma sort_is_model l : py3_sort listing_lt listing_key l = sort l.
Proof. induction l as [|x r IH]; [reflexivity|]. cbn [py3_sort sort]. rewrite IH. apply insert_is_model. Qed.

Lemma string_of_codes s : string_of_list_ascii (map ascii_of_N (codes s)) = s.
Proof.
  unfold codes. induction s as [|c s IH]; [reflexivity|]. cbn. rewrite ascii_N_embedding. f_equal. exact IH.
Qed.

Lemma py3_oct_is_model z : 0 <= z -> py3_oct z = ListingM.py_oct z.
Proof. intros H. unfold py3_oct. rewrite (py_oct_is_model z H). apply string_of_codes. Qed.

Lemma repeat3_is_model c n : repeat3 c n = repeat_char c n.
Proof. induction n as [|n IH]; cbn; congruence. Qed.

Lemma rjust_is_model s w c : py3_rjust s (Z.of_nat w) c = rjust w c s.
Proof. unfold py3_rjust, rjust. rewrite repeat3_is_model. f_equal. f_equal. lia. Qed.

(* the value column, as translated: ("-" if value < 0 else "") + oct(abs(value))[2:].rjust(6, "0") *)
Lemma value_column_is_model v :
  ((if Z.ltb v 0 then "-" else "") ++ py3_rjust (py3_drop (py3_oct (Z.abs v)) 2) 6 "0"%char)%string = fmt_value v.
Proof.
  unfold fmt_value. rewrite (py3_oct_is_model (Z.abs v) (Z.abs_nonneg v)).
  change 2 with (Z.of_nat 2). rewrite py3_drop_is_model. change 6 with (Z.of_nat 6). rewrite rjust_is_model. reflexivity.
Qed.

(* ---- loop by loop *)
(* the grouping loop over self.symbols.items() *)
Lemma for1_is_collect pm : forall tbl gs,
  g_generate_listing_for1 (conv_pm pm) gs tbl = collect tbl pm gs.
Proof.
  induction tbl as [|[name v] rest IH]; intros gs; [reflexivity|].
  cbn [g_generate_listing_for1 collect]. unfold py3_startswith, startswith.
  destruct (String.prefix ".internal" name); [|apply IH].
  change 9 with (Z.of_nat 9). rewrite py3_drop_is_model, partition_is_model.
  unfold py3_part0, py3_part2. rewrite py3_int_is_model.
  destruct (py_int (fst (fst (partition_char "." (drop 9 name))))) as [k|]; [|reflexivity].
  cbn [bind]. rewrite lookup_is_model. destruct (lookup k pm) as [f|]; [|reflexivity].
  cbn [bind]. rewrite dd_append_is_model. apply IH.
Qed.

(* the line-formatting loop of one file *)
Lemma for3_is_emit_lines : forall labels result,
  g_generate_listing_for3 result labels = Ok (emit_lines result labels).
Proof.
  induction labels as [|[name v] rest IH]; intros result; [reflexivity|].
  cbn [g_generate_listing_for3]. rewrite IH. unfold emit_lines. cbn [fold_left fst snd].
  rewrite value_column_is_model. do 2 f_equal. f_equal.
  change (String (ascii_of_N 10) "") with nlc. rewrite !app_assoc_s. reflexivity.
Qed.

(* the loop over the files: header line, sort, lines, blank line *)
Lemma for2_is_emit : forall gs result,
  g_generate_listing_for2 result gs =
  Ok (fold_left (fun res g => emit_lines (res ++ (fst g ++ nlc)) (sort (snd g)) ++ nlc)%string gs result).
Proof.
  induction gs as [|[f labels] rest IH]; intros result; [reflexivity|].
  cbn [g_generate_listing_for2 fold_left fst snd].
  change (py3_sort (py3_pair_ltb Z.ltb Z.eqb py3_str_ltb) (fun v_item : string * Z => (snd v_item, fst v_item)) labels)
    with (py3_sort listing_lt listing_key labels).
  rewrite sort_is_model, for3_is_emit_lines. cbn [bind]. apply IH.
Qed.

Lemma after_collect (c : res groups) :
  (do v_labels_by_file <- c; let v_result := ""%string in do v_result <- g_generate_listing_for2 v_result v_labels_by_file; Ok v_result)
  = match c with Ok gs => Ok (emit gs) | Err e => Err e | Crash s => Crash s | OutOfFuel => OutOfFuel end.
Proof.
  destruct c as [gs| | |]; try reflexivity. cbn [bind]. cbv zeta. rewrite for2_is_emit. reflexivity.
Qed.

Lemma generate_listing_is_model tbl pm : g_generate_listing tbl (conv_pm pm) = ListingM.generate_listing tbl pm.
Proof.
  unfold g_generate_listing, ListingM.generate_listing. cbv zeta. rewrite for1_is_collect. apply after_collect.
Qed.

(* the sort emitted for `labels.sort(key=lambda item: (item[1], item[0]))` is the model's sort *)
Lemma translated_sort_is_model l :
  py3_sort (py3_pair_ltb Z.ltb Z.eqb py3_str_ltb) (fun it : string * Z => (snd it, fst it)) l = sort l.
Proof. exact (sort_is_model l). Qed.

(* ---- uniqueness: the key (value, name) is a total order on the items themselves (two items with equal keys are equal),
   so ANY list that is a permutation of the input and sorted in the Spec's order line_le is the model's sort -- whatever
   the sorting algorithm, stable or not.  Treating Python's list.sort as py3_sort therefore assumes of it only that its
   result is a sorted permutation. *)
From Coq Require Import Sorting.Sorted Sorting.Permutation.
From Verif Require Import Spec.Listing.

Lemma str_le_trans : forall s t, str_le s t -> forall u, str_le t u -> str_le s u.
Proof.
  induction 1 as [t|a b s t Hab|a s t Hst IH]; intros u Hu.
  - constructor.
  - inversion Hu; subst; apply str_le_lt; lia.
  - inversion Hu; subst; [apply str_le_lt; assumption | apply str_le_eq; apply IH; assumption].
Qed.

Lemma str_le_antisym : forall s t, str_le s t -> str_le t s -> s = t.
Proof.
  induction 1 as [t|a b s t Hab|a s t Hst IH]; intros Hu.
  - inversion Hu. reflexivity.
  - inversion Hu; subst; lia.
  - inversion Hu; subst; [lia | f_equal; apply IH; assumption].
Qed.

Lemma line_le_trans a b c : line_le a b -> line_le b c -> line_le a c.
Proof.
  unfold line_le. intros [H|[H1 H2]] [K|[K1 K2]]; [left; lia|left; lia|left; lia|].
  right. split; [lia | eapply str_le_trans; eauto].
Qed.

Lemma line_le_antisym a b : line_le a b -> line_le b a -> a = b.
Proof.
  unfold line_le. destruct a as [v s], b as [w t]; cbn [fst snd]. intros [H|[H1 H2]] [K|[K1 K2]]; try lia.
  f_equal; [assumption | apply str_le_antisym; assumption].
Qed.

Lemma sorted_perm_unique {A} (R : A -> A -> Prop) (Hanti : forall a b, R a b -> R b a -> a = b) :
  forall l1 l2, StronglySorted R l1 -> StronglySorted R l2 -> Permutation l1 l2 -> l1 = l2.
Proof.
  induction l1 as [|a r1 IH]; intros l2 S1 S2 P.
  - apply Permutation_nil in P. symmetry; exact P.
  - destruct l2 as [|b r2]. { apply Permutation_sym, Permutation_nil in P. discriminate. }
    inversion S1 as [|? ? S1' F1]; subst. inversion S2 as [|? ? S2' F2]; subst.
    assert (E : a = b).
    { assert (Ia : In a (b :: r2)) by (eapply Permutation_in; [exact P | left; reflexivity]).
      assert (Ib : In b (a :: r1)) by (eapply Permutation_in; [apply Permutation_sym; exact P | left; reflexivity]).
      destruct Ia as [Ia|Ia]; [congruence|]. destruct Ib as [Ib|Ib]; [congruence|].
      rewrite Forall_forall in F1, F2. apply Hanti; [apply F1; exact Ib | apply F2; exact Ia]. }
    subst b. f_equal. apply IH; try assumption. eapply Permutation_cons_inv. exact P.
Qed.

Lemma map_swap_inj : forall l1 l2 : list item, map swap l1 = map swap l2 -> l1 = l2.
Proof.
  induction l1 as [|[n v] r IH]; intros [|[n' v'] r']; cbn; intros H; try discriminate; [reflexivity|].
  injection H as H1 H2 H3. subst. f_equal. apply IH. exact H3.
Qed.

Lemma sort_unique l l' : Permutation l' l -> Sorted line_le (map swap l') -> l' = ListingM.sort l.
Proof.
  intros P S. apply map_swap_inj. apply (sorted_perm_unique line_le line_le_antisym).
  - apply Sorted_StronglySorted; [intros a b c; apply line_le_trans | exact S].
  - apply Sorted_StronglySorted; [intros a b c; apply line_le_trans | apply sort_lines_sorted].
  - apply Permutation_map. eapply Permutation_trans; [exact P | apply Permutation_sym, sort_perm].
Qed.
