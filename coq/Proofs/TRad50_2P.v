(* Proofs/TRad50_2P.v -- the body of '.rad50' translated from pdpy11/metacommands.py (Gen/GenPure4Rad50.v) equals the
   hand model Model/Rad50.v rad50 over the generated TABLE. *)
From Coq Require Import String Ascii List ZArith NArith Bool Lia.
From Verif Require Import Base.Res Base.Bytes Gen.GenPure Gen.GenRadix50 Gen.GenPureRad50 Gen.GenPure4 Gen.GenPure4Rad50 Model.Rad50.
From Verif Require Gen.GenGetAsInt.
Import ListNotations.
Open Scope list_scope.
Open Scope Z_scope.
Ltac Zify.zify_post_hook ::= Z.to_euclidean_division_equations.

Definition to_chunk4 (c : chunk) : chunk4 := match c with Str s => Quoted4 s | Code n => Angle4 n end.
Definition is_error (p : string * string) : bool := String.eqb (fst p) "error".
(* reports in order -> the model's outcome: the bytes if no error was reported, else the error identifiers; an
   exception stays what it is *)
Definition as_res4 (r : res (list (string * string) * list Z)) : res (list Z) :=
  match r with
  | Ok (rs, bs) => match map snd (filter is_error rs) with [] => Ok bs | es => Err es end
  | Err e => Err e
  | Crash s => Crash s
  | OutOfFuel => OutOfFuel
  end.
Definition E (ids : list string) : list (string * string) := map (fun id => ("error"%string, id)) ids.

Lemma E_app a b : E (a ++ b) = E a ++ E b.
Proof. apply map_app. Qed.
Lemma errors_of_E ids : map snd (filter is_error (E ids)) = ids.
Proof.
  induction ids as [|i r IH]; [reflexivity|].
  change (E (i :: r)) with (("error"%string, i) :: E r). cbn [filter].
  change (is_error ("error"%string, i)) with true. cbn [map snd]. now rewrite IH.
Qed.

Lemma table_same : GenPureRad50.TABLE = rad50_table.
Proof. reflexivity. Qed.
Lemma index_same t : forall i c, first_index_from i t c = index_from i t c.
Proof. induction t as [|x r IH]; intros; cbn; [reflexivity|]. now rewrite IH. Qed.

Definition char_errs (s : list N) : list string :=
  flat_map (fun p : Z * bool => err_if (snd p) "invalid-character") (map (char_code rad50_table) s).

Lemma char_step ch :
  py4_try (if negb (py4_isascii ch) then Crash "ValueError" else py_index1 GenPureRad50.TABLE (py4_upper_ascii ch) "ValueError: TABLE.index")
  = (if snd (char_code rad50_table ch) then None else Some (fst (char_code rad50_table ch)))
  /\ (snd (char_code rad50_table ch) = true -> fst (char_code rad50_table ch) = 0).
Proof.
  unfold char_code, py4_isascii, py_index1, index_of. rewrite table_same, index_same.
  change (py4_upper_ascii ch) with (ascii_up ch).
  destruct (N.leb_spec 128 ch) as [H|H]; [destruct (N.ltb_spec ch 128); [lia|]|destruct (N.ltb_spec ch 128); [|lia]]; cbn [negb py4_try fst snd].
  - split; reflexivity.
  - destruct (index_from 0 rad50_table (ascii_up ch)) as [i|]; cbn [py4_try fst snd]; split; try reflexivity. discriminate.
Qed.

Lemma for_char_eq s : forall rs ks,
  g_rad50_for_char rs ks s = Ok (rs ++ E (char_errs s), ks ++ map fst (map (char_code rad50_table) s)).
Proof.
  induction s as [|ch r IH]; intros rs ks.
  - cbn. unfold char_errs, E. cbn. now rewrite !app_nil_r.
  - cbn [g_rad50_for_char]. destruct (char_step ch) as [-> H0].
    unfold char_errs. cbn [map flat_map]. fold (char_errs r).
    destruct (char_code rad50_table ch) as [k e]. cbn [fst snd] in *.
    destruct e; [rewrite H0 by reflexivity|]; rewrite IH; cbn [err_if]; rewrite ?E_app; cbn [E map app]; rewrite <- !app_assoc; reflexivity.
Qed.

Lemma for_chunk_eq cs : forall rs ks,
  g_rad50_for_chunk rs ks (map to_chunk4 cs)
  = Ok (rs ++ E (snd (chunk_codes rad50_table cs)), ks ++ fst (chunk_codes rad50_table cs)).
Proof.
  induction cs as [|c r IH]; intros rs ks.
  - cbn. now rewrite !app_nil_r.
  - destruct c as [s|n]; cbn [map to_chunk4 g_rad50_for_chunk chunk_codes].
    + rewrite for_char_eq. cbn [bind]. rewrite IH. destruct (chunk_codes rad50_table r) as [ks' es']. cbn [fst snd].
      rewrite E_app. fold (char_errs s). now rewrite <- !app_assoc.
    + unfold GenGetAsInt.get_as_int_raw, angle_code. cbn [andb].
      destruct (n <? 0) eqn:Hn.
      * cbn. rewrite IH. destruct (chunk_codes rad50_table r) as [ks' es']. cbn. now rewrite <- !app_assoc.
      * cbn [bind]. rewrite Z.geb_leb. destruct (40 <=? n); rewrite IH; destruct (chunk_codes rad50_table r) as [ks' es']; cbn; now rewrite <- ?app_assoc.
Qed.

Definition fits (n : Z) (p : list Z) : Prop :=
  (n mod 3 = 0 /\ p = []) \/ (n mod 3 = 1 /\ p = [0; 0]) \/ (n mod 3 = 2 /\ p = [0]).

Lemma pad_eq l : exists p, py4_while_pad l 3 0 = Ok (l ++ p) /\ fits (Z.of_nat (length l)) p.
Proof.
  unfold py4_while_pad, fits. change (Z.to_nat 3) with 3%nat. cbn [py4_pad_fuel].
  rewrite !app_length. cbn [length].
  destruct (Z.eqb_spec (Z.of_nat (length l) mod 3) 0) as [H0|H0]; cbn [negb].
  { exists []. rewrite app_nil_r. split; [reflexivity|]. left. auto. }
  destruct (Z.eqb_spec (Z.of_nat (length l + 1) mod 3) 0) as [H1|H1]; cbn [negb].
  { exists [0]. split; [reflexivity|]. right. right. split; [lia|reflexivity]. }
  destruct (Z.eqb_spec (Z.of_nat (length l + 1 + 1) mod 3) 0) as [H2|H2]; cbn [negb].
  { exists [0; 0]. rewrite <- !app_assoc. split; [reflexivity|]. right. left. split; [lia|reflexivity]. }
  exfalso. lia.
Qed.

Lemma three_step (P : list Z -> Prop) :
  P [] -> (forall a, P [a]) -> (forall a b, P [a; b]) -> (forall a b c l, P l -> P (a :: b :: c :: l)) -> forall l, P l.
Proof.
  intros H0 H1 H2 H3. fix F 1. intros [|a [|b [|c l]]]; [exact H0|exact (H1 a)|exact (H2 a b)|exact (H3 a b c l (F l))].
Qed.

Lemma groups_eq : forall ks p acc, fits (Z.of_nat (length ks)) p ->
  g_rad50_for_group acc (py4_groups 3 (ks ++ p)) = (do r <- pack_words ks; Ok (acc ++ r)).
Proof.
  intros ks. pattern ks. apply three_step; clear ks.
  - intros p acc [[_ ->]|[[H _]|[H _]]]; try (cbn in H; discriminate). change (py4_groups 3 ([] ++ [])) with (@nil (list Z)). cbn. now rewrite app_nil_r.
  - intros a p acc [[H _]|[[_ ->]|[H _]]]; try (cbn in H; discriminate).
    change (py4_groups 3 ([a] ++ [0; 0])) with [[a; 0; 0]]. cbn [g_rad50_for_group pack_words].
    destruct (pack_H _); reflexivity.
  - intros a b p acc [[H _]|[[H _]|[_ ->]]]; try (cbn in H; discriminate).
    change (py4_groups 3 ([a; b] ++ [0])) with [[a; b; 0]]. cbn [g_rad50_for_group pack_words].
    destruct (pack_H _); reflexivity.
  - intros a b c l IH p acc Hf.
    assert (Hf' : fits (Z.of_nat (length l)) p).
    { unfold fits in *. cbn [length] in Hf. rewrite !Nat2Z.inj_succ in Hf.
      replace (Z.succ (Z.succ (Z.succ (Z.of_nat (length l)))) mod 3) with (Z.of_nat (length l) mod 3) in Hf; [exact Hf|].
      replace (Z.succ (Z.succ (Z.succ (Z.of_nat (length l))))) with (Z.of_nat (length l) + 1 * 3) by lia.
      now rewrite Z_mod_plus_full. }
    change (py4_groups 3 ((a :: b :: c :: l) ++ p)) with ([a; b; c] :: py4_groups 3 (l ++ p)).
    cbn [g_rad50_for_group pack_words].
    destruct (pack_H (a * 1600 + b * 40 + c)) as [w| | |]; cbn [bind]; try reflexivity.
    rewrite (IH p (acc ++ w) Hf'). destruct (pack_words l); cbn [bind]; try reflexivity. now rewrite app_assoc.
Qed.

Lemma rad50_body_is_model cs : as_res4 (g_rad50_body (map to_chunk4 cs)) = rad50 rad50_table cs.
Proof.
  unfold g_rad50_body, rad50. cbv zeta. rewrite for_chunk_eq. cbn [bind app].
  destruct (chunk_codes rad50_table cs) as [ks es]. cbn [fst snd].
  destruct (pad_eq ks) as [p [-> Hf]]. cbn [bind]. rewrite (groups_eq ks p [] Hf).
  destruct (pack_words ks) as [bs| | |]; cbn [bind app as_res4]; try reflexivity.
  rewrite errors_of_E. destruct es; reflexivity.
Qed.
