(* Proofs/ClassifyEmbedP.v -- Model/TreeCache.v and Model/Classify.v agree through [forget]. *)
From Coq Require Import ZArith List String Ascii Bool Lia.
From Verif Require Import Base.Res.
From Verif Require Import Model.ClassifyEmbed.
Import ListNotations.
Open Scope string_scope.
Open Scope list_scope.
Open Scope Z_scope.

Ltac split_eqb H :=
  repeat match type of H with
  | context[String.eqb ?op ?s] =>
      let E := fresh "E" in destruct (String.eqb op s) eqn:E;
      [apply String.eqb_eq in E; try subst op|]
  end.

(* simplify [H : forget (Ctor ..) = Some x] *)
Ltac inv_forget H :=
  simpl in H; unfold obind, omap, omap2 in H;
  repeat match type of H with
  | context[match ?x with _ => _ end] => let E := fresh "F" in destruct x eqn:E; try discriminate H
  end;
  inversion H; subst; clear H.

Lemma prefix_pct : forall op o, prefix_of op = Some o -> String.eqb op "%" = match o with C.PPct => true | _ => false end.
Proof.
  intros op o H. unfold prefix_of in H. split_eqb H; inversion H; subst; try reflexivity.
  all: try assumption.
Qed.

Lemma prefix_def : forall op o, prefix_of op = Some o -> String.eqb op "@" = match o with C.PDef => true | _ => false end.
Proof.
  intros op o H. unfold prefix_of in H. split_eqb H; inversion H; subst; try reflexivity.
  all: try assumption.
Qed.
Lemma prefix_neg : forall op o, prefix_of op = Some o -> String.eqb op "-" = match o with C.PNeg => true | _ => false end.
Proof.
  intros op o H. unfold prefix_of in H. split_eqb H; inversion H; subst; try reflexivity.
  all: try assumption.
Qed.
Lemma prefix_imm : forall op o, prefix_of op = Some o -> String.eqb op "#" = match o with C.PImm => true | _ => false end.
Proof.
  intros op o H. unfold prefix_of in H. split_eqb H; inversion H; subst; try reflexivity.
  all: try assumption.
Qed.
Lemma postfix_add : forall op o, postfix_of op = Some o -> String.eqb op "+" = match o with C.QAdd => true | _ => false end.
Proof.
  intros op o H. unfold postfix_of in H. split_eqb H; inversion H; subst; try reflexivity.
  all: try assumption.
Qed.

Lemma reg_names_same : forall n, T.reg_of_name n = C.reg_of_name n.
Proof. reflexivity. Qed.

Lemma is_regish_forget : forall t t', forget t = Some t' -> T.is_regish t = C.is_reg t'.
Proof.
  intros t t' H. destruct t; inv_forget H; try reflexivity.
  - apply String.eqb_eq in F. unfold T.is_regish, C.is_reg. simpl. rewrite F.
    destruct nec_label; simpl; try reflexivity.
    rewrite reg_names_same. destruct (C.reg_of_name name); reflexivity.
  - unfold T.is_regish, C.is_reg. simpl. rewrite (prefix_pct _ _ F). destruct p; reflexivity.
Qed.

Ltac fin :=
  simpl; unfold obind, omap, omap2;
  repeat match goal with E : ?x = _ |- context[match ?x with _ => _ end] => rewrite E end;
  reflexivity.

Lemma hoist_agrees : forall t t', forget t = Some t' -> forget (T.hoist t) = Some (C.hoist t').
Proof.
  induction t as [ | | | | b e IHe | op l IHl r IHr c | op e IHe c | op e IHe c | l IHl r IHr c]; intros t' H;
    try solve [ assert (H' := H); inv_forget H'; cbn [T.hoist C.hoist]; exact H ].
  - (* Infix *)
    inv_forget H. specialize (IHr _ eq_refl). cbn [T.hoist C.hoist].
    destruct (T.hoist r) eqn:Hh; inv_forget IHr; try solve [fin].
    match goal with E : forget ?x = Some ?y |- context[T.is_regish ?x] => rewrite (is_regish_forget _ _ E); destruct (C.is_reg y) end; fin.
  - (* Prefix *)
    inv_forget H. specialize (IHe _ eq_refl). cbn [T.hoist C.hoist].
    destruct (T.hoist e) eqn:Hh; inv_forget IHe; try solve [fin].
    match goal with E : forget ?x = Some ?y |- context[T.is_regish ?x] => rewrite (is_regish_forget _ _ E); destruct (C.is_reg y) end; fin.
Qed.

(* ------------------------------------------------------------------------------------------ *)
(* classification *)

Lemma has_percent_is : forall t, T.has_percent t = false -> T.is_percent t = false.
Proof. destruct t; simpl; intro H; try reflexivity. apply orb_false_iff in H. tauto. Qed.

Lemma regp_forget : forall t t', forget t = Some t' -> T.is_percent t = false ->
  C.try_reg t' = omap C.RName (T.regp t).
Proof.
  intros t t' H P. destruct t; inv_forget H; try reflexivity.
  - apply String.eqb_eq in F. simpl. rewrite F. destruct nec_label; simpl; reflexivity.
  - simpl in P. rewrite (prefix_pct _ _ F) in P. destruct p; try discriminate; reflexivity.
Qed.

Lemma paren_reg_forget : forall t t', forget t = Some t' -> T.has_percent t = false ->
  C.paren_reg t' = omap C.RName (T.paren_reg t).
Proof.
  intros t t' H P. destruct t; inv_forget H; try reflexivity.
  simpl in *. destruct (String.eqb br "("); try reflexivity.
  apply regp_forget; auto using has_percent_is.
Qed.

Lemma reg_lor : forall n r m, T.reg_of_name n = Some r -> In m [0;8;16;24;32;40;48;56] -> Z.lor m r = m + r.
Proof.
  intros n r m H I. unfold T.reg_of_name in H.
  repeat match type of H with context[if ?b then _ else _] => destruct b end; try discriminate;
  inversion H; subst; simpl in I; repeat (destruct I as [I|I]; [subst; reflexivity|]); destruct I.
Qed.

Lemma regp_name : forall t r, T.regp t = Some r -> exists n, T.reg_of_name n = Some r.
Proof. destruct t; simpl; try discriminate. destruct nec_label; try discriminate. eauto. Qed.
Lemma paren_reg_name : forall t r, T.paren_reg t = Some r -> exists n, T.reg_of_name n = Some r.
Proof. destruct t; simpl; try discriminate. destruct (String.eqb br "("); try discriminate. apply regp_name. Qed.

Lemma has_percent_hoist : forall t, T.has_percent (T.hoist t) = T.has_percent t.
Proof.
  induction t as [ | | | | b e IHe | op l IHl r IHr c | op e IHe c | op e IHe c | l IHl r IHr c]; try reflexivity.
  - cbn [T.hoist]. simpl T.has_percent at 2. rewrite <- IHr.
    destruct (T.hoist r); try reflexivity. destruct (T.is_regish t2); simpl; try reflexivity.
    rewrite orb_assoc. reflexivity.
  - cbn [T.hoist]. simpl T.has_percent at 2. rewrite <- IHe.
    destruct (T.hoist e); try reflexivity. destruct (T.is_regish t2); simpl; try reflexivity.
    rewrite orb_assoc. reflexivity.
Qed.

(* hoist either leaves the tree alone or builds a fresh call over a register *)
Lemma hoist_shape : forall t,
  T.hoist t = t \/ exists off reg, T.hoist t = T.Call off reg None /\ T.is_regish reg = true.
Proof.
  induction t as [ | | | | b e IHe | op l IHl r IHr c | op e IHe c | op e IHe c | l IHl r IHr c]; try (left; reflexivity).
  - cbn [T.hoist]. destruct IHr as [E | (off & reg & E & R)]; rewrite E.
    + destruct r; try (left; reflexivity). destruct (T.is_regish r2) eqn:R; [right; eauto | left; reflexivity].
    + rewrite R. right; eauto.
  - cbn [T.hoist]. destruct IHe as [E | (off & reg & E & R)]; rewrite E.
    + destruct e; try (left; reflexivity). destruct (T.is_regish e2) eqn:R; [right; eauto | left; reflexivity].
    + rewrite R. right; eauto.
Qed.

Definition plain_view (t : T.tree) : view :=
  let '(mode, kind, path) := T.plain_plan t in
  match kind with
  | T.ENone => Some (mode, T.ENone, None)
  | T.EZero => Some (mode, T.EZero, Some (C.TNum 0))
  | k => omap (fun e => (mode, k, Some e)) (forget (T.get path t))
  end.

Ltac cb := cbn -[Z.add Z.lor].

Ltac pct_side :=
  simpl in *;
  repeat match goal with P : _ || _ = false |- _ => apply orb_false_iff in P; destruct P end;
  try assumption.

Ltac use_regs :=
  repeat match goal with
  | E : forget ?x = Some ?y |- context[C.paren_reg ?y] =>
      rewrite (paren_reg_forget x y E) by pct_side
  | E : forget ?x = Some ?y |- context[C.try_reg ?y] =>
      rewrite (regp_forget x y E) by (apply has_percent_is; pct_side)
  end.

Ltac rw_forget :=
  unfold obind, omap, omap2;
  repeat match goal with E : ?x = _ |- context[match ?x with _ => _ end] => rewrite E end.

Ltac dreg :=
  match goal with
  | |- context[T.regp ?x] => destruct (T.regp x) eqn:?
  | |- context[T.paren_reg ?x] => destruct (T.paren_reg x) eqn:?
  end.

Ltac fin_reg :=
  let RN := fresh "RN" in
  match goal with
  | E : T.regp _ = Some ?r |- _ => destruct (regp_name _ _ E) as [? RN]
  | E : T.paren_reg _ = Some ?r |- _ => destruct (paren_reg_name _ _ E) as [? RN]
  end;
  unfold cl_view, C.field_of; cb;
  rewrite (reg_lor _ _ _ RN) by (simpl; auto 12); reflexivity.

Ltac deqb :=
  match goal with
  | |- context[String.eqb ?b "("] => destruct (String.eqb b "(") eqn:?
  end.
Ltac rw_eqb := repeat match goal with E : String.eqb ?b "(" = _ |- context[String.eqb ?b "("] => rewrite E end.
Ltac unf := unfold C.branches, C.b_reg, C.b_regdef, C.b_legacy, C.b_autoinc, C.b_autoincdef, C.b_autodec,
  C.b_autodecdef, C.b_indexdef, C.b_index, C.b_implicit, C.b_imm, C.b_abs, C.b_reldef, C.with_reg.
Ltac go := unf; cb; rw_eqb; use_regs; repeat (first [dreg | deqb]; cb; rw_eqb; use_regs); rw_forget; try reflexivity; try fin_reg.

(* top constructor Num / Chr / Sym / Dot / Paren *)
Definition simple_top (t : T.tree) : bool :=
  match t with
  | T.Num _ _ _ _ _ | T.Chr _ _ | T.Sym _ _ | T.Dot | T.Paren _ _ => true
  | _ => false
  end.

Lemma classify_agrees_partial : forall t t', forget t = Some t' -> T.has_percent t = false ->
  simple_top t = true -> tc_view t = cl_view_res (C.classify t').
Proof.
  intros t t' H P S.
  destruct t; try discriminate S; inv_forget H;
    unfold cl_view_res, C.classify; cbn [C.hoist];
    change (tc_view ?x) with (plain_view x); unfold plain_view, T.plain_plan, C.cascade.
  - go.
  - go.
  - assert (F' := F). apply String.eqb_eq in F'. destruct nec_label.
    + cbn. rw_forget. reflexivity.
    + cbn. unfold C.b_reg, C.with_reg, C.try_reg. rewrite F'. change (C.reg_of_name name) with (T.reg_of_name name).
      cbn [T.regp]. destruct (T.reg_of_name name) eqn:RN.
      * unfold cl_view, C.field_of; cbn. reflexivity.
      * cbn. rw_forget. reflexivity.
  - go.
  - go.
Qed.

(* ------------------------------------------------------------------------------------------ *)
(* all un-hoisted trees *)
Ltac ops :=
  repeat match goal with
  | F : prefix_of ?op = Some ?p |- _ => is_var p;
      pose proof (prefix_def _ _ F); pose proof (prefix_neg _ _ F); pose proof (prefix_imm _ _ F);
      pose proof (prefix_pct _ _ F); destruct p
  | F : postfix_of ?op = Some ?p |- _ => is_var p; pose proof (postfix_add _ _ F); destruct p
  end;
  repeat match goal with H : String.eqb _ _ = match _ with _ => _ end |- _ => cbv iota in H end.
Ltac rw_all_eqb :=
  repeat match goal with H : String.eqb ?a ?b = _ |- context[String.eqb ?a ?b] => rewrite H end.
Ltac pct_absurd P :=
  solve [ exfalso; simpl in P;
          repeat match goal with H : String.eqb ?a ?b = _ |- _ =>
            match type of P with context[String.eqb a b] => rewrite H in P end end;
          simpl in P; repeat rewrite orb_true_r in P; discriminate P ].
Ltac go2 P := ops; try pct_absurd P; cbn [T.regp T.paren_reg]; rw_all_eqb; go.

Lemma plain_agree : forall t t', forget t = Some t' -> T.has_percent t = false ->
  plain_view t = cl_view (C.cascade t').
Proof.
  intros t t' H P.
  destruct t; inv_forget H; unfold plain_view, T.plain_plan, C.cascade.
  - go.
  - go.
  - assert (F' := F). apply String.eqb_eq in F'. destruct nec_label.
    + cbn. rw_forget. reflexivity.
    + cbn. unfold C.b_reg, C.with_reg, C.try_reg. rewrite F'. change (C.reg_of_name name) with (T.reg_of_name name).
      cbn [T.regp]. destruct (T.reg_of_name name) eqn:RN.
      * unfold cl_view, C.field_of; cbn. reflexivity.
      * cbn. rw_forget. reflexivity.
  - go.
  - go.
  - go.
  - ops; try pct_absurd P; cbn [T.regp T.paren_reg]; rw_all_eqb; try solve [go].
    destruct t; inv_forget F0; try solve [go2 P].
    assert (F' := F1). apply String.eqb_eq in F'. destruct nec_label.
    { go. }
    unf. cb. rewrite F'. change (C.reg_of_name name) with (T.reg_of_name name).
    destruct (T.reg_of_name name) eqn:RN; cb; rw_forget.
    { unfold cl_view, C.field_of; cb. rewrite (reg_lor _ _ _ RN) by (simpl; auto 12). reflexivity. }
    reflexivity.
  - go2 P.
  - destruct t1; inv_forget F; try solve [go2 P].
Qed.

(* hoist() does not fire on t: no '(reg)' call at the bottom of the rhs / operand spine of an Infix / Prefix top *)
Definition not_hoisted (t : T.tree) : bool :=
  match T.hoist t with
  | T.Call _ _ _ => match t with T.Call _ _ _ => true | _ => false end
  | _ => true
  end.

Lemma classify_agrees_unhoisted : forall t t', forget t = Some t' -> T.has_percent t = false ->
  not_hoisted t = true -> tc_view t = cl_view_res (C.classify t').
Proof.
  intros t t' H P NH.
  assert (Hh : T.hoist t = t).
  { destruct (hoist_shape t) as [E | (off & reg & E & R)]; auto.
    unfold not_hoisted in NH. rewrite E in NH. destruct t; try discriminate NH. reflexivity. }
  assert (A : C.hoist t' = t').
  { pose proof (hoist_agrees _ _ H) as A. rewrite Hh, H in A. injection A as A. symmetry. exact A. }
  assert (V : tc_view t = plain_view t).
  { unfold tc_view, plain_view, T.classify. destruct t; try reflexivity; rewrite Hh; reflexivity. }
  rewrite V. unfold cl_view_res, C.classify. rewrite A. apply plain_agree; assumption.
Qed.

(* the hoisted case: the cascade runs on the fresh call node *)
Lemma classify_agrees_full : forall t t', forget t = Some t' -> T.has_percent t = false ->
  tc_view t = cl_view_res (C.classify t').
Proof.
  intros t t' H P.
  destruct (not_hoisted t) eqn:NH; [apply classify_agrees_unhoisted; assumption|].
  pose proof (hoist_agrees _ _ H) as A.
  assert (P' : T.has_percent (T.hoist t) = false) by (rewrite has_percent_hoist; exact P).
  unfold cl_view_res, C.classify. rewrite <- (plain_agree _ _ A P').
  unfold not_hoisted in NH.
  destruct (hoist_shape t) as [E | (off & reg & E & R)].
  { rewrite E in NH. destruct t; discriminate NH. }
  rewrite E in P'. simpl in P'. apply orb_false_iff in P'. destruct P' as [_ P2].
  apply has_percent_is in P2. unfold T.is_regish in R. rewrite P2 in R.
  unfold tc_view, plain_view, T.classify, T.plain_plan.
  destruct t; try (simpl in NH; discriminate NH); rewrite E; cbn [T.regp T.paren_reg];
    destruct (T.regp reg); try discriminate R;
    destruct off; cb; try reflexivity.
  all: match goal with |- context[String.eqb ?o "@"] => destruct (String.eqb o "@") end; reflexivity.
Qed.
