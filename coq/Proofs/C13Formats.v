(* C13 -- formats.py: raw is the identity, bin is base and length as little-endian words then
   the bytes, with struct.pack's range check made explicit. *)
From Coq Require Import String List ZArith Lia Bool.
From Verif Require Import Base.Res Base.Bytes Gen.GenBkWav Model.Formats Spec.BinFile.
Import ListNotations.
Open Scope list_scope.
Open Scope Z_scope.

Lemma pack_uint_ok big n v : 0 <= v < 256 ^ Z.of_nat n ->
  pack_uint big n v = Ok (if big then rev (le_bytes n v) else le_bytes n v).
Proof.
  intros [H1 H2]. unfold pack_uint.
  apply Z.leb_le in H1. apply Z.ltb_lt in H2. rewrite H1, H2. reflexivity.
Qed.

Lemma pack_uint_crash big n v : ~ (0 <= v < 256 ^ Z.of_nat n) -> pack_uint big n v = Crash "struct.error".
Proof.
  intros H. unfold pack_uint.
  destruct (0 <=? v) eqn:E1; destruct (v <? 256 ^ Z.of_nat n) eqn:E2; simpl; try reflexivity.
  exfalso. apply H. split; [apply Z.leb_le, E1 | apply Z.ltb_lt, E2].
Qed.

Lemma le_bytes_2 v : le_bytes 2 v = le16 v.
Proof. reflexivity. Qed.

Lemma bin_fmt_compiled : compile_fmt bin_fmt = Some (false, [FH; FH]).
Proof. vm_compute. reflexivity. Qed.

Lemma bin_args_are : bin_args = [ABase; ALenCode].
Proof. reflexivity. Qed.

Lemma raw_id base code : fmt_raw base code = Ok code.
Proof. reflexivity. Qed.

Lemma bin_header base code :
  pack_args (image_scope base code None) bin_fmt bin_args =
  do x <- pack_uint false 2 base; do y <- pack_uint false 2 (Z.of_nat (length code)); Ok (x ++ y).
Proof.
  unfold pack_args, pack_fmt. rewrite bin_fmt_compiled, bin_args_are. simpl.
  destruct (pack_uint false 2 base); simpl; try reflexivity.
  destruct (pack_uint false 2 (Z.of_nat (length code))); simpl; try reflexivity.
  rewrite app_nil_r. reflexivity.
Qed.

Lemma bin_layout base code : 0 <= base < 65536 -> Z.of_nat (length code) < 65536 ->
  fmt_bin base code = Ok (le16 base ++ le16 (Z.of_nat (length code)) ++ code).
Proof.
  intros Hb Hl. unfold fmt_bin. rewrite bin_header.
  rewrite !pack_uint_ok by (change (256 ^ Z.of_nat 2) with 65536; lia).
  simpl. reflexivity.
Qed.

Lemma bin_crash base code : ~ (0 <= base < 65536 /\ Z.of_nat (length code) < 65536) ->
  fmt_bin base code = Crash "struct.error".
Proof.
  intros H. unfold fmt_bin. rewrite bin_header.
  destruct (Z_lt_dec base 0) as [A|A]; [rewrite pack_uint_crash by lia; reflexivity|].
  destruct (Z_lt_dec base 65536) as [B|B];
    [|rewrite pack_uint_crash by (change (256 ^ Z.of_nat 2) with 65536; lia); reflexivity].
  rewrite (pack_uint_ok false 2 base) by (change (256 ^ Z.of_nat 2) with 65536; lia).
  rewrite pack_uint_crash by (change (256 ^ Z.of_nat 2) with 65536; lia). reflexivity.
Qed.

(* the header read back: two little-endian words *)
Lemma le16_bytes v : 0 <= v < 65536 ->
  exists lo hi, le16 v = [lo; hi] /\ lo + 256 * hi = v /\ 0 <= lo < 256 /\ 0 <= hi < 256.
Proof.
  intros H. pose proof (le16_word v H) as W. unfold le16 in *.
  eexists _, _. split; [reflexivity|]. unfold word_of in W. exact W.
Qed.

(* the independent reader of Spec/BinFile.v gets base, length and bytes back *)
Lemma bin_reads_back base code f :
  Forall (fun b => 0 <= b < 256) code -> fmt_bin base code = Ok f ->
  parse_bin f = Some (base, Z.of_nat (length code), code).
Proof.
  intros Hc H.
  destruct (Z_lt_dec base 0) as [A|A]; [rewrite bin_crash in H by lia; discriminate|].
  destruct (Z_lt_dec base 65536) as [B|B]; [|rewrite bin_crash in H by lia; discriminate].
  destruct (Z_lt_dec (Z.of_nat (length code)) 65536) as [L|L]; [|rewrite bin_crash in H by lia; discriminate].
  rewrite bin_layout in H by lia. inversion H; subst; clear H.
  pose proof (le16_word base ltac:(lia)) as Wb. pose proof (le16_word (Z.of_nat (length code)) ltac:(lia)) as Wl.
  unfold le16, word_of in *. cbn [app]. unfold parse_bin.
  assert (F : forallb byte_in_range code = true).
  { clear -Hc. induction Hc as [|x l Hx _ IH]; [reflexivity|]. cbn [forallb]. rewrite IH, andb_true_r.
    unfold byte_in_range. apply andb_true_intro. split; [apply Z.leb_le | apply Z.ltb_lt]; lia. }
  cbn [forallb]. rewrite F.
  destruct Wb as (Wb & Wb1 & Wb2). destruct Wl as (Wl & Wl1 & Wl2).
  assert (R : forall x, 0 <= x < 256 -> byte_in_range x = true).
  { intros x Hx. unfold byte_in_range. apply andb_true_intro. split; [apply Z.leb_le | apply Z.ltb_lt]; lia. }
  rewrite !R by assumption. cbn [andb]. rewrite Wb, Wl, Z.eqb_refl. reflexivity.
Qed.

Lemma raw_reads_back base code f :
  Forall (fun b => 0 <= b < 256) code -> fmt_raw base code = Ok f -> parse_raw f = Some code.
Proof.
  intros Hc H. inversion H; subst. unfold parse_raw.
  assert (F : forallb byte_in_range f = true).
  { clear -Hc. induction Hc as [|x l Hx _ IH]; [reflexivity|]. cbn [forallb]. rewrite IH, andb_true_r.
    unfold byte_in_range. apply andb_true_intro. split; [apply Z.leb_le | apply Z.ltb_lt]; lia. }
  rewrite F. reflexivity.
Qed.
