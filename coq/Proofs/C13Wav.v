(* C13 -- make_wav_file writes a well-formed RIFF/WAVE header (read back by Spec/Riff.v), and the
   explicit shape of what encode_as_wav / encode_data_bits produce over the Gen envelopes. *)
From Coq Require Import String List ZArith Lia Bool.
From Verif Require Import Base.Res Base.Bytes Gen.GenBkWav Model.Formats Model.BkWav Spec.Riff Spec.BkTape
  Proofs.C13Formats Proofs.C13Checksum.
Import ListNotations.
Open Scope list_scope.
Open Scope Z_scope.
Ltac Zify.zify_post_hook ::= Z.to_euclidean_division_equations.

Lemma pow256_succ k : 256 ^ Z.of_nat (S k) = 256 * 256 ^ Z.of_nat k.
Proof. rewrite Nat2Z.inj_succ, Z.pow_succ_r by lia. reflexivity. Qed.

Lemma le_val_le_bytes n : forall v, 0 <= v < 256 ^ Z.of_nat n -> le_val (le_bytes n v) = v.
Proof.
  induction n as [|k IH]; intros v H.
  - simpl in *. lia.
  - rewrite pow256_succ in H. cbn [le_bytes le_val]. rewrite IH.
    + lia.
    + assert (0 < 256 ^ Z.of_nat k) by (apply Z.pow_pos_nonneg; lia).
      remember (256 ^ Z.of_nat k) as p. lia.
Qed.

Lemma le_bytes_bytes n : forall v, forallb is_byte (le_bytes n v) = true.
Proof.
  induction n as [|k IH]; intros v; cbn [le_bytes forallb]; [reflexivity|].
  rewrite IH, andb_true_r. unfold is_byte. lia.
Qed.

Lemma le_bytes_length n v : length (le_bytes n v) = n.
Proof. revert v; induction n; simpl; intros; congruence. Qed.

(* the canonical 44-byte header followed by the samples *)
Definition wav_file (rate : Z) (data : list Z) : list Z :=
  tag_RIFF ++ le_bytes 4 (36 + len data) ++ tag_WAVE ++ tag_fmt ++ le_bytes 4 16 ++ le_bytes 2 1 ++
  le_bytes 2 1 ++ le_bytes 4 rate ++ le_bytes 4 rate ++ le_bytes 2 1 ++ le_bytes 2 8 ++ tag_data ++
  le_bytes 4 (len data) ++ data.

Lemma wav_header_compiled :
  compile_fmt wav_header_fmt = Some (false, [FS 4; FI; FS 4; FS 4; FI; FH; FH; FI; FI; FH; FH; FS 4; FI]).
Proof. vm_compute. reflexivity. Qed.

Lemma wav_header_args_are : wav_header_args =
  [ABytes "RIFF"; ALenDataPlus 36; ABytes "WAVE"; ABytes "fmt "; AConst 16; AConst 1; AConst 1; ARate; ARate;
   AConst 1; AConst 8; ABytes "data"; ALenDataPlus 0].
Proof. reflexivity. Qed.

Lemma make_wav_file_ok data rate : 0 <= rate < 2 ^ 32 -> 36 + len data < 2 ^ 32 ->
  make_wav_file data rate = Ok (wav_file rate data).
Proof.
  intros Hr Hn. unfold make_wav_file, pack_args, pack_fmt.
  rewrite wav_header_compiled, wav_header_args_are.
  assert (L : 0 <= len data) by (unfold len; lia).
  cbn [mapM eval_parg in_scope sc_rate sc_data_len bind pack_codes].
  fold (len data).
  change (256 ^ Z.of_nat 4) with (2 ^ 32) in *.
  rewrite !pack_uint_ok by (first [ change (256 ^ Z.of_nat 4) with 4294967296 | change (256 ^ Z.of_nat 2) with 65536 ]; change (2 ^ 32) with 4294967296 in *; lia).
  cbn [bind]. reflexivity.
Qed.

Lemma le_bytes_4_shape v : 0 <= v < 2 ^ 32 ->
  exists a b c d, le_bytes 4 v = [a; b; c; d] /\ le_val [a; b; c; d] = v /\
    is_byte a = true /\ is_byte b = true /\ is_byte c = true /\ is_byte d = true.
Proof.
  intros H. eexists _, _, _, _. split; [reflexivity|]. split.
  - apply (le_val_le_bytes 4 v). exact H.
  - pose proof (le_bytes_bytes 4 v) as B. cbn [le_bytes forallb] in B.
    repeat (apply andb_prop in B; destruct B as [? B]). auto.
Qed.

Lemma lv4 a b c d : le_val [a; b; c; d] = a + 256 * (b + 256 * (c + 256 * d)).
Proof. cbn [le_val]. lia. Qed.
Lemma lv2 a b : le_val [a; b] = a + 256 * b.
Proof. cbn [le_val]. lia. Qed.
Lemma guard_true k : guard true k = k.
Proof. reflexivity. Qed.

Local Opaque le_val.

Ltac pass tac :=
  match goal with
  | |- guard ?c _ = _ => let F := fresh "F" in assert (F : c = true) by tac; rewrite F, guard_true; clear F
  end.

Lemma parse_wav_file rate data : 1 <= rate < 2 ^ 32 -> 36 + len data < 2 ^ 32 ->
  forallb is_byte data = true ->
  parse_wav (wav_file rate data) = Some (rate, 1, 8, data).
Proof.
  intros Hr Hn Hd. unfold wav_file.
  assert (L : 0 <= len data) by (unfold len; lia).
  destruct (le_bytes_4_shape (36 + len data)) as (s0 & s1 & s2 & s3 & Es & Vs & Bs0 & Bs1 & Bs2 & Bs3); [lia|].
  destruct (le_bytes_4_shape rate) as (r0 & r1 & r2 & r3 & Er & Vr & Br0 & Br1 & Br2 & Br3); [lia|].
  destruct (le_bytes_4_shape (len data)) as (d0 & d1 & d2 & d3 & Ed & Vd & Bd0 & Bd1 & Bd2 & Bd3); [lia|].
  rewrite Es, Er, Ed.
  change (le_bytes 4 16) with [16; 0; 0; 0]. change (le_bytes 2 1) with [1; 0]. change (le_bytes 2 8) with [8; 0].
  unfold tag_RIFF, tag_WAVE, tag_fmt, tag_data. cbn [app].
  unfold parse_wav. cbn [take]. cbv zeta.
  rewrite !Vs, !Vr, !Vd.
  change (le_val [16; 0; 0; 0]) with 16. change (le_val [1; 0]) with 1. change (le_val [8; 0]) with 8.
  pass ltac:(cbn [forallb]; rewrite Bs0, Bs1, Bs2, Bs3, Br0, Br1, Br2, Br3, Bd0, Bd1, Bd2, Bd3, Hd; reflexivity).
  pass ltac:(reflexivity).
  pass ltac:(apply Z.eqb_eq; unfold len; cbn [length]; lia).
  pass ltac:(reflexivity).
  pass ltac:(reflexivity).
  pass ltac:(reflexivity).
  pass ltac:(reflexivity).
  pass ltac:(reflexivity).
  pass ltac:(apply Z.leb_le; lia).
  pass ltac:(reflexivity).
  pass ltac:(reflexivity).
  pass ltac:(apply Z.eqb_eq; lia).
  pass ltac:(reflexivity).
  pass ltac:(apply Z.eqb_eq; reflexivity).
  pass ltac:(apply Z.eqb_eq; apply Z.mod_1_r).
  reflexivity.
Qed.

Local Transparent le_val.

(* ------------------------------------------------------------------ the envelopes, as opaque constants *)
Definition seg (turbo : bool) (attr : string) : list Z :=
  match env_attr turbo attr with Ok l => l | _ => [] end.

Lemma env_attr_ok turbo attr :
  In attr ["SYNC"; "PAUSE"; "EOF"; "ZERO"; "ONE"]%string -> env_attr turbo attr = Ok (seg turbo attr).
Proof.
  intros H. cbn [In] in H.
  destruct turbo; repeat (destruct H as [<- | H]; [vm_compute; reflexivity|]); contradiction.
Qed.

Lemma seg_bytes_ok turbo attr : In attr ["SYNC"; "PAUSE"; "EOF"; "ZERO"; "ONE"]%string ->
  forallb is_byte (seg turbo attr) = true.
Proof.
  intros H. cbn [In] in H.
  destruct turbo; repeat (destruct H as [<- | H]; [vm_compute; reflexivity|]); contradiction.
Qed.

Lemma seg_length_bound turbo attr : In attr ["SYNC"; "PAUSE"; "EOF"; "ZERO"; "ONE"]%string ->
  Z.of_nat (length (seg turbo attr)) <= 17000.
Proof.
  intros H. cbn [In] in H.
  destruct turbo; repeat (destruct H as [<- | H]; [apply Z.leb_le; vm_compute; reflexivity|]); contradiction.
Qed.

Lemma unit_length_bound turbo attr : In attr ["ZERO"; "ONE"]%string -> (length (seg turbo attr) <= 12)%nat.
Proof.
  intros H. cbn [In] in H.
  destruct turbo; repeat (destruct H as [<- | H]; [apply Nat.leb_le; vm_compute; reflexivity|]); contradiction.
Qed.

Global Opaque seg.

(* ------------------------------------------------------------------ encode_data_bits, purely *)
Definition bit_unit (turbo : bool) (b : Z) : list Z :=
  if b =? 0 then seg turbo "ZERO" else seg turbo "ONE".

(* bit i of the byte, for i = 0 .. 7: least significant first *)
Definition byte_bits (byte : Z) : list Z :=
  map (fun i => Z.b2z (Z.testbit byte i)) [0; 1; 2; 3; 4; 5; 6; 7].

Definition enc_byte (turbo : bool) (byte : Z) : list Z := flat_map (bit_unit turbo) (byte_bits byte).
Definition enc_bytes (turbo : bool) (data : list Z) : list Z := flat_map (enc_byte turbo) data.

Lemma bit_index_is byte i : 0 <= i -> bit_index byte i = Z.b2z (Z.testbit byte i).
Proof.
  intros Hi. unfold bit_index.
  change 1 with (Z.ones 1). rewrite Z.land_ones by lia. change (2 ^ 1) with 2.
  rewrite <- Z.bit0_mod, Z.shiftr_spec by lia. rewrite Z.add_0_l. reflexivity.
Qed.

Lemma py_index_bit (z o : list Z) b : py_index [z; o] (Z.b2z b) = Ok (if Z.b2z b =? 0 then z else o).
Proof. destruct b; reflexivity. Qed.

Lemma bit_units_ok turbo : mapM (env_attr turbo) bit_units = Ok [seg turbo "ZERO"; seg turbo "ONE"].
Proof.
  change bit_units with ["ZERO"; "ONE"]%string. cbn [mapM].
  rewrite !env_attr_ok by (cbn [In]; auto 10). reflexivity.
Qed.

Lemma encode_byte_pure turbo byte :
  encode_byte [seg turbo "ZERO"; seg turbo "ONE"] byte = Ok (enc_byte turbo byte).
Proof.
  unfold encode_byte. change bit_positions with [0; 1; 2; 3; 4; 5; 6; 7].
  cbn [mapM]. rewrite !bit_index_is by lia. rewrite !py_index_bit. cbn [bind concat].
  unfold enc_byte, byte_bits. cbn [map flat_map]. unfold bit_unit. reflexivity.
Qed.

Lemma encode_bits_with_pure turbo data :
  encode_bits_with [seg turbo "ZERO"; seg turbo "ONE"] data = Ok (enc_bytes turbo data).
Proof.
  unfold encode_bits_with, enc_bytes.
  assert (M : mapM (encode_byte [seg turbo "ZERO"; seg turbo "ONE"]) data = Ok (map (enc_byte turbo) data)).
  { induction data as [|b r IH]; [reflexivity|]. cbn [mapM map]. rewrite encode_byte_pure, IH. reflexivity. }
  rewrite M. cbn [bind]. rewrite flat_map_concat_map. reflexivity.
Qed.

Lemma encode_data_bits_pure turbo data : encode_data_bits turbo data = Ok (enc_bytes turbo data).
Proof.
  unfold encode_data_bits. destruct data as [|b r]; [reflexivity|].
  change bits_per_byte with 8%nat. cbv iota. rewrite bit_units_ok. cbn [bind].
  apply encode_bits_with_pure.
Qed.

Lemma enc_bytes_app turbo a b : enc_bytes turbo (a ++ b) = enc_bytes turbo a ++ enc_bytes turbo b.
Proof. unfold enc_bytes. apply flat_map_app. Qed.

Lemma enc_bytes_cons turbo b r : enc_bytes turbo (b :: r) = enc_byte turbo b ++ enc_bytes turbo r.
Proof. reflexivity. Qed.

Lemma byte_bits_length byte : length (byte_bits byte) = 8%nat.
Proof. reflexivity. Qed.

Lemma forallb_flat_map {A} (p : Z -> bool) (f : A -> list Z) l :
  (forall x, forallb p (f x) = true) -> forallb p (flat_map f l) = true.
Proof.
  intros H. induction l as [|x r IH]; [reflexivity|]. cbn [flat_map]. rewrite forallb_app, H, IH. reflexivity.
Qed.

Lemma bit_unit_bytes turbo b : forallb is_byte (bit_unit turbo b) = true.
Proof. unfold bit_unit. destruct (b =? 0); apply seg_bytes_ok; cbn [In]; auto 10. Qed.

Lemma enc_bytes_bytes turbo data : forallb is_byte (enc_bytes turbo data) = true.
Proof.
  unfold enc_bytes. apply forallb_flat_map. intros x. unfold enc_byte. apply forallb_flat_map.
  apply bit_unit_bytes.
Qed.

Lemma bit_unit_length turbo b : (length (bit_unit turbo b) <= 12)%nat.
Proof. unfold bit_unit. destruct (b =? 0); apply unit_length_bound; cbn [In]; auto. Qed.

Lemma enc_byte_length turbo byte : (length (enc_byte turbo byte) <= 96)%nat.
Proof.
  unfold enc_byte, byte_bits. cbn [map flat_map]. rewrite !app_length. cbn [length].
  repeat match goal with |- context [length (bit_unit turbo ?b)] =>
    let H := fresh in pose proof (bit_unit_length turbo b) as H; remember (length (bit_unit turbo b)) end.
  lia.
Qed.

Lemma enc_bytes_length turbo data : (length (enc_bytes turbo data) <= 96 * length data)%nat.
Proof.
  induction data as [|b r IH]; [cbn; lia|].
  rewrite enc_bytes_cons, app_length. pose proof (enc_byte_length turbo b). cbn [length]. lia.
Qed.

(* ------------------------------------------------------------------ encode_as_wav, explicitly *)
Definition tape_header (base : Z) (code name : list Z) : list Z :=
  le16 base ++ le16 (Z.of_nat (length code)) ++ fit 16 name.

Definition samples_of (turbo : bool) (base : Z) (code name : list Z) : list Z :=
  seg turbo "SYNC" ++ enc_bytes turbo (tape_header base code name) ++ seg turbo "PAUSE" ++
  enc_bytes turbo code ++ (if turbo then seg turbo "PAUSE" else []) ++
  enc_bytes turbo (le16 (cksum_spec code)) ++ seg turbo "EOF".

Lemma wav_segments_are : wav_segments =
  [SEnv "SYNC"; SBitsPack "<HH16s" [ABase; ALenCode; AName]; SEnv "PAUSE"; SBitsCode; STurboOnly "PAUSE";
   SBitsPack "<H" [AChecksum]; SEnv "EOF"].
Proof. reflexivity. Qed.

Lemma header_pack base code name : 0 <= base < 65536 -> Z.of_nat (length code) < 65536 ->
  pack_args (image_scope base code (Some name)) "<HH16s" [ABase; ALenCode; AName] = Ok (tape_header base code name).
Proof.
  intros Hb Hl. unfold pack_args, pack_fmt.
  replace (compile_fmt "<HH16s") with (Some (false, [FH; FH; FS 16%nat])) by (vm_compute; reflexivity).
  cbn [mapM eval_parg image_scope in_scope sc_base sc_code sc_name bind pack_codes].
  rewrite !pack_uint_ok by (change (256 ^ Z.of_nat 2) with 65536; lia).
  cbn [bind]. unfold tape_header. rewrite app_nil_r. reflexivity.
Qed.

Lemma checksum_pack base code name : Forall is_byte_z code ->
  pack_args (image_scope base code (Some name)) "<H" [AChecksum] = Ok (le16 (cksum_spec code)).
Proof.
  intros Hc. unfold pack_args, pack_fmt.
  replace (compile_fmt "<H") with (Some (false, [FH])) by (vm_compute; reflexivity).
  cbn [mapM eval_parg image_scope in_scope sc_code bind].
  rewrite checksum_is_spec by assumption. cbn [bind pack_codes].
  pose proof (cksum_spec_range code Hc).
  rewrite pack_uint_ok by (change (256 ^ Z.of_nat 2) with 65536; lia).
  cbn [bind]. rewrite app_nil_r. reflexivity.
Qed.

Lemma encode_samples_ok turbo base code name :
  0 <= base < 65536 -> Z.of_nat (length code) < 65536 -> Forall is_byte_z code ->
  encode_samples turbo base code name = Ok (samples_of turbo base code name).
Proof.
  intros Hb Hl Hc. unfold encode_samples. rewrite wav_segments_are.
  cbn [mapM seg_bytes image_scope sc_code].
  rewrite header_pack, checksum_pack by assumption. cbn [bind].
  rewrite !encode_data_bits_pure.
  rewrite !env_attr_ok by (cbn [In]; auto 10).
  destruct turbo.
  - cbn [bind concat]. unfold samples_of.
    rewrite app_nil_r. reflexivity.
  - cbn [bind concat]. unfold samples_of. rewrite app_nil_r. reflexivity.
Qed.

Lemma encode_samples_crash turbo base code name :
  ~ (0 <= base < 65536 /\ Z.of_nat (length code) < 65536) ->
  encode_samples turbo base code name = Crash "struct.error".
Proof.
  intros H. unfold encode_samples. rewrite wav_segments_are.
  cbn [mapM seg_bytes image_scope sc_code].
  rewrite env_attr_ok by (cbn [In]; auto 10). cbn [bind].
  assert (P : pack_args (image_scope base code (Some name)) "<HH16s" [ABase; ALenCode; AName] = Crash "struct.error").
  { unfold pack_args, pack_fmt.
    replace (compile_fmt "<HH16s") with (Some (false, [FH; FH; FS 16%nat])) by (vm_compute; reflexivity).
    cbn [mapM eval_parg image_scope in_scope sc_base sc_code sc_name bind pack_codes].
    destruct (Z_lt_dec base 0) as [A|A]; [rewrite pack_uint_crash by lia; reflexivity|].
    destruct (Z_lt_dec base 65536) as [B|B];
      [|rewrite pack_uint_crash by (change (256 ^ Z.of_nat 2) with 65536; lia); reflexivity].
    rewrite (pack_uint_ok false 2 base) by (change (256 ^ Z.of_nat 2) with 65536; lia).
    rewrite pack_uint_crash by (change (256 ^ Z.of_nat 2) with 65536; lia). reflexivity. }
  rewrite P. reflexivity.
Qed.

Lemma fit_bytes n : forall l, forallb is_byte l = true -> forallb is_byte (fit n l) = true.
Proof.
  induction n as [|k IH]; intros l H; [reflexivity|].
  destruct l as [|b r]; cbn [fit forallb].
  - rewrite (IH [] eq_refl). reflexivity.
  - cbn [forallb] in H. apply andb_prop in H. destruct H as [H1 H2]. rewrite H1, (IH r H2). reflexivity.
Qed.

Lemma samples_bytes turbo base code name : forallb is_byte (samples_of turbo base code name) = true.
Proof.
  unfold samples_of. rewrite !forallb_app, !enc_bytes_bytes.
  rewrite !seg_bytes_ok by (cbn [In]; auto 10).
  destruct turbo; [rewrite seg_bytes_ok by (cbn [In]; auto 10)|]; reflexivity.
Qed.

Lemma fit_length n l : length (fit n l) = n.
Proof. revert l; induction n as [|k IH]; intros l; [reflexivity|]. destruct l; cbn [fit length]; rewrite IH; reflexivity. Qed.

Lemma samples_length turbo base code name : Z.of_nat (length code) < 65536 ->
  36 + len (samples_of turbo base code name) < 2 ^ 32.
Proof.
  intros Hl. unfold samples_of, len. rewrite !app_length.
  pose proof (enc_bytes_length turbo (tape_header base code name)) as L1.
  pose proof (enc_bytes_length turbo code) as L2.
  pose proof (enc_bytes_length turbo (le16 (cksum_spec code))) as L3.
  assert (length (tape_header base code name) = 20%nat) as E1.
  { unfold tape_header. rewrite !app_length, fit_length. reflexivity. }
  rewrite E1 in L1. cbn [le16 length] in L3.
  pose proof (seg_length_bound turbo "SYNC") as S1.
  pose proof (seg_length_bound turbo "PAUSE") as S2.
  pose proof (seg_length_bound turbo "EOF") as S3.
  assert (Z.of_nat (length (if turbo then seg turbo "PAUSE" else [])) <= 17000) as S4.
  { destruct turbo; [apply S2; cbn [In]; auto 10 | cbn; lia]. }
  specialize (S1 ltac:(cbn [In]; auto 10)). specialize (S2 ltac:(cbn [In]; auto 10)). specialize (S3 ltac:(cbn [In]; auto 10)).
  change (2 ^ 32) with 4294967296. lia.
Qed.

Lemma sample_rate_range turbo : 1 <= sample_rate turbo < 2 ^ 32.
Proof. destruct turbo; vm_compute; split; congruence. Qed.

(* the whole file, and what the RIFF reader makes of it *)
Lemma wav_wellformed turbo base code name :
  0 <= base < 65536 -> Z.of_nat (length code) < 65536 -> Forall is_byte_z code ->
  exists f, encode_as_wav turbo base code name = Ok f /\
            parse_wav f = Some (sample_rate turbo, 1, 8, samples_of turbo base code name).
Proof.
  intros Hb Hl Hc. exists (wav_file (sample_rate turbo) (samples_of turbo base code name)).
  pose proof (sample_rate_range turbo) as R. pose proof (samples_length turbo base code name Hl) as S.
  split.
  - unfold encode_as_wav. rewrite encode_samples_ok by assumption. cbn [bind].
    apply make_wav_file_ok; [lia | assumption].
  - apply parse_wav_file; [assumption | assumption | apply samples_bytes].
Qed.

Lemma wav_crash turbo base code name :
  ~ (0 <= base < 65536 /\ Z.of_nat (length code) < 65536) ->
  encode_as_wav turbo base code name = Crash "struct.error".
Proof. intros H. unfold encode_as_wav. rewrite encode_samples_crash by assumption. reflexivity. Qed.

(* encode_data_bits in the words of the property: for every byte, for bit 0 up to bit 7, the
   ONE envelope when the bit is set and the ZERO envelope otherwise *)
Lemma encode_data_bits_structure turbo data :
  exists zero one,
    env_attr turbo "ZERO" = Ok zero /\ env_attr turbo "ONE" = Ok one /\
    encode_data_bits turbo data =
    Ok (flat_map (fun byte => flat_map (fun i => if Z.testbit byte i then one else zero) [0; 1; 2; 3; 4; 5; 6; 7]) data).
Proof.
  exists (seg turbo "ZERO"), (seg turbo "ONE").
  split; [apply env_attr_ok; cbn [In]; auto 10|]. split; [apply env_attr_ok; cbn [In]; auto 10|].
  rewrite encode_data_bits_pure. f_equal. unfold enc_bytes. apply flat_map_ext. intros byte.
  unfold enc_byte, byte_bits. rewrite flat_map_concat_map, map_map, <- flat_map_concat_map.
  apply flat_map_ext. intros i. unfold bit_unit. destruct (Z.testbit byte i); reflexivity.
Qed.

Lemma encode_data_bits_app turbo a b :
  exists x y, encode_data_bits turbo a = Ok x /\ encode_data_bits turbo b = Ok y /\
              encode_data_bits turbo (a ++ b) = Ok (x ++ y).
Proof.
  exists (enc_bytes turbo a), (enc_bytes turbo b). rewrite !encode_data_bits_pure, enc_bytes_app. auto.
Qed.
