(* Lemmas for C15: Model/Rad50.v against Spec/Rad50Spec.v, over the regenerated TABLE. *)
From Coq Require Import String List ZArith NArith Bool Lia ZifyBool.
From Verif Require Import Base.Res Base.Bytes Gen.GenRadix50 Spec.Rad50Spec Model.Rad50.
Import ListNotations.
Notation length := Datatypes.length.
Open Scope list_scope.
Open Scope Z_scope.

Ltac Zify.zify_post_hook ::= Z.to_euclidean_division_equations.

(* ---------------------------------------------------------------------------------------------- *)
(* the alphabet *)
Fixpoint nodupb (l : list N) : bool :=
  match l with
  | [] => true
  | x :: rest => negb (existsb (N.eqb x) rest) && nodupb rest
  end.

Lemma nodupb_NoDup l : nodupb l = true -> NoDup l.
Proof.
  induction l as [|x rest IH]; simpl; intros H; [constructor|].
  apply andb_prop in H. destruct H as [H1 H2]. constructor; [|auto].
  intros Hin. apply negb_true_iff in H1.
  assert (existsb (N.eqb x) rest = true); [|congruence].
  apply existsb_exists. exists x. split; [exact Hin | apply N.eqb_refl].
Qed.

Lemma alphabet_ok : rad50_table = alphabet /\ length alphabet = 40%nat /\ NoDup alphabet.
Proof.
  split; [reflexivity|]. split; [reflexivity|]. apply nodupb_NoDup. vm_compute. reflexivity.
Qed.

Lemma in_alphabet_In c : in_alphabet c = true <-> In c alphabet.
Proof.
  unfold in_alphabet. rewrite existsb_exists. split.
  - intros [x [Hx E]]. apply N.eqb_eq in E. subst. exact Hx.
  - intros H. exists c. split; [exact H | apply N.eqb_refl].
Qed.

(* ---------------------------------------------------------------------------------------------- *)
(* pack / unpack: pure arithmetic, no enumeration *)
Lemma pack_unpack a b c :
  0 <= a < 40 -> 0 <= b < 40 -> 0 <= c < 40 ->
  unpack (a * 1600 + b * 40 + c) = (a, b, c) /\ 0 <= a * 1600 + b * 40 + c < 64000.
Proof.
  intros Ha Hb Hc. split; [|lia]. unfold unpack.
  assert (E1 : (a * 1600 + b * 40 + c) / 1600 = a) by lia.
  assert (E2 : ((a * 1600 + b * 40 + c) / 40) mod 40 = b) by lia.
  assert (E3 : (a * 1600 + b * 40 + c) mod 40 = c) by lia.
  rewrite E1, E2, E3. reflexivity.
Qed.

(* the converse direction: every word below 64000 is the packing of its three codes *)
Lemma unpack_pack w : 0 <= w < 64000 ->
  let '(a, b, c) := unpack w in
  0 <= a < 40 /\ 0 <= b < 40 /\ 0 <= c < 40 /\ a * 1600 + b * 40 + c = w.
Proof. intros H. unfold unpack. lia. Qed.

(* ---------------------------------------------------------------------------------------------- *)
(* TABLE.index *)
Lemma index_from_spec t : forall i ch j,
  index_from i t ch = Some j ->
  exists k, j = i + Z.of_nat k /\ nth_error t k = Some ch /\ (k < length t)%nat.
Proof.
  induction t as [|x rest IH]; simpl; intros i ch j H; [discriminate|].
  destruct (N.eqb x ch) eqn:E.
  - inversion H; subst. apply N.eqb_eq in E. subst. exists 0%nat. simpl. split; [lia|]. split; [reflexivity|lia].
  - destruct (IH _ _ _ H) as [k [Hj [Hn Hl]]]. exists (S k). simpl. split; [lia|]. split; [exact Hn|lia].
Qed.

Lemma index_from_none t : forall i ch, index_from i t ch = None -> ~ In ch t.
Proof.
  induction t as [|x rest IH]; simpl; intros i ch H; [tauto|].
  destruct (N.eqb x ch) eqn:E; [discriminate|].
  apply N.eqb_neq in E. intros [Hx|Hin]; [congruence|]. eapply IH; eauto.
Qed.

Lemma index_of_range ch i : index_of rad50_table ch = Some i -> 0 <= i < 40.
Proof.
  unfold index_of. intros H. destruct (index_from_spec _ _ _ _ H) as [k [Hj [_ Hl]]].
  change (length rad50_table) with 40%nat in Hl. lia.
Qed.

Lemma index_of_In ch i : index_of rad50_table ch = Some i -> In ch alphabet.
Proof.
  unfold index_of. intros H. destruct (index_from_spec _ _ _ _ H) as [k [_ [Hn _]]].
  destruct alphabet_ok as [E _]. rewrite <- E. eapply nth_error_In; eauto.
Qed.

(* on the 40 alphabet characters the lookup inverts the Spec's code -> character map (enumeration
   of the 40 table entries, lifted by forallb_forall) *)
Definition index_inverts (u : N) : bool :=
  match index_of rad50_table u with
  | Some k => (0 <=? k) && (k <? 40) &&
              match char_of_code k with Some c => N.eqb c u | None => false end
  | None => false
  end.

Lemma index_inverts_all : forallb index_inverts alphabet = true.
Proof. vm_compute. reflexivity. Qed.

Lemma index_of_alphabet u : In u alphabet ->
  exists k, index_of rad50_table u = Some k /\ 0 <= k < 40 /\ char_of_code k = Some u.
Proof.
  intros H. pose proof index_inverts_all as A. rewrite forallb_forall in A. specialize (A u H).
  unfold index_inverts in A. destruct (index_of rad50_table u) as [k|]; [|discriminate].
  exists k. split; [reflexivity|].
  apply andb_prop in A. destruct A as [A1 A2]. apply andb_prop in A1. destruct A1 as [A0 A1].
  split; [lia|]. destruct (char_of_code k) as [c|]; [|discriminate]. apply N.eqb_eq in A2. subst. reflexivity.
Qed.

(* every alphabet character is ASCII *)
Lemma alphabet_ascii u : In u alphabet -> (u < 128)%N.
Proof.
  intros H. assert (A : forallb (fun x => (x <? 128)%N) alphabet = true) by (vm_compute; reflexivity).
  rewrite forallb_forall in A. specialize (A u H). lia.
Qed.

Lemma char_of_code_nth n : 0 <= n < 40 -> char_of_code n = Some (nth (Z.to_nat n) alphabet 32%N).
Proof.
  intros H. unfold char_of_code.
  replace ((0 <=? n) && (n <? 40))%bool with true by lia.
  apply nth_error_nth'. change (length alphabet) with 40%nat. lia.
Qed.

(* ---------------------------------------------------------------------------------------------- *)
(* one character / one <n> *)
Lemma ascii_up_fold c : ascii_up c = fold_case c.
Proof. reflexivity. Qed.

Lemma accepted_char_ascii ch : accepted_char ch = true -> (ch < 128)%N.
Proof.
  unfold accepted_char. intros H. apply in_alphabet_In in H. apply alphabet_ascii in H.
  unfold fold_case in H. destruct ((97 <=? ch)%N && (ch <=? 122)%N)%bool eqn:E; lia.
Qed.

Lemma char_code_good ch :
  accepted_char ch = true ->
  exists k, char_code rad50_table ch = (k, false) /\ 0 <= k < 40 /\ char_of_code k = Some (fold_case ch).
Proof.
  intros H. pose proof (accepted_char_ascii _ H) as Hlt.
  unfold char_code. replace (128 <=? ch)%N with false by lia. rewrite ascii_up_fold.
  unfold accepted_char in H. apply in_alphabet_In in H.
  destruct (index_of_alphabet _ H) as [k [E [R C]]]. rewrite E. exists k. auto.
Qed.

Lemma char_code_range ch : 0 <= fst (char_code rad50_table ch) < 40.
Proof.
  unfold char_code. destruct (128 <=? ch)%N; simpl; [lia|].
  destruct (index_of rad50_table (ascii_up ch)) as [i|] eqn:E; simpl; [|lia]. eapply index_of_range; eauto.
Qed.

(* a character that is not an alphabet character in either ASCII case is refused: any code point *)
Lemma char_code_bad ch : accepted_char ch = false -> snd (char_code rad50_table ch) = true.
Proof.
  intros H. unfold char_code. destruct (128 <=? ch)%N; simpl; [reflexivity|].
  destruct (index_of rad50_table (ascii_up ch)) as [i|] eqn:E2; simpl; [|reflexivity].
  apply index_of_In in E2. rewrite ascii_up_fold in E2. apply in_alphabet_In in E2.
  unfold accepted_char in H. congruence.
Qed.

Lemma char_code_accepts ch k :
  char_code rad50_table ch = (k, false) -> accepted_char ch = true /\ char_of_code k = Some (fold_case ch).
Proof.
  intros H. destruct (accepted_char ch) eqn:A.
  - split; [reflexivity|]. destruct (char_code_good ch A) as [k' [E [_ C]]]. congruence.
  - pose proof (char_code_bad ch A) as B. rewrite H in B. discriminate B.
Qed.

Lemma angle_code_range n : 0 <= fst (angle_code n) < 40.
Proof. unfold angle_code. destruct (n <? 0) eqn:A; simpl; [lia|]. destruct (40 <=? n) eqn:B; simpl; lia. Qed.

Lemma angle_code_good n : 0 <= n < 40 -> angle_code n = (n, false).
Proof. intros H. unfold angle_code. replace (n <? 0) with false by lia. replace (40 <=? n) with false by lia. reflexivity. Qed.

Lemma angle_code_bad n : n < 0 \/ 40 <= n -> snd (angle_code n) = true.
Proof. intros H. unfold angle_code. destruct (n <? 0) eqn:A; simpl; [reflexivity|]. replace (40 <=? n) with true by lia. reflexivity. Qed.

(* ---------------------------------------------------------------------------------------------- *)
(* chunks -> codes *)
Definition codes_ok (ks : list Z) : Prop := Forall (fun k => 0 <= k < 40) ks.

Lemma chunk_codes_range cs : codes_ok (fst (chunk_codes rad50_table cs)).
Proof.
  induction cs as [|c rest IH]; simpl; [constructor|].
  destruct c as [s|n].
  - destruct (chunk_codes rad50_table rest) as [ks es]. simpl in *.
    apply Forall_app. split; [|exact IH].
    apply Forall_forall. intros k Hk. apply in_map_iff in Hk. destruct Hk as [p [Hp Hin]].
    apply in_map_iff in Hin. destruct Hin as [ch [Hch _]]. subst. apply char_code_range.
  - pose proof (angle_code_range n) as R. destruct (angle_code n) as [k e].
    destruct (chunk_codes rad50_table rest) as [ks es]. simpl in *. constructor; assumption.
Qed.

(* what a list of chunks spells: a string chunk its case-folded characters, <n> the n-th character *)
Definition chunk_text (c : chunk) : list N :=
  match c with
  | Str s => map fold_case s
  | Code n => [nth (Z.to_nat n) alphabet 32%N]
  end.

Definition good_chunk (c : chunk) : Prop :=
  match c with
  | Str s => Forall (fun ch => accepted_char ch = true) s
  | Code n => 0 <= n < 40
  end.

Definition code_of_char (k : Z) (c : N) : Prop := 0 <= k < 40 /\ char_of_code k = Some c.

Lemma chunk_codes_good cs :
  Forall good_chunk cs ->
  exists ks, chunk_codes rad50_table cs = (ks, []) /\ Forall2 code_of_char ks (flat_map chunk_text cs).
Proof.
  intros H. induction H as [|c rest Hc Hrest IH]; simpl.
  - exists []. split; [reflexivity|constructor].
  - destruct IH as [ks [E F]]. destruct c as [s|n]; simpl in Hc.
    + rewrite E.
      assert (X : exists ks', map fst (map (char_code rad50_table) s) = ks' /\
                   flat_map (fun p => err_if (snd p) "invalid-character") (map (char_code rad50_table) s) = [] /\
                   Forall2 code_of_char ks' (map fold_case s)).
      { clear -Hc. induction Hc as [|ch s' Hch _ IHs]; simpl.
        - exists []. repeat split; constructor.
        - destruct IHs as [ks' [E1 [E2 F]]].
          destruct (char_code_good ch Hch) as [k [Ek [Rk Ck]]].
          rewrite Ek. simpl. rewrite E1, E2. exists (k :: ks'). repeat split. constructor; [split; assumption | exact F]. }
      destruct X as [ks' [E1 [E2 F']]]. rewrite E1, E2. exists (ks' ++ ks). split; [reflexivity|].
      simpl. apply Forall2_app; assumption.
    + rewrite (angle_code_good n Hc). rewrite E. simpl. exists (n :: ks). split; [reflexivity|].
      constructor; [|exact F]. split; [exact Hc | apply char_of_code_nth; exact Hc].
Qed.

(* errors are reported for a bad <n> and for a bad character, whatever else the operand holds *)
Lemma chunk_codes_bad_code cs n :
  In (Code n) cs -> n < 0 \/ 40 <= n -> In "value-out-of-bounds"%string (snd (chunk_codes rad50_table cs)).
Proof.
  intros Hin Hn. induction cs as [|c rest IH]; [destruct Hin|].
  simpl. destruct Hin as [->|Hin].
  - pose proof (angle_code_bad n Hn) as B. destruct (angle_code n) as [k e]. simpl in B. subst e.
    destruct (chunk_codes rad50_table rest) as [ks es]. simpl. left. reflexivity.
  - specialize (IH Hin). destruct c as [s|m].
    + destruct (chunk_codes rad50_table rest) as [ks es]. simpl in *. apply in_or_app. right. exact IH.
    + destruct (angle_code m) as [k e]. destruct (chunk_codes rad50_table rest) as [ks es]. simpl in *.
      apply in_or_app. right. exact IH.
Qed.

Lemma chunk_codes_bad_char cs s ch :
  In (Str s) cs -> In ch s -> accepted_char ch = false ->
  In "invalid-character"%string (snd (chunk_codes rad50_table cs)).
Proof.
  intros Hin Hch Hbad. induction cs as [|c rest IH]; [destruct Hin|].
  simpl. destruct Hin as [->|Hin].
  - destruct (chunk_codes rad50_table rest) as [ks es]. simpl. apply in_or_app. left.
    apply in_flat_map. exists (char_code rad50_table ch). split.
    + apply in_map. exact Hch.
    + rewrite (char_code_bad ch Hbad). simpl. left. reflexivity.
  - specialize (IH Hin). destruct c as [s'|m].
    + destruct (chunk_codes rad50_table rest) as [ks es]. simpl in *. apply in_or_app. right. exact IH.
    + destruct (angle_code m) as [k e]. destruct (chunk_codes rad50_table rest) as [ks es]. simpl in *.
      apply in_or_app. right. exact IH.
Qed.

(* ---------------------------------------------------------------------------------------------- *)
(* codes -> words -> bytes *)
Lemma pad_len_cases (n : nat) :
  (n mod 3 = 0 /\ pad_len n = 0)%nat \/ (n mod 3 = 1 /\ pad_len n = 2)%nat \/ (n mod 3 = 2 /\ pad_len n = 1)%nat.
Proof.
  unfold pad_len. pose proof (Nat.mod_upper_bound n 3 ltac:(lia)) as B.
  destruct (n mod 3)%nat as [|[|[|k]]] eqn:E; simpl; try lia.
Qed.

Lemma pad_len_S3 (n : nat) : pad_len (S (S (S n))) = pad_len n.
Proof.
  unfold pad_len. replace (S (S (S n))) with (n + 1 * 3)%nat by lia. rewrite Nat.mod_add by lia. reflexivity.
Qed.

Lemma le16_H w : 0 <= w < 65536 -> pack_H w = Ok (le16 w).
Proof.
  intros H. unfold pack_H, le16. replace ((0 <=? w) && (w <? 65536))%bool with true by lia.
  assert (X : (w / 256) mod 256 = w / 256) by lia. rewrite X. reflexivity.
Qed.

Lemma pack_words_spec : forall (n : nat) ks, (length ks <= n)%nat -> codes_ok ks ->
  exists ws, pack_words ks = Ok (flat_map le16 ws) /\
             Forall (fun w => 0 <= w < 64000) ws /\
             unpack_all ws = pad3 0 ks.
Proof.
  induction n as [|n IH]; intros ks Hl Hk.
  - destruct ks; [|simpl in Hl; lia]. exists []. repeat split; constructor.
  - destruct ks as [|a [|b [|c rest]]].
    + exists []. repeat split; constructor.
    + inversion Hk as [|? ? Ha _]; subst.
      destruct (pack_unpack a 0 0 Ha ltac:(lia) ltac:(lia)) as [U R].
      exists [a * 1600 + 0 * 40 + 0]. cbn [pack_words flat_map]. rewrite le16_H by lia. rewrite app_nil_r. split; [reflexivity|].
      split; [constructor; [lia|constructor]|].
      unfold unpack_all, unpack_list. cbn [flat_map]. rewrite U. reflexivity.
    + inversion Hk as [|? ? Ha Hk']; subst. inversion Hk' as [|? ? Hb _]; subst.
      destruct (pack_unpack a b 0 Ha Hb ltac:(lia)) as [U R].
      exists [a * 1600 + b * 40 + 0]. cbn [pack_words flat_map]. rewrite le16_H by lia. rewrite app_nil_r. split; [reflexivity|].
      split; [constructor; [lia|constructor]|].
      unfold unpack_all, unpack_list. cbn [flat_map]. rewrite U. reflexivity.
    + inversion Hk as [|? ? Ha Hk']; subst. inversion Hk' as [|? ? Hb Hk'']; subst. inversion Hk'' as [|? ? Hc Hr]; subst.
      destruct (pack_unpack a b c Ha Hb Hc) as [U R].
      destruct (IH rest ltac:(simpl in Hl; lia) Hr) as [ws [E [F D]]].
      exists ((a * 1600 + b * 40 + c) :: ws).
      change (pack_words (a :: b :: c :: rest)) with
        (do w <- pack_H (a * 1600 + b * 40 + c); do ws0 <- pack_words rest; Ok (w ++ ws0)).
      rewrite le16_H by lia. cbn [bind]. rewrite E. cbn [bind flat_map]. split; [reflexivity|].
      split; [constructor; [lia|exact F]|].
      unfold unpack_all in *. cbn [flat_map]. unfold unpack_list at 1. rewrite U. rewrite D.
      unfold pad3. simpl length. rewrite pad_len_S3. reflexivity.
Qed.

Lemma words_of_le16 ws : Forall (fun w => 0 <= w < 64000) ws -> words_of_bytes (flat_map le16 ws) = ws.
Proof.
  induction 1 as [|w rest Hw _ IH]; [reflexivity|].
  simpl. rewrite IH. f_equal. unfold word_of. lia.
Qed.

(* ---------------------------------------------------------------------------------------------- *)
(* codes -> characters *)
Lemma chars_of_codes_app k1 k2 t1 t2 :
  chars_of_codes k1 = Some t1 -> chars_of_codes k2 = Some t2 -> chars_of_codes (k1 ++ k2) = Some (t1 ++ t2).
Proof.
  revert t1. induction k1 as [|k rest IH]; simpl; intros t1 H1 H2.
  - inversion H1; subst. exact H2.
  - destruct (char_of_code k) as [c|]; [|discriminate].
    destruct (chars_of_codes rest) as [cs|] eqn:E; [|discriminate].
    inversion H1; subst. rewrite (IH cs eq_refl H2). reflexivity.
Qed.

Lemma chars_of_codes_F2 ks text : Forall2 code_of_char ks text -> chars_of_codes ks = Some text.
Proof.
  induction 1 as [|k c ks' text' [_ Hk] _ IH]; simpl; [reflexivity|]. rewrite Hk, IH. reflexivity.
Qed.

Lemma chars_of_codes_zeros n : chars_of_codes (repeat 0 n) = Some (repeat 32%N n).
Proof. induction n; simpl; [reflexivity|]. rewrite IHn. reflexivity. Qed.

Lemma F2_length {A B} (R : A -> B -> Prop) l1 l2 : Forall2 R l1 l2 -> length l1 = length l2.
Proof. induction 1; simpl; congruence. Qed.

Lemma decode_padded ks text :
  Forall2 code_of_char ks text -> chars_of_codes (pad3 0 ks) = Some (pad3 32%N text).
Proof.
  intros F. unfold pad3. rewrite (F2_length _ _ _ F).
  apply chars_of_codes_app; [apply chars_of_codes_F2; exact F | apply chars_of_codes_zeros].
Qed.

(* ---------------------------------------------------------------------------------------------- *)
(* the directive *)
Theorem rad50_directive cs :
  Forall good_chunk cs ->
  exists ws, rad50 rad50_table cs = Ok (flat_map le16 ws) /\
             words_of_bytes (flat_map le16 ws) = ws /\
             Forall (fun w => 0 <= w < 64000) ws /\
             decode ws = Some (pad3 32%N (flat_map chunk_text cs)).
Proof.
  intros G. destruct (chunk_codes_good cs G) as [ks [E F]].
  pose proof (chunk_codes_range cs) as R. rewrite E in R. simpl in R.
  destruct (pack_words_spec (length ks) ks (le_n _) R) as [ws [P [W D]]].
  exists ws. unfold rad50. rewrite E, P. simpl. split; [reflexivity|].
  split; [apply words_of_le16; exact W|]. split; [exact W|].
  unfold decode. rewrite D. apply decode_padded. exact F.
Qed.

(* a plain string: the property text verbatim *)
Corollary rad50_string s :
  Forall (fun ch => accepted_char ch = true) s ->
  exists ws, rad50 rad50_table [Str s] = Ok (flat_map le16 ws) /\
             Forall (fun w => 0 <= w < 64000) ws /\
             decode ws = Some (expected_text s).
Proof.
  intros G. destruct (rad50_directive [Str s]) as [ws [E [_ [W D]]]].
  - constructor; [exact G|constructor].
  - exists ws. split; [exact E|]. split; [exact W|]. simpl in D. rewrite app_nil_r in D. exact D.
Qed.

(* the model never takes the struct.error / ValueError path: '.rad50' ends in bytes or in reported errors *)
Lemma rad50_never_crashes cs :
  (exists bs, rad50 rad50_table cs = Ok bs /\ snd (chunk_codes rad50_table cs) = []) \/
  (exists ids, rad50 rad50_table cs = Err ids /\ ids = snd (chunk_codes rad50_table cs) /\ ids <> []).
Proof.
  pose proof (chunk_codes_range cs) as R. unfold rad50.
  destruct (chunk_codes rad50_table cs) as [ks es]. simpl in R.
  destruct (pack_words_spec (length ks) ks (le_n _) R) as [ws [P _]]. rewrite P. simpl.
  destruct es as [|e es']; [left; eauto | right]. exists (e :: es'). repeat split. discriminate.
Qed.

Theorem rad50_bad_code cs n :
  In (Code n) cs -> n < 0 \/ 40 <= n ->
  exists ids, rad50 rad50_table cs = Err ids /\ In "value-out-of-bounds"%string ids.
Proof.
  intros Hin Hn. pose proof (chunk_codes_bad_code cs n Hin Hn) as B.
  destruct (rad50_never_crashes cs) as [[bs [_ E]]|[ids [E [I _]]]].
  - rewrite E in B. destruct B.
  - exists ids. split; [exact E|]. rewrite I. exact B.
Qed.

Theorem outside_alphabet_error cs s ch :
  In (Str s) cs -> In ch s -> accepted_char ch = false ->
  exists ids, rad50 rad50_table cs = Err ids /\ In "invalid-character"%string ids.
Proof.
  intros Hin Hch Hbad. pose proof (chunk_codes_bad_char cs s ch Hin Hch Hbad) as B.
  destruct (rad50_never_crashes cs) as [[bs [_ E]]|[ids [E [I _]]]].
  - rewrite E in B. destruct B.
  - exists ids. split; [exact E|]. rewrite I. exact B.
Qed.

(* kept for Proofs/AsmTotal.v (another property's file), which still passes a first argument *)
Lemma rad50_total {A} (_ : A) cs :
  (exists bs, rad50 rad50_table cs = Ok bs /\ snd (chunk_codes rad50_table cs) = []) \/
  (exists ids, rad50 rad50_table cs = Err ids /\ ids = snd (chunk_codes rad50_table cs) /\ ids <> []).
Proof. apply rad50_never_crashes. Qed.
Definition ascii_upper (c : N) : list N := [ascii_up c].

(* conversely: if '.rad50' succeeds, every character is an alphabet character in either ASCII case and
   every <n> is a code *)
Theorem rad50_ok_only_if cs bs :
  rad50 rad50_table cs = Ok bs -> Forall good_chunk cs.
Proof.
  intros H. apply Forall_forall. intros c Hc. destruct c as [s|n]; simpl.
  - apply Forall_forall. intros ch Hch. destruct (accepted_char ch) eqn:A; [reflexivity|].
    destruct (outside_alphabet_error cs s ch Hc Hch A) as [ids [E' _]]. congruence.
  - destruct (Z_lt_dec n 0) as [A|A]; [|destruct (Z_le_dec 40 n) as [B|B]; [|lia]].
    + destruct (rad50_bad_code cs n Hc (or_introl A)) as [ids [E _]]. congruence.
    + destruct (rad50_bad_code cs n Hc (or_intror B)) as [ids [E _]]. congruence.
Qed.

(* ---------------------------------------------------------------------------------------------- *)
(* the literal *)
Definition lit_char (c : N) : Prop := accepted_char c = true /\ c <> 32%N.

Definition lit_members : list N :=
  filter (fun x => negb (N.eqb x 32)) rad50_table ++ map ascii_lower (filter (fun x => negb (N.eqb x 32)) rad50_table).

Lemma lit_class_members c : lit_class rad50_table c = true -> In c lit_members.
Proof.
  unfold lit_class, lit_members. intros H. apply orb_prop in H. apply in_or_app.
  destruct H as [H|H]; [left|right];
    apply existsb_exists in H; destruct H as [x [Hx E]]; apply N.eqb_eq in E; subst; exact Hx.
Qed.

Lemma lit_members_ok : forallb (fun x => accepted_char x && negb (N.eqb x 32)) lit_members = true.
Proof. vm_compute. reflexivity. Qed.

Lemma lit_class_sound c : lit_class rad50_table c = true -> lit_char c.
Proof.
  intros H. apply lit_class_members in H. pose proof lit_members_ok as A.
  rewrite forallb_forall in A. specialize (A c H). apply andb_prop in A. destruct A as [A1 A2].
  split; [exact A1|]. apply negb_true_iff in A2. apply N.eqb_neq in A2. exact A2.
Qed.

Definition lit_complete_at (x : N) : bool :=
  implb (accepted_char x && negb (N.eqb x 32)) (lit_class rad50_table x).

Lemma lit_complete_all : forallb lit_complete_at (map N.of_nat (seq 0 128)) = true.
Proof. vm_compute. reflexivity. Qed.

Lemma lit_class_complete c : lit_char c -> lit_class rad50_table c = true.
Proof.
  intros [H Hn]. pose proof (accepted_char_ascii _ H) as Hlt.
  pose proof lit_complete_all as A. rewrite forallb_forall in A.
  assert (Hin : In c (map N.of_nat (seq 0 128))).
  { apply in_map_iff. exists (N.to_nat c). split; [apply N2Nat.id | apply in_seq; lia]. }
  specialize (A c Hin). unfold lit_complete_at in A.
  destruct (lit_class rad50_table c); [reflexivity|].
  rewrite H in A. destruct (N.eqb c 32) eqn:E; [apply N.eqb_eq in E; congruence|]. discriminate A.
Qed.

Lemma lit_class_iff c : lit_class rad50_table c = true <-> lit_char c.
Proof. split; [apply lit_class_sound | apply lit_class_complete]. Qed.

Lemma take_while_app p s rest :
  Forall (fun c => p c = true) s -> match rest with [] => True | c :: _ => p c = false end ->
  take_while p (s ++ rest) = s.
Proof.
  induction 1 as [|c s' Hc _ IH]; intros Hr; simpl.
  - destruct rest as [|c r]; [reflexivity|]. simpl. rewrite Hr. reflexivity.
  - rewrite Hc. rewrite (IH Hr). reflexivity.
Qed.

Lemma map_ascii_up s : map ascii_up s = map fold_case s.
Proof. reflexivity. Qed.

(* one accepted character: the table lookup the literal does and the lookup '.rad50' does agree *)
Lemma accepted_lookup c :
  accepted_char c = true ->
  exists k, index_of rad50_table (fold_case c) = Some k /\ char_code rad50_table c = (k, false) /\
            0 <= k < 40 /\ char_of_code k = Some (fold_case c).
Proof.
  intros H. pose proof (accepted_char_ascii _ H) as Hlt.
  unfold char_code. replace (128 <=? c)%N with false by lia. change (ascii_up c) with (fold_case c).
  unfold accepted_char in H. apply in_alphabet_In in H.
  destruct (index_of_alphabet _ H) as [k [E [R C]]]. rewrite E. exists k. auto.
Qed.

(* pack_to_int on 1..3 characters with known table positions (the ljust(3) padding is position 0) *)
Lemma index_space : index_of rad50_table 32%N = Some 0.
Proof. reflexivity. Qed.

Lemma pack_to_int_3 a b c ka kb kc :
  index_of rad50_table a = Some ka -> index_of rad50_table b = Some kb -> index_of rad50_table c = Some kc ->
  pack_to_int rad50_table [a; b; c] = Ok (ka * 1600 + kb * 40 + kc).
Proof. intros A B C. unfold pack_to_int, encode_char. cbn [length Nat.ltb Nat.leb app repeat Nat.sub]. rewrite A, B, C. reflexivity. Qed.

Lemma pack_to_int_2 a b ka kb :
  index_of rad50_table a = Some ka -> index_of rad50_table b = Some kb ->
  pack_to_int rad50_table [a; b] = Ok (ka * 1600 + kb * 40 + 0).
Proof. intros A B. unfold pack_to_int, encode_char. cbn [length Nat.ltb Nat.leb app repeat Nat.sub]. rewrite A, B, index_space. reflexivity. Qed.

Lemma pack_to_int_1 a ka :
  index_of rad50_table a = Some ka ->
  pack_to_int rad50_table [a] = Ok (ka * 1600 + 0 * 40 + 0).
Proof. intros A. unfold pack_to_int, encode_char. cbn [length Nat.ltb Nat.leb app repeat Nat.sub]. rewrite A, index_space. reflexivity. Qed.

Lemma decode_one a b c ca cb cc :
  0 <= a < 40 -> 0 <= b < 40 -> 0 <= c < 40 ->
  char_of_code a = Some ca -> char_of_code b = Some cb -> char_of_code c = Some cc ->
  decode [a * 1600 + b * 40 + c] = Some [ca; cb; cc].
Proof.
  intros Ha Hb Hc A B C. destruct (pack_unpack a b c Ha Hb Hc) as [U _].
  unfold decode, unpack_all, unpack_list. cbn [flat_map]. rewrite U. cbn [app chars_of_codes].
  rewrite A, B, C. reflexivity.
Qed.

Lemma char_of_code_0 : char_of_code 0 = Some 32%N.
Proof. reflexivity. Qed.

(* ^Rccc, 1..3 characters, is the word '.rad50' emits for the same characters, and it decodes to the
   upper-cased characters padded with spaces *)
Theorem literal_spec s rest :
  (1 <= length s <= 3)%nat -> Forall lit_char s ->
  match rest with [] => True | c :: _ => lit_class rad50_table c = false end ->
  exists w, literal rad50_table (s ++ rest) = Ok w /\
            rad50 rad50_table [Str s] = Ok (le16 w) /\
            0 <= w < 64000 /\
            decode [w] = Some (expected_text s).
Proof.
  intros Hl Hs Hr.
  assert (TW : take_while (lit_class rad50_table) (s ++ rest) = s).
  { apply take_while_app; [|exact Hr]. eapply Forall_impl; [|exact Hs]. intros a A. apply lit_class_iff. exact A. }
  unfold literal. rewrite TW.
  replace (firstn 3 s) with s by (symmetry; apply firstn_all2; lia).
  rewrite map_ascii_up.
  destruct s as [|c1 [|c2 [|c3 [|c4 r]]]]; cbn [length] in Hl; try lia.
  - inversion Hs as [|? ? [A1 _] _]; subst.
    destruct (accepted_lookup c1 A1) as [k1 [I1 [E1 [R1 C1]]]].
    destruct (pack_unpack k1 0 0 R1 ltac:(lia) ltac:(lia)) as [_ Rn].
    exists (k1 * 1600 + 0 * 40 + 0).
    cbn [map]. rewrite (pack_to_int_1 _ _ I1).
    split; [reflexivity|]. split.
    { unfold rad50. cbn [chunk_codes map flat_map app fst snd]. rewrite E1.
      cbn [fst snd err_if app pack_words]. rewrite le16_H by lia. reflexivity. }
    split; [lia|].
    apply (decode_one k1 0 0 _ _ _ R1 ltac:(lia) ltac:(lia) C1 char_of_code_0 char_of_code_0).
  - inversion Hs as [|? ? [A1 _] Hs2]; subst. inversion Hs2 as [|? ? [A2 _] _]; subst.
    destruct (accepted_lookup c1 A1) as [k1 [I1 [E1 [R1 C1]]]].
    destruct (accepted_lookup c2 A2) as [k2 [I2 [E2 [R2 C2]]]].
    destruct (pack_unpack k1 k2 0 R1 R2 ltac:(lia)) as [_ Rn].
    exists (k1 * 1600 + k2 * 40 + 0).
    cbn [map]. rewrite (pack_to_int_2 _ _ _ _ I1 I2).
    split; [reflexivity|]. split.
    { unfold rad50. cbn [chunk_codes map flat_map app fst snd]. rewrite E1, E2.
      cbn [fst snd err_if app pack_words]. rewrite le16_H by lia. reflexivity. }
    split; [lia|].
    apply (decode_one k1 k2 0 _ _ _ R1 R2 ltac:(lia) C1 C2 char_of_code_0).
  - inversion Hs as [|? ? [A1 _] Hs2]; subst. inversion Hs2 as [|? ? [A2 _] Hs3]; subst. inversion Hs3 as [|? ? [A3 _] _]; subst.
    destruct (accepted_lookup c1 A1) as [k1 [I1 [E1 [R1 C1]]]].
    destruct (accepted_lookup c2 A2) as [k2 [I2 [E2 [R2 C2]]]].
    destruct (accepted_lookup c3 A3) as [k3 [I3 [E3 [R3 C3]]]].
    destruct (pack_unpack k1 k2 k3 R1 R2 R3) as [_ Rn].
    exists (k1 * 1600 + k2 * 40 + k3).
    cbn [map]. rewrite (pack_to_int_3 _ _ _ _ _ _ I1 I2 I3).
    split; [reflexivity|]. split.
    { unfold rad50. cbn [chunk_codes map flat_map app fst snd]. rewrite E1, E2, E3.
      cbn [fst snd err_if app pack_words]. rewrite le16_H by lia. cbn [bind app]. rewrite app_nil_r. reflexivity. }
    split; [lia|].
    apply (decode_one k1 k2 k3 _ _ _ R1 R2 R3 C1 C2 C3).
Qed.



(* an empty literal and one longer than three characters are reported *)
Theorem literal_bad_length text :
  (length (take_while (lit_class rad50_table) text) = 0 \/ 3 < length (take_while (lit_class rad50_table) text))%nat ->
  ~ exists w, literal rad50_table text = Ok w.
Proof.
  intros H [w E]. unfold literal in E.
  destruct (pack_to_int rad50_table (map ascii_up (firstn 3 (take_while (lit_class rad50_table) text)))) as [v| | |]; simpl in E; try discriminate.
  destruct (take_while (lit_class rad50_table) text) as [|c m] eqn:T; simpl in *.
  - discriminate.
  - destruct H as [H|H]; [discriminate|].
    destruct (Nat.ltb 3 (S (length m))) eqn:L; simpl in E; [discriminate|].
    apply Nat.ltb_ge in L. lia.
Qed.
