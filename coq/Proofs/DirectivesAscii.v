(* .ascii / .asciz: the bytes are the concatenation of the chunk encodings; anything unencodable or a <n>
   outside 0..255 is an error diagnostic -- no image is produced, so no byte is ever silently substituted.
   Parametric in the output codec. *)
From Coq Require Import String List ZArith NArith ZifyBool Lia Bool.
From Verif Require Import Base.Res Base.Bytes Gen.GenGetAsInt Gen.GenMeta Model.Directives Spec.DataSpec
  Proofs.DirectivesGai Proofs.DirectivesData.
Import ListNotations.
Open Scope string_scope.
Open Scope list_scope.
Open Scope Z_scope.

Lemma uint8_admitted v : admitted 8 true v <-> 0 <= v < 256.
Proof. unfold admitted. change (2 ^ 8) with 256. split; [intros [A B]; specialize (B eq_refl); lia|intros; split; [lia|intros; lia]]. Qed.

(* the <n> chunk as ascii_impl evaluates it: get_as_int(bitness=8, unsigned=True, default=0) *)
Lemma code_in_range v : 0 <= v < 256 -> get_as_int_raw (Some 8) true (Some 0) v = GaiRet v.
Proof.
  intros H. rewrite (proj1 (get_as_int_default 8 true 0 v ltac:(lia)) (proj2 (uint8_admitted v) H)).
  f_equal. change (2 ^ 8) with 256. apply Z.mod_small. exact H.
Qed.
Lemma code_out_of_range v : ~ (0 <= v < 256) -> get_as_int_raw (Some 8) true (Some 0) v = GaiErrRet oob 0.
Proof.
  intros H. apply (proj2 (get_as_int_default 8 true 0 v ltac:(lia))). intros A. apply uint8_admitted in A. contradiction.
Qed.

Section WithCodec.
Variable enc : list N -> option (list Z).

Lemma ascii_impl_char cs :
  exists ds bs, ascii_impl enc cs = Out ds bs /\
    match chunks_bytes enc cs with
    | Some body => ds = [] /\ bs = body
    | None => errors ds <> []
    end.
Proof.
  induction cs as [|c rest IH].
  - exists [], []. split; [reflexivity|]. simpl. auto.
  - destruct IH as [ds [bs [Hr Hc]]]. destruct c as [s|v].
    + (* a string *)
      cbn [ascii_impl chunks_bytes chunk_bytes]. rewrite Hr.
      destruct (enc s) as [b|] eqn:En.
      * cbn [after]. exists ([] ++ ds), (b ++ bs). split; [reflexivity|].
        destruct (chunks_bytes enc rest) as [body|].
        -- destruct Hc as [-> ->]. auto.
        -- exact Hc.
      * cbn [after]. exists ([(E, "invalid-character")] ++ ds), ([] ++ bs). split; [reflexivity|].
        simpl. discriminate.
    + (* a <n> byte *)
      cbn [ascii_impl chunks_bytes chunk_bytes].
      change site_ascii_impl with (Some 8, true, Some 0). cbv iota beta.
      destruct (Z_le_gt_dec 0 v) as [L|G]; [destruct (Z_lt_ge_dec v 256) as [U|U]|].
      * rewrite (code_in_range v (conj L U)). replace (byte_ok v) with true by (unfold byte_ok; lia).
        rewrite Hr. cbn [after]. replace ((0 <=? v) && (v <? 256)) with true by lia.
        exists ([] ++ ds), ([v] ++ bs). split; [reflexivity|].
        destruct (chunks_bytes enc rest) as [body|].
        -- destruct Hc as [-> ->]. auto.
        -- exact Hc.
      * rewrite (code_out_of_range v) by lia. cbn [byte_ok Z.leb Z.ltb Z.compare andb].
        rewrite Hr. cbn [after]. replace ((0 <=? v) && (v <? 256)) with false by lia.
        exists ([(E, oob)] ++ ds), ([0] ++ bs). split; [reflexivity|]. simpl. discriminate.
      * rewrite (code_out_of_range v) by lia. cbn [byte_ok Z.leb Z.ltb Z.compare andb].
        rewrite Hr. cbn [after]. replace ((0 <=? v) && (v <? 256)) with false by lia.
        exists ([(E, oob)] ++ ds), ([0] ++ bs). split; [reflexivity|]. simpl. discriminate.
Qed.

Lemma emit_ascii z cs addr : emit enc (DAscii z [cs]) addr = ascii_body enc z cs.
Proof. destruct z; reflexivity. Qed.

Lemma emit_ascii_wrong_count z ops addr : length ops <> 1%nat -> emit enc (DAscii z ops) addr = wrong_count.
Proof.
  intros H. unfold emit.
  assert (C : forall m, m_min m = 1 -> m_max m = Some 1 -> count_ok m (Z.of_nat (length ops)) = false).
  { intros m H1 H2. unfold count_ok. rewrite H1, H2. lia. }
  destruct z; open_meta; rewrite C by reflexivity; reflexivity.
Qed.

(* every chunk encodable, every <n> in 0..255: exactly the concatenation (plus the 0 of .asciz), silently *)
Lemma ascii_exact z cs body addr :
  chunks_bytes enc cs = Some body ->
  emit enc (DAscii z [cs]) addr = Out [] (body ++ (if z then [0] else [])).
Proof.
  intros Hc. rewrite emit_ascii. unfold ascii_body.
  destruct (ascii_impl_char cs) as [ds [bs [Hr H]]]. rewrite Hc in H. destruct H as [-> ->].
  rewrite Hr. reflexivity.
Qed.

(* otherwise: error diagnostics (the assembly fails, nothing is written) -- never a crash, never silence *)
Lemma ascii_refused z cs addr :
  chunks_bytes enc cs = None ->
  exists ds bs, emit enc (DAscii z [cs]) addr = Out ds bs /\ errors ds <> [].
Proof.
  intros Hc. rewrite emit_ascii. unfold ascii_body.
  destruct (ascii_impl_char cs) as [ds [bs [Hr H]]]. rewrite Hc in H.
  rewrite Hr. eauto.
Qed.

End WithCodec.
