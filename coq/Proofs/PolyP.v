(* Laws of Model/Poly.v (LinearPolynomial). *)
From Coq Require Import List ZArith Lia Bool.
From Verif Require Import Model.Poly.
Import ListNotations.
Open Scope Z_scope.

(* ---------- sums and coefficients of raw term lists ---------- *)
Lemma lsum_nil rho : lsum [] rho = 0. Proof. reflexivity. Qed.
Lemma lsum_cons k v r rho : lsum ((k, v) :: r) rho = v * rho k + lsum r rho. Proof. reflexivity. Qed.
Lemma lcoef_nil x : lcoef x [] = 0. Proof. reflexivity. Qed.
Lemma lcoef_cons x k v r : lcoef x ((k, v) :: r) = if k =? x then v + lcoef x r else lcoef x r. Proof. reflexivity. Qed.
Arguments lsum : simpl never.
Arguments lcoef : simpl never.

Lemma lsum_app l1 l2 rho : lsum (l1 ++ l2) rho = lsum l1 rho + lsum l2 rho.
Proof. induction l1 as [|[k v] r IH]; [reflexivity|]. rewrite <- app_comm_cons, !lsum_cons, IH. lia. Qed.

Lemma lcoef_app x l1 l2 : lcoef x (l1 ++ l2) = lcoef x l1 + lcoef x l2.
Proof.
  induction l1 as [|[k v] r IH]; [reflexivity|]. rewrite <- app_comm_cons, !lcoef_cons, IH.
  destruct (k =? x); lia.
Qed.

Lemma dict_add_sum d k v rho : lsum (dict_add d k v) rho = lsum d rho + v * rho k.
Proof.
  induction d as [|[k' v'] r IH]; cbn [dict_add].
  - rewrite lsum_cons, lsum_nil; lia.
  - destruct (k' =? k) eqn:E.
    + apply Z.eqb_eq in E; subst. rewrite !lsum_cons. lia.
    + rewrite !lsum_cons, IH. lia.
Qed.

Lemma dict_add_coef x d k v : lcoef x (dict_add d k v) = lcoef x d + (if k =? x then v else 0).
Proof.
  induction d as [|[k' v'] r IH]; cbn [dict_add].
  - rewrite lcoef_cons, lcoef_nil. destruct (k =? x); lia.
  - destruct (k' =? k) eqn:E.
    + apply Z.eqb_eq in E; subst. rewrite !lcoef_cons. destruct (k =? x); lia.
    + rewrite !lcoef_cons, IH. destruct (k' =? x); lia.
Qed.

Lemma fold_dict_sum l d rho :
  lsum (fold_left (fun d kv => dict_add d (fst kv) (snd kv)) l d) rho = lsum d rho + lsum l rho.
Proof.
  revert d; induction l as [|[k v] r IH]; intros d; cbn [fold_left fst snd].
  - rewrite lsum_nil; lia.
  - rewrite IH, dict_add_sum, lsum_cons. lia.
Qed.

Lemma fold_dict_coef x l d :
  lcoef x (fold_left (fun d kv => dict_add d (fst kv) (snd kv)) l d) = lcoef x d + lcoef x l.
Proof.
  revert d; induction l as [|[k v] r IH]; intros d; cbn [fold_left fst snd].
  - rewrite lcoef_nil; lia.
  - rewrite IH, dict_add_coef, lcoef_cons. destruct (k =? x); lia.
Qed.

Lemma drop_zero_sum d rho : lsum (drop_zero d) rho = lsum d rho.
Proof.
  induction d as [|[k v] r IH]; [reflexivity|]. unfold drop_zero in *. cbn [filter snd].
  destruct (v =? 0) eqn:E; cbn [negb].
  - apply Z.eqb_eq in E; subst. rewrite lsum_cons, IH; lia.
  - rewrite !lsum_cons, IH; lia.
Qed.

Lemma drop_zero_coef x d : lcoef x (drop_zero d) = lcoef x d.
Proof.
  induction d as [|[k v] r IH]; [reflexivity|]. unfold drop_zero in *. cbn [filter snd].
  destruct (v =? 0) eqn:E; cbn [negb].
  - apply Z.eqb_eq in E; subst. rewrite lcoef_cons, IH. destruct (k =? x); lia.
  - rewrite !lcoef_cons, IH. reflexivity.
Qed.

Lemma eval_mk l c rho : eval (mk l c) rho = lsum l rho + c.
Proof.
  unfold eval, mk, dict_of; simpl. rewrite drop_zero_sum, fold_dict_sum, lsum_nil. lia.
Qed.

Lemma coeff_mk x l c : coeff x (mk l c) = lcoef x l.
Proof.
  unfold coeff, mk, dict_of; simpl. rewrite drop_zero_coef, fold_dict_coef, lcoef_nil. lia.
Qed.

Lemma const_mk l c : const (mk l c) = c.
Proof. reflexivity. Qed.

(* ---------- evaluation is a homomorphism ---------- *)
Lemma lsum_map_scale l k rho : lsum (map (fun kv => (fst kv, snd kv * k)) l) rho = k * lsum l rho.
Proof. induction l as [|[a v] r IH]; [cbn [map]; rewrite !lsum_nil; lia|]. cbn [map fst snd]. rewrite !lsum_cons, IH. lia. Qed.

Lemma lsum_map_neg l rho : lsum (map (fun kv => (fst kv, - snd kv)) l) rho = - lsum l rho.
Proof. induction l as [|[a v] r IH]; [cbn [map]; rewrite !lsum_nil; lia|]. cbn [map fst snd]. rewrite !lsum_cons, IH. lia. Qed.

Lemma lcoef_map_scale x l k : lcoef x (map (fun kv => (fst kv, snd kv * k)) l) = k * lcoef x l.
Proof. induction l as [|[a v] r IH]; [cbn [map]; rewrite !lcoef_nil; lia|]. cbn [map fst snd]. rewrite !lcoef_cons, IH. destruct (a =? x); lia. Qed.

Lemma lcoef_map_neg x l : lcoef x (map (fun kv => (fst kv, - snd kv)) l) = - lcoef x l.
Proof. induction l as [|[a v] r IH]; [cbn [map]; rewrite !lcoef_nil; lia|]. cbn [map fst snd]. rewrite !lcoef_cons, IH. destruct (a =? x); lia. Qed.

Theorem eval_add p q rho : eval (add p q) rho = eval p rho + eval q rho.
Proof. unfold add. rewrite eval_mk, lsum_app. unfold eval. lia. Qed.

Theorem eval_addc p k rho : eval (addc p k) rho = eval p rho + k.
Proof. unfold addc. rewrite eval_mk. unfold eval. lia. Qed.

Theorem eval_neg p rho : eval (neg p) rho = - eval p rho.
Proof. unfold neg. rewrite eval_mk, lsum_map_neg. unfold eval. lia. Qed.

Theorem eval_scale k p rho : eval (scale k p) rho = k * eval p rho.
Proof. unfold scale. rewrite eval_mk, lsum_map_scale. unfold eval. lia. Qed.

Theorem eval_sub p q rho : eval (sub p q) rho = eval p rho - eval q rho.
Proof. unfold sub. rewrite eval_add, eval_neg. lia. Qed.

Theorem eval_pconst c rho : eval (pconst c) rho = c.
Proof. reflexivity. Qed.

Theorem eval_pvar x rho : eval (pvar x) rho = rho x.
Proof. unfold pvar. rewrite eval_mk, lsum_cons, lsum_nil. lia. Qed.

(* ---------- the coefficient map is a homomorphism on the linear fragment ---------- *)
Theorem coeff_add x p q : coeff x (add p q) = coeff x p + coeff x q.
Proof. unfold add. rewrite coeff_mk, lcoef_app. reflexivity. Qed.

Theorem coeff_addc x p k : coeff x (addc p k) = coeff x p.
Proof.
  unfold addc. rewrite coeff_mk. reflexivity.
Qed.

Theorem coeff_neg x p : coeff x (neg p) = - coeff x p.
Proof. unfold neg. rewrite coeff_mk, lcoef_map_neg. reflexivity. Qed.

Theorem coeff_scale x k p : coeff x (scale k p) = k * coeff x p.
Proof. unfold scale. rewrite coeff_mk, lcoef_map_scale. reflexivity. Qed.

Theorem coeff_sub x p q : coeff x (sub p q) = coeff x p - coeff x q.
Proof. unfold sub. rewrite coeff_add, coeff_neg. lia. Qed.

Theorem coeff_pconst x c : coeff x (pconst c) = 0.
Proof. reflexivity. Qed.

Theorem coeff_pvar x y : coeff x (pvar y) = if y =? x then 1 else 0.
Proof. unfold pvar. rewrite coeff_mk, lcoef_cons, lcoef_nil. destruct (y =? x); lia. Qed.

(* (LA + a) - (LA + b): the variable cancels *)
Theorem poly_cancel x a b : coeff x (sub (addc (pvar x) a) (addc (pvar x) b)) = 0.
Proof. rewrite coeff_sub, !coeff_addc. lia. Qed.

Theorem poly_cancel_value x a b rho : eval (sub (addc (pvar x) a) (addc (pvar x) b)) rho = a - b.
Proof. rewrite eval_sub, !eval_addc, eval_pvar. lia. Qed.

(* ---------- dependence on one variable is exactly its coefficient ---------- *)
Lemma lsum_upd l rho x d : lsum l (upd rho x d) = lsum l rho + lcoef x l * (d - rho x).
Proof.
  induction l as [|[k v] r IH]; [rewrite !lsum_nil, lcoef_nil; lia|].
  rewrite !lsum_cons, lcoef_cons, IH. unfold upd at 1. destruct (k =? x) eqn:E.
  - apply Z.eqb_eq in E; subst. lia.
  - lia.
Qed.

Theorem eval_upd p rho x d : eval p (upd rho x d) = eval p rho + coeff x p * (d - rho x).
Proof. unfold eval, coeff. rewrite lsum_upd. lia. Qed.

(* coefficient 0  <=>  the value does not depend on that variable *)
Theorem coeff_zero_iff_independent p x :
  coeff x p = 0 <-> (forall rho d, eval p (upd rho x d) = eval p rho).
Proof.
  split.
  - intros H rho d. rewrite eval_upd, H. lia.
  - intros H. specialize (H (fun _ => 0) 1). rewrite eval_upd in H. lia.
Qed.

(* ---------- normal form ---------- *)
Lemma dict_add_keys d k v :
  map fst (dict_add d k v) = if existsb (fun y => y =? k) (map fst d) then map fst d else map fst d ++ [k].
Proof.
  induction d as [|[k' v'] r IH]; simpl; [reflexivity|].
  destruct (k' =? k) eqn:E; simpl; [reflexivity|].
  rewrite IH. destruct (existsb (fun y => y =? k) (map fst r)); reflexivity.
Qed.

Lemma existsb_eqb_In k l : existsb (fun y => y =? k) l = true <-> In k l.
Proof.
  rewrite existsb_exists. split.
  - intros [y [Hy E]]. apply Z.eqb_eq in E; subst; assumption.
  - intros H. exists k. split; [assumption|apply Z.eqb_refl].
Qed.

Lemma nodup_snoc (l : list var) k : NoDup l -> ~ In k l -> NoDup (l ++ [k]).
Proof.
  induction l as [|a r IH]; simpl; intros Hnd Hin.
  - constructor; [intros []|constructor].
  - inversion Hnd; subst. constructor.
    + intros H. apply in_app_or in H. destruct H as [H|[H|[]]]; [contradiction|]. subst. apply Hin. left; reflexivity.
    + apply IH; [assumption|]. intros H. apply Hin. right; assumption.
Qed.

Lemma dict_add_nodup d k v : NoDup (map fst d) -> NoDup (map fst (dict_add d k v)).
Proof.
  intros H. rewrite dict_add_keys. destruct (existsb (fun y => y =? k) (map fst d)) eqn:E; [assumption|].
  apply nodup_snoc.
  - assumption.
  - intros Hin. apply existsb_eqb_In in Hin. congruence.
Qed.

Lemma fold_dict_nodup l d :
  NoDup (map fst d) -> NoDup (map fst (fold_left (fun d kv => dict_add d (fst kv) (snd kv)) l d)).
Proof.
  revert d; induction l as [|[k v] r IH]; intros d H; simpl; [assumption|].
  apply IH. apply dict_add_nodup. assumption.
Qed.

Lemma filter_keys_nodup (f : var * Z -> bool) d : NoDup (map fst d) -> NoDup (map fst (filter f d)).
Proof.
  induction d as [|[k v] r IH]; simpl; intros H; [constructor|].
  inversion H as [|? ? Hn Hr]; subst.
  destruct (f (k, v)); simpl.
  - constructor; [|apply IH; assumption].
    intros Hin. apply Hn. apply in_map_iff in Hin. destruct Hin as [[k' v'] [E Hin]]. simpl in E; subst.
    apply filter_In in Hin. destruct Hin as [Hin _]. apply in_map_iff. exists (k, v'). split; [reflexivity|assumption].
  - apply IH; assumption.
Qed.

(* what the constructor guarantees: distinct variables and no zero coefficient *)
Theorem wf_mk l c : wf (mk l c).
Proof.
  split.
  - unfold vars, mk, drop_zero, dict_of; simpl. apply filter_keys_nodup. apply fold_dict_nodup. constructor.
  - unfold nonzero_coeffs, mk, drop_zero; simpl. apply Forall_forall. intros [k v] Hin.
    apply filter_In in Hin. destruct Hin as [_ Hnz]. simpl in *.
    apply negb_true_iff in Hnz. apply Z.eqb_neq in Hnz. assumption.
Qed.

Theorem wf_add p q : wf (add p q).        Proof. apply wf_mk. Qed.
Theorem wf_addc p k : wf (addc p k).      Proof. apply wf_mk. Qed.
Theorem wf_neg p : wf (neg p).            Proof. apply wf_mk. Qed.
Theorem wf_scale k p : wf (scale k p).    Proof. apply wf_mk. Qed.
Theorem wf_sub p q : wf (sub p q).        Proof. apply wf_mk. Qed.
Theorem wf_pconst c : wf (pconst c).      Proof. apply wf_mk. Qed.
Theorem wf_pvar x : wf (pvar x).          Proof. apply wf_mk. Qed.
Theorem wf_wait_step s p : wf (wait_step s p).
Proof. unfold wait_step. destruct (wait_terms s (coeffs p)). apply wf_mk. Qed.

Theorem normal_form_no_zero l c : Forall (fun kv => snd kv <> 0) (coeffs (mk l c)).
Proof. apply wf_mk. Qed.

(* in normal form, a listed variable has its listed (non-zero) coefficient *)
Lemma lcoef_notin x l : ~ In x (map fst l) -> lcoef x l = 0.
Proof.
  induction l as [|[k v] r IH]; unfold lcoef in *; simpl; intros H; [reflexivity|].
  destruct (k =? x) eqn:E.
  - apply Z.eqb_eq in E. exfalso. apply H. left; assumption.
  - apply IH. intros Hin. apply H. right; assumption.
Qed.

Theorem is_const_coeffs p : is_const p = true -> forall x, coeff x p = 0.
Proof. unfold is_const, coeff. destruct (coeffs p); [reflexivity|discriminate]. Qed.

Theorem wf_all_coeff_zero_is_const p : wf p -> (forall x, coeff x p = 0) -> is_const p = true.
Proof.
  unfold wf, vars, nonzero_coeffs, is_const, coeff. destruct (coeffs p) as [|[k v] r]; [reflexivity|].
  intros [Hnd Hnz] H. exfalso. specialize (H k). unfold lcoef in H; simpl in H. rewrite Z.eqb_refl in H.
  simpl in Hnd. inversion Hnd; subst. inversion Hnz; subst. simpl in *.
  fold (lcoef k r) in H. rewrite lcoef_notin in H by assumption. lia.
Qed.

(* is_const is complete: it answers "no variable" exactly when the value is the same under
   every assignment *)
Theorem is_const_complete p : wf p ->
  (is_const p = true <-> forall rho rho', eval p rho = eval p rho').
Proof.
  intros Hwf. split.
  - unfold is_const, eval. destruct (coeffs p); [reflexivity|discriminate].
  - intros H. apply wf_all_coeff_zero_is_const; [assumption|].
    intros x. apply coeff_zero_iff_independent. intros rho d. apply H.
Qed.

Theorem is_const_eval p rho : is_const p = true -> eval p rho = const p.
Proof. unfold is_const, eval. destruct (coeffs p); [reflexivity|discriminate]. Qed.

(* ---------- _wait: substitution preserves the value ---------- *)
Definition agrees (sigma : var -> option poly) (rho : var -> Z) : Prop :=
  forall x q, sigma x = Some q -> eval q rho = rho x.

Lemma wait_terms_sum sigma rho l :
  agrees sigma rho ->
  lsum (fst (wait_terms sigma l)) rho + snd (wait_terms sigma l) = lsum l rho.
Proof.
  intros Hag. induction l as [|[k v] r IH]; [reflexivity|]. cbn [wait_terms].
  destruct (wait_terms sigma r) as [ts c] eqn:E. cbn [fst snd] in IH.
  destruct (sigma k) as [q|] eqn:Es; cbn [fst snd].
  - rewrite lsum_app, lsum_map_scale, lsum_cons. specialize (Hag k q Es). unfold eval in Hag. nia.
  - rewrite !lsum_cons. lia.
Qed.

Theorem eval_wait_step sigma rho p : agrees sigma rho -> eval (wait_step sigma p) rho = eval p rho.
Proof.
  intros Hag. unfold wait_step. pose proof (wait_terms_sum sigma rho (coeffs p) Hag) as H.
  destruct (wait_terms sigma (coeffs p)) as [ts c]. simpl in H. rewrite eval_mk. unfold eval. lia.
Qed.

(* ---------- evaluation only looks at the assignment pointwise ---------- *)
Lemma lsum_ext l rho rho' : (forall x, rho x = rho' x) -> lsum l rho = lsum l rho'.
Proof.
  intros H. induction l as [|[k v] r IH]; [reflexivity|]. rewrite !lsum_cons, IH, H. reflexivity.
Qed.

Theorem eval_ext p rho rho' : (forall x, rho x = rho' x) -> eval p rho = eval p rho'.
Proof. intros H. unfold eval. rewrite (lsum_ext _ rho rho' H). reflexivity. Qed.

(* a polynomial that is not constant has a variable on which its value really depends *)
Theorem not_const_depends p : wf p -> is_const p = false ->
  exists x, coeff x p <> 0 /\ forall rho, eval p (upd rho x (rho x + 1)) <> eval p rho.
Proof.
  unfold wf, vars, nonzero_coeffs, is_const. intros [Hnd Hnz] Hc.
  destruct (coeffs p) as [|[k v] r] eqn:E; [discriminate|].
  simpl in Hnd. inversion Hnd; subst. inversion Hnz; subst. simpl in *.
  assert (Hk : coeff k p = v).
  { unfold coeff. rewrite E, lcoef_cons, Z.eqb_refl, lcoef_notin by assumption. lia. }
  exists k. split; [lia|]. intros rho. rewrite eval_upd, Hk. nia.
Qed.

(* ---------- _substitute_known_variables (the code since commit 0fa6448) ---------- *)
Definition valof (v : value) (rho : var -> Z) : Z :=
  match v with VPoly p => eval p rho | VVar y => rho y end.
Definition valof_end (e : endp) (rho : var -> Z) : Z :=
  match e with EPoly p => eval p rho | EVar y => rho y end.

(* the assignment gives every settled variable the value it is settled to *)
Definition wagrees (w : world) (rho : var -> Z) : Prop :=
  forall x v, lookupv (settled w) x = Some v -> valof v rho = rho x.

Lemma follow_value fuel w rho : wagrees w rho -> forall exp v b e,
  follow fuel w exp v = (b, e) -> valof_end e rho = valof v rho.
Proof.
  intros Hw. induction fuel as [|f IH]; intros exp v b e H; destruct v as [p|y]; simpl in H.
  - inversion H; reflexivity.
  - destruct (memv y (awaiting w) || memv y exp); inversion H; reflexivity.
  - inversion H; reflexivity.
  - destruct (memv y (awaiting w) || memv y exp); [inversion H; reflexivity|].
    destruct (lookupv (settled w) y) as [v'|] eqn:E; [|inversion H; reflexivity].
    rewrite (IH _ _ _ _ H). apply (Hw y v' E).
Qed.

Lemma estimate_end_value w rho e : wagrees w rho -> valof_end (estimate_end w e) rho = valof_end e rho.
Proof.
  intros Hw. destruct e as [y|p]; simpl; [|reflexivity].
  destruct (lookupv (settled w) y) as [[q|z]|] eqn:E; simpl; try reflexivity; apply (Hw y _ E).
Qed.

Lemma expand_value fuel w rho : wagrees w rho -> forall exp k c ts c0 nr,
  expand fuel w exp k c = (ts, c0, nr) -> lsum ts rho + c0 = c * rho k.
Proof.
  intros Hw. induction fuel as [|f IH]; intros exp k c ts c0 nr H; simpl in H.
  - destruct (memv k exp); inversion H; subst; rewrite lsum_cons, lsum_nil; lia.
  - destruct (memv k exp); [inversion H; subst; rewrite lsum_cons, lsum_nil; lia|].
    destruct (match try_wait w k with None => (false, EVar k) | Some v => follow f w exp v end) as [computed e] eqn:Ef.
    assert (He : valof_end e rho = rho k).
    { unfold try_wait in Ef. destruct (memv k (awaiting w)); [inversion Ef; reflexivity|].
      destruct (lookupv (settled w) k) as [v|] eqn:El; [|inversion Ef; reflexivity].
      rewrite (follow_value f w rho Hw _ _ _ _ Ef). apply (Hw k v El). }
    pose proof (estimate_end_value w rho e Hw) as Hest. rewrite He in Hest.
    destruct (estimate_end w e) as [z|p]; simpl in Hest.
    + inversion H; subst. rewrite lsum_cons, lsum_nil. lia.
    + set (go := fix go (l : list (var * Z)) : list (var * Z) * Z * list var :=
               match l with
               | [] => ([], 0, [])
               | (k1, v1) :: r =>
                   let '(t1, c1, n1) := expand f w (k :: exp) k1 (v1 * c) in
                   let '(t2, c2, n2) := go r in
                   (t1 ++ t2, c1 + c2, n1 ++ n2)
               end) in *.
      assert (G : forall l ts' c' n', go l = (ts', c', n') -> lsum ts' rho + c' = c * lsum l rho).
      { induction l as [|[k1 v1] r IHl]; intros ts' c' n' Hg; simpl in Hg.
        - inversion Hg; subst. rewrite !lsum_nil. lia.
        - destruct (expand f w (k :: exp) k1 (v1 * c)) as [[t1 c1] n1] eqn:E1.
          destruct (go r) as [[t2 c2] n2] eqn:E2. inversion Hg; subst.
          rewrite lsum_app, lsum_cons. specialize (IH _ _ _ _ _ _ E1). specialize (IHl _ _ _ eq_refl). nia. }
      destruct (go (coeffs p)) as [[ts' c'] n'] eqn:Eg. inversion H; subst.
      specialize (G _ _ _ _ Eg). unfold eval in Hest. nia.
Qed.

Lemma subst_terms_value w rho : wagrees w rho -> forall l ts c0 nr,
  subst_terms w l = (ts, c0, nr) -> lsum ts rho + c0 = lsum l rho.
Proof.
  intros Hw. induction l as [|[k1 v1] r IHl]; intros ts c0 nr H; cbn [subst_terms] in H.
  - inversion H; subst. rewrite !lsum_nil. lia.
  - destruct (expand (sub_fuel w) w [] k1 v1) as [[t1 c1] n1] eqn:E1.
    destruct (subst_terms w r) as [[t2 c2] n2] eqn:E2. inversion H; subst.
    rewrite lsum_app, lsum_cons. pose proof (expand_value _ w rho Hw _ _ _ _ _ _ E1).
    specialize (IHl _ _ _ eq_refl). lia.
Qed.

(* substitution never changes the value of the polynomial *)
Theorem substitute_sound w rho p : wagrees w rho -> eval (fst (substitute w p)) rho = eval p rho.
Proof.
  intros Hw. unfold substitute.
  destruct (subst_terms w (coeffs p)) as [[ts c0] nr] eqn:Eg. simpl. rewrite eval_mk.
  pose proof (subst_terms_value w rho Hw _ _ _ _ Eg). unfold eval. lia.
Qed.

Theorem wf_substitute w p : wf (fst (substitute w p)).
Proof.
  unfold substitute. destruct (subst_terms w (coeffs p)) as [[ts c0] nr]. apply wf_mk.
Qed.

(* ---------- completeness of the substitution: nothing that is known is left in the result ----------
   Hypothesis: "is defined through" is well founded (a rank that decreases from a settled variable to
   everything its value mentions).  Variables may be in the middle of being computed (awaiting): that
   is exactly the situation in which the link base is solved.  Every variable of the substituted
   polynomial is then [residual]: not settled, or being computed, or the value (one step, as
   get_current_best_estimate gives it) of a variable that is being computed. *)
Section Complete.
Variable w : world.
Variable rk : var -> nat.
Hypothesis rk_var : forall x y, lookupv (settled w) x = Some (VVar y) -> (rk y < rk x)%nat.
Hypothesis rk_poly : forall x p y, lookupv (settled w) x = Some (VPoly p) -> In y (vars p) -> (rk y < rk x)%nat.

Definition unsettled (z : var) : Prop := lookupv (settled w) z = None.
Definition residual (z : var) : Prop :=
  unsettled z \/ memv z (awaiting w) = true \/
  exists y, memv y (awaiting w) = true /\ lookupv (settled w) y = Some (VVar z).

Lemma memv_In x l : memv x l = true -> In x l.
Proof.
  unfold memv. rewrite existsb_exists. intros [y [Hy E]]. apply Z.eqb_eq in E. subst. assumption.
Qed.

Lemma memv_high x exp n : (rk x < n)%nat -> (forall e, In e exp -> (n <= rk e)%nat) -> memv x exp = false.
Proof.
  intros Hx He. destruct (memv x exp) eqn:E; [|reflexivity]. apply memv_In in E. specialize (He x E). lia.
Qed.

Definition vrank_ok (n : nat) (v : value) : Prop :=
  match v with VVar y => (rk y < n)%nat | VPoly p => forall z, In z (vars p) -> (rk z < n)%nat end.

Lemma settled_rank x v : lookupv (settled w) x = Some v -> vrank_ok (rk x) v.
Proof.
  intros E. destruct v as [q|y]; simpl; [intros z Hz; exact (rk_poly x q z E Hz)|exact (rk_var x y E)].
Qed.

(* where a chain stops: at a polynomial, or at a variable that is unsettled or being computed *)
Lemma follow_complete : forall f n exp v b e,
  (n <= f)%nat -> vrank_ok n v -> (forall x, In x exp -> (n <= rk x)%nat) ->
  follow f w exp v = (b, e) ->
  match e with
  | EPoly p => forall z, In z (vars p) -> (rk z < n)%nat
  | EVar y => (rk y < n)%nat /\ (unsettled y \/ memv y (awaiting w) = true)
  end.
Proof.
  induction f as [|f IH]; intros n exp v b e Hf Hv Hexp H; destruct v as [p|y]; simpl in H, Hv.
  - inversion H; subst. exact Hv.
  - lia.
  - inversion H; subst. exact Hv.
  - rewrite (memv_high y exp n Hv Hexp), orb_false_r in H.
    destruct (memv y (awaiting w)) eqn:Ea; [inversion H; subst; auto|].
    destruct (lookupv (settled w) y) as [v'|] eqn:E.
    + assert (Hexp' : forall x, In x (y :: exp) -> (rk y <= rk x)%nat).
      { intros x [Hx|Hx]; [subst; lia|specialize (Hexp x Hx); lia]. }
      specialize (IH (rk y) (y :: exp) v' b e ltac:(lia) (settled_rank y v' E) Hexp' H).
      destruct e as [y'|q].
      * destruct IH; split; [lia|assumption].
      * intros z Hz. specialize (IH z Hz). lia.
    + inversion H; subst. split; [assumption|left; assumption].
Qed.

Lemma expand_complete : forall f exp k c ts c0 nr,
  (rk k < f)%nat -> (forall x, In x exp -> (rk k < rk x)%nat) ->
  expand f w exp k c = (ts, c0, nr) ->
  forall z cz, In (z, cz) ts -> residual z.
Proof.
  induction f as [|f IH]; intros exp k c ts c0 nr Hf Hexp H z cz Hin; [lia|].
  simpl in H.
  assert (Hm : memv k exp = false).
  { destruct (memv k exp) eqn:E; [|reflexivity]. apply memv_In in E. specialize (Hexp k E). lia. }
  rewrite Hm in H.
  (* where the chain stops: a polynomial below rk k, or a variable at most rk k that is unsettled or awaited *)
  destruct (match try_wait w k with None => (false, EVar k) | Some v => follow f w exp v end) as [computed e] eqn:Ef.
  assert (Hfc : match e with
                | EPoly p => forall z, In z (vars p) -> (rk z < rk k)%nat
                | EVar y => (rk y <= rk k)%nat /\ (unsettled y \/ memv y (awaiting w) = true)
                end).
  { unfold try_wait in Ef. destruct (memv k (awaiting w)) eqn:Ea.
    - inversion Ef; subst. split; [lia|right; assumption].
    - destruct (lookupv (settled w) k) as [v|] eqn:Ek.
      + assert (Hexp' : forall x, In x exp -> (rk k <= rk x)%nat) by (intros x Hx; specialize (Hexp x Hx); lia).
        pose proof (follow_complete f (rk k) exp v computed e ltac:(lia) (settled_rank k v Ek) Hexp' Ef) as G.
        destruct e as [y|p]; [destruct G; split; [lia|assumption]|exact G].
      + inversion Ef; subst. split; [lia|left; assumption]. }
  assert (Hrec : forall p, (forall z, In z (vars p) -> (rk z < rk k)%nat) ->
           forall ts' c' n',
           (fix go (l : list (var * Z)) : list (var * Z) * Z * list var :=
               match l with
               | [] => ([], 0, [])
               | (k1, v1) :: r =>
                   let '(t1, c1, n1) := expand f w (k :: exp) k1 (v1 * c) in
                   let '(t2, c2, n2) := go r in
                   (t1 ++ t2, c1 + c2, n1 ++ n2)
               end) (coeffs p) = (ts', c', n') ->
           forall z' cz', In (z', cz') ts' -> residual z').
  { intros p Hp. unfold vars in Hp. induction (coeffs p) as [|[k1 v1] r IHl]; intros ts' c' n' Hg z' cz' Hin'.
    - inversion Hg; subst. destruct Hin'.
    - destruct (expand f w (k :: exp) k1 (v1 * c)) as [[t1 c1] n1] eqn:E1.
      match type of Hg with context [?G r] => destruct (G r) as [[t2 c2] n2] eqn:E2 end.
      inversion Hg; subst.
      apply in_app_or in Hin'. destruct Hin' as [Hin'|Hin'].
      + assert (Hk1 : (rk k1 < rk k)%nat) by (apply Hp; left; reflexivity).
        assert (Hx' : forall x, In x (k :: exp) -> (rk k1 < rk x)%nat).
        { intros x [Hx|Hx]; [subst; lia|specialize (Hexp x Hx); lia]. }
        exact (IH (k :: exp) k1 (v1 * c) t1 c1 n1 ltac:(lia) Hx' E1 z' cz' Hin').
      + exact (IHl (fun y Hy => Hp y (or_intror Hy)) t2 c2 n2 eq_refl z' cz' Hin'). }
  destruct e as [y|p]; simpl in H.
  - destruct Hfc as [Hry Hy].
    destruct (lookupv (settled w) y) as [[q|z']|] eqn:Ey.
    + (* y is being computed and settled to a polynomial *)
      match type of H with context [?G (coeffs q)] => destruct (G (coeffs q)) as [[ts' c'] n'] eqn:Eg end.
      inversion H; subst.
      refine (Hrec q _ _ _ _ Eg z cz Hin).
      intros z0 Hz0. pose proof (rk_poly y q z0 Ey Hz0). lia.
    + inversion H; subst. destruct Hin as [Hin|[]]. inversion Hin; subst.
      destruct Hy as [Hy|Hy]; [unfold unsettled in Hy; congruence|].
      right; right. exists y. split; assumption.
    + inversion H; subst. destruct Hin as [Hin|[]]. inversion Hin; subst. left. exact Ey.
  - match type of H with context [?G (coeffs p)] => destruct (G (coeffs p)) as [[ts' c'] n'] eqn:Eg end.
    inversion H; subst. exact (Hrec p Hfc _ _ _ Eg z cz Hin).
Qed.

Lemma subst_terms_complete : forall l ts c0 nr,
  (forall y, In y (map fst l) -> (rk y < sub_fuel w)%nat) ->
  subst_terms w l = (ts, c0, nr) -> forall z cz, In (z, cz) ts -> residual z.
Proof.
  induction l as [|[k1 v1] r IHl]; intros ts c0 nr Hl H z cz Hin; cbn [subst_terms] in H.
  - inversion H; subst. destruct Hin.
  - destruct (expand (sub_fuel w) w [] k1 v1) as [[t1 c1] n1] eqn:E1.
    destruct (subst_terms w r) as [[t2 c2] n2] eqn:E2. inversion H; subst.
    apply in_app_or in Hin. destruct Hin as [Hin|Hin].
    + exact (expand_complete (sub_fuel w) [] k1 v1 t1 c1 n1 (Hl k1 (or_introl eq_refl)) (fun x (F : In x []) => match F with end) E1 z cz Hin).
    + exact (IHl t2 c2 n2 (fun y Hy => Hl y (or_intror Hy)) eq_refl z cz Hin).
Qed.

Lemma mk_vars_sub l c z : In z (vars (mk l c)) -> exists cz, In (z, cz) l.
Proof.
  unfold vars, mk, drop_zero, dict_of. simpl. intros H.
  apply in_map_iff in H. destruct H as [[z' cz] [E H]]. simpl in E; subst.
  apply filter_In in H. destruct H as [H _].
  assert (G : forall l d, In (z, cz) (fold_left (fun d kv => dict_add d (fst kv) (snd kv)) l d) ->
              In z (map fst d) \/ In z (map fst l)).
  { clear. induction l as [|[k v] r IH]; intros d H; simpl in H.
    - left. apply in_map_iff. exists (z, cz). split; [reflexivity|assumption].
    - apply IH in H. destruct H as [H|H]; [|right; right; assumption].
      rewrite dict_add_keys in H. destruct (existsb (fun y => y =? k) (map fst d)); [left; assumption|].
      apply in_app_or in H. destruct H as [H|[H|[]]]; [left; assumption|right; left; simpl; congruence]. }
  apply G in H. destruct H as [[]|H]. apply in_map_iff in H. destruct H as [[z' c'] [E H]]. simpl in E; subst. eauto.
Qed.

Theorem substitute_complete p :
  (forall y, In y (vars p) -> (rk y < sub_fuel w)%nat) ->
  forall z, In z (vars (fst (substitute w p))) -> residual z.
Proof.
  intros Hp z Hz. unfold substitute in Hz.
  destruct (subst_terms w (coeffs p)) as [[ts c0] nr] eqn:E. simpl in Hz.
  apply mk_vars_sub in Hz. destruct Hz as [cz Hin].
  exact (subst_terms_complete (coeffs p) ts c0 nr Hp E z cz Hin).
Qed.

(* with nothing being computed, [residual] is [unsettled] *)
Corollary substitute_complete_quiet p : awaiting w = [] ->
  (forall y, In y (vars p) -> (rk y < sub_fuel w)%nat) ->
  forall z, In z (vars (fst (substitute w p))) -> unsettled z.
Proof.
  intros Ha Hp z Hz. destruct (substitute_complete p Hp z Hz) as [H|[H|[y [H _]]]]; [exact H| |];
  rewrite Ha in H; discriminate.
Qed.
End Complete.

(* ---------- semantic completeness: what cancels in every consistent world cancels symbolically ----------
   The statement that Props/C12_findings.v refutes for the one-level substitution of the old code holds
   for the new one (nothing being computed, well-founded definitions): if the polynomial has the same
   value under EVERY assignment that gives the settled variables the values they are settled to, the
   substituted polynomial is a constant. *)
Lemma lsum_agree l rho rho' : (forall z, In z (map fst l) -> rho z = rho' z) -> lsum l rho = lsum l rho'.
Proof.
  induction l as [|[k v] r IH]; intros H; [reflexivity|]. rewrite !lsum_cons.
  rewrite (H k (or_introl eq_refl)), IH; [reflexivity|]. intros z Hz. apply H. right. exact Hz.
Qed.

Lemma eval_agree p rho rho' : (forall z, In z (vars p) -> rho z = rho' z) -> eval p rho = eval p rho'.
Proof. intros H. unfold eval. rewrite (lsum_agree _ rho rho' H). reflexivity. Qed.

Section Semantic.
Variable w : world.
Variable rk : var -> nat.
Hypothesis rk_var : forall x y, lookupv (settled w) x = Some (VVar y) -> (rk y < rk x)%nat.
Hypothesis rk_poly : forall x p y, lookupv (settled w) x = Some (VPoly p) -> In y (vars p) -> (rk y < rk x)%nat.

(* the consistent assignment that extends arbitrary values of the unsettled variables *)
Fixpoint ext (n : nat) (rho0 : var -> Z) (x : var) : Z :=
  match n with
  | O => rho0 x
  | S m => match lookupv (settled w) x with
           | None => rho0 x
           | Some (VVar y) => ext m rho0 y
           | Some (VPoly q) => eval q (ext m rho0)
           end
  end.

Lemma ext_stable rho0 : forall n m x, (rk x < n)%nat -> (rk x < m)%nat -> ext n rho0 x = ext m rho0 x.
Proof.
  induction n as [|n IH]; intros m x Hn Hm; [lia|]. destruct m as [|m]; [lia|]. simpl.
  destruct (lookupv (settled w) x) as [[q|y]|] eqn:E; [| |reflexivity].
  - apply eval_agree. intros z Hz. pose proof (rk_poly x q z E Hz). apply IH; lia.
  - pose proof (rk_var x y E). apply IH; lia.
Qed.

Definition extend (rho0 : var -> Z) : var -> Z := fun x => ext (S (rk x)) rho0 x.

Lemma extend_agrees rho0 : wagrees w (extend rho0).
Proof.
  intros x v E. unfold extend at 2. simpl. rewrite E. destruct v as [q|y]; simpl.
  - apply eval_agree. intros z Hz. pose proof (rk_poly x q z E Hz). unfold extend. apply ext_stable; lia.
  - pose proof (rk_var x y E). unfold extend. apply ext_stable; lia.
Qed.

Lemma extend_unsettled rho0 z : lookupv (settled w) z = None -> extend rho0 z = rho0 z.
Proof. intros E. unfold extend. simpl. rewrite E. reflexivity. Qed.

Theorem substitute_semantically_complete p c :
  awaiting w = [] ->
  (forall y, In y (vars p) -> (rk y < sub_fuel w)%nat) ->
  (forall rho, wagrees w rho -> eval p rho = c) ->
  is_const (fst (substitute w p)) = true.
Proof.
  intros Ha Hp Hc. apply is_const_complete; [apply wf_substitute|].
  assert (G : forall rho0, eval (fst (substitute w p)) rho0 = c).
  { intros rho0. rewrite <- (Hc (extend rho0) (extend_agrees rho0)).
    rewrite <- (substitute_sound w (extend rho0) p (extend_agrees rho0)).
    apply eval_agree. intros z Hz. symmetry. apply extend_unsettled.
    exact (substitute_complete_quiet w rk rk_var rk_poly p Ha Hp z Hz). }
  intros rho rho'. rewrite !G. reflexivity.
Qed.
End Semantic.
