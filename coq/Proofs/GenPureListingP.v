(* Proofs/GenPureListingP.v -- Gen/GenPureListing.v (the value column of a listing line, regenerated from
   Compiler.generate_listing on every run by tools/gens/gen_pure.py) is EQUAL to Model.ListingM.fmt_value (C19). *)
From Coq Require Import String Ascii List ZArith NArith Bool Lia ZifyBool.
From Verif Require Import Base.Res Gen.GenPure Gen.GenPureListing Model.ListingM Proofs.GenPureP Proofs.ListingP.
Import ListNotations.
Ltac Zify.zify_post_hook ::= Z.to_euclidean_division_equations.
Open Scope list_scope.
Open Scope Z_scope.

(* the code points of a Coq string (the model's strings are byte strings; the characters here are ASCII) *)
Definition codes (s : string) : list N := map N_of_ascii (list_ascii_of_string s).

Lemma codes_app a b : codes (a ++ b)%string = codes a ++ codes b.
Proof. unfold codes. induction a as [|c a IH]; [reflexivity|]. cbn. f_equal. exact IH. Qed.

Lemma codes_length s : length (codes s) = String.length s.
Proof. unfold codes. induction s as [|c s IH]; [reflexivity|]. cbn. f_equal. exact IH. Qed.

Lemma codes_repeat c n : codes (repeat_char c n) = repeat (N_of_ascii c) n.
Proof. unfold codes. induction n as [|n IH]; [reflexivity|]. cbn. f_equal. exact IH. Qed.

Lemma codes_rjust w c s : codes (rjust w c s) = py_rjust (codes s) (Z.of_nat w) (N_of_ascii c).
Proof.
  unfold rjust, py_rjust. rewrite codes_app, codes_repeat, codes_length. f_equal. f_equal. lia.
Qed.

(* digits, least significant first, pushed in front of acc: most significant first *)
Fixpoint rev_codes (ds acc : list N) : list N :=
  match ds with [] => acc | d :: r => rev_codes r ((48 + d)%N :: acc) end.

Lemma codes_rev_digits ds : Forall (fun d => (d < 8)%N) ds -> forall s,
  codes (string_of_rev_digits ds s) = rev_codes ds (codes s).
Proof.
  induction 1 as [|d r Hd Hr IH]; intros s; [reflexivity|].
  cbn [string_of_rev_digits rev_codes]. rewrite IH. f_equal.
  unfold codes. cbn [list_ascii_of_string map]. f_equal.
  unfold digit_char. apply N_ascii_embedding. lia.
Qed.

Lemma oct_digits_unfold n :
  oct_digits n = if (n / 8 =? 0)%N then [(n mod 8)%N] else (n mod 8)%N :: oct_digits (n / 8).
Proof.
  destruct n as [|p]; [reflexivity|].
  destruct p as [[[q|q|]|[q|q|]|]|[[q|q|]|[q|q|]|]|]; try reflexivity.
  all: match goal with |- oct_digits (N.pos ?P) = _ =>
         let t := eval cbn [oct_digits oct_pos] in (oct_digits (N.pos P)) in
         match t with
         | ?d :: oct_pos ?q =>
             assert (E1 : (N.pos P / 8 = N.pos q)%N) by lia;
             assert (E2 : (N.pos P mod 8 = d)%N) by lia;
             rewrite E1, E2; reflexivity
         end
       end.
Qed.

Lemma oct_fuel_is_model fuel : forall n acc, 0 <= n < 8 ^ Z.of_nat (S fuel) ->
  oct_digits_fuel (S fuel) n acc = rev_codes (oct_digits (Z.to_N n)) acc.
Proof.
  induction fuel as [|k IH]; intros n acc H.
  - cbn [oct_digits_fuel]. change (8 ^ Z.of_nat 1) with 8 in H.
    assert (E : n / 8 = 0) by lia. rewrite E. cbn [Z.eqb].
    rewrite oct_digits_unfold.
    assert (E1 : (Z.to_N n / 8 = 0)%N) by lia. rewrite E1. cbn [N.eqb rev_codes].
    f_equal. lia.
  - cbn [oct_digits_fuel]. rewrite (oct_digits_unfold (Z.to_N n)).
    assert (P : 8 ^ Z.of_nat (S (S k)) = 8 * 8 ^ Z.of_nat (S k)).
    { rewrite (Nat2Z.inj_succ (S k)), Z.pow_succ_r by lia. reflexivity. }
    assert (D : (48 + Z.to_N n mod 8)%N = Z.to_N (48 + n mod 8)) by lia.
    destruct (Z.eqb_spec (n / 8) 0) as [E|E].
    + assert (E1 : (Z.to_N n / 8 = 0)%N) by lia. rewrite E1. cbn [N.eqb rev_codes]. rewrite D. reflexivity.
    + assert (E1 : (Z.to_N n / 8)%N = Z.to_N (n / 8)) by lia.
      destruct (N.eqb_spec (Z.to_N n / 8) 0) as [E2|E2]; [lia|].
      cbn [rev_codes]. rewrite D, E1. apply IH. lia.
Qed.

Lemma fuel_enough z : 0 <= z -> z < 8 ^ Z.of_nat (S (Z.to_nat (Z.log2 z))).
Proof.
  intros H. destruct (Z.eq_dec z 0) as [->|N]; [reflexivity|].
  pose proof (Z.log2_spec z ltac:(lia)) as [_ L]. pose proof (Z.log2_nonneg z) as G.
  rewrite Nat2Z.inj_succ, Z2Nat.id by exact G.
  eapply Z.lt_le_trans; [exact L|]. apply Z.pow_le_mono_l. lia.
Qed.

Lemma py_oct_is_model z : 0 <= z -> GenPure.py_oct z = codes (ListingM.py_oct z).
Proof.
  intros H. unfold GenPure.py_oct, ListingM.py_oct.
  destruct (Z.ltb_spec z 0) as [C|_]; [lia|].
  rewrite codes_app. f_equal. rewrite Z.abs_eq by exact H.
  rewrite oct_fuel_is_model by (split; [exact H|apply fuel_enough; exact H]).
  unfold oct_str. rewrite codes_rev_digits by (apply oct_digits_spec).
  replace (Z.abs_N z) with (Z.to_N z) by lia. reflexivity.
Qed.

(* ("-" if value < 0 else "") + oct(abs(value))[2:].rjust(6, "0") *)
Lemma listing_value_is_model v : listing_value v = codes (fmt_value v).
Proof.
  unfold listing_value, fmt_value. rewrite codes_app. f_equal; [destruct (v <? 0); reflexivity|].
  rewrite (codes_rjust 6 "0"). change (Z.of_nat 6) with 6. change (N_of_ascii "0") with 48%N. f_equal.
  rewrite py_oct_is_model by lia. change 2 with (Z.of_nat 2). rewrite py_slice_from.
  unfold ListingM.py_oct. destruct (Z.ltb_spec (Z.abs v) 0) as [C|_]; [lia|]. reflexivity.
Qed.
