(* quoted strings: reading back the canonical spelling (Spec.DataSpec.escape) of any string gives the string,
   silently, and leaves the text after the closing quote untouched. *)
From Coq Require Import String List ZArith NArith ZifyBool Lia Bool.
From Verif Require Import Base.Range Model.Directives Spec.DataSpec.
Import ListNotations.
Open Scope list_scope.
Open Scope N_scope.

Definition is_quote (q : N) : Prop := q = 34 \/ q = 39 \/ q = 47.

(* the hex digits written by [escape] are read back, and are neither blanks nor ';' *)
Lemma hexdigit_ok k : k < 16 ->
  hex_val (hexdigit k) = Some k /\ py_space (hexdigit k) = false /\ (hexdigit k =? 59) = false.
Proof.
  intros H.
  assert (A : forallb (fun k => match hex_val (hexdigit k) with Some k' => k' =? k | None => false end
                                && negb (py_space (hexdigit k)) && negb (hexdigit k =? 59)) (nrange 16) = true)
    by (vm_compute; reflexivity).
  pose proof (nrange_forallb 16 _ A k H) as B. cbv beta in B.
  apply andb_prop in B. destruct B as [B B3]. apply andb_prop in B. destruct B as [B1 B2].
  destruct (hex_val (hexdigit k)) as [k'|]; [|discriminate].
  apply N.eqb_eq in B1. subst k'.
  split; [reflexivity|]. split; [destruct (py_space (hexdigit k)); [discriminate|reflexivity]|].
  destruct (hexdigit k =? 59); [discriminate|reflexivity].
Qed.

Lemma scan_escape_char q c acc ds tail : is_quote q ->
  scan q SNorm acc ds (escape_char c ++ tail) = scan q SNorm (c :: acc) ds tail.
Proof.
  intros Hq. unfold escape_char.
  destruct (c =? 10) eqn:E10.
  { apply N.eqb_eq in E10. subst c. destruct Hq as [ -> | [ -> | -> ] ]; reflexivity. }
  destruct (c =? 13) eqn:E13.
  { apply N.eqb_eq in E13. subst c. destruct Hq as [ -> | [ -> | -> ] ]; reflexivity. }
  destruct (c =? 9) eqn:E9.
  { apply N.eqb_eq in E9. subst c. destruct Hq as [ -> | [ -> | -> ] ]; reflexivity. }
  destruct (c =? 92) eqn:E92.
  { apply N.eqb_eq in E92. subst c. destruct Hq as [ -> | [ -> | -> ] ]; reflexivity. }
  destruct ((c =? 34) || (c =? 39) || (c =? 47)) eqn:EQ.
  { assert (Hc : c = 34 \/ c = 39 \/ c = 47).
    { apply orb_prop in EQ. destruct EQ as [EQ|EQ]; [apply orb_prop in EQ; destruct EQ as [EQ|EQ]|]; apply N.eqb_eq in EQ; auto. }
    destruct Hq as [ -> | [ -> | -> ] ]; destruct Hc as [ -> | [ -> | -> ] ]; reflexivity. }
  assert (Hnq : (c =? q) = false).
  { apply orb_false_elim in EQ. destruct EQ as [EQ E47]. apply orb_false_elim in EQ. destruct EQ as [E34 E39].
    destruct Hq as [ -> | [ -> | -> ] ]; assumption. }
  destruct ((c <? 32) || ((127 <=? c) && (c <? 256))) eqn:EH.
  - (* backslash x HH *)
    assert (Hc : c < 256).
    { apply orb_prop in EH. destruct EH as [EH|EH]; [apply N.ltb_lt in EH; lia|].
      apply andb_prop in EH. destruct EH as [_ EH]. apply N.ltb_lt in EH. exact EH. }
    assert (Hhi : c / 16 < 16) by (apply N.div_lt_upper_bound; lia).
    assert (Hlo : c mod 16 < 16) by (apply N.mod_lt; lia).
    destruct (hexdigit_ok _ Hhi) as [V1 [S1 C1]]. destruct (hexdigit_ok _ Hlo) as [V2 _].
    assert (Hsum : 16 * (c / 16) + c mod 16 = c) by (symmetry; apply N.div_mod; lia).
    cbn [app].
    assert (B : forall t, scan q SNorm acc ds (92 :: 120 :: t) = scan q SXws acc ds t)
      by (intros t; destruct Hq as [ -> | [ -> | -> ] ]; reflexivity).
    rewrite B. cbn [scan]. rewrite S1, C1, V1. cbn [scan]. rewrite V2, Hsum. reflexivity.
  - (* the character itself *)
    cbn [app scan]. rewrite Hnq, E92. reflexivity.
Qed.

Lemma scan_escape q s : is_quote q -> forall acc ds rest,
  scan q SNorm acc ds (escape s ++ q :: rest) = ScanOk (rev acc ++ s) ds rest.
Proof.
  intros Hq. induction s as [|c s IH]; intros acc ds rest.
  - cbn [escape flat_map app scan]. rewrite N.eqb_refl, app_nil_r. reflexivity.
  - unfold escape. cbn [flat_map]. fold (escape s). rewrite <- app_assoc.
    rewrite (scan_escape_char q c acc ds _ Hq), IH. cbn [rev]. rewrite <- app_assoc. reflexivity.
Qed.

Lemma unescape_escape q s rest : is_quote q -> unescape q (escape s ++ q :: rest) = ScanOk s [] rest.
Proof. intros Hq. unfold unescape. rewrite (scan_escape q s Hq). reflexivity. Qed.

(* the character classes are constant above U+3000: the harness sweep of 0..12399 against Python decides them everywhere *)
Lemma classes_above c : 12288 < c -> py_space c = false /\ esc_lower c = c.
Proof.
  intros H. unfold py_space, esc_lower. split.
  - repeat (apply orb_false_intro); try (apply andb_false_intro2; apply N.leb_gt; lia);
      try (apply N.eqb_neq; lia).
  - replace ((c =? 78) || (c =? 82) || (c =? 84) || (c =? 88)) with false; [reflexivity|].
    symmetry. repeat (apply orb_false_intro); apply N.eqb_neq; lia.
Qed.
