(* Whole-program metamorphic laws of the reference assembler Model/Asm.v.
   Part 1: generic machinery -- layout of a concatenation, growth of the label table, insensitivity of
   expression evaluation to the local-label scope, replacement of an inert program segment. *)
From Coq Require Import ZArith List String Ascii Bool NArith Lia.
From Verif Require Import Base.Res Base.Bytes Spec.PDP11 Spec.Arith Gen.GenGetAsInt Gen.GenOpcodes
  Model.Insns Model.Directives Model.Asm Model.AsmT Proofs.AsmP.
Import ListNotations.
Notation length := Datatypes.length.
Notation concat := List.concat.
Open Scope string_scope.
Open Scope list_scope.
Open Scope Z_scope.

Ltac xinv H :=
  repeat match type of H with
  | xbind ?r ?f = XOk _ =>
      let a := fresh "a" in let Ha := fresh "Ha" in
      apply xbind_ok in H; destruct H as [a [Ha H]]
  end.

Lemma smem_In s l : smem s l = true <-> In s l.
Proof.
  unfold smem. rewrite existsb_exists. split.
  - intros [x [Hx E]]. apply String.eqb_eq in E. congruence.
  - intros H. exists s. split; [exact H|apply String.eqb_refl].
Qed.

Lemma plainf_repeat names ce body : plainf names (Repeat ce body) = efree names ce && forallb (plainf names) body.
Proof. reflexivity. Qed.

Lemma lnames_nested body :
  (fix go (l : list stmt) : list string := match l with [] => [] | x :: r => lnames_stmt x ++ go r end) body = lnames body.
Proof. induction body as [|x r IH]; simpl; congruence. Qed.

(* the local keys of a table carry names of [names] only *)
Definition locals_named (names : list string) (T : symtab) : Prop :=
  forall f k s v, klookup (KLocal f k s) T = Some v -> smem s names = true.
Definition keys_named (names : list string) (K : list key) : Prop :=
  forall f k s, key_mem (KLocal f k s) K = true -> smem s names = true.

Lemma locals_named_nil names : locals_named names [].
Proof. intros f k s v H. discriminate. Qed.

Lemma locals_named_cons_global names f n a T : locals_named names T -> locals_named names ((KGlobal f n, a) :: T).
Proof. intros H f' k s v. simpl. apply H. Qed.

Lemma locals_named_cons_local names f k n a T :
  smem n names = true -> locals_named names T -> locals_named names ((KLocal f k n, a) :: T).
Proof.
  intros Hn H f' k' s v. simpl.
  destruct (Nat.eqb f' f && Nat.eqb k' k && String.eqb s n) eqn:E; [|apply H].
  apply andb_true_iff in E. destruct E as [_ E]. apply String.eqb_eq in E. subst. intros _. exact Hn.
Qed.

Lemma klookup_app_cases k T1 T2 :
  klookup k (T1 ++ T2) = match klookup k T1 with Some v => Some v | None => klookup k T2 end.
Proof. induction T1 as [|[k' v'] T IH]; simpl; [reflexivity|]. destruct (key_eqb k k'); auto. Qed.

Lemma locals_named_app names T1 T2 : locals_named names T1 -> locals_named names T2 -> locals_named names (T1 ++ T2).
Proof.
  intros H1 H2 f k s v. rewrite klookup_app_cases. destruct (klookup (KLocal f k s) T1) eqn:E.
  - intros _. eapply H1; eauto.
  - apply H2.
Qed.

Section Gen.
Variable enc : list N -> option (list Z).
Variable alldefs : list defn.
Variable allkeys : list key.
Variable exports : list (string * nat).
Variable fuel : nat.
Notation lay_leaf := (lay_leaf enc alldefs allkeys exports fuel).
Notation lay_stmt := (lay_stmt enc alldefs allkeys exports fuel).
Notation lay_list := (lay_list enc alldefs allkeys exports fuel).
Notation lev := (lev enc alldefs allkeys exports fuel).

Lemma lay_list_app inrep a : forall b st,
  lay_list inrep (a ++ b) st =
  xbind (lay_list inrep a st) (fun r1 => xbind (lay_list inrep b (fst r1)) (fun r2 => XOk (fst r2, snd r1 ++ snd r2))).
Proof.
  induction a as [|x r IH]; intros b st; simpl.
  - destruct (lay_list inrep b st) as [[s d]| | | |]; reflexivity.
  - destruct (lay_stmt inrep x st) as [[s1 d1]| | | |]; simpl; auto.
    rewrite IH. destruct (lay_list inrep r s1) as [[s2 d2]| | | |]; simpl; auto.
    destruct (lay_list inrep b s2) as [[s3 d3]| | | |]; simpl; auto. rewrite app_assoc. reflexivity.
Qed.

(* ---- the label table only gains keys of labels written in the statement ---------------------- *)
Definition stmt_named (names : list string) (s : stmt) : Prop :=
  forall inrep st st' d, lay_stmt inrep s st = XOk (st', d) ->
  (forall n, In n (lnames_stmt s) -> smem n names = true) ->
  locals_named names (l_labels st) -> locals_named names (l_labels st').

Lemma lay_leaf_named names inrep s st st' d : lay_leaf inrep s st = XOk (st', d) ->
  (forall n, In n (lnames_stmt s) -> smem n names = true) ->
  locals_named names (l_labels st) -> locals_named names (l_labels st').
Proof.
  unfold Asm.lay_leaf. intros H Hn HL.
  destruct s; try discriminate;
    try (cbn [sized_size] in H; xinv H; inversion H; subst; exact HL).
  - destruct inrep; [discriminate|]. destruct (_ || _); [discriminate|]. inversion H; subst. simpl.
    apply locals_named_cons_global. exact HL.
  - destruct inrep; [discriminate|]. destruct (kmem _ _); [discriminate|]. inversion H; subst. simpl.
    apply locals_named_cons_local; [apply Hn; simpl; auto|exact HL].
  - destruct inrep; [discriminate|]. destruct (_ || _); [discriminate|]. inversion H; subst. exact HL.
  - destruct inrep; [discriminate|]. destruct (l_inc st); [discriminate|]. destruct (l_based st); [discriminate|].
    inversion H; subst. exact HL.
  - destruct (l_inc st); [discriminate|]. destruct (l_based st).
    + xinv H. inversion H; subst. exact HL.
    + destruct inrep; [discriminate|]. inversion H; subst. exact HL.
  - destruct inrep; [discriminate|]. inversion H; subst. exact HL.
  - destruct inrep; [discriminate|]. inversion H; subst. exact HL.
Qed.

Lemma lay_list_named names l : Forall (stmt_named names) l ->
  forall inrep st st' d, lay_list inrep l st = XOk (st', d) ->
  (forall n, In n (lnames l) -> smem n names = true) ->
  locals_named names (l_labels st) -> locals_named names (l_labels st').
Proof.
  induction 1 as [|x r Hx _ IH]; intros inrep st st' d H Hn HL; simpl in H.
  - inversion H; subst. exact HL.
  - xinv H. destruct a as [s1 d1]. destruct a0 as [s2 d2]. simpl in *. inversion H; subst.
    eapply IH; [exact Ha0| |].
    + intros n Hin. apply Hn. apply in_or_app. right. exact Hin.
    + eapply Hx; [exact Ha| |exact HL]. intros n Hin. apply Hn. apply in_or_app. left. exact Hin.
Qed.

Lemma lnames_cut_end l n : In n (lnames (cut_end l)) -> In n (lnames l).
Proof.
  induction l as [|x r IH]; [auto|].
  assert (G : In n (lnames (x :: cut_end r)) -> In n (lnames (x :: r))).
  { unfold lnames in *. cbn [flat_map]. rewrite !in_app_iff. intros [H|H]; auto. }
  destruct x; try exact G. intros [].
Qed.

Lemma iter_named names body : Forall (stmt_named names) body ->
  (forall n, In n (lnames body) -> smem n names = true) ->
  forall n st st' d, iter_x n (lay_list true body) st = XOk (st', d) ->
  locals_named names (l_labels st) -> locals_named names (l_labels st').
Proof.
  intros IH Hn. induction n as [|n IHn]; intros st st' d H HL; simpl in H.
  - inversion H; subst. exact HL.
  - xinv H. destruct a as [s1 d1]. destruct a0 as [s2 d2]. simpl in *. inversion H; subst.
    eapply IHn; [exact Ha0|]. eapply lay_list_named; [exact IH|exact Ha|exact Hn|exact HL].
Qed.

Lemma lay_stmt_named names s : stmt_named names s.
Proof.
  induction s as [ce body IH | own fid body IH | s Hs] using stmt_ind2; intros inrep st st' d H Hn HL.
  - rewrite lay_stmt_repeat in H. xinv H. destruct (65536 <? a0); [discriminate|]. eapply iter_named; [exact IH| |exact H|exact HL].
    intros m Hm. apply Hn. simpl. rewrite lnames_nested. exact Hm.
  - destruct inrep; [discriminate|]. rewrite lay_stmt_include in H. xinv H. destruct a as [s1 d1]. simpl in H. inversion H; subst. simpl.
    eapply lay_list_named; [apply Forall_cut_end; exact IH|exact Ha| |exact HL].
    intros m Hm. apply Hn. simpl. rewrite lnames_nested. apply lnames_cut_end. exact Hm.
  - rewrite lay_stmt_leaf in H by exact Hs. eapply lay_leaf_named; eauto.
Qed.

Lemma lay_program_named names l inrep st st' d : lay_list inrep l st = XOk (st', d) ->
  (forall n, In n (lnames l) -> smem n names = true) ->
  locals_named names (l_labels st) -> locals_named names (l_labels st').
Proof. apply lay_list_named. apply Forall_forall. intros x _. apply lay_stmt_named. Qed.

End Gen.

(* ---- results of layout steps up to a relation on the placed items ----------------------------- *)
Definition res_rel (R : item -> item -> Prop) (r r' : lres) : Prop :=
  match r, r' with
  | XOk a, XOk b => fst a = fst b /\ Forall2 R (snd a) (snd b)
  | XErr a, XErr b => a = b
  | XCrash a, XCrash b => a = b
  | XOutOfFuel, XOutOfFuel => True
  | XUnsup a, XUnsup b => a = b
  | _, _ => False
  end.

Lemma res_rel_refl (R : item -> item -> Prop) r : (forall x, R x x) -> res_rel R r r.
Proof.
  intros HR. destruct r as [[s d]| | | |]; simpl; auto. split; [reflexivity|].
  induction d; constructor; auto.
Qed.

Lemma Forall2_app' {A B} (R : A -> B -> Prop) a a' b b' : Forall2 R a a' -> Forall2 R b b' -> Forall2 R (a ++ b) (a' ++ b').
Proof. induction 1; simpl; auto. Qed.

Lemma res_rel_bind R (r r' : lres) (f f' : lstate * list item -> lres) :
  res_rel R r r' ->
  (forall a b, fst a = fst b -> Forall2 R (snd a) (snd b) -> res_rel R (f a) (f' b)) ->
  res_rel R (xbind r f) (xbind r' f').
Proof.
  destruct r as [a| | | |], r' as [b| | | |]; simpl; try contradiction; try discriminate; auto.
  intros [H1 H2] Hf. apply Hf; auto.
Qed.

Lemma xmapM_agree {A B} (P : A -> bool) (f g : A -> xres B) l :
  (forall x, P x = true -> f x = g x) -> forallb P l = true -> xmapM f l = xmapM g l.
Proof.
  intros H. induction l as [|x r IH]; simpl; intros Hp; [reflexivity|].
  apply andb_true_iff in Hp. destruct Hp as [Hx Hr]. rewrite (H _ Hx), (IH Hr). reflexivity.
Qed.

Lemma xbind_agree {A B} (r r' : xres A) (f f' : A -> xres B) : r = r' -> (forall a, f a = f' a) -> xbind r f = xbind r' f'.
Proof. intros -> H. destruct r'; simpl; auto. Qed.

(* statements whose expressions are evaluated alike emit alike *)
Lemma eval_opnd_agree names ev ev' o :
  (forall e, efree names e = true -> ev e = ev' e) -> ofree names o = true -> eval_opnd ev o = eval_opnd ev' o.
Proof.
  intros H Ho. destruct o; simpl in *; try reflexivity; try (rewrite (H _ Ho); reflexivity);
    apply andb_true_iff in Ho; destruct Ho as [H1 H2]; rewrite (H _ H1), (H _ H2); reflexivity.
Qed.

Lemma emit_leaf_agree enc names ev ev' a s :
  (forall e, efree names e = true -> ev e = ev' e) -> plainf names s = true -> is_repeat s = false ->
  emit_leaf enc ev a s = emit_leaf enc ev' a s.
Proof.
  intros H Hp Hr. destruct s; simpl in Hp, Hr; try discriminate; cbn [emit_leaf]; try reflexivity.
  - rewrite (xmapM_agree (ofree names) _ (eval_opnd ev')); auto. intros o Ho. apply (eval_opnd_agree names); auto.
  - rewrite (xmapM_agree (efree names) ev ev'); auto.
  - rewrite (xmapM_agree (efree names) ev ev'); auto.
  - rewrite (xmapM_agree (efree names) ev ev'); auto.
  - rewrite (xmapM_agree (efree names) ev ev'); auto.
  - rewrite (H _ Hp). reflexivity.
  - rewrite (H _ Hp). reflexivity.
  - rewrite (H _ Hp). reflexivity.
  - rewrite (xmapM_agree (cfree names) (eval_chunk ev) (eval_chunk ev')); auto.
    intros [s|e] Hc; simpl in *; [reflexivity|rewrite (H _ Hc); reflexivity].
  - rewrite (xmapM_agree (cfree names) (eval_rchunk ev) (eval_rchunk ev')); auto.
    intros [s|e] Hc; simpl in *; [reflexivity|rewrite (H _ Hc); reflexivity].
Qed.

(* ---- the local scope does not matter to an expression that names no local label -------------- *)
Section Scope.
Variable enc : list N -> option (list Z).
Variable alldefs : list defn.
Variable allkeys : list key.
Variable exports : list (string * nat).
Variable names : list string.
Hypothesis HK : keys_named names allkeys.

Lemma own_of_scope T f k1 k2 s : locals_named names T -> smem s names = false -> own_of T (f, k1) s = own_of T (f, k2) s.
Proof.
  intros HT Hs. unfold own_of. simpl.
  assert (G : forall k, klookup (KLocal f k s) T = None).
  { intros k. destruct (klookup (KLocal f k s) T) eqn:E; [|reflexivity]. apply HT in E. congruence. }
  destruct k1, k2; rewrite ?G; reflexivity.
Qed.

Lemma xeval_scope labels ddots fuel vis f k1 k2 dot e :
  locals_named names labels -> efree names e = true ->
  xeval enc alldefs allkeys exports labels ddots fuel vis (f, k1) dot e =
  xeval enc alldefs allkeys exports labels ddots fuel vis (f, k2) dot e.
Proof.
  intros HT. induction e; intros He; simpl in He.
  - destruct fuel; reflexivity.
  - apply negb_true_iff in He.
    assert (G : forall k, key_mem (KLocal f k s) allkeys = false).
    { intros k. destruct (key_mem (KLocal f k s) allkeys) eqn:E; [|reflexivity]. apply HK in E. congruence. }
    destruct fuel; simpl; rewrite (own_of_scope labels f k1 k2 s HT He); destruct k1, k2; rewrite ?G; reflexivity.
  - destruct fuel; reflexivity.
  - specialize (IHe He). destruct fuel; simpl in *; rewrite IHe; reflexivity.
  - apply andb_true_iff in He. destruct He as [H1 H2]. specialize (IHe1 H1). specialize (IHe2 H2).
    destruct fuel; simpl in *; rewrite IHe1, IHe2; reflexivity.
  - specialize (IHe He). destruct fuel; simpl in *; exact IHe.
Qed.

Lemma fev_scope T f k1 k2 a e :
  locals_named names T -> efree names e = true -> fev enc exports T (f, k1) a e = fev enc exports T (f, k2) a e.
Proof.
  intros HT He. unfold fev. f_equal. induction e; simpl in *; try reflexivity.
  - apply negb_true_iff in He. unfold sym_of. rewrite (own_of_scope T f k1 k2 s HT He). reflexivity.
  - rewrite (IHe He). reflexivity.
  - apply andb_true_iff in He. destruct He as [H1 H2]. rewrite (IHe1 H1), (IHe2 H2). reflexivity.
  - exact (IHe He).
Qed.
End Scope.

(* ---- a plain body laid out inside a .repeat and at the top level ------------------------------ *)
Definition irel (names : list string) (it it' : item) : Prop :=
  i_addr it = i_addr it' /\ i_stmt it = i_stmt it' /\ i_size it = i_size it' /\
  fst (i_scope it) = fst (i_scope it') /\
  (i_scope it = i_scope it' \/ (plainf names (i_stmt it) = true /\ is_repeat (i_stmt it) = false)).

Lemma irel_refl names it : irel names it it.
Proof. unfold irel. auto 10. Qed.

Lemma plainf_quiet names s : plainf names s = true ->
  lnames_stmt s = [] /\ file_ids_stmt s = [] /\
  match s with Label _ | LocalLabel _ | Assign _ _ | Link _ | Skip _ | Include _ _ _ | Extern _ | ExternAll | End => False | _ => True end.
Proof.
  induction s as [ce body IH | own fid body IH | s Hs] using stmt_ind2; intros Hp.
  - rewrite plainf_repeat in Hp. apply andb_true_iff in Hp. destruct Hp as [_ Hp]. simpl.
    split; [|split; [|exact I]].
    + induction IH as [|x r Hx _ IHr]; simpl in *; [reflexivity|]. apply andb_true_iff in Hp. destruct Hp as [H1 H2].
      destruct (Hx H1) as [E _]. rewrite E. simpl. apply IHr. exact H2.
    + induction IH as [|x r Hx _ IHr]; simpl in *; [reflexivity|]. apply andb_true_iff in Hp. destruct Hp as [H1 H2].
      destruct (Hx H1) as [_ [E _]]. rewrite E. simpl. apply IHr. exact H2.
  - discriminate.
  - destruct s; simpl in *; try discriminate; auto.
Qed.

Section Plain.
Variable enc : list N -> option (list Z).
Variable alldefs : list defn.
Variable allkeys : list key.
Variable exports : list (string * nat).
Variable fuel : nat.
Variable names : list string.
Hypothesis HK : keys_named names allkeys.
Notation lay_leaf := (lay_leaf enc alldefs allkeys exports fuel).
Notation lay_stmt := (lay_stmt enc alldefs allkeys exports fuel).
Notation lay_list := (lay_list enc alldefs allkeys exports fuel).
Notation lev := (lev enc alldefs allkeys exports fuel).

Lemma lev_scope st f k1 k2 e : locals_named names (l_labels st) -> efree names e = true -> lev st (f, k1) e = lev st (f, k2) e.
Proof. intros HT He. unfold Asm.lev. apply (xeval_scope enc alldefs allkeys exports names HK); assumption. Qed.

Lemma lay_leaf_scope s st : locals_named names (l_labels st) -> plainf names s = true -> is_repeat s = false ->
  res_rel (irel names) (lay_leaf true s st) (lay_leaf false s st).
Proof.
  intros HT Hp Hr. unfold Asm.lay_leaf. cbv zeta.
  assert (U : forall s0, s0 = s ->
     res_rel (irel names)
       (xbind (emit_leaf enc (lev st (l_file st, None)) (l_addr st) s0) (fun bs => XOk (put st (l_file st, None) s0 (zlen bs))))
       (xbind (emit_leaf enc (lev st (l_file st, Some (l_scope st))) (l_addr st) s0)
              (fun bs => XOk (put st (l_file st, Some (l_scope st)) s0 (zlen bs))))).
  { intros s0 ->. rewrite (emit_leaf_agree enc names _ (lev st (l_file st, Some (l_scope st))) _ _) by
      (auto; intros e He; apply lev_scope; assumption).
    destruct (emit_leaf enc _ (l_addr st) s); simpl; auto. split; [reflexivity|].
    constructor; [|constructor]. unfold irel; simpl. auto 10. }
  assert (S : forall s0 (r : xres Z), s0 = s ->
     res_rel (irel names) (xbind r (fun sz => XOk (put st (l_file st, None) s0 sz)))
                          (xbind r (fun sz => XOk (put st (l_file st, Some (l_scope st)) s0 sz)))).
  { intros s0 r ->. destruct r; simpl; auto. split; [reflexivity|]. constructor; [|constructor]. unfold irel; simpl. auto 10. }
  destruct s; simpl in Hp, Hr; try discriminate; cbn [sized_size]; try (apply S; reflexivity); try (apply U; reflexivity).
Qed.

Lemma lay_stmt_scope s st : locals_named names (l_labels st) -> plainf names s = true ->
  res_rel (irel names) (lay_stmt true s st) (lay_stmt false s st).
Proof.
  intros HT Hp. destruct (is_repeat s) eqn:Hr.
  - destruct s; simpl in Hr, Hp; try discriminate.
    rewrite !lay_stmt_repeat. apply andb_true_iff in Hp. destruct Hp as [Hc _].
    rewrite (lev_scope st (l_file st) None (Some (l_scope st)) count HT Hc).
    apply res_rel_refl. apply irel_refl.
  - rewrite !lay_stmt_leaf by exact Hr. apply lay_leaf_scope; assumption.
Qed.

Lemma plain_labels inrep s st st' d : plainf names s = true -> lay_stmt inrep s st = XOk (st', d) ->
  locals_named names (l_labels st) -> locals_named names (l_labels st').
Proof.
  intros Hp H HT. eapply (lay_stmt_named enc alldefs allkeys exports fuel names s); eauto.
  destruct (plainf_quiet _ _ Hp) as [E _]. rewrite E. intros n [].
Qed.

Lemma lay_list_scope body : forallb (plainf names) body = true -> forall st, locals_named names (l_labels st) ->
  res_rel (irel names) (lay_list true body st) (lay_list false body st).
Proof.
  induction body as [|x r IH]; intros Hp st HT; simpl.
  - split; [reflexivity|constructor].
  - simpl in Hp. apply andb_true_iff in Hp. destruct Hp as [Hx Hr].
    pose proof (lay_stmt_scope x st HT Hx) as Rx.
    destruct (lay_stmt true x st) as [[s1 d1]| | | |] eqn:E1, (lay_stmt false x st) as [[s2 d2]| | | |] eqn:E2;
      simpl in Rx; try contradiction; try discriminate; simpl; auto.
    destruct Rx as [Es Rd]. simpl in Es. subst s2.
    pose proof (IH Hr s1 (plain_labels _ _ _ _ _ Hx E1 HT)) as Rr.
    destruct (lay_list true r s1) as [[s3 d3]| | | |], (lay_list false r s1) as [[s4 d4]| | | |];
      simpl in Rr; try contradiction; try discriminate; simpl; auto.
    destruct Rr as [Es Rd']. simpl in *. subst s4. split; [reflexivity|]. apply Forall2_app'; assumption.
Qed.

Lemma plain_list_labels inrep body : forallb (plainf names) body = true -> forall st st' d,
  lay_list inrep body st = XOk (st', d) -> locals_named names (l_labels st) -> locals_named names (l_labels st').
Proof.
  induction body as [|x r IH]; intros Hp st st' d H HT; simpl in H.
  - inversion H; subst; exact HT.
  - simpl in Hp. apply andb_true_iff in Hp. destruct Hp as [Hx Hr]. xinv H. destruct a as [s1 d1]. destruct a0 as [s2 d2].
    simpl in *. inversion H; subst. eapply IH; [exact Hr|exact Ha0|]. eapply plain_labels; eauto.
Qed.

(* n copies inside the repeat = the body written out n times at the top level *)
Lemma iter_unroll body : forallb (plainf names) body = true -> forall n st, locals_named names (l_labels st) ->
  res_rel (irel names) (iter_x n (lay_list true body) st) (lay_list false (concat (repeat body n)) st).
Proof.
  intros Hp. induction n as [|n IH]; intros st HT; simpl.
  - split; [reflexivity|constructor].
  - rewrite lay_list_app. pose proof (lay_list_scope body Hp st HT) as R1.
    destruct (lay_list true body st) as [[s1 d1]| | | |] eqn:E1, (lay_list false body st) as [[s2 d2]| | | |] eqn:E2;
      simpl in R1; try contradiction; try discriminate; simpl; auto.
    destruct R1 as [Es Rd]. simpl in Es. subst s2.
    pose proof (IH s1 (plain_list_labels _ _ Hp _ _ _ E1 HT)) as R2.
    destruct (iter_x n (lay_list true body) s1) as [[s3 d3]| | | |], (lay_list false (concat (repeat body n)) s1) as [[s4 d4]| | | |];
      simpl in R2; try contradiction; try discriminate; simpl; auto.
    destruct R2 as [Es Rd']. simpl in *. subst s4. split; [reflexivity|]. apply Forall2_app'; assumption.
Qed.

End Plain.

(* ---- inert statements: invisible to every collector ------------------------------------------- *)
Definition quiet (s : stmt) : Prop :=
  lnames_stmt s = [] /\ file_ids_stmt s = [] /\
  match s with Label _ | LocalLabel _ | Assign _ _ | Link _ | Skip _ | Include _ _ _ | Extern _ | ExternAll | End => False | _ => True end.

Lemma quiet_facts s : quiet s ->
  (forall f sc, defs_stmt f sc s = []) /\ (forall f sc, keys_stmt f sc s = []) /\ (forall f, exports_stmt f s = ([], [])).
Proof. intros [_ [_ H]]. destruct s; try contradiction; repeat split; reflexivity. Qed.

Lemma collect_defs_quiet X : Forall quiet X -> forall l1 l2 f sc, collect_defs f sc (l1 ++ X ++ l2) = collect_defs f sc (l1 ++ l2).
Proof.
  intros HX. induction l1 as [|x r IH]; intros l2 f sc.
  - simpl. induction HX as [|y Y Hy _ IHY]; [reflexivity|].
    destruct (quiet_facts _ Hy) as [D _]. destruct Hy as [_ [_ Hy]]. simpl.
    destruct y; try contradiction; simpl; exact IHY.
  - simpl. destruct x; simpl; rewrite ?IH; reflexivity.
Qed.

Lemma collect_keys_quiet X : Forall quiet X -> forall l1 l2 f sc, collect_keys f sc (l1 ++ X ++ l2) = collect_keys f sc (l1 ++ l2).
Proof.
  intros HX. induction l1 as [|x r IH]; intros l2 f sc.
  - simpl. induction HX as [|y Y Hy _ IHY]; [reflexivity|].
    destruct Hy as [_ [_ Hy]]. simpl. destruct y; try contradiction; simpl; exact IHY.
  - simpl. destruct x; simpl; rewrite ?IH; reflexivity.
Qed.

Lemma collect_exports_quiet X : Forall quiet X -> forall l1 l2 f, collect_exports f (l1 ++ X ++ l2) = collect_exports f (l1 ++ l2).
Proof.
  intros HX. induction l1 as [|x r IH]; intros l2 f.
  - simpl. induction HX as [|y Y Hy _ IHY]; [reflexivity|].
    destruct Hy as [_ [_ Hy]]. simpl. destruct y; try contradiction; simpl; rewrite IHY; destruct (collect_exports f l2); reflexivity.
  - simpl. destruct x; simpl; rewrite ?IH; reflexivity.
Qed.

Lemma first_base_quiet X : Forall quiet X -> forall f l1 l2, first_base f (l1 ++ X ++ l2) = first_base f (l1 ++ l2).
Proof.
  intros HX f. induction l1 as [|x r IH]; intros l2.
  - simpl. induction HX as [|y Y Hy _ IHY]; [reflexivity|].
    destruct Hy as [_ [_ Hy]]. cbn [app first_base]. destruct y; try contradiction; simpl; exact IHY.
  - cbn [app first_base]. rewrite IH. reflexivity.
Qed.

Lemma file_ids_quiet X : Forall quiet X -> forall l1 l2, file_ids (l1 ++ X ++ l2) = file_ids (l1 ++ l2).
Proof.
  intros HX l1 l2. unfold file_ids. rewrite !flat_map_app. f_equal.
  replace (flat_map file_ids_stmt X) with (@nil nat); [reflexivity|].
  induction HX as [|y Y [_ [Hy _]] _ IHY]; simpl; [reflexivity|]. rewrite Hy. exact IHY.
Qed.

Lemma lnames_quiet X : Forall quiet X -> lnames X = [].
Proof. induction 1 as [|y Y [Hy _] _ IHY]; simpl; [reflexivity|]. rewrite Hy. exact IHY. Qed.

(* where the segment ends up after cut_end *)
Lemma cut_end_cons x l : is_end x = false -> cut_end (x :: l) = x :: cut_end l.
Proof. destruct x; simpl; intros H; try reflexivity; discriminate. Qed.

Lemma cut_end_mid l1 l2 : exists m1 m2 (b : bool), forall X, Forall quiet X ->
  cut_end (l1 ++ X ++ l2) = m1 ++ (if b then X else []) ++ m2.
Proof.
  induction l1 as [|x r [m1 [m2 [b IH]]]].
  - exists [], (cut_end l2), true. intros X HX. simpl. induction HX as [|y Y [_ [_ Hy]] _ IHY]; [reflexivity|].
    simpl. destruct y; try contradiction; rewrite IHY; reflexivity.
  - destruct (is_end x) eqn:E.
    + exists [], [], false. intros X HX. destruct x; try discriminate. reflexivity.
    + exists (x :: m1), m2, b. intros X HX. simpl app. rewrite cut_end_cons by exact E. rewrite IH by exact HX. reflexivity.
Qed.

(* ---- keys collected from a program carry the names of its local labels ------------------------ *)
Lemma key_mem_app k a b : key_mem k (a ++ b) = key_mem k a || key_mem k b.
Proof. unfold key_mem. apply existsb_app. Qed.

Lemma keys_go_eq fid body : forall sc,
  (fix go (sc' : nat) (l : list stmt) {struct l} : list key :=
     match l with
     | [] => []
     | End :: _ => []
     | Label n :: r => KGlobal fid n :: go (S sc') r
     | x :: r => keys_stmt fid sc' x ++ go sc' r
     end) sc body = collect_keys fid sc body.
Proof. induction body as [|x r IH]; intros sc; [reflexivity|]. destruct x; simpl; rewrite ?IH; reflexivity. Qed.

Definition stmt_keys_named (s : stmt) : Prop := forall f sc, keys_named (lnames_stmt s) (keys_stmt f sc s).

Lemma smem_app s a b : smem s (a ++ b) = smem s a || smem s b.
Proof. unfold smem. apply existsb_app. Qed.

Lemma collect_keys_named_list l : Forall stmt_keys_named l -> forall f sc, keys_named (lnames l) (collect_keys f sc l).
Proof.
  induction 1 as [|x r Hx _ IH]; intros f sc f' k s Hm; [discriminate|].
  assert (G : key_mem (KLocal f' k s) (keys_stmt f sc x ++ collect_keys f sc r) = true -> smem s (lnames (x :: r)) = true).
  { rewrite key_mem_app. unfold lnames. cbn [flat_map]. rewrite smem_app. intros H. apply orb_true_iff in H.
    apply orb_true_iff. destruct H as [H|H]; [left; eapply Hx; eauto|right; eapply IH; eauto]. }
  destruct x; try (apply G; exact Hm).
  - (* Label *) simpl in Hm. unfold lnames. cbn [flat_map lnames_stmt app]. eapply IH; eauto.
  - (* End *) discriminate.
Qed.

Lemma keys_stmt_named s : stmt_keys_named s.
Proof.
  induction s as [ce body IH | own fid body IH | s Hs] using stmt_ind2; intros f sc f' k n Hm.
  - discriminate.
  - cbn [keys_stmt] in Hm. rewrite keys_go_eq in Hm. simpl. rewrite lnames_nested.
    eapply collect_keys_named_list; eauto.
  - destruct s; simpl in *; try discriminate.
    rewrite orb_false_r in Hm. apply andb_true_iff in Hm. destruct Hm as [_ Hm]. rewrite Hm. reflexivity.
Qed.

Lemma collect_keys_named l f sc : keys_named (lnames l) (collect_keys f sc l).
Proof. apply collect_keys_named_list. apply Forall_forall. intros x _. apply keys_stmt_named. Qed.

Lemma def_values_global enc alldefs allkeys exports fuel labels ddots dv names :
  def_values enc alldefs allkeys exports fuel labels ddots = XOk dv -> locals_named names dv.
Proof.
  unfold def_values. generalize alldefs at 2. intros l. revert dv. induction l as [|d r IH]; simpl; intros dv H.
  - inversion H; subst. apply locals_named_nil.
  - xinv H. inversion H; subst. xinv Ha. inversion Ha; subst. apply locals_named_cons_global. eapply IH; eauto.
Qed.

(* ---- replacing an inert segment of the program ------------------------------------------------ *)
Definition asm_cut (enc : list N -> option (list Z)) (q : list stmt) : xres full :=
  let alldefs := collect_defs 0 0 q in
  let allkeys := collect_keys 0 0 q in
  let exports := all_exports alldefs allkeys (collect_exports 0 q) in
  let fuel := S (length alldefs) in
  if negb (nodup_nat (0%nat :: file_ids q)) then XUnsup "file-ids"
  else if negb (nodup_str (map fst exports)) then XErr ["duplicate-symbol"]
  else
  xdo base <- find_base enc alldefs allkeys exports fuel q;
  xdo r <- lay_list enc alldefs allkeys exports fuel false q (mkL base 0 0 [] [] false false);
  let st := fst r in
  let items := snd r in
  xdo dv <- def_values enc alldefs allkeys exports fuel (l_labels st) (l_ddots st);
  let T := l_labels st ++ dv in
  xdo chunks <- xmapM (emit_item enc exports T) items;
  if forallb size_ok (combine items chunks) then XOk (mkFull base items chunks T exports)
  else XUnsup "size-guard".

Lemma assemble_full_cut enc p : assemble_full enc p = asm_cut enc (cut_end p).
Proof. reflexivity. Qed.

Definition asm_of (r : xres full) : xres (Z * list Z * symtab) :=
  xdo f <- r; XOk (f_base f, concat (f_chunks f), f_syms f).

Lemma assemble_cut enc p : assemble enc p = asm_of (asm_cut enc (cut_end p)).
Proof. reflexivity. Qed.

Lemma xmapM_Forall2 {A B} (f g : A -> xres B) l l' : Forall2 (fun a b => f a = g b) l l' -> xmapM f l = xmapM g l'.
Proof. induction 1 as [|a b l l' H _ IH]; simpl; [reflexivity|]. rewrite H, IH. reflexivity. Qed.

Lemma size_ok_Forall2 items items' : Forall2 (fun a b => i_size a = i_size b) items items' ->
  forall chunks, forallb size_ok (combine items chunks) = forallb size_ok (combine items' chunks).
Proof.
  induction 1 as [|a b l l' H _ IH]; intros [|c cs]; simpl; try reflexivity.
  unfold size_ok at 1 3. simpl. rewrite H, IH. reflexivity.
Qed.

Lemma Forall2_refl_eq {A} (R : A -> A -> Prop) l : (forall x, R x x) -> Forall2 R l l.
Proof. intros H. induction l; constructor; auto. Qed.

Lemma Forall2_impl' {A B} (R S : A -> B -> Prop) l l' : (forall a b, R a b -> S a b) -> Forall2 R l l' -> Forall2 S l l'.
Proof. intros H. induction 1; constructor; auto. Qed.

Theorem segment_replace enc (R : item -> item -> Prop) names m1 m2 X X' :
  (forall n, In n (lnames (m1 ++ m2)) -> smem n names = true) ->
  Forall quiet X -> Forall quiet X' ->
  (forall alldefs allkeys exports fuel st,
      keys_named names allkeys -> locals_named names (l_labels st) ->
      res_rel R (lay_list enc alldefs allkeys exports fuel false X st) (lay_list enc alldefs allkeys exports fuel false X' st)) ->
  (forall exports T it it', locals_named names T -> R it it' ->
      i_size it = i_size it' /\ emit_item enc exports T it = emit_item enc exports T it') ->
  asm_of (asm_cut enc (m1 ++ X ++ m2)) = asm_of (asm_cut enc (m1 ++ X' ++ m2)).
Proof.
  intros Hsub HX HX' HL HE.
  unfold asm_cut.
  rewrite !(collect_defs_quiet X HX), !(collect_defs_quiet X' HX'), !(collect_keys_quiet X HX), !(collect_keys_quiet X' HX'),
          !(collect_exports_quiet X HX), !(collect_exports_quiet X' HX'), !(file_ids_quiet X HX), !(file_ids_quiet X' HX').
  set (alldefs := collect_defs 0 0 (m1 ++ m2)). set (allkeys := collect_keys 0 0 (m1 ++ m2)).
  set (exports := all_exports alldefs allkeys (collect_exports 0 (m1 ++ m2))). set (fuel := S (length alldefs)).
  assert (HK : keys_named names allkeys).
  { intros f k n Hm. apply Hsub. apply smem_In. eapply collect_keys_named; eauto. }
  destruct (negb (nodup_nat (0%nat :: file_ids (m1 ++ m2)))); [reflexivity|].
  destruct (negb (nodup_str (map fst exports))); [reflexivity|].
  unfold find_base. rewrite (first_base_quiet X HX), (first_base_quiet X' HX').
  fold (find_base enc alldefs allkeys exports fuel (m1 ++ m2)).
  destruct (find_base enc alldefs allkeys exports fuel (m1 ++ m2)) as [base| | | |]; try reflexivity. cbn [xbind].
  rewrite !lay_list_app.
  set (st0 := mkL base 0 0 [] [] false false).
  destruct (lay_list enc alldefs allkeys exports fuel false m1 st0) as [[s1 d1]| | | |] eqn:E1; try reflexivity. cbn [xbind fst snd].
  assert (N1 : locals_named names (l_labels s1)).
  { eapply lay_program_named; [exact E1| |apply locals_named_nil].
    intros n Hn. apply Hsub. unfold lnames. rewrite flat_map_app. apply in_or_app. left. exact Hn. }
  rewrite !lay_list_app.
  pose proof (HL alldefs allkeys exports fuel s1 HK N1) as RX.
  destruct (lay_list enc alldefs allkeys exports fuel false X s1) as [[s2 d2]| | | |] eqn:E2,
           (lay_list enc alldefs allkeys exports fuel false X' s1) as [[s2' d2']| | | |] eqn:E2';
    simpl in RX; try contradiction; try discriminate; try (subst; reflexivity).
  destruct RX as [Es RD]. simpl in Es, RD. subst s2'. cbn [xbind fst snd].
  assert (N2 : locals_named names (l_labels s2)).
  { eapply lay_program_named; [exact E2| |exact N1]. rewrite (lnames_quiet X HX). intros n []. }
  destruct (lay_list enc alldefs allkeys exports fuel false m2 s2) as [[s3 d3]| | | |] eqn:E3; try reflexivity. cbn [xbind fst snd].
  assert (N3 : locals_named names (l_labels s3)).
  { eapply lay_program_named; [exact E3| |exact N2].
    intros n Hn. apply Hsub. unfold lnames. rewrite flat_map_app. apply in_or_app. right. exact Hn. }
  destruct (def_values enc alldefs allkeys exports fuel (l_labels s3) (l_ddots s3)) as [dv| | | |] eqn:ED; try reflexivity. cbn [xbind].
  assert (NT : locals_named names (l_labels s3 ++ dv)).
  { apply locals_named_app; [exact N3|eapply def_values_global; eauto]. }
  assert (F : Forall2 (fun a b => i_size a = i_size b /\ emit_item enc exports (l_labels s3 ++ dv) a = emit_item enc exports (l_labels s3 ++ dv) b)
                      (d1 ++ d2 ++ d3) (d1 ++ d2' ++ d3)).
  { apply Forall2_app'; [apply Forall2_refl_eq; auto|]. apply Forall2_app'; [|apply Forall2_refl_eq; auto].
    eapply Forall2_impl'; [|exact RD]. intros a b Hab. apply HE; assumption. }
  rewrite (xmapM_Forall2 (emit_item enc exports (l_labels s3 ++ dv)) (emit_item enc exports (l_labels s3 ++ dv)) _ (d1 ++ d2' ++ d3))
    by (eapply Forall2_impl'; [|exact F]; intros a b [_ H]; exact H).
  destruct (xmapM (emit_item enc exports (l_labels s3 ++ dv)) (d1 ++ d2' ++ d3)) as [chunks| | | |]; try reflexivity. cbn [xbind].
  rewrite (size_ok_Forall2 _ (d1 ++ d2' ++ d3)) by (eapply Forall2_impl'; [|exact F]; intros a b [H _]; exact H).
  destruct (forallb size_ok (combine (d1 ++ d2' ++ d3) chunks)); reflexivity.
Qed.
