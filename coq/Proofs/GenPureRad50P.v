(* Proofs/GenPureRad50P.v -- Gen/GenPureRad50.v (regenerated from pdpy11/radix50.py and the packing expression of
   metacommands.rad50 on every run by tools/gens/gen_pure.py) is EQUAL to the hand model Model/Rad50.v (C15). *)
From Coq Require Import String List ZArith NArith Bool Lia.
From Verif Require Import Base.Res Base.Bytes Gen.GenRadix50 Gen.GenPure Gen.GenPureRad50 Model.Rad50 Proofs.GenPureP.
Import ListNotations.
Open Scope list_scope.
Open Scope Z_scope.

(* the TABLE this translator reads is the table the C15 model is instantiated with *)
Lemma TABLE_is_model : GenPureRad50.TABLE = rad50_table.
Proof. reflexivity. Qed.

Lemma first_index_is_model t ch : forall i, first_index_from i t ch = Rad50.index_from i t ch.
Proof. induction t as [|x r IH]; intros i; [reflexivity|]. cbn. destruct (N.eqb x ch); [reflexivity|apply IH]. Qed.

Lemma encode_char_is_model ch : GenPureRad50.encode_char ch = Rad50.encode_char rad50_table ch.
Proof.
  unfold GenPureRad50.encode_char, Rad50.encode_char, Rad50.index_of, py_index1.
  rewrite first_index_is_model, TABLE_is_model. destruct (index_from 0 rad50_table ch); reflexivity.
Qed.

Lemma pack_to_int_is_model s : GenPureRad50.pack_to_int s = Rad50.pack_to_int rad50_table s.
Proof.
  unfold GenPureRad50.pack_to_int, Rad50.pack_to_int, py_assert, py_ljust, py_unpack3.
  destruct (Nat.ltb_spec 3 (length s)) as [H|H]; destruct (Z.leb_spec (Z.of_nat (length s)) 3) as [G|G]; try lia; [reflexivity|].
  destruct s as [|a [|b [|c [|d r]]]]; cbn [length] in H; try lia;
    cbn -[GenPureRad50.encode_char Rad50.encode_char Z.mul Z.add]; rewrite ?encode_char_is_model; reflexivity.
Qed.

(* the word '.rad50' packs for three codes is the expression the model's pack_words uses *)
Lemma rad50_word_is_model a b c : rad50_word a b c = a * 1600 + b * 40 + c.
Proof. reflexivity. Qed.

Lemma pack_words_translated a b c rest :
  pack_words (a :: b :: c :: rest) =
  (do w <- pack_H (rad50_word a b c); do ws <- pack_words rest; Ok (w ++ ws)).
Proof. reflexivity. Qed.

Lemma pack_words_short_translated a b :
  pack_words [a] = pack_H (rad50_word a 0 0) /\ pack_words [a; b] = pack_H (rad50_word a b 0).
Proof. split; reflexivity. Qed.
