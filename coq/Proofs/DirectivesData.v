(* .byte / .word / .dword / word lists: what the model emits, in terms of Spec/DataSpec.v; and the
   announced size against the emitted length (reused by C02). *)
From Coq Require Import String List ZArith ZifyBool Lia Bool.
From Verif Require Import Base.Res Base.Bytes Gen.GenGetAsInt Gen.GenMeta Model.Directives Spec.DataSpec Proofs.DirectivesGai.
Import ListNotations.
Open Scope string_scope.
Open Scope list_scope.
Open Scope Z_scope.

Ltac Zify.zify_post_hook ::= Z.to_euclidean_division_equations.

Definition plain (vs : list Z) : list (bool * Z) := map (pair false) vs.
Definition vname (w : width) : string := match w with W8 => ".byte" | W16 => ".word" | W32 => ".dword" end.
Definition voob : out := Raised [(E, oob)].

(* ---- small facts ------------------------------------------------------------------------------- *)
Lemma plain_snd vs : map snd (plain vs) = vs.
Proof. unfold plain. rewrite map_map. simpl. apply map_id. Qed.
Lemma plain_hash vs : hash_diags (plain vs) = [].
Proof. induction vs; simpl; auto. Qed.
Lemma plain_length vs : length (plain vs) = length vs.
Proof. apply map_length. Qed.

Lemma after_nil o : after [] [] o = o.
Proof. destruct o; reflexivity. Qed.

Lemma fits_admitted w v : fits w v = true <-> admitted (bits w) false v.
Proof.
  unfold fits, admitted. split.
  - intros H. split; [lia|discriminate].
  - intros [H _]. lia.
Qed.

Lemma bits_nonneg w : 0 <= bits w.
Proof. destruct w; simpl; lia. Qed.

(* cooking with a single (varargs or not) typed parameter is mapM get_as_int *)
Lemma cook_single p b u : type_info (snd p) = Some (b, u) ->
  forall vs i, cook [p] i vs = mapM (get_as_int b u None) vs.
Proof.
  intros Ht vs. induction vs as [|v vs IH]; intros i; simpl; [reflexivity|].
  rewrite Ht. rewrite IH. reflexivity.
Qed.

Lemma mapM_gai_ok n u vs : 0 <= n -> Forall (admitted n u) vs ->
  mapM (get_as_int (Some n) u None) vs = Ok (map (fun v => v mod 2 ^ n) vs).
Proof.
  intros Hn H. induction H as [|v vs Hv _ IH]; simpl; [reflexivity|].
  destruct (get_as_int_spec n u v Hn) as [S _].
  rewrite (proj2 (S (v mod 2 ^ n)) (conj Hv eq_refl)). simpl. rewrite IH. reflexivity.
Qed.

Lemma mapM_gai_err n u vs : 0 <= n -> Exists (fun v => ~ admitted n u v) vs ->
  mapM (get_as_int (Some n) u None) vs = Err [oob].
Proof.
  intros Hn H. induction vs as [|v vs IH]; [inversion H|]. simpl.
  destruct (admitted_dec n u v) as [A|A].
  - destruct (get_as_int_spec n u v Hn) as [S _].
    rewrite (proj2 (S (v mod 2 ^ n)) (conj A eq_refl)). simpl.
    rewrite IH; [reflexivity|]. inversion H; subst; [contradiction|assumption].
  - destruct (get_as_int_spec n u v Hn) as [_ R]. rewrite (R A). reflexivity.
Qed.

Lemma forallb_fits_Forall w vs : forallb (fits w) vs = true -> Forall (admitted (bits w) false) vs.
Proof.
  intros H. rewrite forallb_forall in H. apply Forall_forall. intros v Hv. apply fits_admitted. auto.
Qed.

Lemma forallb_fits_Exists w vs : forallb (fits w) vs = false -> Exists (fun v => ~ admitted (bits w) false v) vs.
Proof.
  induction vs as [|v vs IH]; simpl; [discriminate|].
  destruct (fits w v) eqn:F; simpl.
  - intros H. right. auto.
  - intros _. left. intros A. apply fits_admitted in A. congruence.
Qed.

(* ---- packing ------------------------------------------------------------------------------------ *)
Lemma pack_all_cons pack x xs :
  pack_all pack (x :: xs) = do a <- pack x; do b <- pack_all pack xs; Ok (a ++ b).
Proof.
  unfold pack_all, rmap. simpl. destruct (pack x); simpl; try reflexivity.
  destruct (mapM pack xs); reflexivity.
Qed.

Lemma pack_all_nil pack : pack_all pack [] = Ok [].
Proof. reflexivity. Qed.

Lemma pack_all_length pack k xs bs :
  (forall x b, pack x = Ok b -> length b = k) -> pack_all pack xs = Ok bs -> length bs = (k * length xs)%nat.
Proof.
  intros Hk. revert bs. induction xs as [|x xs IH]; intros bs H.
  - inversion H. simpl. lia.
  - rewrite pack_all_cons in H. apply bind_ok_inv in H. destruct H as [a [Ha H]].
    apply bind_ok_inv in H. destruct H as [b [Hb H]]. inversion H; subst.
    rewrite app_length, (Hk _ _ Ha), (IH _ Hb). simpl. lia.
Qed.

Lemma pack_all_ok pack f xs :
  (forall x, In x xs -> pack x = Ok (f x)) -> pack_all pack xs = Ok (concat (map f xs)).
Proof.
  induction xs as [|x xs IH]; intros H; [reflexivity|].
  rewrite pack_all_cons, (H x (or_introl eq_refl)). simpl. rewrite IH; [reflexivity|].
  intros y Hy. apply H. right. exact Hy.
Qed.

Lemma pack_B_len x b : pack_B x = Ok b -> length b = 1%nat.
Proof. unfold pack_B. destruct ((0 <=? x) && (x <? 256)); intros H; inversion H; reflexivity. Qed.
Lemma pack_H_len x b : pack_H x = Ok b -> length b = 2%nat.
Proof. unfold pack_H. destruct ((0 <=? x) && (x <? 65536)); intros H; inversion H; reflexivity. Qed.
Lemma encode_i32_len x b : encode_i32 x = Ok b -> length b = 4%nat.
Proof.
  unfold encode_i32. intros H. apply bind_ok_inv in H. destruct H as [hi [Hh H]].
  apply bind_ok_inv in H. destruct H as [lo [Hl H]]. inversion H; subst.
  rewrite app_length, (pack_H_len _ _ Hh), (pack_H_len _ _ Hl). reflexivity.
Qed.

(* the bytes of one admitted value are the Spec's *)
Lemma pack_B_value v : pack_B (v mod 2 ^ 8) = Ok (value_bytes W8 v).
Proof.
  unfold pack_B, value_bytes. simpl bits. simpl le_bytes.
  assert (0 <= v mod 2 ^ 8 < 256) by (apply Z.mod_pos_bound; lia).
  replace ((0 <=? v mod 2 ^ 8) && (v mod 2 ^ 8 <? 256)) with true by lia.
  f_equal. f_equal. change (2 ^ 8) with 256. rewrite Z.mod_mod; lia.
Qed.

Lemma pack_H_le r : 0 <= r < 65536 -> pack_H r = Ok (le_bytes 2 r).
Proof.
  intros H. unfold pack_H. replace ((0 <=? r) && (r <? 65536)) with true by lia.
  simpl le_bytes. f_equal. f_equal. f_equal. rewrite Z.mod_small; lia.
Qed.

Lemma pack_H_value v : pack_H (v mod 2 ^ 16) = Ok (value_bytes W16 v).
Proof.
  unfold value_bytes. simpl bits. apply pack_H_le. change (2 ^ 16) with 65536. apply Z.mod_pos_bound; lia.
Qed.

Lemma encode_i32_value v : encode_i32 (v mod 2 ^ 32) = Ok (value_bytes W32 v).
Proof.
  unfold encode_i32, value_bytes. simpl bits.
  set (r := v mod 2 ^ 32).
  assert (Hr : 0 <= r < 4294967296) by (apply Z.mod_pos_bound; lia).
  rewrite Z.shiftr_div_pow2 by lia. change (2 ^ 16) with 65536.
  change 65535 with (Z.ones 16). rewrite Z.land_ones by lia. change (2 ^ 16) with 65536.
  rewrite pack_H_le by lia. cbn [bind]. rewrite pack_H_le by lia. reflexivity.
Qed.

(* ---- the three value directives ----------------------------------------------------------------- *)
Definition vbody (w : width) (addr : Z) (vs : list Z) : out :=
  match w with W8 => byte_body vs | W16 => word_body addr vs | W32 => dword_body addr vs end.

Definition cooked (w : width) (addr : Z) (r : res (list Z)) : out :=
  match r with
  | Ok vs => vbody w addr vs
  | Err ids => Raised (map (pair E) ids)
  | Crash s => Crashed s
  | OutOfFuel => Crashed "fuel"
  end.

Ltac open_meta :=
  let m := fresh "m" in let Hm := fresh "Hm" in
  match goal with |- context[find_meta ?nm] => destruct (find_meta nm) as [m|] eqn:Hm; [|vm_compute in Hm; discriminate] end;
  vm_compute in Hm; inversion Hm; subst m; clear Hm.

Ltac solve_emit_value n :=
  unfold emit; simpl vname; open_meta;
  cbn [m_raw]; unfold emit_meta, count_ok; cbn [m_params m_name m_min m_max];
  match goal with |- context[(0 <=? ?x) && true] => replace ((0 <=? x) && true) with true by lia end; cbn [negb];
  rewrite (cook_single _ (Some n) false) by (vm_compute; reflexivity);
  reflexivity.

(* compile_insn specialised to .byte / .word / .dword: any number of operands, each int8/int16/int32 *)
Lemma emit_value enc w ops addr :
  emit enc (DMeta (vname w) ops) addr =
  after (hash_diags ops) [] (cooked w addr (mapM (get_as_int (Some (bits w)) false None) (map snd ops))).
Proof.
  destruct w; [solve_emit_value 8 | solve_emit_value 16 | solve_emit_value 32].
Qed.

Lemma alias_db enc ops addr : emit enc (DMeta ".db" ops) addr = emit enc (DMeta ".byte" ops) addr.
Proof. reflexivity. Qed.
Lemma alias_dw enc ops addr : emit enc (DMeta ".dw" ops) addr = emit enc (DMeta ".word" ops) addr.
Proof. reflexivity. Qed.

Lemma odd_prefix_even addr : addr mod 2 = 0 -> odd_prefix addr = Ok ([], []).
Proof. intros H. unfold odd_prefix, py_mod. simpl. rewrite H. reflexivity. Qed.
Lemma odd_prefix_odd addr : addr mod 2 = 1 -> odd_prefix addr = Ok ([(E, "odd-address")], [0]).
Proof. intros H. unfold odd_prefix, py_mod. simpl. rewrite H. reflexivity. Qed.

Lemma value_pack w vs :
  match w with
  | W8 => pack_all pack_B | W16 => pack_all pack_H | W32 => pack_all encode_i32
  end (map (fun v => v mod 2 ^ bits w) vs) = Ok (concat (map (value_bytes w) vs)).
Proof.
  destruct w; simpl bits.
  - induction vs as [|v vs IH]; [reflexivity|]. cbn [map]. rewrite pack_all_cons, pack_B_value. cbn [bind].
    rewrite IH. reflexivity.
  - induction vs as [|v vs IH]; [reflexivity|]. cbn [map]. rewrite pack_all_cons, pack_H_value. cbn [bind].
    rewrite IH. reflexivity.
  - induction vs as [|v vs IH]; [reflexivity|]. cbn [map]. rewrite pack_all_cons, encode_i32_value. cbn [bind].
    rewrite IH. reflexivity.
Qed.

Lemma byte_body_ne vs : vs <> [] -> byte_body vs = of_res (pack_all pack_B vs).
Proof. destruct vs; [contradiction|reflexivity]. Qed.

Lemma word_body_ne addr vs ds pre : vs <> [] -> odd_prefix addr = Ok (ds, pre) ->
  word_body addr vs = after ds pre (of_res (pack_all pack_H vs)).
Proof. intros Hne Hp. unfold word_body. rewrite Hp. destruct vs; [contradiction|reflexivity]. Qed.

Lemma dword_body_ne addr vs ds pre : vs <> [] -> odd_prefix addr = Ok (ds, pre) ->
  dword_body addr vs = after ds pre (of_res (pack_all encode_i32 vs)).
Proof. intros Hne Hp. unfold dword_body. rewrite Hp. destruct vs; [contradiction|reflexivity]. Qed.

Lemma map_ne {A B} (f : A -> B) l : l <> [] -> map f l <> [].
Proof. destruct l; [contradiction|discriminate]. Qed.

(* the body on admitted, reduced values, for any prefix *)
Lemma vbody_values w addr vs ds pre :
  vs <> [] -> (w = W8 -> ds = [] /\ pre = []) -> (w <> W8 -> odd_prefix addr = Ok (ds, pre)) ->
  vbody w addr (map (fun v => v mod 2 ^ bits w) vs) = Out (ds ++ []) (pre ++ concat (map (value_bytes w) vs)).
Proof.
  intros Hne H8 Hn8. pose proof (value_pack w vs) as P.
  pose proof (map_ne (fun v => v mod 2 ^ bits w) vs Hne) as Hne'.
  destruct w; unfold vbody.
  - destruct (H8 eq_refl) as [-> ->]. rewrite (byte_body_ne _ Hne'), P. reflexivity.
  - rewrite (word_body_ne addr _ ds pre Hne' (Hn8 ltac:(discriminate))), P. reflexivity.
  - rewrite (dword_body_ne addr _ ds pre Hne' (Hn8 ltac:(discriminate))), P. reflexivity.
Qed.

(* admitted values, permitted address: exactly the stated bytes, no diagnostic *)
Lemma data_ok enc w vs addr :
  vs <> [] -> forallb (fits w) vs = true -> (w = W8 \/ addr mod 2 = 0) ->
  emit enc (DMeta (vname w) (plain vs)) addr = Out [] (concat (map (value_bytes w) vs)).
Proof.
  intros Hne Hf Ha. rewrite emit_value, plain_hash, plain_snd, after_nil.
  rewrite (mapM_gai_ok _ _ _ (bits_nonneg w) (forallb_fits_Forall _ _ Hf)). unfold cooked.
  rewrite (vbody_values w addr vs [] []); [reflexivity|assumption|auto|].
  intros Hw. destruct Ha as [Ha|Ha]; [contradiction|]. apply odd_prefix_even. exact Ha.
Qed.

(* word data at an odd address: the error is reported and one zero byte precedes the data *)
Lemma data_odd enc w vs addr :
  vs <> [] -> forallb (fits w) vs = true -> w <> W8 -> addr mod 2 = 1 ->
  emit enc (DMeta (vname w) (plain vs)) addr = Out [(E, "odd-address")] (0 :: concat (map (value_bytes w) vs)).
Proof.
  intros Hne Hf Hw Ha. rewrite emit_value, plain_hash, plain_snd, after_nil.
  rewrite (mapM_gai_ok _ _ _ (bits_nonneg w) (forallb_fits_Forall _ _ Hf)). unfold cooked.
  rewrite (vbody_values w addr vs [(E, "odd-address")] [0]); [reflexivity|assumption|contradiction|].
  intros _. apply odd_prefix_odd. exact Ha.
Qed.

(* no operand: one zero of the width, with the implicit-operand warning *)
Lemma data_empty enc w addr :
  (w = W8 \/ addr mod 2 = 0) ->
  emit enc (DMeta (vname w) []) addr = Out [(W, "implicit-operand")] (zero_bytes (nbytes w)).
Proof.
  intros Ha. rewrite emit_value. simpl. destruct w; simpl.
  - reflexivity.
  - destruct Ha as [Ha|Ha]; [discriminate|]. unfold word_body. rewrite (odd_prefix_even _ Ha). reflexivity.
  - destruct Ha as [Ha|Ha]; [discriminate|]. unfold dword_body. rewrite (odd_prefix_even _ Ha). reflexivity.
Qed.

Lemma data_empty_odd enc w addr :
  w <> W8 -> addr mod 2 = 1 ->
  emit enc (DMeta (vname w) []) addr = Out [(E, "odd-address"); (W, "implicit-operand")] (0 :: zero_bytes (nbytes w)).
Proof.
  intros Hw Ha. rewrite emit_value. simpl. destruct w; simpl.
  - contradiction.
  - unfold word_body. rewrite (odd_prefix_odd _ Ha). reflexivity.
  - unfold dword_body. rewrite (odd_prefix_odd _ Ha). reflexivity.
Qed.

(* a value whose magnitude does not fit: refused (error reported, RecoverableError: no bytes at all) *)
Lemma data_out_of_range enc w vs addr :
  forallb (fits w) vs = false -> emit enc (DMeta (vname w) (plain vs)) addr = voob.
Proof.
  intros Hf. rewrite emit_value, plain_hash, plain_snd, after_nil.
  rewrite (mapM_gai_err _ _ _ (bits_nonneg w) (forallb_fits_Exists _ _ Hf)). reflexivity.
Qed.

(* ---- implicit word lists ------------------------------------------------------------------------- *)
Lemma word_list_unfold addr ws :
  word_list addr ws =
  match mapM (get_as_int (Some 16) false None) ws with
  | Ok vs => match odd_prefix addr with
             | Ok (ds, pre) => after ds pre (of_res (pack_all pack_H vs))
             | Err _ => Crashed "unexpected" | Crash s => Crashed s | OutOfFuel => Crashed "fuel" end
  | Err ids => Raised (map (pair E) ids)
  | Crash s => Crashed s
  | OutOfFuel => Crashed "fuel"
  end.
Proof. reflexivity. Qed.

Lemma words_ok enc ws addr :
  forallb (fits W16) ws = true -> addr mod 2 = 0 ->
  emit enc (DWordList ws) addr = Out [] (concat (map (value_bytes W16) ws)).
Proof.
  intros Hf Ha. simpl emit. rewrite word_list_unfold.
  rewrite (mapM_gai_ok 16 false ws ltac:(lia) (forallb_fits_Forall W16 _ Hf)).
  rewrite (odd_prefix_even _ Ha). pose proof (value_pack W16 ws) as P. cbn [bits] in P. rewrite P. reflexivity.
Qed.

Lemma words_odd enc ws addr :
  forallb (fits W16) ws = true -> addr mod 2 = 1 ->
  emit enc (DWordList ws) addr = Out [(E, "odd-address")] (0 :: concat (map (value_bytes W16) ws)).
Proof.
  intros Hf Ha. simpl emit. rewrite word_list_unfold.
  rewrite (mapM_gai_ok 16 false ws ltac:(lia) (forallb_fits_Forall W16 _ Hf)).
  rewrite (odd_prefix_odd _ Ha). pose proof (value_pack W16 ws) as P. cbn [bits] in P. rewrite P. reflexivity.
Qed.

Lemma words_out_of_range enc ws addr :
  forallb (fits W16) ws = false -> emit enc (DWordList ws) addr = voob.
Proof.
  intros Hf. simpl emit. rewrite word_list_unfold.
  rewrite (mapM_gai_err 16 false ws ltac:(lia) (forallb_fits_Exists W16 _ Hf)). reflexivity.
Qed.
