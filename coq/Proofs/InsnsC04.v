(* Proofs/InsnsC04.v -- C04: branches, SOB and PC-relative operands hit their target or are rejected. *)
From Coq Require Import ZArith List String Ascii Bool Lia ZifyBool.
From Verif Require Import Base.Res Base.Range Spec.PDP11 Gen.GenOpcodes Model.Insns Proofs.InsnsCheck Proofs.InsnsP Proofs.InsnsMain.
Import ListNotations.
Open Scope string_scope.
Open Scope list_scope.
Open Scope Z_scope.
Ltac Zify.zify_post_hook ::= Z.to_euclidean_division_equations.

(* rel = address of the word after the branch = what the PC holds when the offset is added *)
Theorem branch_hits t rel f : enc_offset false 8 t rel = Ok f ->
  rel + 2 * sext8 (f mod 256) = t /\ -128 <= f <= 127 /\ branch_target (rel - 2) (f mod 256) = wrap16 t.
Proof.
  intros H. pose proof (enc_offset_branch t rel) as P. rewrite H in P. destruct P as [_ [_ [P3 P4]]].
  rewrite sext8_mod by lia. split; [lia|]. split; [lia|].
  apply branch_target_hits; lia.
Qed.

Theorem sob_hits t rel f : enc_offset true 6 t rel = Ok f ->
  rel - 2 * f = t /\ 0 <= f < 64 /\ sob_target (rel - 2) f = wrap16 t.
Proof.
  intros H. pose proof (enc_offset_sob t rel) as P. rewrite H in P. destruct P as [_ [_ [P3 P4]]].
  split; [lia|]. split; [lia|]. apply sob_target_hits. lia.
Qed.

Theorem branch_accept_iff t rel :
  (exists f, enc_offset false 8 t rel = Ok f) <-> (Z.even (t - rel) = true /\ -256 <= t - rel <= 254).
Proof.
  pose proof (enc_offset_branch t rel) as P. split.
  - intros [f H]. rewrite H in P. tauto.
  - intros H. destruct (enc_offset false 8 t rel); [eauto | exfalso; tauto | contradiction | contradiction].
Qed.

Theorem sob_accept_iff t rel :
  (exists f, enc_offset true 6 t rel = Ok f) <-> (Z.even (t - rel) = true /\ -126 <= t - rel <= 0).
Proof.
  pose proof (enc_offset_sob t rel) as P. split.
  - intros [f H]. rewrite H in P. tauto.
  - intros H. destruct (enc_offset true 6 t rel); [eauto | exfalso; tauto | contradiction | contradiction].
Qed.

(* outside the reach or at an odd distance the result is an error diagnostic (the assembly fails):
   never a field, never a Python exception *)
Theorem no_wrap_branch t rel : ~ (Z.even (t - rel) = true /\ -256 <= t - rel <= 254) ->
  exists ids, enc_offset false 8 t rel = Err ids /\ ids <> [].
Proof.
  intros N. pose proof (enc_offset_branch t rel) as P.
  destruct (enc_offset false 8 t rel) as [f|ids| |] eqn:E; try contradiction; [tauto|].
  exists ids. split; [reflexivity|]. intros ->.
  unfold enc_offset in E. destruct (_ ++ _) eqn:L in E; discriminate.
Qed.

Theorem no_wrap_sob t rel : ~ (Z.even (t - rel) = true /\ -126 <= t - rel <= 0) ->
  exists ids, enc_offset true 6 t rel = Err ids /\ ids <> [].
Proof.
  intros N. pose proof (enc_offset_sob t rel) as P.
  destruct (enc_offset true 6 t rel) as [f|ids| |] eqn:E; try contradiction; [tauto|].
  exists ids. split; [reflexivity|]. intros ->.
  unfold enc_offset in E. destruct (_ ++ _) eqn:L in E; discriminate.
Qed.

(* the displacement word of a relative / relative-deferred operand, emitted as the k-th extension
   word of an instruction at addr, makes the processor compute the target (mod 2^16) *)
Theorem relative_hits t addr k rest :
  0 <= k ->
  exists d, enc_regmode (ORel t) (addr + 2 + 2 * k) = Ok (55, [d]) /\ is_word d = true /\
            decode_rm false 55 (d :: rest) addr k = Some (SRel (wrap16 t), 1%nat) /\
            wrap16 ((addr + 2 + 2 * k) + 2 + d) = wrap16 t.
Proof.
  intros _. exists (enc_rel t (addr + 2 + 2 * k)).
  assert (Hw : is_word (enc_rel t (addr + 2 + 2 * k)) = true)
    by (unfold enc_rel; change (2 ^ 16) with 65536; apply is_word_mod).
  split; [reflexivity|]. split; [exact Hw|]. split.
  - change 55 with (6 * 8 + 7). rewrite decode_rm_split by lia. cbn [Z.eqb Pos.eqb].
    rewrite take_word_cons by exact Hw. rewrite rel_roundtrip. reflexivity.
  - pose proof (rel_roundtrip t addr k) as R. unfold ea_pcrel in R. exact R.
Qed.

Theorem relative_deferred_hits t addr k rest :
  exists d, enc_regmode (ORelDef t) (addr + 2 + 2 * k) = Ok (63, [d]) /\ is_word d = true /\
            decode_rm false 63 (d :: rest) addr k = Some (SRelDef (wrap16 t), 1%nat).
Proof.
  exists (enc_rel t (addr + 2 + 2 * k)).
  assert (Hw : is_word (enc_rel t (addr + 2 + 2 * k)) = true)
    by (unfold enc_rel; change (2 ^ 16) with 65536; apply is_word_mod).
  split; [reflexivity|]. split; [exact Hw|].
  change 63 with (7 * 8 + 7). rewrite decode_rm_split by lia. cbn [Z.eqb Pos.eqb].
  rewrite take_word_cons by exact Hw. rewrite rel_roundtrip. reflexivity.
Qed.

(* instruction level: whatever stands in front of it, the i-th written operand, if it is an address
   expression with value t, is decoded as "target t mod 2^16" *)
Lemma sem_operands_nth ks : forall ops addr k ss i o,
  sem_operands ks ops addr k = Some ss -> nth_error ops i = Some o ->
  exists c k' s, nth_error ks i = Some c /\ nth_error ss i = Some s /\ sem_operand c o addr k' = Some s.
Proof.
  induction ks as [|c ks IH]; intros ops addr k ss i o H Hn; destruct ops as [|o' ops]; try discriminate.
  - destruct i; discriminate.
  - cbn [sem_operands] in H. destruct (sem_operand c o' addr k) as [s|] eqn:E; try discriminate.
    destruct (sem_operands ks ops addr (k + ext_words s)) as [ss'|] eqn:E2; try discriminate. inv H.
    destruct i as [|i]; cbn [nth_error] in *.
    + inv Hn. eauto 10.
    + eapply IH; eauto.
Qed.

Lemma sem_operand_address c t addr k s :
  sem_operand c (ORel t) addr k = Some s ->
  s = SRel (wrap16 t) \/ s = STarget (wrap16 t) \/ exists b, s = SNum (t mod 2 ^ b) /\ - 2 ^ b < t < 2 ^ b.
Proof.
  destruct c; cbn [sem_operand sem_rm]; intros H; try discriminate.
  - inv H. auto.
  - inv H. auto.
  - destruct (_ && _ && _); inv H. auto.
  - destruct (_ && _ && _); inv H. auto.
  - right. right. exists bits. destruct neg_ok.
    + destruct ((- 2 ^ bits <? t) && (t <? 2 ^ bits)) eqn:E; inv H. split; [reflexivity|lia].
    + destruct ((0 <=? t) && (t <? 2 ^ bits)) eqn:E; inv H. split; [reflexivity|].
      assert (0 <= 2 ^ bits) by (apply Z.pow_nonneg; lia). lia.
Qed.

Lemma sem_operand_address_def c t addr k s :
  sem_operand c (ORelDef t) addr k = Some s -> s = SRelDef (wrap16 t).
Proof.
  destruct c; cbn [sem_operand sem_rm]; intros H; try discriminate; inv H; reflexivity.
Qed.

Theorem operand_hits_anywhere m ops addr ws rest i t :
  compile_insn m ops addr = Ok ws -> no_pc_autoinc ops -> nth_error ops i = Some (ORel t) ->
  exists name pre ss post s,
    decode (ws ++ rest) addr = Some (name, pre ++ ss ++ post, List.length ws) /\
    List.length ss = List.length ops /\ nth_error ss i = Some s /\
    (s = SRel (wrap16 t) \/ s = STarget (wrap16 t) \/ exists b, s = SNum (t mod 2 ^ b) /\ - 2 ^ b < t < 2 ^ b).
Proof.
  intros H Hpc Hn.
  destruct (encode_decode_struct _ _ _ _ rest H Hpc) as [name [pre [post [ks [ss [C [K [S D]]]]]]]].
  destruct (sem_operands_nth _ _ _ _ _ _ _ S Hn) as [c [k' [s [N1 [N2 N3]]]]].
  exists name, (map cst_sop pre), ss, (map cst_sop post), s.
  split; [exact D|]. split.
  - clear -S. revert ops ss S. generalize 0. induction ks as [|c ks IH]; intros k ops ss S; destruct ops; try discriminate.
    + inv S. reflexivity.
    + cbn [sem_operands] in S. destruct (sem_operand c o addr k); try discriminate.
      destruct (sem_operands ks ops addr _) eqn:E; try discriminate. inv S. simpl. f_equal. eapply IH; eauto.
  - split; [exact N2|]. eapply sem_operand_address; eauto.
Qed.

Theorem deferred_operand_hits_anywhere m ops addr ws rest i t :
  compile_insn m ops addr = Ok ws -> no_pc_autoinc ops -> nth_error ops i = Some (ORelDef t) ->
  exists name pre ss post,
    decode (ws ++ rest) addr = Some (name, pre ++ ss ++ post, List.length ws) /\
    nth_error ss i = Some (SRelDef (wrap16 t)).
Proof.
  intros H Hpc Hn.
  destruct (encode_decode_struct _ _ _ _ rest H Hpc) as [name [pre [post [ks [ss [C [K [S D]]]]]]]].
  destruct (sem_operands_nth _ _ _ _ _ _ _ S Hn) as [c [k' [s [N1 [N2 N3]]]]].
  apply sem_operand_address_def in N3. subst s.
  exists name, (map cst_sop pre), ss, (map cst_sop post). auto.
Qed.
