(* Whole-program metamorphic laws of the reference assembler, part 2: the laws.
   R_repeat_unroll, R_insert_is_bytes, R_end_cuts (C16 on whole programs). *)
From Coq Require Import ZArith List String Ascii Bool NArith Lia.
From Verif Require Import Base.Res Base.Bytes Spec.PDP11 Spec.Arith Spec.DataSpec Gen.GenGetAsInt Gen.GenOpcodes
  Model.Insns Model.Directives Proofs.DirectivesGai Proofs.DirectivesData Proofs.DirectivesAnnounce
  Model.Asm Model.AsmT Proofs.AsmP Proofs.AsmSem Proofs.AsmMeta.
Import ListNotations.
Notation length := Datatypes.length.
Notation concat := List.concat.
Open Scope string_scope.
Open Scope list_scope.
Open Scope Z_scope.

Ltac xinv H :=
  repeat match type of H with
  | xbind ?r ?f = XOk _ =>
      let a := fresh "a" in let Ha := fresh "Ha" in
      apply xbind_ok in H; destruct H as [a [Ha H]]
  end.

(* an inert segment replaced anywhere in a program (before or after an End) *)
Theorem segment_law enc (R : item -> item -> Prop) names l1 l2 X X' :
  (forall n, In n (lnames (l1 ++ l2)) -> smem n names = true) ->
  Forall quiet X -> Forall quiet X' ->
  (forall alldefs allkeys exports fuel st,
      keys_named names allkeys -> locals_named names (l_labels st) ->
      res_rel R (lay_list enc alldefs allkeys exports fuel false X st) (lay_list enc alldefs allkeys exports fuel false X' st)) ->
  (forall exports T it it', locals_named names T -> R it it' ->
      i_size it = i_size it' /\ emit_item enc exports T it = emit_item enc exports T it') ->
  assemble enc (l1 ++ X ++ l2) = assemble enc (l1 ++ X' ++ l2).
Proof.
  intros Hsub HX HX' HL HE. rewrite !assemble_cut.
  destruct (cut_end_mid l1 l2) as [m1 [m2 [b H]]].
  rewrite (H X HX), (H X' HX'). destruct b; [|reflexivity].
  apply (segment_replace enc R names); auto.
  intros n Hn. apply Hsub. apply lnames_cut_end. pose proof (H [] (Forall_nil _)) as E. simpl in E. rewrite E. exact Hn.
Qed.

(* ---- literals ---------------------------------------------------------------------------------- *)
Lemma xeval_lit enc alldefs allkeys exports labels ddots fuel vis c dot l :
  xeval enc alldefs allkeys exports labels ddots fuel vis c dot (Lit l) = lift (lit_value (cenc enc) l).
Proof. destruct fuel; reflexivity. Qed.

Lemma gai_count n : get_as_int None true None (Z.of_nat n) = Ok (Z.of_nat n).
Proof.
  unfold get_as_int. rewrite get_as_int_unbounded.
  replace (Z.of_nat n <? 0) with false by (symmetry; apply Z.ltb_ge; lia). reflexivity.
Qed.

(* ---- R_repeat_unroll --------------------------------------------------------------------------- *)
Theorem repeat_unroll_lit enc l1 l2 st u1 u2 nn body :
  (Z.of_N nn <= 65536) ->
  forallb (plainf (lnames (l1 ++ l2))) body = true ->
  assemble enc (l1 ++ [Repeat (Lit (LNum false st u1 u2 nn)) body] ++ l2) =
  assemble enc (l1 ++ concat (repeat body (N.to_nat nn)) ++ l2).
Proof.
  intros Hcap Hp. set (names := lnames (l1 ++ l2)) in *. set (n := N.to_nat nn).
  assert (Qb : Forall quiet body).
  { apply Forall_forall. intros x Hx. rewrite forallb_forall in Hp. apply (plainf_quiet names). auto. }
  apply (segment_law enc (irel names) names).
  - intros m Hm. apply smem_In. exact Hm.
  - constructor; [|constructor]. apply (plainf_quiet names). rewrite plainf_repeat. rewrite Hp. reflexivity.
  - induction n; simpl; [constructor|]. apply Forall_app. split; assumption.
  - intros alldefs allkeys exports fuel s0 HK HT.
    cbn [Asm.lay_list]. rewrite lay_stmt_repeat. unfold Asm.lev. rewrite xeval_lit. cbn [lit_value lift xbind].
    replace (Z.of_N nn) with (Z.of_nat n) by (unfold n; apply N_nat_Z).
    rewrite gai_count. cbn [lift xbind].
    replace (65536 <? Z.of_nat n) with false by (symmetry; apply Z.ltb_ge; unfold n; rewrite N_nat_Z; exact Hcap).
    rewrite Nat2Z.id.
    pose proof (iter_unroll enc alldefs allkeys exports fuel names HK body Hp n s0 HT) as RR.
    destruct (iter_x n (Asm.lay_list enc alldefs allkeys exports fuel true body) s0) as [[s1 d1]| | | |],
             (Asm.lay_list enc alldefs allkeys exports fuel false (concat (repeat body n)) s0) as [[s2 d2]| | | |];
      simpl in RR; try contradiction; try discriminate; simpl; auto.
    destruct RR as [Es Rd]. simpl in *. subst. rewrite app_nil_r. split; [reflexivity|exact Rd].
  - intros exports T it it' HT [Ea [Es [Ez [Ef Hsc]]]]. split; [exact Ez|].
    unfold emit_item. rewrite <- Ea, <- Es. destruct Hsc as [Hsc|[Hpl Hrp]]; [rewrite Hsc; reflexivity|].
    destruct (i_scope it) as [f k1], (i_scope it') as [f' k2]. simpl in Ef. subst f'.
    apply (emit_leaf_agree enc names); auto. intros e He. apply (fev_scope enc exports names); assumption.
Qed.

Theorem repeat_unroll enc l1 l2 n body :
  (Z.of_nat n <= 65536) ->
  forallb (plainf (lnames (l1 ++ l2))) body = true ->
  assemble enc (l1 ++ [Repeat (numlit n) body] ++ l2) = assemble enc (l1 ++ concat (repeat body n) ++ l2).
Proof.
  intros Hn H. unfold numlit. assert (Hc : Z.of_N (N.of_nat n) <= 65536) by (rewrite nat_N_Z; exact Hn).
  rewrite (repeat_unroll_lit enc l1 l2 _ _ _ _ body Hc H), Nat2N.id. reflexivity.
Qed.

(* ---- R_insert_is_bytes ------------------------------------------------------------------------- *)
Lemma value_bytes_byte b : 0 <= b < 256 -> value_bytes W8 b = [b].
Proof. intros H. unfold value_bytes. simpl. rewrite !Z.mod_small by lia. reflexivity. Qed.

Lemma bytes_stated bs : Forall (fun b => 0 <= b < 256) bs -> concat (map (value_bytes W8) bs) = bs.
Proof. induction 1 as [|b r Hb _ IH]; [reflexivity|]. cbn [map List.concat]. rewrite value_bytes_byte by exact Hb. simpl. congruence. Qed.

Lemma fits_bytes bs : Forall (fun b => 0 <= b < 256) bs -> forallb (fits W8) bs = true.
Proof. induction 1 as [|b r Hb _ IH]; simpl; [reflexivity|]. rewrite IH, andb_true_r. unfold fits. simpl. apply Z.ltb_lt. lia. Qed.

Lemma xmapM_bytelit (ev : expr -> xres Z) bs :
  (forall b, 0 <= b -> ev (bytelit b) = XOk b) -> Forall (fun b => 0 <= b < 256) bs -> xmapM ev (map bytelit bs) = XOk bs.
Proof. intros H. induction 1 as [|b r Hb _ IH]; simpl; [reflexivity|]. rewrite H by lia. simpl. rewrite IH. reflexivity. Qed.

Definition ins_rel (bs : list Z) (it it' : item) : Prop :=
  i_addr it = i_addr it' /\ i_scope it = i_scope it' /\ i_size it = i_size it' /\
  i_stmt it = Insert bs /\ i_stmt it' = Byte (map bytelit bs).

Theorem insert_is_bytes enc l1 l2 bs :
  bs <> [] -> Forall (fun b => 0 <= b < 256) bs ->
  assemble enc (l1 ++ [Insert bs] ++ l2) = assemble enc (l1 ++ [Byte (map bytelit bs)] ++ l2).
Proof.
  intros Hne Hb.
  apply (segment_law enc (ins_rel bs) (lnames (l1 ++ l2))).
  - intros m Hm. apply smem_In. exact Hm.
  - constructor; [|constructor]. repeat split.
  - constructor; [|constructor]. repeat split.
  - intros alldefs allkeys exports fuel st _ _. cbn [Asm.lay_list Asm.lay_stmt]. unfold Asm.lay_leaf. cbv zeta. cbn [sized_size emit_leaf xbind].
    unfold data_size. change ".byte" with (vname W8). change (Asm.plain ?x) with (DirectivesData.plain x).
    rewrite announced_value. cbn [xbind fst snd]. unfold DirectivesData.plain. rewrite !map_length.
    assert (E : width_bytes W8 * py_or (Z.of_nat (length bs)) 1 = zlen bs).
    { unfold zlen. destruct bs; [contradiction|]. cbn [length]. rewrite py_or_S. unfold width_bytes. lia. }
    rewrite E. unfold put. cbn [fst snd app]. split; [reflexivity|]. constructor; [|constructor].
    unfold ins_rel; simpl; auto 10.
  - intros exports T it it' _ [Ea [Esc [Ez [E1 E2]]]]. split; [exact Ez|].
    unfold emit_item. rewrite E1, E2, <- Ea, <- Esc. cbn [emit_leaf].
    rewrite (xmapM_bytelit _ bs); [|intros b Hb0; unfold fev, bytelit; simpl; rewrite Z2N.id by lia; reflexivity|exact Hb].
    cbn [xbind]. change ".byte" with (vname W8). change (Asm.plain bs) with (DirectivesData.plain bs).
    rewrite data_ok; [|exact Hne|apply fits_bytes; exact Hb|left; reflexivity].
    simpl. rewrite bytes_stated by exact Hb. reflexivity.
Qed.

(* ---- R_end_cuts --------------------------------------------------------------------------------- *)
Theorem end_cuts enc p p' : cut_end p = cut_end p' -> assemble_full enc p = assemble_full enc p'.
Proof. intros H. rewrite !assemble_full_cut, H. reflexivity. Qed.

Lemma cut_end_at l1 l2 : cut_end (l1 ++ End :: l2) = cut_end l1.
Proof. induction l1 as [|x r IH]; simpl; [reflexivity|]. destruct x; simpl; rewrite ?IH; reflexivity. Qed.

Theorem end_discards_rest enc l1 l2 l2' : assemble_full enc (l1 ++ End :: l2) = assemble_full enc (l1 ++ End :: l2').
Proof. apply end_cuts. rewrite !cut_end_at. reflexivity. Qed.

(* the number of copies recorded by R_layout's [flat] for a literal count is that literal *)
Theorem layout_count_literal enc alldefs allkeys exports fuel n k :
  layout_count enc alldefs allkeys exports fuel (numlit n) k -> k = n.
Proof.
  intros [st [c [v [v' [H1 [H2 ->]]]]]]. unfold Asm.lev, numlit in H1. rewrite xeval_lit in H1. simpl in H1.
  inversion H1; subst v. rewrite nat_N_Z, gai_count in H2. inversion H2; subst. apply Nat2Z.id.
Qed.
