(* C05 (i): every operator body translated from operators.py (Gen/GenOperators.v) computes the
   documented arithmetic of Spec/Arith.v on all of Z, with exactly the same error cases. *)
From Coq Require Import String Ascii List ZArith NArith Bool Lia.
From Verif Require Import Base.Res Spec.ExprTokens Spec.Arith Gen.GenOperators Model.Lexer Model.ExprParse.
Import ListNotations.
Open Scope string_scope.
Open Scope Z_scope.

(* what a body's outcome means for the assembly: a value with no report, or the reports.
   A MemoryError raised by a body is what compiler.py reports as 'too-complex' (the refusal of an
   absurd shift count); if reports were made before it, they stay. *)
Definition res_of (r : res opres) : res Z :=
  match r with
  | Ok (v, []) => Ok v
  | Ok (_, ids) => Err ids
  | Err ids => Err (map raised_id ids)
  | Crash s => if String.eqb s "MemoryError" then Err ["too-complex"] else Crash s
  | OutOfFuel => OutOfFuel
  end.

Lemma geb_ge a b : (a >=? b) = true <-> b <= a.
Proof. rewrite Z.geb_leb. apply Z.leb_le. Qed.
Lemma geb_lt a b : (a >=? b) = false <-> a < b.
Proof. rewrite Z.geb_leb. apply Z.leb_gt. Qed.
Lemma gtb_gt a b : (a >? b) = true <-> b < a.
Proof. rewrite Z.gtb_ltb. apply Z.ltb_lt. Qed.
Lemma gtb_le a b : (a >? b) = false <-> a <= b.
Proof. rewrite Z.gtb_ltb. apply Z.ltb_ge. Qed.

Lemma ltb_false_of_le a b : b <= a -> (a <? b) = false.
Proof. intros. apply Z.ltb_ge. lia. Qed.
Lemma ltb_true_of_lt a b : a < b -> (a <? b) = true.
Proof. intros. apply Z.ltb_lt. lia. Qed.

(* One tactic for all bodies, so that a harmless rewording of a body (another but equivalent
   comparison, branches in another order) does not break the proof: split on every test, turn the
   tests into facts about Z, normalise the shifts, and compare. *)
Ltac tests_to_facts :=
  repeat match goal with
  | H : (_ >=? _) = true |- _ => apply geb_ge in H
  | H : (_ >=? _) = false |- _ => apply geb_lt in H
  | H : (_ >? _) = true |- _ => apply gtb_gt in H
  | H : (_ >? _) = false |- _ => apply gtb_le in H
  | H : (_ <=? _) = true |- _ => apply Z.leb_le in H
  | H : (_ <=? _) = false |- _ => apply Z.leb_gt in H
  | H : (_ <? _) = true |- _ => apply Z.ltb_lt in H
  | H : (_ <? _) = false |- _ => apply Z.ltb_ge in H
  | H : (_ =? _) = true |- _ => apply Z.eqb_eq in H
  | H : (_ =? _) = false |- _ => apply Z.eqb_neq in H
  end.

Ltac split_tests :=
  repeat match goal with
  | |- context [if ?c then _ else _] => destruct c eqn:?
  end.

Lemma shiftl_as_mul a b : 0 <= b -> a * 2 ^ b = Z.shiftl a b.
Proof. intros. symmetry. apply Z.shiftl_mul_pow2. assumption. Qed.
Lemma shiftr_neg_zero a b : b = 0 -> Z.shiftr a (- b) = Z.shiftl a b.
Proof. intros ->. reflexivity. Qed.
Lemma shiftr_zero a b : b = 0 -> Z.shiftr a b = a.
Proof. intros ->. apply Z.shiftr_0_r. Qed.
Lemma shiftl_zero a b : b = 0 -> Z.shiftl a b = a.
Proof. intros ->. apply Z.shiftl_0_r. Qed.

Lemma mul_shiftl_one a b : 0 <= b -> a * Z.shiftl 1 b = Z.shiftl a b.
Proof. intros. rewrite !Z.shiftl_mul_pow2 by assumption. ring. Qed.

Ltac close_op :=
  simpl; try reflexivity; try (exfalso; lia);
  repeat rewrite mul_shiftl_one by lia;
  repeat rewrite shiftl_as_mul by lia;
  try reflexivity;
  try (rewrite shiftr_neg_zero by lia; reflexivity);
  try (rewrite shiftr_zero by lia; reflexivity);
  try (rewrite shiftl_zero by lia; reflexivity);
  try (symmetry; rewrite shiftr_zero by lia; reflexivity);
  try (symmetry; rewrite shiftl_zero by lia; reflexivity);
  try (f_equal; lia).

Ltac unfold_ops :=
  unfold body_div, body_mod, body_lshift, body_rshift, body_lsh, fn_times_power_of_two, MAX_SHIFT, reported_then,
         py_floordiv, py_mod, py_pow, py_lshift, py_rshift, py_assert, catch_zde, sem_bin, arith_error,
         too_complex, max_shift.

Ltac op_agrees := unfold_ops; split_tests; tests_to_facts; close_op.

Lemma agree_div a b : res_of (body_div a b) = sem_bin BDiv a b.
Proof. op_agrees. Qed.
Lemma agree_mod a b : res_of (body_mod a b) = sem_bin BMod a b.
Proof. op_agrees. Qed.
(* a left shift is carried out up to 65536 bits and refused beyond: for every a and b *)
Lemma agree_lshift a b : res_of (body_lshift a b) = sem_bin BShl a b.
Proof. op_agrees. Qed.
Lemma agree_lsh a b : res_of (body_lsh a b) = sem_bin BLsh a b.
Proof. op_agrees. Qed.
(* >> with a negative count is an error for the Spec whatever the count; the code then goes on to
   shift left by -b, and refuses that too when -b is beyond the bound *)
Lemma agree_rshift a b : - max_shift <= b -> res_of (body_rshift a b) = sem_bin BShr a b.
Proof. unfold max_shift. intros. op_agrees. Qed.
Lemma agree_rshift_beyond a b : b < - max_shift ->
  res_of (body_rshift a b) = Err ["arithmetic-error"; "too-complex"] /\ sem_bin BShr a b = Err ["arithmetic-error"].
Proof. unfold max_shift. intros. split; op_agrees. Qed.

(* the only condition: for >>, the count is not below -65536 (see agree_rshift_beyond) *)
Definition count_ok (o : binop) (b : Z) : Prop :=
  match o with BShr => - max_shift <= b | _ => True end.

Lemma ops_agree_bin : forall (o : binop) (a b : Z), count_ok o b ->
  exists f, infix_body (binop_text o) = Some f /\ res_of (f a b) = sem_bin o a b.
Proof.
  intros o a b Hc. destruct o; eexists; (split; [reflexivity|]).
  - reflexivity.
  - apply agree_div.
  - apply agree_mod.
  - reflexivity.
  - reflexivity.
  - apply agree_lshift.
  - apply agree_rshift. exact Hc.
  - apply agree_lsh.
  - reflexivity.
  - reflexivity.
  - reflexivity.
  - reflexivity.
Qed.

(* without any condition: the body gives the Spec's value, or reports every error the Spec names *)
Definition res_covers (m s : res Z) : Prop :=
  match s with
  | Ok v => m = Ok v
  | Err ids => exists ids', m = Err ids' /\ forall id, In id ids -> In id ids'
  | _ => False
  end.

Lemma ops_agree_bin_all : forall (o : binop) (a b : Z),
  exists f, infix_body (binop_text o) = Some f /\ res_covers (res_of (f a b)) (sem_bin o a b).
Proof.
  intros o a b.
  assert (Hrefl : forall r : res Z, match r with Ok _ | Err _ => True | _ => False end -> res_covers r r).
  { intros [v|ids|s|]; simpl; try contradiction; intros _; [reflexivity|]. exists ids. auto. }
  assert (Hcase : count_ok o b \/ (o = BShr /\ b < - max_shift)).
  { destruct o; simpl; auto. destruct (Z_le_gt_dec (- max_shift) b); [left; assumption|right; split; [reflexivity|unfold max_shift in *; lia]]. }
  destruct Hcase as [Hc|[-> Hb]].
  - destruct (ops_agree_bin o a b Hc) as [f [Hf Hag]].
    exists f. split; [exact Hf|]. rewrite Hag. apply Hrefl.
    destruct o; unfold_ops; split_tests; exact I.
  - exists body_rshift. split; [reflexivity|]. destruct (agree_rshift_beyond a b Hb) as [H1 H2].
    rewrite H1, H2. simpl. eexists. split; [reflexivity|]. intros id [E|[]]. left. exact E.
Qed.

Lemma ops_agree_un : forall (u : unop) (a : Z),
  exists f, prefix_body (unop_text u) = Some f /\ res_of (f a) = sem_un u a.
Proof.
  intros u a. destruct u; eexists; (split; [reflexivity|]); reflexivity.
Qed.

(* the only exception an operator body can raise is the MemoryError of a left shift beyond the bound:
   no ZeroDivisionError, no ValueError of a negative shift count, no float from **, no failing assert *)
Lemma ops_crash_only_refusal : forall (o : binop) (a b : Z),
  exists f, infix_body (binop_text o) = Some f /\
            forall s, f a b = Crash s -> s = "MemoryError" /\ max_shift < b.
Proof.
  intros o a b. destruct o; eexists; (split; [reflexivity|]); intros s; unfold_ops;
    split_tests; tests_to_facts; try (exfalso; lia); intros H; try discriminate; inversion H; (split; [reflexivity|lia]).
Qed.

(* the documented meaning of the shifts, for reference: multiplication / floor division by a power of two *)
Lemma shl_is_mul a b : 0 <= b <= max_shift -> sem_bin BShl a b = Ok (a * 2 ^ b).
Proof.
  unfold max_shift. intros. unfold sem_bin, max_shift. rewrite (ltb_false_of_le b 0) by lia.
  rewrite (ltb_false_of_le 65536 b) by lia. rewrite Z.shiftl_mul_pow2 by lia. reflexivity.
Qed.
Lemma shl_refused a b : max_shift < b -> sem_bin BShl a b = Err ["too-complex"] /\ sem_bin BLsh a b = Err ["too-complex"].
Proof.
  unfold max_shift. intros. unfold sem_bin, max_shift, too_complex. rewrite (ltb_false_of_le b 0) by lia.
  rewrite (ltb_true_of_lt 65536 b) by lia.
  replace (0 <=? b) with true by (symmetry; apply Z.leb_le; lia). split; reflexivity.
Qed.
Lemma lsh_is_mul a b : 0 <= b <= max_shift -> sem_bin BLsh a b = Ok (a * 2 ^ b).
Proof.
  unfold max_shift. intros. unfold sem_bin, max_shift. replace (0 <=? b) with true by (symmetry; apply Z.leb_le; lia).
  rewrite (ltb_false_of_le 65536 b) by lia. rewrite Z.shiftl_mul_pow2 by lia. reflexivity.
Qed.
Lemma shr_is_div a b : 0 <= b -> sem_bin BShr a b = Ok (a / 2 ^ b).
Proof. intros. unfold sem_bin. rewrite (ltb_false_of_le b 0) by lia. rewrite Z.shiftr_div_pow2 by lia. reflexivity. Qed.
Lemma lsh_neg_is_div a b : b < 0 -> sem_bin BLsh a b = Ok (a / 2 ^ (- b)).
Proof.
  intros. unfold sem_bin. replace (0 <=? b) with false by (symmetry; apply Z.leb_gt; lia).
  rewrite Z.shiftr_div_pow2 by lia. reflexivity.
Qed.
(* floor division: the remainder has the sign of the divisor and a = b*q + r *)
Lemma div_mod_floor a b q r : b <> 0 -> sem_bin BDiv a b = Ok q -> sem_bin BMod a b = Ok r ->
  a = b * q + r /\ (0 < b -> 0 <= r < b) /\ (b < 0 -> b < r <= 0).
Proof.
  intros Hb. unfold sem_bin. apply Z.eqb_neq in Hb. rewrite Hb. intros Hq Hr.
  inversion Hq; inversion Hr; subst. apply Z.eqb_neq in Hb.
  split; [apply Z.div_mod; exact Hb|]. split; intros.
  - apply Z.mod_pos_bound. lia.
  - apply Z.mod_neg_bound. lia.
Qed.
