(* The size-guard of Model/Asm.v is redundant for every statement with an announced size: an instruction
   or a .byte/.word/.dword/word list that emits without error emits exactly the number of bytes the layout
   advanced by (C02's insn_length_by_form, C06's announce_eq_emit). *)
From Coq Require Import ZArith List String Ascii Bool NArith Lia.
From Verif Require Import Base.Res Base.Bytes Spec.PDP11 Spec.Arith Spec.DataSpec Gen.GenGetAsInt Gen.GenOpcodes
  Model.Insns Model.Directives Model.Block Proofs.BlockP Proofs.BlockInsns
  Proofs.DirectivesData Proofs.DirectivesAnnounce Model.Asm Proofs.AsmP Proofs.AsmSem.
Import ListNotations.
Notation length := Datatypes.length.
Notation concat := List.concat.
Open Scope string_scope.
Open Scope list_scope.
Open Scope Z_scope.

Ltac xinv H :=
  repeat match type of H with
  | xbind ?r ?f = XOk _ =>
      let a := fresh "a" in let Ha := fresh "Ha" in
      apply xbind_ok in H; destruct H as [a [Ha H]]
  end.

Lemma ext_of_eval ev st o o' : eval_opnd ev o = XOk o' -> ext_of_a st o = ext_of st o'.
Proof.
  unfold ext_of_a, ext_of. destruct o; simpl; intros H; xinv H; inversion H; subst; destruct (sk st); reflexivity.
Qed.

Lemma ext_total_eval ev sts : forall ops os, xmapM (eval_opnd ev) ops = XOk os -> ext_total_a sts ops = ext_total sts os.
Proof.
  induction sts as [|st sts IH]; intros ops os H; destruct ops as [|o ops]; simpl in *.
  - inversion H; reflexivity.
  - xinv H. inversion H; subst. reflexivity.
  - inversion H; subst. reflexivity.
  - xinv H. inversion H; subst. simpl. rewrite (ext_of_eval _ _ _ _ Ha), (IH _ _ Ha0). reflexivity.
Qed.

Section Sized.
Variable enc : list N -> option (list Z).

Lemma data_sized w n vs addr bs sz :
  length vs = n ->
  data_size (DMeta (vname w) (DirectivesData.plain (repeat 0 n))) = XOk sz ->
  out_x (emit enc (DMeta (vname w) (DirectivesData.plain vs)) addr) = XOk bs -> zlen bs = sz.
Proof.
  intros Hl Hs He. apply out_x_ok in He. destruct He as [ds [He Hd]].
  unfold data_size in Hs. rewrite announced_value in Hs. inversion Hs; subst sz.
  unfold zlen. erewrite announce_eq_emit; [reflexivity|exact He|exact Hd|].
  rewrite announced_value. unfold DirectivesData.plain. rewrite !map_length, repeat_length, Hl. reflexivity.
Qed.

Lemma some_inj {A} (a b : A) : Some a = Some b -> a = b.
Proof. congruence. Qed.

Lemma map_const_repeat {A} (l : list A) : map (fun _ => 0) l = repeat 0 (length l).
Proof. induction l; simpl; congruence. Qed.

Theorem sized_consistent ev addr s r sz bs :
  sized_size s = Some r -> r = XOk sz -> emit_leaf enc ev addr s = XOk bs -> zlen bs = sz.
Proof.
  intros Hs Hr He. subst r. destruct s; try discriminate; cbn [sized_size] in Hs; apply some_inj in Hs; rename Hs into Hr; cbn [emit_leaf] in He; xinv He.
  - (* Insn *)
    inversion He; subst bs. apply lift_ok in Ha0.
    unfold insn_size in Hr. unfold compile_insn in Ha0.
    destruct (lookup_pat m opcode_table) as [pat|]; [|discriminate].
    destruct (init_entry pat) as [i| | |]; try discriminate. cbn [xbind lift bind] in Hr, Ha0.
    destruct (negb (Nat.eqb (length ops) (length (stubs i)))); [discriminate|]. injection Hr as <-.
    apply insn_length_by_form in Ha0. unfold zlen. rewrite words_bytes_length, Ha0.
    rewrite (ext_total_eval _ _ _ _ Ha).
    match goal with |- _ = ?rhs => change rhs with (2 + 2 * Z.of_nat (ext_total (stubs i) a)) end. lia.
  - change ".byte" with (vname W8) in *. change (Asm.plain ?x) with (DirectivesData.plain x) in *.
    rewrite map_const_repeat in Hr. eapply data_sized; [|exact Hr|exact He].
    destruct (xmapM_nth _ _ _ Ha) as [L _]. exact L.
  - change ".word" with (vname W16) in *. change (Asm.plain ?x) with (DirectivesData.plain x) in *.
    rewrite map_const_repeat in Hr. eapply data_sized; [|exact Hr|exact He].
    destruct (xmapM_nth _ _ _ Ha) as [L _]. exact L.
  - change ".dword" with (vname W32) in *. change (Asm.plain ?x) with (DirectivesData.plain x) in *.
    rewrite map_const_repeat in Hr. eapply data_sized; [|exact Hr|exact He].
    destruct (xmapM_nth _ _ _ Ha) as [L _]. exact L.
  - (* word list *)
    apply out_x_ok in He. destruct He as [ds [He Hd]].
    unfold data_size in Hr. simpl in Hr. inversion Hr; subst sz.
    unfold zlen. rewrite (announce_words _ _ _ _ _ He Hd). rewrite map_length.
    destruct (xmapM_nth _ _ _ Ha) as [L _]. rewrite L. reflexivity.
Qed.

End Sized.
