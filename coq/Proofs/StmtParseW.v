(* P -- every offset the parser model stores lies inside the file, start not after end (C17's range clause at
   parser level).

   Invariant threaded through every parser function, like the induction of parse_total:
     * every Context is well formed:  pos c + |rest c| = N  (N = length of the text), so pos c <= N;
     * contexts only move forward inside one function (|rest| never grows beyond the bound n of the function);
     * every diagnostic emitted so far has spans (a, b) with a <= b <= N;
     * every tree built so far has all its (start, end) pairs with start <= end <= position of the current context.
   Crash / OutOfFuel outcomes are vacuous here (parse_total excludes them separately), so no fuel bookkeeping. *)
From Coq Require Import String Ascii List ZArith NArith Bool Lia Arith.
From Verif Require Import Gen.GenParserTables Gen.GenRadix50 Model.SkipWs Model.StmtParse Model.StmtParseOffsets
                          Proofs.StmtParseP Proofs.StmtParseSpell.
Import ListNotations.
Open Scope N_scope.

Definition wfc (L : N) (c : ctx) : Prop := pos c + N.of_nat (sz c) = L.
Definition ds_ok (L : N) (d : list diag) : Prop := Forall (fun x => Forall (span_in L) (snd x)) d.
Definition nok (hi : N) (n : node) : Prop := Forall (span_in hi) (offsets n).
Definition noks (hi : N) (l : list node) : Prop := Forall (nok hi) l.

Definition rok {A} (L : N) (n : nat) (Q : A -> ctx -> Prop) (o : out A) : Prop :=
  match o with
  | Ok a c' d' => wfc L c' /\ (sz c' <= n)%nat /\ ds_ok L d' /\ Q a c'
  | Fail c' d' => wfc L c' /\ (sz c' <= n)%nat /\ ds_ok L d'
  | Crit d' => ds_ok L d'
  | Crash _ => True
  | OutOfFuel => True
  end.

Lemma rok_conseq {A} L n (Q Q' : A -> ctx -> Prop) o :
  rok L n Q o -> (forall a c', wfc L c' -> (sz c' <= n)%nat -> Q a c' -> Q' a c') -> rok L n Q' o.
Proof. destruct o; simpl; intuition. Qed.
Lemma rok_mono {A} L n n' (Q : A -> ctx -> Prop) o : (n <= n')%nat -> rok L n Q o -> rok L n' Q o.
Proof. destruct o; simpl; intuition; lia. Qed.
(* use of a specification proved at a smaller bound m, remembering that bound *)
Lemma rok_call {A} L n m (Q : A -> ctx -> Prop) o :
  rok L m Q o -> (m <= n)%nat -> rok L n (fun a c' => Q a c' /\ (sz c' <= m)%nat) o.
Proof. destruct o; simpl; intuition; lia. Qed.

Lemma wbind {A B} L n (p : parser A) (k : A -> parser B) c d Q1 (Q : B -> ctx -> Prop) :
  rok L n Q1 (p c d) ->
  (forall av cx dx, wfc L cx -> (sz cx <= n)%nat -> ds_ok L dx -> Q1 av cx -> rok L n Q (k av cx dx)) ->
  rok L n Q (bind p k c d).
Proof. unfold bind; destruct (p c d); simpl; intuition. Qed.

Lemma pos_le L a b : wfc L a -> wfc L b -> (sz b <= sz a)%nat -> pos a <= pos b.
Proof. unfold wfc; lia. Qed.
Lemma pos_N L a : wfc L a -> pos a <= L.
Proof. unfold wfc; lia. Qed.

Lemma nok_mono hi hi' n : hi <= hi' -> nok hi n -> nok hi' n.
Proof. intros H. unfold nok. apply Forall_impl. unfold span_in; intros; lia. Qed.
Lemma noks_mono hi hi' l : hi <= hi' -> noks hi l -> noks hi' l.
Proof. intros H. unfold noks. apply Forall_impl. intros; eapply nok_mono; eauto. Qed.

(* the nested list traversal of [offsets] *)
Definition go_offsets := fix go (l : list node) : list span := match l with [] => [] | x :: r => offsets x ++ go r end.
Lemma go_noks hi l : Forall (span_in hi) (go_offsets l) <-> noks hi l.
Proof.
  induction l as [|x l IH]; simpl; [split; constructor|].
  rewrite Forall_app. unfold noks in *. split.
  - intros [H1 H2]. constructor; [exact H1 | apply IH; exact H2].
  - intros H. inversion H; subst. split; [cbv beta in *; assumption | apply IH; assumption].
Qed.
Lemma noks_rev hi l : noks hi l -> noks hi (rev l).
Proof. unfold noks. intros H. apply Forall_rev; auto. Qed.

(* ---- tactics ---------------------------------------------------------------------------------------- *)
Tactic Notation "wstep" tactic3(tac) "as" simple_intropattern(a) simple_intropattern(c) simple_intropattern(d)
       simple_intropattern(W) simple_intropattern(S) simple_intropattern(D) simple_intropattern(HQ) :=
  eapply wbind; [ tac | cbv beta; intros a c d W S D HQ ].
Ltac arith := unfold wfc, span_in, sp in *; simpl in *; lia.
Ltac spans := repeat (apply Forall_cons || apply Forall_nil); unfold span_in, sp; simpl; unfold wfc in *; lia.
Ltac wfin := simpl; repeat split; auto; try (unfold wfc in *; simpl in *; lia).

(* ---- combinators ------------------------------------------------------------------------------------- *)
Lemma wret {A} L n (Q : A -> ctx -> Prop) a c d :
  wfc L c -> (sz c <= n)%nat -> ds_ok L d -> Q a c -> rok L n Q (ret a c d).
Proof. simpl; auto. Qed.
Lemma wget L n c d : wfc L c -> (sz c <= n)%nat -> ds_ok L d -> rok L n (fun a c' => a = c /\ c' = c) (get c d).
Proof. simpl; auto. Qed.
Lemma wset L n c0 c d : wfc L c0 -> (sz c0 <= n)%nat -> ds_ok L d -> rok L n (fun _ c' => c' = c0) (set_ctx c0 c d).
Proof. simpl; auto. Qed.
Lemma wemit L n sv id spans c d :
  wfc L c -> (sz c <= n)%nat -> ds_ok L d -> Forall (span_in L) spans -> rok L n (fun _ c' => c' = c) (emit sv id spans c d).
Proof. simpl; intros; repeat split; auto. constructor; auto. Qed.
Lemma wcritical {A} L n (Q : A -> ctx -> Prop) id spans c d :
  ds_ok L d -> Forall (span_in L) spans -> rok L n Q (@critical A id spans c d).
Proof. simpl; intros. constructor; auto. Qed.
Lemma wwhen L n b p c d :
  wfc L c -> (sz c <= n)%nat -> ds_ok L d ->
  (b = true -> rok L n (fun _ c' => c' = c) (p c d)) -> rok L n (fun _ c' => c' = c) (when b p c d).
Proof. destruct b; simpl; auto. Qed.
Lemma wmaybe {A} L n (p : parser A) c d (Q : A -> ctx -> Prop) :
  wfc L c -> (sz c <= n)%nat -> rok L n Q (p c d) ->
  rok L n (fun o c' => match o with Some a => Q a c' | None => c' = c end) (maybe p c d).
Proof. unfold maybe; destruct (p c d); simpl; intuition. Qed.
Lemma wlook {A} L n (p : parser A) c d (Q : A -> ctx -> Prop) :
  wfc L c -> (sz c <= n)%nat -> rok L n Q (p c d) -> rok L n (fun _ c' => c' = c) (look p c d).
Proof. unfold look; destruct (p c d); simpl; intuition. Qed.
Lemma wnot {A} L n (p : parser A) c d (Q : A -> ctx -> Prop) :
  wfc L c -> (sz c <= n)%nat -> rok L n Q (p c d) -> rok L n (fun _ c' => c' = c) (not_p p c d).
Proof. unfold not_p, bind, maybe; destruct (p c d); simpl; intuition. Qed.
Lemma wpor {A} L n (p q : parser A) c d (Q : A -> ctx -> Prop) :
  wfc L c -> (sz c <= n)%nat -> rok L n Q (p c d) -> (forall d', ds_ok L d' -> rok L n Q (q c d')) -> rok L n Q (por p q c d).
Proof. unfold por, bind, maybe; intros Hw Hc Hp Hq; destruct (p c d); simpl in *; intuition. Qed.
(* report=(reports.critical, ...): the spans are read at the context of the failure, which lies within the bound m
   at which the failing parser was specified *)
Lemma wor_critical {A} L n m (p : parser A) id spans c d (Q : A -> ctx -> Prop) :
  rok L m Q (p c d) -> (m <= n)%nat ->
  (forall cl, wfc L cl -> (sz cl <= m)%nat -> Forall (span_in L) (spans cl)) ->
  rok L n (fun a c' => Q a c' /\ (sz c' <= m)%nat) (or_critical p id spans c d).
Proof.
  intros H Hm Hs. unfold or_critical; destruct (p c d); simpl in *.
  - destruct H as [H1 [H2 [H3 H4]]]. repeat split; auto; lia.
  - destruct H as [H1 [H2 H3]]. constructor; auto. simpl. apply Hs; auto.
  - auto.
  - auto.
  - auto.
Qed.
Lemma wor_error {A} L n m (p : parser A) id spans c d (Q : A -> ctx -> Prop) :
  rok L m Q (p c d) -> (m <= n)%nat ->
  (forall cl, wfc L cl -> (sz cl <= m)%nat -> Forall (span_in L) (spans cl)) ->
  rok L n (fun o c' => (sz c' <= m)%nat /\ match o with Some a => Q a c' | None => True end) (or_error p id spans c d).
Proof.
  intros H Hm Hs. unfold or_error; destruct (p c d); simpl in *.
  - destruct H as [H1 [H2 [H3 H4]]]. repeat split; auto; lia.
  - destruct H as [H1 [H2 H3]]. repeat split; auto; try lia. constructor; auto. simpl. apply Hs; auto.
  - auto.
  - auto.
  - auto.
Qed.
Lemma won_copy {A} L n (p : parser A) c0 c d (Q : A -> ctx -> Prop) :
  wfc L c -> (sz c <= n)%nat -> rok L n Q (p c0 d) ->
  rok L n (fun r c' => c' = c /\ wfc L (snd r) /\ (sz (snd r) <= n)%nat) (on_copy c0 p c d).
Proof. unfold on_copy; destruct (p c0 d); simpl; intuition. Qed.
Lemma wu {A} L n (p : parser A) c d (Q : A -> ctx -> Prop) :
  rok L n Q (p c d) -> rok L n (fun _ _ => True) (u p c d).
Proof. unfold u, bind, ret. destruct (p c d); simpl; intuition. Qed.

(* ---- primitives: well-formedness is preserved (the position counters are right) --------------------------- *)
Lemma wskip_ctx L c : wfc L c -> wfc L (skip_ctx c).
Proof. unfold wfc, sz. destruct (skip_ctx_is_skip c) as [_ H]. lia. Qed.
Lemma wskip L n c d :
  wfc L c -> (sz c <= n)%nat -> ds_ok L d -> rok L n (fun _ c' => c' = skip_ctx c) (skip_ws c d).
Proof. intros. simpl. pose proof (skip_ctx_sz c). repeat split; auto; [apply wskip_ctx; auto | lia]. Qed.
Lemma wafter_skip {A} L n (p : parser A) c d (Q : A -> ctx -> Prop) :
  rok L n Q (p (skip_ctx c) d) -> rok L n Q ((skip_ws ;;; p) c d).
Proof. intros H. unfold bind, skip_ws. exact H. Qed.

Lemma wliteral_ns L n lit c d :
  wfc L c -> (sz c <= n)%nat -> ds_ok L d -> rok L n (fun _ c' => (sz c' <= sz c)%nat) (literal_ns lit c d).
Proof.
  intros Hw Hc Hd. unfold literal_ns. destruct (lit_match lit (rest c)) eqn:E; [|wfin].
  apply lit_match_len in E. unfold rok, wfc, sz, len in *; simpl. repeat split; auto; lia.
Qed.
Lemma wliteral L n lit c d :
  wfc L c -> (sz c <= n)%nat -> ds_ok L d -> rok L n (fun _ c' => (sz c' <= sz c)%nat) (literal lit c d).
Proof.
  intros Hw Hc Hd. apply wafter_skip. pose proof (skip_ctx_sz c).
  eapply rok_conseq; [apply wliteral_ns; [apply wskip_ctx; auto | lia | auto]|]. cbv beta; intros; lia.
Qed.

Lemma span_n_count p l k :
  snd (span_n p l k) = k + N.of_nat (length (fst (fst (span_n p l k)))).
Proof.
  revert k; induction l as [|x l IH]; intros k; simpl; [lia|].
  destruct (p x); simpl; [|lia].
  specialize (IH (k + 1)). destruct (span_n p l (k + 1)) as [[m r] k']; simpl in *. lia.
Qed.
Lemma span_n_wf p l k m r k' : span_n p l k = (m, r, k') -> k' + N.of_nat (length r) = k + N.of_nat (length l) /\ (length r <= length l)%nat.
Proof.
  intros E. pose proof (span_n_count p l k) as H1. pose proof (span_n_split p l k) as H2. rewrite E in *; simpl in *. lia.
Qed.

Lemma wregex_id_ns L n f m c d :
  wfc L c -> (sz c <= n)%nat -> ds_ok L d -> rok L n (fun _ c' => (sz c' <= sz c)%nat) (regex_id_ns f m c d).
Proof.
  intros Hw Hc Hd. unfold regex_id_ns. destruct (rest c) as [|x r] eqn:E; [wfin|].
  destruct (f x); [|wfin].
  destruct (span_n m r 0) as [[a b] k] eqn:Es. apply span_n_wf in Es.
  unfold rok, wfc, sz in *; simpl. rewrite E in *; simpl in *. repeat split; auto; lia.
Qed.
Lemma wregex_id L n f m c d :
  wfc L c -> (sz c <= n)%nat -> ds_ok L d -> rok L n (fun _ c' => (sz c' <= sz c)%nat) ((skip_ws ;;; regex_id_ns f m) c d).
Proof.
  intros Hw Hc Hd. apply wafter_skip. pose proof (skip_ctx_sz c).
  eapply rok_conseq; [apply wregex_id_ns; [apply wskip_ctx; auto | lia | auto]|]. cbv beta; intros; lia.
Qed.
Lemma wone_of_ns L n p c d :
  wfc L c -> (sz c <= n)%nat -> ds_ok L d -> rok L n (fun _ c' => (sz c' <= sz c)%nat) (one_of_ns p c d).
Proof.
  intros Hw Hc Hd. unfold one_of_ns. destruct (rest c) as [|x r] eqn:E; [wfin|].
  destruct (p x); [|wfin]. unfold rok, wfc, sz in *; simpl. rewrite E in *; simpl in *. repeat split; auto; lia.
Qed.
Lemma wstring_quote L n c d :
  wfc L c -> (sz c <= n)%nat -> ds_ok L d -> rok L n (fun a c' => (sz c' <= sz c)%nat) (string_quote c d).
Proof.
  intros Hw Hc Hd. apply wafter_skip. pose proof (skip_ctx_sz c).
  eapply rok_conseq; [apply wone_of_ns; [apply wskip_ctx; auto | lia | auto]|]. cbv beta; intros; lia.
Qed.
Lemma wcaret_parenthesis L n c d :
  wfc L c -> (sz c <= n)%nat -> ds_ok L d -> rok L n (fun _ c' => (sz c' <= sz c)%nat) (caret_parenthesis c d).
Proof.
  intros Hw Hc Hd. apply wafter_skip. pose proof (skip_ctx_sz c) as Hs. pose proof (wskip_ctx L c Hw) as Hw2.
  destruct (rest (skip_ctx c)) as [|a [|x r]] eqn:E; [wfin | wfin |].
  destruct ((a =? 94) && caret_paren_char x); [|wfin].
  unfold rok, wfc, sz in *; simpl. rewrite E in *; simpl in *. repeat split; auto; lia.
Qed.
Lemma wcaret_nonspace L n c d :
  wfc L c -> (sz c <= n)%nat -> ds_ok L d -> rok L n (fun _ c' => (sz c' <= sz c)%nat) (caret_nonspace c d).
Proof.
  intros Hw Hc Hd. apply wafter_skip. pose proof (skip_ctx_sz c) as Hs. pose proof (wskip_ctx L c Hw) as Hw2.
  destruct (rest (skip_ctx c)) as [|a [|x r]] eqn:E; [wfin | wfin |].
  destruct ((a =? 94) && negb (is_ascii_space x)); [|wfin].
  unfold rok, wfc, sz in *; simpl. rewrite E in *; simpl in *. repeat split; auto; lia.
Qed.
Lemma whex2 L n c d :
  wfc L c -> (sz c <= n)%nat -> ds_ok L d -> rok L n (fun _ c' => (sz c' <= sz c)%nat) (hex2 c d).
Proof.
  intros Hw Hc Hd. apply wafter_skip. pose proof (skip_ctx_sz c) as Hs. pose proof (wskip_ctx L c Hw) as Hw2.
  destruct (rest (skip_ctx c)) as [|a [|x r]] eqn:E; [wfin | wfin |].
  destruct (is_hex a && is_hex x); [|wfin].
  unfold rok, wfc, sz in *; simpl. rewrite E in *; simpl in *. repeat split; auto; lia.
Qed.
Lemma winstruction_name L n c d :
  wfc L c -> (sz c <= n)%nat -> ds_ok L d -> rok L n (fun _ c' => (sz c' <= sz c)%nat) (instruction_name c d).
Proof.
  intros Hw Hc Hd. apply wafter_skip. pose proof (skip_ctx_sz c) as Hs. pose proof (wskip_ctx L c Hw) as Hw2.
  destruct (rest (skip_ctx c)) as [|x r] eqn:E; [wfin|].
  destruct (is_insn_start x).
  - destruct (span_n is_word r 0) as [[a b] k] eqn:Es. apply span_n_wf in Es.
    unfold rok, wfc, sz in *; simpl. rewrite E in *; simpl in *. repeat split; auto; lia.
  - destruct (x =? 46); [|wfin]. destruct r as [|y r2]; [wfin|].
    destruct (is_insn_start y); [|wfin].
    destruct (span_n is_word r2 0) as [[a b] k] eqn:Es. apply span_n_wf in Es.
    unfold rok, wfc, sz in *; simpl. rewrite E in *; simpl in *. repeat split; auto; lia.
Qed.
Lemma weof L n c d :
  wfc L c -> (sz c <= n)%nat -> ds_ok L d -> rok L n (fun _ c' => (sz c' <= sz c)%nat) (eof c d).
Proof.
  intros Hw Hc Hd. apply wafter_skip. pose proof (skip_ctx_sz c) as Hs. pose proof (wskip_ctx L c Hw) as Hw2.
  destruct (rest (skip_ctx c)); wfin.
Qed.

Lemma ws_run_count l k last :
  let '((r, k'), last') := ws_run l k last in
  k' + N.of_nat (length r) = k + N.of_nat (length l) /\ (length r <= length l)%nat /\
  (forall r2 k2, last' = Some (r2, k2) -> last = Some (r2, k2) \/ (k2 + N.of_nat (length r2) = k + N.of_nat (length l) /\ (length r2 <= length l)%nat)).
Proof.
  revert k last; induction l as [|x l IH]; intros k last; simpl.
  - repeat split; auto.
  - destruct (is_space x); simpl.
    + specialize (IH (k + 1) (if x =? 10 then Some (l, k + 1) else last)).
      destruct (ws_run l (k + 1) (if x =? 10 then Some (l, k + 1) else last)) as [[r k'] last'].
      destruct IH as [H1 [H2 H3]]. repeat split; try lia.
      intros r2 k2 E. destruct (H3 r2 k2 E) as [H|H]; [|right; lia].
      destruct (x =? 10); auto. inversion H; subst. right; lia.
    + repeat split; auto.
Qed.
Lemma until_nl_count l k : let '(r, k') := until_nl l k in k' + N.of_nat (length r) = k + N.of_nat (length l) /\ (length r <= length l)%nat.
Proof.
  revert k; induction l as [|x l IH]; intros k; simpl; [split; auto|].
  destruct (x =? 10); [simpl; split; auto|]. specialize (IH (k + 1)). destruct (until_nl l (k + 1)). lia.
Qed.
Lemma wnewline L n c d :
  wfc L c -> (sz c <= n)%nat -> ds_ok L d -> rok L n (fun _ c' => (sz c' <= sz c)%nat) (newline c d).
Proof.
  intros Hw Hc Hd. unfold newline.
  pose proof (ws_run_count (rest c) 0 None) as H.
  destruct (ws_run (rest c) 0 None) as [[r k] last]. destruct H as [H1 [H2 H3]].
  destruct last as [[r2 k2]|].
  - destruct (H3 r2 k2 eq_refl) as [H|H]; [discriminate|]. destruct r; unfold rok, wfc, sz in *; simpl; repeat split; auto; lia.
  - destruct r as [|a r']; [wfin|].
    destruct (a =? 59); [|wfin].
    pose proof (until_nl_count r' (k + 1)) as H4. destruct (until_nl r' (k + 1)) as [r'' k''].
    unfold rok, wfc, sz in *; simpl in *. repeat split; auto; lia.
Qed.

Lemma weither_lit L n t c d :
  wfc L c -> (sz c <= n)%nat -> ds_ok L d -> rok L n (fun _ c' => (sz c' <= sz c)%nat) (either_lit t c d).
Proof.
  intros Hw Hc. revert d. induction t as [|o t IH]; intros d Hd; simpl; [wfin|].
  wstep (apply wmaybe; [auto | auto | apply wliteral; auto]) as m c1 d1 W1 S1 D1 Q1.
  destruct m; [wfin | subst; apply IH; auto].
Qed.
Lemma wterm_p L n t c d :
  wfc L c -> (sz c <= n)%nat -> ds_ok L d -> rok L n (fun _ c' => (sz c' <= sz c)%nat) (term_p t c d).
Proof.
  intros Hw Hc. revert d; induction t as [|x t IH]; intros d Hd; simpl; [unfold never, fail; wfin|].
  apply wpor; auto. intros; apply wliteral; auto.
Qed.
Lemma wnot_term L n t c d :
  wfc L c -> (sz c <= n)%nat -> ds_ok L d -> rok L n (fun _ c' => c' = c) (not_p (term_p t) c d).
Proof. intros. eapply wnot; auto. apply wterm_p; auto. Qed.
Lemma wnot_term_colon L n t c d :
  wfc L c -> (sz c <= n)%nat -> ds_ok L d -> rok L n (fun _ c' => (sz c' <= sz c)%nat) (not_term_colon t c d).
Proof.
  intros Hw Hc Hd. unfold not_term_colon.
  wstep (apply wnot_term; auto) as u1 c1 d1 W1 S1 D1 ->.
  wstep (unfold colon; apply wliteral; auto) as l c2 d2 W2 S2 D2 Q2. wfin.
Qed.

(* ---- leaves ------------------------------------------------------------------------------------------- *)
Ltac wg := eapply wbind; [apply wget; auto | cbv beta; intros ? ? ? ? ? ? [-> ->]].
Ltac nleaf := unfold nok, noks; simpl; repeat (apply Forall_cons || apply Forall_nil || apply Forall_app || split);
              unfold span_in; simpl; auto; try (unfold wfc in *; simpl in *; lia).
Ltac wl := simpl; repeat split; auto; try (unfold wfc in *; simpl in *; lia); try nleaf.
Ltac dm := match goal with |- rok _ _ _ ?t => match t with context [match ?x with _ => _ end] => destruct x eqn:? end end.
Definition NQ (a : node) (c' : ctx) : Prop := nok (pos c') a.

Lemma wcaret_digits L n base c d :
  wfc L c -> (sz c <= n)%nat -> ds_ok L d -> rok L n (fun _ c' => (sz c' <= sz c)%nat) (caret_digits base c d).
Proof.
  intros Hw Hc Hd. unfold caret_digits.
  destruct (span_n (valid_digit base) (rest c) 0) as [[m r] k] eqn:Es. apply span_n_wf in Es.
  destruct m; [wfin|]. destruct r as [|x r]; [unfold rok, wfc, sz in *; simpl in *; repeat split; auto; lia|].
  destruct ((x =? 36) || (x =? 46) || is_word x); [wfin|]. unfold rok, wfc, sz in *; simpl in *; repeat split; auto; lia.
Qed.

Lemma wnumber_caret L n neg cs forms k c d :
  wfc L c -> (sz c <= n)%nat -> ds_ok L d -> wfc L cs -> (sz c <= sz cs)%nat ->
  (forall d', ds_ok L d' -> rok L n NQ (k c d')) ->
  rok L n NQ (number_caret neg cs forms k c d).
Proof.
  intros Hw Hc Hd Hcs Hle Hk. revert d Hd. induction forms as [|[[pl pr] base] fr IH]; intros d Hd; simpl; auto.
  wstep (apply wmaybe; [auto | auto | apply wliteral; auto]) as m c1 d1 W1 S1 D1 Q1.
  destruct m as [a|]; [|subst; apply IH; auto].
  wstep (eapply wor_critical with (m := sz c1); [apply wcaret_digits; auto | lia | intros; spans]) as num c2 d2 W2 S2 D2 [Q2 Q2'].
  wg. destruct (int_digits base num 0); [|exact I]. unfold NQ. wl.
Qed.

Lemma wnumber_plain L n t neg cs c d :
  wfc L c -> (sz c <= n)%nat -> ds_ok L d -> wfc L cs -> (sz c <= sz cs)%nat ->
  rok L n NQ (number_plain t neg cs c d).
Proof.
  intros Hw Hc Hd Hcs Hle. unfold number_plain.
  wstep (unfold local_symbol_literal; apply wregex_id; auto) as num c1 d1 W1 S1 D1 Q1.
  wstep (apply wmaybe; [auto | auto | apply wnot_term_colon; auto]) as mc c2 d2 W2 S2 D2 Q2.
  destruct mc as [u0|]; [wfin|]. subst c2.
  destruct (rev num) as [|lastc rnum]; [exact I|]. cbv zeta.
  set (num' := if lastc =? 46 then rev rnum else num).
  destruct (existsb (fun c0 : N => (c0 =? 36) || (c0 =? 95) || (c0 =? 46)) num'); [wfin|].
  destruct (all_digits num').
  - destruct (int_digits 10 num' 0); [|exact I].
    destruct (lastc =? 46). { wg. unfold NQ. wl. }
    destruct (existsb (fun c0 : N => (c0 =? 56) || (c0 =? 57)) num').
    { destruct neg.
      - wg. wstep (apply wemit; auto; spans) as u1 c3 d3 W3 S3 D3 ->. unfold NQ. wl.
      - wg. unfold NQ. wl. }
    destruct (int_digits 8 num' 0); [|exact I]. wg. unfold NQ. wl.
  - destruct num' as [|z [|l digits]]; [wfin | wfin |].
    destruct ((z =? 48) && is_alpha l); [|wfin].
    destruct (if lower l =? 120 then Some 16 else if lower l =? 111 then Some 8 else if lower l =? 98 then Some 2 else None) as [b|]; [|wfin].
    destruct (py_int b digits); [|wfin]. wg. unfold NQ. wl.
Qed.

Lemma wnumber L n t c d :
  wfc L c -> (sz c <= n)%nat -> ds_ok L d -> rok L n NQ (number t c d).
Proof.
  intros Hw Hc Hd. unfold number.
  wstep (apply wmaybe; [auto | auto | unfold minus; apply wliteral; auto]) as neg c1 d1 W1 S1 D1 Q1.
  wstep (apply wskip; auto) as u1 c2 d2 W2 S2 D2 ->. pose proof (skip_ctx_sz c1).
  wg. apply wnumber_caret; auto. intros; apply wnumber_plain; auto.
Qed.

Lemma wradix50_literal L n c d :
  wfc L c -> (sz c <= n)%nat -> ds_ok L d -> rok L n NQ (radix50_literal c d).
Proof.
  intros Hw Hc Hd. unfold radix50_literal.
  wstep (apply wskip; auto) as u1 c1 d1 W1 S1 D1 ->. pose proof (skip_ctx_sz c).
  wg.
  wstep (apply wliteral; auto) as l c3 d3 W3 S3 D3 Q3.
  wstep (eapply wor_error with (m := sz c3); [unfold radix50_chars; apply wregex_id_ns; auto | lia | intros; spans]) as str c4 d4 W4 S4 D4 [Q4 _].
  wg.
  wstep (apply wwhen; auto; intros; apply wemit; auto; spans) as u2 c6 d6 W6 S6 D6 ->.
  dm; [|exact I]. unfold NQ. wl.
Qed.

Lemma wlabel L n c d :
  wfc L c -> (sz c <= n)%nat -> ds_ok L d -> rok L n NQ (label c d).
Proof.
  intros Hw Hc Hd. unfold label.
  wstep (apply wskip; auto) as u1 c1 d1 W1 S1 D1 ->. pose proof (skip_ctx_sz c).
  wg.
  wstep (unfold label_name; apply wregex_id; auto) as name c3 d3 W3 S3 D3 Q3.
  wstep (unfold colon; apply wliteral; auto) as l c4 d4 W4 S4 D4 Q4.
  wstep (apply wmaybe; [auto | auto | apply wliteral_ns; auto]) as ext c5 d5 W5 S5 D5 Q5.
  assert (S5' : (sz c5 <= sz c4)%nat) by (destruct ext; [auto | subst; auto]).
  wg.
  wstep (destruct (in_builtin name); [apply wemit; auto; spans | destruct (is_register_name name); [apply wemit; auto; spans | apply wret; auto]]) as u3 c7 d7 W7 S7 D7 ->.
  destruct name as [|c0 nm]; [exact I|].
  destruct (is_digit c0 && is_some ext).
  - wstep (apply wemit; auto; spans) as u4 c8 d8 W8 S8 D8 ->. unfold NQ. wl.
  - unfold NQ. wl.
Qed.

Lemma winstruction_pointer L n c d :
  wfc L c -> (sz c <= n)%nat -> ds_ok L d -> rok L n NQ (instruction_pointer c d).
Proof.
  intros Hw Hc Hd. unfold instruction_pointer.
  wstep (apply wskip; auto) as u1 c1 d1 W1 S1 D1 ->. pose proof (skip_ctx_sz c).
  wg.
  eapply wbind with (Q1 := fun _ c' => (sz c' <= sz (skip_ctx c))%nat).
  - apply wafter_skip. pose proof (skip_ctx_sz (skip_ctx c)). pose proof (wskip_ctx L (skip_ctx c) W1) as W2.
    destruct (rest (skip_ctx (skip_ctx c))) as [|a r] eqn:E; [wfin|].
    destruct (a =? 46); [|wfin].
    destruct r as [|x r']; [unfold rok, wfc, sz in *; simpl; rewrite E in *; simpl in *; repeat split; auto; lia|].
    destruct (is_word x); [wfin|]. unfold rok, wfc, sz in *; simpl; rewrite E in *; simpl in *; repeat split; auto; lia.
  - cbv beta; intros u2 c3 d3 W3 S3 D3 Q3. wg. unfold NQ. wl.
Qed.

Lemma wsymbol_expression L n t c d :
  wfc L c -> (sz c <= n)%nat -> ds_ok L d -> rok L n NQ (symbol_expression t c d).
Proof.
  intros Hw Hc Hd. unfold symbol_expression.
  wstep (apply wskip; auto) as u1 c1 d1 W1 S1 D1 ->. pose proof (skip_ctx_sz c).
  wg.
  wstep (unfold symbol_literal; apply wregex_id; auto) as name c3 d3 W3 S3 D3 Q3.
  wstep (apply wmaybe; [auto | auto | apply wnot_term_colon; auto]) as hc c4 d4 W4 S4 D4 Q4.
  assert (S4' : (sz c4 <= sz c3)%nat) by (destruct hc; [auto | subst; auto]).
  wg.
  wstep (apply wwhen; auto; intros; apply wemit; auto; spans) as u2 c6 d6 W6 S6 D6 ->. unfold NQ. wl.
Qed.

Lemma wlocal_symbol_expression L n t c d :
  wfc L c -> (sz c <= n)%nat -> ds_ok L d -> rok L n NQ (local_symbol_expression t c d).
Proof.
  intros Hw Hc Hd. unfold local_symbol_expression.
  wstep (apply wskip; auto) as u1 c1 d1 W1 S1 D1 ->. pose proof (skip_ctx_sz c).
  wg.
  wstep (unfold local_symbol_literal; apply wregex_id; auto) as name c3 d3 W3 S3 D3 Q3.
  eapply wbind with (Q1 := fun _ c' => (sz c' <= sz c3)%nat).
  - destruct (all_digits name).
    + wstep (apply wnot_term_colon; auto) as u2 c4 d4 W4 S4 D4 Q4. wfin.
    + wstep (apply wmaybe; [auto | auto | apply wnot_term_colon; auto]) as m c4 d4 W4 S4 D4 Q4.
      destruct m; [wfin | subst; wfin].
  - cbv beta; intros hc c5 d5 W5 S5 D5 Q5. wg. unfold NQ. wl.
Qed.

(* ---- strings ------------------------------------------------------------------------------------------- *)
Lemma wcharacter L n c d :
  wfc L c -> (sz c <= n)%nat -> ds_ok L d -> rok L n (fun _ c' => (sz c' <= sz c)%nat) (character c d).
Proof. apply wone_of_ns. Qed.

Lemma wstring_escape L n c d :
  wfc L c -> (sz c <= n)%nat -> ds_ok L d -> rok L n (fun _ c' => (sz c' <= sz c)%nat) (string_escape c d).
Proof.
  intros Hw Hc Hd. unfold string_escape.
  wg.
  wstep (unfold string_backslash; apply wliteral_ns; auto) as l c2 d2 W2 S2 D2 Q2.
  wstep (eapply wor_error with (m := sz c2); [apply wcharacter; auto | lia | intros; spans]) as ch c3 d3 W3 S3 D3 [Q3 _].
  destruct ch as [[|ch0 chr]|]; [exact I | | wfin]. cbv zeta.
  set (ch := if ch0 <? 128 then lower ch0 else ch0).
  destruct (ch =? 110); [wfin|]. destruct (ch =? 114); [wfin|]. destruct (ch =? 116); [wfin|].
  destruct ((ch =? 92) || (ch =? 34) || (ch =? 39) || (ch =? 47)); [wfin|].
  destruct (ch =? 10); [wfin|].
  destruct (ch =? 120).
  - wstep (eapply wor_error with (m := sz c3); [apply whex2; auto | lia | intros; spans]) as num c4 d4 W4 S4 D4 [Q4 _].
    destruct num as [num|]; [|wfin]. destruct (int_digits 16 num 0); [wfin | exact I].
  - wg. wstep (apply wemit; auto; spans) as u1 c5 d5 W5 S5 D5 ->. wfin.
Qed.
Lemma wstring_char L n c d :
  wfc L c -> (sz c <= n)%nat -> ds_ok L d -> rok L n (fun _ c' => (sz c' <= sz c)%nat) (string_char c d).
Proof.
  intros. unfold string_char. apply wpor; auto; [apply wstring_escape; auto | intros; apply wcharacter; auto].
Qed.

Lemma wsingle_quoted_literal L n c d :
  wfc L c -> (sz c <= n)%nat -> ds_ok L d -> rok L n NQ (single_quoted_literal c d).
Proof.
  intros Hw Hc Hd. unfold single_quoted_literal.
  wstep (apply wskip; auto) as u1 c1 d1 W1 S1 D1 ->. pose proof (skip_ctx_sz c).
  wg.
  wstep (unfold single_quote; apply wliteral; auto) as l c3 d3 W3 S3 D3 Q3.
  wg.
  eapply wbind with (Q1 := fun _ c' => c' = c3).
  { destruct (at_line_end c3); [apply wcritical; auto; spans | apply wret; auto]. }
  cbv beta; intros u2 c5 d5 W5 S5 D5 ->.
  eapply wbind with (Q1 := fun _ c' => (sz c' <= sz c3)%nat).
  { destruct (rest c3) as [|x r]; [exact I|]. destruct (x =? 39); [wfin | apply wstring_char; auto]. }
  cbv beta; intros value c6 d6 W6 S6 D6 Q6.
  wg.
  destruct (match rest c6 with x0 :: _ => x0 =? 39 | [] => false end).
  - wstep (unfold single_quote; apply wliteral; auto) as l2 c8 d8 W8 S8 D8 Q8.
    wg.
    eapply wbind with (Q1 := fun _ c' => c' = c8).
    { destruct (length value <=? 1)%nat; [apply wemit; auto; spans | exact I]. }
    cbv beta; intros u3 c10 d10 W10 S10 D10 ->. unfold NQ. wl.
  - unfold NQ. wl.
Qed.

Lemma wdq_step L n cs value c d :
  wfc L c -> (sz c <= n)%nat -> ds_ok L d -> wfc L cs -> (sz c <= sz cs)%nat ->
  rok L n (fun _ c' => (sz c' <= sz c)%nat) (dq_step cs value c d).
Proof.
  intros Hw Hc Hd Hcs Hle. unfold dq_step.
  wg.
  eapply wbind with (Q1 := fun _ c' => c' = c).
  { destruct (at_line_end c); [apply wcritical; auto; spans | apply wret; auto]. }
  cbv beta; intros u2 c5 d5 W5 S5 D5 ->.
  destruct (rest c) as [|x r]; [exact I|]. destruct (x =? 34); [wfin|].
  wstep (apply wstring_char; auto) as v c6 d6 W6 S6 D6 Q6. wfin.
Qed.

Lemma wdouble_quoted_literal L n c d :
  wfc L c -> (sz c <= n)%nat -> ds_ok L d -> rok L n NQ (double_quoted_literal c d).
Proof.
  intros Hw Hc Hd. unfold double_quoted_literal.
  wstep (apply wskip; auto) as u1 c1 d1 W1 S1 D1 ->. pose proof (skip_ctx_sz c).
  wg.
  wstep (unfold double_quote; apply wliteral; auto) as l c3 d3 W3 S3 D3 Q3.
  wstep (apply wdq_step; auto; lia) as v1 c4 d4 W4 S4 D4 Q4.
  wstep (apply wdq_step; auto; lia) as value c5 d5 W5 S5 D5 Q5.
  wg.
  destruct (match rest c5 with x0 :: _ => x0 =? 34 | [] => false end).
  - wstep (unfold double_quote; apply wliteral; auto) as l2 c8 d8 W8 S8 D8 Q8.
    wg.
    eapply wbind with (Q1 := fun _ c' => c' = c8).
    { destruct (length value <=? 2)%nat; [apply wemit; auto; spans | exact I]. }
    cbv beta; intros u3 c10 d10 W10 S10 D10 ->. unfold NQ. wl.
  - unfold NQ. wl.
Qed.

Lemma wquoted_loop L n fuel quote value c d :
  wfc L c -> (sz c <= n)%nat -> ds_ok L d ->
  rok L n (fun _ c' => (sz c' <= sz c)%nat) (quoted_loop fuel quote value c d).
Proof.
  revert value c d. induction fuel as [|f IH]; intros value c d Hw Hc Hd; [exact I|]. simpl.
  wg.
  destruct (rest c) as [|x r]; [wfin|]. destruct (x =? quote); [wfin|].
  wstep (apply wstring_char; auto) as v c2 d2 W2 S2 D2 Q2.
  eapply rok_conseq; [apply IH; auto|]. cbv beta; intros; lia.
Qed.

Lemma wquoted_string L n fuel c d :
  wfc L c -> (sz c <= n)%nat -> ds_ok L d -> rok L n NQ (quoted_string fuel c d).
Proof.
  intros Hw Hc Hd. unfold quoted_string.
  wstep (apply wskip; auto) as u1 c1 d1 W1 S1 D1 ->. pose proof (skip_ctx_sz c).
  wg.
  wstep (apply wstring_quote; auto) as quote c3 d3 W3 S3 D3 Q3.
  destruct quote as [|q qs]; [exact I|].
  wstep (apply wquoted_loop; auto) as value c4 d4 W4 S4 D4 Q4.
  wg.
  destruct (rest c4) as [|y r] eqn:Er; [apply wcritical; auto; spans|].
  assert (W5 : wfc L {| pos := pos c4 + 1; rest := r |}) by (unfold wfc, sz in *; simpl; rewrite Er in *; simpl in *; lia).
  assert (S5 : (sz {| pos := pos c4 + 1; rest := r |} <= sz c4)%nat) by (unfold sz; simpl; rewrite Er; simpl; lia).
  wstep (apply wset; auto; lia) as u2 c6 d6 W6 S6 D6 ->.
  unfold NQ. simpl. repeat split; auto; try lia. nleaf.
Qed.

Lemma wexpression_literal L n t c d :
  wfc L c -> (sz c <= n)%nat -> ds_ok L d -> rok L n NQ (expression_literal t c d).
Proof.
  intros Hw Hc Hd. unfold expression_literal.
  wstep (apply wmaybe; [auto | auto | apply wsymbol_expression; auto]) as m1 c1 d1 W1 S1 D1 Q1.
  destruct m1 as [e|]; [wfin|]. subst c1.
  wstep (apply wmaybe; [auto | auto | apply wradix50_literal; auto]) as m2 c2 d2 W2 S2 D2 Q2.
  destruct m2 as [e|]; [wfin|]. subst c2.
  wstep (apply wmaybe; [auto | auto | apply wpor; [auto | auto | apply wnumber; auto | intros; apply wlocal_symbol_expression; auto]]) as m3 c3 d3 W3 S3 D3 Q3.
  destruct m3 as [e|]; [wfin|]. subst c3.
  apply wpor; auto.
  - apply wpor; auto; [apply wsingle_quoted_literal; auto | intros; apply wdouble_quoted_literal; auto].
  - intros; apply winstruction_pointer; auto.
Qed.

(* ---- operator stacks ----------------------------------------------------------------------------------- *)
Definition ops_ok (hi : N) (ops : list opent) : Prop :=
  Forall (fun x => match x with OPre s _ => s <= hi | OIn _ => True end) ops.
Lemma ops_ok_mono hi hi' ops : hi <= hi' -> ops_ok hi ops -> ops_ok hi' ops.
Proof. intros H. unfold ops_ok. apply Forall_impl. intros [s o|o]; auto. lia. Qed.
Lemma offsets_head n : exists e r, offsets n = (node_start n, e) :: r.
Proof. destruct n; simpl; eauto. Qed.
Lemma nok_start hi n : nok hi n -> node_start n <= hi.
Proof.
  unfold nok. destruct (offsets_head n) as [e [r ->]]. intros H. inversion H; subst. unfold span_in in *; simpl in *. lia.
Qed.
Lemma pop_op_w hi e ops stack ops' st' :
  pop_op e ops stack = Some (ops', st') -> ops_ok hi ops -> noks hi stack -> hi <= e -> ops_ok hi ops' /\ noks e st'.
Proof.
  unfold pop_op. intros E Ho Hs He. destruct ops as [|[s o|o] ops0]; [discriminate| |].
  - destruct stack as [|x st]; [discriminate|]. inversion E; subst. inversion Ho; subst. inversion Hs; subst.
    split; auto. constructor; [|eapply noks_mono; eauto].
    unfold nok; simpl. constructor; [unfold span_in; simpl; lia|]. eapply (nok_mono hi e); eauto.
  - destruct stack as [|rhs [|lhs st]]; try discriminate. inversion E; subst. inversion Ho; subst.
    inversion Hs as [|? ? Hr Hs2]; subst. inversion Hs2 as [|? ? Hl Hs3]; subst.
    split; auto. constructor; [|eapply noks_mono; eauto].
    unfold nok; simpl. constructor; [pose proof (nok_start _ _ Hl); unfold span_in; simpl; lia|].
    apply Forall_app; split; eapply (nok_mono hi e); eauto.
Qed.
Arguments pop_op : simpl never.
Lemma pop_while_w p l hi e ops stack ops' st' :
  pop_while p l e ops stack = Some (ops', st') -> ops_ok hi ops -> noks hi stack -> hi <= e -> ops_ok e ops' /\ noks e st'.
Proof.
  revert stack hi; induction ops as [|top ops0 IH]; intros stack hi E Ho Hs He; simpl in E.
  - inversion E; subst. split; [constructor | eapply noks_mono; eauto].
  - destruct ((opent_prec top <? p) || (opent_prec top =? p) && l).
    + destruct (pop_op e (top :: ops0) stack) as [[o2 st2]|] eqn:Ep; [|discriminate].
      pose proof Ep as Ep'. apply (pop_op_w hi) in Ep; auto. destruct Ep as [Ho2 Hs2].
      assert (o2 = ops0). { unfold pop_op in Ep'. destruct top; destruct stack as [|? [|? ?]]; try discriminate; inversion Ep'; auto. }
      subst o2. apply (IH st2 e); auto; [eapply ops_ok_mono; eauto | lia].
    + inversion E; subst. split; [eapply ops_ok_mono; eauto | eapply noks_mono; eauto].
Qed.
Lemma pop_all_w hi e ops stack st' :
  pop_all e ops stack = Some st' -> ops_ok hi ops -> noks hi stack -> hi <= e -> noks e st'.
Proof.
  revert stack hi; induction ops as [|top ops0 IH]; intros stack hi E Ho Hs He; simpl in E.
  - inversion E; subst. eapply noks_mono; eauto.
  - destruct (pop_op e (top :: ops0) stack) as [[o2 st2]|] eqn:Ep; [|discriminate].
    pose proof Ep as Ep'. apply (pop_op_w hi) in Ep; auto. destruct Ep as [Ho2 Hs2].
    assert (o2 = ops0). { unfold pop_op in Ep'. destruct top; destruct stack as [|? [|? ?]]; try discriminate; inversion Ep'; auto. }
    subst o2. eapply (IH st2 e); eauto; [eapply ops_ok_mono; eauto | lia].
Qed.

Lemma wfinish_expression L n ops stack c d :
  wfc L c -> (sz c <= n)%nat -> ds_ok L d -> ops_ok (pos c) ops -> noks (pos c) stack ->
  rok L n NQ (finish_expression ops stack c d).
Proof.
  intros Hw Hc Hd Ho Hs. unfold finish_expression. wg.
  destruct (pop_all (pos c) ops stack) as [[|x st]|] eqn:E; try exact I.
  eapply pop_all_w in E; eauto; [|lia]. inversion E; subst. unfold NQ. wfin.
Qed.

(* ---- the recursive layer -------------------------------------------------------------------------------- *)
Record funs_w (L : N) (R : funs) : Prop := mkW {
  w_expression : forall t c d n, wfc L c -> (sz c <= n)%nat -> ds_ok L d -> rok L n NQ (r_expression R t c d);
  w_prefix_loop : forall t cs cop ops c d n, wfc L c -> (sz c <= n)%nat -> ds_ok L d ->
      wfc L cs -> (sz c <= sz cs)%nat -> wfc L cop -> (sz c <= sz cop)%nat -> ops_ok (pos c) ops ->
      rok L n (fun r c' => nok (pos c') (fst r) /\ ops_ok (pos c') (snd r)) (r_prefix_loop R t cs cop ops c d);
  w_infix_loop : forall t ops st c d n, wfc L c -> (sz c <= n)%nat -> ds_ok L d -> ops_ok (pos c) ops -> noks (pos c) st ->
      rok L n NQ (r_infix_loop R t ops st c d);
  w_elr_loop : forall t cs v c d n, wfc L c -> (sz c <= n)%nat -> ds_ok L d -> wfc L cs -> (sz c <= sz cs)%nat ->
      (forall x, v = Some x -> nok (pos c) x) -> rok L n NQ (r_elr_loop R t cs v c d);
  w_long_loop : forall cs ch c d n, wfc L c -> (sz c <= n)%nat -> ds_ok L d -> wfc L cs -> (sz c <= sz cs)%nat ->
      noks (pos c) ch -> rok L n NQ (r_long_loop R cs ch c d);
  w_operand_loop : forall nm cs can ns ops cbc c d n, wfc L c -> (sz c <= n)%nat -> ds_ok L d ->
      wfc L cs -> wfc L can -> wfc L cbc -> (sz can <= sz cs)%nat -> (sz c <= sz can)%nat -> (sz c <= sz cbc)%nat ->
      nok (pos c) ns -> noks (pos c) ops -> rok L n NQ (r_operand_loop R nm cs can ns ops cbc c d);
  w_words_loop : forall cs cafo ws c d n, wfc L c -> (sz c <= n)%nat -> ds_ok L d ->
      wfc L cs -> wfc L cafo -> (sz cafo <= sz cs)%nat -> (sz c <= sz cafo)%nat -> noks (pos c) ws ->
      rok L n NQ (r_words_loop R cs cafo ws c d);
  w_code_loop : forall brk cs insns c d n, wfc L c -> (sz c <= n)%nat -> ds_ok L d -> wfc L cs -> (sz c <= sz cs)%nat ->
      noks (pos c) insns -> rok L n NQ (r_code_loop R brk cs insns c d);
  w_quoted : forall c d n, wfc L c -> (sz c <= n)%nat -> ds_ok L d -> rok L n NQ (r_quoted R c d)
}.

Lemma nok_at L hi c c' x : wfc L c -> wfc L c' -> (sz c' <= sz c)%nat -> nok (pos c) x -> hi = pos c' -> nok hi x.
Proof. intros. subst. eapply nok_mono; eauto. eapply pos_le; eauto. Qed.

Section BodiesW.
Variable L : N.
Variable R : funs.
Hypothesis HR : funs_w L R.

Lemma wopening3 n c d :
  wfc L c -> (sz c <= n)%nat -> ds_ok L d -> rok L n (fun _ c' => (sz c' <= sz c)%nat) (opening3 c d).
Proof.
  intros. unfold opening3. apply wpor; auto; [apply wpor; auto|].
  - unfold opening_parenthesis; apply wliteral; auto.
  - intros; unfold opening_angle_bracket; apply wliteral; auto.
  - intros; apply wcaret_parenthesis; auto.
Qed.

Lemma welr_loop_body t cs v c d n :
  wfc L c -> (sz c <= n)%nat -> ds_ok L d -> wfc L cs -> (sz c <= sz cs)%nat ->
  (forall x, v = Some x -> nok (pos c) x) -> rok L n NQ (elr_loop_body R t cs v c d).
Proof.
  intros Hw Hc Hd Hcs Hle Hv. unfold elr_loop_body.
  eapply wbind with (Q1 := fun o c' => match o with Some _ => (sz c' <= sz c)%nat | None => c' = c end).
  { destruct v; [apply wmaybe; auto; unfold opening_parenthesis; apply wliteral; auto | apply wmaybe; auto; apply wopening3; auto]. }
  cbv beta; intros opening c1 d1 W1 S1 D1 Q1.
  destruct opening as [op|].
  2:{ subst c1. destruct v; [|exact I]. unfold NQ. simpl. repeat split; auto. }
  destruct (if list_eqb op [40] then Some ([41], t) else if list_eqb op [60] then Some ([62], t)
            else match op with a :: x :: _ => if a =? 94 then Some ([x], x :: t) else None | _ => None end) as [[closing t']|]; [|exact I].
  wg.
  wstep (apply wskip; auto) as u1 c3 d3 W3 S3 D3 ->. pose proof (skip_ctx_sz c1).
  wstep (eapply wor_critical with (m := sz (skip_ctx c1)); [apply (w_expression _ _ HR); auto | lia | intros; spans]) as e c4 d4 W4 S4 D4 [Q4 Q4'].
  wstep (apply wskip; auto) as u2 c5 d5 W5 S5 D5 ->. pose proof (skip_ctx_sz c4).
  wstep (eapply wor_critical with (m := sz (skip_ctx c4)); [apply wliteral; auto | lia | intros; spans]) as l c6 d6 W6 S6 D6 [Q6 Q6'].
  wg.
  apply (w_elr_loop _ _ HR); auto; try lia.
  intros x Hx. inversion Hx; subst x. unfold NQ in Q4.
  destruct v as [v0|].
  - unfold nok; simpl. constructor; [unfold span_in; simpl; arith|].
    apply Forall_app; split; [eapply (nok_at L _ c c6); eauto; lia | eapply (nok_at L _ c4 c6); eauto; lia].
  - unfold nok; simpl. constructor; [unfold span_in; simpl; arith|]. eapply (nok_at L _ c4 c6); eauto; lia.
Qed.

Lemma welr_body t c d n :
  wfc L c -> (sz c <= n)%nat -> ds_ok L d -> rok L n NQ (elr_body R t c d).
Proof.
  intros Hw Hc Hd. unfold elr_body.
  wstep (apply wskip; auto) as u1 c1 d1 W1 S1 D1 ->. pose proof (skip_ctx_sz c).
  wg.
  wstep (eapply wlook; [auto | auto | apply wopening3; auto]) as m c3 d3 W3 S3 D3 ->.
  destruct m as [a|].
  - apply (w_elr_loop _ _ HR); auto. intros; discriminate.
  - wstep (eapply rok_call with (m := sz (skip_ctx c)); [apply wexpression_literal; auto | lia]) as v c4 d4 W4 S4 D4 [Q4 Q4'].
    apply (w_elr_loop _ _ HR); auto.
    intros x Hx; inversion Hx; subst; auto.
Qed.
Lemma wprefix_loop_body t cs cop ops c d n :
  wfc L c -> (sz c <= n)%nat -> ds_ok L d -> wfc L cs -> (sz c <= sz cs)%nat -> wfc L cop -> (sz c <= sz cop)%nat ->
  ops_ok (pos c) ops ->
  rok L n (fun r c' => nok (pos c') (fst r) /\ ops_ok (pos c') (snd r)) (prefix_loop_body R t cs cop ops c d).
Proof.
  intros Hw Hc Hd Hcs Hle Hcop Hle2 Ho. unfold prefix_loop_body.
  wstep (apply wmaybe; [auto | auto | eapply rok_call with (m := sz c); [apply welr_body; auto | lia]]) as m c1 d1 W1 S1 D1 Q1.
  destruct m as [e|].
  { destruct Q1 as [Q1 Q1']. simpl. repeat split; auto. eapply ops_ok_mono; [|eauto]. eapply pos_le; eauto. }
  subst c1. cbv zeta.
  eapply wbind with (Q1 := fun _ c' => c' = c).
  { destruct ops; [apply wnot_term; auto|].
    eapply rok_conseq; [eapply wor_critical with (m := sz c); [apply wnot_term; auto | lia | intros; spans]|].
    cbv beta; intros ? ? ? ? [? ?]; auto. }
  cbv beta; intros u1 c2 d2 W2 S2 D2 ->.
  wstep (apply wmaybe; [auto | auto | unfold prefix_operator; apply weither_lit; auto]) as ch c3 d3 W3 S3 D3 Q3.
  destruct ch as [o|].
  - wstep (apply wskip; auto) as u2 c4 d4 W4 S4 D4 ->. pose proof (skip_ctx_sz c3).
    wg.
    apply (w_prefix_loop _ _ HR); auto; try lia.
    constructor; [eapply pos_le; eauto; lia|]. eapply ops_ok_mono; [|eauto]. eapply pos_le; eauto; lia.
  - subst c3.
    wstep (apply wskip; auto) as u2 c4 d4 W4 S4 D4 ->. pose proof (skip_ctx_sz c).
    wg.
    eapply wbind with (Q1 := fun _ c' => (sz c' <= sz (skip_ctx c))%nat).
    { destruct ops; [apply wcaret_nonspace; auto|].
      eapply rok_conseq; [eapply wor_critical with (m := sz (skip_ctx c)); [apply wcaret_nonspace; auto | lia | intros; spans]|].
      cbv beta; intros ? ? ? ? [? ?]; auto. }
    cbv beta; intros u3 c6 d6 W6 S6 D6 Q6. wg. apply wcritical; auto. spans.
Qed.

Lemma winfix_loop_body t ops stack c d n :
  wfc L c -> (sz c <= n)%nat -> ds_ok L d -> ops_ok (pos c) ops -> noks (pos c) stack ->
  rok L n NQ (infix_loop_body R t ops stack c d).
Proof.
  intros Hw Hc Hd Ho Hs. unfold infix_loop_body.
  wg.
  wstep (apply wskip; auto) as u1 c1 d1 W1 S1 D1 ->. pose proof (skip_ctx_sz c).
  wg.
  wstep (eapply wlook with (Q := fun _ _ => True); [auto | auto |]) as m c3 d3 W3 S3 D3 ->.
  { wstep (apply wnot_term; auto) as u2 c3 d3 W3 S3 D3 ->.
    wstep (unfold postfix_operator; apply weither_lit; auto) as o c4 d4 W4 S4 D4 Q4.
    eapply rok_conseq with (Q := fun _ _ => True); [|auto].
    apply wpor; auto; [apply wpor; auto; [apply wpor; auto; [apply wpor; auto|]|]|].
    - eapply rok_conseq; [apply wnewline; auto | auto].
    - intros. eapply wu; unfold comma; apply wliteral; auto.
    - intros. eapply wu; unfold closing_parenthesis; apply wliteral; auto.
    - intros. eapply wu; unfold closing_bracket; apply wliteral; auto.
    - intros. eapply rok_conseq; [apply weof; auto | auto]. }
  destruct m as [x|].
  - wstep (unfold postfix_operator; apply weither_lit; auto) as o c4 d4 W4 S4 D4 Q4.
    wg.
    destruct (pop_while (op_prec o) (op_left o) (pos c) ops stack) as [[ops' [|x0 st]]|] eqn:E; try exact I.
    eapply pop_while_w in E; eauto; [|lia]. destruct E as [Ho' Hs']. inversion Hs'; subst.
    assert (P : pos c <= pos c4) by (eapply pos_le; eauto; lia).
    apply wfinish_expression; auto.
    + eapply ops_ok_mono; eauto.
    + constructor; [|eapply noks_mono; eauto].
      unfold nok; simpl. constructor; [unfold span_in; simpl; arith|]. eapply nok_mono; eauto.
  - wstep (apply wmaybe; [auto | auto |]) as ch c4 d4 W4 S4 D4 Q4.
    { wstep (apply wnot_term; auto) as u2 c5 d5 W5 S5 D5 ->. unfold infix_operator; apply weither_lit; auto. }
    destruct ch as [o|].
    + wg.
      wstep (eapply wor_critical with (m := sz c4); [apply welr_body; auto | lia | intros; spans]) as e c6 d6 W6 S6 D6 [Q6 Q6'].
      destruct (pop_while (op_prec o) (op_left o) (pos c) ops stack) as [[ops' stack']|] eqn:E; [|exact I].
      eapply pop_while_w in E; eauto; [|lia]. destruct E as [Ho' Hs'].
      assert (P : pos c <= pos c6) by (eapply pos_le; eauto; lia).
      apply (w_infix_loop _ _ HR); auto.
      * constructor; auto. eapply ops_ok_mono; eauto.
      * constructor; auto. eapply noks_mono; eauto.
    + subst c4.
      wstep (apply wset; auto) as u5 c5 d5 W5 S5 D5 ->.
      apply wfinish_expression; auto.
Qed.

Lemma wexpression_body t c d n :
  wfc L c -> (sz c <= n)%nat -> ds_ok L d -> rok L n NQ (expression_body R t c d).
Proof.
  intros Hw Hc Hd. unfold expression_body.
  wstep (apply wskip; auto) as u1 c1 d1 W1 S1 D1 ->. pose proof (skip_ctx_sz c).
  wg.
  wstep (apply (w_prefix_loop _ _ HR); auto; constructor) as r c3 d3 W3 S3 D3 [Q3 Q3'].
  apply (w_infix_loop _ _ HR); auto. constructor; auto.
Qed.

Lemma wangle_body c d n :
  wfc L c -> (sz c <= n)%nat -> ds_ok L d -> rok L n NQ (angle_body R c d).
Proof.
  intros Hw Hc Hd. unfold angle_body.
  wstep (apply wskip; auto) as u1 c1 d1 W1 S1 D1 ->. pose proof (skip_ctx_sz c).
  wg.
  wstep (unfold opening_angle_bracket; apply wliteral; auto) as l c3 d3 W3 S3 D3 Q3.
  wstep (eapply rok_call with (m := sz c3); [apply (w_expression _ _ HR); auto | lia]) as e c4 d4 W4 S4 D4 [Q4 Q4'].
  wstep (unfold closing_angle_bracket; apply wliteral; auto) as l2 c5 d5 W5 S5 D5 Q5.
  wg. unfold NQ in *. simpl. repeat split; auto.
  unfold nok; simpl. constructor; [unfold span_in; simpl; arith|]. eapply (nok_at L _ c4 c5); eauto.
Qed.

Lemma wchunk c d n :
  wfc L c -> (sz c <= n)%nat -> ds_ok L d -> rok L n NQ (chunk R c d).
Proof.
  intros. unfold chunk. apply wpor; auto; [apply (w_quoted _ _ HR); auto | intros; apply wangle_body; auto].
Qed.

Lemma wlong_loop_body cs ch c d n :
  wfc L c -> (sz c <= n)%nat -> ds_ok L d -> wfc L cs -> (sz c <= sz cs)%nat -> noks (pos c) ch ->
  rok L n NQ (long_loop_body R cs ch c d).
Proof.
  intros Hw Hc Hd Hcs Hle Hch. unfold long_loop_body.
  wstep (apply wmaybe; [auto | auto | eapply rok_call with (m := sz c); [apply wchunk; auto | lia]]) as m c1 d1 W1 S1 D1 Q1.
  destruct m as [x|].
  - destruct Q1 as [Q1 Q1']. apply (w_long_loop _ _ HR); auto; try lia.
    constructor; auto. eapply noks_mono; [|eauto]. eapply pos_le; eauto.
  - subst c1. destruct ch as [|x [|y l]].
    + wg. unfold NQ. wl.
    + inversion Hch; subst. unfold NQ. simpl. repeat split; auto.
    + wg. unfold NQ. simpl. repeat split; auto.
      unfold nok. cbn [offsets]. constructor; [unfold span_in; simpl; arith|].
      apply (go_noks (pos c) (rev (x :: y :: l))). apply noks_rev; auto.
Qed.

Lemma wlong_string_body c d n :
  wfc L c -> (sz c <= n)%nat -> ds_ok L d -> rok L n NQ (long_string_body R c d).
Proof.
  intros Hw Hc Hd. unfold long_string_body.
  wstep (apply wskip; auto) as u1 c1 d1 W1 S1 D1 ->. pose proof (skip_ctx_sz c).
  wg.
  wstep (eapply rok_call with (m := sz (skip_ctx c)); [apply wchunk; auto | lia]) as c0 c3 d3 W3 S3 D3 [Q3 Q3'].
  apply (w_long_loop _ _ HR); auto. repeat constructor; auto.
Qed.

Lemma woperand_type n name idx c d :
  wfc L c -> (sz c <= n)%nat -> ds_ok L d -> rok L n (fun _ c' => c' = c) (operand_type name idx c d).
Proof.
  intros Hw Hc Hd. unfold operand_type.
  destruct (starts_with_dot name || match (match lookup_cmd name with Some c0 => Some c0 | None => lookup_cmd (46 :: name) end) with
                                    | Some c0 => c_meta c0 | None => false end); [|wfin].
  destruct (match lookup_cmd name with Some c0 => Some c0 | None => lookup_cmd (46 :: name) end) as [[m l mn mx [|ty0 tys]]|].
  - wstep (eapply wlook; [auto | auto | apply wstring_quote; auto]) as q c1 d1 W1 S1 D1 ->. wfin.
  - wfin.
  - wstep (eapply wlook; [auto | auto | apply wstring_quote; auto]) as q c1 d1 W1 S1 D1 ->. wfin.
Qed.

Lemma wby_type ty c d n :
  wfc L c -> (sz c <= n)%nat -> ds_ok L d -> rok L n NQ (by_type R ty c d).
Proof.
  intros. unfold by_type. destruct ty; try (apply (w_expression _ _ HR); auto). apply wlong_string_body; auto.
Qed.

Lemma wassignment c d n :
  wfc L c -> (sz c <= n)%nat -> ds_ok L d -> rok L n NQ (assignment R c d).
Proof.
  intros Hw Hc Hd. unfold assignment.
  wstep (apply wskip; auto) as u1 c1 d1 W1 S1 D1 ->. pose proof (skip_ctx_sz c).
  wg.
  wstep (apply wmaybe; [auto | auto | eapply rok_call with (m := sz (skip_ctx c)); [apply winstruction_pointer; auto | lia]]) as ip c2 d2 W2 S2 D2 Q2.
  eapply wbind with (Q1 := fun t c' => nok (pos c') t /\ (sz c' <= sz (skip_ctx c))%nat).
  { destruct ip as [t0|]; [destruct Q2; wfin|]. subst c2.
    wstep (unfold symbol_literal; apply wregex_id; auto) as sym c3 d3 W3 S3 D3 Q3. wg. wl. }
  cbv beta; intros target c4 d4 W4 S4 D4 [Q4 Q4'].
  wstep (apply wskip; auto) as u5 c5 d5 W5 S5 D5 ->. pose proof (skip_ctx_sz c4).
  wg.
  wstep (unfold equals_sign; apply wliteral; auto) as l c7 d7 W7 S7 D7 Q7.
  wstep (apply wmaybe; [auto | auto | apply wliteral_ns; auto]) as ext c8 d8 W8 S8 D8 Q8.
  assert (S8' : (sz c8 <= sz c7)%nat) by (destruct ext; [auto | subst; auto]).
  wg.
  wstep (apply wskip; auto) as u10 c10 d10 W10 S10 D10 ->. pose proof (skip_ctx_sz c8).
  wstep (eapply wor_critical with (m := sz (skip_ctx c8)); [apply (w_expression _ _ HR); auto | lia | intros; spans]) as value c11 d11 W11 S11 D11 [Q11 Q11'].
  assert (T4 : nok (pos c11) target) by (eapply (nok_at L _ c4 c11); eauto; lia).
  eapply wbind with (Q1 := fun _ c' => c' = c11).
  { destruct target; try (apply wret; auto).
    assert (Sp : Forall (span_in L) [(s, e)]).
    { unfold nok in T4; simpl in T4. inversion T4; subst. constructor; auto. unfold span_in in *; simpl in *. pose proof (pos_N L c11 W11). lia. }
    destruct (in_builtin name); [apply wemit; auto|]. destruct (is_register_name name); [apply wemit; auto | apply wret; auto]. }
  cbv beta; intros u12 c12 d12 W12 S12 D12 ->.
  wg.
  assert (G : forall b, nok (pos c11) (Assign (pos (skip_ctx c)) (pos c11) target value b)).
  { intros b. unfold nok; simpl. constructor; [unfold span_in; simpl; arith|]. apply Forall_app; split; auto. }
  destruct target; try (unfold NQ; simpl; repeat split; auto).
  destruct (is_some ext); [|unfold NQ; simpl; repeat split; auto].
  wstep (apply wemit; auto; spans) as u14 c14 d14 W14 S14 D14 ->. unfold NQ; simpl; repeat split; auto.
Qed.

Lemma wcode_body brk c d n :
  wfc L c -> (sz c <= n)%nat -> ds_ok L d -> rok L n NQ (code_body R brk c d).
Proof. intros. unfold code_body. wg. apply (w_code_loop _ _ HR); auto. constructor. Qed.
Lemma nok_set_brace hi b p : nok hi b -> p <= hi -> nok hi (set_brace b p).
Proof.
  intros H Hp. destruct b; simpl; auto. unfold nok in *; simpl in *. inversion H; subst.
  constructor; auto. apply Forall_app in H3 as [_ H3]. constructor; [unfold span_in; simpl; lia | exact H3].
Qed.
Lemma strip_left_len l : (length (strip_left l) <= length l)%nat.
Proof. induction l as [|x l IH]; simpl; auto. destruct (is_space x); simpl; lia. Qed.
Lemma strip_len l : (length (strip l) <= length (strip_left l))%nat.
Proof. unfold strip. rewrite rev_length. etransitivity; [apply strip_left_len|]. rewrite rev_length. auto. Qed.
Lemma line_of_len l : (length (line_of l) <= length l)%nat.
Proof. unfold line_of. pose proof (span_n_split (fun c => negb (c =? 10)) l 0). lia. Qed.
Lemma wadvance k c : wfc L c -> (k <= sz c)%nat -> wfc L (advance k c) /\ sz (advance k c) = (sz c - k)%nat.
Proof. unfold wfc, advance, sz; simpl. intros. rewrite skipn_length. split; lia. Qed.

Lemma woperand_loop_body name cs can name_sym ops cbc c d n :
  wfc L c -> (sz c <= n)%nat -> ds_ok L d -> wfc L cs -> wfc L can -> wfc L cbc ->
  (sz can <= sz cs)%nat -> (sz c <= sz can)%nat -> (sz c <= sz cbc)%nat -> nok (pos c) name_sym -> noks (pos c) ops ->
  rok L n NQ (operand_loop_body R name cs can name_sym ops cbc c d).
Proof.
  intros Hw Hc Hd Hcs Hcan Hcbc L1 L2 L3 Hns Hops. unfold operand_loop_body.
  wstep (apply wmaybe; [auto | auto | unfold comma; apply wliteral; auto]) as m c1 d1 W1 S1 D1 Q1.
  destruct m as [x|].
  - wg.
    wstep (apply wskip; auto) as u1 c3 d3 W3 S3 D3 ->. pose proof (skip_ctx_sz c1).
    wstep (apply woperand_type; auto) as ty c4 d4 W4 S4 D4 ->.
    wstep (eapply wor_critical with (m := sz (skip_ctx c1)); [apply wby_type; auto | lia | intros; spans]) as o c5 d5 W5 S5 D5 [Q5 Q5'].
    wg.
    apply (w_operand_loop _ _ HR); auto; try lia.
    + eapply (nok_at L _ c c5); eauto; lia.
    + constructor; auto. eapply noks_mono; [|eauto]. eapply pos_le; eauto; lia.
  - subst c1.
    wg.
    wstep (apply wmaybe; [auto | auto | unfold opening_bracket; apply wliteral; auto]) as m2 c3 d3 W3 S3 D3 Q3.
    eapply wbind with (Q1 := fun o c' => noks (pos c') o /\ (sz c' <= sz c)%nat).
    { destruct m2 as [x|].
      - wstep (eapply rok_call with (m := sz c3); [apply wcode_body; auto | lia]) as blk c4 d4 W4 S4 D4 [Q4 Q4'].
        simpl. repeat split; auto; try lia.
        constructor; [apply nok_set_brace; auto; eapply pos_le; eauto; lia|].
        eapply noks_mono; [|eauto]. eapply pos_le; eauto; lia.
      - subst c3. wfin. }
    cbv beta; intros ops' c5 d5 W5 S5 D5 [Q5 Q5'].
    wg.
    wstep (apply wwhen; auto; intros; apply wemit; auto; spans) as u7 c7 d7 W7 S7 D7 ->.
    unfold NQ. simpl. repeat split; auto.
    unfold nok. cbn [offsets]. constructor; [unfold span_in; simpl; arith|].
    apply Forall_app; split; [eapply (nok_at L _ c c5); eauto|].
    apply (go_noks (pos c5) (rev ops')). apply noks_rev; auto.
Qed.

Lemma wdone cs can name c d n :
  wfc L c -> (sz c <= n)%nat -> ds_ok L d -> wfc L cs -> wfc L can -> (sz can <= sz cs)%nat -> (sz c <= sz can)%nat ->
  rok L n NQ ((ce <- get ;; ret (Insn (pos cs) (pos ce) (Symbol (pos cs) (pos can) name false) [])) c d).
Proof. intros. wg. unfold NQ. wl. Qed.

Lemma winstruction c d n :
  wfc L c -> (sz c <= n)%nat -> ds_ok L d -> rok L n NQ (instruction R c d).
Proof.
  intros Hw Hc Hd. unfold instruction; cbv zeta.
  wg.
  wstep (apply winstruction_name; auto) as name c2 d2 W2 S2 D2 Q2.
  wg.
  wstep (apply wwhen; auto; intros; apply wemit; auto; spans) as u4 c4 d4 W4 S4 D4 ->.
  eapply wbind with (Q1 := fun _ c' => c' = c2).
  { destruct (lookup_cmd name) as [cm|].
    - wstep (eapply wlook; [auto | auto | unfold comma; apply wliteral; auto]) as m c5 d5 W5 S5 D5 ->.
      destruct (is_some m); [|wfin].
      wstep (apply wskip; auto) as u6 c6 d6 W6 S6 D6 ->. pose proof (skip_ctx_sz c2).
      wg.
      wstep (unfold comma; apply wliteral; auto) as l c8 d8 W8 S8 D8 Q8.
      wg. apply wcritical; auto. spans.
    - destruct (starts_with_dot name); [wfin|].
      wstep (apply wmaybe with (Q := fun _ _ => True); [auto | auto |]) as m c5 d5 W5 S5 D5 Q5.
      + apply wpor; auto.
        * eapply wu; unfold comma; apply wliteral; auto.
        * intros.
          wstep (eapply wnot; [auto | auto | unfold prefix_operator; apply weither_lit; auto]) as u6 c6 d6 W6 S6 D6 ->.
          wstep (eapply wnot; [auto | auto | apply wcaret_parenthesis; auto]) as u7 c7 d7 W7 S7 D7 ->.
          eapply wu; unfold infix_operator; apply weither_lit; auto.
      + destruct m; [wfin | subst; wfin]. }
  cbv beta; intros u5 c5 d5 W5 S5 D5 ->.
  destruct (match lookup_cmd name with Some c0 => c_meta c0 && c_litstr c0 | None => false end).
  { wg.
    destruct (strip (line_of (rest c2))) as [|t0 text] eqn:Et.
    - apply wdone; auto.
    - set (line := line_of (rest c2)) in *.
      set (k0 := (length line - length (strip_left line))%nat).
      pose proof (line_of_len (rest c2)) as Ll. fold line in Ll. pose proof (strip_left_len line) as Lsl.
      pose proof (strip_len line) as Lst. rewrite Et in Lst.
      destruct (wadvance k0 c2 W2) as [Wa Sa]; [unfold sz, k0; lia|].
      destruct (wadvance (length (t0 :: text)) (advance k0 c2) Wa) as [Wb Sb]; [rewrite Sa; unfold sz, k0; simpl in *; lia|].
      wstep (apply wset; auto; lia) as u7 c7 d7 W7 S7 D7 ->.
      wg.
      wstep (apply wset; auto; lia) as u9 c9 d9 W9 S9 D9 ->.
      wg. unfold NQ. simpl. repeat split; auto; try lia.
      unfold nok; simpl. repeat constructor; unfold span_in; simpl; unfold wfc in *; lia. }
  wstep (eapply wlook; [auto | auto | unfold closing_bracket; apply wliteral; auto]) as m6 c6 d6 W6 S6 D6 ->.
  destruct (is_some m6). { apply wdone; auto. }
  wstep (eapply wlook; [auto | auto | apply wnewline; auto]) as m7 c7 d7 W7 S7 D7 ->.
  eapply wbind with (Q1 := fun _ c' => c' = c2).
  { destruct (is_some m7); [|wfin].
    destruct (match lookup_cmd name with Some c0 => 0 <? c_min c0 | None => false end); [|wfin].
    wstep (apply wemit; auto; spans) as u8 c8 d8 W8 S8 D8 ->. wfin. }
  cbv beta; intros stop c8 d8 W8 S8 D8 ->.
  destruct stop. { apply wdone; auto. }
  wstep (eapply wlook with (Q := fun _ _ => True); [auto | auto |]) as next c9 d9 W9 S9 D9 ->.
  { wstep (apply winstruction_name; auto) as nm c10 d10 W10 S10 D10 Q10.
    wstep (eapply wnot; [auto | auto | unfold colon; apply wliteral; auto]) as u11 c11 d11 W11 S11 D11 ->. wfin. }
  eapply wbind with (Q1 := fun _ c' => c' = c2).
  { destruct (lookup_cmd name) as [cm|]; [|wfin]. destruct next as [nm|]; [|wfin].
    destruct ((match c_max cm with Some 0 => true | _ => false end) && in_builtin nm); [|wfin].
    wg.
    wstep (eapply won_copy with (Q := fun _ _ => True); [auto | auto |]) as r c11 d11 W11 S11 D11 [-> [Wr Sr]].
    { pose proof (skip_ctx_sz c2). pose proof (wskip_ctx L c2 W2).
      wstep (apply winstruction_name; auto; lia) as nm2 c12 d12 W12 S12 D12 Q12.
      eapply rok_conseq; [eapply wlook with (Q := fun _ _ => True); [auto | auto |] | auto].
      apply wpor; auto; [apply wpor; auto|].
      - eapply wu; unfold comma; apply wliteral; auto.
      - intros. eapply wu; unfold infix_operator; apply weither_lit; auto.
      - intros. eapply wu; unfold postfix_operator; apply weither_lit; auto. }
    destruct (is_some (fst r)); [wfin|].
    wstep (apply wemit; auto; spans) as u12 c12 d12 W12 S12 D12 ->. wfin. }
  cbv beta; intros split c10 d10 W10 S10 D10 ->.
  destruct split. { apply wdone; auto. }
  wstep (apply woperand_type; auto) as ty c11 d11 W11 S11 D11 ->.
  wstep (apply wmaybe; [auto | auto | eapply rok_call with (m := sz c2); [apply wby_type; auto | lia]]) as first c12 d12 W12 S12 D12 Q12.
  destruct first as [fo|].
  - destruct Q12 as [Q12 Q12'].
    wg.
    wstep (apply wwhen; auto; intros; apply wemit; auto; spans) as u14 c14 d14 W14 S14 D14 ->.
    apply (w_operand_loop _ _ HR); auto; try lia.
    + unfold nok; simpl. repeat constructor; unfold span_in; simpl; unfold wfc in *; lia.
    + repeat constructor; auto.
  - subst c12.
    eapply wbind with (Q1 := fun _ c' => (sz c' <= sz c2)%nat).
    { destruct (rest c2); [wfin|].
      wstep (apply wskip; auto) as u13 c13 d13 W13 S13 D13 ->. pose proof (skip_ctx_sz c2).
      wg. eapply rok_conseq; [unfold warning; apply wemit; auto; spans | cbv beta; intros; subst; lia]. }
    cbv beta; intros u13 c13 d13 W13 S13 D13 Q13. apply wdone; auto.
Qed.

Lemma wwords_loop_body cs cafo ws c d n :
  wfc L c -> (sz c <= n)%nat -> ds_ok L d -> wfc L cs -> wfc L cafo -> (sz cafo <= sz cs)%nat -> (sz c <= sz cafo)%nat ->
  noks (pos c) ws -> rok L n NQ (words_loop_body R cs cafo ws c d).
Proof.
  intros Hw Hc Hd Hcs Hca L1 L2 Hws. unfold words_loop_body. cbv zeta.
  wg. pose proof (skip_ctx_sz c) as Hsk. pose proof (wskip_ctx L c Hw) as Wsk.
  wstep (apply wmaybe; [auto | auto | eapply rok_conseq; [apply wafter_skip; apply wliteral_ns; [exact Wsk | lia | auto] | cbv beta; intros ? ? ? ? Hx; exact Hx]]) as m c1 d1 W1 S1 D1 Q1.
  destruct m as [x|].
  - wg.
    wstep (apply wskip; auto) as u1 c3 d3 W3 S3 D3 ->. pose proof (skip_ctx_sz c1).
    wstep (eapply wor_critical with (m := sz (skip_ctx c1)); [apply (w_expression _ _ HR); auto | lia | intros; spans]) as w c4 d4 W4 S4 D4 [Q4 Q4'].
    apply (w_words_loop _ _ HR); auto; try lia.
    constructor; auto. eapply noks_mono; [|eauto]. eapply pos_le; eauto; lia.
  - subst c1.
    wg.
    eapply wbind with (Q1 := fun _ c' => c' = c).
    { destruct (junk_here c); [apply wemit; auto; spans|].
      wstep (eapply wlook with (Q := fun _ _ => True); [auto | auto |]) as m2 c3 d3 W3 S3 D3 ->.
      - apply wpor; auto; [eapply rok_conseq; [apply wnewline; auto | auto] | intros; eapply rok_conseq; [apply weof; auto | auto]].
      - apply wwhen; auto; intros; apply wemit; auto; spans. }
    cbv beta; intros u3 c3 d3 W3 S3 D3 ->.
    unfold NQ. simpl. repeat split; auto.
    unfold nok. cbn [offsets]. constructor; [unfold span_in; simpl; arith|].
    apply (go_noks (pos c) (rev ws)). apply noks_rev; auto.
Qed.

Lemma wword_list c d n :
  wfc L c -> (sz c <= n)%nat -> ds_ok L d -> rok L n NQ (word_list R c d).
Proof.
  intros Hw Hc Hd. unfold word_list.
  wstep (apply wskip; auto) as u1 c1 d1 W1 S1 D1 ->. pose proof (skip_ctx_sz c).
  wg.
  wstep (eapply rok_call with (m := sz (skip_ctx c)); [apply (w_expression _ _ HR); auto | lia]) as w0 c3 d3 W3 S3 D3 [Q3 Q3'].
  wg.
  apply (w_words_loop _ _ HR); auto. repeat constructor; auto.
Qed.

Lemma wstatement c d n :
  wfc L c -> (sz c <= n)%nat -> ds_ok L d -> rok L n NQ (statement R c d).
Proof.
  intros. unfold statement.
  apply wpor; auto; [apply wpor; auto; [apply wpor; auto|]|].
  - apply wlabel; auto.
  - intros; apply wassignment; auto.
  - intros; apply winstruction; auto.
  - intros; apply wword_list; auto.
Qed.

Lemma wcode_loop_body brk cs insns c d n :
  wfc L c -> (sz c <= n)%nat -> ds_ok L d -> wfc L cs -> (sz c <= sz cs)%nat -> noks (pos c) insns ->
  rok L n NQ (code_loop_body R brk cs insns c d).
Proof.
  intros Hw Hc Hd Hcs Hle Hin. unfold code_loop_body.
  wg.
  assert (B : forall c' s0 l, wfc L c' -> noks (pos c') l -> s0 <= pos c' -> nok (pos c') (Block s0 (pos c') None (rev l))).
  { intros c' s0 l Wc Hl Hs0. unfold nok. cbn [offsets]. constructor; [unfold span_in; simpl; lia|].
    simpl. apply (go_noks (pos c') (rev l)). apply noks_rev; auto. }
  destruct (ctx_eof c). { unfold NQ. simpl. repeat split; auto. apply B; auto. eapply pos_le; eauto. }
  wstep (apply wskip; auto) as u1 c1 d1 W1 S1 D1 ->. pose proof (skip_ctx_sz c).
  wg.
  eapply wbind with (Q1 := fun m c' => (sz c' <= sz (skip_ctx c))%nat /\ match m with Some _ => True | None => c' = skip_ctx c end).
  { destruct brk; [|wfin].
    eapply rok_conseq; [apply wmaybe; [auto | auto | unfold closing_bracket; apply wliteral; auto]|].
    cbv beta; intros [x|] ? ? ? Hx; [auto | subst; auto]. }
  cbv beta; intros m c3 d3 W3 S3 D3 [Q3 Q3'].
  assert (P1 : pos c <= pos (skip_ctx c)) by (eapply pos_le; eauto).
  destruct m as [x|].
  { wg. unfold NQ. simpl. repeat split; auto. apply B; auto.
    - eapply noks_mono; [|eauto]. eapply pos_le; eauto; lia.
    - eapply pos_le; eauto. }
  subst c3.
  wstep (eapply wor_critical with (m := sz (skip_ctx c)); [apply wstatement; auto | lia | intros; spans]) as insn c4 d4 W4 S4 D4 [Q4 Q4'].
  assert (P2 : pos (skip_ctx c) <= pos c4) by (eapply pos_le; eauto).
  assert (Hin2 : noks (pos c4) (insn :: insns)) by (constructor; auto; eapply noks_mono; [|eauto]; lia).
  destruct (negb brk && is_end_insn insn).
  { wg. unfold NQ, ret, rok. repeat split; auto; try (apply (B c4 _ (insn :: insns)); auto). }
  apply (w_code_loop _ _ HR); auto; lia.
Qed.
End BodiesW.

(* ---- tying the knot (any fuel: Crash / OutOfFuel outcomes are vacuous here) --------------------------------- *)
Lemma funs_at_w L fuel : funs_w L (funs_at fuel).
Proof.
  induction fuel as [|f IH].
  - constructor; intros; exact I.
  - constructor; simpl; intros.
    + apply (wexpression_body _ _ IH); auto.
    + apply (wprefix_loop_body _ _ IH); auto.
    + apply (winfix_loop_body _ _ IH); auto.
    + apply (welr_loop_body _ _ IH); auto.
    + apply (wlong_loop_body _ _ IH); auto.
    + apply (woperand_loop_body _ _ IH); auto.
    + apply (wwords_loop_body _ _ IH); auto.
    + apply (wcode_loop_body _ _ IH); auto.
    + apply wquoted_string; auto.
Qed.

Definition offsets_in_file (text : list N) (r : presult) : Prop :=
  match r with
  | POk b d => Forall (span_in (len text)) (offsets b) /\ Forall (span_in (len text)) (diag_spans d)
  | PCritical d => Forall (span_in (len text)) (diag_spans d)
  | PCrash _ | POutOfFuel => True
  end.

Lemma spans_all L (l : list diag) :
  Forall (fun x => Forall (span_in L) (snd x)) l -> Forall (span_in L) (flat_map (fun x => snd x) l).
Proof.
  induction l as [|x l IH]; intros H; simpl; [constructor|].
  inversion H as [|? ? Hx Hl]; subst. apply Forall_app; split; [exact Hx | exact (IH Hl)].
Qed.
Lemma ds_ok_spans L d : ds_ok L d -> Forall (span_in L) (diag_spans (rev d)).
Proof. unfold ds_ok, diag_spans. intros H. apply spans_all. apply Forall_rev; exact H. Qed.

Theorem parse_offsets_in_file text fuel : offsets_in_file text (parse_file fuel text).
Proof.
  unfold parse_file.
  assert (W0 : wfc (len text) (mkCtx 0 text)) by (unfold wfc, sz, len; simpl; lia).
  pose proof (wcode_body _ _ (funs_at_w (len text) fuel) false (mkCtx 0 text) [] (length text) W0 (le_n _)) as H.
  specialize (H (Forall_nil _)).
  destruct (code_body (funs_at fuel) false {| pos := 0; rest := text |} []) as [b c' d'|c' d'|d'|s|]; simpl in *; auto.
  - destruct H as [Wc [Sc [Dd Hb]]]. split; [|apply ds_ok_spans; auto].
    unfold NQ, nok in Hb. eapply Forall_impl; [|exact Hb]. intros [s0 e0]; unfold span_in; simpl. pose proof (pos_N _ _ Wc). lia.
  - apply ds_ok_spans; auto.
Qed.
