(* Proofs/GenPureP.v -- facts about the constant prelude of Gen/GenPure.v (the meaning given to the Python
   operations by tools/gens/gen_pure.py), shared by Proofs/GenPure*P.v. *)
From Coq Require Import String List ZArith NArith Bool Lia.
From Verif Require Import Base.Res Base.Bytes Gen.GenPure.
Import ListNotations.
Open Scope list_scope.
Open Scope Z_scope.

(* ---- the partial operations where their raising case is excluded ---------------------------------------- *)
Lemma py_pow_nonneg a b : 0 <= b -> py_pow a b = Ok (a ^ b).
Proof. intros H. unfold py_pow. destruct (Z.ltb_spec b 0); [lia|reflexivity]. Qed.

Lemma py_mod_nz a b : b <> 0 -> py_mod a b = Ok (a mod b).
Proof. intros H. unfold py_mod. destruct (Z.eqb_spec b 0); [contradiction|reflexivity]. Qed.

Ltac split_ifs :=
  repeat match goal with |- context [if ?c then _ else _] => destruct c eqn:? end;
  try reflexivity; try (cbn [negb] in *; discriminate).


(* ---- slices ------------------------------------------------------------------------------------------- *)
Lemma firstn_min {A} (s : list A) b : firstn (Nat.min b (length s)) s = firstn b s.
Proof.
  destruct (Nat.le_ge_cases b (length s)) as [H|H].
  - rewrite Nat.min_l by exact H. reflexivity.
  - rewrite Nat.min_r by exact H. rewrite firstn_all, firstn_all2 by exact H. reflexivity.
Qed.

Lemma skipn_min {A} (s : list A) a b : skipn (Nat.min a (length s)) (firstn b s) = skipn a (firstn b s).
Proof.
  destruct (Nat.le_ge_cases a (length s)) as [H|H].
  - rewrite Nat.min_l by exact H. reflexivity.
  - rewrite Nat.min_r by exact H.
    assert (L : (length (firstn b s) <= length s)%nat) by (rewrite firstn_length; apply Nat.le_min_r).
    rewrite !skipn_all2 by lia. reflexivity.
Qed.

Lemma clamp_nat l a : py_clamp (Z.of_nat l) (Z.of_nat a) = Z.of_nat (Nat.min a l).
Proof. unfold py_clamp. destruct (Z.ltb_spec (Z.of_nat a) 0); lia. Qed.

(* s[a:b] for non-negative a, b is the list operation skipn a (firstn b s) *)
Lemma py_slice_nat {A} (s : list A) a b :
  py_slice s (Some (Z.of_nat a)) (Some (Z.of_nat b)) = skipn a (firstn b s).
Proof.
  unfold py_slice, py_lo, py_hi. rewrite !clamp_nat, !Nat2Z.id, firstn_min. apply skipn_min.
Qed.

Lemma py_slice_upto {A} (s : list A) b : py_slice s None (Some (Z.of_nat b)) = firstn b s.
Proof. unfold py_slice, py_lo, py_hi. rewrite clamp_nat, Nat2Z.id, firstn_min. reflexivity. Qed.

Lemma py_slice_from {A} (s : list A) a : py_slice s (Some (Z.of_nat a)) None = skipn a s.
Proof.
  unfold py_slice, py_lo, py_hi. rewrite clamp_nat, !Nat2Z.id, firstn_all.
  rewrite <- (firstn_all s) at 2 3. apply skipn_min.
Qed.

Lemma nth_error_skipn_t {A} a : forall (l : list A) j, nth_error (skipn a l) j = nth_error l (a + j).
Proof.
  induction a as [|a IH]; intros l j; [reflexivity|].
  destruct l as [|x l]; [destruct j; reflexivity|]. cbn. apply IH.
Qed.

Lemma nth_error_firstn_t {A} b : forall (l : list A) j, (j < b)%nat -> nth_error (firstn b l) j = nth_error l j.
Proof.
  induction b as [|b IH]; intros l j H; [lia|].
  destruct l as [|x l]; [destruct j; reflexivity|]. destruct j as [|j]; [reflexivity|]. cbn. apply IH. lia.
Qed.

(* ---- count / rfind / index against List facts -------------------------------------------------------- *)
Lemma py_count1_count_occ s ch : py_count1 s ch = Z.of_nat (count_occ N.eq_dec s ch).
Proof.
  induction s as [|x r IH]; [reflexivity|]. cbn [py_count1 count_occ].
  destruct (N.eqb_spec x ch) as [E|E]; destruct (N.eq_dec x ch); try contradiction; lia.
Qed.

(* the result is [last] when ch does not occur, otherwise i + the position of the LAST occurrence *)
Lemma last_index_from_spec ch s : forall i last,
  (~ In ch s /\ last_index_from ch s i last = last) \/
  (exists k, (k < length s)%nat /\ nth_error s k = Some ch /\
             (forall j, (k < j)%nat -> nth_error s j <> Some ch) /\
             last_index_from ch s i last = i + Z.of_nat k).
Proof.
  induction s as [|x r IH]; intros i last.
  - left. split; [intros []|reflexivity].
  - cbn [last_index_from]. destruct (IH (i + 1) (if N.eqb x ch then i else last)) as [[Hn He]|[k [Hk [Hnth [Hlast He]]]]].
    + destruct (N.eqb_spec x ch) as [E|E].
      * right. exists 0%nat. subst x. split; [cbn; lia|]. split; [reflexivity|]. split.
        -- intros j Hj. destruct j as [|j]; [lia|]. cbn. intros C. apply Hn. eapply nth_error_In; exact C.
        -- rewrite He. lia.
      * left. split; [|exact He]. intros [C|C]; [contradiction|exact (Hn C)].
    + right. exists (S k). split; [cbn; lia|]. split; [exact Hnth|]. split.
      * intros j Hj. destruct j as [|j]; [lia|]. cbn. apply Hlast. lia.
      * rewrite He. lia.
Qed.

Lemma last_index_from_ge ch s : forall i last, -1 <= last -> 0 <= i -> -1 <= last_index_from ch s i last.
Proof.
  induction s as [|x r IH]; intros i last H1 H2; [exact H1|]. cbn [last_index_from].
  apply IH; [destruct (N.eqb x ch); lia|lia].
Qed.

(* s.rfind(ch, a, b) for 0 <= a, b: -1 when ch is not in s[a:b], otherwise the greatest index k of s with
   a <= k < b and s[k] = ch *)
Lemma py_rfind1_spec s ch a b :
  let r := py_rfind1 s ch (Z.of_nat a) (Z.of_nat b) in
  (r = -1 /\ ~ In ch (skipn a (firstn b s))) \/
  (exists k, r = Z.of_nat k /\ (a <= k < b)%nat /\ nth_error s k = Some ch /\
             forall j, (k < j < b)%nat -> nth_error s j <> Some ch).
Proof.
  cbv zeta. unfold py_rfind1. rewrite py_slice_nat, clamp_nat.
  destruct (last_index_from_spec ch (skipn a (firstn b s)) (Z.of_nat (Nat.min a (length s))) (-1)) as [[Hn He]|[k [Hk [Hnth [Hlast He]]]]].
  - left. split; assumption.
  - right. rewrite skipn_length, firstn_length in Hk.
    assert (Ha : (a <= length s)%nat) by lia.
    exists (a + k)%nat. split; [rewrite He; lia|]. split; [lia|].
    assert (N1 : forall j, (a + j < b)%nat -> nth_error (skipn a (firstn b s)) j = nth_error s (a + j)).
    { intros j Hj. rewrite nth_error_skipn_t, nth_error_firstn_t by exact Hj. reflexivity. }
    split.
    + rewrite <- N1 by lia. exact Hnth.
    + intros j Hj. replace j with (a + (j - a))%nat by lia. rewrite <- N1 by lia. apply Hlast. lia.
Qed.

Lemma first_index_from_spec s ch : forall i,
  match first_index_from i s ch with
  | None => ~ In ch s
  | Some r => exists k, r = i + Z.of_nat k /\ nth_error s k = Some ch /\ forall j, (j < k)%nat -> nth_error s j <> Some ch
  end.
Proof.
  induction s as [|x r IH]; intros i; cbn [first_index_from]; [intros []|].
  destruct (N.eqb_spec x ch) as [E|E].
  - exists 0%nat. subst. split; [lia|]. split; [reflexivity|]. intros j Hj. lia.
  - specialize (IH (i + 1)). destruct (first_index_from (i + 1) r ch) as [v|].
    + destruct IH as [k [H1 [H2 H3]]]. exists (S k). split; [lia|]. split; [exact H2|].
      intros j Hj. destruct j as [|j]; cbn; [congruence|apply H3; lia].
    + intros [C|C]; [contradiction|exact (IH C)].
Qed.

Lemma py_index1_spec s ch site :
  match py_index1 s ch site with
  | Ok r => exists k, r = Z.of_nat k /\ nth_error s k = Some ch /\ forall j, (j < k)%nat -> nth_error s j <> Some ch
  | Crash x => x = site /\ ~ In ch s
  | _ => False
  end.
Proof.
  unfold py_index1. pose proof (first_index_from_spec s ch 0) as H.
  destruct (first_index_from 0 s ch) as [r|].
  - destruct H as [k [H1 H2]]. exists k. split; [lia|exact H2].
  - split; [reflexivity|exact H].
Qed.

Lemma py_partial_ops a b :
  (b <> 0 -> py_mod a b = Ok (a mod b) /\ py_floordiv a b = Ok (a / b)) /\
  (0 <= b -> py_pow a b = Ok (a ^ b) /\ py_lshift a b = Ok (Z.shiftl a b) /\ py_rshift a b = Ok (Z.shiftr a b)) /\
  (b = 0 -> py_mod a b = Crash "ZeroDivisionError" /\ py_floordiv a b = Crash "ZeroDivisionError") /\
  (b < 0 -> is_crash (py_pow a b) = true /\ is_crash (py_lshift a b) = true /\ is_crash (py_rshift a b) = true).
Proof.
  unfold py_mod, py_floordiv, py_pow, py_lshift, py_rshift.
  destruct (Z.eqb_spec b 0); destruct (Z.ltb_spec b 0); repeat split; try reflexivity; try lia; try contradiction.
Qed.
