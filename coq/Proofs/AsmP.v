(* Proofs about the reference assembler Model/Asm.v: the layout pass is the running-address recurrence
   of Model/Block.v (so Proofs/BlockP.v's address invariant applies to whole programs), and the
   per-statement facts of C01 (encode/decode) and C06 (data bytes) hold at the addresses of the image. *)
From Coq Require Import ZArith List String Ascii Bool NArith Lia.
From Verif Require Import Base.Res Base.Bytes Spec.PDP11 Spec.Arith Gen.GenGetAsInt Gen.GenOpcodes
  Model.Insns Model.Directives Model.Block Proofs.BlockP Model.Asm.
Import ListNotations.
Notation length := Datatypes.length.
Notation concat := List.concat.
Open Scope string_scope.
Open Scope list_scope.
Open Scope Z_scope.

(* ------------------------------------------------------------------------------------------ *)
(* the result monad *)
Lemma xbind_ok {A B} (r : xres A) (f : A -> xres B) b :
  xbind r f = XOk b -> exists a, r = XOk a /\ f a = XOk b.
Proof. destruct r; simpl; intros H; try discriminate. eauto. Qed.

Ltac xinv H :=
  repeat match type of H with
  | xbind ?r ?f = XOk _ =>
      let a := fresh "a" in let Ha := fresh "Ha" in
      apply xbind_ok in H; destruct H as [a [Ha H]]
  end.

Lemma lift_ok' {A} (r : res A) a : lift r = XOk a -> r = Ok a.
Proof. destruct r; simpl; intros H; inversion H; reflexivity. Qed.

Lemma xmapM_nth {A B} (f : A -> xres B) l : forall l', xmapM f l = XOk l' ->
  length l' = length l /\
  forall k x, nth_error l k = Some x -> exists y, nth_error l' k = Some y /\ f x = XOk y.
Proof.
  induction l as [|x xs IH]; simpl; intros l' H.
  - inversion H; subst. split; [reflexivity|]. intros [|k] y Hy; discriminate.
  - xinv H. inversion H; subst. destruct (IH _ Ha0) as [L N]. split; [simpl; congruence|].
    intros [|k] y Hy; simpl in *.
    + inversion Hy; subst. eauto.
    + apply N. exact Hy.
Qed.

(* ------------------------------------------------------------------------------------------ *)
(* keys *)
Lemma key_eqb_eq a b : key_eqb a b = true <-> a = b.
Proof.
  destruct a, b; simpl; split; intros H; try discriminate.
  - apply andb_true_iff in H. destruct H as [H1 H2]. apply Nat.eqb_eq in H1. apply String.eqb_eq in H2. congruence.
  - inversion H; subst. rewrite Nat.eqb_refl, String.eqb_refl. reflexivity.
  - apply andb_true_iff in H. destruct H as [H1 H2]. apply andb_true_iff in H1. destruct H1 as [H0 H1].
    apply Nat.eqb_eq in H0. apply Nat.eqb_eq in H1. apply String.eqb_eq in H2. congruence.
  - inversion H; subst. rewrite !Nat.eqb_refl, String.eqb_refl. reflexivity.
Qed.

Lemma key_eqb_refl a : key_eqb a a = true.
Proof. apply key_eqb_eq. reflexivity. Qed.

Lemma klookup_kmem k t v : klookup k t = Some v -> kmem k t = true.
Proof.
  induction t as [|[k' v'] t IH]; simpl; intros H; [discriminate|].
  destruct (key_eqb k k'); simpl; auto.
Qed.

Lemma klookup_cons_other k k' v t x :
  kmem k' t = false -> klookup k t = Some x -> klookup k ((k', v) :: t) = Some x.
Proof.
  intros Hm Hl. simpl. destruct (key_eqb k k') eqn:E; [|exact Hl].
  apply key_eqb_eq in E. subst k'. apply klookup_kmem in Hl. congruence.
Qed.

Lemma klookup_app k t1 t2 v : klookup k t1 = Some v -> klookup k (t1 ++ t2) = Some v.
Proof.
  induction t1 as [|[k' v'] t IH]; simpl; intros H; [discriminate|].
  destruct (key_eqb k k'); auto.
Qed.

(* ------------------------------------------------------------------------------------------ *)
(* the running-address recurrence over placed statements *)
Fixpoint chain (a : Z) (its : list item) (b : Z) : Prop :=
  match its with
  | [] => b = a
  | it :: r => i_addr it = a /\ chain (a + i_size it) r b
  end.

Lemma chain_app a l1 : forall l2 b c, chain a l1 b -> chain b l2 c -> chain a (l1 ++ l2) c.
Proof.
  revert a. induction l1 as [|it r IH]; simpl; intros a l2 b c H1 H2.
  - subst b. exact H2.
  - destruct H1 as [E H1]. split; [exact E|]. eapply IH; eauto.
Qed.

Definition lab_ok (T : symtab) (it : item) : Prop :=
  match i_stmt it with
  | Label n => klookup (KGlobal (fst (i_scope it)) n) T = Some (i_addr it)
  | LocalLabel n => exists sc, snd (i_scope it) = Some sc /\ klookup (KLocal (fst (i_scope it)) sc n) T = Some (i_addr it)
  | _ => True
  end.

Lemma lab_ok_mono T T' it :
  (forall k v, klookup k T = Some v -> klookup k T' = Some v) -> lab_ok T it -> lab_ok T' it.
Proof.
  unfold lab_ok. intros M. destruct (i_stmt it); auto.
  intros [sc [E H]]. exists sc. auto.
Qed.

(* what a statement of the program becomes in the placed list *)
Definition is_repeat (s : stmt) : bool := match s with Repeat _ _ | Include _ _ _ => true | _ => false end.

(* [cnt ce k]: the count expression ce of a .repeat stands for k copies.
   The two booleans: the link base has been fixed before / after the statements.  Only the `. = e` met while the
   base is not fixed becomes a silent Link (flat_base); a .link is only met then (flat_link; a second one is an
   error); later `. = e` stay skips (flat_skip).  Repeat bodies and included files (own = true) never fix the base; a file
   linked after the program file (own = false) may. *)
Definition is_base (s : stmt) : bool := match s with Link _ | Skip _ => true | _ => false end.

Inductive flat (cnt : expr -> nat -> Prop) : bool -> list stmt -> list stmt -> bool -> Prop :=
| flat_nil b : flat cnt b [] [] b
| flat_leaf b b' s r r' : is_repeat s = false -> is_base s = false -> flat cnt b r r' b' -> flat cnt b (s :: r) (s :: r') b'
| flat_link b' e r r' : flat cnt true r r' b' -> flat cnt false (Link e :: r) (Link e :: r') b'
| flat_skip b' e r r' : flat cnt true r r' b' -> flat cnt true (Skip e :: r) (Skip e :: r') b'
| flat_base b' e r r' : flat cnt true r r' b' -> flat cnt false (Skip e :: r) (Link e :: r') b'
| flat_rep b b' ce body copies r r' :
    cnt ce (length copies) ->
    Forall (fun c => flat cnt b body c b) copies -> flat cnt b r r' b' -> flat cnt b (Repeat ce body :: r) (concat copies ++ r') b'
| flat_inc b b1 b' own fid body d r r' :
    flat cnt b (cut_end body) d b1 -> (own = true -> b1 = b) -> flat cnt b1 r r' b' ->
    flat cnt b (Include own fid body :: r) (d ++ r') b'.

Lemma flat_app cnt b a a' b1 : flat cnt b a a' b1 -> forall c c' b2, flat cnt b1 c c' b2 -> flat cnt b (a ++ c) (a' ++ c') b2.
Proof.
  induction 1; intros c c' b2 Hc; simpl; try assumption; try (constructor; auto; fail).
  - rewrite <- app_assoc. constructor; auto.
  - rewrite <- app_assoc. econstructor; eauto.
Qed.

Record Ext (st st' : lstate) (d : list item) : Prop := mkExt {
  ext_chain : chain (l_addr st) d (l_addr st');
  ext_labs : forall k v, klookup k (l_labels st) = Some v -> klookup k (l_labels st') = Some v;
  ext_new : forall it, In it d -> lab_ok (l_labels st') it
}.

Lemma Ext_same st1 st2 st1' st2' d :
  l_addr st1 = l_addr st1' -> l_labels st1 = l_labels st1' ->
  l_addr st2 = l_addr st2' -> l_labels st2 = l_labels st2' ->
  Ext st1 st2 d -> Ext st1' st2' d.
Proof.
  intros A2 A3 B2 B3 [C L N]. constructor.
  - rewrite <- B2, <- A2. exact C.
  - rewrite <- B3, <- A3. exact L.
  - rewrite <- B3. exact N.
Qed.

Lemma Ext_refl st : Ext st st [].
Proof. constructor; simpl; auto. intros it []. Qed.

Lemma Ext_trans st1 st2 st3 d1 d2 : Ext st1 st2 d1 -> Ext st2 st3 d2 -> Ext st1 st3 (d1 ++ d2).
Proof.
  intros [C1 L1 N1] [C2 L2 N2]. constructor.
  - eapply chain_app; eauto.
  - auto.
  - intros it Hin. apply in_app_or in Hin. destruct Hin as [Hin|Hin]; [|auto].
    eapply lab_ok_mono; [exact L2|auto].
Qed.

Section Layout.
Variable enc : list N -> option (list Z).
Variable alldefs : list defn.
Variable allkeys : list key.
Variable exports : list (string * nat).
Variable fuel : nat.

Notation lay_leaf := (lay_leaf enc alldefs allkeys exports fuel).
Notation lay_stmt := (lay_stmt enc alldefs allkeys exports fuel).
Notation lay_list := (lay_list enc alldefs allkeys exports fuel).

(* the number of copies of a .repeat: its count expression evaluated where the layout meets it (get_as_int
   with bitness None, unsigned) *)
Definition layout_count (ce : expr) (k : nat) : Prop :=
  exists st c v v', lev enc alldefs allkeys exports fuel st c ce = XOk v /\ get_as_int None true None v = Ok v' /\ k = Z.to_nat v'.
Notation flat := (flat layout_count).

Lemma put_ext st sc s sz :
  match s with Label _ | LocalLabel _ => False | _ => True end ->
  Ext st (fst (put st sc s sz)) (snd (put st sc s sz)).
Proof.
  intros Hs. constructor; simpl; [split; [reflexivity|reflexivity] | auto | ].
  intros it [<-|[]]. unfold lab_ok; simpl. destruct s; auto; contradiction.
Qed.

(* one leaf statement places exactly one item at the running address; that item is the statement
   itself, except that the `. = e` which fixes the base is recorded as a silent Link *)
Lemma lay_leaf_ext inrep s st st' d : lay_leaf inrep s st = XOk (st', d) ->
  exists it, d = [it] /\ Ext st st' [it] /\ (i_stmt it = s \/ exists e, s = Skip e /\ i_stmt it = Link e) /\
             i_addr it = l_addr st /\ is_repeat s = false.
Proof.
  unfold Asm.lay_leaf. intros H.
  destruct s; try discriminate;
    try (cbn [sized_size] in H; xinv H; inversion H; subst; eexists; split; [reflexivity|]; split; [apply put_ext; exact I|]; simpl; auto; fail).
  - (* Label *)
    destruct inrep; [discriminate|].
    destruct (kmem (KGlobal (l_file st) name) (l_labels st) || kmem (KGlobal (l_file st) name) (l_ddots st)) eqn:E; [discriminate|].
    apply orb_false_iff in E. destruct E as [E _]. inversion H; subst.
    eexists; split; [reflexivity|]. split; [|simpl; auto].
    constructor; simpl; [split; [reflexivity|lia] | | ].
    + intros k v Hk. apply klookup_cons_other; auto.
    + intros it [<-|[]]. unfold lab_ok; simpl. rewrite Nat.eqb_refl, String.eqb_refl. reflexivity.
  - (* LocalLabel *)
    destruct inrep; [discriminate|].
    destruct (kmem (KLocal (l_file st) (l_scope st) name) (l_labels st)) eqn:E; [discriminate|].
    inversion H; subst.
    eexists; split; [reflexivity|]. split; [|simpl; auto].
    constructor; simpl; [split; [reflexivity|lia] | | ].
    + intros k v Hk. apply klookup_cons_other; auto.
    + intros it [<-|[]]. unfold lab_ok; simpl. exists (l_scope st). split; [reflexivity|].
      rewrite !Nat.eqb_refl, String.eqb_refl. reflexivity.
  - (* Assign *)
    destruct inrep; [discriminate|].
    destruct (kmem (KGlobal (l_file st) name) (l_labels st) || kmem (KGlobal (l_file st) name) (l_ddots st)); [discriminate|].
    inversion H; subst.
    eexists; split; [reflexivity|]. split; [|simpl; auto].
    constructor; simpl; [split; [reflexivity|lia] | auto | ].
    intros it [<-|[]]. exact I.
  - (* Link *)
    destruct inrep; [discriminate|]. destruct (l_inc st); [discriminate|]. destruct (l_based st); [discriminate|]. inversion H; subst.
    eexists; split; [reflexivity|]. split; [|simpl; auto].
    constructor; simpl; [split; [reflexivity|lia] | auto | ].
    intros it [<-|[]]. exact I.
  - (* Skip *)
    destruct (l_inc st); [discriminate|]. destruct (l_based st).
    + xinv H. inversion H; subst. eexists; split; [reflexivity|]. split; [apply put_ext; exact I|]. simpl; auto.
    + destruct inrep; [discriminate|]. inversion H; subst.
      eexists; split; [reflexivity|]. split; [|simpl; split; [right; eauto|auto]].
      constructor; simpl; [split; [reflexivity|lia] | auto | ].
      intros it [<-|[]]. exact I.
  - (* Extern *)
    destruct inrep; [discriminate|]. inversion H; subst. eexists; split; [reflexivity|]. split; [apply put_ext; exact I|]. simpl; auto.
  - (* ExternAll *)
    destruct inrep; [discriminate|]. inversion H; subst. eexists; split; [reflexivity|]. split; [apply put_ext; exact I|]. simpl; auto.
Qed.

Lemma stmt_ind2 (P : stmt -> Prop) :
  (forall ce body, Forall P body -> P (Repeat ce body)) ->
  (forall own fid body, Forall P body -> P (Include own fid body)) ->
  (forall s, is_repeat s = false -> P s) -> forall s, P s.
Proof.
  intros Hr Hi Ho. fix IH 1. intros s. destruct s; try (apply Ho; reflexivity).
  - apply Hr. induction body as [|x r IHr]; constructor; [apply IH | exact IHr].
  - apply Hi. induction body as [|x r IHr]; constructor; [apply IH | exact IHr].
Qed.

Lemma lay_body_eq body : forall st,
  (fix lay_body (l : list stmt) (st1 : lstate) {struct l} : lres :=
     match l with
     | [] => XOk (st1, [])
     | x :: r => xbind (lay_stmt true x st1) (fun a => xbind (lay_body r (fst a)) (fun b => XOk (fst b, snd a ++ snd b)))
     end) body st = lay_list true body st.
Proof.
  induction body as [|x r IH]; intros st; simpl; [reflexivity|].
  destruct (lay_stmt true x st); simpl; auto. rewrite IH. reflexivity.
Qed.

Lemma iter_x_ext n : forall (f g : lstate -> lres) st, (forall st, f st = g st) -> iter_x n f st = iter_x n g st.
Proof.
  induction n; intros f g st H; simpl; [reflexivity|]. rewrite H. destruct (g st); simpl; auto.
  rewrite (IHn f g _ H). reflexivity.
Qed.

Lemma lay_stmt_repeat inrep ce body st :
  lay_stmt inrep (Repeat ce body) st =
  xbind (lev enc alldefs allkeys exports fuel st (l_file st, if inrep then None else Some (l_scope st)) ce) (fun n =>
  xbind (lift (get_as_int None true None n)) (fun n' =>
  if 65536 <? n' then XErr ["value-out-of-bounds"] else iter_x (Z.to_nat n') (lay_list true body) st)).
Proof.
  cbn [Asm.lay_stmt]. destruct (lev enc alldefs allkeys exports fuel st _ ce); simpl; auto.
  destruct (lift (get_as_int None true None a)); simpl; auto.
  destruct (65536 <? a0); [reflexivity|]. apply iter_x_ext. intros st0. apply lay_body_eq.
Qed.

Lemma lay_file_eq body : forall st,
  (fix lay_file (l : list stmt) (st1 : lstate) {struct l} : lres :=
     match l with
     | [] => XOk (st1, [])
     | End :: _ => XOk (st1, [])
     | x :: r => xbind (lay_stmt false x st1) (fun a => xbind (lay_file r (fst a)) (fun b => XOk (fst b, snd a ++ snd b)))
     end) body st = lay_list false (cut_end body) st.
Proof.
  induction body as [|x r IH]; intros st; [reflexivity|].
  destruct x; try reflexivity; cbn [cut_end Asm.lay_list];
    match goal with |- xbind ?a _ = xbind ?a _ => destruct a; simpl; auto end; rewrite IH; reflexivity.
Qed.

Lemma lay_stmt_include own fid body st :
  lay_stmt false (Include own fid body) st =
  xbind (lay_list false (cut_end body)
           (mkL (l_addr st) fid 0 (l_labels st) (l_ddots st) (l_based st) (own || l_inc st))) (fun r =>
  XOk (mkL (l_addr (fst r)) (l_file st) (l_scope st) (l_labels (fst r)) (l_ddots (fst r)) (l_based (fst r)) (l_inc st), snd r)).
Proof. cbn [Asm.lay_stmt]. rewrite lay_file_eq. reflexivity. Qed.

Lemma lay_stmt_leaf inrep s st : is_repeat s = false -> lay_stmt inrep s st = lay_leaf inrep s st.
Proof. destruct s; simpl; intros H; try reflexivity; discriminate. Qed.

(* how a leaf statement moves the "base is fixed" flag *)
Lemma lay_leaf_based inrep s st st' d : lay_leaf inrep s st = XOk (st', d) ->
  l_inc st' = l_inc st /\ ((inrep = true \/ l_inc st = true) -> l_based st' = l_based st) /\
  flat (l_based st) [s] (map i_stmt d) (l_based st').
Proof.
  unfold Asm.lay_leaf. intros H.
  assert (LF : forall b s0, is_repeat s0 = false -> is_base s0 = false -> flat b [s0] [s0] b)
    by (intros; constructor; auto; constructor).
  destruct s; try discriminate;
    try (cbn [sized_size] in H; xinv H; inversion H; subst; simpl; split; [reflexivity|]; split; [reflexivity|]; apply LF; reflexivity).
  - destruct inrep; [discriminate|]. destruct (_ || _); [discriminate|]. inversion H; subst. simpl. auto.
  - destruct inrep; [discriminate|]. destruct (kmem _ _); [discriminate|]. inversion H; subst. simpl. auto.
  - destruct inrep; [discriminate|]. destruct (_ || _); [discriminate|]. inversion H; subst. simpl. auto.
  - destruct inrep; [discriminate|]. destruct (l_inc st) eqn:Ei; [discriminate|]. destruct (l_based st) eqn:Eb; [discriminate|].
    inversion H; subst. simpl. split; [congruence|]. split; [intros [?|?]; congruence|]. apply flat_link. apply flat_nil.
  - destruct (l_inc st) eqn:Ei; [discriminate|]. destruct (l_based st) eqn:Eb.
    + xinv H. inversion H; subst. simpl. split; [congruence|]. split; [auto|]. rewrite Eb. apply flat_skip. apply flat_nil.
    + destruct inrep; [discriminate|]. inversion H; subst. simpl. split; [congruence|]. split; [intros [?|?]; congruence|].
      apply flat_base. apply flat_nil.
  - destruct inrep; [discriminate|]. inversion H; subst. simpl. auto.
  - destruct inrep; [discriminate|]. inversion H; subst. simpl. auto.
Qed.

Definition stmt_ext (s : stmt) : Prop :=
  forall inrep st st' d, lay_stmt inrep s st = XOk (st', d) ->
  Ext st st' d /\ flat (l_based st) [s] (map i_stmt d) (l_based st') /\
  l_inc st' = l_inc st /\ ((inrep = true \/ l_inc st = true) -> l_based st' = l_based st).

Lemma lay_list_ext l : Forall stmt_ext l ->
  forall inrep st st' d, lay_list inrep l st = XOk (st', d) ->
  Ext st st' d /\ flat (l_based st) l (map i_stmt d) (l_based st') /\
  l_inc st' = l_inc st /\ ((inrep = true \/ l_inc st = true) -> l_based st' = l_based st).
Proof.
  induction 1 as [|x r Hx _ IH]; intros inrep st st' d H; simpl in H.
  - inversion H; subst. split; [apply Ext_refl|]. split; [constructor|]. auto.
  - xinv H. destruct a as [s1 d1]. destruct a0 as [s2 d2]. simpl in *. inversion H; subst.
    destruct (Hx _ _ _ _ Ha) as [E1 [F1 [I1 B1]]]. destruct (IH _ _ _ _ Ha0) as [E2 [F2 [I2 B2]]].
    split; [eapply Ext_trans; eauto|]. split.
    + rewrite map_app. change (x :: r) with ([x] ++ r). eapply flat_app; eauto.
    + split; [congruence|]. intros C. rewrite B2, B1; auto. destruct C; [left; assumption|right; congruence].
Qed.

Lemma iter_ext body : Forall stmt_ext body -> forall n st st' d,
  iter_x n (lay_list true body) st = XOk (st', d) ->
  l_inc st' = l_inc st /\ l_based st' = l_based st /\
  exists copies, length copies = n /\ d = concat copies /\ Ext st st' d /\
                 Forall (fun c => flat (l_based st) body (map i_stmt c) (l_based st)) copies.
Proof.
  intros Hb. induction n as [|n IH]; intros st st' d H; simpl in H.
  - inversion H; subst. split; [reflexivity|]. split; [reflexivity|]. exists []. split; [reflexivity|]. split; [reflexivity|].
    split; [apply Ext_refl|constructor].
  - xinv H. destruct a as [s1 d1]. destruct a0 as [s2 d2]. simpl in *. inversion H; subst.
    destruct (lay_list_ext _ Hb _ _ _ _ Ha) as [E1 [F1 [I1 B1]]]. specialize (B1 (or_introl eq_refl)).
    destruct (IH _ _ _ Ha0) as [I2 [B2 [cs [L [-> [E2 F2]]]]]].
    split; [congruence|]. split; [congruence|].
    exists (d1 :: cs). split; [simpl; congruence|]. split; [reflexivity|]. split; [simpl; eapply Ext_trans; eauto|].
    constructor; [rewrite B1 in F1; exact F1|]. rewrite B1 in F2. exact F2.
Qed.

Lemma map_concat {A B} (f : A -> B) (ls : list (list A)) : map f (concat ls) = concat (map (map f) ls).
Proof. induction ls; simpl; [reflexivity|]. rewrite map_app. congruence. Qed.

Lemma Forall_cut_end (P : stmt -> Prop) l : Forall P l -> Forall P (cut_end l).
Proof. induction 1 as [|x r Hx _ IH]; simpl; [constructor|]. destruct x; constructor; assumption. Qed.

Lemma lay_stmt_ext s : stmt_ext s.
Proof.
  induction s as [ce body IH | own fid body IH | s Hs] using stmt_ind2; intros inrep st st' d H.
  - rewrite lay_stmt_repeat in H. xinv H. destruct (65536 <? a0); [discriminate|].
    destruct (iter_ext _ IH _ _ _ _ H) as [I2 [B2 [cs [L [-> [E F]]]]]]. split; [exact E|]. split; [|auto].
    rewrite map_concat, B2. rewrite <- (app_nil_r (concat _)). constructor; [| |constructor].
    + rewrite map_length, L. apply lift_ok' in Ha0. eexists _, _, _, _. split; [exact Ha|]. split; [exact Ha0|reflexivity].
    + rewrite Forall_map. exact F.
  - destruct inrep; [discriminate|]. rewrite lay_stmt_include in H. xinv H. destruct a as [s1 d1]. simpl in H. inversion H; subst.
    destruct (lay_list_ext _ (Forall_cut_end _ _ IH) _ _ _ _ Ha) as [E [F [I1 B1]]]. simpl in *.
    split; [eapply Ext_same; [| | | |exact E]; reflexivity|]. split.
    + rewrite <- (app_nil_r (map i_stmt d)). econstructor; [exact F| |constructor].
      intros ->. apply B1. right. reflexivity.
    + split; [reflexivity|]. intros [C|C]; [discriminate|]. apply B1. right. rewrite C. apply orb_true_r.
  - rewrite lay_stmt_leaf in H by exact Hs.
    destruct (lay_leaf_ext _ _ _ _ _ H) as [it [-> [E _]]]. destruct (lay_leaf_based _ _ _ _ _ H) as [I1 [B1 F1]].
    split; [exact E|]. split; [exact F1|]. split; [exact I1|exact B1].
Qed.

Lemma lay_program_ext l inrep st st' d : lay_list inrep l st = XOk (st', d) ->
  Ext st st' d /\ flat (l_based st) l (map i_stmt d) (l_based st').
Proof.
  intros H. assert (F : Forall stmt_ext l) by (apply Forall_forall; intros x _; apply lay_stmt_ext).
  destruct (lay_list_ext l F _ _ _ _ H) as [E [Fl _]]. auto.
Qed.

End Layout.

(* ------------------------------------------------------------------------------------------ *)
(* the placed program as a block of Model/Block.v: every statement was deferred when its address was
   committed and announced the size the layout used *)
Definition blocks_of (items : list item) (chunks : list (list Z)) : list Block.stmt :=
  map (fun p => Block.Leaf false (Some (i_size (fst p))) (snd p)) (combine items chunks).

Lemma place_blocks items : forall a chunks e, chain a items e -> length chunks = length items ->
  Block.place_list a (blocks_of items chunks) = combine (map i_addr items) chunks.
Proof.
  induction items as [|it r IH]; intros a chunks e Hc Hl; destruct chunks as [|bs cs]; try discriminate; simpl in *.
  - reflexivity.
  - destruct Hc as [Ea Hc]. injection Hl as Hl. unfold blocks_of in IH. rewrite (IH _ _ _ Hc Hl). rewrite Ea. reflexivity.
Qed.

Lemma consistent_blocks items : forall chunks,
  Block.consistent_list (blocks_of items chunks) = forallb size_ok (combine items chunks).
Proof.
  induction items as [|it r IH]; intros [|bs cs]; simpl; try reflexivity.
  unfold blocks_of in IH. unfold Block.consistent_list in *. simpl. rewrite IH. reflexivity.
Qed.

Lemma out_blocks items : forall chunks, length chunks = length items ->
  Block.out_list (blocks_of items chunks) = concat chunks.
Proof.
  induction items as [|it r IH]; intros [|bs cs] Hl; try discriminate; simpl in *; [reflexivity|].
  injection Hl as Hl. unfold blocks_of, Block.out_list in *. simpl. rewrite IH by exact Hl. reflexivity.
Qed.

Lemma adv_blocks items : forall chunks, length chunks = length items ->
  Block.adv_list (blocks_of items chunks) = fold_right (fun it acc => i_size it + acc) 0 items.
Proof.
  induction items as [|it r IH]; intros [|bs cs] Hl; try discriminate; simpl in *; [reflexivity|].
  injection Hl as Hl. unfold blocks_of, Block.adv_list in *. simpl. rewrite IH by exact Hl. reflexivity.
Qed.

Lemma nth_error_split {A} (l : list A) : forall k x, nth_error l k = Some x -> l = firstn k l ++ x :: skipn (S k) l.
Proof.
  induction l as [|y r IH]; intros [|k] x H; simpl in *; try discriminate.
  - inversion H; reflexivity.
  - f_equal. apply IH. exact H.
Qed.

Lemma nth_error_combine {A B} (l1 : list A) : forall (l2 : list B) k a b,
  nth_error l1 k = Some a -> nth_error l2 k = Some b -> nth_error (combine l1 l2) k = Some (a, b).
Proof.
  induction l1 as [|x r IH]; intros [|y s] [|k] a b H1 H2; simpl in *; try discriminate.
  - inversion H1; inversion H2; reflexivity.
  - apply IH; assumption.
Qed.

Lemma bytes_of_firstn_combine (addrs : list Z) : forall (chunks : list (list Z)) k, length chunks = length addrs ->
  bytes_of (firstn k (combine addrs chunks)) = concat (firstn k chunks).
Proof.
  induction addrs as [|a r IH]; intros [|bs cs] [|k] Hl; try discriminate; simpl in *; try reflexivity.
  injection Hl as Hl. unfold bytes_of in *. simpl. rewrite IH by exact Hl. reflexivity.
Qed.

Lemma forallb_size_ok_nth items : forall chunks k it bs,
  forallb size_ok (combine items chunks) = true ->
  nth_error items k = Some it -> nth_error chunks k = Some bs -> i_size it = zlen bs.
Proof.
  intros chunks k it bs H H1 H2. rewrite forallb_forall in H.
  pose proof (nth_error_combine _ _ _ _ _ H1 H2) as Hn. apply nth_error_In in Hn.
  specialize (H _ Hn). unfold size_ok in H. simpl in H. apply Z.eqb_eq in H. exact H.
Qed.

(* what assemble_full = XOk means, pass by pass *)
Lemma assemble_full_inv enc p f : assemble_full enc p = XOk f ->
  let q := cut_end p in
  let alldefs := collect_defs 0 0 q in
  let allkeys := collect_keys 0 0 q in
  let exports := all_exports alldefs allkeys (collect_exports 0 q) in
  let fuel := S (length alldefs) in
  exists st dv,
    f_exports f = exports /\
    find_base enc alldefs allkeys exports fuel q = XOk (f_base f) /\
    lay_list enc alldefs allkeys exports fuel false q (mkL (f_base f) 0 0 [] [] false false) = XOk (st, f_items f) /\
    def_values enc alldefs allkeys exports fuel (l_labels st) (l_ddots st) = XOk dv /\
    f_syms f = l_labels st ++ dv /\
    xmapM (emit_item enc (f_exports f) (f_syms f)) (f_items f) = XOk (f_chunks f) /\
    forallb size_ok (combine (f_items f) (f_chunks f)) = true.
Proof.
  unfold assemble_full. intros H.
  match type of H with (if ?c then _ else _) = _ => destruct c end; [discriminate|].
  match type of H with (if ?c then _ else _) = _ => destruct c end; [discriminate|].
  xinv H.
  match type of H with (if ?c then _ else _) = _ => destruct c eqn:G end; [|discriminate].
  destruct a0 as [st items]. inversion H; subst; simpl in *. exists st, a1. auto 12.
Qed.

Theorem layout_thm enc p f : assemble_full enc p = XOk f ->
  length (f_chunks f) = length (f_items f) /\
  (exists b', flat (layout_count enc (collect_defs 0 0 (cut_end p)) (collect_keys 0 0 (cut_end p)) (f_exports f)
                      (S (length (collect_defs 0 0 (cut_end p))))) false (cut_end p) (map i_stmt (f_items f)) b') /\
  (forall k it bs, nth_error (f_items f) k = Some it -> nth_error (f_chunks f) k = Some bs ->
      i_size it = zlen bs /\
      i_addr it = f_base f + zlen (concat (firstn k (f_chunks f))) /\
      firstn (length bs) (skipn (Z.to_nat (i_addr it - f_base f)) (concat (f_chunks f))) = bs /\
      (exists tail, skipn (Z.to_nat (i_addr it - f_base f)) (concat (f_chunks f)) = bs ++ tail) /\
      lab_ok (f_syms f) it) /\
  zlen (concat (f_chunks f)) = fold_right (fun it acc => i_size it + acc) 0 (f_items f).
Proof.
  intros H. destruct (assemble_full_inv _ _ _ H) as [st [dv [Hx [Hb [Hl [Hd [Hs [He Hg]]]]]]]].
  destruct (lay_program_ext _ _ _ _ _ _ _ _ _ _ Hl) as [[C L N] F]. simpl in C.
  destruct (xmapM_nth _ _ _ He) as [Hlen _].
  pose proof (place_blocks _ _ _ _ C Hlen) as Hp.
  pose proof (consistent_blocks (f_items f) (f_chunks f)) as Hc. rewrite Hg in Hc.
  destruct (address_invariant_block _ (f_base f) Hc) as [Inv Tot].
  rewrite out_blocks in * by exact Hlen. rewrite adv_blocks in Tot by exact Hlen.
  split; [exact Hlen|]. split; [rewrite Hx; eexists; exact F|]. split; [|symmetry; exact Tot].
  intros k it bs Hk1 Hk2.
  assert (Hk3 : nth_error (map i_addr (f_items f)) k = Some (i_addr it)) by (rewrite nth_error_map, Hk1; reflexivity).
  pose proof (nth_error_combine _ _ _ _ _ Hk3 Hk2) as Hk.
  pose proof (nth_error_split _ _ _ Hk) as Sp. rewrite <- Hp in Sp at 1.
  destruct (Inv _ _ _ _ Sp) as [A1 [A2 A3]].
  rewrite bytes_of_firstn_combine in A1, A2 by (rewrite map_length; exact Hlen).
  split; [eapply forallb_size_ok_nth; eauto|]. split; [exact A1|]. split; [exact A3|]. split.
  - exists (bytes_of (skipn (S k) (combine (map i_addr (f_items f)) (f_chunks f)))).
    rewrite A2. replace (Z.to_nat (i_addr it - f_base f)) with (length (concat (firstn k (f_chunks f)))).
    + rewrite skipn_app, skipn_all, Nat.sub_diag. reflexivity.
    + rewrite A1. unfold Block.zlen, zlen. lia.
  - rewrite Hs. eapply lab_ok_mono; [intros k0 v; apply klookup_app|]. apply N.
    eapply nth_error_In; eauto.
Qed.
