(* Proofs/GenPureContextP.v -- Gen/GenPureContext.v (regenerated from pdpy11/context.py on every run by
   tools/gens/gen_pure.py) is EQUAL to the hand model Model/ContextM.v the theorems of C17 are about. *)
From Coq Require Import String List ZArith NArith Bool Lia.
From Verif Require Import Base.Res Gen.GenPure Gen.GenPureContext Model.ContextM Proofs.GenPureP.
Import ListNotations.
Open Scope list_scope.
Open Scope Z_scope.

Lemma count_is_model s ch : py_count1 s ch = count ch s.
Proof. induction s as [|x r IH]; [reflexivity|]. cbn [py_count1 count]. rewrite IH. reflexivity. Qed.

Lemma last_index_is_model ch s : forall i last, last_index_from ch s i last = rfind_from ch s i last.
Proof. induction s as [|x r IH]; intros i last; [reflexivity|]. cbn [last_index_from rfind_from]. apply IH. Qed.

Lemma rfind_is_model code pos : py_rfind1 code 10%N 0 (Z.of_nat pos) = rfind 10%N (slice code 0 pos).
Proof.
  unfold py_rfind1, rfind, slice. change 0 with (Z.of_nat 0) at 1 2.
  rewrite py_slice_nat, clamp_nat, last_index_is_model. reflexivity.
Qed.

Lemma rfind_ge code pos : -1 <= rfind 10%N (slice code 0 pos).
Proof. unfold rfind. rewrite <- last_index_is_model. apply last_index_from_ge; lia. Qed.

(* Context.__repr__: the pieces of the f-string are the file name, ":", the model's line, ":", the model's column *)
Lemma context_repr_is_model fn code pos :
  context_repr fn code (Z.of_nat pos) =
  Ok [FStr fn; FLit [58%N]; FInt (fst (repr code pos)); FLit [58%N]; FInt (snd (repr code pos))].
Proof.
  unfold context_repr, repr. cbn [fst snd].
  rewrite rfind_is_model, py_slice_upto, !count_is_model.
  pose proof (rfind_ge code pos) as G.
  set (r := rfind 10%N (slice code 0 pos)) in *.
  replace (Z.add r 1) with (Z.of_nat (Z.to_nat (r + 1))) at 2 by lia.
  rewrite py_slice_nat. reflexivity.
Qed.
