(* C05 -- Expression values follow the documented arithmetic.
   Only statements, each closed by [exact] of a lemma from Proofs/, then Print Assumptions.

   Gen.GenOperators is regenerated from pdpy11/operators.py on every run (operator table and bodies);
   Model.Lexer / Model.ExprParse are hand models of parser.number(), parser.expression() and of
   resolve(), tied to the code by the sweeps of tools/props/c05.py; Spec.Arith is the documented
   arithmetic, the C precedence table and the minimal-bracket printer, written independently. *)
From Coq Require Import String Ascii List ZArith NArith Bool.
From Verif Require Import Base.Res Spec.ExprTokens Spec.Arith Gen.GenOperators Model.Lexer Model.ExprParse
                          Model.ExprCache Proofs.C05Ops Proofs.C05Lex Proofs.C05Parse Proofs.C05Eval Proofs.C05Cache.
Import ListNotations.
Open Scope string_scope.

(* ---- (i) operators ------------------------------------------------------------------------------- *)
(* every infix operator body of operators.py computes the documented function on all of Z, and
   reports an error in exactly the documented cases (division by zero, negative << >> count, a left
   shift by more than 65536 bits is refused with 'too-complex').  The only condition: for >> the count
   is not below -65536 (there the code reports 'arithmetic-error' as documented and, going on to shift
   left by -b, refuses that too: C05_ops_agree_bin_all covers it) *)
Theorem C05_ops_agree_bin : forall (o : binop) (a b : Z), count_ok o b ->
  exists f, infix_body (binop_text o) = Some f /\ res_of (f a b) = sem_bin o a b.
Proof. exact ops_agree_bin. Qed.
Print Assumptions C05_ops_agree_bin.

(* unconditionally: the body gives the documented value, or reports every error the documentation names *)
Theorem C05_ops_agree_bin_all : forall (o : binop) (a b : Z),
  exists f, infix_body (binop_text o) = Some f /\ res_covers (res_of (f a b)) (sem_bin o a b).
Proof. exact ops_agree_bin_all. Qed.
Print Assumptions C05_ops_agree_bin_all.

Theorem C05_ops_agree_un : forall (u : unop) (a : Z),
  exists f, prefix_body (unop_text u) = Some f /\ res_of (f a) = sem_un u a.
Proof. exact ops_agree_un. Qed.
Print Assumptions C05_ops_agree_un.

(* the only exception an operator body can raise is the MemoryError by which a left shift beyond the
   bound is refused: no ZeroDivisionError, no ValueError, no float from **, no failing assert *)
Theorem C05_ops_crash_only_refusal : forall (o : binop) (a b : Z),
  exists f, infix_body (binop_text o) = Some f /\
            forall s, f a b = Crash s -> s = "MemoryError" /\ (max_shift < b)%Z.
Proof. exact ops_crash_only_refusal. Qed.
Print Assumptions C05_ops_crash_only_refusal.

(* the shift laws: within the bound << and _ multiply by 2^b exactly; beyond it they are refused *)
Theorem C05_shl_is_mul : forall a b : Z, (0 <= b <= max_shift)%Z -> sem_bin BShl a b = Ok (a * 2 ^ b)%Z.
Proof. exact shl_is_mul. Qed.
Print Assumptions C05_shl_is_mul.
Theorem C05_lsh_is_mul : forall a b : Z, (0 <= b <= max_shift)%Z -> sem_bin BLsh a b = Ok (a * 2 ^ b)%Z.
Proof. exact lsh_is_mul. Qed.
Print Assumptions C05_lsh_is_mul.
Theorem C05_shl_refused : forall a b : Z, (max_shift < b)%Z ->
  sem_bin BShl a b = Err ["too-complex"] /\ sem_bin BLsh a b = Err ["too-complex"].
Proof. exact shl_refused. Qed.
Print Assumptions C05_shl_refused.
Theorem C05_shr_is_div : forall a b : Z, (0 <= b)%Z -> sem_bin BShr a b = Ok (a / 2 ^ b)%Z.
Proof. exact shr_is_div. Qed.
Print Assumptions C05_shr_is_div.

(* the floor convention of / and %: a = b*q + r with r carrying the sign of the divisor *)
Theorem C05_div_mod_floor : forall a b q r : Z, b <> 0%Z ->
  sem_bin BDiv a b = Ok q -> sem_bin BMod a b = Ok r ->
  (a = b * q + r /\ (0 < b -> 0 <= r < b) /\ (b < 0 -> b < r <= 0))%Z.
Proof. exact div_mod_floor. Qed.
Print Assumptions C05_div_mod_floor.

(* ---- (ii) precedence, associativity, grouping ------------------------------------------------------ *)
(* the regenerated table orders every pair of infix operators like the C table, all of them are
   left-associative, and every prefix operator binds tighter than every infix operator (finite) *)
Theorem C05_table_orders_like_c : table_orders_like_c = true.
Proof. exact table_orders_like_c_true. Qed.
Print Assumptions C05_table_orders_like_c.

(* parse_print, FULL statement: for every expression tree e of any depth over all 12 infix and 4
   prefix operators, all bracket styles and all literal spellings, the model of expression() reads
   the minimal-bracket printing of e as a tree equal to e modulo grouping nodes.
   [wf [] e]: literals are well formed and no operator inside ^x...x begins with x. *)
Theorem C05_parse_print : forall e : expr, wf [] e = true ->
  exists t, parse_operand (print_min e) = POk t /\ skel_p t = Some (skel_e e).
Proof. exact parse_print. Qed.
Print Assumptions C05_parse_print.

(* ... hence to the same value: evaluating the parsed tree with the operator bodies translated from
   operators.py gives the value of Spec.Arith.eval, or reports every error the Spec names *)
Theorem C05_parse_print_value :
  forall (enc : N -> option (list N)) (encode : list N -> option (list N)),
  (forall cs, encode cs = enc_all enc cs) ->
  forall (sym : string -> option Z) (dot : Z) (e : expr),
  wf [] e = true -> no_registers e = true ->
  exists t, parse_operand (print_min e) = POk t /\
            agrees (meval encode sym dot t) (eval enc sym dot e).
Proof. exact parse_print_value. Qed.
Print Assumptions C05_parse_print_value.

(* ---- every evaluation of a token, not only the first ----------------------------------------------- *)
(* the result cache of the impure operators (/ % << >>), with the discipline translated from
   operators.wrap_impure, is transparent: for every sequence of operand values one token is evaluated
   with (copies of a .repeat body), each evaluation returns what the operator body returns *)
Theorem C05_cache_transparent : forall (invoke : list Z -> Z) (argss : list (list Z)),
  run invoke None argss = map invoke argss.
Proof. exact cache_transparent. Qed.
Print Assumptions C05_cache_transparent.

(* a cache that is not keyed on the operands is wrong after two evaluations (512/2 then 516/2) *)
Theorem C05_unkeyed_cache_refuted : forall records,
  exists invoke argss, run_with false records invoke None argss <> map invoke argss.
Proof. exact unkeyed_refuted. Qed.
Print Assumptions C05_unkeyed_cache_refuted.

(* ---- (iii) literals ---------------------------------------------------------------------------------- *)
(* every spelling (bare octal, trailing dot, 0x 0o 0b, ^X ^O ^B ^D; prefix and digits in either case)
   of every n : N is read as n, and with a minus sign in front as the single literal -n *)
Theorem C05_lex_spell : forall (st : numstyle) (neg up_prefix up_digits : bool) (n : N),
  lex_number neg (spell st up_prefix up_digits n) = LexNum (signed neg n) false false.
Proof. exact lex_spell. Qed.
Print Assumptions C05_lex_spell.

(* more generally every non-empty digit string of the radix (leading zeros included) is read by Horner's rule *)
Theorem C05_lex_spell_digits : forall st neg up_prefix up_digits (ds : list N),
  ds <> [] -> Forall (fun d => (d < style_base st)%N) ds ->
  lex_number neg (spell_digits st up_prefix up_digits ds)
  = LexNum (signed neg (horner (style_base st) ds)) false false.
Proof. exact lex_spell_digits. Qed.
Print Assumptions C05_lex_spell_digits.

(* positional notation: the digits of n evaluate to n *)
Theorem C05_horner_digits : forall base n : N, (2 <= base)%N -> horner base (digits base n) = n.
Proof. exact horner_digits. Qed.
Print Assumptions C05_horner_digits.

(* a bare digit string containing 8 or 9 is flagged so that its use is an error; with a minus sign
   the error is reported at once *)
Theorem C05_lex_bare_89 : forall neg up (ds : list N),
  ds <> [] -> Forall (fun d => (d < 10)%N) ds -> existsb (fun d => (8 <=? d)%N) ds = true ->
  lex_number neg (string_of_digits up ds) =
    if neg then LexNum (signed neg (horner 10 ds)) false true
    else LexNum (signed neg (horner 10 ds)) true false.
Proof. exact lex_bare_89_digits. Qed.
Print Assumptions C05_lex_bare_89.

(* character literals: little-endian packing of the encoded bytes; more than two bytes or an
   unencodable character is reported *)
Theorem C05_char_literal_1 : forall encode cs b0, encode cs = Some [b0] ->
  char_value encode cs = (Z.of_N b0, []).
Proof. exact char_value_1. Qed.
Print Assumptions C05_char_literal_1.

Theorem C05_char_literal_2 : forall encode cs b0 b1, encode cs = Some [b0; b1] ->
  char_value encode cs = ((Z.of_N b0 + 256 * Z.of_N b1)%Z, []).
Proof. exact char_value_2. Qed.
Print Assumptions C05_char_literal_2.

Theorem C05_char_literal_long : forall encode cs bs, encode cs = Some bs -> (2 < length bs)%nat ->
  snd (char_value encode cs) = ["too-long-string"].
Proof. exact char_value_long. Qed.
Print Assumptions C05_char_literal_long.

Theorem C05_char_literal_unencodable : forall encode cs, encode cs = None ->
  char_value encode cs = (0%Z, ["invalid-character"]).
Proof. exact char_value_unencodable. Qed.
Print Assumptions C05_char_literal_unencodable.

(* ^Rabc: the regenerated TABLE gives the standard RADIX-50 word, for one to three characters in either case *)
Theorem C05_rad50_literal : forall cs : list N, lit_ok (LRad50 cs) = true ->
  exists v, rad50_literal (rad50_string cs) = LexRad v [] /\ r50_word cs = Some v.
Proof. exact rad50_lexes. Qed.
Print Assumptions C05_rad50_literal.

(* ---- non-vacuity ------------------------------------------------------------------------------------- *)
(* a tree with three precedence levels, a non-leading prefix operator, a ^/.../ group, a negative
   hexadecimal literal and a decimal one satisfies the hypothesis of C05_parse_print *)
Definition example_tree : expr :=
  Bin BSub (Bin BSub (Sym "a") (Bin BMul (Lit (LNum true S0x true false 31)) (Un UInv (Sym "b"))))
           (Bin BShl (Group (Caret "/") (Bin BOr (Un UNeg (Lit (LNum false SDecDot false false 9))) Dot))
                     (Bin BAnd (Lit (LNum false SCB false false 5)) (Lit (LChar1 65)))).
Example C05_example_wf : wf [] example_tree = true /\ no_registers example_tree = true.
Proof. vm_compute. split; reflexivity. Qed.
Example C05_example_tokens : print_min example_tree =
  [TSym "a"; TP "-"; TP "-"; TNum "0X1f"; TP "*"; TP "("; TP "~"; TSym "b"; TP ")"; TP "-"; TP "(";
   TP "^/"; TP "-"; TP "("; TNum "9."; TP ")"; TP "|"; TDot; TP "/"; TP "<<"; TP "("; TNum "^b101"; TP "&"; TChar1 65;
   TP ")"; TP ")"].
Proof. vm_compute. reflexivity. Qed.
Example C05_example_floor : sem_bin BDiv (-7) 2 = Ok (-4)%Z /\ sem_bin BMod (-7) 2 = Ok 1%Z
  /\ sem_bin BDiv 7 (-2) = Ok (-4)%Z /\ sem_bin BMod 7 (-2) = Ok (-1)%Z /\ sem_bin BDiv 1 0 = Err ["arithmetic-error"]
  /\ sem_bin BShl 1 (-1) = Err ["arithmetic-error"] /\ sem_bin BLsh (-7) (-1) = Ok (-4)%Z.
Proof. vm_compute. repeat split; reflexivity. Qed.
(* the bound itself: 65536 bits are shifted, 65537 are refused, by the body translated from the source *)
Example C05_example_shift_bound :
  match res_of (body_lshift 1 65536) with Ok v => Z.eqb (Z.log2 v) 65536 | _ => false end = true
  /\ res_of (body_lshift 1 65537) = Err ["too-complex"]
  /\ res_of (body_lsh 0 (2 ^ 100)) = Err ["too-complex"]
  /\ res_of (body_rshift 1 (-65537)) = Err ["arithmetic-error"; "too-complex"]
  /\ MAX_SHIFT = max_shift.
Proof. vm_compute. repeat split; reflexivity. Qed.
Example C05_example_89 : lex_number false "1289" = LexNum 1289 true false /\ lex_number true "8" = LexNum (-8) false true.
Proof. vm_compute. split; reflexivity. Qed.
