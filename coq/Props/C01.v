(* C01 -- Machine-code fidelity of every instruction form.
   Only statements, each closed by [exact] of a lemma from Proofs/, then Print Assumptions.

   compile_insn  : Model/Insns.v, the model of pdpy11/insns.py over the regenerated Gen/GenOpcodes.v
   decode/expect : Spec/PDP11.v, the independent PDP-11 decoder and the meaning of a source line
   All operand values, targets and addresses are unbounded Z. *)
From Coq Require Import ZArith List String Ascii Bool.
From Verif Require Import Base.Res Spec.PDP11 Gen.GenOpcodes Model.Insns
  Proofs.InsnsCheck Proofs.InsnsP Proofs.InsnsMain Proofs.InsnsSyn Proofs.SpecPDP11P.
Import ListNotations.
Open Scope string_scope.
Open Scope list_scope.
Open Scope Z_scope.

(* every table entry expands to 16 characters over 01sSdDoOiI and stub inference succeeds with
   stubs of known shapes: none of the asserts of init() can fire *)
Theorem C01_table_wf : forall m pat, In (m, pat) opcode_table ->
  exists i, init_entry pat = Ok i /\ List.length (opcode_pattern i) = 16%nat /\
            forallb good_char (opcode_pattern i) = true /\ exists ks, shapes (stubs i) = Some ks.
Proof. exact table_wf. Qed.
Print Assumptions C01_table_wf.

(* whatever the model emits, at any address, followed by anything: the Spec decoder recovers the
   canonical operation and operands the source line denotes and consumes exactly the emitted words.
   [no_pc_autoinc]: no operand is an explicitly written (pc)+ / @(pc)+ -- see C01_pc_autoinc_partial *)
Theorem C01_encode_decode : forall m ops addr ws rest,
  compile_insn m ops addr = Ok ws -> no_pc_autoinc ops ->
  exists name sops, expect m ops addr = Some (name, sops) /\
                    decode (ws ++ rest) addr = Some (name, sops, List.length ws).
Proof. exact encode_decode. Qed.
Print Assumptions C01_encode_decode.

(* the excluded form: an explicit (pc)+ / @(pc)+ is assembled as mode 27 / 37 with no extension
   word (the programmer supplies the data word as the next statement), so "consumes exactly the
   emitted words" cannot be stated for it; only the field is *)
Theorem C01_pc_autoinc_partial : forall rel,
  enc_regmode (OAutoInc 7) rel = Ok (23, []) /\ enc_regmode (OAutoIncDef 7) rel = Ok (31, []).
Proof. exact pc_autoinc_fields. Qed.
Print Assumptions C01_pc_autoinc_partial.

(* Reading of [OAcc n]: the token acN where a floating operand / accumulator is expected, or where
   no user symbol of that name is defined.  A *defined* symbol named acN written in any other
   position is an ordinary expression and is represented as such (token_acc in Spec/PDP11.v; C01_acc_named_symbol):
   "ac0 = 5 / mov ac0, r1" is [ORel 5; OReg 1], not [OAcc 0; OReg 1].
   accepted exactly when legal: a table mnemonic with operands assembles iff the Spec gives the
   line a meaning (operand classes of the operation, registers 0..7, accumulators 0..5 resp. 0..3,
   16-bit values, inline numbers within the field, branch reach and parity) *)
Theorem C01_accepted_iff_legal : forall m pat ops addr,
  lookup_pat m opcode_table = Some pat ->
  ((exists ws, compile_insn m ops addr = Ok ws) /\ no_pc_autoinc ops) <-> (exists e, expect m ops addr = Some e).
Proof. exact accepted_iff_legal. Qed.
Print Assumptions C01_accepted_iff_legal.

(* ... and when it is not accepted the outcome is an error diagnostic, never a Python exception *)
Theorem C01_rejected_is_error : forall m ops addr,
  match compile_insn m ops addr with Ok _ | Err _ => True | _ => False end.
Proof. exact compile_no_crash. Qed.
Print Assumptions C01_rejected_is_error.

(* field_range: a value outside its field is rejected, never truncated -- for every field width *)
Theorem C01_field_range_acc : forall st n v e,
  enc_fpacc st (OAcc n) = Ok (v, e) -> 0 <= bitness st -> v = n /\ 0 <= n < 2 ^ bitness st /\ e = [].
Proof. exact field_range_acc. Qed.
Print Assumptions C01_field_range_acc.

Theorem C01_field_range_imm : forall u b x f, 0 <= b -> enc_imm u b x = Ok f ->
  (if u then 0 <= x else - 2 ^ b < x) /\ x < 2 ^ b /\ f = x mod 2 ^ b /\ 0 <= f < 2 ^ b.
Proof. exact field_range_imm. Qed.
Print Assumptions C01_field_range_imm.

Theorem C01_field_range_reg : forall r v, reg_val r = Ok v -> 0 <= r < 8 /\ v = r.
Proof. exact field_range_reg. Qed.
Print Assumptions C01_field_range_reg.

Theorem C01_field_range_word : forall x w, int16 x = Ok w -> -65536 < x < 65536 /\ w = x mod 65536.
Proof. exact field_range_word. Qed.
Print Assumptions C01_field_range_word.

(* the token acN by operand class: accumulator (shadowing a symbol of that name) in floating positions,
   the ordinary symbol everywhere else -- same meaning and same words as the bare expression *)
Theorem C01_acc_named_symbol : forall c n t addr k,
  sem_operand c (token_acc c n (Some t)) addr k =
  match c with
  | CFpRM => if (0 <=? n) && (n <=? 5) then Some (SAcc n) else None
  | CAcc => if (0 <=? n) && (n <=? 3) then Some (SAcc n) else None
  | _ => sem_operand c (ORel t) addr k
  end.
Proof. exact acc_named_symbol. Qed.
Print Assumptions C01_acc_named_symbol.

(* synonyms: same canonical operation => same words, for all operands and addresses *)
Theorem C01_synonyms : forall m m' pat pat' ops addr,
  lookup_pat m opcode_table = Some pat -> lookup_pat m' opcode_table = Some pat' ->
  plain_syn m m' -> compile_insn m ops addr = compile_insn m' ops addr.
Proof. exact synonyms_plain. Qed.
Print Assumptions C01_synonyms.

Theorem C01_push_is_mov : forall x addr, compile_insn "push" [x] addr = compile_insn "mov" [x; OAutoDec 6] addr.
Proof. exact push_is_mov. Qed.
Print Assumptions C01_push_is_mov.
Theorem C01_pop_is_mov : forall x addr, compile_insn "pop" [x] addr = compile_insn "mov" [OAutoInc 6; x] addr.
Proof. exact pop_is_mov. Qed.
Print Assumptions C01_pop_is_mov.
Theorem C01_call_is_jsr_pc : forall x addr, compile_insn "call" [x] addr = compile_insn "jsr" [OReg 7; x] addr.
Proof. exact call_is_jsr_pc. Qed.
Print Assumptions C01_call_is_jsr_pc.
Theorem C01_ret_is_rts_pc : forall addr,
  compile_insn "ret" [] addr = compile_insn "rts" [OReg 7] addr /\
  compile_insn "return" [] addr = compile_insn "rts" [OReg 7] addr.
Proof. exact ret_is_rts_pc. Qed.
Print Assumptions C01_ret_is_rts_pc.

(* distinct: equal words at the same address => same operation and operands; so mnemonics that are
   not synonyms never share an encoding *)
Theorem C01_distinct : forall m1 m2 ops1 ops2 addr ws,
  compile_insn m1 ops1 addr = Ok ws -> compile_insn m2 ops2 addr = Ok ws ->
  no_pc_autoinc ops1 -> no_pc_autoinc ops2 ->
  expect m1 ops1 addr = expect m2 ops2 addr /\ exists e, expect m1 ops1 addr = Some e.
Proof. exact distinct. Qed.
Print Assumptions C01_distinct.

(* the Spec's own table is sane: rows are pairwise disjoint and aligned, so a word inside a row's
   range is decoded as that row's operation whatever the order of the rows *)
Theorem C01_spec_rows_disjoint : forall name f base w,
  In (name, f, base) optable -> base <= w < base + fsize f ->
  exists f', decode_head w = Some (name, fields_of f' w) /\ fsize f' = fsize f /\ In (name, f', base) optable.
Proof. exact decode_head_row. Qed.
Print Assumptions C01_spec_rows_disjoint.

(* non-vacuity *)
Example C01_ex_mov : compile_insn "mov" [OImm 5; OAbs 7] 512 = Ok [5599; 5; 7]
  /\ decode [5599; 5; 7; 0] 512 = Some ("mov", [SImm 5; SAbs 7], 3%nat).
Proof. vm_compute. split; reflexivity. Qed.
Example C01_ex_rel : compile_insn "cmp" [OIndex (-2) 3; ORel 65534] 65532 = Ok [11511; 65534; 65532]
  /\ expect "cmp" [OIndex (-2) 3; ORel 65534] 65532 = Some ("cmp", [SIdx 65534 3; SRel 65534]).
Proof. vm_compute. split; reflexivity. Qed.
Example C01_ex_acc_rejected : compile_insn "ldf" [ORegDef 0; OAcc 4] 512 = Err ["invalid-addressing"]
  /\ expect "ldf" [ORegDef 0; OAcc 4] 512 = None.
Proof. vm_compute. split; reflexivity. Qed.
Example C01_ex_acc_symbol :
  (* "ac0 = 5 / mov ac0, r1": relative mode to the symbol; the real code emits c1 1d 01 fe *)
  compile_insn "mov" [token_acc CRM 0 (Some 5); OReg 1] 512 = Ok [7617; 65025]
  /\ expect "mov" [token_acc CRM 0 (Some 5); OReg 1] 512 = Some ("mov", [SRel 5; SReg 1])
  (* no such symbol: refused *)
  /\ compile_insn "mov" [token_acc CRM 0 None; OReg 1] 512 = Err ["undefined-symbol"]
  /\ expect "mov" [token_acc CRM 0 None; OReg 1] 512 = None
  (* in a floating position the accumulator wins even if a symbol ac1 exists *)
  /\ compile_insn "ldf" [token_acc CFpRM 1 (Some 5); token_acc CAcc 0 None] 512 = Ok [62721]
  /\ expect "ldf" [token_acc CFpRM 1 (Some 5); token_acc CAcc 0 None] 512 = Some ("ldf", [SAcc 1; SAcc 0])
  (* branch target / inline number named acN *)
  /\ compile_insn "br" [token_acc CBr 3 (Some 520)] 512 = Ok [259]
  /\ compile_insn "emt" [token_acc (CNum 8 true) 5 (Some 7)] 512 = Ok [34823].
Proof. vm_compute. repeat split; reflexivity. Qed.
Example C01_ex_syn : plain_syn "bcc" "bhis" /\ plain_syn "callr" "jmp" /\ plain_syn "stcdl" "stcfi".
Proof. repeat split; eexists; split; vm_compute; reflexivity. Qed.
