(* R -- whole-program relocation, byte level (removes the "partial" of Props/R.v R_relocation_partial).

   Class: [reloc_ok rest] (Model/AsmT.v), program [at_base b rest] = `.link b` followed by rest.
   Model/AsmRelocBytes.v (executable, no proofs):
     stmt_mask s          word by word from the statement's first byte: does this word hold an absolute label?
                          instruction: opcode word no; then one entry per extension word in operand order -- yes exactly for
                          an immediate #label / absolute @#label (index words, relative words, literal immediates: no);
                          .word / word list: one entry per operand, yes for a bare label; every other statement: empty
     abs_word_offsets s   the byte offsets of the yes-words inside the statement (mask_offsets 0 (stmt_mask s))
     image_offsets        the same offsets counted from the first byte of the image
     patch_bytes d mask c the bytes c with the yes-words (16-bit little-endian) replaced by (w + d) mod 2^16
     chunk_reloc d offs c c'   c and c' have the same length, agree at every byte offset outside the listed words, and
                          each listed word lies inside c and word' = (word + d) mod 2^16

   R_relocation_bytes: if the program assembles at b and at b + d (d even, both bases 16-bit) then
     (1) statement by statement (Forall3 over placed statement, its bytes at b, its bytes at b + d): chunk_reloc with the
         statically known offsets abs_word_offsets (i_stmt it) -- in particular a statement with no absolute-label
         operand (branches, sob, relative operands, literals, .byte/.dword/fills/strings/.even/.odd/insert_file) has
         byte-identical chunks;
     (2) functionally: the chunks at b + d ARE patch_chunks d of the chunks at b;
     (3) the whole image: concat of the chunks at b + d and at b are chunk_reloc for image_offsets: the same length,
         every byte offset not inside a listed absolute word identical, every listed word moved by d mod 2^16.
   Not partial with respect to the class: every statement form allowed by reloc_stmt is covered. *)
From Coq Require Import ZArith List String Ascii Bool NArith Lia.
From Verif Require Import Base.Res Spec.Arith Model.Directives Model.Asm Model.AsmT Model.AsmRelocBytes Proofs.AsmRelocBytesP.
Import ListNotations.
Notation length := Datatypes.length.
Notation concat := List.concat.
Open Scope string_scope.
Open Scope list_scope.
Open Scope Z_scope.

Theorem R_relocation_bytes : forall enc b d rest f f',
  reloc_ok rest = true -> d mod 2 = 0 -> 0 <= b < 65536 -> 0 <= b + d < 65536 ->
  assemble_full enc (at_base b rest) = XOk f -> assemble_full enc (at_base (b + d) rest) = XOk f' ->
  Forall3 (fun it c c' => chunk_reloc d (abs_word_offsets (i_stmt it)) c c') (f_items f) (f_chunks f) (f_chunks f') /\
  f_chunks f' = patch_chunks d (f_items f) (f_chunks f) /\
  chunk_reloc d (image_offsets 0 (f_items f) (f_chunks f)) (concat (f_chunks f)) (concat (f_chunks f')).
Proof. exact reloc_bytes_thm. Qed.
Print Assumptions R_relocation_bytes.

(* the functional form statement by statement, with the fact that the mask fits inside the statement's bytes *)
Theorem R_relocation_patch : forall enc b d rest f f',
  reloc_ok rest = true -> d mod 2 = 0 -> 0 <= b < 65536 -> 0 <= b + d < 65536 ->
  assemble_full enc (at_base b rest) = XOk f -> assemble_full enc (at_base (b + d) rest) = XOk f' ->
  Forall3 (fun it c c' => c' = patch_bytes d (stmt_mask (i_stmt it)) c /\ (2 * length (stmt_mask (i_stmt it)) <= length c)%nat)
          (f_items f) (f_chunks f) (f_chunks f').
Proof. exact reloc_bytes. Qed.
Print Assumptions R_relocation_patch.

(* what patch_bytes does, byte by byte (for any mask that fits) *)
Theorem R_patch_bytes_meaning : forall d mask c, (2 * length mask <= length c)%nat ->
  chunk_reloc d (mask_offsets 0 mask) c (patch_bytes d mask c).
Proof. exact patch_reloc. Qed.
Print Assumptions R_patch_bytes_meaning.

(* ---- a program of the class: the label m used absolutely (#m, @#m, .word m, word list), relatively (m as a
   relative operand, jsr to s) and labels in a branch and a sob; literals, index word, inline number, bytes, string,
   .even/.odd, double word, insert_file, fill.  Assembled at 512 and at 1536 (d = 1024): the hypotheses hold, and
   the images differ exactly in the words at image offsets 2, 8, 36, 40, 42 (high byte + 4). *)
Definition n (k : N) : expr := Lit (LNum false SBareOct false false k).
Definition ex_reloc_bytes : program :=
  [ Label "s"; Insn "mov" [AImm (Sym "m"); AReg (n 0)]; Insn "mov" [ARel (Sym "m"); AAbs (Sym "m")];
    Insn "cmp" [AImm (n 9); AIndex (n 4) (n 1)];
    LocalLabel "1"; Insn "dec" [AReg (n 0)]; Insn "bne" [ARel (Sym "1")]; Insn "sob" [AReg (n 1); ARel (Sym "1")]; Insn "emt" [ARel (n 5)];
    Insn "jsr" [AReg (n 7); ARel (Sym "s")];
    Byte [n 1; n 2; n 3]; Even; Ascii true [CStr [65%N; 66%N]]; Odd; Even;
    Label "m"; Word [Sym "s"; n 7; Sym "m"]; WordList [Sym "m"]; Dword [n 70000]; Insert [9; 9]; Blkb (n 3) ].

Example R_example_reloc_bytes :
  reloc_ok ex_reloc_bytes = true /\ 1024 mod 2 = 0 /\
  match assemble_full bk_enc (at_base 512 ex_reloc_bytes), assemble_full bk_enc (at_base (512 + 1024) ex_reloc_bytes) with
  | XOk f, XOk f' =>
      Some (map (fun it => abs_word_offsets (i_stmt it)) (f_items f), image_offsets 0 (f_items f) (f_chunks f),
            concat (f_chunks f), concat (f_chunks f'), concat (patch_chunks 1024 (f_items f) (f_chunks f)))
  | _, _ => None
  end =
  Some ([[]; []; [2]; [4]; []; []; []; []; []; []; []; []; []; []; []; []; []; [0; 4]; [0]; []; []; []],
        [2; 8; 36; 40; 42],
        [192; 21; 36; 2; 223; 29; 28; 0; 36; 2; 241; 37; 9; 0; 4; 0; 192; 10; 254; 2; 67; 126; 5; 136; 247; 9; 228; 255;
         1; 2; 3; 0; 65; 66; 0; 0; 0; 2; 7; 0; 36; 2; 36; 2; 1; 0; 112; 17; 9; 9; 0; 0; 0],
        [192; 21; 36; 6; 223; 29; 28; 0; 36; 6; 241; 37; 9; 0; 4; 0; 192; 10; 254; 2; 67; 126; 5; 136; 247; 9; 228; 255;
         1; 2; 3; 0; 65; 66; 0; 0; 0; 6; 7; 0; 36; 6; 36; 6; 1; 0; 112; 17; 9; 9; 0; 0; 0],
        [192; 21; 36; 6; 223; 29; 28; 0; 36; 6; 241; 37; 9; 0; 4; 0; 192; 10; 254; 2; 67; 126; 5; 136; 247; 9; 228; 255;
         1; 2; 3; 0; 65; 66; 0; 0; 0; 6; 7; 0; 36; 6; 36; 6; 1; 0; 112; 17; 9; 9; 0; 0; 0]).
Proof. vm_compute. repeat split; reflexivity. Qed.

(* the conclusion instantiated: the theorem applied to the example *)
Example R_example_reloc_bytes_applied : forall f f',
  assemble_full bk_enc (at_base 512 ex_reloc_bytes) = XOk f -> assemble_full bk_enc (at_base (512 + 1024) ex_reloc_bytes) = XOk f' ->
  chunk_reloc 1024 (image_offsets 0 (f_items f) (f_chunks f)) (concat (f_chunks f)) (concat (f_chunks f')).
Proof.
  intros f f' H H'.
  exact (proj2 (proj2 (R_relocation_bytes bk_enc 512 1024 ex_reloc_bytes f f' eq_refl eq_refl ltac:(lia) ltac:(lia) H H'))).
Qed.
