(* R_bytes -- every byte of the image of the reference assembler Model/Asm.v is a byte (0..255), for EVERY program
   (instructions, data directives, strings, .rad50, fills, skips, .repeat bodies, included / linked files) under the
   two side conditions of Model/AsmBytes.v:
     enc_bytes enc            the output codec only yields bytes (proved for the bk codec: R_bk_enc_bytes);
     inserts_are_bytes p      every Insert payload (insert_file: arbitrary integers in the model) is made of bytes,
                              also inside Repeat bodies and Include'd files.
   This discharges the hypothesis "Forall is_byte_z (image f)" of Props/R_container.v (R_container_*_closed).
   The hypothesis "length (image f) < 65536" of the bin / WAV containers STAYS explicit: assemble_full does not reject an
   image that runs past 0o200000 (R_image_length_not_bounded).  Only statements closed by [exact] of a lemma of
   Proofs/AsmBytesP.v. *)
From Coq Require Import ZArith List String Ascii Bool NArith.
From Verif Require Import Base.Res Base.Bytes Gen.GenBkWav Model.Formats Model.BkWav Model.OutPath
  Spec.BinFile Spec.Riff Spec.BkTape Proofs.C13Checksum
  Model.Directives Model.Asm Model.AsmBytes Proofs.AsmContainerP Proofs.AsmBytesP.
From Verif Require Spec.Arith.
Import ListNotations.
Notation length := Datatypes.length.
Open Scope list_scope.
Open Scope Z_scope.

Theorem R_image_bytes_in_range : forall enc p f, enc_bytes enc -> inserts_are_bytes p = true ->
  assemble_full enc p = XOk f -> Forall is_byte_z (concat (f_chunks f)).
Proof. exact image_bytes_in_range. Qed.
Print Assumptions R_image_bytes_in_range.

(* one statement: whatever emit_leaf produces for a statement whose Insert payload is bytes *)
Theorem R_stmt_bytes_in_range : forall enc, enc_bytes enc -> forall ev addr s bs,
  stmt_bytes s = true -> emit_leaf enc ev addr s = XOk bs -> Forall is_byte_z bs.
Proof. exact emit_leaf_B. Qed.
Print Assumptions R_stmt_bytes_in_range.

Theorem R_bk_enc_bytes : enc_bytes bk_enc.
Proof. exact bk_enc_bytes. Qed.
Print Assumptions R_bk_enc_bytes.

(* image f = concat (f_chunks f) *)
Theorem R_container_bin_closed : forall enc p f, enc_bytes enc -> inserts_are_bytes p = true ->
  assemble_full enc p = XOk f -> Z.of_nat (length (image f)) < 65536 ->
  exists file, fmt_bin (f_base f) (image f) = Ok file /\
               file = le16 (f_base f) ++ le16 (Z.of_nat (length (image f))) ++ image f /\
               parse_bin file = Some (f_base f, Z.of_nat (length (image f)), image f).
Proof. exact container_bin_closed. Qed.
Print Assumptions R_container_bin_closed.

Theorem R_container_raw_closed : forall enc p f, enc_bytes enc -> inserts_are_bytes p = true ->
  assemble_full enc p = XOk f ->
  fmt_raw (f_base f) (image f) = Ok (image f) /\ parse_raw (image f) = Some (image f).
Proof. exact container_raw_closed. Qed.
Print Assumptions R_container_raw_closed.

Theorem R_container_wav_closed : forall enc p f turbo raw, enc_bytes enc -> inserts_are_bytes p = true ->
  assemble_full enc p = XOk f -> Z.of_nat (length (image f)) < 65536 -> Forall is_byte_z raw ->
  exists file smp t,
    encode_as_wav turbo (f_base f) (image f) (fst (pad_name raw)) = Ok file /\
    parse_wav file = Some (sample_rate turbo, 1, 8, smp) /\
    demod turbo smp = Some t /\
    t_base t = f_base f /\ t_length t = Z.of_nat (length (image f)) /\ t_name t = fst (pad_name raw) /\
    t_data t = image f /\ t_checksum t = cksum_spec (image f).
Proof. exact container_wav_closed. Qed.
Print Assumptions R_container_wav_closed.

(* ---- non-vacuity: Insert at the top level, inside a .repeat body and inside an included file ------------------- *)
Definition bnum (z : Z) : Spec.Arith.expr := Spec.Arith.Lit (Spec.Arith.LNum (z <? 0) Spec.Arith.SBareOct false false (Z.abs_N z)).
Definition ex_bytes : program :=
  [Link (bnum 1024); Insn "nop" []; Insert [255; 0]; Repeat (bnum 2) [Insert [7]; Byte [bnum (-1)]];
   Include true 1 [Insert [9]; Ascii true [CStr [65%N; 66%N]]; End]; Word [bnum 258]].

(* (the predicate is conservative: it also looks at statements behind a file's .end, which are never compiled) *)
Example R_bytes_example :
  inserts_are_bytes [Insert [300]] = false /\
  inserts_are_bytes [Repeat (bnum 2) [Insert [256]]] = false /\
  inserts_are_bytes [Include true 1 [Insert [-1]]] = false /\
  inserts_are_bytes ex_bytes = true /\
  match assemble_full bk_enc ex_bytes with
  | XOk f => image f = [160; 0; 255; 0; 7; 255; 7; 255; 9; 65; 66; 0; 2; 1] /\
             forallb byte_ok (image f) = true
  | _ => False
  end.
Proof. vm_compute. repeat split; reflexivity. Qed.

(* the layout does not bound the image: 40000 words assemble, the image is 80000 bytes long *)
Example R_image_length_not_bounded :
  match assemble_full bk_enc [Blkw (bnum 40000)] with
  | XOk f => Z.of_nat (length (image f)) = 80000
  | _ => False
  end.
Proof. vm_compute. reflexivity. Qed.
