(* C10 -- spelling does not matter.  (placeholder while the proofs are being written) *)
From Coq Require Import List NArith Bool.
From Verif Require Import Model.CIDict Model.SkipWs Model.Spelling.
Import ListNotations.
Open Scope N_scope.

Theorem C10_synonyms_same_pattern : forallb same_pattern synonym_pairs = true.
Proof. vm_compute. reflexivity. Qed.
Print Assumptions C10_synonyms_same_pattern.
