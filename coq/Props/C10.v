(* C10 -- Spelling does not matter.
   Only statements, each closed by [exact] of a lemma from Proofs/, then Print Assumptions.

   PARTIAL by nature (DESIGN 4 C10): the theorems below are the per-rule lemmas on the models of
   the mechanisms that implement case / space / spelling insensitivity.  What is NOT proved is that
   the combinator parser (parser.py, 1100 lines) maps every spelling of a program to the same tree;
   that part is tied by the metamorphic correspondence on the real code (tools/props/c10.py). *)
From Coq Require Import List NArith ZArith Bool String.
From Verif Require Import Base.Res Gen.GenOpcodes Gen.GenSpelling Model.CIDict Model.SkipWs Model.Spelling
  Proofs.SpellingP Proofs.SpellingNumP Proofs.SpellingLexAgree Proofs.SpellingShared.
From Verif Require Model.Lexer Spec.Arith Model.ExprParse Model.Directives Proofs.DirectivesData.
Import ListNotations.
Open Scope N_scope.
Open Scope list_scope.

(* ---------------------------------------------------------------- CaseInsensitiveDict
   for ANY lower-casing function [low] (so also for Python's str.lower on non-ASCII) *)
Theorem C10_cidict_lookup_case :
  forall (V : Type) (low : str -> str) (k k' : str) (d : cidict V), low k = low k' ->
  (forall def, get low k def d = get low k' def d) /\ contains low k d = contains low k' d /\ getitem low k d = getitem low k' d.
Proof. exact lookup_case. Qed.
Print Assumptions C10_cidict_lookup_case.

Theorem C10_cidict_set_then_get :
  forall (V : Type) (low : str -> str) (k k' : str) (v : V) (d : cidict V), low k = low k' ->
  (forall def, get low k' def (set low k v d) = Some v) /\ contains low k' (set low k v d) = true /\ getitem low k' (set low k v d) = Some v.
Proof. exact get_after_set. Qed.
Print Assumptions C10_cidict_set_then_get.

Theorem C10_cidict_set_other_key :
  forall (V : Type) (low : str -> str) (k k' : str) (v : V) (d : cidict V), low k <> low k' ->
  (forall def, get low k' def (set low k v d) = get low k' def d) /\ contains low k' (set low k v d) = contains low k' d
  /\ getitem low k' (set low k v d) = getitem low k' d.
Proof. exact get_after_set_other. Qed.
Print Assumptions C10_cidict_set_other_key.

Theorem C10_cidict_last_set_wins :
  forall (V : Type) (low : str -> str) (k k' k'' : str) (v v' : V) (d : cidict V), low k = low k' -> low k' = low k'' ->
  getitem low k'' (set low k' v' (set low k v d)) = Some v'.
Proof. exact last_set_wins. Qed.
Print Assumptions C10_cidict_last_set_wins.

(* items() keeps the spelling of the key as last assigned, and nothing else changes *)
Theorem C10_cidict_items_keep_spelling :
  forall (V : Type) (low : str -> str) (k : str) (v : V) (d : cidict V), wf V low d ->
  forall k0 v0, In (k0, v0) (items (set low k v d)) <-> (k0, v0) = (k, v) \/ (In (k0, v0) (items d) /\ low k0 <> low k).
Proof. exact items_after_set. Qed.
Print Assumptions C10_cidict_items_keep_spelling.

(* every dictionary the code can build is well formed, and lists each folded key once *)
Theorem C10_cidict_wellformed :
  forall (V : Type) (low : str -> str),
  wf V low [] /\ (forall k v d, wf V low d -> wf V low (set low k v d)) /\ (forall l, wf V low (of_items low l))
  /\ (forall d, wf V low d -> NoDup (map low (keys d))).
Proof. exact cidict_wellformed. Qed.
Print Assumptions C10_cidict_wellformed.

(* str.lower = ASCII lower + any function on non-ASCII: flipping the case of any ASCII letters of a key is invisible *)
Theorem C10_lower_recase :
  forall (ext : N -> list N) (mask : list bool) (s : str), lower ext (recase mask s) = lower ext s.
Proof. exact lower_recase. Qed.
Print Assumptions C10_lower_recase.

(* ---------------------------------------------------------------- skip_whitespace *)
Theorem C10_skip_ws :
  forall ws, ws_run ws -> forall rest, skip (ws ++ rest) = skip rest.
Proof. exact skip_ws_prefix. Qed.
Print Assumptions C10_skip_ws.

Theorem C10_skip_idempotent : forall s, skip (skip s) = skip s.
Proof. exact skip_idempotent. Qed.
Print Assumptions C10_skip_idempotent.

(* it stops at, and never moves past, a character that is neither blank nor ';' *)
Theorem C10_skip_stops :
  (forall s c r, skip s = c :: r -> is_space c = false /\ c <> semicolon) /\
  (forall c r, is_space c = false -> c <> semicolon -> skip (c :: r) = c :: r).
Proof. exact skip_stops_both. Qed.
Print Assumptions C10_skip_stops.

(* what is skipped is blank material only (or an unclosed comment reaching the end of the text) *)
Theorem C10_skip_only_blank :
  forall s, (exists p, s = p ++ skip s /\ ws_run p)
         \/ (skip s = [] /\ exists p body, s = p ++ semicolon :: body /\ ws_run p /\ Forall (fun c => c <> newline) body).
Proof. exact skip_decompose. Qed.
Print Assumptions C10_skip_only_blank.

(* ---------------------------------------------------------------- registers (over the regenerated REGISTER_NAMES) *)
Theorem C10_register_spellings :
  forall n, n < 8 ->
  try_as_register ascii_lower_str (RSym [114; 48 + n] false) = Some (Ok n) /\      (* rN *)
  try_as_register ascii_lower_str (RSym [82; 48 + n] false) = Some (Ok n) /\       (* RN *)
  try_as_register ascii_lower_str (RPct (Z.of_N n)) = Some (Ok n).                 (* %N *)
Proof. exact register_spellings. Qed.
Print Assumptions C10_register_spellings.

Theorem C10_sp_pc_spellings :
  (forall s, In s [[115; 112]; [83; 80]; [83; 112]; [115; 80]] -> try_as_register ascii_lower_str (RSym s false) = Some (Ok 6)) /\
  (forall s, In s [[112; 99]; [80; 67]; [80; 99]; [112; 67]] -> try_as_register ascii_lower_str (RSym s false) = Some (Ok 7)) /\
  try_as_register ascii_lower_str (RSym [114; 54] false) = Some (Ok 6) /\
  try_as_register ascii_lower_str (RSym [114; 55] false) = Some (Ok 7) /\
  try_as_register ascii_lower_str (RPct 6) = Some (Ok 6) /\ try_as_register ascii_lower_str (RPct 7) = Some (Ok 7).
Proof. exact sp_pc_spellings. Qed.
Print Assumptions C10_sp_pc_spellings.

(* any re-casing of any name classifies like the name (registers and FP11 accumulators) *)
Theorem C10_register_case_irrelevant :
  (forall (low : str -> str) a b lbl, low a = low b ->
     try_as_register low (RSym a lbl) = try_as_register low (RSym b lbl) /\ try_accumulator low (RSym a lbl) = try_accumulator low (RSym b lbl)) /\
  (forall mask name lbl, try_as_register ascii_lower_str (RSym (recase mask name) lbl) = try_as_register ascii_lower_str (RSym name lbl)).
Proof. exact register_case_both. Qed.
Print Assumptions C10_register_case_irrelevant.

Theorem C10_register_tables_agree :
  map fst reg_names_insns = reg_names_parser /\ reg_names_parser = reg_names_types.
Proof. exact register_tables_agree. Qed.
Print Assumptions C10_register_tables_agree.

(* ---------------------------------------------------------------- numbers: every radix spelling of every n, any digit-case
   mask, any admissible follower, with and without a minus sign, lexes to n *)
Theorem C10_number_spellings :
  forall (st : style) (mask : nat -> bool) (n : N) (rest : str), style_ok st = true -> follow_ok rest = true ->
  lex_value (lex_number (spell st mask n ++ rest)) = Some (Z.of_N n) /\
  lex_value (lex_number (45 :: spell st mask n ++ rest)) = Some (- Z.of_N n)%Z.
Proof. exact number_spellings. Qed.
Print Assumptions C10_number_spellings.

(* the two models of parser.number() -- Model/Lexer.v (C05, token + sign) and Model/Spelling.v (C10, text with
   sign, follower, skip_whitespace, ':' look-ahead) -- agree on every ASCII token ('^' l digits, or a run of
   [A-Za-z0-9_$.]) followed by text that cannot continue it: C05_lex_spell and C10_number_spellings speak about
   one function *)
Theorem C10_lexers_agree :
  forall (neg : bool) (tok rest : str), follow_ok rest = true ->
  ((exists l ds, tok = 94 :: l :: ds /\ l < 128 /\ forallb is_tokch ds = true) \/ (tok <> [] /\ forallb is_tokch tok = true)) ->
  abs_s (lex_number (with_sign neg (tok ++ rest))) = Some (abs_l (Lexer.lex_number neg (str_of tok))).
Proof. exact lexers_agree. Qed.
Print Assumptions C10_lexers_agree.

(* ---------------------------------------------------------------- grouping: on the Spec evaluator (Spec/Arith.v) and on
   the model of resolve() over the parser's tree (Model/ExprParse.v), the ones C05 is about *)
Theorem C10_grouping_irrelevant :
  (forall enc sym dot f e, Arith.eval enc sym dot (regroup_e f e) = Arith.eval enc sym dot e) /\
  (forall enc sym dot e, Arith.eval enc sym dot (ungroup_e e) = Arith.eval enc sym dot e) /\
  (forall encode sym dot f t, ExprParse.meval encode sym dot (regroup_p f t) = ExprParse.meval encode sym dot t).
Proof. exact grouping_shared. Qed.
Print Assumptions C10_grouping_irrelevant.

Theorem C10_group_operand_irrelevant :
  forall (low : str -> str) br br' t, as_reg low t = None ->
  e_mode (classify low (OParen br t)) = e_mode (classify low (OParen br' t)) /\
  e_reg (classify low (OParen br t)) = e_reg (classify low (OParen br' t)) /\
  e_mode (classify low (OParen br t)) = 6 /\ e_reg (classify low (OParen br t)) = Ok 7.
Proof. exact group_operand_irrelevant. Qed.
Print Assumptions C10_group_operand_irrelevant.

(* ---------------------------------------------------------------- '(rN)' versus '@rN' *)
Theorem C10_legacy_deferred_same_mode :
  forall (low : str -> str) t r, as_reg low t = Some r ->
  classify low (OParen BParen t) = enc 1 r XNone [] /\
  classify low (ODeferred t) = enc 1 r XNone ["legacy-deferred"%string].
Proof. exact legacy_deferred_same_mode. Qed.
Print Assumptions C10_legacy_deferred_same_mode.

(* ---------------------------------------------------------------- synonyms, in the regenerated opcode table *)
Theorem C10_synonyms_same_pattern :
  forall a b, In (a, b) synonym_pairs -> exists p, pattern_of (s2n a) = Some p /\ pattern_of (s2n b) = Some p.
Proof. exact synonyms_same_pattern. Qed.
Print Assumptions C10_synonyms_same_pattern.

Theorem C10_mnemonic_case_irrelevant :
  forall mask m, pattern_of (recase mask m) = pattern_of m.
Proof. exact pattern_case_irrelevant. Qed.
Print Assumptions C10_mnemonic_case_irrelevant.

(* ---------------------------------------------------------------- '.word a, b' versus implicit list, on Model/Directives
   (the model of C06): same diagnostics and bytes for every non-empty list, all values (also out of range) and
   all addresses (also odd), and the same announced size *)
Theorem C10_word_list_same :
  forall enc (vs : list Z) (addr : Z), vs <> [] ->
  Directives.emit enc (Directives.DWordList vs) addr = Directives.emit enc (Directives.DMeta ".word" (DirectivesData.plain vs)) addr /\
  Directives.announced (Directives.DWordList vs) = Directives.announced (Directives.DMeta ".word" (DirectivesData.plain vs)).
Proof. exact word_list_same_directives. Qed.
Print Assumptions C10_word_list_same.

(* ---------------------------------------------------------------- non-vacuity *)
Example C10_ex_dict :            (* 'SP' set, 'sp' read, 'Sp' overwrites, items keeps 'Sp' *)
  let d := set ascii_lower_str [83; 112] 2 (set ascii_lower_str [83; 80] 1 []) in
  getitem ascii_lower_str [115; 112] d = Some 2 /\ items d = [([83; 112], 2)].
Proof. vm_compute. split; reflexivity. Qed.

Example C10_ex_skip :            (* "  ; c\n\t;;\n x" -> "x" *)
  skip [32; 32; 59; 32; 99; 10; 9; 59; 59; 10; 32; 120] = [120] /\
  ws_run [32; 32; 59; 32; 99; 10; 9; 59; 59; 10; 32].
Proof.
  split; [vm_compute; reflexivity|].
  apply ws_blank; [reflexivity|]. apply ws_blank; [reflexivity|].
  apply (ws_comment [32; 99]); [repeat constructor; discriminate|].
  apply ws_blank; [reflexivity|].
  apply (ws_comment [59]); [repeat constructor; discriminate|].
  apply ws_blank; [reflexivity|]. constructor.
Qed.

Example C10_ex_numbers :         (* 0xAbC, ^xaBc, 5274 , 2748. , 0B101010111100 followed by ", " all denote 2748 *)
  map (fun st => lex_value (lex_number (spell st Nat.even 2748 ++ [44; 32]))) [SC 120; SCaret 120; SOct; SDec; SC 66]
  = [Some 2748%Z; Some 2748%Z; Some 2748%Z; Some 2748%Z; Some 2748%Z]
  /\ spell (SC 120) Nat.even 2748 = [48; 120; 65; 98; 67] /\ follow_ok [44; 32] = true.
Proof. vm_compute. repeat split; reflexivity. Qed.

Example C10_ex_legacy :          (* (R3) and @r3 *)
  e_mode (classify ascii_lower_str (OParen BParen (OReg (RSym [82; 51] false)))) = 1 /\
  e_reg (classify ascii_lower_str (ODeferred (OReg (RSym [114; 51] false)))) = Ok 3 /\
  e_mode (classify ascii_lower_str (OParen BAngle (OReg (RSym [114; 51] false)))) = 6.
Proof. vm_compute. repeat split; reflexivity. Qed.

Example C10_ex_synonym : pattern_of (s2n "BHIS") = Some "103[0oo]oo"%string /\ pattern_of (s2n "bcc") = Some "103[0oo]oo"%string.
Proof. vm_compute. split; reflexivity. Qed.

Example C10_ex_lexers :          (* "-0X1f" then ", x" : both models read -31 *)
  abs_s (lex_number (with_sign true ([48; 88; 49; 102] ++ [44; 32; 120]))) = Some (ANum (-31) false false) /\
  abs_l (Lexer.lex_number true (str_of [48; 88; 49; 102])) = ANum (-31) false false.
Proof. vm_compute. split; reflexivity. Qed.

Example C10_ex_word_list :       (* at an odd address, with an out-of-range-free list *)
  Directives.emit Directives.bk_enc (Directives.DWordList [1; -2]%Z) 513%Z
  = Directives.emit Directives.bk_enc (Directives.DMeta ".word" (DirectivesData.plain [1; -2]%Z)) 513%Z.
Proof. vm_compute. reflexivity. Qed.

Example C10_ex_grouping :        (* (1 + 2) * 3 with ( ) restyled to < > *)
  regroup_e (fun _ => Arith.Angle) (Arith.Bin Arith.BMul (Arith.Group Arith.Paren (Arith.Bin Arith.BAdd Arith.Dot Arith.Dot)) Arith.Dot)
  = Arith.Bin Arith.BMul (Arith.Group Arith.Angle (Arith.Bin Arith.BAdd Arith.Dot Arith.Dot)) Arith.Dot.
Proof. reflexivity. Qed.
