(* Props/T_listing2.v -- the WHOLE of Compiler.generate_listing translated from pdpy11/compiler.py (Gen/GenPure3Listing.v,
   regenerated on every run by tools/gens/gen_pure3.py: the grouping loop over self.symbols.items(), the
   labels.sort(key=lambda item: (item[1], item[0])) and the line-formatting loops) EQUALS the hand model
   Model/ListingM.v generate_listing, the function every C19 theorem is about.  Only statements, each closed by
   [exact] of a lemma of Proofs/TListing2P.v, then Print Assumptions.

   [conv_pm]: internal_prefix_to_state reduced to prefix -> state["filename"], keys as Python ints.
   Python's list.sort(key=K) is read as py3_sort (Gen/GenPure3.v: the stable insertion sort by K under "<" on int /
   str / tuples); the key function and the comparison are translated from the lambda. *)
From Coq Require Import String Ascii List ZArith NArith Bool Sorting.Sorted Sorting.Permutation.
From Verif Require Import Base.Res Gen.GenPure3 Gen.GenPure3Listing Spec.Listing Model.ListingM Proofs.ListingP Proofs.TListing2P.
Import ListNotations.
Open Scope list_scope.
Open Scope Z_scope.

(* the translated function is the model, for every symbol table and prefix map: same text, same exception site *)
Theorem T_generate_listing_is_model : forall tbl pm,
  g_generate_listing tbl (conv_pm pm) = ListingM.generate_listing tbl pm.
Proof. exact generate_listing_is_model. Qed.
Print Assumptions T_generate_listing_is_model.

(* loop by loop: grouping by file = collect *)
Theorem T_listing_grouping_loop : forall pm tbl gs,
  g_generate_listing_for1 (conv_pm pm) gs tbl = collect tbl pm gs.
Proof. exact for1_is_collect. Qed.
Print Assumptions T_listing_grouping_loop.

(* the line loop of one file = emit_lines; never raises *)
Theorem T_listing_line_loop : forall labels result,
  g_generate_listing_for3 result labels = Ok (emit_lines result labels).
Proof. exact for3_is_emit_lines. Qed.
Print Assumptions T_listing_line_loop.

(* the loop over the files: header, SORTED labels, lines, blank line *)
Theorem T_listing_file_loop : forall gs result,
  g_generate_listing_for2 result gs =
  Ok (fold_left (fun res g => emit_lines (res ++ (fst g ++ nlc)) (ListingM.sort (snd g)) ++ nlc)%string gs result).
Proof. exact for2_is_emit. Qed.
Print Assumptions T_listing_file_loop.

(* the sort as translated (key and comparison from the lambda) is the model's sort, the one of C19_sort_correct *)
Theorem T_listing_sort_is_model : forall l,
  py3_sort (py3_pair_ltb Z.ltb Z.eqb py3_str_ltb) (fun it : string * Z => (snd it, fst it)) l = ListingM.sort l.
Proof. exact translated_sort_is_model. Qed.
Print Assumptions T_listing_sort_is_model.

(* reading list.sort as py3_sort assumes of Python's sort only that its result is a permutation sorted by the key:
   the key (value, name) orders the items themselves totally, so ANY sorted permutation (Spec order line_le on
   (value, name)), stable or not, is the model's sort *)
Theorem T_sort_unique : forall l l' : list item,
  Permutation l' l -> Sorted line_le (map swap l') -> l' = ListingM.sort l.
Proof. exact sort_unique. Qed.
Print Assumptions T_sort_unique.

(* the value column as translated here (byte strings) is fmt_value, for every integer *)
Theorem T_listing_value_column : forall v,
  ((if Z.ltb v 0 then "-" else "") ++ py3_rjust (py3_drop (py3_oct (Z.abs v)) 2) 6 "0"%char)%string = fmt_value v.
Proof. exact value_column_is_model. Qed.
Print Assumptions T_listing_value_column.

(* the generated function runs: two files, ties on the value broken by name, a negative value, a local label skipped,
   an unknown prefix *)
Example T_ex_generate_listing :
  g_generate_listing [(".internal1.b", 8); (".internal2.x", -1); (".local3.l", 5); (".internal1.a", 8); (".internal1.c", 2)]%string
                     [(1, "f.mac"); (2, "g.mac")]%string
  = Ok ("f.mac" ++ nlc ++ "000002 c" ++ nlc ++ "000010 a" ++ nlc ++ "000010 b" ++ nlc ++ nlc
        ++ "g.mac" ++ nlc ++ "-000001 x" ++ nlc ++ nlc)%string
  /\ is_crash (g_generate_listing [(".internal7.a", 1)]%string [(1, "f.mac")]%string) = true
  /\ is_crash (g_generate_listing [(".internalx.a", 1)]%string [(1, "f.mac")]%string) = true.
Proof. repeat split; reflexivity. Qed.
