(* Props/T.v -- translated code equals the hand-written models: index, and the theorems about the translator's prelude.

   tools/gens/gen_pure.py (fail closed) regenerates Gen/GenPure{Insns,Context,Rad50,Directives,Listing}.v from the `ast`
   of the Python source on every run; Gen/GenPure.v is its constant prelude (the meaning given to Python's operators,
   slices, str.count / rfind / index / ljust / rjust, oct, struct.pack, reports.error).  Each theorem
   T_<function>_is_model of Props/T_<group>.v says that a generated function IS the hand model the property theorems are
   stated about, for all inputs; so those theorems rest on the translated text of the function, not only on a model tied
   by sweeps: an edit of the Python function changes the generated term and breaks the equality (or aborts the
   translator).  tools/t_check.py cross-checks the translator itself: the generated functions against the real Python
   functions driven directly (Run/TRun*.v).

   Props file      generated function    Python source                                          hand model (coq/Model/*.v)        property theorems that thereby rest on translated code
   --------------  --------------------  -----------------------------------------------------  --------------------------------  -------------------------------------------------------
   T_insns.v       offset_fn             insns.py OffsetOperandStub.encode: def fn()             Insns: enc_offset            C04 branch_hits sob_hits branch/sob_accept_iff no_wrap_* operand_hits_anywhere; C01
                   imm_fn                insns.py ImmediateOperandStub.encode: def fn()          Insns: enc_imm               C01 (immediates of mark / emt / trap / spl ...)
                   rel_word_67/_77       insns.py RegisterModeOperandStub.encode: the lambdas    Insns: enc_rel               C04 relative_hits relative_deferred_hits (deferred_)operand_hits_anywhere; C01
                                         of `return 0o67, ...` and `return 0o77, ...`
                   rel_address_of        insns.py Instruction.compile_insn: "rel_address": ...   Insns: enc_operands          C04 relative_hits (addr + 2 + 2k) operand_hits_anywhere; C01; C02 (sizes)
   T_context.v     context_repr          context.py Context.__repr__                             ContextM: repr               C17 linecol_agrees inside_file start_le_end bare_format
   T_rad50.v       TABLE encode_char     radix50.py TABLE, encode_char, pack_to_int              Rad50: encode_char,          C15 literal literal_class literal_bad_length pack_unpack alphabet
                   pack_to_int                                                                   pack_to_int (over rad50_table)
                   rad50_word            metacommands.py rad50: struct.pack("<H", a*1600+b*40+c) Rad50: pack_words            C15 rad50_directive rad50_string pack_unpack
   T_directives.v  encode_i32            metacommands.py dword: def encode_i32(value)            Directives: encode_i32       C06 byte_word_dword data_out_of_range
                   dword_prefix          metacommands.py dword: odd-address test + prefix        Directives: odd_prefix       C06 data_odd_address data_empty_odd_address byte_word_dword; C02
                   word_prefix           metacommands.py word: the same two statements           (in dword_body / word_body /
                   word_list_prefix      compiler.py compile_word_list.fn: the same              word_list)                        C06 word_list
                   word_list_size        compiler.py compile_word_list: 2 * len(insn_words)      Directives: announced        C06 announce_eq_emit; C02
   T_listing.v     listing_value         compiler.py generate_listing: ("-" if value < 0 else    ListingM: fmt_value          C19 octal_roundtrip octal_field_canonical model_meets_spec
                                         "") + oct(abs(value))[2:].rjust(6, "0")

   NOT translated (still hand-modelled and tied by correspondence sweeps / shape pins): everything else of those
   functions' surroundings -- operand classification, get_opcode, the loops of rad50 / generate_listing / byte / word /
   dword over their operands, get_as_str, sorting.

   Below: what the prelude's list functions mean, against facts of Coq's List library (they are constant text, but
   every equality above is relative to them).  Only statements, each closed by [exact] of a lemma of
   Proofs/GenPureP.v, then Print Assumptions. *)
From Coq Require Import String List ZArith NArith Bool.
From Verif Require Import Base.Res Gen.GenPure Proofs.GenPureP.
Import ListNotations.
Open Scope list_scope.
Open Scope Z_scope.

(* s[a:b] for non-negative bounds is skipn a (firstn b s): both ends clamp, an empty range is empty *)
Theorem T_py_slice_nat : forall (A : Type) (s : list A) a b,
  py_slice s (Some (Z.of_nat a)) (Some (Z.of_nat b)) = skipn a (firstn b s).
Proof. exact @py_slice_nat. Qed.
Print Assumptions T_py_slice_nat.

Theorem T_py_slice_upto : forall (A : Type) (s : list A) b, py_slice s None (Some (Z.of_nat b)) = firstn b s.
Proof. exact @py_slice_upto. Qed.
Print Assumptions T_py_slice_upto.

Theorem T_py_slice_from : forall (A : Type) (s : list A) a, py_slice s (Some (Z.of_nat a)) None = skipn a s.
Proof. exact @py_slice_from. Qed.
Print Assumptions T_py_slice_from.

(* s.count(ch) is List.count_occ *)
Theorem T_py_count1_count_occ : forall s ch, py_count1 s ch = Z.of_nat (count_occ N.eq_dec s ch).
Proof. exact py_count1_count_occ. Qed.
Print Assumptions T_py_count1_count_occ.

(* s.rfind(ch, a, b): -1 iff ch is not in s[a:b], otherwise the greatest index k with a <= k < b and s[k] = ch *)
Theorem T_py_rfind1_spec : forall s ch a b,
  let r := py_rfind1 s ch (Z.of_nat a) (Z.of_nat b) in
  (r = -1 /\ ~ In ch (skipn a (firstn b s))) \/
  (exists k, r = Z.of_nat k /\ (a <= k < b)%nat /\ nth_error s k = Some ch /\
             forall j, (k < j < b)%nat -> nth_error s j <> Some ch).
Proof. exact py_rfind1_spec. Qed.
Print Assumptions T_py_rfind1_spec.

(* s.index(ch): the first position, ValueError (Crash) iff ch does not occur *)
Theorem T_py_index1_spec : forall s ch site,
  match py_index1 s ch site with
  | Ok r => exists k, r = Z.of_nat k /\ nth_error s k = Some ch /\ forall j, (j < k)%nat -> nth_error s j <> Some ch
  | Crash x => x = site /\ ~ In ch s
  | _ => False
  end.
Proof. exact py_index1_spec. Qed.
Print Assumptions T_py_index1_spec.

(* the partial integer operations raise exactly in the documented case *)
Theorem T_py_partial_ops : forall a b,
  (b <> 0 -> py_mod a b = Ok (a mod b) /\ py_floordiv a b = Ok (a / b)) /\
  (0 <= b -> py_pow a b = Ok (a ^ b) /\ py_lshift a b = Ok (Z.shiftl a b) /\ py_rshift a b = Ok (Z.shiftr a b)) /\
  (b = 0 -> py_mod a b = Crash "ZeroDivisionError" /\ py_floordiv a b = Crash "ZeroDivisionError") /\
  (b < 0 -> is_crash (py_pow a b) = true /\ is_crash (py_lshift a b) = true /\ is_crash (py_rshift a b) = true).
Proof. exact py_partial_ops. Qed.
Print Assumptions T_py_partial_ops.

Example T_ex_prelude :
  py_slice [1; 2; 3; 4] (Some (-3)) (Some 9) = [2; 3; 4] /\ py_slice [1; 2; 3] (Some 2) (Some 1) = []
  /\ py_rfind1 [10; 7; 10; 7]%N 10%N 0 2 = 0 /\ py_rfind1 [10; 7; 10; 7]%N 10%N 0 (-1) = 2 /\ py_rfind1 [7]%N 10%N 0 1 = -1
  /\ py_oct (-8) = [45; 48; 111; 49; 48]%N /\ py_rjust [49]%N 3 48%N = [48; 48; 49]%N /\ py_ljust [49]%N 0 32%N = [49]%N.
Proof. repeat split; reflexivity. Qed.
