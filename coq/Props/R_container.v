(* R_container -- C13 (output containers carry exactly the image) on the whole-program reference assembler
   Model/Asm.v: the image of every program that assembles, put into the bin / raw / WAV containers by the models of
   formats.py and bk_wav.py, is read back by the independent Specs (BinFile, Riff + BkTape) as exactly
   (base, length, tape name, image, checksum).  Only statements closed by [exact] of a lemma of Proofs/AsmContainerP.v.

   Side conditions of C13: 0 <= base < 2^16 is discharged from R (R_base_range).  "every image byte is in 0..255" and
   "the image is shorter than 2^16" are NOT guaranteed by R and stay explicit hypotheses: an inserted file's bytes
   (Insert) are arbitrary integers in the model (R_image_bytes_not_guaranteed), and the layout does not bound the length. *)
From Coq Require Import ZArith List String Ascii Bool NArith.
From Verif Require Import Base.Res Base.Bytes Gen.GenBkWav Model.Formats Model.BkWav Model.OutPath
  Spec.BinFile Spec.Riff Spec.BkTape Proofs.C13Checksum
  Model.Directives Model.Asm Proofs.AsmContainerP.
From Verif Require Spec.Arith.
Import ListNotations.
Notation length := Datatypes.length.
Open Scope list_scope.
Open Scope Z_scope.

(* image f = concat (f_chunks f) *)
Theorem R_container_bin : forall enc p f, assemble_full enc p = XOk f ->
  Forall is_byte_z (image f) -> Z.of_nat (length (image f)) < 65536 ->
  exists file, fmt_bin (f_base f) (image f) = Ok file /\
               file = le16 (f_base f) ++ le16 (Z.of_nat (length (image f))) ++ image f /\
               parse_bin file = Some (f_base f, Z.of_nat (length (image f)), image f).
Proof. exact container_bin. Qed.
Print Assumptions R_container_bin.

Theorem R_container_raw : forall enc p f, assemble_full enc p = XOk f ->
  fmt_raw (f_base f) (image f) = Ok (image f) /\
  (Forall is_byte_z (image f) -> parse_raw (image f) = Some (image f)).
Proof. exact container_raw. Qed.
Print Assumptions R_container_raw.

(* standard and turbo; [raw]: the encoded tape name before padding / cutting to 16 bytes *)
Theorem R_container_wav : forall enc p f turbo raw, assemble_full enc p = XOk f ->
  Forall is_byte_z (image f) -> Z.of_nat (length (image f)) < 65536 -> Forall is_byte_z raw ->
  exists file smp t,
    encode_as_wav turbo (f_base f) (image f) (fst (pad_name raw)) = Ok file /\
    parse_wav file = Some (sample_rate turbo, 1, 8, smp) /\
    demod turbo smp = Some t /\
    t_base t = f_base f /\ t_length t = Z.of_nat (length (image f)) /\ t_name t = fst (pad_name raw) /\
    t_data t = image f /\ t_checksum t = cksum_spec (image f).
Proof. exact container_wav. Qed.
Print Assumptions R_container_wav.

(* ---- non-vacuity, and why the byte hypothesis is needed ------------------------------------------------------- *)
Definition cnum (z : Z) : Spec.Arith.expr := Spec.Arith.Lit (Spec.Arith.LNum (z <? 0) Spec.Arith.SBareOct false false (Z.abs_N z)).
Definition ex_cont : program := [Link (cnum 1024); Insn "nop" []; Word [cnum 258]; Label "e"].

Example R_container_example :
  match assemble_full bk_enc ex_cont with
  | XOk f =>
      f_base f = 1024 /\ image f = [160; 0; 2; 1] /\
      fmt_bin (f_base f) (image f) = Ok [0; 4; 4; 0; 160; 0; 2; 1] /\
      parse_bin [0; 4; 4; 0; 160; 0; 2; 1] = Some (1024, 4, [160; 0; 2; 1]) /\
      parse_raw (image f) = Some [160; 0; 2; 1] /\
      forallb (fun b => (0 <=? b) && (b <? 256)) (image f) = true
  | _ => False
  end.
Proof. vm_compute. repeat split; reflexivity. Qed.
(* the WAV hypotheses on a concrete image are exercised by C13_roundtrip_example (Props/C13.v) *)

(* an inserted file is a list of integers in the model: R alone does not make every image byte a byte *)
Example R_image_bytes_not_guaranteed :
  assemble bk_enc [Insert [300]] = XOk (512, [300], []).
Proof. vm_compute. reflexivity. Qed.
