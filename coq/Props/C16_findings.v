(* C16 findings -- witnesses, not obligations of the check.

   1. KNOWN FINDING (signature end-inside-repeat): '.end' inside a '.repeat' body only ends that
      copy of the body, because compile_block catches CompilerStopIteration for EVERY block.  The
      full statement of repeat_unroll (without [no_end_in_body]) is therefore false of the faithful
      model, as it is of the code:
          .repeat 2 { .word 1 / .end / .word 2 }        gives   01 00 01 00
          .word 1 / .end / .word 2 / .word 1 / ...      gives   01 00
   2. FIXED (commit 95bc3ec): before the fix the operand left in the instruction was the hoisted
      tree, whose shape differs from the parsed operand; witness that hoisting changes the shape. *)
From Coq Require Import ZArith List String Bool.
From Verif Require Import Base.Res Model.TreeCache Proofs.TreeCacheP.
Import ListNotations.
Open Scope string_scope.
Open Scope Z_scope.

Definition repeat_unroll_full : Prop :=
  forall f env n body a,
    coh_block false body ->
    outcome_of (repeat_model (S f) env n body a) = outcome_of (unrolled (S f) env n body a).

Definition w (v : Z) : item := IWord [Num "n" v true false false].

Theorem repeat_unroll_full_refuted : ~ repeat_unroll_full.
Proof.
  intros H.
  specialize (H 0%nat (fun _ => None) 2%nat [w 1; IEnd; w 2] 512).
  assert (C : coh_block false [w 1; IEnd; w 2]) by (apply coh_block_fresh; reflexivity).
  specialize (H C). vm_compute in H. discriminate.
Qed.
Print Assumptions repeat_unroll_full_refuted.

Example end_in_body_images :
  outcome_of (repeat_model 1 (fun _ => None) 2 [w 1; IEnd; w 2] 512) = OOk [1; 0; 1; 0]
  /\ outcome_of (unrolled 1 (fun _ => None) 2 [w 1; IEnd; w 2] 512) = OOk [1; 0].
Proof. split; vm_compute; reflexivity. Qed.

(* what the pre-fix RegisterModeOperandStub.encode left in insn.operands: the hoisted tree *)
Example prefix_hoist_changed_the_operand :
  let t := Infix "+" (Sym "a" false) (Call (Num "2" 2 true false false) (Sym "r0" false) None) None in
  strip (hoist t) <> strip t.
Proof. simpl. discriminate. Qed.
