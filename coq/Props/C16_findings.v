(* C16 findings -- witnesses, not obligations of the check.

   1. KNOWN FINDING (signature end-inside-repeat): '.end' inside a '.repeat' body only ends that
      copy of the body, because compile_block catches CompilerStopIteration for EVERY block.  The
      full statement of repeat_unroll (without [no_end_in_body]) is therefore false of the faithful
      model, as it is of the code:
          .repeat 2 { .word 1 / .end / .word 2 }        gives   01 00 01 00
          .word 1 / .end / .word 2 / .word 1 / ...      gives   01 00
   2. SENSITIVITY (both FIXED in /repo: commits 95bc3ec and 731b140): the two mechanisms as they
      were before the fixes, as variants of the model, and the refutation of repeat_unroll for each:
        old_hoist: RegisterModeOperandStub.encode rewrote the shared operand in place, so what
                   stayed in insn.operands was the hoisted offset expression ('a+2(r0)' became
                   'a+2'): the second copy of  .repeat 2 { mov a+2(r0), r1 }  is relative mode;
        old_cache: resolve() returned expr.value whenever it was set, whatever the operands:
                   .repeat 3 { .word ./2 }  emits the first copy's value three times.
      With both flags off the variant model is the model of Model/TreeCache.v on the witnesses. *)
From Coq Require Import ZArith List String Bool.
From Verif Require Import Base.Res Base.Bytes Model.TreeCache Proofs.TreeCacheP.
From Verif Require Gen.GenOperators Gen.GenGetAsInt.
Import ListNotations.
Open Scope string_scope.
Open Scope list_scope.
Open Scope Z_scope.

(* ---------------------------------------------------------------------------------------------- *)
(* 1. '.end' inside the body *)
Definition repeat_unroll_full : Prop :=
  forall f env n body a,
    coh_block false body ->
    outcome_of (repeat_model None (S f) env n body a 0) = outcome_of (unrolled None (S f) env n body a 0).

Definition w (v : Z) : item := IWord [Num "n" v true false false].

Theorem repeat_unroll_full_refuted : ~ repeat_unroll_full.
Proof.
  intros H.
  specialize (H 0%nat (fun _ => None) 2%nat [w 1; IEnd; w 2] 512).
  assert (C : coh_block false [w 1; IEnd; w 2]) by (apply coh_block_fresh; reflexivity).
  specialize (H C). vm_compute in H. discriminate.
Qed.
Print Assumptions repeat_unroll_full_refuted.

Example end_in_body_images :
  outcome_of (repeat_model None 1 (fun _ => None) 2 [w 1; IEnd; w 2] 512 0) = OOk [1; 0; 1; 0]
  /\ outcome_of (unrolled None 1 (fun _ => None) 2 [w 1; IEnd; w 2] 512 0) = OOk [1; 0].
Proof. split; vm_compute; reflexivity. Qed.

(* 1b. the repetition budget (commit 5b48d07) is a real side condition of repeat_unroll: without the
   [within] hypotheses the statement is false of the budgeted model, as of the code --
   '.repeat 65537 { .byte 7 }' is refused, 65537 lines '.byte 7' assemble.  Witness with budget 3. *)
Definition repeat_unroll_ignoring_budget : Prop :=
  forall m f env n body a c,
    has_end body = false -> coh_block false body ->
    outcome_of (repeat_model (Some m) (S f) env n body a c) = outcome_of (unrolled (Some m) (S f) env n body a c).

Theorem repeat_unroll_ignoring_budget_refuted : ~ repeat_unroll_ignoring_budget.
Proof.
  intros H.
  specialize (H 3 0%nat (fun _ => None) 4%nat [IByte [Num "7" 7 true false false]] 512 0 eq_refl
                (coh_block_fresh false _ eq_refl)).
  vm_compute in H. discriminate.
Qed.
Print Assumptions repeat_unroll_ignoring_budget_refuted.

(* ---------------------------------------------------------------------------------------------- *)
(* 2. the pre-fix mechanisms *)
Section Variant.
  Variable old_cache : bool.     (* a set expr.value is returned without looking at the operands *)
  Variable old_hoist : bool.     (* the operand left in the instruction is the hoisted offset expression *)

  Definition use_cache_v (pure : bool) (c : cache) (args : list Z) (invoke : list Z -> res GenOperators.opres)
    : res (Z * cache * list string) :=
    if old_cache && negb pure then
      match c with
      | Some (_, v0) => Ok (v0, c, [])
      | None => do vi <- invoke args; Ok (fst vi, Some (args, fst vi), snd vi)
      end
    else use_cache pure c args invoke.

  Fixpoint eval_v (env : string -> option Z) (dot : Z) (t : tree) : evr :=
    match t with
    | Paren b e => do x <- eval_v env dot e; let '(v, e', d) := x in Ok (v, Paren b e', d)
    | Infix op l r c =>
        do x <- eval_v env dot l; let '(a, l', d1) := x in
        do y <- eval_v env dot r; let '(b, r', d2) := y in
        do z <- use_cache_v (is_pure GenOperators.KInfix op) c [a; b] (invoke_infix op);
        let '(v, c', d3) := z in Ok (v, Infix op l' r' c', d1 ++ d2 ++ d3)
    | Call l r c =>
        do x <- eval_v env dot l; let '(a, l', d1) := x in
        do y <- eval_v env dot r; let '(b, r', d2) := y in
        do z <- use_cache_v (is_pure GenOperators.KInfix "$") c [a; b] (invoke_infix "$");
        let '(v, c', d3) := z in Ok (v, Call l' r' c', d1 ++ d2 ++ d3)
    | Prefix op e c =>
        do x <- eval_v env dot e; let '(a, e', d1) := x in
        do z <- use_cache_v (is_pure GenOperators.KPrefix op) c [a] (invoke_prefix op);
        let '(v, c', d3) := z in Ok (v, Prefix op e' c', d1 ++ d3)
    | Postfix op e c =>
        do x <- eval_v env dot e; let '(a, e', d1) := x in
        do z <- use_cache_v (is_pure GenOperators.KPostfix op) c [a] (invoke_postfix op);
        let '(v, c', d3) := z in Ok (v, Postfix op e' c', d1 ++ d3)
    | _ => eval env dot t
    end.

  Definition gai_v bits uns env dot t : evr :=
    do x <- eval_v env dot t; let '(v, t', d) := x in
    do w <- GenGetAsInt.get_as_int bits uns None v; Ok (w, t', d).

  (* compile_rm with the choice of what is left in insn.operands *)
  Definition compile_rm_v (env : string -> option Z) (dot rel : Z) (t : tree) : opr :=
    if has_percent t then Crash "unmodelled:%register" else
    let '(mode, kind, path, hoisted) := classify t in
    let whole := match hoisted with Some off => off | None => t end in
    let back s' := match hoisted with
                   | Some off => if old_hoist then put path off s' else unhoist t (put path off s')
                   | None => put path t s'
                   end in
    match kind with
    | ENone => Ok (mode, [], t, [])
    | EZero => Ok (mode, [0; 0], t, [])
    | EGai =>
        do x <- gai_v (Some 16) false env dot (get path whole); let '(w, s', d) := x in
        Ok (mode, le16 w, back s', d)
    | ERel =>
        do x <- eval_v env dot (get path whole); let '(v, s', d) := x in
        Ok (mode, le16 ((v - rel - 2) mod 65536), back s', d)
    end.

  (* the witness language: register / register-mode operands, .word; anything else is not needed *)
  Fixpoint compile_ops_v env dot (enc_len : Z) (ops : list (slot * tree)) : res (Z * list Z * list (slot * tree) * list string) :=
    match ops with
    | [] => Ok (0, [], [], [])
    | (s, t) :: rest =>
        do x <- (match s with
                 | SRm _ => compile_rm_v env dot (dot + 2 + enc_len) t
                 | SReg _ => compile_reg t
                 | _ => Crash "not in the witness language"
                 end); let '(f, ext, t', d) := x in
        do y <- compile_ops_v env dot (enc_len + Zlen ext) rest; let '(opc, exts, rest', d2) := y in
        Ok ((f mod 2 ^ field_bits s) * 2 ^ field_shift s + opc, ext ++ exts, (s, t') :: rest', d ++ d2)
    end.

  Definition compile_item_v env (a : Z) (it : item) : res (list Z * item * list string) :=
    match it with
    | IWord [t] =>
        do x <- gai_v (Some 16) false env a t; let '(w, t', d) := x in Ok (le16 w, IWord [t'], d)
    | IInsn base ops =>
        do x <- compile_ops_v env a 0 ops; let '(opc, exts, ops', d) := x in
        Ok (le16 (base + opc) ++ exts, IInsn base ops', d)
    | _ => Crash "not in the witness language"
    end.

  Fixpoint block_v env (its : list item) (a c : Z) : result :=
    match its with
    | [] => Ok (([], c), [], [])
    | it :: rest =>
        do x <- compile_item_v env a it; let '(bs, it', d) := x in
        do y <- block_v env rest (a + Zlen bs) c; let '((bs2, c2), rest', d2) := y in
        Ok ((bs ++ bs2, c2), it' :: rest', d ++ d2)
    end.

  (* the same threading ([loop], no budget) and the same reference as in the model *)
  Definition repeat_model_v env (n : nat) body a : result := loop None (block_v env) n body a 0.
  Definition unrolled_v env (n : nat) body a : result := block_v env (written_out n body) a 0.

  Definition repeat_unroll_v : Prop :=
    forall env n body a, has_end body = false -> coh_block false body ->
      outcome_of (repeat_model_v env n body a) = outcome_of (unrolled_v env n body a).
End Variant.

Definition env_a (n : string) : option Z := if String.eqb n "a" then Some 8 else None.
Definition num (v : Z) : tree := Num "n" v true false false.
(* mov a+2(r0), r1 *)
Definition mov_body : list item :=
  [IInsn 4096 [(SRm 6, Infix "+" (Sym "a" false) (Call (num 2) (Sym "r0" false) None) None); (SRm 0, Sym "r1" false)]].
(* .word ./2 *)
Definition word_body : list item := [IWord [Infix "/" Dot (num 2) None]].

Theorem repeat_unroll_old_hoist_refuted : ~ repeat_unroll_v false true.
Proof.
  intros H. specialize (H env_a 2%nat mov_body 512 eq_refl (coh_block_fresh false mov_body eq_refl)).
  vm_compute in H. discriminate.
Qed.
Print Assumptions repeat_unroll_old_hoist_refuted.

Theorem repeat_unroll_old_cache_refuted : ~ repeat_unroll_v true false.
Proof.
  intros H. specialize (H env_a 3%nat word_body 512 eq_refl (coh_block_fresh false word_body eq_refl)).
  vm_compute in H. discriminate.
Qed.
Print Assumptions repeat_unroll_old_cache_refuted.

(* what the two pre-fix variants emit, next to the written-out body *)
Example old_hoist_images :
  outcome_of (repeat_model_v false true env_a 2 mov_body 512) = OOk [1; 28; 10; 0;  193; 29; 2; 254]   (* 2nd copy: mode 67, pc-relative *)
  /\ outcome_of (unrolled_v false true env_a 2 mov_body 512) = OOk [1; 28; 10; 0;  1; 28; 10; 0].
Proof. split; vm_compute; reflexivity. Qed.

Example old_cache_images :
  outcome_of (repeat_model_v true false env_a 3 word_body 512) = OOk [0; 1; 0; 1; 0; 1]
  /\ outcome_of (unrolled_v true false env_a 3 word_body 512) = OOk [0; 1; 1; 1; 2; 1].
Proof. split; vm_compute; reflexivity. Qed.

(* with both flags off the variant is the model on the witnesses, and the property holds there *)
Example fixed_variant_is_the_model :
  outcome_of (repeat_model_v false false env_a 2 mov_body 512) = outcome_of (repeat_model None 1 env_a 2 mov_body 512 0)
  /\ outcome_of (repeat_model_v false false env_a 3 word_body 512) = outcome_of (repeat_model None 1 env_a 3 word_body 512 0)
  /\ outcome_of (repeat_model_v false false env_a 2 mov_body 512) = outcome_of (unrolled_v false false env_a 2 mov_body 512)
  /\ outcome_of (repeat_model_v false false env_a 3 word_body 512) = outcome_of (unrolled_v false false env_a 3 word_body 512).
Proof. repeat split; vm_compute; reflexivity. Qed.

(* hoisting changes the shape: what the pre-fix code left in the instruction differs from what was parsed *)
Example prefix_hoist_changed_the_operand :
  let t := Infix "+" (Sym "a" false) (Call (Num "2" 2 true false false) (Sym "r0" false) None) None in
  strip (hoist t) <> strip t.
Proof. simpl. discriminate. Qed.
