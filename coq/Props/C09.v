(* C09 -- Relocation law: only absolute address words move with the base.
   Only statements, each closed by [exact] of a lemma from Proofs/, then Print Assumptions.
   The programme model is Model/Reloc.v (items contributing bytes as a function of the base),
   the value domain is Model/Poly.v (LinearPolynomial). *)
From Coq Require Import String List ZArith Bool.
From Verif Require Import Base.Res Base.Bytes Model.Poly Model.Reloc Model.Insns Gen.GenGetAsInt Gen.GenMeta Proofs.PolyP Proofs.RelocP Proofs.RelocInsnsP.
Import ListNotations.
Open Scope Z_scope.

(* ---- LinearPolynomial: evaluation and the coefficient map are homomorphisms ---- *)
Theorem C09_poly_eval_add : forall p q rho, eval (add p q) rho = eval p rho + eval q rho.
Proof. exact eval_add. Qed.
Print Assumptions C09_poly_eval_add.

Theorem C09_poly_eval_neg : forall p rho, eval (neg p) rho = - eval p rho.
Proof. exact eval_neg. Qed.
Print Assumptions C09_poly_eval_neg.

Theorem C09_poly_eval_scale : forall k p rho, eval (scale k p) rho = k * eval p rho.
Proof. exact eval_scale. Qed.
Print Assumptions C09_poly_eval_scale.

Theorem C09_poly_eval_sub : forall p q rho, eval (sub p q) rho = eval p rho - eval q rho.
Proof. exact eval_sub. Qed.
Print Assumptions C09_poly_eval_sub.

(* the constructor removes zero coefficients and merges equal variables *)
Theorem C09_poly_normal_form : forall l c, wf (mk l c).
Proof. exact wf_mk. Qed.
Print Assumptions C09_poly_normal_form.

Theorem C09_poly_coeff_hom : forall x p q k,
  coeff x (add p q) = coeff x p + coeff x q /\ coeff x (neg p) = - coeff x p /\
  coeff x (scale k p) = k * coeff x p /\ coeff x (sub p q) = coeff x p - coeff x q.
Proof. exact (fun x p q k => conj (coeff_add x p q) (conj (coeff_neg x p) (conj (coeff_scale x k p) (coeff_sub x p q)))). Qed.
Print Assumptions C09_poly_coeff_hom.

(* (LA + a) - (LA + b): the base cancels, and the value is a - b whatever the base *)
Theorem C09_poly_cancel : forall x a b,
  coeff x (sub (addc (pvar x) a) (addc (pvar x) b)) = 0 /\
  forall rho, eval (sub (addc (pvar x) a) (addc (pvar x) b)) rho = a - b.
Proof. exact (fun x a b => conj (poly_cancel x a b) (poly_cancel_value x a b)). Qed.
Print Assumptions C09_poly_cancel.

(* a value moves by (its coefficient of the base) * (difference of the bases) *)
Theorem C09_value_shift : forall e b1 b2, aval b2 e = aval b1 e + acoef e * (b2 - b1).
Proof. exact aval_shift. Qed.
Print Assumptions C09_value_shift.

(* ---- displacements: relative, relative deferred, branch and SOB fields whose target is
        (base + anything that does not move) are the same for every base, at every position ---- *)
Theorem C09_displacements_base_free : forall e op pos b1 b2, acoef e = 1 ->
  rel_field b2 pos e = rel_field b1 pos e /\
  branch_field b2 pos op e = branch_field b1 pos op e /\
  sob_field b2 pos op e = sob_field b1 pos op e.
Proof. exact (fun e op pos b1 b2 H => conj (rel_base_free e pos b1 b2 H) (conj (branch_base_free e op pos b1 b2 H) (sob_base_free e op pos b1 b2 H))). Qed.
Print Assumptions C09_displacements_base_free.

(* a label plus a constant is such a target *)
Theorem C09_label_plus_const_moves_by_one : forall k c, acoef (AAdd (ALab k) (AConst c)) = 1.
Proof. exact acoef_lab_plus. Qed.
Print Assumptions C09_label_plus_const_moves_by_one.

(* ---- the field functions of Model/Reloc.v ARE the functions the other properties use: the range
        rule regenerated from metacommand_impl.get_as_int (Gen/GenGetAsInt, C06) and the encoders of
        Model/Insns.v (C01/C04).  [first_error]: Reloc reports the first error where enc_offset lists both. ---- *)
Theorem C09_get_as_int_is_generated : forall bits v, 0 <= bits ->
  Reloc.get_as_int bits v = GenGetAsInt.get_as_int (Some bits) false None v.
Proof. exact reloc_get_as_int_is_generated. Qed.
Print Assumptions C09_get_as_int_is_generated.

Theorem C09_abs_field_is_insns : forall b e, abs_field b e = do v <- Insns.int16 (aval b e); Ok (le16 v).
Proof. exact abs_field_is_int16. Qed.
Print Assumptions C09_abs_field_is_insns.

Theorem C09_rel_value_is_insns : forall b pos e, rel_value b pos e = enc_rel (aval b e) (b + pos).
Proof. exact rel_value_is_enc_rel. Qed.
Print Assumptions C09_rel_value_is_insns.

Theorem C09_branch_field_is_insns : forall b pos op e,
  branch_field b pos op e =
  first_error (do f <- enc_offset false 8 (aval b e) (b + pos + 2); Ok (le16 (op + f mod 256))).
Proof. exact branch_field_is_enc_offset. Qed.
Print Assumptions C09_branch_field_is_insns.

Theorem C09_sob_field_is_insns : forall b pos op e,
  sob_field b pos op e =
  first_error (do f <- enc_offset true 6 (aval b e) (b + pos + 2); Ok (le16 (op + f mod 64))).
Proof. exact sob_field_is_enc_offset. Qed.
Print Assumptions C09_sob_field_is_insns.

(* the padding directives of the model are the bodies regenerated from metacommands.py on every run:
   `.align n` for EVERY count n >= 0 (the padding is (-address) mod n: a body that computes it with a
   bit mask is not this function unless n is a power of two), `.even`, `.odd` *)
Theorem C09_align_is_generated : forall b pos m, 0 <= m -> item_bytes b pos (Align m) = body_align (b + pos) m.
Proof. exact align_is_generated. Qed.
Print Assumptions C09_align_is_generated.

Theorem C09_even_is_generated : forall b pos, item_bytes b pos (Align 2) = body_even (b + pos).
Proof. exact even_is_generated. Qed.
Print Assumptions C09_even_is_generated.

Theorem C09_odd_is_generated : forall b pos, item_bytes b pos Odd = body_odd (b + pos).
Proof. exact odd_is_generated. Qed.
Print Assumptions C09_odd_is_generated.

(* the hypothesis of the law for alignment: for every count n > 0 the padding depends on the address
   only through (address mod n); so bases congruent modulo n (516 and 1032 for n = 6) pad alike *)
Theorem C09_align_padding_congruent : forall m a1 a2, 0 < m -> (a2 - a1) mod m = 0 -> (- a2) mod m = (- a1) mod m.
Proof. exact align_padding_congruent. Qed.
Print Assumptions C09_align_padding_congruent.

(* ---- the law.  For every programme of the model and every two bases at which it assembles
        (D9 for their difference: alignment moduli divide it; branch targets move with the base;
        bytes hold no address), the second image is the first one patched at exactly the words
        listed by abs_words, each by coefficient * difference modulo 2^16.
        EXCLUDED by D9, on purpose: a BYTE that holds an address (`.byte label`, item ByteExpr e with
        acoef e <> 0).  The exclusion is necessary, not a convenience: such a byte does change with
        the base, it is not a 16-bit word, and the law as stated (only absolute address WORDS move,
        each by delta) is false for it -- see C09_ex_byte_address below.  The generator only puts
        label differences and constants into bytes. ---- *)
Theorem C09_relocation : forall p b1 b2 i1 i2, d9 (b2 - b1) p = true ->
  image b1 p = Ok i1 -> image b2 p = Ok i2 ->
  i2 = patch i1 0 (abs_words b1 p) (b2 - b1).
Proof. exact relocation. Qed.
Print Assumptions C09_relocation.

(* the list of moving words is itself independent of the base *)
Theorem C09_abs_words_base_free : forall p b1 b2, d9 (b2 - b1) p = true -> abs_words b2 p = abs_words b1 p.
Proof. exact abs_words_base_free. Qed.
Print Assumptions C09_abs_words_base_free.

(* what patch does NOT touch: any byte that is not one of the two bytes of a listed word, for
   arbitrary images and lists; and it never changes the length *)
Theorem C09_patch_touches_nothing_else : forall img pos aw d k,
  (forall o c, In (o, c) aw -> pos + Z.of_nat k <> o /\ pos + Z.of_nat k <> o + 1) ->
  nth_error (patch img pos aw d) k = nth_error img k.
Proof. exact patch_untouched. Qed.
Print Assumptions C09_patch_touches_nothing_else.

Theorem C09_patch_length : forall img pos aw d, length (patch img pos aw d) = length img.
Proof. exact patch_length. Qed.
Print Assumptions C09_patch_length.

(* hence: opcode words, register/mode fields, data, branch and relative displacements -- every
   byte outside the absolute words -- are identical at the two bases *)
Theorem C09_everything_else_identical : forall p b1 b2 i1 i2 k, d9 (b2 - b1) p = true ->
  image b1 p = Ok i1 -> image b2 p = Ok i2 ->
  (forall o c, In (o, c) (abs_words b1 p) -> Z.of_nat k <> o /\ Z.of_nat k <> o + 1) ->
  nth_error i2 k = nth_error i1 k.
Proof. exact relocation_unchanged. Qed.
Print Assumptions C09_everything_else_identical.

(* position-independent code: no absolute word => identical images *)
Theorem C09_pic : forall p b1 b2 i1 i2, d9 (b2 - b1) p = true -> abs_words b1 p = [] ->
  image b1 p = Ok i1 -> image b2 p = Ok i2 -> i2 = i1.
Proof. exact pic. Qed.
Print Assumptions C09_pic.

(* ---- non-vacuity ----
   a: mov @#a, r0 / mov #a+2, r1 / br a / mov a, r2 / .word a-a, a   at 0o1000 and 0o2000 *)
Definition ex_prog : list item :=
  [Fixed [192; 23]; AbsWord (ALab 0);
   Fixed [193; 21]; AbsWord (AAdd (ALab 0) (AConst 2));
   Branch 256 (ALab 0);
   Fixed [194; 29]; RelWord (ALab 0);
   NeedEven; AbsWord (ASub (ALab 0) (ALab 0)); AbsWord (ALab 0)].
Example C09_ex_images :
  image 512 ex_prog = Ok [192;23;0;2; 193;21;2;2; 251;1; 194;29;242;255; 0;0; 0;2] /\
  image 1024 ex_prog = Ok [192;23;0;4; 193;21;2;4; 251;1; 194;29;242;255; 0;0; 0;4] /\
  abs_words 512 ex_prog = [(2,1); (6,1); (16,1)] /\ d9 512 ex_prog = true.
Proof. vm_compute. repeat split. Qed.
(* `.align 6` at bases 516 and 1032 (congruent modulo 6): same padding, the label word moves by delta *)
Example C09_ex_align6 :
  image 516 [Fixed [160; 0]; Align 6; AbsWord (ALab 6)] = Ok [160; 0; 0; 0; 0; 0; 10; 2] /\
  image 1032 [Fixed [160; 0]; Align 6; AbsWord (ALab 6)] = Ok [160; 0; 0; 0; 0; 0; 14; 4] /\
  d9 516 [Fixed [160; 0]; Align 6; AbsWord (ALab 6)] = true.
Proof. vm_compute. repeat split. Qed.
(* why D9 excludes a byte that holds an address: `.link b / a: .byte a` assembles at b = 8 and b = 16,
   abs_words lists nothing, yet the images differ -- the law would be false without the exclusion *)
Example C09_ex_byte_address :
  d9 8 [ByteExpr (ALab 0)] = false /\
  image 8 [ByteExpr (ALab 0)] = Ok [8] /\ image 16 [ByteExpr (ALab 0)] = Ok [16] /\
  abs_words 8 [ByteExpr (ALab 0)] = [].
Proof. vm_compute. repeat split. Qed.
(* near the top of the address space the law is conditional: the label word no longer fits *)
Example C09_ex_wrap : image 65534 [Fixed [160;0]; AbsWord (ALab 2)] = Err ["value-out-of-bounds"%string]
  /\ image 65534 [Fixed [160;0]; Fixed [192;29]; RelWord (ALab 6); Fixed [0;0]] = Ok [160;0;192;29;0;0;0;0].
Proof. vm_compute. split; reflexivity. Qed.
