(* P -- the character-level parser model (Model/StmtParse.v, tied to pdpy11/parser.py by tools/p_corr.py).
   Only statements, each closed by [exact] of a lemma from Proofs/, then Print Assumptions. *)
From Coq Require Import String List NArith Bool.
From Verif Require Import Model.StmtParse Proofs.StmtParseP.
Import ListNotations.
Open Scope N_scope.

(* Totality, for every text (any code points, any length): with fuel linear in the length of the text the parser
   model ends in a tree with diagnostics or in a critical report -- never in a Python exception other than a report
   (none of the explicit partial operations of the model is reachable: indexing ctx.code[ctx.pos], num[-1], name[0],
   opening[1], int(num, base), chr(int(num, 16)), the 2/3-element message lists indexed by len(value), the
   list.pop() of both expression stacks, `assert result is not None`, radix50.pack_to_int, a RecoverableError
   escaping parse()), and never out of fuel: every loop and every recursion of the parser consumes input. *)
Theorem P_parse_total :
  forall (text : list N) (fuel : nat),
    (8 * length text + 7 <= fuel)%nat ->
    match parse_file fuel text with
    | POk _ _ | PCritical _ => True
    | PCrash _ | POutOfFuel => False
    end.
Proof. exact parse_total. Qed.
Print Assumptions P_parse_total.

(* the hypothesis is satisfiable and the conclusion is not vacuous: "mov #1, r0" parses to one instruction *)
Example P_parse_total_example :
  exists b, parse_file 100 [109; 111; 118; 32; 35; 49; 44; 32; 114; 48] = POk b [].
Proof. eexists. vm_compute. reflexivity. Qed.
(* ... and an input that needs the Critical outcome: an unterminated string *)
Example P_parse_critical_example :
  exists d, parse_file 100 [46; 97; 115; 99; 105; 105; 32; 34; 97] = PCritical d.
Proof. eexists. vm_compute. reflexivity. Qed.

(* Every offset the parser stores lies inside the file, start not after end (C17's range clause at parser level):
   for every text and ANY fuel, every ctx_start/ctx_end pair of every token of the tree (Model/StmtParseOffsets.v:
   [offsets]; the `.ctx` of a code block counts as (p, p)) and every span of every diagnostic, also on the critical
   path, satisfies start <= end <= len text.  Proved from an invariant threaded through every parser function
   (contexts are well formed: pos + |rest| = len text; what has been built so far ends at or before the current
   position).  Together with P_parse_total the POk / PCritical cases are the only ones for sufficient fuel. *)
From Verif Require Import Model.StmtParseOffsets Proofs.StmtParseW.
Theorem P_offsets_in_file :
  forall (text : list N) (fuel : nat),
    match parse_file fuel text with
    | POk b d => Forall (span_in (len text)) (offsets b) /\ Forall (span_in (len text)) (diag_spans d)
    | PCritical d => Forall (span_in (len text)) (diag_spans d)
    | PCrash _ | POutOfFuel => True
    end.
Proof. exact parse_offsets_in_file. Qed.
Print Assumptions P_offsets_in_file.

(* "children lie inside their parents" is NOT a property of pdpy11's trees (so no P_tree_offsets_monotone): a postfix
   operator token spans the operator only, its operand lies before it; a CodeBlock spans its LAST statement only *)
Example P_children_not_inside_parents :
  parse_file 100 [46; 119; 111; 114; 100; 32; 120; 43] =
    POk (Block 0 8 None [Insn 0 8 (Symbol 0 5 [46; 119; 111; 114; 100] false) [Postfix 7 8 [43] (Symbol 6 7 [120] false)]]) [] /\
  parse_file 100 [110; 111; 112; 10; 110; 111; 112] =
    POk (Block 4 7 None [Insn 0 3 (Symbol 0 3 [110; 111; 112] false) []; Insn 4 7 (Symbol 4 7 [110; 111; 112] false) []]) [].
Proof. split; vm_compute; reflexivity. Qed.

(* ------------------------------------------------------------------------------------------------------------
   Stage 3 -- spelling.  The whole-parser statements ("the tree is unchanged up to offsets / up to the stored
   spelling") are NOT proved: they need a two-run simulation through every function of the model.  What is proved is
   the part of them that is about characters, for every text; the rest (that the statement/expression functions only
   combine these primitives) is tied by the respell streams of tools/p_corr.py (model = implementation on the respelled
   texts) together with C10's metamorphic sweep on the implementation.  Hence the names *_partial. *)
From Verif Require Import Model.SkipWs Proofs.StmtParseSpell.

(* the model's Context.skip_whitespace is the function C10's theorems are about (C10_skip_ws, _idempotent, _stops,
   _only_blank all transfer), with the position arithmetic *)
Theorem P_skip_is_C10_skip :
  forall c, rest (skip_ctx c) = skip (rest c) /\
            pos (skip_ctx c) + N.of_nat (length (rest (skip_ctx c))) = pos c + N.of_nat (length (rest c)).
Proof. exact skip_ctx_is_skip. Qed.
Print Assumptions P_skip_is_C10_skip.

(* horizontal blanks, newlines and closed comments before a position are absorbed by skip_whitespace *)
Theorem P_blank_absorbed :
  forall ws r p p', blank_run ws -> rest (skip_ctx (mkCtx p (ws ++ r))) = rest (skip_ctx (mkCtx p' r)).
Proof. exact blank_absorbed. Qed.
Print Assumptions P_blank_absorbed.

(* token level: for every parser that skips blanks and then only looks at the text at ctx.pos, blank material
   inserted before the token changes neither the value returned nor the text left (only offsets) ... *)
Theorem P_blank_insensitive_partial :
  forall (A : Type) (q : parser A) ws r p p2 d d2,
    rest_det q -> blank_run ws ->
    sim ((skip_ws ;;; q) (mkCtx p (ws ++ r)) d) ((skip_ws ;;; q) (mkCtx p2 r) d2).
Proof. exact @token_blank_insensitive. Qed.
Print Assumptions P_blank_insensitive_partial.

(* ... and these are such parsers: every literal (so: comma, brackets, quotes, '=', ':', '^X' ..., every operator),
   the three identifier regexes, the label regex, instruction_name, string_quote, caret_parenthesis, the three
   operator alternatives *)
Theorem P_token_parsers_rest_det :
  (forall lit, rest_det (literal lit)) /\ rest_det symbol_literal /\ rest_det local_symbol_literal /\
  rest_det label_name /\ rest_det instruction_name /\ rest_det string_quote /\ rest_det caret_parenthesis /\
  rest_det infix_operator /\ rest_det prefix_operator /\ rest_det postfix_operator.
Proof. exact token_parsers_rest_det. Qed.
Print Assumptions P_token_parsers_rest_det.

(* case, names: mnemonics, directive names (incl. the operand typing and the literal-string / min / max operand rows
   read by instruction()), register names and the 'end' test see a name only through its ASCII lower-case form *)
Theorem P_case_names_partial :
  forall a b, Forall2 ceq a b ->
    lookup_cmd a = lookup_cmd b /\ in_builtin a = in_builtin b /\ is_register_name a = is_register_name b /\
    (forall idx c d, operand_type a idx c d = operand_type b idx c d) /\
    (forall s e s2 e2 l1 l2 ops, is_end_insn (Insn s e (Symbol s2 e2 a l1) ops) = is_end_insn (Insn s e (Symbol s2 e2 b l2) ops)).
Proof. exact case_names. Qed.
Print Assumptions P_case_names_partial.

(* case, literals and digits: radix prefixes (^X ^O ^B ^D, 0x 0o 0b), ^R, ^C and every operator literal match the
   text through lower() only and leave case-related texts; digit strings that differ in case have the same value;
   every character class of the regexes is case-blind, so identifier-shaped runs have the same extent *)
Theorem P_case_literals_digits_partial :
  (forall lit l l', Forall2 ceq l l' ->
     match lit_match lit l, lit_match lit l' with
     | Some r, Some r' => Forall2 ceq r r' | None, None => True | _, _ => False end) /\
  (forall base l l' acc, Forall2 ceq l l' -> int_digits base l acc = int_digits base l' acc) /\
  (forall base s s', Forall2 ceq s s' -> py_int base s = py_int base s') /\
  (forall p l l' k, lower_inv p -> Forall2 ceq l l' ->
     let '(m, r, n) := span_n p l k in let '(m', r', n') := span_n p l' k in
     Forall2 ceq m m' /\ Forall2 ceq r r' /\ n = n') /\
  (lower_inv is_digit /\ lower_inv is_alpha /\ lower_inv is_word /\ lower_inv is_insn_start /\ lower_inv is_sym_start /\
   lower_inv is_sym_char /\ lower_inv is_space /\ lower_inv caret_paren_char /\ lower_inv rad50_class).
Proof. exact case_literals_digits. Qed.
Print Assumptions P_case_literals_digits_partial.

(* Position independence (whole parser, closed): the parser takes no decision on absolute positions.  Parsing the same
   remaining text k characters further to the right gives the same outcome with every token offset, every block
   `.ctx` and every diagnostic span moved by k -- for every text, every fuel, every start offset. *)
From Verif Require Import Proofs.StmtParseShift.
Theorem P_position_independent :
  forall (fuel : nat) (p k : N) (text : list N),
    parse_at fuel (p + k) text = shift_result k (parse_at fuel p text).
Proof. exact parse_position_independent. Qed.
Print Assumptions P_position_independent.

(* Whole-tree blank insensitivity, the case that is proved: blank material (blanks, newlines, closed comments) in
   front of the first statement of a file leaves the whole tree and all diagnostics unchanged up to the uniform shift
   by its length (from P_blank_absorbed, skip idempotence and P_position_independent).  The hypothesis only excludes
   the file without any statement, whose empty block is (0, 0) in both cases.
   NOT proved: blank material inserted between two tokens further inside a statement.  That needs a two-run
   simulation whose side condition depends on the run (no token of the original text may span the insertion point,
   and the point must not be one of the places where the parser looks at ctx.code[ctx.pos] without skipping blanks:
   after a quote, before '::' / '==', at the missing-whitespace checks, inside literal-text operands); for tokens
   see P_blank_insensitive_partial, for whole programs the respell streams. *)
Theorem P_leading_blank_insensitive :
  forall (fuel : nat) (ws text : list N),
    blank_run ws -> ctx_eof (mkCtx 0 text) = false ->
    parse_file (S fuel) (ws ++ text) = shift_result (len ws) (parse_file (S fuel) text).
Proof. exact leading_blank_insensitive. Qed.
Print Assumptions P_leading_blank_insensitive.

Example P_blank_example :
  blank_run [32; 9; 59; 99; 10; 32] /\
  sim (comma (mkCtx 0 ([32; 9; 59; 99; 10; 32] ++ [44; 49])) []) (comma (mkCtx 7 [44; 49]) []).
Proof.
  split.
  - apply br_blank; [reflexivity|]. apply br_blank; [reflexivity|].
    apply (br_comment [99] [32]); [repeat constructor; discriminate|]. apply br_blank; [reflexivity | constructor].
  - vm_compute. auto.
Qed.
Example P_case_example : Forall2 ceq [77; 111; 86] [109; 79; 118] /\ lookup_cmd [77; 111; 86] = lookup_cmd [109; 79; 118].
Proof. split; [repeat constructor | vm_compute; reflexivity]. Qed.
