(* P -- the character-level parser model (Model/StmtParse.v, tied to pdpy11/parser.py by tools/p_corr.py).
   Only statements, each closed by [exact] of a lemma from Proofs/, then Print Assumptions. *)
From Coq Require Import String List NArith Bool.
From Verif Require Import Model.StmtParse Proofs.StmtParseP.
Import ListNotations.
Open Scope N_scope.

(* Totality, for every text (any code points, any length): with fuel linear in the length of the text the parser
   model ends in a tree with diagnostics or in a critical report -- never in a Python exception other than a report
   (none of the explicit partial operations of the model is reachable: indexing ctx.code[ctx.pos], num[-1], name[0],
   opening[1], int(num, base), chr(int(num, 16)), the 2/3-element message lists indexed by len(value), the
   list.pop() of both expression stacks, `assert result is not None`, radix50.pack_to_int, a RecoverableError
   escaping parse()), and never out of fuel: every loop and every recursion of the parser consumes input. *)
Theorem P_parse_total :
  forall (text : list N) (fuel : nat),
    (8 * length text + 7 <= fuel)%nat ->
    match parse_file fuel text with
    | POk _ _ | PCritical _ => True
    | PCrash _ | POutOfFuel => False
    end.
Proof. exact parse_total. Qed.
Print Assumptions P_parse_total.

(* the hypothesis is satisfiable and the conclusion is not vacuous: "mov #1, r0" parses to one instruction *)
Example P_parse_total_example :
  exists b, parse_file 100 [109; 111; 118; 32; 35; 49; 44; 32; 114; 48] = POk b [].
Proof. eexists. vm_compute. reflexivity. Qed.
(* ... and an input that needs the Critical outcome: an unterminated string *)
Example P_parse_critical_example :
  exists d, parse_file 100 [46; 97; 115; 99; 105; 105; 32; 34; 97] = PCritical d.
Proof. eexists. vm_compute. reflexivity. Qed.
