(* C12 -- findings (not obligations of the check).  HISTORICAL: this file describes pdpy11 BEFORE
   commit 0fa6448 ("a link base whose dependence on itself cancels is solved wherever its parts
   are defined").  The finding no longer reproduces: the code now substitutes recursively
   (Model/Poly.substitute; Props/C12.v: C12_substitute_sound, C12_substitute_complete,
   C12_substitute_semantically_complete -- the statement refuted below, proved for the new code --
   and the example C12_ex_substitute, which is the very input below), and ./check C12 expects every
   solvable symbol-spelled link expression, anywhere, to be accepted.

   Before the fix, the base Promise `LA` and the Deferred it is settled to (`d`) were two different
   LinearPolynomial variables holding the same number, and LinearPolynomial._wait identified them
   only by a substitution that was ONE level deep (Model/Poly.wait_step).  Whether `LA` cancelled
   against `d` depended on how deep each occurrence sat, i.e. on where the `.link`, the labels and
   the intermediate symbols were written.  Input that was rejected as recursive-definition:

        x = e
        s: .word 1,2
        .link x - s
        e:

   The link expression was  -LA + x  with LA settled to d and x evaluating to  LA + 4; after the
   one-level substitution:  -d + LA + 4, not constant.  The statement "if the value is the same
   under every assignment consistent with what the variables are settled to, the substituted
   polynomial is constant" is false of wait_step: *)
From Coq Require Import List ZArith Lia Bool.
From Verif Require Import Model.Poly Proofs.PolyP.
Import ListNotations.
Open Scope Z_scope.

Definition one_level_wait_complete : Prop :=
  forall sigma p c,
    (forall rho, agrees sigma rho -> eval p rho = c) ->
    is_const (wait_step sigma p) = true.

Definition v_LA : var := 0.
Definition v_d : var := 1.
Definition v_x : var := 2.
Definition oddity_sigma : var -> option poly :=
  fun v => if v =? v_LA then Some (pvar v_d)
           else if v =? v_x then Some (addc (pvar v_LA) 4)
           else None.
Definition oddity_poly : poly := add (neg (pvar v_LA)) (pvar v_x).   (* x - s  with  s = LA *)

Lemma oddity_value rho : agrees oddity_sigma rho -> eval oddity_poly rho = 4.
Proof.
  intros H. pose proof (H v_x (addc (pvar v_LA) 4) eq_refl) as Hx.
  rewrite eval_addc, eval_pvar in Hx.
  unfold oddity_poly. rewrite eval_add, eval_neg, !eval_pvar. lia.
Qed.

Example oddity_after_wait : wait_step oddity_sigma oddity_poly = Poly [(v_d, -1); (v_LA, 1)] 4.
Proof. vm_compute. reflexivity. Qed.

Theorem C12_one_level_wait_complete_refuted : ~ one_level_wait_complete.
Proof.
  intros H. specialize (H oddity_sigma oddity_poly 4 oddity_value).
  rewrite oddity_after_wait in H. discriminate.
Qed.
Print Assumptions C12_one_level_wait_complete_refuted.

(* the same input under the substitution of the current code *)
Example oddity_now :
  substitute (World [(v_LA, VVar v_d); (v_x, VPoly (addc (pvar v_LA) 4))] [v_d] []) oddity_poly = (Poly [] 4, []).
Proof. vm_compute. reflexivity. Qed.
