(* C12 -- findings (not obligations of the check).

   The base Promise `LA` and the Deferred it is settled to (`d`) are two different LinearPolynomial
   variables that always hold the same number.  LinearPolynomial._wait identifies them only by a
   substitution that is ONE level deep: a variable's value is spliced in, but the variables inside
   that value are not looked at again.  So whether `LA` cancels against `d` depends on how deep each
   occurrence sits, i.e. on where in the file the `.link`, the labels and the intermediate symbols
   are written.  Concrete input (rejected as recursive-definition, although x - s = 4 for every base,
   and although `.link e - s` in the same place is accepted, and although moving `s: .word 1,2`
   below the `.link` makes it accepted):

        x = e
        s: .word 1,2
        .link x - s
        e:

   At the final evaluation the link expression is the polynomial  -LA + x  (s was registered as
   LA+0 before the base was set), LA is settled to d, and the symbol x evaluates to  LA + 4.
   After _wait's substitution the polynomial is  -d + LA + 4: not constant, so the base is asked
   for while it is being computed.  The statement that would make symbols transparent --
   "if the value is the same under every assignment consistent with what the variables are
   settled to, the substituted polynomial is constant" -- is false of the model of _wait
   (Model/Poly.wait_step, which is tied to the code by the operation-sequence correspondence). *)
From Coq Require Import List ZArith Lia Bool.
From Verif Require Import Model.Poly Proofs.PolyP.
Import ListNotations.
Open Scope Z_scope.

Definition one_level_wait_complete : Prop :=
  forall sigma p c,
    (forall rho, agrees sigma rho -> eval p rho = c) ->
    is_const (wait_step sigma p) = true.

Definition v_LA : var := 0.
Definition v_d : var := 1.
Definition v_x : var := 2.
Definition oddity_sigma : var -> option poly :=
  fun v => if v =? v_LA then Some (pvar v_d)
           else if v =? v_x then Some (addc (pvar v_LA) 4)
           else None.
Definition oddity_poly : poly := add (neg (pvar v_LA)) (pvar v_x).   (* x - s  with  s = LA *)

Lemma oddity_value rho : agrees oddity_sigma rho -> eval oddity_poly rho = 4.
Proof.
  intros H. pose proof (H v_x (addc (pvar v_LA) 4) eq_refl) as Hx.
  rewrite eval_addc, eval_pvar in Hx.
  unfold oddity_poly. rewrite eval_add, eval_neg, !eval_pvar. lia.
Qed.

Example oddity_after_wait : wait_step oddity_sigma oddity_poly = Poly [(v_d, -1); (v_LA, 1)] 4.
Proof. vm_compute. reflexivity. Qed.

Theorem C12_one_level_wait_complete_refuted : ~ one_level_wait_complete.
Proof.
  intros H. specialize (H oddity_sigma oddity_poly 4 oddity_value).
  rewrite oddity_after_wait in H. discriminate.
Qed.
Print Assumptions C12_one_level_wait_complete_refuted.

(* the same expression with both occurrences of the base at the same depth does cancel:
   `.link e - s` is  (LA + 4) - LA *)
Example direct_spelling_cancels :
  is_const (wait_step oddity_sigma (sub (addc (pvar v_LA) 4) (pvar v_LA))) = true.
Proof. vm_compute. reflexivity. Qed.
