(* Props/T_directives.v -- the code translated from metacommands.word / dword and Compiler.compile_word_list
   (Gen/GenPureDirectives.v, regenerated on every run) equals the corresponding pieces of the hand model
   Model/Directives.v.  See the table in Props/T.v.  Only statements, each closed by [exact] of a lemma of
   Proofs/GenPureDirectivesP.v, then Print Assumptions. *)
From Coq Require Import String List ZArith NArith Bool.
From Verif Require Import Base.Res Base.Bytes Gen.GenGetAsInt Gen.GenPure Gen.GenPureDirectives Model.Directives Proofs.GenPureDirectivesP.
Import ListNotations.
Open Scope list_scope.
Open Scope Z_scope.

(* dword's encode_i32: struct.pack("<H", value >> 16) + struct.pack("<H", value & 0xffff), struct.error included *)
Theorem T_encode_i32_is_model : forall v, GenPureDirectives.encode_i32 v = Directives.encode_i32 v.
Proof. exact encode_i32_is_model. Qed.
Print Assumptions T_encode_i32_is_model.

(* the odd-address test and prefix byte; as_odd_prefix only reorders (bytes, identifiers) into the model's
   (diagnostics of severity E, bytes) *)
Theorem T_dword_prefix_is_model : forall addr, as_odd_prefix (dword_prefix addr) = odd_prefix addr.
Proof. exact dword_prefix_is_model. Qed.
Print Assumptions T_dword_prefix_is_model.

Theorem T_word_prefix_is_model : forall addr, as_odd_prefix (word_prefix addr) = odd_prefix addr.
Proof. exact word_prefix_is_model. Qed.
Print Assumptions T_word_prefix_is_model.

Theorem T_word_list_prefix_is_model : forall addr, as_odd_prefix (word_list_prefix addr) = odd_prefix addr.
Proof. exact word_list_prefix_is_model. Qed.
Print Assumptions T_word_list_prefix_is_model.

(* SizedDeferred[bytes](2 * len(insn_words), fn) *)
Theorem T_word_list_size_is_model : forall ws, announced (DWordList ws) = Some (word_list_size (length ws)).
Proof. exact word_list_size_is_model. Qed.
Print Assumptions T_word_list_size_is_model.

(* where the pieces sit in the model *)
Theorem T_dword_body_translated : forall addr vs,
  dword_body addr vs =
  match as_odd_prefix (dword_prefix addr) with
  | Ok (ds, pre) =>
      match vs with
      | [] => Out (ds ++ [(W, "implicit-operand"%string)]) (pre ++ [0; 0; 0; 0])
      | _ => after ds pre (of_res (pack_all GenPureDirectives.encode_i32 vs))
      end
  | Err _ => Crashed "unexpected"
  | Crash s => Crashed s
  | OutOfFuel => Crashed "fuel"
  end.
Proof. exact dword_body_translated. Qed.
Print Assumptions T_dword_body_translated.

Theorem T_word_body_translated : forall addr vs,
  word_body addr vs =
  match as_odd_prefix (word_prefix addr) with
  | Ok (ds, pre) =>
      match vs with
      | [] => Out (ds ++ [(W, "implicit-operand"%string)]) (pre ++ [0; 0])
      | _ => after ds pre (of_res (pack_all pack_H vs))
      end
  | Err _ => Crashed "unexpected"
  | Crash s => Crashed s
  | OutOfFuel => Crashed "fuel"
  end.
Proof. exact word_body_translated. Qed.
Print Assumptions T_word_body_translated.

Theorem T_word_list_translated : forall addr ws,
  word_list addr ws =
  let '(b, u, d) := site_word_list in
  match mapM (get_as_int b u d) ws with
  | Ok vs =>
      match as_odd_prefix (word_list_prefix addr) with
      | Ok (ds, pre) => after ds pre (of_res (pack_all pack_H vs))
      | Err _ => Crashed "unexpected"
      | Crash s => Crashed s
      | OutOfFuel => Crashed "fuel"
      end
  | Err ids => Raised (map (pair E) ids)
  | Crash s => Crashed s
  | OutOfFuel => Crashed "fuel"
  end.
Proof. exact word_list_translated. Qed.
Print Assumptions T_word_list_translated.

Example T_ex_directives :
  GenPureDirectives.encode_i32 65537 = Ok [1; 0; 1; 0] /\ GenPureDirectives.encode_i32 (-1) = Crash "struct.pack(<H)"
  /\ dword_prefix 513 = Ok ([0], ["odd-address"%string]) /\ word_list_prefix 512 = Ok ([], []) /\ word_list_size 3 = 6.
Proof. repeat split; reflexivity. Qed.
