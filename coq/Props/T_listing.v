(* Props/T_listing.v -- the code translated from Compiler.generate_listing's line format (Gen/GenPureListing.v,
   regenerated on every run) equals the hand model Model/ListingM.v.  See the table in Props/T.v.  Only statements,
   each closed by [exact] of a lemma of Proofs/GenPureListingP.v, then Print Assumptions. *)
From Coq Require Import String Ascii List ZArith NArith Bool.
From Verif Require Import Base.Res Gen.GenPure Gen.GenPureListing Model.ListingM Proofs.GenPureListingP.
Import ListNotations.
Open Scope list_scope.
Open Scope Z_scope.

(* ("-" if value < 0 else "") + oct(abs(value))[2:].rjust(6, "0"), with oct / slicing / rjust as read by the
   translator's prelude: its code points are those of the model's fmt_value, for every integer *)
Theorem T_listing_value_is_model : forall v, listing_value v = codes (fmt_value v).
Proof. exact listing_value_is_model. Qed.
Print Assumptions T_listing_value_is_model.

(* the prelude's oct() is the model's oct() on the non-negative integers (the only ones abs() yields) *)
Theorem T_py_oct_is_model : forall z, 0 <= z -> GenPure.py_oct z = codes (ListingM.py_oct z).
Proof. exact py_oct_is_model. Qed.
Print Assumptions T_py_oct_is_model.

Example T_ex_listing :
  listing_value 512 = codes "001000" /\ listing_value (-8) = codes "-000010" /\ listing_value 0 = codes "000000"
  /\ listing_value 2097152 = codes "10000000".
Proof. repeat split; reflexivity. Qed.
