(* C07 -- clauses of the property text that are FALSE of the faithful model of main_cli (and of the real
   command line: both witnesses are reproduced by tools/props/c07.py on every run and reported as
   KNOWN-FINDING).  Not obligations of the check. *)
From Coq Require Import String List NArith ZArith Bool.
From Verif Require Import Gen.GenReports Spec.ReportSpec Model.Reports Proofs.ReportsP.
Import ListNotations.
Open Scope string_scope.
Open Scope list_scope.

(* "a failed run creates or modifies no output or listing file" *)
Definition C07_clause_failed_run_writes_nothing : Prop :=
  forall args tr1 env, disciplined tr1 = true ->
  c_status (cli_run args tr1 env) <> 0%Z -> c_written (cli_run args tr1 env) = [].

(* known finding write-error-leaves-earlier-outputs:  nop / make_raw "ok.raw" / make_raw "nodir/x.raw" *)
Theorem C07_clause_failed_run_writes_nothing_refuted :
  exists args tr1 env, disciplined tr1 = true /\
  c_status (cli_run args tr1 env) <> 0%Z /\ c_error_reported (cli_run args tr1 env) = true /\
  c_written (cli_run args tr1 env) <> [].
Proof.
  exists [], [Return], (mk_env false [WOk; WReported "io-error"] PNone PNone).
  vm_compute. repeat split; discriminate.
Qed.
Print Assumptions C07_clause_failed_run_writes_nothing_refuted.

(* "a run reports failure only if an error-severity diagnostic was issued" *)
Definition C07_clause_failure_has_error_diagnostic : Prop :=
  forall args tr1 env, disciplined tr1 = true ->
  c_status (cli_run args tr1 env) <> 0%Z -> c_error_reported (cli_run args tr1 env) = true.

(* known finding cli-write-failure-exits-without-diagnostic:  -o out.bin --lst  with out.lst a directory
   (and then out.bin is left behind as well) *)
Theorem C07_clause_failure_has_error_diagnostic_refuted :
  exists args tr1 env, disciplined tr1 = true /\
  c_status (cli_run args tr1 env) <> 0%Z /\ c_error_reported (cli_run args tr1 env) = false /\
  c_written (cli_run args tr1 env) = [0%nat].
Proof.
  exists [], [Return], (mk_env false [] POk PFail).
  vm_compute. repeat split; discriminate.
Qed.
Print Assumptions C07_clause_failure_has_error_diagnostic_refuted.

(* the same before the assembly even starts: unknown --charset / unreadable source *)
Theorem C07_clause_failure_has_error_diagnostic_refuted_pre :
  exists args tr1 env, disciplined tr1 = true /\
  c_status (cli_run args tr1 env) <> 0%Z /\ c_error_reported (cli_run args tr1 env) = false.
Proof.
  exists [], [Return], (mk_env true [] PNone PNone). vm_compute. repeat split; discriminate.
Qed.
