(* C14 -- The BK charset is a bijection consistent with ASCII and KOI-8.
   Only statements, each closed by [exact] of a lemma from Proofs/, then Print Assumptions. *)
From Coq Require Import List NArith Bool.
From Verif Require Import Gen.GenBkTable Model.BkCodec Spec.Koi8 Proofs.BkCodecP.
Import ListNotations.
Open Scope N_scope.

(* the table has exactly 256 non-empty rows: decoding never indexes out of range *)
Theorem C14_table_256 :
  length decoding_table = 256%nat /\ forallb row_nonempty decoding_table = true.
Proof. exact table_256. Qed.
Print Assumptions C14_table_256.

(* byte -> character -> the same byte, for each of the 256 bytes *)
Theorem C14_byte_roundtrip :
  forall b, b < 256 -> exists c, bk_decode_byte b = Some c /\ bk_encode_char c = Some b.
Proof. exact byte_roundtrip. Qed.
Print Assumptions C14_byte_roundtrip.

(* ... and for byte strings of every length *)
Theorem C14_bytes_roundtrip :
  forall bs, Forall (fun b => b < 256) bs ->
  exists s, bk_decode bs = Some s /\ bk_encode s = EncOk bs.
Proof. exact bytes_roundtrip. Qed.
Print Assumptions C14_bytes_roundtrip.

(* coincides with ASCII on 0x00-0x7E, in both directions *)
Theorem C14_ascii :
  forall b, b <= 126 -> bk_decode_byte b = Some b /\ bk_encode_char b = Some b.
Proof. exact ascii_identity. Qed.
Print Assumptions C14_ascii.

(* coincides with KOI8-R on 0xC0-0xFF *)
Theorem C14_koi8 :
  forall b, 192 <= b < 256 -> exists c, bk_decode_byte b = Some c /\ koi8r b = Some c.
Proof. exact koi8_agrees. Qed.
Print Assumptions C14_koi8.

(* ... exactly, in both directions: whatever character is accepted for a byte of 0xC0-0xFF is the KOI8-R
   character of that byte (no aliases in that range, unlike '$' / U+00A4 at 0x24) *)
Theorem C14_koi8_exact :
  forall c b, bk_encode_char c = Some b -> 192 <= b -> koi8r b = Some c.
Proof. exact koi8_exact. Qed.
Print Assumptions C14_koi8_exact.

(* every code point outside the table -- no bound on c -- is refused *)
Theorem C14_refuses_outside :
  forall c, ~ In c bk_all_chars -> bk_encode_char c = None.
Proof. exact refuses_outside. Qed.
Print Assumptions C14_refuses_outside.

Theorem C14_accepts_inside :
  forall c, In c bk_all_chars -> exists b, bk_encode_char c = Some b /\ b < 256.
Proof. exact accepts_inside. Qed.
Print Assumptions C14_accepts_inside.

(* an accepted character is one of the spellings of the byte it is given *)
Theorem C14_encode_sound :
  forall c b, bk_encode_char c = Some b ->
  exists r, nth_error decoding_table (N.to_nat b) = Some r /\ In c r.
Proof. exact (encode_char_sound decoding_table). Qed.
Print Assumptions C14_encode_sound.

(* a string encodes iff every character does, character by character *)
Theorem C14_encode_ok_iff :
  forall s bs, bk_encode s = EncOk bs <-> Forall2 (fun c b => bk_encode_char c = Some b) s bs.
Proof. exact (encode_ok_iff decoding_table). Qed.
Print Assumptions C14_encode_ok_iff.

(* the encoding error names the offending positions: [a] is the first unencodable character,
   [e-1] the last one, and the range lies inside the string *)
Theorem C14_error_span :
  forall s a e, bk_encode s = EncError a e ->
  (a < e <= length s)%nat /\
  (exists c, nth_error s a = Some c /\ encodable decoding_table c = false) /\
  (exists c, nth_error s (e - 1) = Some c /\ encodable decoding_table c = false) /\
  (forall k c, (k < a)%nat -> nth_error s k = Some c -> encodable decoding_table c = true) /\
  (forall k c, (e <= k)%nat -> nth_error s k = Some c -> encodable decoding_table c = true).
Proof. exact (encode_error_span decoding_table). Qed.
Print Assumptions C14_error_span.

(* non-vacuity: a string with two unencodable characters (U+20AC, U+1F600) hits the error case *)
Example C14_error_span_nonvacuous :
  bk_encode [65; 8364; 66; 128512; 67] = EncError 1 4.
Proof. vm_compute. reflexivity. Qed.
Example C14_cyrillic_example : bk_encode [1055; 1088; 1080] = EncOk [240; 210; 201].
Proof. vm_compute. reflexivity. Qed.
