(* C04 (addendum) -- numeric branch operands are local labels: what OffsetOperandStub.encode's
   label fixup does, on the token-tree model Model/TreeCache.v.
   Only statements, each closed by [exact] of a lemma from Proofs/TreeCacheFixupP.v.

   Tie: the source of the fixup ('if isinstance(operand, Number) and operand.is_valid_label: ...
   elif "(" not in operand.text() and ":" not in operand.text(): def fixup_label ...') is PINNED by
   tools/gens/gen_treecache.py (Gen/GenTreeCachePins.v, imported by Model/TreeCache.v): an edit aborts
   the translator.  The model ([fixup], [br_operand], [compile_br]) is tied to the code by the C16
   correspondence sweep (branch operands of generated '.repeat' bodies, both base modes).

   Traversal order of fixup_label = [scan]: leaves in the order lhs-before-rhs for every infix
   operator and for a call, the operand of a prefix / postfix operator; a bracketed group <...> is
   ONE leaf (not entered); '(' or ':' anywhere in the operand's text switches the fixup off. *)
From Coq Require Import ZArith List String Bool.
From Verif Require Import Base.Res Model.TreeCache Proofs.TreeCacheP Proofs.TreeCacheFixupP.
Import ListNotations.
Open Scope string_scope.
Open Scope list_scope.

(* a bare label-shaped number is compiled as the local-label Symbol whose NAME is the number as
   written ([representation]), whatever its value: 'br 10' looks up label "10", not "8" *)
Theorem C04_bare_number_is_local_label :
  forall bits uns txt env dot rel r v b8 rep,
    br_operand txt (Num r v true b8 rep) = Sym r true
    /\ enc_of (compile_br bits uns txt env dot rel (Num r v true b8 rep))
       = enc_of (compile_br bits uns txt env dot rel (Sym r true)).
Proof. exact bare_number_both. Qed.
Print Assumptions C04_bare_number_is_local_label.

(* ... so the branch is computed from the address bound to that name *)
Theorem C04_bare_number_lookup :
  forall bits uns txt env dot rel r v b8 rep target,
    env r = Some target ->
    enc_of (compile_br bits uns txt env dot rel (Num r v true b8 rep))
    = Ok (fst (offset_field bits uns (target - rel)%Z), [], snd (offset_field bits uns (target - rel)%Z)).
Proof. exact bare_number_lookup. Qed.
Print Assumptions C04_bare_number_lookup.

(* fixup_label completely: started with the flag set it rewrites the leaf at index [target (scan t)]
   -- the first label-shaped number that is met before any Symbol / '.' -- and nothing else; started
   with the flag clear it rewrites nothing; the flag stays set iff only neutral leaves were met *)
Theorem C04_fixup_spec :
  forall t act,
    fixup act t = ((if act then match target (scan t) with Some k => rewrite_at k t | None => t end else t),
                   act && forallb is_neutral (scan t)).
Proof. exact fixup_spec. Qed.
Print Assumptions C04_fixup_spec.

(* the operand compiled for a text without '(' and ':' (not a bare label-shaped number) *)
Theorem C04_fixup_first_label_number :
  forall t, is_toplabel t = false ->
    br_operand false t = match target (scan t) with Some k => rewrite_at k t | None => t end.
Proof. exact fixup_first_label_number. Qed.
Print Assumptions C04_fixup_first_label_number.

(* the leaf chosen is a label-shaped number and only neutral leaves (numbers that cannot be labels,
   character literals, bracketed groups) precede it *)
Theorem C04_fixup_target_is_first :
  forall l k, target l = Some k ->
    is_label_number (nth k l Dot) = true /\ forallb is_neutral (firstn k l) = true.
Proof. exact target_sound. Qed.
Print Assumptions C04_fixup_target_is_first.

(* exactly that leaf becomes the Symbol named by its representation; every other leaf -- in
   particular every other Number -- is what it was *)
Theorem C04_fixup_touches_one_leaf :
  forall t k, (k < List.length (scan t))%nat ->
    scan (rewrite_at k t) = firstn k (scan t) ++ as_label (nth k (scan t) Dot) :: skipn (S k) (scan t).
Proof. exact rewrite_at_scan. Qed.
Print Assumptions C04_fixup_touches_one_leaf.

(* nothing is rewritten iff every label-shaped number is preceded by a Symbol or '.' (or there is none) *)
Theorem C04_fixup_none_after_symbol :
  forall l, target l = None <->
    (forall k, is_label_number (nth k l Dot) = true -> (k < List.length l)%nat ->
               exists j, (j < k)%nat /\ is_stop (nth j l Dot) = true).
Proof. exact target_none. Qed.
Print Assumptions C04_fixup_none_after_symbol.

(* with '(' or ':' in the text the operand is taken as written *)
Theorem C04_fixup_off_with_parens :
  forall t, is_toplabel t = false -> br_operand true t = t.
Proof. exact fixup_not_with_parens. Qed.
Print Assumptions C04_fixup_off_with_parens.

(* ---------------------------------------------------------------------------------------------- *)
(* the four spellings, checked against the real code (operand left in the instruction after compiling) *)
Definition n (r : string) (v : Z) (vl : bool) : tree := Num r v vl false false.

(* '1 + 2'  : address of local label 1, plus two *)
Example C04_fixup_1_plus_2 :
  br_operand false (Infix "+" (n "1" 1 true) (n "2" 2 true) None) = Infix "+" (Sym "1" true) (n "2" 2 true) None.
Proof. reflexivity. Qed.

(* 'a + 2'  : a symbol comes first, nothing is rewritten *)
Example C04_fixup_a_plus_2 :
  br_operand false (Infix "+" (Sym "a" false) (n "2" 2 true) None) = Infix "+" (Sym "a" false) (n "2" 2 true) None.
Proof. reflexivity. Qed.

(* '8. + 1' : '8.' cannot be a label and is skipped; the 1 is the label (the code after fix f2a9199) *)
Example C04_fixup_8dot_plus_1 :
  br_operand false (Infix "+" (n "8." 8 false) (n "1" 1 true) None) = Infix "+" (n "8." 8 false) (Sym "1" true) None.
Proof. reflexivity. Qed.

(* '<1>+2'  : the bracketed group is left alone, the 2 is the label *)
Example C04_fixup_group_plus_2 :
  br_operand false (Infix "+" (Paren "<" (n "1" 1 true)) (n "2" 2 true) None)
  = Infix "+" (Paren "<" (n "1" 1 true)) (Sym "2" true) None.
Proof. reflexivity. Qed.

(* 'br 10' with '10:' at 512 and the branch at 514: target is label "10" (not value 8) -> offset -4 -> field -2 *)
Example C04_br_10 :
  enc_of (compile_br 8 false false (fun s => if String.eqb s "10" then Some 512%Z else None) 514 516 (n "10" 8 true))
  = Ok ((-2)%Z, [], []).
Proof. vm_compute. reflexivity. Qed.
