(* C08 -- every input ends in a result or a reported error.  PARTIAL by nature: no theorem here quantifies over
   source texts (the parser and the statement compiler are not modelled character by character); that part is
   explored, not proved (tools/props/c08.py).  What is proved:

   (1) the lazy-evaluation core (pdpy11/deferred.py: wait, Awaiting, Deferred._wait, Promise._wait, TryCompute)
       as the fuelled model Model/WaitModel.v -- over every finite graph of deferred objects, cyclic or not;
   (2) the Python partial operations reachable from input, under the guards the code has now (Model/Partial.v).

   Only statements, each closed by [exact] of a lemma from Proofs/, then Print Assumptions. *)
From Coq Require Import String List ZArith NArith Bool.
From Verif Require Import Base.Res Base.Bytes Model.WaitModel Proofs.WaitP.
Import ListNotations.
Open Scope nat_scope.

(* ---- (1) wait() ------------------------------------------------------------------------------------------ *)

(* Termination: with the explicit fuel (|G| + 1) * (bound + 2) the model never runs out of fuel -- for every
   graph (also cyclic ones, dangling references, unsettled promises), every start node, every bound of the
   `seen` list, speculating or not, from every state whose flag list has the graph's length.
   (The real loop is bounded the same way: each nesting level either sets one more is_awaiting flag or
   lengthens `seen`, and both are bounded.) *)
Theorem C08_wait_terminates :
  forall (bound : nat) (spec : bool) (G : graph) (fuel : nat) (st : state) (i : nat),
    length (awaiting st) = length G ->
    fuel >= fuel_bound bound G ->
    wait bound spec G fuel st i <> RFuel.
Proof. exact wait_terminates_lemma. Qed.
Print Assumptions C08_wait_terminates.

(* Every is_awaiting flag has its old value again after any outcome (value, DeferredCycle, NotReadyError, the
   fatal Exception) -- so a reported cycle does not poison later evaluations. *)
Theorem C08_flags_restored :
  forall (bound : nat) (spec : bool) (G : graph) (fuel : nat) (st : state) (seen : list nat) (i : nat),
    match wait_top bound spec G fuel st seen i with
    | RFuel => True
    | RVal _ st' | RRaise _ st' => awaiting st' = awaiting st
    end.
Proof. exact wait_top_flags. Qed.
Print Assumptions C08_flags_restored.

(* A value returned by wait() satisfies the dependency equations of the graph (value_of is their least
   solution), whatever was settled before, and leaves the settled table sound. *)
Theorem C08_wait_result_sound :
  forall (G : graph) (bound : nat) (spec : bool) (fuel : nat) (st : state) (seen : list nat) (i : nat),
    settled_sound G st ->
    match wait_top bound spec G fuel st seen i with
    | RVal z st' => value_of G i z /\ settled_sound G st'
    | RRaise _ st' => settled_sound G st'
    | RFuel => True
    end.
Proof. exact wait_top_sound. Qed.
Print Assumptions C08_wait_result_sound.

(* ... and that solution is unique. *)
Theorem C08_value_unique :
  forall (G : graph) (i : nat) (z z' : Z), value_of G i z -> value_of G i z' -> z = z'.
Proof. exact (fun G i z z' H H' => proj1 (value_unique_both G) i z H z' H'). Qed.
Print Assumptions C08_value_unique.

(* DeferredCycle, from a clean start, is only ever raised when the start node reaches a cycle of the graph
   (through dependencies or yielded objects), or when a chain of yielded objects is at least `bound` long
   (the `len(seen) >= 1000` clause). *)
Theorem C08_cycle_reported_only_for_cycles :
  forall (G : graph) (bound : nat) (spec : bool) (fuel : nat) (i : nat) (st' : state),
    wait bound spec G fuel (init_state G) i = RRaise ECycle st' ->
    reaches_cycle G i \/ long_forward G bound.
Proof. exact cycle_sound. Qed.
Print Assumptions C08_cycle_reported_only_for_cycles.

(* Conversely a closed graph (no dangling reference, every promise settled) that is acyclic (a rank decreases
   along every edge) and whose chains of yielded objects are shorter than `bound` gets a value -- the solution
   of the equations -- and never DeferredCycle, NotReadyError or the fatal Exception. *)
Theorem C08_acyclic_gets_value :
  forall (G : graph) (bound : nat) (spec : bool) (rank flen : nat -> nat),
    closed G -> ranked G bound rank flen ->
    forall fuel i, i < length G -> fuel >= fuel_bound bound G ->
    exists z st', wait bound spec G fuel (init_state G) i = RVal z st' /\ value_of G i z /\
                  awaiting st' = awaiting (init_state G).
Proof. exact acyclic_value. Qed.
Print Assumptions C08_acyclic_gets_value.

(* `with try_compute:` swallows exactly NotReadyError and DeferredCycle; whatever happened, the flags are back *)
Theorem C08_try_compute_flags :
  forall (bound : nat) (G : graph) (fuel : nat) (st : state) (i : nat),
    match try_wait bound G fuel st i with
    | TVal _ st' | TSwallowed st' | TCrash st' => awaiting st' = awaiting st
    | TFuel => True
    end.
Proof. exact try_wait_flags. Qed.
Print Assumptions C08_try_compute_flags.

(* while speculating (try_compute.depth > 0) an unsettled Promise gives NotReadyError, never the fatal
   Exception: in a graph without dangling references wait() cannot raise it at all *)
Theorem C08_speculation_never_fatal :
  forall (bound : nat) (G : graph) (fuel : nat) (st : state) (seen : list nat) (i : nat) (st' : state),
    (forall k nd, nth_error G k = Some nd ->
       match nd with
       | NConst (NFwd j) => j < length G
       | NFn deps g => (forall d, In d deps -> d < length G) /\ (forall vals j, g vals = NFwd j -> j < length G)
       | _ => True
       end) ->
    settled_sound G st -> i < length G ->
    wait_top bound true G fuel st seen i <> RRaise ECrash st'.
Proof. exact spec_no_crash_closed. Qed.
Print Assumptions C08_speculation_never_fatal.

(* the hypotheses are satisfiable by non-trivial instances: 'a = b + 1 / b = 5 / c = a' evaluates to 6 through a
   yielded object; 'a = a' and 'a = b+1 / b = a+1' end in DeferredCycle with the model's own fuel bound *)
Example C08_example_value :
  let G := [NFn [1] (fun vs => NVal (1 + fold_left Z.add vs 0)%Z); NConst (NVal 5%Z); NFn [] (fun _ => NFwd 0)] in
  match wait py_bound false G (fuel_bound py_bound G) (init_state G) 2 with RVal 6%Z _ => True | _ => False end.
Proof. vm_compute. exact I. Qed.
Example C08_example_self_cycle :
  let G := [NFn [] (fun _ => NFwd 0)] in
  match wait py_bound false G (fuel_bound py_bound G) (init_state G) 0 with RRaise ECycle _ => True | _ => False end.
Proof. vm_compute. exact I. Qed.
Example C08_example_mutual_cycle :
  let G := [NFn [1] (fun vs => NVal (1 + fold_left Z.add vs 0)%Z); NFn [0] (fun vs => NVal (1 + fold_left Z.add vs 0)%Z)] in
  match wait py_bound false G (fuel_bound py_bound G) (init_state G) 0 with RRaise ECycle _ => True | _ => False end.
Proof. vm_compute. exact I. Qed.
