(* C08 -- every input ends in a result or a reported error.  PARTIAL by nature: no theorem here quantifies over
   source texts (the parser and the statement compiler are not modelled character by character); that part is
   explored, not proved (tools/props/c08.py).  What is proved:

   (1) the lazy-evaluation core (pdpy11/deferred.py: wait, Awaiting, Deferred._wait, Promise._wait, TryCompute)
       as the fuelled model Model/WaitModel.v -- over every finite graph of deferred objects, cyclic or not;
   (2) the Python partial operations reachable from input, under the guards the code has now (Model/Partial.v).

   Only statements, each closed by [exact] of a lemma from Proofs/, then Print Assumptions.

   NOT CLAIMED here (explored by tools/props/c08.py, never proved):
     * "no source text crashes / hangs / fails silently": there is no model of the parser, of compile_block, of the
       instruction and directive compilers as a whole, of LinearPolynomial/Concatenator arithmetic, of the report
       handlers or of the command line; C08_no_crash_partial below is only about the listed operations, each taken
       in isolation with the guard that surrounds it in the source (pinned by tools/gens/gen_partial.py);
     * that the graphs of deferred objects a real program builds are finite and closed (the theorems about wait()
       hold for every finite graph, but that programs only build such graphs is not proved);
     * Python's recursion limit and memory: the model's recursion is bounded by fuel only, CPython's by ~1000 frames.  Since
       fix 291322a a RecursionError / MemoryError inside compile_and_link_files is turned into the reported error
       'too-complex' (a refusal with a diagnostic, which C08 allows): e.g. the use-first product chain of 60 definitions.
       That wrapper is not modelled; deep nesting in the parser (outside G's depth 8) is not guarded by it;
     * memory and time: C08_wait_terminates bounds the number of steps of the loop, not the cost of a step
       (integer sizes, polynomial substitution), cf. the exponential non-additive rings found by the exploration. *)
From Coq Require Import String List ZArith NArith Bool.
From Verif Require Import Base.Res Base.Bytes Gen.GenGetAsInt Gen.GenMeta Gen.GenPartial Model.WaitModel Proofs.WaitP Model.Partial Proofs.PartialP.
From Verif Require Gen.GenOperators.
Import ListNotations.
Open Scope nat_scope.

(* ---- (1) wait() ------------------------------------------------------------------------------------------ *)

(* Termination: with the explicit fuel (|G| + 1) * (bound + 2) -- bound is N1, the `seen` bound; the second counter
   can only stop the loop earlier, so the fuel does not depend on it -- the model never runs out of fuel, for every
   graph (also cyclic ones, dangling references, unsettled promises), every start node, every bound of the
   `seen` list, speculating or not, from every state whose flag list has the graph's length.
   (The real loop is bounded the same way: each nesting level either sets one more is_awaiting flag or
   lengthens `seen`, and both are bounded.) *)
Theorem C08_wait_terminates :
  forall (um : bool) (bound bound2 : nat) (isp : nat -> bool) (spec : bool) (G : graph) (fuel : nat) (st : state) (i : nat),
    length (awaiting st) = length G ->
    fuel >= fuel_bound bound G ->
    wait um bound bound2 isp spec G fuel st i <> RFuel.
Proof. exact wait_terminates_lemma. Qed.
Print Assumptions C08_wait_terminates.

(* Every is_awaiting flag has its old value again after any outcome (value, DeferredCycle, NotReadyError, the
   fatal Exception) -- so a reported cycle does not poison later evaluations. *)
Theorem C08_flags_restored :
  forall (um : bool) (bound bound2 : nat) (isp : nat -> bool) (spec : bool) (G : graph) (fuel : nat) (st : state) (seen : list nat) (p i : nat),
    match wait_top um bound bound2 isp spec G fuel st seen p i with
    | RFuel => True
    | RVal _ st' | RRaise _ st' => awaiting st' = awaiting st
    end.
Proof. exact wait_top_flags. Qed.
Print Assumptions C08_flags_restored.

(* A value returned by wait() satisfies the dependency equations of the graph (value_of is their least
   solution), whatever was settled before, and leaves the settled table sound. *)
Theorem C08_wait_result_sound :
  forall (G : graph) (um : bool) (bound bound2 : nat) (isp : nat -> bool) (spec : bool) (fuel : nat) (st : state) (seen : list nat) (p i : nat),
    settled_sound G st ->
    match wait_top um bound bound2 isp spec G fuel st seen p i with
    | RVal z st' => value_of G i z /\ settled_sound G st'
    | RRaise _ st' => settled_sound G st'
    | RFuel => True
    end.
Proof. exact wait_top_sound. Qed.
Print Assumptions C08_wait_result_sound.

(* ... and that solution is unique. *)
Theorem C08_value_unique :
  forall (G : graph) (i : nat) (z z' : Z), value_of G i z -> value_of G i z' -> z = z'.
Proof. exact (fun G i z z' H H' => proj1 (value_unique_both G) i z H z' H'). Qed.
Print Assumptions C08_value_unique.

(* DeferredCycle, from a clean start, is only ever raised when the start node reaches a cycle of the graph
   (through dependencies or yielded objects), or when a chain of yielded objects is at least `bound` long
   (the `len(seen) >= N1` clause; N1 = Gen.GenPartial.wait_seen_bound), or when such a chain contains at least
   `bound2` steps in which a LinearPolynomial yields a LinearPolynomial (the `polynomial_steps >= N2` clause;
   N2 = wait_poly_bound; the code counts all such steps of the chain, consecutive or not, and so does long_poly).
   Both chains are rooted: they start at the node i that is waited for or at a node reachable from i (a
   dependency evaluated on the way) -- a long chain elsewhere in the graph cannot justify the exception. *)
Theorem C08_cycle_reported_only_for_cycles :
  forall (G : graph) (um : bool) (bound bound2 : nat) (isp : nat -> bool) (spec : bool) (fuel : nat) (i : nat) (st' : state),
    wait um bound bound2 isp spec G fuel (init_state G) i = RRaise ECycle st' ->
    reaches_cycle G i \/ long_forward G i bound \/ long_poly G isp i bound2.
Proof. exact cycle_sound. Qed.
Print Assumptions C08_cycle_reported_only_for_cycles.

(* Conversely a closed graph (no dangling reference, every promise settled) that is acyclic (a rank decreases
   along every edge) and whose chains of yielded objects are shorter than `bound` gets a value -- the solution
   of the equations -- and never DeferredCycle, NotReadyError or the fatal Exception.  [ranked] also asks for
   plen, a bound below N2 of the polynomial-yields-polynomial steps on every chain: a chain of plain aliases
   (no polynomial) of up to N1 - 1 links satisfies it with plen = 0. *)
Theorem C08_acyclic_gets_value :
  forall (G : graph) (um : bool) (bound bound2 : nat) (isp : nat -> bool) (spec : bool) (rank flen plen : nat -> nat),
    closed G -> ranked G bound bound2 isp rank flen plen ->
    forall fuel i, i < length G -> fuel >= fuel_bound bound G ->
    exists z st', wait um bound bound2 isp spec G fuel (init_state G) i = RVal z st' /\ value_of G i z /\
                  awaiting st' = awaiting (init_state G).
Proof. exact acyclic_value. Qed.
Print Assumptions C08_acyclic_gets_value.

(* `with try_compute:` swallows exactly NotReadyError and DeferredCycle; whatever happened, the flags are back *)
Theorem C08_try_compute_flags :
  forall (bound bound2 : nat) (isp : nat -> bool) (G : graph) (fuel : nat) (st : state) (i : nat),
    match try_wait bound bound2 isp G fuel st i with
    | TVal _ st' | TSwallowed st' | TCrash st' => awaiting st' = awaiting st
    | TFuel => True
    end.
Proof. exact try_wait_flags. Qed.
Print Assumptions C08_try_compute_flags.

(* while speculating (try_compute.depth > 0) an unsettled Promise gives NotReadyError, never the fatal
   Exception: in a graph without dangling references wait() cannot raise it at all *)
Theorem C08_speculation_never_fatal :
  forall (um : bool) (bound bound2 : nat) (isp : nat -> bool) (G : graph) (fuel : nat) (st : state) (seen : list nat) (p i : nat) (st' : state),
    (forall k nd, nth_error G k = Some nd ->
       match nd with
       | NConst (NFwd j) => j < length G
       | NFn deps g => (forall d, In d deps -> d < length G) /\ (forall vals j, g vals = NFwd j -> j < length G)
       | _ => True
       end) ->
    settled_sound G st -> i < length G ->
    wait_top um bound bound2 isp true G fuel st seen p i <> RRaise ECrash st'.
Proof. exact spec_no_crash_closed. Qed.
Print Assumptions C08_speculation_never_fatal.

(* The not_ready_yet memo of TryCompute (fix 9baed24; `um` above is "the memo is in use", every theorem of this part holds
   for both values).  Three statements about what makes it safe:
   (a) a real evaluation (depth 0) neither reads nor writes it: the two loops are the same function;
   (b) whenever the memoised evaluation yields a value, the evaluation without the memo yields the same value in the
       same state (the memo was never hit on the way);
   (c) inside one speculation (memo emptied at its start, settled table sound) a NotReadyError of the memoised
       evaluation -- by a memo hit or otherwise -- means that the object has no value at all: no evaluation of it, with
       or without the memo, speculative or real, from any sound state, returns one.  The memo only postpones.
   NOT proved: a cost statement.  The model has speculation only around a whole wait(); the nested `with try_compute`
   blocks inside LinearPolynomial._wait / symbolic_product, which are what made the product chain 2**n before the fix and
   linear after it, are not modelled; that part is covered by the exploration (DAG-shaped definition chains under the
   watchdog) and by the reverse patch revert-C08-exponential-product. *)
Theorem C08_memo_real_unaffected :
  forall (bound bound2 : nat) (isp : nat -> bool) (G : graph) (fuel : nat) (st : state) (seen : list nat) (p i : nat),
    wait_top true bound bound2 isp false G fuel st seen p i = wait_top false bound bound2 isp false G fuel st seen p i.
Proof. exact memo_real_unaffected. Qed.
Print Assumptions C08_memo_real_unaffected.

Theorem C08_memo_only_postpones :
  forall (bound bound2 : nat) (isp : nat -> bool) (spec : bool) (G : graph) (fuel : nat) (st : state) (seen : list nat) (p i : nat) (z : Z) (st' : state),
    wait_top true bound bound2 isp spec G fuel st seen p i = RVal z st' ->
    wait_top false bound bound2 isp spec G fuel st seen p i = RVal z st'.
Proof. exact memo_only_postpones_lemma. Qed.
Print Assumptions C08_memo_only_postpones.

Theorem C08_memo_never_hides_a_value :
  forall (G : graph) (bound bound2 : nat) (isp : nat -> bool) (fuel : nat) (st : state) (i : nat) (st' : state),
    settled_sound G st ->
    wait true bound bound2 isp true G fuel (clear_memo st) i = RRaise ENotReady st' ->
    (forall z, ~ value_of G i z) /\
    (forall um' b1 b2 isp' spec' fuel' s seen p z s', settled_sound G s ->
       wait_top um' b1 b2 isp' spec' G fuel' s seen p i <> RVal z s').
Proof. exact memo_never_hides_a_value. Qed.
Print Assumptions C08_memo_never_hides_a_value.

(* non-vacuity: 'b = a + 1' with a an unsettled promise: the speculation remembers both objects and says NotReadyError *)
Example C08_memo_example :
  let G := [NFn [1] (fun vs => NVal (1 + fold_left Z.add vs 0)%Z); NUnsettled] in
  match wait true wait_seen_bound wait_poly_bound (fun _ => false) true G (fuel_bound wait_seen_bound G) (init_state G) 0 with
  | RRaise ENotReady st' => memo st' = [true; true]
  | _ => False
  end.
Proof. vm_compute. reflexivity. Qed.

(* the hypotheses are satisfiable by non-trivial instances: 'a = b + 1 / b = 5 / c = a' evaluates to 6 through a
   yielded object; 'a = a' and 'a = b+1 / b = a+1' end in DeferredCycle with the model's own fuel bound *)
Example C08_example_value :
  let G := [NFn [1] (fun vs => NVal (1 + fold_left Z.add vs 0)%Z); NConst (NVal 5%Z); NFn [] (fun _ => NFwd 0)] in
  match wait true wait_seen_bound wait_poly_bound (fun _ => false) false G (fuel_bound wait_seen_bound G) (init_state G) 2 with RVal 6%Z _ => True | _ => False end.
Proof. vm_compute. exact I. Qed.
Example C08_example_self_cycle :
  let G := [NFn [] (fun _ => NFwd 0)] in
  match wait true wait_seen_bound wait_poly_bound (fun _ => false) false G (fuel_bound wait_seen_bound G) (init_state G) 0 with RRaise ECycle _ => True | _ => False end.
Proof. vm_compute. exact I. Qed.
Example C08_example_mutual_cycle :
  let G := [NFn [1] (fun vs => NVal (1 + fold_left Z.add vs 0)%Z); NFn [0] (fun vs => NVal (1 + fold_left Z.add vs 0)%Z)] in
  match wait true wait_seen_bound wait_poly_bound (fun _ => false) false G (fuel_bound wait_seen_bound G) (init_state G) 0 with RRaise ECycle _ => True | _ => False end.
Proof. vm_compute. exact I. Qed.

(* ---- (2) Python partial operations under the guards the code has now -------------------------------------- *)
(* The per-operation theorems below are summarised as C08_no_crash_partial at the end of this section:
   "partial" because they list the raising operations of the *modelled* sites (those that take
   a value computed from the input), not of the whole program; what is missing is the parser's and the statement
   compiler's control flow around them (explored, not proved).  Every statement is over unbounded Z / lists of any
   length; the bodies of the operators, of .align/.even/.odd and of get_as_int are the regenerated Gen definitions. *)
Open Scope Z_scope.

(* x % c in .align (c = 0 is reported), .even, .odd *)
Theorem C08_align_no_crash : forall addr count s, body_align addr count <> Crash s.
Proof. exact align_no_crash. Qed.
Print Assumptions C08_align_no_crash.
Theorem C08_even_odd_no_crash : forall addr s, body_even addr <> Crash s /\ body_odd addr <> Crash s.
Proof. exact (fun addr s => conj (even_no_crash addr s) (odd_no_crash addr s)). Qed.
Print Assumptions C08_even_odd_no_crash.

(* a // b and a % b under try/except ZeroDivisionError; shifts only with a non-negative count.  Since fix a3755b4 the shifts go
   through times_power_of_two, which REFUSES a count beyond MAX_SHIFT (2**16) by raising MemoryError: that refusal is the only
   Crash an operator body can return (`<<` and `_`; `>>` with a negative count has already reported arithmetic-error, so its
   refusal stays a reported error), and the wrapper of compile_and_link_files (fix 291322a, not modelled) turns it into the
   reported error 'too-complex'.  Within the bound nothing crashes. *)
Theorem C08_operators_no_crash :
  forall a b s,
    GenOperators.body_div a b <> Crash s /\ GenOperators.body_mod a b <> Crash s /\
    GenOperators.body_rshift a b <> Crash s /\
    (GenOperators.body_lshift a b = Crash s -> s = "MemoryError"%string /\ GenOperators.MAX_SHIFT < b) /\
    (GenOperators.body_lsh a b = Crash s -> s = "MemoryError"%string /\ GenOperators.MAX_SHIFT < b).
Proof.
  exact (fun a b s => conj (div_no_crash a b s) (conj (mod_no_crash a b s) (conj (rshift_no_crash a b s)
          (conj (lshift_crash a b s) (lsh_crash a b s))))).
Qed.
Print Assumptions C08_operators_no_crash.
Theorem C08_shifts_within_bound_no_crash :
  forall a b s, b <= GenOperators.MAX_SHIFT ->
    GenOperators.body_lshift a b <> Crash s /\ GenOperators.body_lsh a b <> Crash s.
Proof. exact shifts_within_bound_no_crash. Qed.
Print Assumptions C08_shifts_within_bound_no_crash.

(* struct.pack("<H"/"<B") always gets a value in range: after get_as_int with the directive's typing, after
   `% 2**16` for relative operands, after the default 0 of `.ascii <n>` *)
Theorem C08_pack_no_crash :
  forall v s,
    pack_word v <> Crash s /\ pack_byte v <> Crash s /\ pack_dword v <> Crash s /\
    ascii_chunk v <> Crash s /\ pack_relative v <> Crash s.
Proof.
  exact (fun v s => conj (pack_word_no_crash v s) (conj (pack_byte_no_crash v s) (conj (pack_dword_no_crash v s)
          (conj (ascii_chunk_no_crash v s) (pack_relative_no_crash v s))))).
Qed.
Print Assumptions C08_pack_no_crash.
Theorem C08_data_typing : typing_ok = true.
Proof. exact typing_ok_true. Qed.
Print Assumptions C08_data_typing.
Theorem C08_get_as_int_no_crash :
  forall bitness unsigned default v s,
    (match bitness with Some n => 0 <= n | None => True end) -> get_as_int bitness unsigned default v <> Crash s.
Proof. exact gai_no_crash. Qed.
Print Assumptions C08_get_as_int_no_crash.

(* chr(code) in a '<n>' chunk: both exception classes chr can raise are caught (every integer, no bound) *)
Theorem C08_chr_no_crash : forall code s, site_chr code <> Crash s.
Proof. exact site_chr_no_crash. Qed.
Print Assumptions C08_chr_no_crash.

(* TABLE.index: in .rad50 inside try/except ValueError, for every code point (non-ASCII ones raise ValueError explicitly) ... *)
Theorem C08_rad50_char_no_crash : forall (c : N) s, site_rad50_char c <> Crash s.
Proof. exact site_rad50_char_no_crash. Qed.
Print Assumptions C08_rad50_char_no_crash.
(* ... and after ^R only on characters the (case-sensitive, explicitly listed) regex admits *)
Theorem C08_rad50_literal_no_crash :
  forall (chars : list N) s,
    Forall (fun c => nmem c rad50_literal_class = true) chars -> rad50_literal chars <> Crash s.
Proof. exact rad50_literal_no_crash. Qed.
Print Assumptions C08_rad50_literal_no_crash.

(* int(num, base): after ^X ^O ^B ^D on the digits their regex class admits; bare numbers under isdigit() and,
   for base 8, after the 8/9 branch returned; 0x.. in try/except ValueError; \xHH on two characters of its class
   (and chr of the result is in range) *)
Theorem C08_prefixed_number_no_crash :
  forall prefix cls base (digits : list N) s,
    In (prefix, cls, base) radix_classes -> digits <> [] -> Forall (fun c => In c cls) digits ->
    py_int digits base <> Crash s.
Proof. exact prefixed_number_no_crash. Qed.
Print Assumptions C08_prefixed_number_no_crash.
Theorem C08_bare_number_no_crash :
  forall num s,
    (decimal_guard num = true -> site_bare_decimal num <> Crash s) /\
    (octal_guard num = true -> site_bare_octal num <> Crash s).
Proof. exact (fun num s => conj (bare_decimal_no_crash num s) (bare_octal_no_crash num s)). Qed.
Print Assumptions C08_bare_number_no_crash.
Theorem C08_lexer_digits_are_ascii : forallb (fun c => (c <? 128)%N) local_symbol_class = true.
Proof. exact local_symbol_class_ascii. Qed.
Print Assumptions C08_lexer_digits_are_ascii.
Theorem C08_c_style_number_no_crash : forall digits base s, site_c_style digits base <> Crash s.
Proof. exact c_style_no_crash. Qed.
Print Assumptions C08_c_style_number_no_crash.
Theorem C08_hex_escape_no_crash :
  forall a b, In a hex_escape_class -> In b hex_escape_class ->
    exists z c, py_int [a; b] 16 = Ok z /\ py_chr z = Ok c.
Proof. exact hex_escape_no_crash. Qed.
Print Assumptions C08_hex_escape_no_crash.

(* {"s": "first", "d": "second"}[pattern_char]: the stubs are only constructed with letters that are keys *)
Theorem C08_pattern_letter_lookup_no_crash :
  forall c s,
    (In c reg_stub_chars -> dict_lookup reg_stub_keys c <> Crash s) /\
    (In c acc_stub_chars -> dict_lookup acc_stub_keys c <> Crash s).
Proof. exact (fun c s => conj (reg_lookup_no_crash c s) (acc_lookup_no_crash c s)). Qed.
Print Assumptions C08_pattern_letter_lookup_no_crash.

(* the family in one statement.  PARTIAL: it says that none of the *modelled, guarded* partial operations can raise -- with ONE
   exception spelled out: `<<` / `_` by more than MAX_SHIFT raise MemoryError on purpose (a refusal that the unmodelled wrapper of
   compile_and_link_files reports as 'too-complex') -- not that no input crashes the assembler (see NOT CLAIMED at the top) *)
Theorem C08_no_crash_partial :
  (forall addr count s, body_align addr count <> Crash s) /\
  (forall addr s, body_even addr <> Crash s /\ body_odd addr <> Crash s) /\
  (forall a b s, GenOperators.body_div a b <> Crash s /\ GenOperators.body_mod a b <> Crash s /\
                 GenOperators.body_rshift a b <> Crash s /\
                 (GenOperators.body_lshift a b = Crash s -> s = "MemoryError"%string /\ GenOperators.MAX_SHIFT < b) /\
                 (GenOperators.body_lsh a b = Crash s -> s = "MemoryError"%string /\ GenOperators.MAX_SHIFT < b)) /\
  (forall v s, pack_word v <> Crash s /\ pack_byte v <> Crash s /\ pack_dword v <> Crash s /\
               ascii_chunk v <> Crash s /\ pack_relative v <> Crash s) /\
  (forall code s, site_chr code <> Crash s) /\
  (forall (c : N) s, site_rad50_char c <> Crash s) /\
  (forall (chars : list N) s, Forall (fun c => nmem c rad50_literal_class = true) chars -> rad50_literal chars <> Crash s) /\
  (forall prefix cls base (digits : list N) s,
     In (prefix, cls, base) radix_classes -> digits <> [] -> Forall (fun c => In c cls) digits -> py_int digits base <> Crash s) /\
  (forall num s, (decimal_guard num = true -> site_bare_decimal num <> Crash s) /\
                 (octal_guard num = true -> site_bare_octal num <> Crash s)) /\
  (forall digits base s, site_c_style digits base <> Crash s) /\
  (forall c s, (In c reg_stub_chars -> dict_lookup reg_stub_keys c <> Crash s) /\
               (In c acc_stub_chars -> dict_lookup acc_stub_keys c <> Crash s)).
Proof.
  exact (conj C08_align_no_crash (conj C08_even_odd_no_crash (conj C08_operators_no_crash (conj C08_pack_no_crash
        (conj C08_chr_no_crash (conj C08_rad50_char_no_crash (conj C08_rad50_literal_no_crash (conj C08_prefixed_number_no_crash
        (conj C08_bare_number_no_crash (conj C08_c_style_number_no_crash C08_pattern_letter_lookup_no_crash)))))))))).
Qed.
Print Assumptions C08_no_crash_partial.

(* the guards are not vacuous, and without them the operations do raise in the model *)
Example C08_align_zero_reported : body_align 5 0 = Err ["value-out-of-bounds"%string].
Proof. vm_compute. reflexivity. Qed.
Example C08_unguarded_mod_raises : GenGetAsInt.py_mod 5 0 = Crash "ZeroDivisionError".
Proof. vm_compute. reflexivity. Qed.
Example C08_word_out_of_range_reported : pack_word 65536 = Err ["value-out-of-bounds"%string] /\ pack_H 65536 = Crash "struct.pack(<H)".
Proof. vm_compute. split; reflexivity. Qed.
Example C08_huge_shift_refused :
  GenOperators.body_lshift 1 (2 ^ 32) = Crash "MemoryError" /\ GenOperators.body_lsh 1 65537 = Crash "MemoryError" /\
  GenOperators.body_rshift 1 (- 2 ^ 32) = Err ["arithmetic-error"%string; "raised MemoryError"%string] /\
  GenOperators.body_lshift 3 2 = Ok (12, []).
Proof. vm_compute. repeat split; reflexivity. Qed.
Example C08_chr_huge_reported : site_chr (2 ^ 64) = Err ["value-out-of-bounds"%string] /\ py_chr (2 ^ 64) = Crash "OverflowError".
Proof. vm_compute. split; reflexivity. Qed.
Example C08_octal_guard_needed : py_int [49%N; 56%N] 8 = Crash "ValueError" /\ octal_guard [49%N; 56%N] = false /\ octal_guard [49%N; 55%N] = true.
Proof. vm_compute. repeat split; reflexivity. Qed.
Example C08_kelvin_not_admitted : nmem 8490%N rad50_literal_class = false /\ table_index 8490%N = Crash "ValueError".
Proof. vm_compute. split; reflexivity. Qed.
