(* C04 -- Branches and PC-relative operands hit their target or are rejected.
   Only statements, each closed by [exact] of a lemma from Proofs/, then Print Assumptions.
   enc_offset u bits t rel : the inner fn of OffsetOperandStub.encode (rel = rel_address = address
   behind the instruction word); enc_regmode: the relative-mode lambdas. All of t, rel, addr : Z. *)
From Coq Require Import ZArith List String Ascii Bool.
From Verif Require Import Base.Res Spec.PDP11 Gen.GenOpcodes Model.Insns
  Proofs.InsnsCheck Proofs.InsnsP Proofs.InsnsMain Proofs.InsnsC04.
Import ListNotations.
Open Scope string_scope.
Open Scope list_scope.
Open Scope Z_scope.

Theorem C04_branch_hits : forall t rel f, enc_offset false 8 t rel = Ok f ->
  rel + 2 * sext8 (f mod 256) = t /\ -128 <= f <= 127 /\ branch_target (rel - 2) (f mod 256) = wrap16 t.
Proof. exact branch_hits. Qed.
Print Assumptions C04_branch_hits.

Theorem C04_sob_hits : forall t rel f, enc_offset true 6 t rel = Ok f ->
  rel - 2 * f = t /\ 0 <= f < 64 /\ sob_target (rel - 2) f = wrap16 t.
Proof. exact sob_hits. Qed.
Print Assumptions C04_sob_hits.

Theorem C04_branch_accept_iff : forall t rel,
  (exists f, enc_offset false 8 t rel = Ok f) <-> (Z.even (t - rel) = true /\ -256 <= t - rel <= 254).
Proof. exact branch_accept_iff. Qed.
Print Assumptions C04_branch_accept_iff.

Theorem C04_sob_accept_iff : forall t rel,
  (exists f, enc_offset true 6 t rel = Ok f) <-> (Z.even (t - rel) = true /\ -126 <= t - rel <= 0).
Proof. exact sob_accept_iff. Qed.
Print Assumptions C04_sob_accept_iff.

(* out of reach or odd: an error diagnostic (failed assembly), never a wrapped field *)
Theorem C04_no_wrap_branch : forall t rel, ~ (Z.even (t - rel) = true /\ -256 <= t - rel <= 254) ->
  exists ids, enc_offset false 8 t rel = Err ids /\ ids <> [].
Proof. exact no_wrap_branch. Qed.
Print Assumptions C04_no_wrap_branch.

Theorem C04_no_wrap_sob : forall t rel, ~ (Z.even (t - rel) = true /\ -126 <= t - rel <= 0) ->
  exists ids, enc_offset true 6 t rel = Err ids /\ ids <> [].
Proof. exact no_wrap_sob. Qed.
Print Assumptions C04_no_wrap_sob.

(* the displacement emitted as the k-th extension word of an instruction at addr gives the target *)
Theorem C04_relative_hits : forall t addr k rest, 0 <= k ->
  exists d, enc_regmode (ORel t) (addr + 2 + 2 * k) = Ok (55, [d]) /\ is_word d = true /\
            decode_rm false 55 (d :: rest) addr k = Some (SRel (wrap16 t), 1%nat) /\
            wrap16 ((addr + 2 + 2 * k) + 2 + d) = wrap16 t.
Proof. exact relative_hits. Qed.
Print Assumptions C04_relative_hits.

Theorem C04_relative_deferred_hits : forall t addr k rest,
  exists d, enc_regmode (ORelDef t) (addr + 2 + 2 * k) = Ok (63, [d]) /\ is_word d = true /\
            decode_rm false 63 (d :: rest) addr k = Some (SRelDef (wrap16 t), 1%nat).
Proof. exact relative_deferred_hits. Qed.
Print Assumptions C04_relative_deferred_hits.

(* whole instruction, any mnemonic, any operand position, whatever precedes: the decoded operand
   is the target modulo 2^16; where the format takes an inline number instead of an address (emt/trap/spl/
   mark/xfc) it is the number t reduced to the b-bit field, t itself lying within the field's range *)
Theorem C04_operand_hits_anywhere : forall m ops addr ws rest i t,
  compile_insn m ops addr = Ok ws -> no_pc_autoinc ops -> nth_error ops i = Some (ORel t) ->
  exists name pre ss post s,
    decode (ws ++ rest) addr = Some (name, pre ++ ss ++ post, List.length ws) /\
    List.length ss = List.length ops /\ nth_error ss i = Some s /\
    (s = SRel (wrap16 t) \/ s = STarget (wrap16 t) \/ exists b, s = SNum (t mod 2 ^ b) /\ - 2 ^ b < t < 2 ^ b).
Proof. exact operand_hits_anywhere. Qed.
Print Assumptions C04_operand_hits_anywhere.

Theorem C04_deferred_operand_hits_anywhere : forall m ops addr ws rest i t,
  compile_insn m ops addr = Ok ws -> no_pc_autoinc ops -> nth_error ops i = Some (ORelDef t) ->
  exists name pre ss post,
    decode (ws ++ rest) addr = Some (name, pre ++ ss ++ post, List.length ws) /\
    nth_error ss i = Some (SRelDef (wrap16 t)).
Proof. exact deferred_operand_hits_anywhere. Qed.
Print Assumptions C04_deferred_operand_hits_anywhere.

(* non-vacuity *)
Example C04_ex_br : enc_offset false 8 254 0 = Ok 127 /\ enc_offset false 8 (-256) 0 = Ok (-128)
  /\ enc_offset false 8 256 0 = Err ["branch-out-of-bounds"] /\ enc_offset false 8 3 0 = Err ["odd-branch"]
  /\ enc_offset true 6 (-126) 0 = Ok 63 /\ enc_offset true 6 2 0 = Err ["branch-out-of-bounds"].
Proof. vm_compute. repeat split; reflexivity. Qed.
Example C04_ex_wrap : compile_insn "mov" [OIndex 4 1; ORel 2] 65530 = Ok [7287; 4; 2]
  /\ decode [7287; 4; 2] 65530 = Some ("mov", [SIdx 4 1; SRel 2], 3%nat).
Proof. vm_compute. split; reflexivity. Qed.
