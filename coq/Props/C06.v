(* C06 -- Data directives store exactly the stated value or refuse.
   Only statements, each closed by [exact] of a lemma from Proofs/, then Print Assumptions.
   get_as_int, the operand typing, the size lambdas and the bodies of .blkb .blkw .even .odd .align are
   regenerated from the source on every run (Gen/GenGetAsInt.v, Gen/GenMeta.v); byte/word/dword/ascii_impl/
   compile_word_list/string_escape are the hand model Model/Directives.v, tied by correspondence. *)
From Coq Require Import String List ZArith NArith Bool.
From Verif Require Import Base.Res Gen.GenGetAsInt Gen.GenMeta Model.Directives Model.DirectivesSeq Spec.DataSpec Spec.DataBlockSpec
  Proofs.DirectivesGai Proofs.DirectivesData Proofs.DirectivesAnnounce Proofs.DirectivesFill
  Proofs.DirectivesAscii Proofs.DirectivesEscape Proofs.DirectivesSpec Proofs.DirectivesBlock Proofs.DirectivesBlockRun.
Import ListNotations.
Open Scope string_scope.
Open Scope list_scope.
Open Scope Z_scope.

(* ---- get_as_int ------------------------------------------------------------------------------- *)
(* a value is accepted iff its magnitude fits the field (and it is non-negative when the field is unsigned);
   the accepted value is reduced modulo 2^n; anything else is the error "value-out-of-bounds" *)
Theorem C06_get_as_int_spec :
  forall n u v, 0 <= n ->
  (forall r, get_as_int (Some n) u None v = Ok r <->
             ((Z.abs v < 2 ^ n /\ (u = true -> 0 <= v)) /\ r = v mod 2 ^ n)) /\
  (~ (Z.abs v < 2 ^ n /\ (u = true -> 0 <= v)) -> get_as_int (Some n) u None v = Err ["value-out-of-bounds"]).
Proof. exact get_as_int_spec. Qed.
Print Assumptions C06_get_as_int_spec.

(* with a caller's default: a rejected value is reported and the default comes back, never a truncation *)
Theorem C06_get_as_int_default :
  forall n u d v, 0 <= n ->
  ((Z.abs v < 2 ^ n /\ (u = true -> 0 <= v)) -> get_as_int_raw (Some n) u (Some d) v = GaiRet (v mod 2 ^ n)) /\
  (~ (Z.abs v < 2 ^ n /\ (u = true -> 0 <= v)) -> get_as_int_raw (Some n) u (Some d) v = GaiErrRet "value-out-of-bounds" d).
Proof. exact get_as_int_default. Qed.
Print Assumptions C06_get_as_int_default.

(* no width: only the sign of an unsigned operand is checked; the value is not reduced *)
Theorem C06_get_as_int_unbounded :
  forall u d v, get_as_int_raw None u d v =
    if u && (v <? 0) then match d with None => GaiErrRaise "value-out-of-bounds" | Some x => GaiErrRet "value-out-of-bounds" x end
    else GaiRet v.
Proof. exact get_as_int_unbounded. Qed.
Print Assumptions C06_get_as_int_unbounded.

(* ---- .byte .word .dword ----------------------------------------------------------------------- *)
(* admitted values at a permitted address: exactly LE(v mod 2^n) per value (a double word: high word then
   low word, each little-endian -- Spec.DataSpec.value_bytes), no diagnostic *)
Theorem C06_byte_word_dword :
  forall enc w vs addr, vs <> [] -> forallb (fits w) vs = true -> (w = W8 \/ addr mod 2 = 0) ->
  emit enc (DMeta (vname w) (plain vs)) addr = Out [] (concat (map (value_bytes w) vs)).
Proof. exact data_ok. Qed.
Print Assumptions C06_byte_word_dword.

(* no operand: one zero of the width, with a warning *)
Theorem C06_data_empty :
  forall enc w addr, (w = W8 \/ addr mod 2 = 0) ->
  emit enc (DMeta (vname w) []) addr = Out [(W, "implicit-operand")] (zero_bytes (nbytes w)).
Proof. exact data_empty. Qed.
Print Assumptions C06_data_empty.

(* |v| >= 2^n for some operand: refused (error + RecoverableError: no bytes at all) *)
Theorem C06_data_out_of_range :
  forall enc w vs addr, forallb (fits w) vs = false ->
  emit enc (DMeta (vname w) (plain vs)) addr = Raised [(E, "value-out-of-bounds")].
Proof. exact data_out_of_range. Qed.
Print Assumptions C06_data_out_of_range.

(* word data at an odd address: the error "odd-address", and the one-byte prefix before the data *)
Theorem C06_data_odd_address :
  forall enc w vs addr, vs <> [] -> forallb (fits w) vs = true -> w <> W8 -> addr mod 2 = 1 ->
  emit enc (DMeta (vname w) (plain vs)) addr = Out [(E, "odd-address")] (0 :: concat (map (value_bytes w) vs)).
Proof. exact data_odd. Qed.
Print Assumptions C06_data_odd_address.

Theorem C06_data_empty_odd_address :
  forall enc w addr, w <> W8 -> addr mod 2 = 1 ->
  emit enc (DMeta (vname w) []) addr = Out [(E, "odd-address"); (W, "implicit-operand")] (0 :: zero_bytes (nbytes w)).
Proof. exact data_empty_odd. Qed.
Print Assumptions C06_data_empty_odd_address.

(* .db / .dw are .byte / .word *)
Theorem C06_aliases :
  forall enc ops addr,
  emit enc (DMeta ".db" ops) addr = emit enc (DMeta ".byte" ops) addr /\
  emit enc (DMeta ".dw" ops) addr = emit enc (DMeta ".word" ops) addr.
Proof. exact (fun enc ops addr => conj (alias_db enc ops addr) (alias_dw enc ops addr)). Qed.
Print Assumptions C06_aliases.

(* implicit word lists (Compiler.compile_word_list) *)
Theorem C06_word_list :
  forall enc ws addr,
  (forallb (fits W16) ws = true -> addr mod 2 = 0 -> emit enc (DWordList ws) addr = Out [] (concat (map (value_bytes W16) ws))) /\
  (forallb (fits W16) ws = true -> addr mod 2 = 1 ->
     emit enc (DWordList ws) addr = Out [(E, "odd-address")] (0 :: concat (map (value_bytes W16) ws))) /\
  (forallb (fits W16) ws = false -> emit enc (DWordList ws) addr = Raised [(E, "value-out-of-bounds")]).
Proof. exact (fun enc ws addr => conj (words_ok enc ws addr) (conj (words_odd enc ws addr) (words_out_of_range enc ws addr))). Qed.
Print Assumptions C06_word_list.

(* ---- announced size (reused by C02) ------------------------------------------------------------ *)
(* every directive of the model, every operand list (also '#' operands), every address: when a size is
   announced and the bytes come out without an error diagnostic, their number is the announced size *)
Theorem C06_announce_eq_emit :
  forall enc d addr ds bs sz,
  emit enc d addr = Out ds bs -> errors ds = [] -> announced d = Some sz -> Z.of_nat (length bs) = sz.
Proof. exact announce_eq_emit. Qed.
Print Assumptions C06_announce_eq_emit.

(* ---- fills -------------------------------------------------------------------------------------- *)
Theorem C06_fill_blk :
  forall enc n addr,
  (0 <= n < 65536 -> emit enc (DMeta ".blkb" [(false, n)]) addr = Out [] (zero_bytes (Z.to_nat n)) /\
                     emit enc (DMeta ".blkw" [(false, n)]) addr = Out [] (zero_bytes (Z.to_nat (2 * n)))) /\
  (n < 0 \/ 65536 <= n -> emit enc (DMeta ".blkb" [(false, n)]) addr = Raised [(E, "value-out-of-bounds")] /\
                          emit enc (DMeta ".blkw" [(false, n)]) addr = Raised [(E, "value-out-of-bounds")]).
Proof.
  exact (fun enc n addr => conj (fun H => conj (fill_blkb enc n addr H) (fill_blkw enc n addr H))
                                (fun H => conj (fill_blkb_refuse enc n addr H) (fill_blkw_refuse enc n addr H))).
Qed.
Print Assumptions C06_fill_blk.

(* .even / .odd: nothing or one zero byte, after which the address has the wanted parity *)
Theorem C06_fill_even_odd :
  forall enc addr,
  (exists bs, emit enc (DMeta ".even" []) addr = Out [] bs /\ (bs = [] \/ bs = [0]) /\ (addr + Z.of_nat (length bs)) mod 2 = 0) /\
  (exists bs, emit enc (DMeta ".odd" []) addr = Out [] bs /\ (bs = [] \/ bs = [0]) /\ (addr + Z.of_nat (length bs)) mod 2 = 1).
Proof. exact (fun enc addr => conj (fill_even_parity enc addr) (fill_odd_parity enc addr)). Qed.
Print Assumptions C06_fill_even_odd.

(* .align c, 1 <= c < 2^16: k zero bytes where k is the least k >= 0 with (addr + k) mod c = 0 *)
Theorem C06_fill_align :
  forall enc c addr, 1 <= c < 65536 ->
  emit enc (DMeta ".align" [(false, c)]) addr = Out [] (zero_bytes (Z.to_nat ((- addr) mod c))) /\
  (let k := (- addr) mod c in
   0 <= k < c /\ (addr + k) mod c = 0 /\ forall k', 0 <= k' -> (addr + k') mod c = 0 -> k <= k').
Proof. exact (fun enc c addr H => conj (align_pos enc c addr H) (align_least c addr (proj1 H))). Qed.
Print Assumptions C06_fill_align.

(* .align 0 is an error diagnostic, not a crash *)
Theorem C06_align_zero_is_error :
  forall enc addr, emit enc (DMeta ".align" [(false, 0)]) addr = Out [(E, "value-out-of-bounds")] [].
Proof. exact align_zero. Qed.
Print Assumptions C06_align_zero_is_error.

(* the count is a 16-bit quantity like the counts of .blkb / .blkw: negative or >= 2^16 is refused (no attempt
   to build a fill of that size) *)
Theorem C06_align_negative :
  forall enc c addr, c < 0 \/ 65536 <= c -> emit enc (DMeta ".align" [(false, c)]) addr = Raised [(E, "value-out-of-bounds")].
Proof. exact align_refuse. Qed.
Print Assumptions C06_align_negative.

(* ---- .ascii / .asciz (parametric in the codec) ------------------------------------------------- *)
Theorem C06_ascii_exact :
  forall enc z cs body addr, chunks_bytes enc cs = Some body ->
  emit enc (DAscii z [cs]) addr = Out [] (body ++ (if z then [0] else [])).
Proof. exact ascii_exact. Qed.
Print Assumptions C06_ascii_exact.

(* an unencodable character or a <n> outside 0..255: error diagnostics, hence no image -- no byte is
   silently substituted; never a crash *)
Theorem C06_ascii_refused :
  forall enc z cs addr, chunks_bytes enc cs = None ->
  exists ds bs, emit enc (DAscii z [cs]) addr = Out ds bs /\ errors ds <> [].
Proof. exact ascii_refused. Qed.
Print Assumptions C06_ascii_refused.

(* the instance for the bk charset (C14's model) *)
Theorem C06_ascii_exact_bk :
  forall z cs body addr, chunks_bytes bk_enc cs = Some body ->
  emit bk_enc (DAscii z [cs]) addr = Out [] (body ++ (if z then [0] else [])).
Proof. exact (ascii_exact bk_enc). Qed.
Print Assumptions C06_ascii_exact_bk.

(* ---- strings ------------------------------------------------------------------------------------ *)
(* for every string s over any code points, every quote character and every following text: reading the
   canonical spelling of s gives s, reports nothing, and stops right after the closing quote *)
Theorem C06_unescape_escape :
  forall q s rest, (q = 34 \/ q = 39 \/ q = 47)%N -> unescape q (escape s ++ q :: rest) = ScanOk s [] rest.
Proof. exact unescape_escape. Qed.
Print Assumptions C06_unescape_escape.

(* ---- the model meets the Spec, for every directive, operand list, address and codec ------------- *)
Theorem C06_model_meets_spec :
  forall enc d addr, meets enc d addr (observe (emit enc (embed d) addr)) = true.
Proof. exact model_meets_spec. Qed.
Print Assumptions C06_model_meets_spec.

(* ---- values written as character literals (types.CharLiteral.resolve in the operand loop) -------- *)
(* Spec.DataBlockSpec.stated_image is nothing new: it is the one image the frozen checker accepts *)
Theorem C06_stated_image_is_the_allowed_one :
  forall enc d addr bs,
  (stated_image enc d addr = Some bs -> meets enc d addr (Image bs) = true) /\
  (must_refuse enc d addr = false -> allowed enc d addr bs = true -> stated_image enc d addr = Some bs).
Proof. exact (fun enc d addr bs => conj (stated_meets enc d addr bs) (allowed_unique enc d addr bs)). Qed.
Print Assumptions C06_stated_image_is_the_allowed_one.

(* every literal has a value (its bytes in the output charset, at most two, as a little-endian number):
   the directive is the directive on those values *)
Theorem C06_literal_clean :
  forall enc w ops vs addr, operands_values enc ops = Some vs ->
  emit_lit enc (vname w) (map operand_of ops) addr = emit enc (DMeta (vname w) (plain vs)) addr.
Proof. exact literal_clean. Qed.
Print Assumptions C06_literal_clean.

(* a literal that is unencodable or takes more than two bytes in the output charset (any codec, so also a
   multi-byte one): the directive is refused -- never stored truncated *)
Theorem C06_literal_refused :
  forall enc w ops addr, operands_values enc ops = None ->
  observe (emit_lit enc (vname w) (map operand_of ops) addr) = Refused.
Proof. exact literal_refused. Qed.
Print Assumptions C06_literal_refused.

(* ---- directives one after another and inside .repeat --------------------------------------------- *)
(* every copy of every directive -- also the 2nd, 3rd ... repetition of a .repeat body -- stores the image the
   Spec states at the address where the bytes before it end, with no error; or the program is refused *)
Theorem C06_program_meets_spec :
  forall enc its addr,
  meets_items enc its addr (observe (fst (items_run enc (map embed_item its) addr))) = true.
Proof. exact items_meet_spec. Qed.
Print Assumptions C06_program_meets_spec.

Theorem C06_repeat_is_unrolled :
  forall enc n body addr img, rep_image enc n body addr = Some img ->
  exists dg, fst (repeat_run enc n (map embedl body) addr) = Out dg img /\ existsb is_error dg = false.
Proof. exact repeat_is_unrolled. Qed.
Print Assumptions C06_repeat_is_unrolled.

(* ---- the hypotheses are satisfiable by non-trivial instances ------------------------------------ *)
Example C06_ex_gai_boundaries :
  get_as_int (Some 8) false None 255 = Ok 255 /\ get_as_int (Some 8) false None (-255) = Ok 1 /\
  get_as_int (Some 8) false None 256 = Err ["value-out-of-bounds"] /\
  get_as_int (Some 8) false None (-256) = Err ["value-out-of-bounds"] /\
  get_as_int (Some 16) true None (-1) = Err ["value-out-of-bounds"].
Proof. vm_compute. repeat split; reflexivity. Qed.

Example C06_ex_dword : emit bk_enc (DMeta ".dword" (plain [305419896; -2])) 512 = Out [] [52; 18; 120; 86; 255; 255; 254; 255].
Proof. vm_compute. reflexivity. Qed.

Example C06_ex_word_odd : emit bk_enc (DMeta ".word" (plain [258])) 513 = Out [(E, "odd-address")] [0; 2; 1].
Proof. vm_compute. reflexivity. Qed.

Example C06_ex_align : emit bk_enc (DMeta ".align" [(false, 8)]) 515 = Out [] [0; 0; 0; 0; 0].
Proof. vm_compute. reflexivity. Qed.

Example C06_ex_ascii :
  emit bk_enc (DAscii true [[Str [1055%N; 10%N]; Code 7; Str [65%N]]]) 512 = Out [] [240; 10; 7; 65; 0] /\
  chunks_bytes bk_enc [Str [1055%N; 10%N]; Code 7; Str [65%N]] = Some [240; 10; 7; 65] /\
  chunks_bytes bk_enc [Str [8364%N]] = None /\ chunks_bytes bk_enc [Code 256] = None.
Proof. vm_compute. repeat split; reflexivity. Qed.

Example C06_ex_escape :
  escape [65; 10; 34; 255; 1055]%N = [65; 92; 110; 92; 34; 92; 120; 102; 102; 1055]%N /\
  unescape 34%N (escape [65; 10; 34; 255; 1055]%N ++ [34; 32]%N) = ScanOk [65; 10; 34; 255; 1055]%N [] [32%N].
Proof. vm_compute. split; reflexivity. Qed.

Example C06_ex_announced : announced (DMeta ".dword" (plain [1; 2; 3])) = Some 12 /\ announced (DMeta ".byte" []) = Some 1.
Proof. vm_compute. split; reflexivity. Qed.

(* a stand-in for a multi-byte charset: U+20AC is three bytes, U+044F two, 'A' one *)
Definition ex_enc (s : list N) : option (list Z) :=
  match s with
  | [8364%N] => Some [226; 130; 172]
  | [1103%N] => Some [209; 143]
  | [65%N] => Some [65]
  | _ => None
  end.

Example C06_ex_literals :
  emit_lit ex_enc ".word" [OLit [1103%N]; OLit [65%N]] 512 = Out [] [209; 143; 65; 0] /\
  operands_values ex_enc [SLit [8364%N]] = None /\
  emit_lit ex_enc ".word" [OLit [8364%N]] 512 = Out [(E, "too-long-string")] [226; 130] /\
  observe (emit_lit ex_enc ".byte" [OLit [1103%N]] 512) = Refused.
Proof. vm_compute. repeat split; reflexivity. Qed.

(* .repeat 2 { .byte 1 / .even / .byte 2 } at an even address: the second copy needs no fill *)
Example C06_ex_repeat :
  let body := [SPlain (SData W8 [1]); SPlain SEven; SPlain (SData W8 [2])] in
  rep_image ex_enc 2 body 512 = Some [1; 0; 2; 1; 2] /\
  fst (items_run ex_enc [XRepeat 2 (map embedl body)] 512) = Out [] [1; 0; 2; 1; 2] /\
  rep_image ex_enc 2 [SPlain (SData W16 [2]); SPlain (SData W8 [1])] 512 = None.
Proof. vm_compute. repeat split; reflexivity. Qed.
