(* Props/T_rad50.v -- the code translated from pdpy11/radix50.py and from the packing expression of metacommands.rad50
   (Gen/GenPureRad50.v, regenerated on every run) equals the hand model Model/Rad50.v.  See the table in Props/T.v.
   Only statements, each closed by [exact] of a lemma of Proofs/GenPureRad50P.v, then Print Assumptions. *)
From Coq Require Import String List ZArith NArith Bool.
From Verif Require Import Base.Res Base.Bytes Gen.GenRadix50 Gen.GenPure Gen.GenPureRad50 Model.Rad50 Proofs.GenPureRad50P.
Import ListNotations.
Open Scope list_scope.
Open Scope Z_scope.

Theorem T_TABLE_is_model : GenPureRad50.TABLE = rad50_table.
Proof. exact TABLE_is_model. Qed.
Print Assumptions T_TABLE_is_model.

(* radix50.encode_char on a one-character string, ValueError included *)
Theorem T_encode_char_is_model : forall ch, GenPureRad50.encode_char ch = Rad50.encode_char rad50_table ch.
Proof. exact encode_char_is_model. Qed.
Print Assumptions T_encode_char_is_model.

(* radix50.pack_to_int on any string: the assert, ljust, the unpacking and the three encode_char calls *)
Theorem T_pack_to_int_is_model : forall s, GenPureRad50.pack_to_int s = Rad50.pack_to_int rad50_table s.
Proof. exact pack_to_int_is_model. Qed.
Print Assumptions T_pack_to_int_is_model.

(* struct.pack("<H", a * 1600 + b * 40 + c) of metacommands.rad50 *)
Theorem T_rad50_word_is_model : forall a b c, rad50_word a b c = a * 1600 + b * 40 + c.
Proof. exact rad50_word_is_model. Qed.
Print Assumptions T_rad50_word_is_model.

Theorem T_pack_words_translated : forall a b c rest,
  pack_words (a :: b :: c :: rest) =
  (do w <- pack_H (rad50_word a b c); do ws <- pack_words rest; Ok (w ++ ws)).
Proof. exact pack_words_translated. Qed.
Print Assumptions T_pack_words_translated.

Theorem T_pack_words_short_translated : forall a b,
  pack_words [a] = pack_H (rad50_word a 0 0) /\ pack_words [a; b] = pack_H (rad50_word a b 0).
Proof. exact pack_words_short_translated. Qed.
Print Assumptions T_pack_words_short_translated.

Example T_ex_rad50 :
  GenPureRad50.pack_to_int [65; 66]%N = Ok 1680 /\ GenPureRad50.pack_to_int [97]%N = Crash "ValueError: TABLE.index"
  /\ GenPureRad50.pack_to_int [65; 65; 65; 65]%N = Crash "AssertionError: pack_to_int" /\ rad50_word 39 39 39 = 63999.
Proof. repeat split; reflexivity. Qed.
