(* C17 -- Diagnostics point at the culprit.
   Only statements, each closed by [exact] of a lemma from Proofs/ContextP.v, then Print Assumptions.

   What is proved here is the position arithmetic: the line:column pdpy11 prints for an offset
   (Context.__repr__) is the Spec's character walk, lies inside the file, and is monotone in the
   offset (so start <= end as offsets gives start <= end as line:column).
   What is NOT a theorem (hence the suffix _partial on the summary statement): that each of the ~110
   report sites passes the span of the offending token, in the file that contains it.  Those are
   facts about call sites and parser-captured spans; they are tied by the planted-fault
   correspondence of tools/props/c17.py (every fault kind x every statement position x three file
   roles, positions judged in coqc against Spec.LineCol). *)
From Coq Require Import List ZArith NArith Bool.
From Verif Require Import Spec.LineCol Model.ContextM Proofs.ContextP.
Import ListNotations.
Open Scope Z_scope.

(* any text, any offset inside it (or at its end): the model of Context.__repr__ is the Spec walk
   over the characters before the offset: newline -> next line column 1, tab -> +4, other -> +1 *)
Theorem C17_linecol_agrees :
  forall code pos, (pos <= length code)%nat -> repr code pos = linecol_at code pos.
Proof. exact linecol_agrees. Qed.
Print Assumptions C17_linecol_agrees.

(* the reported line exists in the text and the column is at most one past the end of that line,
   a tab counting four *)
Theorem C17_inside_file :
  forall code pos, (pos <= length code)%nat ->
  let '(line, col) := linecol_at code pos in
  1 <= line <= Z.of_nat (length (split_lines code)) /\
  1 <= col <= 1 + 4 * Z.of_nat (length (nth (Z.to_nat (line - 1)) (split_lines code) [])).
Proof. exact inside_file. Qed.
Print Assumptions C17_inside_file.

(* offsets in order give positions in (lexicographic) order: a span with start <= end is printed with
   its start not after its end *)
Theorem C17_start_le_end :
  forall code pos1 pos2, (pos1 <= pos2)%nat -> lc_le (linecol_at code pos1) (linecol_at code pos2).
Proof. exact start_le_end. Qed.
Print Assumptions C17_start_le_end.

(* the bare report format prints, for every item of a diagnostic, the Spec position of the item's
   START offset in the item's own text *)
Theorem C17_bare_format :
  forall spans, Forall (fun s => (sp_start s <= length (sp_code s))%nat) spans ->
  bare_prefixes spans =
  map (fun s => let '(l, c) := linecol_at (sp_code s) (sp_start s) in (sp_file s, l, c)) spans.
Proof. exact bare_prefixes_spec. Qed.
Print Assumptions C17_bare_format.

(* summary, partial: for a token planted at offset [off] the position pdpy11 prints for a context at
   that offset is the Spec position of the token.  Missing for the full property: "the first span of
   the diagnostic IS the planted token's span, in the planted file" (correspondence, see above). *)
Theorem C17_planted_position_partial :
  forall before token after,
  repr (before ++ token ++ after) (length before) = linecol before.
Proof. exact planted_position. Qed.
Print Assumptions C17_planted_position_partial.

(* ---- non-vacuity ---- *)
(* "\tmov\tr0, r1\n  br 8" : offset 14 is the '8' on line 2; tabs before "mov" count four columns *)
Example C17_example_tab :
  linecol_at [9; 109; 111; 118; 9; 114; 48; 44; 32; 114; 49; 10; 32; 32; 98; 114; 32; 56]%N 5 = (1, 12)
  /\ repr [9; 109; 111; 118; 9; 114; 48; 44; 32; 114; 49; 10; 32; 32; 98; 114; 32; 56]%N 17 = (2, 6).
Proof. split; vm_compute; reflexivity. Qed.
