(* C01 (classification part) -- the operand token tree is read as the addressing form it spells.
   Closes the gap named in C01's level note: hoist() + the isinstance cascade of
   RegisterModeOperandStub.encode / FP11RMOperandStub.encode (Model/Classify.v), whose result feeds the
   abstract operand forms of Spec/PDP11.v ([Classify.denote]) over which Props/C01.v is stated.
   Only statements, each closed by [exact] of a lemma from Proofs/ClassifyP.v, then Print Assumptions. *)
From Coq Require Import ZArith List String Bool.
From Verif Require Import Base.Res Model.Classify Proofs.ClassifyP.
Import ListNotations.
Open Scope string_scope.
Open Scope Z_scope.

(* the cascade never raises *)
Theorem C01_classify_total : forall t, exists o w, classify t = Ok (o, w).
Proof. exact classify_total. Qed.
Print Assumptions C01_classify_total.

(* every legal written form is classified as itself, with no warning.  [wf]: register numbers 0..7; an
   expression standing alone / after '@' is not itself a register, '(reg)', '#..', '(reg)+', '-(reg)' and has
   no '(reg)' at the bottom of its operator spine (those ARE other forms: expr_ok / expr_ok_def); the index
   expression of a plain index form does not start with '@'; '#e', '@#e', '%e' have no '(reg)' on e's spine.
   A symbol named like a register is a register wherever try_as_register is asked; elsewhere (e.g. 'r0+1',
   '#r0') it stays inside the kept expression and is refused later by Symbol.resolve, not here. *)
Theorem C01_classify_spell : forall o, wf o -> classify (spell o) = Ok (o, []).
Proof. exact classify_spell. Qed.
Print Assumptions C01_classify_spell.

(* no tree is classified as a form it does not spell: [spells] lists, per form, the canonical spelling with
   ANY register token (rN/sp/pc in any letter case, %e), the '(reg)' of an index form at the bottom of the
   rhs/operand spine ([attached]: what hoist undoes), and the two legacy variants with their warnings
   (@rN = (rN) "legacy-deferred", @(rN) = @0(rN) "implicit-index") *)
Theorem C01_classify_complete : forall t o w, classify t = Ok (o, w) -> spells t o w.
Proof. exact classify_complete. Qed.
Print Assumptions C01_classify_complete.

(* distinct legal forms have distinct spellings *)
Theorem C01_classify_spell_injective : forall o o', wf o -> wf o' -> spell o = spell o' -> o = o'.
Proof. exact spell_injective. Qed.
Print Assumptions C01_classify_spell_injective.

(* the expression is opaque: in each context (e, @e, #e, @#e, e(reg), @e(reg)) the mode is the context's and the
   subtree kept for the extension word is e itself, for EVERY e the context accepts; [accepts] looks only at
   the top constructor of e and the '(reg)' at the bottom of its spine *)
Theorem C01_classify_expression_kept : forall c e, accepts c e = true ->
  mode_of (classify (plug c e)) = Some (ctx_mode c) /\ kept_of (classify (plug c e)) = Some e.
Proof. exact classify_plug. Qed.
Print Assumptions C01_classify_expression_kept.

Theorem C01_classify_expression_opaque : forall c e e', accepts c e = true -> accepts c e' = true ->
  mode_of (classify (plug c e)) = mode_of (classify (plug c e')).
Proof. exact classify_opaque. Qed.
Print Assumptions C01_classify_expression_opaque.

(* index contexts: no condition on e at all beyond "does not start with '@'" (resp. none) *)
Theorem C01_classify_index_any : forall e rs r, try_reg rs = Some r -> top_def e = false ->
  classify (attach e rs) = Ok (FIndex e r, []).
Proof. exact classify_index_any. Qed.
Print Assumptions C01_classify_index_any.

Theorem C01_classify_indexdef_any : forall e rs r, try_reg rs = Some r ->
  classify (attach (TPrefix PDef e) rs) = Ok (FIndexDef e r, []).
Proof. exact classify_indexdef_any. Qed.
Print Assumptions C01_classify_indexdef_any.

(* hoisting: the parser's 'a+(b(reg))' becomes '(a+b)(reg)' and nothing else changes *)
Theorem C01_classify_hoist : forall t,
  hoist t = t \/ exists x r, is_reg r = true /\ attached t x r /\ hoist t = TCall x r.
Proof. exact hoist_cases. Qed.
Print Assumptions C01_classify_hoist.

(* FP11 operand: acN first, then a bare register as implicit accumulator (error for 6,7), else the CPU cascade *)
Theorem C01_classify_fp_acc : forall n, 0 <= n <= 5 -> classify_fp (spell (FAcc n)) = Ok (FAcc n, []).
Proof. exact classify_fp_acc. Qed.
Print Assumptions C01_classify_fp_acc.

Theorem C01_classify_fp_reg : forall n, 0 <= n <= 7 ->
  classify_fp (spell (FReg (RName n))) =
    if n <? 6 then Ok (FAccReg (RName n), ["implicit-accumulator"]) else Err ["implicit-accumulator"].
Proof. exact classify_fp_reg. Qed.
Print Assumptions C01_classify_fp_reg.

Theorem C01_classify_fp_other : forall t, try_acc t = None -> try_reg t = None -> classify_fp t = classify t.
Proof. exact classify_fp_other. Qed.
Print Assumptions C01_classify_fp_other.

(* the hypotheses are satisfiable by non-trivial instances *)
Example ex_wf_index : wf (FIndex (TInfix IAdd (TSym "a" false) (TPrefix PNeg (TNum 2))) (RName 5)).
Proof. simpl. split; [split; discriminate|reflexivity]. Qed.
(* 'a+-2(r5)': the parser's tree, with the call at the bottom of the spine, is read as (a+-2)(r5) *)
Example ex_index_hoisted :
  classify (TInfix IAdd (TSym "a" false) (TPrefix PNeg (TCall (TNum 2) (TSym "R5" false))))
  = Ok (FIndex (TInfix IAdd (TSym "a" false) (TPrefix PNeg (TNum 2))) (RName 5), []).
Proof. reflexivity. Qed.
Example ex_wf_rel : wf (FRel (TInfix ISub (TSym "r0" false) (TCall (TSym "f" false) (TNum 1)))).
Proof. reflexivity. Qed.
Example ex_legacy : classify (TPrefix PDef (TSym "SP" false)) = Ok (FRegDef (RName 6), ["legacy-deferred"]).
Proof. reflexivity. Qed.
Example ex_implicit : classify (TPrefix PDef (TParen true (TPrefix PPct (TNum 3)))) = Ok (FIndexDef (TNum 0) (RPct (TNum 3)), ["implicit-index"]).
Proof. reflexivity. Qed.
(* not wf, and indeed read as another form: '#x(r1)' is index with the expression '#x' *)
Example ex_imm_hoisted : classify (TPrefix PImm (TCall (TSym "x" false) (TSym "r1" false))) = Ok (FIndex (TPrefix PImm (TSym "x" false)) (RName 1), []).
Proof. reflexivity. Qed.
(* a label-marked symbol 'r1:' is not a register *)
Example ex_label_not_reg : classify (TSym "r1" true) = Ok (FRel (TSym "r1" true), []).
Proof. reflexivity. Qed.
Example ex_accepts : accepts (XIndex (TSym "pc" false)) (TSym "r0" false) = true.
Proof. reflexivity. Qed.
