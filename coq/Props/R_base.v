(* R_base -- C12 (the link base is what the source says, or an error) on the whole-program reference assembler
   Model/Asm.v.  Only statements, each closed by [exact] of a lemma from Proofs/AsmBaseP.v, then Print Assumptions.

   has_base p   : some reached top-level statement of the program (or of a file linked after it) is a `.link e` or a
                  `. = e` (Asm.first_base over cut_end p); plain_stmt: a sufficient purely syntactic condition.
   In R the first `.link e` / `. = e` fixes the base (a `. = e` met while the base is not fixed is recorded as a
   silent Link); every later `. = e` is a skip (i_stmt = Skip e), every later `.link` the error address-conflict. *)
From Coq Require Import ZArith List String Ascii Bool NArith.
From Verif Require Import Base.Res Base.Bytes Spec.PDP11 Spec.Arith Model.Insns Model.Directives Model.Asm Model.AsmT
  Proofs.AsmP Proofs.AsmBaseP.
Import ListNotations.
Notation length := Datatypes.length.
Open Scope string_scope.
Open Scope list_scope.
Open Scope Z_scope.

(* no `.link` and no `. =` at the (reached) top level: base 0o1000 *)
Theorem R_base_default : forall enc p f, has_base p = false -> assemble_full enc p = XOk f -> f_base f = 512.
Proof. exact base_default. Qed.
Print Assumptions R_base_default.

Theorem R_base_default_syntactic : forall p, forallb plain_stmt p = true -> has_base p = false.
Proof. exact plain_no_base. Qed.
Print Assumptions R_base_default_syntactic.

(* `.link b` in front, b written as a non-negative number: the base is b, and b is below 2^16 (otherwise the
   program does not assemble) *)
Theorem R_base_from_link : forall enc b rest f, 0 <= b -> assemble_full enc (at_base b rest) = XOk f ->
  f_base f = b /\ b < 65536.
Proof. exact base_from_link. Qed.
Print Assumptions R_base_from_link.

Theorem R_base_from_link_numlit : forall enc n rest f, assemble_full enc (Link (numlit n) :: rest) = XOk f ->
  f_base f = Z.of_nat n /\ Z.of_nat n < 65536.
Proof. exact base_from_link_nat. Qed.
Print Assumptions R_base_from_link_numlit.

(* in general: the first base statement (`.link e` or `. = e`, anywhere at the top level), e spelled with constants:
   the base is the value of e by get_as_int(16, signed): |v| < 2^16, base = v mod 2^16 *)
Theorem R_base_from_first : forall enc p f fl e, assemble_full enc p = XOk f ->
  first_base 0 (cut_end p) = Some (fl, e) -> closed e = true ->
  exists v, Arith.eval (cenc enc) (fun _ => None) 0 e = Ok v /\ -65536 < v < 65536 /\ f_base f = v mod 65536.
Proof. exact base_from_first. Qed.
Print Assumptions R_base_from_first.

(* whatever fixed it, the base of an assembled program is a 16-bit address *)
Theorem R_base_range : forall enc p f, assemble_full enc p = XOk f -> 0 <= f_base f < 65536.
Proof. exact base_range. Qed.
Print Assumptions R_base_range.

(* a `.link` after a reached top-level `.link e` / `. = e` (no .end before either): the program never assembles.
   (Not "= XErr [address-conflict]" for every program: an earlier statement may fail first, and a program outside the
   modelled subset is XUnsup; on the layout itself see R_second_link_layout.) *)
Theorem R_second_link_rejected : forall enc pre s mid e2 post f,
  noend pre = true -> noend mid = true -> is_base s = true ->
  assemble_full enc (pre ++ s :: mid ++ Link e2 :: post) <> XOk f.
Proof. exact second_link_rejected. Qed.
Print Assumptions R_second_link_rejected.

Theorem R_second_link_layout : forall enc alldefs allkeys exports fuel pre s mid e2 post st,
  is_base s = true -> l_inc st = false ->
  forall r, lay_list enc alldefs allkeys exports fuel false (pre ++ s :: mid ++ Link e2 :: post) st <> XOk r.
Proof. exact second_link_lay. Qed.
Print Assumptions R_second_link_layout.

(* `. = e` with the base fixed, e worth v (|v| < 2^16), X = v mod 2^16 *)
(* X before the current address: the statement is the error value-out-of-bounds, when its bytes are computed ... *)
Theorem R_dot_backward_rejected : forall enc ev addr e v, ev e = XOk v -> -65536 < v < 65536 -> v mod 65536 < addr ->
  emit_leaf enc ev addr (Skip e) = XErr ["value-out-of-bounds"].
Proof. exact dot_backward_rejected. Qed.
Print Assumptions R_dot_backward_rejected.

(* ... and already when the layout meets it *)
Theorem R_dot_backward_rejected_layout : forall enc alldefs allkeys exports fuel (inrep : bool) e st v,
  l_based st = true -> l_inc st = false ->
  lev enc alldefs allkeys exports fuel st (l_file st, if inrep then @None nat else Some (l_scope st)) e = XOk v ->
  -65536 < v < 65536 -> v mod 65536 < l_addr st ->
  lay_leaf enc alldefs allkeys exports fuel inrep (Skip e) st = XErr ["value-out-of-bounds"].
Proof. exact lay_dot_backward. Qed.
Print Assumptions R_dot_backward_rejected_layout.

(* X at or after the current address: exactly X - address zero bytes *)
Theorem R_dot_forward_fills : forall enc ev addr e v, ev e = XOk v -> -65536 < v < 65536 -> addr <= v mod 65536 ->
  emit_leaf enc ev addr (Skip e) = XOk (zeros (Z.to_nat (v mod 65536 - addr))) /\
  zlen (zeros (Z.to_nat (v mod 65536 - addr))) = v mod 65536 - addr.
Proof. exact dot_forward_fills. Qed.
Print Assumptions R_dot_forward_fills.

Theorem R_dot_forward_fills_layout : forall enc alldefs allkeys exports fuel (inrep : bool) e st v,
  l_based st = true -> l_inc st = false ->
  lev enc alldefs allkeys exports fuel st (l_file st, if inrep then @None nat else Some (l_scope st)) e = XOk v ->
  -65536 < v < 65536 -> l_addr st <= v mod 65536 ->
  exists st' it, lay_leaf enc alldefs allkeys exports fuel inrep (Skip e) st = XOk (st', [it]) /\ l_addr st' = v mod 65536 /\
                 i_addr it = l_addr st /\ i_stmt it = Skip e /\ i_size it = v mod 65536 - l_addr st.
Proof. exact lay_dot_forward. Qed.
Print Assumptions R_dot_forward_fills_layout.

(* end to end: every `. = e` that stayed a skip in a program that assembles has a value v of e (final symbol table,
   `.` = its own address) within the 16-bit rule, X = v mod 2^16 is not before its address, its bytes in the image are
   exactly X - address zeros, and the next address is X.  (So a backward `. =` never occurs in an assembled program.) *)
Theorem R_dot_in_program : forall enc p f k it bs e, assemble_full enc p = XOk f ->
  nth_error (f_items f) k = Some it -> nth_error (f_chunks f) k = Some bs -> i_stmt it = Skip e ->
  exists v, Arith.eval (cenc enc) (sym_of (f_exports f) (f_syms f) (i_scope it)) (i_addr it) e = Ok v /\
            -65536 < v < 65536 /\ i_addr it <= v mod 65536 /\
            bs = zeros (Z.to_nat (v mod 65536 - i_addr it)) /\ i_addr it + zlen bs = v mod 65536.
Proof. exact dot_item. Qed.
Print Assumptions R_dot_in_program.

(* ---- non-vacuity ------------------------------------------------------------------------------------------------- *)
Definition bnum (z : Z) : expr := Lit (LNum (z <? 0) SBareOct false false (Z.abs_N z)).

(* nop            default base;    .link 2000 / nop;    . = 2000 / nop;     .link -2 : base 0o177776 *)
Example R_base_examples :
  assemble bk_enc [Insn "nop" []] = XOk (512, [160; 0], []) /\
  has_base [Insn "nop" []] = false /\ forallb plain_stmt [Insn "nop" []] = true /\
  assemble bk_enc (at_base 1024 [Insn "nop" []]) = XOk (1024, [160; 0], []) /\
  assemble bk_enc [Insn "nop" []; Skip (bnum 1024); Insn "nop" []] = XOk (1024, [160; 0; 160; 0], []) /\
  assemble bk_enc [Link (bnum (-2)); Insn "nop" []] = XOk (65534, [160; 0], []) /\
  assemble bk_enc (at_base 65536 [Insn "nop" []]) = XErr ["value-out-of-bounds"].
Proof. vm_compute. repeat split; reflexivity. Qed.

(* .link 1000 / nop / .link 2000;    . = 1000 / nop / .link 2000;    after .end the second one is not reached *)
Example R_second_link_examples :
  assemble bk_enc [Link (bnum 512); Insn "nop" []; Link (bnum 1024)] = XErr ["address-conflict"] /\
  assemble bk_enc [Skip (bnum 512); Insn "nop" []; Link (bnum 1024)] = XErr ["address-conflict"] /\
  assemble bk_enc [Link (bnum 512); Insn "nop" []; End; Link (bnum 1024)] = XOk (512, [160; 0], []).
Proof. vm_compute. repeat split; reflexivity. Qed.

(* .link 1000 / nop / . = 1010 / nop   fills 6 zeros;    . = 1000 (backward by 2) is an error;
   . = .-2 likewise;  . = 200000 is outside the 16-bit rule *)
Example R_dot_examples :
  assemble bk_enc [Link (bnum 512); Insn "nop" []; Skip (bnum 520); Insn "nop" []]
    = XOk (512, [160; 0; 0; 0; 0; 0; 0; 0; 160; 0], []) /\
  assemble bk_enc [Link (bnum 512); Insn "nop" []; Skip (bnum 512); Insn "nop" []] = XErr ["value-out-of-bounds"] /\
  assemble bk_enc [Link (bnum 512); Insn "nop" []; Skip (Bin BSub Dot (bnum 2))] = XErr ["value-out-of-bounds"] /\
  assemble bk_enc [Link (bnum 512); Insn "nop" []; Skip (bnum 65536)] = XErr ["value-out-of-bounds"] /\
  assemble bk_enc [Link (bnum 512); Insn "nop" []; Skip (bnum 514)] = XOk (512, [160; 0], []).
Proof. vm_compute. repeat split; reflexivity. Qed.
