(* C15 -- Radix-50 packing.
   Only statements, each closed by [exact] of a lemma from Proofs/Rad50P.v, then Print Assumptions.
   '.rad50' refuses non-ASCII characters before upper-casing (char.isascii(), /repo aa9a583) and '^R'
   only matches ASCII characters, so str.upper() is only applied to ASCII, where it is a..z -> A..Z:
   the theorems are stated outright against Spec/Rad50Spec.v, with no assumption about Python's
   Unicode case mapping. *)
From Coq Require Import String List ZArith NArith Bool.
From Verif Require Import Base.Res Base.Bytes Gen.GenRadix50 Spec.Rad50Spec Model.Rad50 Proofs.Rad50P.
Import ListNotations.
Open Scope list_scope.
Open Scope Z_scope.

(* the TABLE in pdpy11/radix50.py (regenerated on every run) is the DEC alphabet: 40 distinct characters *)
Theorem C15_alphabet :
  rad50_table = alphabet /\ Datatypes.length alphabet = 40%nat /\ NoDup alphabet.
Proof. exact alphabet_ok. Qed.
Print Assumptions C15_alphabet.

(* unpacking inverts the packing weights; pure arithmetic over unbounded Z, no enumeration *)
Theorem C15_pack_unpack :
  forall a b c, 0 <= a < 40 -> 0 <= b < 40 -> 0 <= c < 40 ->
  unpack (a * 1600 + b * 40 + c) = (a, b, c) /\ 0 <= a * 1600 + b * 40 + c < 64000.
Proof. exact pack_unpack. Qed.
Print Assumptions C15_pack_unpack.

(* '.rad50' on operands of any length: strings over the alphabet in either case and <n> with
   0 <= n < 40.  The emitted bytes are the little-endian words ws; every word is below 64000; the
   words decode (standard algorithm, Spec alphabet) to the upper-cased text, <n> standing for the
   n-th alphabet character, padded with spaces to a multiple of three. *)
Theorem C15_rad50_directive :
  forall cs, Forall good_chunk cs ->
  exists ws, rad50 rad50_table cs = Ok (flat_map le16 ws) /\
             words_of_bytes (flat_map le16 ws) = ws /\
             Forall (fun w => 0 <= w < 64000) ws /\
             decode ws = Some (pad3 32%N (flat_map chunk_text cs)).
Proof. exact rad50_directive. Qed.
Print Assumptions C15_rad50_directive.

(* the property text verbatim for one plain string *)
Theorem C15_rad50_string :
  forall s, Forall (fun ch => accepted_char ch = true) s ->
  exists ws, rad50 rad50_table [Str s] = Ok (flat_map le16 ws) /\
             Forall (fun w => 0 <= w < 64000) ws /\
             decode ws = Some (expected_text s).
Proof. exact rad50_string. Qed.
Print Assumptions C15_rad50_string.

(* <n> with n >= 40 or n < 0 anywhere in the operand: the assembly fails with 'value-out-of-bounds' *)
Theorem C15_bad_code_error :
  forall cs n, In (Code n) cs -> n < 0 \/ 40 <= n ->
  exists ids, rad50 rad50_table cs = Err ids /\ In "value-out-of-bounds"%string ids.
Proof. exact rad50_bad_code. Qed.
Print Assumptions C15_bad_code_error.

(* every character -- any code point, no bound -- that is not an alphabet character in either ASCII case
   (accepted_char of the Spec), anywhere in the operand: the assembly fails with 'invalid-character' *)
Theorem C15_outside_alphabet_error :
  forall cs s ch, In (Str s) cs -> In ch s -> accepted_char ch = false ->
  exists ids, rad50 rad50_table cs = Err ids /\ In "invalid-character"%string ids.
Proof. exact outside_alphabet_error. Qed.
Print Assumptions C15_outside_alphabet_error.

(* conversely, success means every character is an alphabet character in either ASCII case and every <n> is a code *)
Theorem C15_ok_only_if :
  forall cs bs, rad50 rad50_table cs = Ok bs -> Forall good_chunk cs.
Proof. exact rad50_ok_only_if. Qed.
Print Assumptions C15_ok_only_if.

(* '.rad50' always ends in bytes or in reported errors: the struct.error / ValueError paths are dead *)
Theorem C15_never_crashes :
  forall cs,
  (exists bs, rad50 rad50_table cs = Ok bs /\ snd (chunk_codes rad50_table cs) = []) \/
  (exists ids, rad50 rad50_table cs = Err ids /\ ids = snd (chunk_codes rad50_table cs) /\ ids <> []).
Proof. exact rad50_never_crashes. Qed.
Print Assumptions C15_never_crashes.

(* ^Rccc with 1..3 characters (either case, no space: the literal's character class), followed by
   the end of the text or a character outside the class: its value is the one word '.rad50' emits for
   the same characters, and decodes to the upper-cased characters padded with spaces *)
Theorem C15_literal :
  forall s rest,
  (1 <= Datatypes.length s <= 3)%nat -> Forall lit_char s ->
  match rest with [] => True | c :: _ => lit_class rad50_table c = false end ->
  exists w, literal rad50_table (s ++ rest) = Ok w /\
            rad50 rad50_table [Str s] = Ok (le16 w) /\
            0 <= w < 64000 /\
            decode [w] = Some (expected_text s).
Proof. exact literal_spec. Qed.
Print Assumptions C15_literal.

(* the literal's character class is exactly: accepted by the Spec (either case) and not the space *)
Theorem C15_literal_class :
  forall c, lit_class rad50_table c = true <-> lit_char c.
Proof. exact lit_class_iff. Qed.
Print Assumptions C15_literal_class.

(* no characters, or more than three, after ^R: never a value without an error *)
Theorem C15_literal_bad_length :
  forall text,
  (Datatypes.length (take_while (lit_class rad50_table) text) = 0 \/
   3 < Datatypes.length (take_while (lit_class rad50_table) text))%nat ->
  ~ exists w, literal rad50_table text = Ok w.
Proof. exact literal_bad_length. Qed.
Print Assumptions C15_literal_bad_length.

(* ---- non-vacuity ---- *)
(* "ab" <39> "c$" : mixed case, an angle code and padding.  'A'=1 'B'=2 '9'=39, 'C'=3 '$'=27 ' '=0 *)
Example C15_directive_example :
  rad50_ascii [Str [97; 66]%N; Code 39; Str [99; 36]%N] = Ok (le16 (1 * 1600 + 2 * 40 + 39) ++ le16 (3 * 1600 + 27 * 40 + 0))
  /\ Forall good_chunk [Str [97; 66]%N; Code 39; Str [99; 36]%N]
  /\ decode [1 * 1600 + 2 * 40 + 39; 3 * 1600 + 27 * 40 + 0] = Some [65; 66; 57; 67; 36; 32]%N.
Proof.
  split; [vm_compute; reflexivity|]. split; [|vm_compute; reflexivity].
  repeat constructor; vm_compute; congruence.
Qed.
(* U+FB06 (ligature st, upper() = "ST"), U+017F (long s, upper() = "S"), U+0131 (dotless i): refused *)
Example C15_non_ascii_refused :
  rad50_ascii [Str [64262%N]] = Err ["invalid-character"%string] /\
  rad50_ascii [Str [383; 305; 75]%N] = Err ["invalid-character"%string; "invalid-character"%string] /\
  accepted_char 383 = false /\ accepted_char 305 = false /\ accepted_char 8490 = false.
Proof. vm_compute. repeat split; reflexivity. Qed.
Example C15_code_40_refused : rad50_ascii [Code 40] = Err ["value-out-of-bounds"%string].
Proof. vm_compute. reflexivity. Qed.
Example C15_literal_example : literal_ascii [97; 36; 10]%N = Ok (1 * 1600 + 27 * 40 + 0).
Proof. vm_compute. reflexivity. Qed.
