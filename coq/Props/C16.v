(* C16 -- Structural directives preserve meaning.
   Only statements, each closed by [exact] of a lemma from Proofs/, then Print Assumptions.

   Part 1 (Model/TreeCache.v): the '.repeat' body is ONE token tree compiled n times; everything the
   code writes onto that tree (operator value caches, reported flags, label fixup) or derives from it
   (hoisting) is modelled, and the n-fold threaded compilation is proved equal to compiling the body
   written out n times.
   Part 2 (Model/Structure.v): linking, insert_file, '.end', '.once' on statement lists. *)
From Coq Require Import ZArith List String Bool.
From Verif Require Import Base.Res Model.TreeCache Proofs.TreeCacheP.
From Verif Require Model.Structure Proofs.StructureP.
From Verif Require Gen.GenOperators.
Import ListNotations.
Open Scope string_scope.
Open Scope list_scope.
Open Scope Z_scope.

(* ---------------------------------------------------------------------------------------------- *)
(* hoist_pure: compiling a register-mode operand leaves the operand stored in the instruction with
   the shape it had (only caches / flags may differ).  This is the statement that the code before
   commit 95bc3ec refuted: there the stored operand became the hoisted tree. *)
Theorem C16_hoist_pure :
  forall env dot rel t m ext t' d,
    compile_rm env dot rel t = Ok (m, ext, t', d) -> strip t' = strip t.
Proof. exact compile_rm_shape. Qed.
Print Assumptions C16_hoist_pure.

(* hoist_classification: 'a op b(r)' with ANY nesting of infix operators (on their right operand)
   and prefix operators above the register call is rewritten to 'Call (a op b) r' ... *)
Theorem C16_hoist_classification :
  forall ctx b r c0, is_regish r = true -> ctx <> [] ->
    hoist (plug ctx (Call b r c0)) = Call (plug ctx b) r None.
Proof. exact hoist_classification. Qed.
Print Assumptions C16_hoist_classification.

(* ... and is then compiled as index mode (060 + r) whose extension word is the value of the
   re-associated offset expression *)
Theorem C16_hoist_index_mode :
  forall ctx b rn r c0,
    ctx <> [] -> reg_of_name rn = Some r ->
    (forall op c rest, ctx = FPrefix op c :: rest -> String.eqb op "@" = false) ->
    classify (plug ctx (Call b (Sym rn false) c0)) = (48 + r, EGai, [], Some (plug ctx b)).
Proof. exact hoist_index_mode. Qed.
Print Assumptions C16_hoist_index_mode.

(* fixup_idempotent: fixup_label applied to its own output changes nothing ... *)
Theorem C16_fixup_idempotent :
  forall txt t, fix_inplace txt (fix_inplace txt t) = fix_inplace txt t.
Proof. exact fix_inplace_idem. Qed.
Print Assumptions C16_fixup_idempotent.

(* ... and the branch compiled from the rewritten operand is the branch compiled from the original *)
Theorem C16_fixup_same_encoding :
  forall bits uns txt env dot rel F t, coh F t ->
    same_result F (compile_br bits uns txt env dot rel (fix_inplace txt t))
                  (compile_br bits uns txt env dot rel t).
Proof. exact fixup_same_encoding. Qed.
Print Assumptions C16_fixup_same_encoding.

(* cache_coherent: an impure operator returns its stored value only if the stored operands equal the
   current ones; otherwise it is invoked again on the current operands and the pair is replaced *)
Theorem C16_cache_coherent :
  forall c args inv v c' d,
    use_cache false c args inv = Ok (v, c', d) ->
    (c = Some (args, v) /\ c' = c /\ d = [])
    \/ (inv args = Ok (v, d) /\ c' = Some (args, v)
        /\ (forall a0 v0, c = Some (a0, v0) -> a0 <> args)).
Proof. exact use_cache_hit. Qed.
Print Assumptions C16_cache_coherent.

(* a hit on a coherent cache is what a recomputation would return *)
Theorem C16_cache_hit_is_recomputation :
  forall F inv c args, cache_ok F inv c ->
    same_result F (use_cache false c args inv) (use_cache false None args inv).
Proof. exact cache_hit_is_recomputation. Qed.
Print Assumptions C16_cache_hit_is_recomputation.

(* flags_only_affect_diagnostics: two annotation states (caches, reported_* flags) of the same
   expression evaluate to the same value; they differ at most in which diagnostics are repeated,
   never in whether the assembly has failed *)
Theorem C16_flags_only_affect_diagnostics :
  forall env dot F t1 t2,
    strip t1 = strip t2 -> coh F t1 -> coh F t2 ->
    same_result F (eval env dot t1) (eval env dot t2).
Proof. exact flags_only_affect_diagnostics. Qed.
Print Assumptions C16_flags_only_affect_diagnostics.

(* the same for whole bodies, nested '.repeat' included: also the label fixup already applied *)
Theorem C16_body_annotations_irrelevant :
  forall budget fuel env F b1 b2 a c,
    nf_block b1 = nf_block b2 -> coh_block F b1 -> coh_block F b2 ->
    same_result F (compile_block budget fuel env b1 a c) (compile_block budget fuel env b2 a c).
Proof. exact body_annotations_irrelevant. Qed.
Print Assumptions C16_body_annotations_irrelevant.

(* repeat_unroll: for every n, every body (the body language has no labels / definitions: the code
   rejects them; names resolve through the same [env] on both sides, i.e. no reference to an
   enclosing local label) without '.end' inside, compiling the ONE body tree n times, each time as
   the previous compilation left it and at its own running address, yields exactly what the body
   written out n times yields -- same bytes, same success / failure -- PROVIDED both are compiled
   with the total number of repetitions within the budget m (MAX_REPETITIONS = 65536 in the code,
   [code_budget]; commit 5b48d07): [within m r] says the run ends normally with
   Compiler.repetitions_compiled <= m, i.e. no iteration was refused.  Beyond the budget the
   repeat is refused with 'value-out-of-bounds' while the written-out text, which has fewer
   repetitions to count, need not be (Props/C16_findings.v).
   [coh_block false body] holds for every body as the parser makes it ([C16_fresh_body_coherent]). *)
Definition no_end_in_body (body : list item) : Prop := has_end body = false.

Theorem C16_repeat_unroll :
  forall m f env n body a c,
    no_end_in_body body -> coh_block false body ->
    within m (repeat_model (Some m) (S f) env n body a c) ->
    within m (unrolled (Some m) (S f) env n body a c) ->
    outcome_of (repeat_model (Some m) (S f) env n body a c) = outcome_of (unrolled (Some m) (S f) env n body a c).
Proof. exact repeat_unroll. Qed.
Print Assumptions C16_repeat_unroll.

(* the bare mechanism (no budget): unconditional, and independent of the counters the two sides start from *)
Theorem C16_repeat_unroll_no_budget :
  forall f env n body a c c',
    no_end_in_body body -> coh_block false body ->
    outcome_of (repeat_model None (S f) env n body a c) = outcome_of (unrolled None (S f) env n body a c').
Proof. exact repeat_unroll_free. Qed.
Print Assumptions C16_repeat_unroll_no_budget.

(* a budgeted run that ends within the budget is the run without a budget *)
Theorem C16_budget_irrelevant_within :
  forall m env fuel b a c bs k y d,
    compile_block (Some m) fuel env b a c = Ok ((bs, k), y, d) -> k <= m ->
    c <= k /\ compile_block None fuel env b a c = Ok ((bs, k), y, d).
Proof. exact compile_block_agrees. Qed.
Print Assumptions C16_budget_irrelevant_within.

(* fuel_sufficient: the theorems above are not about two out-of-fuel results: with fuel S f and a body
   whose '.repeat's nest at most f deep ([depth]), neither side runs out of fuel *)
Theorem C16_fuel_sufficient :
  forall budget f env n body a c, (depth body <= f)%nat ->
    outcome_of (repeat_model budget (S f) env n body a c) <> OFuel /\ outcome_of (unrolled budget (S f) env n body a c) <> OFuel.
Proof. exact fuel_sufficient. Qed.
Print Assumptions C16_fuel_sufficient.

(* the two ways metacommands.repeat builds its result (join at once / add up one by one) are the same bytes *)
Theorem C16_join_is_fold :
  forall chunks : list (list Z), fold_left (@app Z) chunks [] = List.concat chunks.
Proof. exact join_is_fold. Qed.
Print Assumptions C16_join_is_fold.

Theorem C16_fresh_body_coherent :
  forall F b, nf_block b = b -> coh_block F b.
Proof. exact coh_block_fresh. Qed.
Print Assumptions C16_fresh_body_coherent.

(* ---------------------------------------------------------------------------------------------- *)
(* Part 2: files *)
Import Structure.

(* link_is_concat: files that do not end early ('.end' / '.once' at their top level) link to what
   the single file holding their statements in order assembles to.  (Names are outside this model:
   it speaks about programs whose symbols resolve the same way in both forms.) *)
Theorem C16_link_is_concat :
  forall (P : Type) (emit : P -> Z -> res (list Z)) fs ids c fuel a t,
    fs c = List.concat (map fs ids) ->
    (forall i, In i ids -> no_stop P (fs i) = true) ->
    (forall j g, In g (c :: ids) -> includes P (fs j) g = false) ->
    image (link P emit fs (S fuel) ids a t) = image (compile_file P emit fs (S fuel) c a t).
Proof. exact StructureP.link_concat. Qed.
Print Assumptions C16_link_is_concat.

(* insert_is_bytes: insert_file of a non-empty file = '.byte' with the same byte values *)
Theorem C16_insert_is_bytes :
  forall (P : Type) (emit : P -> Z -> res (list Z)) rec me pre post bs,
    bs <> [] -> Forall (fun b => 0 <= b < 256) bs ->
    forall a t, block P emit rec me (pre ++ Insert bs :: post) a t
              = block P emit rec me (pre ++ Byte bs :: post) a t.
Proof. exact StructureP.insert_bytes. Qed.
Print Assumptions C16_insert_is_bytes.

(* ... per occurrence and with the file system keyed by (including file, path as written): the
   'insert_file "name"' written in file g is the '.byte' data of [blob g name], the file that this
   spelling resolves to FROM g -- in the whole program, wherever g is linked or included from.  The same
   spelling in another file h stands for [blob h name], possibly another file. *)
Theorem C16_insert_is_bytes_per_occurrence :
  forall (P : Type) (emit : P -> Z -> res (list Z)) (blob : fid -> nat -> list Z) src g pre nm post,
    src g = pre ++ SInsertAt nm :: post ->
    blob g nm <> [] -> Forall (fun b => 0 <= b < 256) (blob g nm) ->
    forall fuel f a t,
      compile_file P emit (elab_table P blob src) fuel f a t
      = compile_file P emit (elab_table P blob (upd P src g (pre ++ SStmt (Byte (blob g nm)) :: post))) fuel f a t.
Proof. exact StructureP.insert_at_bytes. Qed.
Print Assumptions C16_insert_is_bytes_per_occurrence.

(* an empty inserted file contributes nothing *)
Theorem C16_insert_empty :
  forall (P : Type) (emit : P -> Z -> res (list Z)) rec me pre post a t,
    block P emit rec me (pre ++ Insert [] :: post) a t = block P emit rec me (pre ++ post) a t.
Proof. exact StructureP.insert_empty. Qed.
Print Assumptions C16_insert_empty.

(* end_cuts_own_file: '.end' discards exactly the rest of the block of its file ... *)
Theorem C16_end_cuts_block :
  forall (P : Type) (emit : P -> Z -> res (list Z)) rec me pre post a t,
    block P emit rec me (pre ++ End :: post) a t = block P emit rec me pre a t.
Proof. exact StructureP.end_cut. Qed.
Print Assumptions C16_end_cuts_block.

(* ... wherever that file is compiled from (linked, or included at any depth: the includer goes on
   as if the file had ended there): the whole program equals the program with the file cut *)
Theorem C16_end_cuts_own_file :
  forall (P : Type) (emit : P -> Z -> res (list Z)) fs g pre post,
    fs g = pre ++ End :: post ->
    forall fuel ids a t,
      link P emit fs fuel ids a t = link P emit (StructureP.cut_table P fs g pre) fuel ids a t.
Proof. exact StructureP.end_cuts_link. Qed.
Print Assumptions C16_end_cuts_own_file.

(* once_first_only: a file that starts with '.once' contributes its body the first time ... *)
Theorem C16_once_first :
  forall (P : Type) (emit : P -> Z -> res (list Z)) fs g body k a t,
    fs g = Once :: body -> count t g = O ->
    compile_file P emit fs (S k) g a t = block P emit (compile_file P emit fs k) g body a (g :: t).
Proof. exact StructureP.once_first. Qed.
Print Assumptions C16_once_first.

(* ... and nothing whenever it has been compiled before *)
Theorem C16_once_again :
  forall (P : Type) (emit : P -> Z -> res (list Z)) fs g body k a t,
    fs g = Once :: body -> (1 <= count t g)%nat ->
    compile_file P emit fs (S k) g a t = Ok ([], g :: t).
Proof. exact StructureP.once_again. Qed.
Print Assumptions C16_once_again.

(* so 1 + n inclusions in a row give the image of one inclusion *)
Theorem C16_once_n_times :
  forall (P : Type) (emit : P -> Z -> res (list Z)) fs g body k me n a t,
    fs g = Once :: body ->
    image (block P emit (compile_file P emit fs (S k)) me (repeat (Include g) (S n)) a t)
    = image (block P emit (compile_file P emit fs (S k)) me [Include g] a t).
Proof. exact StructureP.once_n_times. Qed.
Print Assumptions C16_once_n_times.

(* the law does not depend on the route that leads to the file: compile_file is the single entry
   point for a linked file and for an included one, so the k-th compilation (k >= 2) of a '.once'
   file contributes nothing when the file is given again as a linked file ... *)
Theorem C16_once_linked_again :
  forall (P : Type) (emit : P -> Z -> res (list Z)) fs g body k rest a t,
    fs g = Once :: body -> (1 <= count t g)%nat ->
    link P emit fs (S k) (g :: rest) a t = link P emit fs (S k) rest a (g :: t).
Proof. exact StructureP.once_linked_again. Qed.
Print Assumptions C16_once_linked_again.

(* ... when it is included after having been compiled by any route (linked or included) ... *)
Theorem C16_once_included_again :
  forall (P : Type) (emit : P -> Z -> res (list Z)) fs g body k me rest a t,
    fs g = Once :: body -> (1 <= count t g)%nat ->
    block P emit (compile_file P emit fs (S k)) me (Include g :: rest) a t
    = block P emit (compile_file P emit fs (S k)) me rest a (g :: t).
Proof. exact StructureP.once_included_again. Qed.
Print Assumptions C16_once_included_again.

(* ... and a '.once' file listed twice among the linked files is the file listed once *)
Theorem C16_once_listed_twice :
  forall (P : Type) (emit : P -> Z -> res (list Z)) fs g body k a t,
    fs g = Once :: body ->
    image (link P emit fs (S k) [g; g] a t) = image (link P emit fs (S k) [g] a t).
Proof. exact StructureP.once_listed_twice. Qed.
Print Assumptions C16_once_listed_twice.

(* ---------------------------------------------------------------------------------------------- *)
(* hypotheses are satisfiable by non-trivial instances *)
Definition ex_env (n : string) : option Z := if String.eqb n "a" then Some 8 else None.
Definition ex_num (v : Z) : tree := Num "n" v true false false.
(* mov a+2(r0), @.   ;   .word ./2   ;   br .+4   -- every copy sees its own '.' *)
Definition ex_body : list item :=
  [ IInsn 4096 [(SRm 6, Infix "+" (Sym "a" false) (Call (ex_num 2) (Sym "r0" false) None) None);
                (SRm 0, Prefix "@" Dot None)];
    IWord [Infix "/" Dot (ex_num 2) None];
    IInsn 256 [(SBr 8 false false, Infix "+" Dot (ex_num 4) None)] ].

Example C16_repeat_example :
  no_end_in_body ex_body /\ coh_block false ex_body /\
  outcome_of (repeat_model code_budget 2 ex_env 2 ex_body 512 0)
  = OOk [63; 28; 10; 0; 250; 255; 3; 1; 1; 1;   63; 28; 10; 0; 250; 255; 8; 1; 1; 1].
Proof. split; [reflexivity|]. split; [apply coh_block_fresh; reflexivity | vm_compute; reflexivity]. Qed.

(* the budget hypotheses hold for it: 2 repetitions on one side, none on the other, budget 65536 *)
Example C16_within_example :
  within 65536 (repeat_model (Some 65536) 2 ex_env 2 ex_body 512 0)
  /\ within 65536 (unrolled (Some 65536) 2 ex_env 2 ex_body 512 0).
Proof. split; vm_compute; do 4 eexists; (split; [reflexivity | discriminate]). Qed.

(* the boundary, with a budget of 3: three repetitions are compiled, the fourth is refused *)
Example C16_budget_boundary :
  let one := [IByte [ex_num 7]] in
  outcome_of (repeat_model (Some 3) 1 ex_env 3 one 512 0) = OOk [7; 7; 7]
  /\ outcome_of (repeat_model (Some 3) 1 ex_env 4 one 512 0) = OFailed
  /\ outcome_of (unrolled (Some 3) 1 ex_env 4 one 512 0) = OOk [7; 7; 7; 7].
Proof. repeat split; vm_compute; reflexivity. Qed.

(* the second copy of './2' does not reuse the first copy's cached value *)
Example C16_cache_example :
  exists b', repeat_model code_budget 2 ex_env 2 [IWord [Infix "/" Dot (ex_num 2) None]] 512 0
             = Ok (([0; 1; 1; 1], 2), b', []).
Proof. eexists. vm_compute. reflexivity. Qed.

Example C16_hoist_example :
  hoist (Infix "+" (Infix "*" (Sym "a" false) (ex_num 2) None) (Call (Sym "b" false) (Sym "r3" false) None) None)
  = Call (Infix "+" (Infix "*" (Sym "a" false) (ex_num 2) None) (Sym "b" false) None) (Sym "r3" false) None.
Proof. reflexivity. Qed.

Example C16_fixup_example :
  fix_inplace false (Infix "+" (ex_num 1) (ex_num 2) None) = Infix "+" (Sym "n" true) (ex_num 2) None.
Proof. reflexivity. Qed.

Example C16_link_example :
  let fs := fun f : nat => match f with
                           | 0%nat => [Plain (PDotWord 0); Byte [1; 2]]
                           | 1%nat => [Plain (PDotWord 2); Include 3%nat]
                           | 2%nat => [Plain (PDotWord 0); Byte [1; 2]; Plain (PDotWord 2); Include 3%nat]
                           | _ => [Once; Byte [7; 7]]
                           end in
  image (link plain emit_plain fs 3 [0; 1]%nat 512 []) = Ok [0; 2; 1; 2; 6; 2; 7; 7]
  /\ image (compile_file plain emit_plain fs 3 2%nat 512 []) = Ok [0; 2; 1; 2; 6; 2; 7; 7].
Proof. split; vm_compute; reflexivity. Qed.
