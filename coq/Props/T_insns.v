(* Props/T_insns.v -- the code translated from pdpy11/insns.py (Gen/GenPureInsns.v, regenerated on every run) equals
   the hand model Model/Insns.v.  See the table in Props/T.v.  Only statements, each closed by [exact] of a lemma of
   Proofs/GenPureInsnsP.v, then Print Assumptions. *)
From Coq Require Import String List ZArith NArith Bool.
From Verif Require Import Base.Res Base.Bytes Gen.GenPure Gen.GenPureInsns Spec.PDP11 Model.Insns Proofs.GenPureInsnsP.
Import ListNotations.
Open Scope list_scope.
Open Scope Z_scope.

(* ---- insns.py ------------------------------------------------------------------------------------------ *)
(* [observed]: the value when nothing was reported, otherwise the failed assembly with the identifiers reported;
   [n] = len(self.bit_indexes); [dl]: the isinstance test that only chooses between two message texts *)
Theorem T_offset_fn_is_model : forall u n dl t rel,
  observed (offset_fn u n dl t rel) = enc_offset u (Z.of_nat n) t rel.
Proof. exact offset_fn_is_model. Qed.
Print Assumptions T_offset_fn_is_model.

Theorem T_imm_fn_is_model : forall u n v, observed (imm_fn u n v) = enc_imm u (Z.of_nat n) v.
Proof. exact imm_fn_is_model. Qed.
Print Assumptions T_imm_fn_is_model.

Theorem T_rel_word_67_is_model : forall t rel, rel_word_67 t rel = Ok (enc_rel t rel).
Proof. exact rel_word_67_is_model. Qed.
Print Assumptions T_rel_word_67_is_model.

Theorem T_rel_word_77_is_model : forall t rel, rel_word_77 t rel = Ok (enc_rel t rel).
Proof. exact rel_word_77_is_model. Qed.
Print Assumptions T_rel_word_77_is_model.

Theorem T_rel_address_of_is_model : forall addr (ext : list Z),
  rel_address_of addr (2 * length ext) = addr + 2 + 2 * Z.of_nat (length ext).
Proof. exact rel_address_of_is_model. Qed.
Print Assumptions T_rel_address_of_is_model.

(* where the functions sit in Model/Insns.v *)
Theorem T_enc_stub_offset_translated : forall st t rel dl, sk st = SkOffset ->
  enc_stub st (ORel t) rel =
  (do f <- observed (offset_fn (unsigned_ st) (length (bit_indexes st)) dl t rel); Ok (f, [])).
Proof. exact enc_stub_offset_translated. Qed.
Print Assumptions T_enc_stub_offset_translated.

Theorem T_enc_stub_imm_translated : forall st v rel, sk st = SkImmediate ->
  enc_stub st (OImm v) rel = (do f <- observed (imm_fn (unsigned_ st) (length (bit_indexes st)) v); Ok (f, [])) /\
  enc_stub st (ORel v) rel = (do f <- observed (imm_fn (unsigned_ st) (length (bit_indexes st)) v); Ok (f, [])).
Proof. exact enc_stub_imm_translated. Qed.
Print Assumptions T_enc_stub_imm_translated.

Theorem T_enc_regmode_rel_translated : forall t rel,
  enc_regmode (ORel t) rel = (do w <- rel_word_67 t rel; Ok (55, [w])) /\
  enc_regmode (ORelDef t) rel = (do w <- rel_word_77 t rel; Ok (63, [w])).
Proof. exact enc_regmode_rel_translated. Qed.
Print Assumptions T_enc_regmode_rel_translated.

Theorem T_enc_operands_rel_address_translated : forall st sts o ops addr ext,
  enc_operands (st :: sts) (o :: ops) addr ext =
  (do ve <- enc_stub st o (rel_address_of addr (2 * length ext));
   do r <- enc_operands sts ops addr (ext ++ snd ve);
   Ok (fst ve :: fst r, snd r)).
Proof. exact enc_operands_rel_address_translated. Qed.
Print Assumptions T_enc_operands_rel_address_translated.

(* the generated functions run: values, reports and their order *)
Example T_ex_offset :
  offset_fn false 8 false 254 0 = Ok (127, []) /\ offset_fn false 8 false 257 0 = Ok (0, ["branch-out-of-bounds"; "odd-branch"])
  /\ offset_fn true 6 true (-126) 0 = Ok (63, []) /\ offset_fn true 6 false 2 0 = Ok (0, ["branch-out-of-bounds"])
  /\ imm_fn true 6 63 = Ok (63, []) /\ imm_fn true 6 64 = Ok (0, ["value-out-of-bounds"]) /\ imm_fn false 8 (-255) = Ok (1, [])
  /\ rel_word_67 0 4 = Ok 65530 /\ rel_address_of 512 2 = 516.
Proof. repeat split; reflexivity. Qed.
