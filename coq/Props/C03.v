(* C03 -- Symbol values do not depend on definition order.
   Only statements, each closed by [exact] of a lemma from Proofs/LazyP.v, then Print Assumptions.

   The theorems are about Model/LazyEval.v: programs made of constant definitions 'name = expr'
   (expr over constants, symbols, + - * and a non-linear operator) and of uses of expressions,
   evaluated (a) finally, over the whole definition table with an awaiting set, and (b) the way the code
   does it: try when met, keep the value if ready, otherwise defer and force at the end.
   The tie of that model to pdpy11 and everything the model does not contain (labels, '.', sizes, layout,
   the operand position a value is used in) is the metamorphic correspondence of tools/props/c03.py. *)
From Coq Require Import String List ZArith Bool Permutation.
From Verif Require Import Base.Res Model.LazyEval Proofs.LazyP.
Import ListNotations.
Open Scope Z_scope.

(* a value obtained while speculating is the final value: T' is any later table (every lookup that
   succeeds in T gives the same entry in T') *)
Theorem C03_lazy_monotone :
  forall f (T T' : ltable) e v,
    try_now f T e = Some v ->
    (forall n ent, lookup n T = Some ent -> lookup n T' = Some ent) ->
    ev false f T' [] e = Some (Ok v).
Proof. exact lazy_monotone_lemma. Qed.
Print Assumptions C03_lazy_monotone.

(* the try-now-else-defer run gives, for every use, the result of the final evaluation over the whole
   definition table -- for every statement order; same value, or both fail (the identity of the
   reported error is not compared); never out of fuel *)
Theorem C03_lazy_refines_final :
  forall (ss : list stmt) (f : nat),
    NoDup (map fst (defs_of ss)) -> (run_bound ss <= f)%nat ->
    Forall2 res_equiv (lazy_run f ss) (final_run f ss).
Proof. exact lazy_refines_final_lemma. Qed.
Print Assumptions C03_lazy_refines_final.

(* final evaluation does not depend on the order of the definitions, including the error / cycle
   outcome; fuel_bound D e = (|D| + 1) * (max expression height + 1) + 1 is proved sufficient *)
Theorem C03_order_independent :
  forall (D D' : defs) (e : expr),
    NoDup (map fst D) -> Permutation D D' ->
    forall f f', (fuel_bound D e <= f)%nat -> (fuel_bound D' e <= f')%nat ->
    eval f' D' [] e = eval f D [] e /\ eval f D [] e <> OutOfFuel.
Proof. exact order_independent_lemma. Qed.
Print Assumptions C03_order_independent.

(* a reference through a chain of n additive definitions, defined in any order, is the sum; fuel 2n.
   The model has no cut-off: the statement is for every n.  The code has two -- wait() gives up after 1000 links and
   Python's recursion limit bites earlier for '+ 1' chains written in reverse order -- so for the real code the claim is
   the property's own bound, n <= 300, which the chain sweep of tools/props/c03.py covers (depths up to 300). *)
Theorem C03_chain_any_length :
  forall (l : list (string * Z)) (D : defs) n c,
    NoDup (map fst l) -> Permutation D (chain_defs l) ->
    last (map Some l) None = Some (n, c) ->
    eval (2 * length l) D [] (Sym n) = Ok (zsum (map snd l)).
Proof. exact chain_any_length_lemma. Qed.
Print Assumptions C03_chain_any_length.

(* partial: the model has only definitions and uses.  Missing w.r.t. the property text: statements whose
   bytes or size depend on the value, labels and '.', the implicit-word statement (a known finding) --
   covered by the metamorphic correspondence on the real code only. *)
Theorem C03_permute_defs_partial :
  forall (ss ss' : list stmt) (f f' : nat),
    NoDup (map fst (defs_of ss)) ->
    Permutation (defs_of ss) (defs_of ss') -> uses_of ss' = uses_of ss ->
    (run_bound ss <= f)%nat -> (run_bound ss' <= f')%nat ->
    Forall2 res_equiv (lazy_run f' ss') (lazy_run f ss).
Proof. exact reorder_lemma. Qed.
Print Assumptions C03_permute_defs_partial.

Theorem C03_move_def_partial :
  forall (ss : list stmt) (i j : nat),
    uses_of (move_def ss i j) = uses_of ss /\ Permutation (defs_of ss) (defs_of (move_def ss i j)).
Proof. exact move_def_ok. Qed.
Print Assumptions C03_move_def_partial.

(* the composed corollary: moving the definition at position i to position j changes neither the value of any use
   (same value, or both fail) nor the success/failure of the build -- also when the failing definition is used by
   nothing: [build_fails] forces every definition at the end, as the code does at link time.
   (partial in the same sense as above: the model has only definitions and uses) *)
Theorem C03_move_def_run_partial :
  forall (ss : list stmt) (i j f f' : nat),
    NoDup (map fst (defs_of ss)) -> (run_bound ss <= f)%nat -> (run_bound (move_def ss i j) <= f')%nat ->
    Forall2 res_equiv (lazy_run f' (move_def ss i j)) (lazy_run f ss) /\
    build_fails f' (move_def ss i j) = build_fails f ss.
Proof. exact move_def_run. Qed.
Print Assumptions C03_move_def_run_partial.

Theorem C03_build_outcome_order_free_partial :
  forall (ss ss' : list stmt) (f f' : nat),
    NoDup (map fst (defs_of ss)) ->
    Permutation (defs_of ss) (defs_of ss') -> uses_of ss' = uses_of ss ->
    (run_bound ss <= f)%nat -> (run_bound ss' <= f')%nat ->
    build_fails f' ss' = build_fails f ss.
Proof. exact build_fails_reorder. Qed.
Print Assumptions C03_build_outcome_order_free_partial.

(* non-vacuity *)
Example C03_ex_unused_faulty :
  build_fails 20 [SDef "a" (Sym "zz"); SUse (Const 1)] = true /\
  build_fails 20 [SDef "a" (Op (Const 1) (Sym "b")); SDef "b" (Const 0)] = true /\
  build_fails 20 [SDef "a" (Op (Const 1) (Sym "b")); SDef "b" (Const 2)] = false.
Proof. vm_compute. repeat split; reflexivity. Qed.
Definition ex_prog : list stmt :=
  [SUse (Sym "c"); SDef "c" (Op (Mul (Sym "b") (Const 3)) (Const 2)); SUse (Add (Sym "c") (Sym "a"));
   SDef "b" (Add (Sym "a") (Const 4)); SDef "a" (Const 6); SUse (Sym "zz"); SUse (Sym "b")].
Example C03_ex_run : lazy_run (run_bound ex_prog) ex_prog = [Ok 15; Ok 21; Err [E_UNDEF]; Ok 10]
                     /\ final_run (run_bound ex_prog) ex_prog = [Ok 15; Ok 21; Err [E_UNDEF]; Ok 10].
Proof. vm_compute. split; reflexivity. Qed.
Example C03_ex_moved : lazy_run 50 (move_def ex_prog 4 0) = [Ok 15; Ok 21; Err [E_UNDEF]; Ok 10].
Proof. vm_compute. reflexivity. Qed.
Example C03_ex_cycle :
  lazy_run 20 [SDef "a" (Add (Sym "b") (Const 1)); SUse (Sym "a"); SDef "b" (Sym "a")] = [Err [E_REC]].
Proof. vm_compute. reflexivity. Qed.
Example C03_ex_chain :
  eval 8 (rev (chain_defs [("p"%string, 1); ("q"%string, 2); ("r"%string, 3); ("s"%string, 4)])) [] (Sym "s") = Ok 10.
Proof. vm_compute. reflexivity. Qed.
Example C03_ex_monotone_hyp :
  try_now 9 [("a"%string, Known 6)] (Add (Sym "a") (Const 1)) = Some 7.
Proof. vm_compute. reflexivity. Qed.
