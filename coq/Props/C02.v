(* C02 -- Addresses the program sees equal where its bytes land.
   Only statements, each closed by [exact] of a lemma from Proofs/, then Print Assumptions.

   The model (Model/Block.v) is the running-address mechanism of compile_block, .repeat, .include and
   compile_and_link_files: sizes announced in advance by deferred statements advance the address,
   final byte lengths fill the image.  [consistent] is the code's standing assumption "announced size
   = final size"; it is discharged per statement kind by C06 (directive size lambdas vs emitted bytes)
   and C01 (instructions: 2 + 2 * extension words), and checked on every chunk of every real run by the
   hook-trace correspondence (tools/props/c02.py). *)
(* What the hypothesis [consistent] does and does not cover (audit note):
   - for a deferred SIZED statement it says announced size = final size; it is discharged for the data
     directives by C06 (C02_directive_block_invariant), for instructions by the operand-form lemma below
     (a statement about Model/Insns; that the code announces "2 + 2 per extension word" is pinned by
     gen_insns.py and checked on every traced chunk), and for whole programs by R_layout / R_sized_consistent;
   - for a deferred UNSIZED statement (.ascii, .blkb/.blkw, .even/.odd/.align, '. =' skips, .repeat,
     insert_file, .include) the model takes the advance to be the final length, because that is what
     Deferred.length() is in the code: `len(wait(self))`.  This is an assumption about the code's
     laziness, not a theorem; it is exactly where defect 31bd646 lived (the skip read a later address),
     and it is checked on every chunk of every traced run (judge_block compares wait(chunk.length())
     with len(wait(chunk)), and the tiling oracle compares addresses with where bytes land);
   - labels and '.' are [Silent] placements here; "label value = its placement address" is R_layout's
     statement for the reference assembler and the hook trace's for the code. *)
From Coq Require Import List ZArith Bool.
From Verif Require Import Base.Res.
From Verif Require Import Model.Block Proofs.BlockP Model.Directives Proofs.BlockDirectives.
From Verif Require Spec.PDP11 Model.Insns Proofs.BlockInsns.
Import ListNotations.
Open Scope Z_scope.

(* every statement at every nesting depth (.repeat copies, included files) of a block that starts at
   [a] is told the address a + (bytes before it); the bytes found there in the output are its own
   bytes; nothing else: the output is exactly pre ++ bs ++ post; total length = final advance *)
Theorem C02_address_invariant_block :
  forall (l : list stmt) (a : Z), consistent_list l = true ->
  (forall pre a' bs post, place_list a l = pre ++ (a', bs) :: post ->
      a' = a + zlen (bytes_of pre) /\
      out_list l = bytes_of pre ++ bs ++ bytes_of post /\
      firstn (length bs) (skipn (Z.to_nat (a' - a)) (out_list l)) = bs) /\
  adv_list l = zlen (out_list l).
Proof. exact address_invariant_block. Qed.
Print Assumptions C02_address_invariant_block.

(* ... and across any number of linked files, from the link base *)
Theorem C02_address_invariant_files :
  forall (files : list (list stmt)) (base : Z), forallb consistent_list files = true ->
  forall pre a' bs post, place_files base files = pre ++ (a', bs) :: post ->
      a' = base + zlen (bytes_of pre) /\
      out_files files = bytes_of pre ++ bs ++ bytes_of post /\
      firstn (length bs) (skipn (Z.to_nat (a' - base)) (out_files files)) = bs.
Proof. exact address_invariant_files. Qed.
Print Assumptions C02_address_invariant_files.

(* the image is the concatenation of what the statements produced, with or without consistency *)
Theorem C02_image_is_sum_of_chunks :
  forall files a, bytes_of (place_files a files) = out_files files.
Proof. exact place_files_bytes. Qed.
Print Assumptions C02_image_is_sum_of_chunks.

(* sensitivity (why the hypothesis matters): one deferred statement that announces n bytes but yields
   bs moves the address of whatever follows to ... + n, although its bytes land at ... + |bs| *)
Theorem C02_announced_size_shifts :
  forall (l1 : list stmt) (n : Z) (bs : list Z) (a : Z), consistent_list l1 = true ->
  place_list a (l1 ++ [Leaf false (Some n) bs; Silent]) =
  place_list a l1 ++ [(a + zlen (out_list l1), bs); (a + zlen (out_list l1) + n, [])].
Proof. exact announced_size_shifts. Qed.
Print Assumptions C02_announced_size_shifts.

(* the flat recurrence evaluated by the correspondence check is the model's placement *)
Theorem C02_flat_recurrence_is_model :
  forall l, Forall (fun e => 0 <= snd e) l ->
  forall start, flat_block_addrs start l =
    map fst (place_list start (map to_stmt l)) ++ [start + adv_list (map to_stmt l)].
Proof. exact flat_block_addrs_spec. Qed.
Print Assumptions C02_flat_recurrence_is_model.

(* composed with C06: a block made of the data directives of Model/Directives.v (size lambdas regenerated
   from metacommands.py), laid out as compile_block does with any mix of immediate and deferred
   statements, needs no hypothesis at all: announced = produced is C06's announce_eq_emit *)
Theorem C02_directive_block_invariant :
  forall enc ds a l, build enc a ds = Some l ->
  (forall pre a' bs post, place_list a l = (pre ++ (a', bs) :: post)%list ->
      a' = a + zlen (bytes_of pre) /\
      out_list l = (bytes_of pre ++ bs ++ bytes_of post)%list /\
      firstn (length bs) (skipn (Z.to_nat (a' - a)) (out_list l)) = bs) /\
  adv_list l = zlen (out_list l).
Proof. exact directive_block_invariant. Qed.
Print Assumptions C02_directive_block_invariant.

(* composed with C01 (Proofs/BlockInsns.v): the length of an instruction is a function of its operand
   FORMS only -- one opcode word plus one word per indexed / immediate / absolute / relative operand --
   whatever the operand values and the address; that is the size compile_insn announces before any
   value is known, so an instruction statement satisfies [consistent], deferred or not *)
Theorem C02_insn_length_by_form :
  forall i ops addr ws, Insns.compile_with i ops addr = Ok ws ->
  List.length ws = S (BlockInsns.ext_total (Insns.stubs i) ops).
Proof. exact BlockInsns.insn_length_by_form. Qed.
Print Assumptions C02_insn_length_by_form.

Theorem C02_instruction_statement_consistent :
  forall i ops addr ws ready, Insns.compile_with i ops addr = Ok ws ->
  consistent (Leaf ready (Some (BlockInsns.announced_insn i ops)) (BlockInsns.bytes_of_words ws)) = true.
Proof. exact BlockInsns.insn_statement_consistent. Qed.
Print Assumptions C02_instruction_statement_consistent.

(* non-vacuity: a block with a deferred sized statement, an unsized one, a label, a nested repeat *)
Example C02_example :
  let l := [Leaf true None [1;2]; Silent; Leaf false (Some 4) [9;9;9;9];
            Nested [Leaf false None [7]; Leaf true (Some 2) [5;6]; Silent]; Leaf true None [3]] in
  consistent_list l = true /\
  place_list 512 l = [(512,[1;2]); (514,[]); (514,[9;9;9;9]); (518,[7]); (519,[5;6]); (521,[]); (521,[3])].
Proof. vm_compute. split; reflexivity. Qed.
(* and the inconsistent case really shifts: announced 2, produced 4 *)
Example C02_shift_example :
  map fst (place_list 0 [Leaf false (Some 2) [9;9;9;9]; Silent]) = [0; 2].
Proof. vm_compute. reflexivity. Qed.
