(* C01 / C16 bridge -- Model/TreeCache.v (C16) and Model/Classify.v (C01) model the same hoist() of
   RegisterModeOperandStub.encode; [forget] (Model/ClassifyEmbed.v) drops caches / flags / spellings.
   Only statements closed by [exact] of a lemma from Proofs/ClassifyEmbedP.v, then Print Assumptions. *)
From Coq Require Import ZArith List String Bool.
From Verif Require Import Base.Res Model.ClassifyEmbed Proofs.ClassifyEmbedP.
Import ListNotations.
Open Scope string_scope.
Open Scope Z_scope.

(* the two hoists commute with forgetting (all forgettable trees, '%e' registers included) *)
Theorem C01_hoist_agrees : forall t t', forget t = Some t' -> forget (T.hoist t) = Some (C.hoist t').
Proof. exact hoist_agrees. Qed.
Print Assumptions C01_hoist_agrees.

(* both models ask the same "is this a register token" question *)
Theorem C01_is_reg_agrees : forall t t', forget t = Some t' -> T.is_regish t = C.is_reg t'.
Proof. exact is_regish_forget. Qed.
Print Assumptions C01_is_reg_agrees.

(* TreeCache's hoist never creates or loses a '%e' *)
Theorem C01_hoist_keeps_percent : forall t, T.has_percent (T.hoist t) = T.has_percent t.
Proof. exact has_percent_hoist. Qed.
Print Assumptions C01_hoist_keeps_percent.

(* 'a + 2(r1)' with a cached value on the '+' node: parsed as a + (2 $ r1) *)
Definition ex_tree : T.tree :=
  T.Infix "+" (T.Sym "a" false) (T.Call (T.Num "2" 2 false false false) (T.Sym "r1" false) None) (Some ([5; 2], 7)).
Example ex_forget : forget ex_tree = Some (C.TInfix C.IAdd (C.TSym "a" false) (C.TCall (C.TNum 2) (C.TSym "r1" false))).
Proof. vm_compute. reflexivity. Qed.
Example ex_hoist :
  forget (T.hoist ex_tree) = Some (C.TCall (C.TInfix C.IAdd (C.TSym "a" false) (C.TNum 2)) (C.TSym "r1" false))
  /\ T.hoist ex_tree = T.Call (T.Infix "+" (T.Sym "a" false) (T.Num "2" 2 false false false) (Some ([5; 2], 7))) (T.Sym "r1" false) None.
Proof. vm_compute. split; reflexivity. Qed.
(* the classifications agree on it: field 0o61, get_as_int, kept expression a+2 *)
Example ex_classify :
  tc_view ex_tree = cl_view_res (C.classify (C.TInfix C.IAdd (C.TSym "a" false) (C.TCall (C.TNum 2) (C.TSym "r1" false))))
  /\ tc_view ex_tree = Some (49, T.EGai, Some (C.TInfix C.IAdd (C.TSym "a" false) (C.TNum 2))).
Proof. vm_compute. split; reflexivity. Qed.
(* not forgettable: an upper-case name, an operator string that is no infix operator *)
Example ex_unforgettable : forget (T.Sym "R1" false) = None /\ forget (T.Infix "$" T.Dot T.Dot None) = None.
Proof. vm_compute. split; reflexivity. Qed.

(* '%e' registers: TreeCache.classify is only meaningful under has_percent = false (compile_rm crashes
   "unmodelled:%register" before using it); on 'a+2(%1)' its raw answer (relative, 0o67) differs from
   Classify's index form -- the reason a classification agreement needs has_percent t = false *)
Definition ex_pct : T.tree :=
  T.Infix "+" (T.Sym "a" false) (T.Call (T.Num "2" 2 false false false) (T.Prefix "%" (T.Num "1" 1 false false false) None) None) None.
Definition ex_pct' : C.optree :=
  C.TInfix C.IAdd (C.TSym "a" false) (C.TCall (C.TNum 2) (C.TPrefix C.PPct (C.TNum 1))).
Example C01_classify_agrees_percent_refuted :
  forget ex_pct = Some ex_pct' /\ T.has_percent ex_pct = true /\ fst (fst (fst (T.classify ex_pct))) = 55 /\ C.mode_of (C.classify ex_pct') = Some 48.
Proof. vm_compute. repeat split; reflexivity. Qed.

(* PARTIAL: the two classifications agree (6-bit field, how the extension word is obtained, kept expression)
   on forgettable '%'-free operands whose top token is a Number, CharLiteral, Symbol, '.', or a parenthesised
   expression (register, (reg), relative).  Missing for the full statement
     forget t = Some t' -> T.has_percent t = false -> tc_view t = cl_view_res (C.classify t')
   : top constructors Infix, Prefix, Postfix, Call (Prefix with operator '-', '#', '+', '~', '^c' closes with the
   same script; Prefix '@', Postfix, Call and the hoisted case via hoist_shape are not done). *)
Theorem C01_classify_agrees_partial : forall t t', forget t = Some t' -> T.has_percent t = false ->
  simple_top t = true -> tc_view t = cl_view_res (C.classify t').
Proof. exact classify_agrees_partial. Qed.
Print Assumptions C01_classify_agrees_partial.
Example ex_partial_inhabited :
  simple_top (T.Paren "(" (T.Sym "r3" false)) = true /\
  tc_view (T.Paren "(" (T.Sym "r3" false)) = Some (11, T.ENone, None).
Proof. vm_compute. split; reflexivity. Qed.

(* PARTIAL 2 (supersedes the comment above): agreement for EVERY top constructor (Number, CharLiteral, Symbol,
   '.', parenthesis, Infix, Prefix incl. '@', Postfix, Call) of forgettable '%'-free operands on which hoist()
   does not fire ([not_hoisted]: an Infix / Prefix top has no '(reg)' call at the bottom of its rhs / operand
   spine).  Covers all twelve addressing forms in their canonical spelling except e(rN) / @e(rN) with an
   operator on top of e (e.g. 'a+2(r1)', '@-2(r1)', '-2(r1)'): those hoisted operands are the only ones still
   missing for the full statement; ex_classify above checks one by vm_compute. *)
Theorem C01_classify_agrees_partial2 : forall t t', forget t = Some t' -> T.has_percent t = false ->
  not_hoisted t = true -> tc_view t = cl_view_res (C.classify t').
Proof. exact classify_agrees_unhoisted. Qed.
Print Assumptions C01_classify_agrees_partial2.
Example ex_partial2_inhabited :
  let t := T.Prefix "@" (T.Call (T.Num "2" 2 false false false) (T.Sym "r1" false) None) None in
  let u := T.Call (T.Prefix "@" (T.Num "2" 2 false false false) None) (T.Sym "sp" false) None in
  not_hoisted ex_tree = false /\ not_hoisted t = false /\ not_hoisted u = true /\
  tc_view u = Some (62, T.EGai, Some (C.TNum 2)).
Proof. vm_compute. repeat split; reflexivity. Qed.

(* FULL (supersedes the two partial statements, kept above): on every forgettable '%'-free operand, hoisted or
   not, TreeCache's classification (6-bit field mode|register, how the extension word is obtained, the subtree
   kept for it) is Classify's.  '%e' registers are outside (C01_classify_agrees_percent_refuted). *)
Theorem C01_classify_agrees : forall t t', forget t = Some t' -> T.has_percent t = false ->
  tc_view t = cl_view_res (C.classify t').
Proof. exact classify_agrees_full. Qed.
Print Assumptions C01_classify_agrees.
