(* R_permute -- C03's second half on the reference assembler (Model/Asm.v): PERMUTING INDEPENDENT DEFINITIONS leaves the
   emitted bytes and the success/failure outcome unchanged.  Derived from R_move_def (Props/R.v) by iterated moves
   (Proofs/AsmPermute.v); same_outcome (Proofs/AsmMove.v) is an equivalence relation (R_same_outcome_equiv), so the
   chain of single moves composes.  Only statements here, each closed by [exact] of a lemma, then Print Assumptions.

   The hypotheses are R_move_def's, for every permuted definition d = (name, expression), over the FIXED part of the
   program (the program without the permuted definitions):
     - the permuted names are pairwise distinct and no other label or definition of the program has one of them
       (NoDup (map fst defs), forallb (nodef (fst d)) fixed = true);
     - no expression mentions a local-label name of the program or `.` (efree (lnames fixed) (snd d), nodot (snd d));
     - the program file is not `.extern all` (existsb (Nat.eqb 0) (snd (collect_exports 0 fixed)) = false);
     - every permuted definition stands ahead of any End of its file.
   "Independent" needs no more than that: the definitions may refer to one another (see the chain c = b + 1,
   b = a * 2, a = 5 in the example); they are evaluated on demand, not in source order. *)
From Coq Require Import ZArith List String Ascii Bool NArith Permutation.
From Verif Require Import Base.Res Spec.Arith Model.Directives Model.Asm Model.AsmT Proofs.AsmMove Proofs.AsmPermute.
Import ListNotations.
Open Scope string_scope.
Open Scope list_scope.
Open Scope Z_scope.

Theorem R_same_outcome_equiv :
  (forall r, same_outcome r r) /\ (forall r r', same_outcome r r' -> same_outcome r' r) /\
  (forall r1 r2 r3, same_outcome r1 r2 -> same_outcome r2 r3 -> same_outcome r1 r3).
Proof. exact (conj so_refl (conj so_sym so_trans)). Qed.
Print Assumptions R_same_outcome_equiv.

(* a contiguous block of definitions anywhere ahead of the End, in any order *)
Theorem R_permute_defs : forall enc (defs defs' : list (string * expr)) l1 l2,
  Permutation defs defs' -> NoDup (map fst defs) ->
  Forall (fun y => is_end y = false) l1 ->
  Forall (fun d => forallb (nodef (fst d)) (l1 ++ l2) = true /\ efree (lnames (l1 ++ l2)) (snd d) = true /\
                   nodot (snd d) = true) defs ->
  existsb (Nat.eqb 0) (snd (collect_exports 0 (l1 ++ l2))) = false ->
  same_outcome (assemble enc (l1 ++ map (fun d => Assign (fst d) (snd d)) defs ++ l2))
               (assemble enc (l1 ++ map (fun d => Assign (fst d) (snd d)) defs' ++ l2)).
Proof. exact permute_defs_block_plain. Qed.
Print Assumptions R_permute_defs.

(* scattered definitions.  [weave ds b p] (Proofs/AsmPermute.v): p is the statement list b with the definitions ds,
   in this order, written at arbitrary top-level positions, every one of them ahead of any End of b
     w_done : weave [] b b      w_def : weave ds b p -> weave (d :: ds) b (Assign (fst d) (snd d) :: p)
     w_skip : is_end x = false -> weave ds b p -> weave ds (x :: b) (x :: p).
   Two such arrangements of the same b whose definitions are a permutation of each other have the same outcome. *)
Theorem R_permute_defs_scattered : forall enc ds ds' b p p',
  weave ds b p -> weave ds' b p' -> Permutation ds ds' -> NoDup (map fst ds) ->
  Forall (fun d => forallb (nodef (fst d)) b = true /\ efree (lnames b) (snd d) = true /\ nodot (snd d) = true) ds ->
  existsb (Nat.eqb 0) (snd (collect_exports 0 b)) = false ->
  same_outcome (assemble enc p) (assemble enc p').
Proof. exact permute_defs_weave_plain. Qed.
Print Assumptions R_permute_defs_scattered.

(* the same on two programs as they are written: [assigns p] the top-level definitions of p in source order,
   [others p] the other statements (filter), [defs_first p]: no top-level definition behind the first End.
   Same other statements in the same order + definitions a permutation of each other => same outcome. *)
Theorem R_permute_defs_anywhere : forall enc p p',
  defs_first p = true -> defs_first p' = true -> others p = others p' -> Permutation (assigns p) (assigns p') ->
  NoDup (map fst (assigns p)) ->
  Forall (fun d => forallb (nodef (fst d)) (others p) = true /\ efree (lnames (others p)) (snd d) = true /\
                   nodot (snd d) = true) (assigns p) ->
  existsb (Nat.eqb 0) (snd (collect_exports 0 (others p))) = false ->
  same_outcome (assemble enc p) (assemble enc p').
Proof. exact permute_defs_filter_plain. Qed.
Print Assumptions R_permute_defs_anywhere.

(* ... with the side conditions as one boolean (ok_defsb: nodup_str of the names && forallb of the three conditions
   && negb of the `.extern all` test) *)
Theorem R_permute_defs_bool : forall enc p p',
  defs_first p = true -> defs_first p' = true -> others p = others p' -> Permutation (assigns p) (assigns p') ->
  ok_defsb (assigns p) (others p) = true ->
  same_outcome (assemble enc p) (assemble enc p').
Proof. exact permute_defs_bool. Qed.
Print Assumptions R_permute_defs_bool.

(* ---- a chain of three definitions used by a .word, in different orders ------------------------------------------ *)
Definition pnum (z : Z) : expr := Lit (LNum (z <? 0) SBareOct false false (Z.abs_N z)).
Definition d_c : string * expr := ("c", Bin BAdd (Sym "b") (pnum 1)).
Definition d_b : string * expr := ("b", Bin BMul (Sym "a") (pnum 2)).
Definition d_a : string * expr := ("a", pnum 5).
Definition ex_l1 : list stmt := [Label "start"; LocalLabel "1"].
Definition ex_l2 : list stmt := [Word [Sym "c"]; Insn "halt" []; End; Byte [pnum 9]].
Definition asg (d : string * expr) : stmt := Assign (fst d) (snd d).

Example R_permute_example_perm : Permutation [d_c; d_b; d_a] [d_a; d_c; d_b].
Proof. eapply perm_trans; [apply perm_skip; apply perm_swap|apply perm_swap]. Qed.

(* the hypotheses hold (as booleans), and both orders assemble to the same bytes: c = 5 * 2 + 1 = 11 *)
Example R_permute_example :
  ok_defsb [d_c; d_b; d_a] (ex_l1 ++ ex_l2) = true /\
  assemble bk_enc (ex_l1 ++ [asg d_c; asg d_b; asg d_a] ++ ex_l2) =
    XOk (512, [11; 0; 0; 0], [(KLocal 0 1 "1", 512); (KGlobal 0 "start", 512); (KGlobal 0 "c", 11); (KGlobal 0 "b", 10); (KGlobal 0 "a", 5)]) /\
  assemble bk_enc (ex_l1 ++ [asg d_a; asg d_c; asg d_b] ++ ex_l2) =
    XOk (512, [11; 0; 0; 0], [(KLocal 0 1 "1", 512); (KGlobal 0 "start", 512); (KGlobal 0 "a", 5); (KGlobal 0 "c", 11); (KGlobal 0 "b", 10)]).
Proof. vm_compute. repeat split; reflexivity. Qed.

(* the theorem applied to it: every hypothesis discharged on the instance *)
Example R_permute_example_applies :
  same_outcome (assemble bk_enc (ex_l1 ++ map (fun d => Assign (fst d) (snd d)) [d_c; d_b; d_a] ++ ex_l2))
               (assemble bk_enc (ex_l1 ++ map (fun d => Assign (fst d) (snd d)) [d_a; d_c; d_b] ++ ex_l2)).
Proof.
  apply R_permute_defs.
  - exact R_permute_example_perm.
  - apply nodup_str_NoDup. vm_compute. reflexivity.
  - repeat constructor.
  - rewrite Forall_forall. intros d [<-|[<-|[<-|[]]]]; vm_compute; auto.
  - vm_compute. reflexivity.
Qed.

(* scattered: the three definitions before, between and behind the other statements, against all three in front
   in another order *)
Definition ex_p  : list stmt := [asg d_c; Label "start"; LocalLabel "1"; asg d_b; Word [Sym "c"]; asg d_a; Insn "halt" []; End; Byte [pnum 9]].
Definition ex_p' : list stmt := [Label "start"; asg d_a; LocalLabel "1"; Word [Sym "c"]; Insn "halt" []; asg d_b; asg d_c; End; Byte [pnum 9]].
Example R_permute_example_scattered :
  defs_first ex_p = true /\ defs_first ex_p' = true /\ others ex_p = others ex_p' /\
  assigns ex_p = [d_c; d_b; d_a] /\ assigns ex_p' = [d_a; d_b; d_c] /\
  ok_defsb (assigns ex_p) (others ex_p) = true /\
  (exists T, assemble bk_enc ex_p = XOk (512, [11; 0; 0; 0], T)) /\
  (exists T, assemble bk_enc ex_p' = XOk (512, [11; 0; 0; 0], T)).
Proof. vm_compute. repeat split; try reflexivity; eexists; reflexivity. Qed.

Example R_permute_example_scattered_applies : same_outcome (assemble bk_enc ex_p) (assemble bk_enc ex_p').
Proof.
  apply R_permute_defs_bool; try (vm_compute; reflexivity).
  change (Permutation [d_c; d_b; d_a] [d_a; d_b; d_c]).
  eapply perm_trans; [apply perm_swap|]. eapply perm_trans; [apply perm_skip; apply perm_swap|]. apply perm_swap.
Qed.

(* a definition that does mention a local label is outside the hypotheses, and rightly so: it means another label
   at the other place *)
Example R_permute_example_local_refused :
  ok_defsb [("k", Sym "1")] [LocalLabel "1"; Label "x"; LocalLabel "1"; Word [Sym "k"]] = false.
Proof. vm_compute. reflexivity. Qed.
