(* C11 -- Symbol scoping and linking.
   Only statements, each closed by [exact] of a lemma from Proofs/ScopeP.v, then Print Assumptions.

   The theorems are about Model/ScopeM.v, the code's mechanism (two counters, mangled keys in one
   case-insensitive table, extern mapping, internal_symbols_list, '.extern all', candidate order of
   Symbol._resolve) run over any trace of events -- no bound on the number of files, blocks, names or
   statements; where a hypothesis mentions [walk tr] the statement holds after any prefix [tr] of a program.
   The full refinement [C11_scope_refines] (ScopeM's outcome = the outcome Spec/Scope.v designates, for every
   well-nested, well-kinded trace, hence for every abstract program) is proved in Proofs/ScopeRefP.v and stated at
   the end of this file; the corollaries below are older direct statements on the model. *)
From Coq Require Import String List ZArith NArith Bool.
From Verif Require Import Base.Res Spec.Scope Model.ScopeM Proofs.ScopeP Proofs.ScopeRefP.
Import ListNotations.
Open Scope Z_scope.

(* the full refinement.  [nested]: every event other than the start of a file instance lies inside a file instance
   (true of every trace [expand] produces, C11_expand_nested).  Without it the statement is false: in
   [EFile; ELabel "a" false 1; EEndFile; ERef "a"] the Spec's empty-stack annotation has instance id 0, which is
   also the position of the first EFile, while the model's empty-stack frame has prefix 0, which no instance has. *)
Definition scope_refines_statement : Prop :=
  forall tr, Forall wf_ev tr -> nested tr = true -> fst (model_trace tr) = spec_trace tr.

(* ".local{k}." + name and ".internal{k}." + name: distinct (kind, counter, name) give distinct strings *)
Theorem C11_mangle_injective :
  forall k1 n1 s1 k2 n2 s2, render k1 n1 s1 = render k2 n2 s2 -> k1 = k2 /\ n1 = n2 /\ s1 = s2.
Proof. exact mangle_injective_lemma. Qed.
Print Assumptions C11_mangle_injective.

(* CaseInsensitiveDict compares lower-cased strings: that is exactly equality of the model's keys *)
Theorem C11_case_insensitive_keys :
  forall k1 n1 s1 k2 n2 s2,
    lower (render k1 n1 s1) = lower (render k2 n2 s2) <-> mkkey k1 n1 s1 = mkkey k2 n2 s2.
Proof. exact key_model_lemma. Qed.
Print Assumptions C11_case_insensitive_keys.

(* names differing only in case are the same symbol: same use, and a second definition is a duplicate *)
Theorem C11_case_insensitive :
  (forall s a b, lower a = lower b -> step s (ERef a) = step s (ERef b)) /\
  (forall s a b x y v w, f_isfile (topf s) = true -> lower a = lower b ->
     In E_DUP (errs (step (step s (EAssign a x v)) (EAssign b y w)))).
Proof. exact (conj case_ref_lemma case_dup_lemma). Qed.
Print Assumptions C11_case_insensitive.

(* local_reuse: (1) a numeric name is bound under the use site's own local prefix and nowhere else;
   (2) after an ordinary label, or the end of a block or file, the prefix of the scope that ended gets no further
   definition and is never again the prefix of an open block; (3) what is defined under an open scope's prefix
   stays bound for it *)
Theorem C11_local_reuse :
  (forall s loc int ln v,
     kinded (syms s) -> exts_shaped (exts s) -> is_local ln = true -> resolve_final s loc int ln = Some v ->
     exists en, In en (syms s) /\ e_key en = (KLocal, loc, ln) /\ e_val en = v) /\
  (forall tr1 e tr2,
     let s := walk tr1 in
     let p := f_loc (topf s) in
     ((exists n x v, e = ELabel n x v) /\ f_isfile (topf s) = true) \/ ((e = EEndBlock \/ e = EEndFile) /\ stack s <> []) ->
     let s2 := fold_left step tr2 (step s e) in
     (forall ln, lookup_key (KLocal, p, ln) (syms s2) = lookup_key (KLocal, p, ln) (syms (step s e))) /\
     ~ In p (locs s2) /\ (p < next_loc s2)%N) /\
  (forall s n v tr,
     lookup_key (mkkey KLocal (f_loc (topf s)) n) (syms s) = Some v ->
     resolve_final (fold_left step tr s) (f_loc (topf s)) (f_int (topf s)) (lower n) = Some v).
Proof. exact (conj local_binding_lemma (conj local_reuse_lemma local_visible_lemma)). Qed.
Print Assumptions C11_local_reuse.

(* the invariants used above hold after any well-kinded trace *)
Theorem C11_invariants :
  forall tr, Forall wf_ev tr -> kinded (syms (walk tr)) /\ exts_shaped (exts (walk tr)) /\ inv (walk tr).
Proof. exact invariants_lemma. Qed.
Print Assumptions C11_invariants.

(* own_definition_wins: whatever is exported by whom, a file instance's own definition is what its uses get *)
Theorem C11_own_definition_wins :
  forall s loc int ln v,
    kinded (syms s) -> lookup_key (KInternal, int, ln) (syms s) = Some v -> resolve_final s loc int ln = Some v.
Proof. exact own_definition_wins_lemma. Qed.
Print Assumptions C11_own_definition_wins.

(* a binding made when the use site is met (own-file or local definition already seen) is the binding at the end *)
Theorem C11_early_binding_is_final :
  forall s n v tr,
    kinded (syms s) -> Forall wf_ev tr ->
    outs (step s (ERef n)) = outs s ++ [inl v] ->
    resolve_final (fold_left step tr (step s (ERef n))) (f_loc (topf s)) (f_int (topf s)) (lower n) = Some v.
Proof. exact eager_stable_lemma. Qed.
Print Assumptions C11_early_binding_is_final.

(* export_order_free: (1) a use not bound when met is bound against the final tables only; (2) there it gets the
   exported definition of the other instance; (3,4) definition and export commute, for '.extern name' (any
   spelling) and for '.extern all' (retroactive = prospective) *)
Theorem C11_export_order_free :
  (forall s n tr,
     lookup_key (mkkey KLocal (f_loc (topf s)) n) (syms s) = None ->
     lookup_key (mkkey KInternal (f_int (topf s)) n) (syms s) = None ->
     let s1 := step s (ERef n) in
     outs s1 = outs s ++ [inr (f_loc (topf s), f_int (topf s), lower n)] /\
     force (fold_left step tr s1) (inr (f_loc (topf s), f_int (topf s), lower n)) =
       resolve_final (fold_left step tr s1) (f_loc (topf s)) (f_int (topf s)) (lower n)) /\
  (forall s loc int ln k v,
     lookup_key (KLocal, loc, ln) (syms s) = None -> lookup_key (KInternal, int, ln) (syms s) = None ->
     lookup_ext ln (exts s) = Some k -> lookup_key k (syms s) = Some v -> resolve_final s loc int ln = Some v) /\
  (forall s n m v,
     f_isfile (topf s) = true -> f_xall (topf s) = false -> lower m = lower n ->
     lookup_key (mkkey KInternal (f_int (topf s)) n) (syms s) = None ->
     step (step s (EAssign n false v)) (EExtern [m]) = step (step s (EExtern [m])) (EAssign n false v)) /\
  (forall s n v,
     f_isfile (topf s) = true -> f_xall (topf s) = false ->
     lookup_key (mkkey KInternal (f_int (topf s)) n) (syms s) = None ->
     step (step s (EAssign n false v)) EExternAll = step (step s EExternAll) (EAssign n false v)).
Proof.
  exact (conj deferred_use_final (conj exported_visible_lemma (conj extern_assign_commute externall_assign_commute))).
Qed.
Print Assumptions C11_export_order_free.

(* private_not_visible: without a local, own-file or exported entry of that name the use is undefined, whatever
   other instances define; and every file instance, linked or included, gets a fresh internal prefix *)
Theorem C11_private_not_visible :
  (forall s loc int ln,
     lookup_key (KLocal, loc, ln) (syms s) = None -> lookup_key (KInternal, int, ln) (syms s) = None ->
     lookup_ext ln (exts s) = None -> resolve_final s loc int ln = None) /\
  (forall s, let s' := step s EFile in
     f_int (topf s') = next_int s /\ f_loc (topf s') = next_loc s /\ f_isfile (topf s') = true /\ f_xall (topf s') = false /\
     next_int s' = (next_int s + 1)%N /\ next_loc s' = (next_loc s + 1)%N).
Proof. exact (conj private_not_visible_lemma file_prefix_lemma). Qed.
Print Assumptions C11_private_not_visible.

(* duplicate_is_error: a second definition of a visible name (assignment, label, local label), a second export,
   a definition inside a '.repeat' body are errors that leave the first binding alone; an error fails the build *)
Theorem C11_duplicate_is_error :
  (forall s n x v w, f_isfile (topf s) = true ->
     lookup_key (mkkey KInternal (f_int (topf s)) n) (syms s) = Some w -> step s (EAssign n x v) = add_err s E_DUP) /\
  (forall s n x v w, f_isfile (topf s) = true ->
     lookup_key (mkkey KInternal (f_int (topf s)) n) (syms s) = Some w -> step s (ELabel n x v) = bump_local (add_err s E_DUP)) /\
  (forall s n v w, f_isfile (topf s) = true ->
     lookup_key (mkkey KLocal (f_loc (topf s)) n) (syms s) = Some w -> step s (ELocal n v) = add_err s E_DUP) /\
  (forall i s n k, lookup_ext (lower n) (exts s) = Some k -> declare i s n = add_err s E_DUP) /\
  (forall tr e, e = E_UNEXPECTED \/ e = E_DUP \/ e = E_UNDEFINED -> In e (errs (walk tr)) ->
     exists es, fst (model_trace tr) = OutFail es /\ In e es).
Proof.
  exact (conj dup_assign_lemma (conj dup_label_lemma (conj dup_local_lemma (conj dup_export_lemma errors_fail_lemma)))).
Qed.
Print Assumptions C11_duplicate_is_error.

(* scope_refines: the mechanism's outcome (words of every use site in order, or the set of error identifiers) is
   the outcome the declarative Spec designates -- every reference gets exactly the definition Spec/Scope names, and
   the model reports an error exactly when the Spec does, with the same identifiers *)
Theorem C11_scope_refines : scope_refines_statement.
Proof. exact scope_refines_lemma. Qed.
Print Assumptions C11_scope_refines.

(* ... for every abstract program with well-kinded names, whatever the fuel *)
Theorem C11_expand_nested : forall fuel p tr, expand fuel p = Ok tr -> nested tr = true.
Proof. exact expand_nested. Qed.
Print Assumptions C11_expand_nested.

Theorem C11_scope_refines_programs :
  forall fuel p, wf_program p ->
    match model_run fuel p, spec_run fuel p with
    | Ok (o, _), Ok o' => o = o'
    | Err a, Err b => a = b
    | Crash a, Crash b => a = b
    | OutOfFuel, OutOfFuel => True
    | _, _ => False
    end.
Proof. exact scope_refines_run. Qed.
Print Assumptions C11_scope_refines_programs.

(* a reference to a symbol that is not visible is an error, never a silent value *)
Theorem C11_undefined_is_error :
  forall tr l i n, In (inr (l, i, n)) (outs (walk tr)) -> resolve_final (walk tr) l i n = None ->
    exists es, fst (model_trace tr) = OutFail es /\ In E_UNDEFINED es.
Proof. exact undefined_is_error. Qed.
Print Assumptions C11_undefined_is_error.

(* freshness, complete: after any well-nested trace nothing is bound under the next internal prefix (a new file
   instance, linked or included, sees no earlier private name) nor under the next local prefix (a new scope sees no
   earlier local label); every table entry and every extern mapping carries a counter that was really handed out *)
Theorem C11_fresh_counters :
  forall tr, nested tr = true ->
    let s := walk tr in
    (forall ln, lookup_key (KInternal, next_int s, ln) (syms s) = None) /\
    (forall ln, lookup_key (KLocal, next_loc s, ln) (syms s) = None) /\
    (forall ln key, lookup_ext ln (exts s) = Some key -> exists i, key = (KInternal, i, ln) /\ (1 <= i < next_int s)%N) /\
    (forall k i ln v, lookup_key (k, i, ln) (syms s) = Some v ->
       match k with KInternal => (1 <= i < next_int s)%N | KLocal => (1 <= i < next_loc s)%N end).
Proof. exact fresh_counters. Qed.
Print Assumptions C11_fresh_counters.

(* export_order_free for labels: 'name:' commutes with '.extern name' (any spelling) and with '.extern all'.
   ('name::' and 'name ==' are definition and export in one statement: there is no order to speak of; together with a
   second export they are a duplicate in either order, C11_duplicate_is_error) *)
Theorem C11_export_order_free_labels :
  (forall s n m v,
     f_isfile (topf s) = true -> f_xall (topf s) = false -> lower m = lower n ->
     lookup_key (mkkey KInternal (f_int (topf s)) n) (syms s) = None ->
     step (step s (ELabel n false v)) (EExtern [m]) = step (step s (EExtern [m])) (ELabel n false v)) /\
  (forall s n v,
     f_isfile (topf s) = true -> f_xall (topf s) = false ->
     lookup_key (mkkey KInternal (f_int (topf s)) n) (syms s) = None ->
     step (step s (ELabel n false v)) EExternAll = step (step s EExternAll) (ELabel n false v)).
Proof. exact (conj extern_label_commute externall_label_commute). Qed.
Print Assumptions C11_export_order_free_labels.

(* non-vacuity: a two-file program with an include, reused local names, an export and a private name *)
Definition ex_prog : program :=
  {| linked := [ [Label "a" false; LocalLabel "1$"; Ref "1$"; Label "b" false; LocalLabel "1$"; Ref "1$"; Ref "X"; Include 0; Ref "p"];
                 [Ref "x"; Assign "x" false 9; ExternAll; Assign "q" false 11] ];
     inctable := [ [Assign "X" true 7; Assign "p" false 8; Ref "P"; Ref "q"] ] |}.
Example C11_ex_model : option_map fst (match model_run 200 ex_prog with Ok r => Some r | _ => None end)
                       = Some (OutFail [E_DUP; E_UNDEFINED]).
Proof. vm_compute. reflexivity. Qed.
Definition ex_prog2 : program :=
  {| linked := [ [Label "a" false; LocalLabel "1$"; Ref "1$"; Label "b" false; LocalLabel "1$"; Ref "1$"; Ref "Y"; Include 0];
                 [Ref "x"; Assign "x" false 9; Ref "Q"; ExternAll] ];
     inctable := [ [Assign "y" true 7; Assign "p" false 8; Ref "P"; Assign "q" true 11] ] |}.
Example C11_ex_both :
  spec_run 200 ex_prog2 = Ok (OutOk [512; 514; 7; 8; 9; 11]) /\
  option_map fst (match model_run 200 ex_prog2 with Ok r => Some r | _ => None end) = Some (OutOk [512; 514; 7; 8; 9; 11]).
Proof. vm_compute. split; reflexivity. Qed.
Example C11_ex_keys : render KLocal 12 "1$" = ".local12.1$"%string /\ render KInternal 3 "Foo" = ".internal3.Foo"%string.
Proof. vm_compute. split; reflexivity. Qed.

Example C11_ex_wf : wf_program ex_prog2.
Proof. split; intros fl I; exists 5%nat; repeat (destruct I as [<-|I]; [vm_compute; reflexivity|]); destruct I. Qed.
