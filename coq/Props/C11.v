(* C11 -- Symbol scoping and linking.
   Only statements, each closed by [exact] of a lemma from Proofs/ScopeP.v, then Print Assumptions.

   The theorems are about Model/ScopeM.v, the code's mechanism (two counters, mangled keys in one
   case-insensitive table, extern mapping, internal_symbols_list, '.extern all', candidate order of
   Symbol._resolve) run over any trace of events -- no bound on the number of files, blocks, names or
   statements; where a hypothesis mentions [walk tr] the statement holds after any prefix [tr] of a program.
   NOT proved: the full refinement [scope_refines] (ScopeM's final lookup = the definition Spec/Scope.v
   designates, for every reference of every program).  Its corollaries are proved directly on the model below,
   and model, Spec and real code are compared on every generated program inside coqc (tools/props/c11.py). *)
From Coq Require Import String List ZArith NArith Bool.
From Verif Require Import Base.Res Spec.Scope Model.ScopeM Proofs.ScopeP.
Import ListNotations.
Open Scope Z_scope.

(* the full refinement, stated only *)
Definition scope_refines_statement : Prop :=
  forall tr, Forall wf_ev tr -> fst (model_trace tr) = spec_trace tr.

(* ".local{k}." + name and ".internal{k}." + name: distinct (kind, counter, name) give distinct strings *)
Theorem C11_mangle_injective :
  forall k1 n1 s1 k2 n2 s2, render k1 n1 s1 = render k2 n2 s2 -> k1 = k2 /\ n1 = n2 /\ s1 = s2.
Proof. exact mangle_injective_lemma. Qed.
Print Assumptions C11_mangle_injective.

(* CaseInsensitiveDict compares lower-cased strings: that is exactly equality of the model's keys *)
Theorem C11_case_insensitive_keys :
  forall k1 n1 s1 k2 n2 s2,
    lower (render k1 n1 s1) = lower (render k2 n2 s2) <-> mkkey k1 n1 s1 = mkkey k2 n2 s2.
Proof. exact key_model_lemma. Qed.
Print Assumptions C11_case_insensitive_keys.

(* names differing only in case are the same symbol: same use, and a second definition is a duplicate *)
Theorem C11_case_insensitive :
  (forall s a b, lower a = lower b -> step s (ERef a) = step s (ERef b)) /\
  (forall s a b x y v w, f_isfile (topf s) = true -> lower a = lower b ->
     In E_DUP (errs (step (step s (EAssign a x v)) (EAssign b y w)))).
Proof. exact (conj case_ref_lemma case_dup_lemma). Qed.
Print Assumptions C11_case_insensitive.

(* local_reuse: (1) a numeric name is bound under the use site's own local prefix and nowhere else;
   (2) after an ordinary label, or the end of a block or file, the prefix of the scope that ended gets no further
   definition and is never again the prefix of an open block; (3) what is defined under an open scope's prefix
   stays bound for it *)
Theorem C11_local_reuse :
  (forall s loc int ln v,
     kinded (syms s) -> exts_shaped (exts s) -> is_local ln = true -> resolve_final s loc int ln = Some v ->
     exists en, In en (syms s) /\ e_key en = (KLocal, loc, ln) /\ e_val en = v) /\
  (forall tr1 e tr2,
     let s := walk tr1 in
     let p := f_loc (topf s) in
     ((exists n x v, e = ELabel n x v) /\ f_isfile (topf s) = true) \/ ((e = EEndBlock \/ e = EEndFile) /\ stack s <> []) ->
     let s2 := fold_left step tr2 (step s e) in
     (forall ln, lookup_key (KLocal, p, ln) (syms s2) = lookup_key (KLocal, p, ln) (syms (step s e))) /\
     ~ In p (locs s2) /\ (p < next_loc s2)%N) /\
  (forall s n v tr,
     lookup_key (mkkey KLocal (f_loc (topf s)) n) (syms s) = Some v ->
     resolve_final (fold_left step tr s) (f_loc (topf s)) (f_int (topf s)) (lower n) = Some v).
Proof. exact (conj local_binding_lemma (conj local_reuse_lemma local_visible_lemma)). Qed.
Print Assumptions C11_local_reuse.

(* the invariants used above hold after any well-kinded trace *)
Theorem C11_invariants :
  forall tr, Forall wf_ev tr -> kinded (syms (walk tr)) /\ exts_shaped (exts (walk tr)) /\ inv (walk tr).
Proof. exact invariants_lemma. Qed.
Print Assumptions C11_invariants.

(* own_definition_wins: whatever is exported by whom, a file instance's own definition is what its uses get *)
Theorem C11_own_definition_wins :
  forall s loc int ln v,
    kinded (syms s) -> lookup_key (KInternal, int, ln) (syms s) = Some v -> resolve_final s loc int ln = Some v.
Proof. exact own_definition_wins_lemma. Qed.
Print Assumptions C11_own_definition_wins.

(* a binding made when the use site is met (own-file or local definition already seen) is the binding at the end *)
Theorem C11_early_binding_is_final :
  forall s n v tr,
    kinded (syms s) -> Forall wf_ev tr ->
    outs (step s (ERef n)) = outs s ++ [inl v] ->
    resolve_final (fold_left step tr (step s (ERef n))) (f_loc (topf s)) (f_int (topf s)) (lower n) = Some v.
Proof. exact eager_stable_lemma. Qed.
Print Assumptions C11_early_binding_is_final.

(* export_order_free: (1) a use not bound when met is bound against the final tables only; (2) there it gets the
   exported definition of the other instance; (3,4) definition and export commute, for '.extern name' (any
   spelling) and for '.extern all' (retroactive = prospective) *)
Theorem C11_export_order_free :
  (forall s n tr,
     lookup_key (mkkey KLocal (f_loc (topf s)) n) (syms s) = None ->
     lookup_key (mkkey KInternal (f_int (topf s)) n) (syms s) = None ->
     let s1 := step s (ERef n) in
     outs s1 = outs s ++ [inr (f_loc (topf s), f_int (topf s), lower n)] /\
     force (fold_left step tr s1) (inr (f_loc (topf s), f_int (topf s), lower n)) =
       resolve_final (fold_left step tr s1) (f_loc (topf s)) (f_int (topf s)) (lower n)) /\
  (forall s loc int ln k v,
     lookup_key (KLocal, loc, ln) (syms s) = None -> lookup_key (KInternal, int, ln) (syms s) = None ->
     lookup_ext ln (exts s) = Some k -> lookup_key k (syms s) = Some v -> resolve_final s loc int ln = Some v) /\
  (forall s n m v,
     f_isfile (topf s) = true -> f_xall (topf s) = false -> lower m = lower n ->
     lookup_key (mkkey KInternal (f_int (topf s)) n) (syms s) = None ->
     step (step s (EAssign n false v)) (EExtern [m]) = step (step s (EExtern [m])) (EAssign n false v)) /\
  (forall s n v,
     f_isfile (topf s) = true -> f_xall (topf s) = false ->
     lookup_key (mkkey KInternal (f_int (topf s)) n) (syms s) = None ->
     step (step s (EAssign n false v)) EExternAll = step (step s EExternAll) (EAssign n false v)).
Proof.
  exact (conj deferred_use_final (conj exported_visible_lemma (conj extern_assign_commute externall_assign_commute))).
Qed.
Print Assumptions C11_export_order_free.

(* private_not_visible: without a local, own-file or exported entry of that name the use is undefined, whatever
   other instances define; and every file instance, linked or included, gets a fresh internal prefix *)
Theorem C11_private_not_visible :
  (forall s loc int ln,
     lookup_key (KLocal, loc, ln) (syms s) = None -> lookup_key (KInternal, int, ln) (syms s) = None ->
     lookup_ext ln (exts s) = None -> resolve_final s loc int ln = None) /\
  (forall s, let s' := step s EFile in
     f_int (topf s') = next_int s /\ f_loc (topf s') = next_loc s /\ f_isfile (topf s') = true /\ f_xall (topf s') = false /\
     next_int s' = (next_int s + 1)%N /\ next_loc s' = (next_loc s + 1)%N).
Proof. exact (conj private_not_visible_lemma file_prefix_lemma). Qed.
Print Assumptions C11_private_not_visible.

(* duplicate_is_error: a second definition of a visible name (assignment, label, local label), a second export,
   a definition inside a '.repeat' body are errors that leave the first binding alone; an error fails the build *)
Theorem C11_duplicate_is_error :
  (forall s n x v w, f_isfile (topf s) = true ->
     lookup_key (mkkey KInternal (f_int (topf s)) n) (syms s) = Some w -> step s (EAssign n x v) = add_err s E_DUP) /\
  (forall s n x v w, f_isfile (topf s) = true ->
     lookup_key (mkkey KInternal (f_int (topf s)) n) (syms s) = Some w -> step s (ELabel n x v) = bump_local (add_err s E_DUP)) /\
  (forall s n v w, f_isfile (topf s) = true ->
     lookup_key (mkkey KLocal (f_loc (topf s)) n) (syms s) = Some w -> step s (ELocal n v) = add_err s E_DUP) /\
  (forall i s n k, lookup_ext (lower n) (exts s) = Some k -> declare i s n = add_err s E_DUP) /\
  (forall tr e, e = E_UNEXPECTED \/ e = E_DUP \/ e = E_UNDEFINED -> In e (errs (walk tr)) ->
     exists es, fst (model_trace tr) = OutFail es /\ In e es).
Proof.
  exact (conj dup_assign_lemma (conj dup_label_lemma (conj dup_local_lemma (conj dup_export_lemma errors_fail_lemma)))).
Qed.
Print Assumptions C11_duplicate_is_error.

(* non-vacuity: a two-file program with an include, reused local names, an export and a private name *)
Definition ex_prog : program :=
  {| linked := [ [Label "a" false; LocalLabel "1$"; Ref "1$"; Label "b" false; LocalLabel "1$"; Ref "1$"; Ref "X"; Include 0; Ref "p"];
                 [Ref "x"; Assign "x" false 9; ExternAll; Assign "q" false 11] ];
     inctable := [ [Assign "X" true 7; Assign "p" false 8; Ref "P"; Ref "q"] ] |}.
Example C11_ex_model : option_map fst (match model_run 200 ex_prog with Ok r => Some r | _ => None end)
                       = Some (OutFail [E_DUP; E_UNDEFINED]).
Proof. vm_compute. reflexivity. Qed.
Definition ex_prog2 : program :=
  {| linked := [ [Label "a" false; LocalLabel "1$"; Ref "1$"; Label "b" false; LocalLabel "1$"; Ref "1$"; Ref "Y"; Include 0];
                 [Ref "x"; Assign "x" false 9; Ref "Q"; ExternAll] ];
     inctable := [ [Assign "y" true 7; Assign "p" false 8; Ref "P"; Assign "q" true 11] ] |}.
Example C11_ex_both :
  spec_run 200 ex_prog2 = Ok (OutOk [512; 514; 7; 8; 9; 11]) /\
  option_map fst (match model_run 200 ex_prog2 with Ok r => Some r | _ => None end) = Some (OutOk [512; 514; 7; 8; 9; 11]).
Proof. vm_compute. split; reflexivity. Qed.
Example C11_ex_keys : render KLocal 12 "1$" = ".local12.1$"%string /\ render KInternal 3 "Foo" = ".internal3.Foo"%string.
Proof. vm_compute. split; reflexivity. Qed.
