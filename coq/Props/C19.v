(* C19 -- The listing agrees with the image.
   Only statements, each closed by [exact] of a lemma from Proofs/, then Print Assumptions.

   Model.ListingM.generate_listing mirrors Compiler.generate_listing over the symbol table as a
   list of (key, value) in insertion order and the map prefix counter -> file name; a table is
   [table_of es] for a list [es] of entries (EOrd k name v: ordinary symbol of the k-th compiled
   file instance, key ".internal{k}.name"; ELocal: local label, key ".local{j}.name"). *)
From Coq Require Import String Ascii List ZArith NArith Bool Sorted Permutation.
From Verif Require Import Base.Res Spec.Listing Model.ListingM Proofs.ListingP Proofs.ListingPathP Proofs.ListingCheckP.
From Verif Require Model.Block Proofs.BlockP Proofs.ListingBlock.
Import ListNotations.
Open Scope string_scope.

(* the generated text is a listing of the ordinary symbols in the sense of Spec/Listing.v:
   blocks in first-appearance order of the file names, each block a permutation of that file's
   ordinary symbols sorted by (value, name), every value as a canonical octal field *)
Theorem C19_model_meets_spec :
  forall pm es, prefixes_known pm es ->
  exists text, generate_listing (table_of es) pm = Ok text /\ is_listing (ordinary pm es) text.
Proof. exact model_meets_spec. Qed.
Print Assumptions C19_model_meets_spec.

(* every ordinary symbol exactly once, nothing else (no local label): the multiset of
   (file, name, value) over all lines is that of the ordinary symbols *)
Theorem C19_listing_complete_once :
  forall pm es, prefixes_known pm es ->
  exists text bs, generate_listing (table_of es) pm = Ok text /\ renders bs text
                  /\ Permutation (flat_map block_syms bs) (ordinary pm es).
Proof. exact listing_complete_once_lemma. Qed.
Print Assumptions C19_listing_complete_once.

Theorem C19_listing_line_count :
  forall pm es, prefixes_known pm es ->
  exists text bs, generate_listing (table_of es) pm = Ok text /\ renders bs text
    /\ List.length (flat_map (fun b => snd b) bs) = List.length (ordinary pm es).
Proof. exact listing_line_count. Qed.
Print Assumptions C19_listing_line_count.

(* each file block is ordered by value, then name (code-point order) *)
Theorem C19_listing_sorted :
  forall pm es, prefixes_known pm es ->
  exists text bs, generate_listing (table_of es) pm = Ok text /\ renders bs text
                  /\ Forall (fun b => Sorted line_le (snd b)) bs.
Proof. exact listing_sorted_lemma. Qed.
Print Assumptions C19_listing_sorted.

(* the sort itself: a permutation, sorted, for any list of items *)
Theorem C19_sort_correct :
  forall l, Permutation (sort l) l /\ Sorted line_le (map swap (sort l)).
Proof. exact sort_correct. Qed.
Print Assumptions C19_sort_correct.

(* the printed field reads back as the value, for every integer of any size and sign,
   and has at least six digits after the optional sign *)
Theorem C19_octal_roundtrip :
  forall v : Z,
  parse_octal_field (fmt_value v) = Some v
  /\ exists ds, fmt_value v = (if (v <? 0)%Z then "-" else "") ++ ds /\ (6 <= String.length ds)%nat.
Proof. exact octal_roundtrip_lemma. Qed.
Print Assumptions C19_octal_roundtrip.

(* ... and it is the canonical field: exactly six digits unless more are needed *)
Theorem C19_octal_field_canonical : forall v : Z, field_for v (fmt_value v).
Proof. exact fmt_value_field. Qed.
Print Assumptions C19_octal_field_canonical.

(* every line stands under the name of the file whose instance defined the symbol; a file
   name heads one block only *)
Theorem C19_file_grouping :
  forall pm es, prefixes_known pm es ->
  exists text bs, generate_listing (table_of es) pm = Ok text /\ renders bs text
    /\ NoDup (map fst bs)
    /\ forall b v n, In b bs -> In (v, n) (snd b) ->
         exists k, In (EOrd k n v) es /\ lookup k pm = Some (fst b).
Proof. exact file_grouping_lemma. Qed.
Print Assumptions C19_file_grouping.

(* Python's KeyError is not hidden: a key whose prefix counter is not in
   internal_prefix_to_state makes the model crash, as the code does *)
Theorem C19_unknown_prefix_crashes :
  forall pm k n v r, lookup k pm = None ->
  generate_listing (table_of (EOrd k n v :: r)) pm = Crash "KeyError: internal_prefix_to_state".
Proof. exact unknown_prefix_crashes. Qed.
Print Assumptions C19_unknown_prefix_crashes.

(* PARTIAL: "every listed label address is the address at which the byte following that label
   lies in the image" is derived here from the address invariant of C02 (value of a label =
   link base + number of bytes emitted before it), which is a hypothesis of this theorem and is
   proved for the compile_block model under C02.  What is missing for the full statement is the
   composition with that proof; on the real code the conclusion itself is checked on every run
   by marker bytes planted after each label (Spec.Listing.check_image). *)
Theorem C19_label_is_image_address_partial :
  forall (base : Z) (syms : list sym) (placed : list (sym * nat)),
  (forall s off, In (s, off) placed -> In s syms) ->
  (forall s off, In (s, off) placed -> s_value s = (base + Z.of_nat off)%Z) ->
  forall bs, listing_of syms bs -> points_into_image base bs placed.
Proof. exact label_is_image_address_lemma. Qed.
Print Assumptions C19_label_is_image_address_partial.

(* ... and composed with C02 (Proofs/ListingBlock.v): for the labels of a block whose statements announce
   their true sizes, that hypothesis is C02's address invariant, so the statement holds outright:
   every listed label's address is where the byte following that label lies in the image *)
Theorem C19_label_is_image_address :
  forall (l : list Block.stmt) (base : Z) (syms : list sym) (placed : list (sym * nat)),
  Block.consistent_list l = true ->
  (forall s off, In (s, off) placed ->
      In s syms /\ exists pre post, Block.place_list base l = (pre ++ (s_value s, []) :: post)%list
                                   /\ off = List.length (BlockP.bytes_of pre)) ->
  forall bs, listing_of syms bs -> points_into_image base bs placed.
Proof. exact ListingBlock.listed_labels_point_into_image. Qed.
Print Assumptions C19_label_is_image_address.

(* --lst: the listing goes beside the output file, named after it: a trailing ".<format>" is
   replaced by ".lst", otherwise ".lst" is appended; output on stdout gives "listing.lst" *)
Theorem C19_lst_path :
  forall fmt path, no_char "." fmt ->
  path <> "-" -> path <> "-." ++ fmt -> lst_beside path fmt (lst_path path fmt).
Proof. exact lst_path_beside. Qed.
Print Assumptions C19_lst_path.

Theorem C19_lst_path_stdout :
  forall fmt path, no_char "." fmt ->
  path = "-" \/ path = "-." ++ fmt -> lst_path path fmt = "listing.lst".
Proof. exact lst_path_stdout. Qed.
Print Assumptions C19_lst_path_stdout.

(* which file that is: the first make_xxx output when -o is absent, the -o file when present,
   none at all when nothing is written *)
Theorem C19_cli_lst_emitted :
  forall fmt path ib infile, cli_lst None (Some (fmt, path)) ib infile = Some (lst_path path fmt).
Proof. exact cli_lst_emitted. Qed.
Print Assumptions C19_cli_lst_emitted.

Theorem C19_cli_lst_outfile :
  forall o fe ib infile,
  cli_lst (Some o) fe ib infile
  = Some (lst_path o (if endswith ".bin" (lower (last_component o "")) then "bin" else "raw")).
Proof. exact cli_lst_outfile. Qed.
Print Assumptions C19_cli_lst_outfile.

Theorem C19_cli_lst_none : forall infile, cli_lst None None false infile = None.
Proof. exact cli_lst_none. Qed.
Print Assumptions C19_cli_lst_none.

(* the judge applied to observed listings is sound for the specification *)
Theorem C19_check_listing_sound :
  forall syms text, check_listing syms text = true -> is_listing syms text.
Proof. exact check_listing_sound. Qed.
Print Assumptions C19_check_listing_sound.

(* ---- non-vacuity *)
Definition ex_pm : list (N * string) := [(1%N, "a.mac"); (2%N, "i.mac"); (3%N, "i.mac")].
Definition ex_es : list entry :=
  [EOrd 1 "Start" 512; EOrd 1 "neg" (-5); ELocal 2 "1$" 514; EOrd 2 "a.b" 516; EOrd 2 "big" 1099511627776;
   EOrd 3 "a.b" 520; EOrd 3 "big" 1099511627776; EOrd 1 "A" 7; EOrd 1 "a" 7].

Example C19_ex_prefixes_known : prefixes_known ex_pm ex_es.
Proof.
  intros k n v H. unfold ex_es in H. simpl in H.
  repeat (destruct H as [H|H]; [inversion H; subst; vm_compute; discriminate|]). destruct H.
Qed.

Example C19_ex_listing :
  generate_listing (table_of ex_es) ex_pm
  = Ok ("a.mac" ++ nl ++ "-000005 neg" ++ nl ++ "000007 A" ++ nl ++ "000007 a" ++ nl ++ "001000 Start" ++ nl ++ nl
        ++ "i.mac" ++ nl ++ "001004 a.b" ++ nl ++ "001010 a.b" ++ nl
        ++ "20000000000000 big" ++ nl ++ "20000000000000 big" ++ nl ++ nl).
Proof. vm_compute. reflexivity. Qed.

Example C19_ex_check :
  match generate_listing (table_of ex_es) ex_pm with
  | Ok t => check_listing (ordinary ex_pm ex_es) t
  | _ => false
  end = true.
Proof. vm_compute. reflexivity. Qed.

(* the hypotheses of C19_label_is_image_address_partial are met by the labels of the example:
   base 512, "Start" followed by the byte at offset 0, the two instances of "a.b" at offsets 4 and 8 *)
Example C19_ex_address_hypotheses :
  let placed := [(mkSym "a.mac" "Start" 512, 0%nat); (mkSym "i.mac" "a.b" 516, 4%nat); (mkSym "i.mac" "a.b" 520, 8%nat)] in
  (forall s off, In (s, off) placed -> In s (ordinary ex_pm ex_es))
  /\ (forall s off, In (s, off) placed -> s_value s = (512 + Z.of_nat off)%Z).
Proof.
  split; intros s off H; simpl in H;
    repeat (destruct H as [H|H]; [inversion H; subst; vm_compute; tauto|]); destruct H.
Qed.

Example C19_ex_formats :
  no_char "." "bin" /\ no_char "." "raw" /\ no_char "." "bk_wav" /\ no_char "." "bk_turbo_wav".
Proof. simpl. repeat split; discriminate. Qed.

Example C19_ex_paths :
  lst_path "/d/x.bin" "bin" = "/d/x.lst" /\ lst_path "/d/x" "raw" = "/d/x.lst"
  /\ lst_path "/d/x.wav" "bk_wav" = "/d/x.wav.lst" /\ lst_path "-" "raw" = "listing.lst".
Proof. vm_compute. repeat split; reflexivity. Qed.
