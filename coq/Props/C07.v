(* C07 -- Errors fail the build; warnings never change it.
   Only statements, each closed by [exact] of a lemma from Proofs/ReportsP.v, then Print Assumptions.

   What is proved: the latch (emit_report / handle_reports.__exit__ / FilterHandler.__call__ and
   the -W loop of main_cli, all regenerated from the source into Gen/GenReports.v) as a function of
   the trace of one `with handle_reports(...)` block, and of the two blocks of main_cli.
   What is NOT carried by the model (hence the `_partial` names on the command-line statements):
   that the parser / compiler really produce such traces, argparse, the file system (what a write does is
   an input of the model).  Those are tied by real CLI runs in tools/props/c07.py.
   Two clauses of the property text are false of main_cli when a WRITE fails (Props/C07_findings.v). *)
From Coq Require Import String List NArith ZArith Bool.
From Verif Require Import Gen.GenReports Spec.ReportSpec Model.Reports Proofs.ReportsP.
Import ListNotations.
Open Scope string_scope.
Open Scope list_scope.

(* the block is left by UnrecoverableError iff an error- or critical-severity report was executed;
   [clean]: no exception other than RecoverableError leaves the body, and UnrecoverableError is
   raised only by a critical report *)
Theorem C07_fail_iff_error : forall wc tr, clean tr = true ->
  (r_leave (run_with wc tr) = LRaise EUnrecoverable <-> has_error (reports_of (executed tr)) = true).
Proof. exact fail_iff_error. Qed.
Print Assumptions C07_fail_iff_error.

(* ... also when the body raises UnrecoverableError directly (compile_and_link_files does) *)
Theorem C07_fail_iff_error_general : forall wc tr, no_foreign tr = true ->
  (r_leave (run_with wc tr) = LRaise EUnrecoverable <->
   has_error (reports_of (executed tr)) = true \/ trace_exc tr = Some EUnrecoverable).
Proof. exact fail_iff_error_general. Qed.
Print Assumptions C07_fail_iff_error_general.

(* a run with only warnings leaves the block the way the body left it *)
Theorem C07_no_error_no_failure : forall wc tr, clean tr = true ->
  has_error (reports_of (executed tr)) = false ->
  r_leave (run_with wc tr) = match trace_exc tr with None => LNormal | Some e => LRaise e end /\
  (trace_exc tr = None \/ trace_exc tr = Some ERecoverable).
Proof. exact no_error_leaves. Qed.
Print Assumptions C07_no_error_no_failure.

(* nothing after a critical report is executed *)
Theorem C07_critical_aborts : forall wc tr1 id tr2 tr2',
  run_with wc (tr1 ++ Report PCritical id :: tr2) = run_with wc (tr1 ++ Report PCritical id :: tr2') /\
  executed (tr1 ++ Report PCritical id :: tr2) = executed (tr1 ++ [Report PCritical id]).
Proof. exact critical_aborts. Qed.
Print Assumptions C07_critical_aborts.

(* the warning selection is transparent: for every list of -W arguments the way the block is left,
   the latch and the number of executed events are those of a run without any -W; what reaches
   the nested handler is exactly the executed reports that the Spec selects ("the last -W that
   mentions a warning decides, otherwise the class default"); every error-severity report arrives *)
Theorem C07_filter_transparent : forall args tr,
  let r := run_with (warning_control_of args) tr in
  let r0 := run_with [] tr in
  r_leave r = r_leave r0 /\ r_latch r = r_latch r0 /\ r_executed r = r_executed r0 /\
  r_delivered r = filter (fun x => spec_shown warning_classes args (sev_of (fst x)) (snd x)) (reports_of (executed tr)) /\
  filter (fun x => error_severity (sev_of (fst x))) (r_delivered r) =
  filter (fun x => error_severity (sev_of (fst x))) (reports_of (executed tr)).
Proof. exact filter_transparent. Qed.
Print Assumptions C07_filter_transparent.

(* the same for an arbitrary warning_control dictionary (not only those main_cli can build) *)
Theorem C07_filter_transparent_any_control : forall wc tr,
  r_leave (run_with wc tr) = r_leave (run_with [] tr) /\
  r_latch (run_with wc tr) = r_latch (run_with [] tr) /\
  r_executed (run_with wc tr) = r_executed (run_with [] tr) /\
  r_delivered (run_with wc tr) = filter (keeps wc) (reports_of (executed tr)) /\
  filter (fun r => negb (is_warning (fst r))) (r_delivered (run_with wc tr)) =
  filter (fun r => negb (is_warning (fst r))) (reports_of (executed tr)).
Proof. exact filter_transparent_wc. Qed.
Print Assumptions C07_filter_transparent_any_control.

(* the -W loop of main_cli computes the Spec's selection *)
Theorem C07_warning_selection : forall args w,
  wc_shows (warning_control_of args) w = spec_warning_shown warning_classes args w.
Proof. exact warning_control_spec. Qed.
Print Assumptions C07_warning_selection.

(* an exception that is neither report exception is never converted into a clean failure *)
Theorem C07_foreign_exception_propagates : forall wc tr e,
  trace_exc tr = Some e -> e <> ERecoverable -> e <> EUnrecoverable ->
  r_leave (run_with wc tr) = LRaise e.
Proof. exact foreign_exception_propagates. Qed.
Print Assumptions C07_foreign_exception_propagates.

(* ---- main_cli with its writes (Model.Reports.cli_run).  What each write does is an input ([cli_env]):
   the make_* files are written INSIDE the second report block (a failed write is reported as an error and
   the loop goes on), the -o / --implicit-bin file and the listing AFTER the blocks (a failed write exits 1
   with a plain message, no report); unknown --charset / unreadable source exit 1 before anything runs.
   All three are `_partial`: (i) the trace of the assembly is a hypothesis ([disciplined]); (ii) the real CLI
   and the file system are tied by runs, not proved; (iii) they state what HOLDS -- the property text asks for
   more (status <> 0 iff an error diagnostic; nothing written on failure) and that is FALSE of main_cli when a
   write fails: see Props/C07_findings.v (known findings write-error-leaves-earlier-outputs and
   cli-write-failure-exits-without-diagnostic). *)

(* the status is 1 exactly when something failed, 0 otherwise; an error report always fails the run;
   a failing run either reported an error or is one of the silent failures (before the assembly; a crash;
   a failed -o / listing write) *)
Theorem C07_cli_status_partial : forall args tr1 env, disciplined tr1 = true ->
  let c := cli_run args tr1 env in
  (c_status c <> 0%Z <-> cli_fails tr1 env = true) /\
  (c_status c = 0%Z \/ c_status c = 1%Z) /\
  (c_error_reported c = true -> c_status c <> 0%Z) /\
  (c_status c <> 0%Z <-> c_error_reported c = true \/ silent_failure tr1 env = true).
Proof. exact cli_status. Qed.
Print Assumptions C07_cli_status_partial.

(* an error in the assembly proper (parse / compile / link), or a failure before it, leaves no file behind *)
Theorem C07_cli_no_files_when_assembly_fails_partial : forall args tr1 env, disciplined tr1 = true ->
  e_pre_fail env = true \/ err1 tr1 = true ->
  c_written (cli_run args tr1 env) = [] /\ c_status (cli_run args tr1 env) <> 0%Z.
Proof. exact cli_no_files_when_assembly_fails. Qed.
Print Assumptions C07_cli_no_files_when_assembly_fails_partial.

(* status 0 means: no error was reported and every requested file was written *)
Theorem C07_cli_success_writes_all_partial : forall args tr1 env, disciplined tr1 = true ->
  c_status (cli_run args tr1 env) = 0%Z ->
  c_written (cli_run args tr1 env) = requested env /\ c_error_reported (cli_run args tr1 env) = false /\ err1 tr1 = false.
Proof. exact cli_success_writes_all. Qed.
Print Assumptions C07_cli_success_writes_all_partial.

(* several make_* directives may name one file: emit_files walks the list in source order, so appending a directive
   changes only its own path, and there its output replaces whatever an earlier directive wrote (last writer wins);
   a refused or failed directive changes nothing.  partial: the model has a list because the source has one
   (translator: `for ... in self.emitted_files`); the real order of writes is tied by runs under every hash seed (C18) *)
Theorem C07_emit_last_writer_wins_partial : forall ws p w disk, no_crash ws = true ->
  (w = WOk -> emit_disk 0 (ws ++ [(p, w)]) disk p = Some (length ws)) /\
  (forall q, q <> p \/ w <> WOk -> emit_disk 0 (ws ++ [(p, w)]) disk q = emit_disk 0 ws disk q).
Proof. exact emit_last_writer_wins. Qed.
Print Assumptions C07_emit_last_writer_wins_partial.

(* non-vacuity *)
Example C07_ex_error_then_recoverable :
  let tr := [Report PWarning "meta-typo"; Report PError "undefined-symbol"; RaiseRecoverable; Report PError "x"] in
  clean tr = true /\ r_leave (run_with [] tr) = LRaise EUnrecoverable /\ r_executed (run_with [] tr) = 3%nat.
Proof. vm_compute. repeat split; reflexivity. Qed.
Example C07_ex_warnings_only :
  let tr := [Report PWarning "implicit-operand"; Report PWarning "meta-typo"; Return] in
  clean tr = true /\ r_leave (run_with (warning_control_of ["all"; "no-meta-typo"]) tr) = LNormal /\
  r_delivered (run_with (warning_control_of ["all"; "no-meta-typo"]) tr) = [(PWarning, "implicit-operand")] /\
  r_delivered (run_with (warning_control_of ["no-default"; "meta-typo"]) tr) = [(PWarning, "meta-typo")].
Proof. vm_compute. repeat split; reflexivity. Qed.
Example C07_ex_cli :
  c_status (cli_run ["all"] [Report PError "odd-address"] (all_ok 1 true true)) = 1%Z /\
  c_written (cli_run ["all"] [Report PError "odd-address"] (all_ok 1 true true)) = [] /\
  c_written (cli_run ["all"] [Report PWarning "excess-hash"] (all_ok 2 true true)) = [0; 1; 2; 3]%nat /\
  c_status (cli_run [] [RaiseOther 7] (all_ok 0 true false)) = 1%Z /\
  (* files written before a failing write stay; later make_* files are still written *)
  c_written (cli_run [] [] (mk_env false [WOk; WReported "io-error"; WOk] POk POk)) = [0; 2]%nat /\
  c_status (cli_run [] [] (mk_env false [WOk; WReported "io-error"; WOk] POk POk)) = 1%Z.
Proof. vm_compute. repeat split; reflexivity. Qed.
