(* C07 -- Errors fail the build; warnings never change it.
   Only statements, each closed by [exact] of a lemma from Proofs/ReportsP.v, then Print Assumptions.

   What is proved: the latch (emit_report / handle_reports.__exit__ / FilterHandler.__call__ and
   the -W loop of main_cli, all regenerated from the source into Gen/GenReports.v) as a function of
   the trace of one `with handle_reports(...)` block, and of the two blocks of main_cli.
   What is NOT carried by the model (hence the `_partial` names on the command-line statements):
   that the parser / compiler really produce such traces, argparse, the file system.  Those are
   tied by real CLI runs in tools/props/c07.py. *)
From Coq Require Import String List NArith ZArith Bool.
From Verif Require Import Gen.GenReports Spec.ReportSpec Model.Reports Proofs.ReportsP.
Import ListNotations.
Open Scope string_scope.
Open Scope list_scope.

(* the block is left by UnrecoverableError iff an error- or critical-severity report was executed;
   [clean]: no exception other than RecoverableError leaves the body, and UnrecoverableError is
   raised only by a critical report *)
Theorem C07_fail_iff_error : forall wc tr, clean tr = true ->
  (r_leave (run_with wc tr) = LRaise EUnrecoverable <-> has_error (reports_of (executed tr)) = true).
Proof. exact fail_iff_error. Qed.
Print Assumptions C07_fail_iff_error.

(* ... also when the body raises UnrecoverableError directly (compile_and_link_files does) *)
Theorem C07_fail_iff_error_general : forall wc tr, no_foreign tr = true ->
  (r_leave (run_with wc tr) = LRaise EUnrecoverable <->
   has_error (reports_of (executed tr)) = true \/ trace_exc tr = Some EUnrecoverable).
Proof. exact fail_iff_error_general. Qed.
Print Assumptions C07_fail_iff_error_general.

(* a run with only warnings leaves the block the way the body left it *)
Theorem C07_no_error_no_failure : forall wc tr, clean tr = true ->
  has_error (reports_of (executed tr)) = false ->
  r_leave (run_with wc tr) = match trace_exc tr with None => LNormal | Some e => LRaise e end /\
  (trace_exc tr = None \/ trace_exc tr = Some ERecoverable).
Proof. exact no_error_leaves. Qed.
Print Assumptions C07_no_error_no_failure.

(* nothing after a critical report is executed *)
Theorem C07_critical_aborts : forall wc tr1 id tr2 tr2',
  run_with wc (tr1 ++ Report PCritical id :: tr2) = run_with wc (tr1 ++ Report PCritical id :: tr2') /\
  executed (tr1 ++ Report PCritical id :: tr2) = executed (tr1 ++ [Report PCritical id]).
Proof. exact critical_aborts. Qed.
Print Assumptions C07_critical_aborts.

(* the warning selection is transparent: for every list of -W arguments the way the block is left,
   the latch and the number of executed events are those of a run without any -W; what reaches
   the nested handler is exactly the executed reports that the Spec selects ("the last -W that
   mentions a warning decides, otherwise the class default"); every error-severity report arrives *)
Theorem C07_filter_transparent : forall args tr,
  let r := run_with (warning_control_of args) tr in
  let r0 := run_with [] tr in
  r_leave r = r_leave r0 /\ r_latch r = r_latch r0 /\ r_executed r = r_executed r0 /\
  r_delivered r = filter (fun x => spec_shown warning_classes args (sev_of (fst x)) (snd x)) (reports_of (executed tr)) /\
  filter (fun x => error_severity (sev_of (fst x))) (r_delivered r) =
  filter (fun x => error_severity (sev_of (fst x))) (reports_of (executed tr)).
Proof. exact filter_transparent. Qed.
Print Assumptions C07_filter_transparent.

(* the same for an arbitrary warning_control dictionary (not only those main_cli can build) *)
Theorem C07_filter_transparent_any_control : forall wc tr,
  r_leave (run_with wc tr) = r_leave (run_with [] tr) /\
  r_latch (run_with wc tr) = r_latch (run_with [] tr) /\
  r_executed (run_with wc tr) = r_executed (run_with [] tr) /\
  r_delivered (run_with wc tr) = filter (keeps wc) (reports_of (executed tr)) /\
  filter (fun r => negb (is_warning (fst r))) (r_delivered (run_with wc tr)) =
  filter (fun r => negb (is_warning (fst r))) (reports_of (executed tr)).
Proof. exact filter_transparent_wc. Qed.
Print Assumptions C07_filter_transparent_any_control.

(* the -W loop of main_cli computes the Spec's selection *)
Theorem C07_warning_selection : forall args w,
  wc_shows (warning_control_of args) w = spec_warning_shown warning_classes args w.
Proof. exact warning_control_spec. Qed.
Print Assumptions C07_warning_selection.

(* an exception that is neither report exception is never converted into a clean failure *)
Theorem C07_foreign_exception_propagates : forall wc tr e,
  trace_exc tr = Some e -> e <> ERecoverable -> e <> EUnrecoverable ->
  r_leave (run_with wc tr) = LRaise e.
Proof. exact foreign_exception_propagates. Qed.
Print Assumptions C07_foreign_exception_propagates.

(* main_cli (model of its two blocks): status 1 iff an error-severity report was executed, else 0;
   the code that writes -o output and listing is reached iff the status is 0.
   partial: the traces are hypotheses ([disciplined] = RecoverableError only after an error report);
   that the real parser/compiler produce such traces, and the file system, are tied by CLI runs *)
Theorem C07_cli_fail_iff_error_partial : forall args tr1 tr2,
  disciplined tr1 = true -> disciplined tr2 = true ->
  let c := cli_run args tr1 tr2 in
  let err := has_error (reports_of (executed tr1)) ||
             (negb (has_error (reports_of (executed tr1))) && has_error (reports_of (executed tr2))) in
  (c_status c <> 0%Z <-> err = true) /\
  (c_status c = 0%Z \/ c_status c = 1%Z) /\
  c_outputs_written c = negb err.
Proof. exact cli_fail_iff_error. Qed.
Print Assumptions C07_cli_fail_iff_error_partial.

(* without any hypothesis on the traces: outputs are only written when no error was reported *)
Theorem C07_cli_no_output_after_error_partial : forall args tr1 tr2,
  c_outputs_written (cli_run args tr1 tr2) = true ->
  has_error (reports_of (executed tr1)) = false /\ has_error (reports_of (executed tr2)) = false /\
  c_status (cli_run args tr1 tr2) = 0%Z.
Proof. exact cli_outputs_only_without_errors. Qed.
Print Assumptions C07_cli_no_output_after_error_partial.

(* non-vacuity *)
Example C07_ex_error_then_recoverable :
  let tr := [Report PWarning "meta-typo"; Report PError "undefined-symbol"; RaiseRecoverable; Report PError "x"] in
  clean tr = true /\ r_leave (run_with [] tr) = LRaise EUnrecoverable /\ r_executed (run_with [] tr) = 3%nat.
Proof. vm_compute. repeat split; reflexivity. Qed.
Example C07_ex_warnings_only :
  let tr := [Report PWarning "implicit-operand"; Report PWarning "meta-typo"; Return] in
  clean tr = true /\ r_leave (run_with (warning_control_of ["all"; "no-meta-typo"]) tr) = LNormal /\
  r_delivered (run_with (warning_control_of ["all"; "no-meta-typo"]) tr) = [(PWarning, "implicit-operand")] /\
  r_delivered (run_with (warning_control_of ["no-default"; "meta-typo"]) tr) = [(PWarning, "meta-typo")].
Proof. vm_compute. repeat split; reflexivity. Qed.
Example C07_ex_cli :
  c_status (cli_run ["all"] [Report PError "odd-address"] []) = 1%Z /\
  c_outputs_written (cli_run ["all"] [Report PWarning "excess-hash"] [Report PWarning "x"]) = true /\
  c_status (cli_run [] [] [Report PError "io-error"]) = 1%Z /\
  c_status (cli_run [] [RaiseOther 7] []) = 1%Z.
Proof. vm_compute. repeat split; reflexivity. Qed.
