(* C12 -- The link base is what the source says, or an error.
   Only statements, each closed by [exact] of a lemma from Proofs/, then Print Assumptions.
   Model: Model/LinkBase.v (set_link_address, compile_and_link_files, the `. =` branch) over
   Model/Poly.v (LinearPolynomial); meaning of an expression: Spec/LinkRef.v (integer arithmetic). *)
From Coq Require Import String List ZArith Bool.
From Verif Require Import Base.Res Base.Bytes Spec.LinkRef Model.Poly Model.LinkBase Proofs.PolyP Proofs.LinkBaseP.
Import ListNotations.
Open Scope Z_scope.

(* no `.link` and no `. =` anywhere: base 0o1000, image = the bytes in order *)
Theorem C12_base_default : forall p, no_base p -> run p = Ok (512, bytes_of p).
Proof. exact base_default. Qed.
Print Assumptions C12_base_default.

(* the first `.link e` (anywhere in the files) decides the base: solve_base of e over ALL labels *)
Theorem C12_base_from_link : forall pre e post b img,
  no_base pre -> run (pre ++ SLink e :: post) = Ok (b, img) ->
  solve_base (all_labels (pre ++ SLink e :: post)) e = Ok b.
Proof. exact base_from_link. Qed.
Print Assumptions C12_base_from_link.

(* so does a `. = e` met before the base has been set *)
Theorem C12_base_from_leading_dot : forall pre e post b img,
  no_base pre -> run (pre ++ SDot e :: post) = Ok (b, img) ->
  solve_base (all_labels (pre ++ SDot e :: post)) e = Ok b.
Proof. exact base_from_leading_dot. Qed.
Print Assumptions C12_base_from_leading_dot.

(* and if that expression has no solution the assembly fails with that error: no arbitrary base *)
Theorem C12_base_error_propagates : forall pre s e post ids,
  no_base pre -> (s = SLink e \/ s = SDot e) ->
  (exists st, pass1 (pre ++ s :: post) init = Ok st) ->
  solve_base (all_labels (pre ++ s :: post)) e = Err ids ->
  run (pre ++ s :: post) = Err ids.
Proof. exact base_error_propagates. Qed.
Print Assumptions C12_base_error_propagates.

(* symbolic evaluation is integer arithmetic: whatever numbers the variables (base, gap lengths)
   take, the polynomial's value is the expression's integer value with the labels at their addresses *)
Theorem C12_symbolic_is_arithmetic : forall labels e p, leval labels e = Ok p ->
  forall rho, zeval (map (fun q => eval q rho) labels) e = Ok (eval p rho).
Proof. exact leval_sound. Qed.
Print Assumptions C12_symbolic_is_arithmetic.

(* base_solved: when every variable cancels, the base is the integer value of the expression
   (the same for every base and every gap length), reduced by the 16-bit rule *)
Theorem C12_base_solved : forall labels e p,
  leval labels e = Ok p -> is_const p = true ->
  solve_base labels e = get_as_int16 (const p) /\
  forall rho, zeval (map (fun q => eval q rho) labels) e = Ok (const p).
Proof. exact base_solved. Qed.
Print Assumptions C12_base_solved.

(* in particular K + sum k_i (L_ai - L_bi), for all K, k_i, and label offsets *)
Theorem C12_base_solved_differences : forall offs K terms,
  Forall (fun t => (snd (fst t) < length offs)%nat /\ (snd t < length offs)%nat) terms ->
  exists p, leval (lab_polys offs) (diff_sum K terms) = Ok p /\ is_const p = true /\
            const p = diff_sum_value offs K terms.
Proof. exact diff_sum_solved. Qed.
Print Assumptions C12_base_solved_differences.

(* unary minus applied DIRECTLY to a label is not forced to a number (operators.neg: awaited=False): it stays
   symbolic with the opposite coefficient, and  -s + e  /  e + (-s)  are the constant off_e - off_s *)
Theorem C12_neg_keeps_symbolic : forall labels a p,
  leval labels a = Ok p -> leval labels (LNeg a) = Ok (neg p) /\ forall x, coeff x (neg p) = - coeff x p.
Proof. exact neg_keeps_symbolic. Qed.
Print Assumptions C12_neg_keeps_symbolic.

Theorem C12_neg_label_cancels : forall offs s e, (s < length offs)%nat -> (e < length offs)%nat ->
  exists p, leval (lab_polys offs) (LAdd (LNeg (LLabel s)) (LLabel e)) = Ok p /\ is_const p = true /\
            const p = nth e offs 0 - nth s offs 0 /\
  exists q, leval (lab_polys offs) (LAdd (LLabel e) (LNeg (LLabel s))) = Ok q /\ is_const q = true /\
            const q = nth e offs 0 - nth s offs 0.
Proof. exact neg_label_cancels. Qed.
Print Assumptions C12_neg_label_cancels.

Theorem C12_range_rule : forall v,
  (-65536 < v < 65536 -> get_as_int16 v = Ok (v mod 65536)) /\
  (v <= -65536 \/ 65536 <= v -> get_as_int16 v = Err ["value-out-of-bounds"%string]).
Proof. exact (fun v => conj (get_as_int16_ok v) (get_as_int16_err v)). Qed.
Print Assumptions C12_range_rule.

(* base_self_dependent: a variable is left => error, never a base *)
Theorem C12_base_self_dependent : forall labels e p,
  leval labels e = Ok p -> is_const p = false -> solve_base labels e = Err ["recursive-definition"%string].
Proof. exact base_self_dependent. Qed.
Print Assumptions C12_base_self_dependent.

(* an awaited operator (/ % & | ^ _) applied to an operand that still contains the base is rejected too *)
Theorem C12_awaited_on_address_rejected : forall labels op a b pa,
  leval labels a = Ok pa -> is_const pa = false -> (exists q, leval labels b = Ok q) ->
  leval labels (LAw op a b) = Err ["recursive-definition"%string].
Proof. exact awaited_on_address_rejected. Qed.
Print Assumptions C12_awaited_on_address_rejected.

(* the rejection of a left-over variable is never spurious: the expression's integer value really
   changes when that variable changes *)
Theorem C12_self_dependent_is_genuine : forall labels e p,
  Forall wf labels -> leval labels e = Ok p -> is_const p = false ->
  exists x, forall rho,
    zeval (map (fun q => eval q (upd rho x (rho x + 1))) labels) e <>
    zeval (map (fun q => eval q rho) labels) e.
Proof. exact self_dependent_is_genuine. Qed.
Print Assumptions C12_self_dependent_is_genuine.

(* is_const is complete: "no variable left" <=> "same value under every assignment" *)
Theorem C12_is_const_complete : forall p, wf p ->
  (is_const p = true <-> forall rho rho', eval p rho = eval p rho').
Proof. exact is_const_complete. Qed.
Print Assumptions C12_is_const_complete.

Theorem C12_coeff_zero_iff_independent : forall p x,
  coeff x p = 0 <-> (forall rho d, eval p (upd rho x d) = eval p rho).
Proof. exact coeff_zero_iff_independent. Qed.
Print Assumptions C12_coeff_zero_iff_independent.

(* ---- LinearPolynomial._substitute_known_variables (the code since 0fa6448): Model/Poly.substitute.
   HOW THIS RELATES TO THE THEOREMS ABOVE: Model/LinkBase.run / leval do NOT call Poly.substitute; there,
   intermediate symbols are inlined by the harness and cancellation is the normalisation of add/sub.
   That symbols really are transparent in the code -- for every placement and definition order -- is
   established by CORRESPONDENCE only: the symbol stream of tools/props/c12.py (every solvable
   symbol-spelled link expression must be accepted with the value of the inlined expression) and the
   driven operation sequences of tools/polycorr.py, which tie Poly.substitute to the real _wait.
   The theorems below are about that mechanism in isolation: they explain why the stream holds, they
   are not used in the proof of C12_base_solved. ---- *)

(* substitution never changes the value, under any assignment consistent with the settled variables *)
Theorem C12_substitute_sound : forall w rho p, wagrees w rho -> eval (fst (substitute w p)) rho = eval p rho.
Proof. exact substitute_sound. Qed.
Print Assumptions C12_substitute_sound.

(* completeness, also while variables are being computed (the link base is solved exactly while the
   base Deferred is awaited): with well-founded definitions (rank rk), every variable left in the result
   is unsettled, or is being computed, or is the one-step value of a variable that is being computed *)
Theorem C12_substitute_complete : forall w (rk : var -> nat),
  (forall x y, lookupv (settled w) x = Some (VVar y) -> (rk y < rk x)%nat) ->
  (forall x p y, lookupv (settled w) x = Some (VPoly p) -> In y (vars p) -> (rk y < rk x)%nat) ->
  forall p, (forall y, In y (vars p) -> (rk y < sub_fuel w)%nat) ->
  forall z, In z (vars (fst (substitute w p))) ->
    lookupv (settled w) z = None \/ memv z (awaiting w) = true \/
    exists y, memv y (awaiting w) = true /\ lookupv (settled w) y = Some (VVar z).
Proof. exact substitute_complete. Qed.
Print Assumptions C12_substitute_complete.

(* the third case cannot be dropped: y being computed and settled to z, z settled to 5: the code's
   one-step estimate leaves z in the result although z is known *)
Example C12_ex_residual_third_case :
  substitute (World [(1, VVar 2); (2, VPoly (pconst 5))] [1] []) (pvar 1) = (Poly [(2, 1)] 0, [1]).
Proof. vm_compute. reflexivity. Qed.

(* semantic completeness -- the statement Props/C12_findings.v refutes for the old one-level substitution
   holds for the new one (nothing being computed, well-founded definitions): a polynomial that has the
   same value under EVERY consistent assignment is substituted to a constant *)
Theorem C12_substitute_semantically_complete : forall w (rk : var -> nat),
  (forall x y, lookupv (settled w) x = Some (VVar y) -> (rk y < rk x)%nat) ->
  (forall x p y, lookupv (settled w) x = Some (VPoly p) -> In y (vars p) -> (rk y < rk x)%nat) ->
  forall p c, awaiting w = [] ->
  (forall y, In y (vars p) -> (rk y < sub_fuel w)%nat) ->
  (forall rho, wagrees w rho -> eval p rho = c) ->
  is_const (fst (substitute w p)) = true.
Proof. exact substitute_semantically_complete. Qed.
Print Assumptions C12_substitute_semantically_complete.

(* a `.link` after the base has been set by `.link` or by a leading `. =`: address-conflict,
   whatever surrounds it *)
Theorem C12_second_link_rejected : forall pre s e mid e2 post,
  (s = SLink e \/ s = SDot e) ->
  run (pre ++ s :: mid ++ SLink e2 :: post) = Err ["address-conflict"%string].
Proof. exact second_link_rejected. Qed.
Print Assumptions C12_second_link_rejected.

(* `. = X` with the base set, X at or after the current address: exactly X - `.` zero bytes, and
   the next address is X *)
Theorem C12_dot_forward : forall labels rho at_ x k xv new,
  uses_later labels x k = false ->
  zeval (map (fun q => eval q rho) labels) x = Ok xv ->
  get_as_int16 xv = Ok new ->
  eval at_ rho <= new ->
  skip_bytes labels rho at_ x k = Ok (zeros (Z.to_nat (new - eval at_ rho))) /\
  Z.of_nat (length (zeros (Z.to_nat (new - eval at_ rho)))) = new - eval at_ rho /\
  (coeff (skipvar k) at_ = 0 ->
   eval (add at_ (pvar (skipvar k))) (upd rho (skipvar k) (new - eval at_ rho)) = new).
Proof. exact dot_forward. Qed.
Print Assumptions C12_dot_forward.

(* X before the current address: an error (and therefore no image at all: nothing is dropped) *)
Theorem C12_dot_backward : forall labels rho at_ x k xv new,
  uses_later labels x k = false ->
  zeval (map (fun q => eval q rho) labels) x = Ok xv ->
  get_as_int16 xv = Ok new ->
  new < eval at_ rho ->
  skip_bytes labels rho at_ x k = Err ["value-out-of-bounds"%string].
Proof. exact dot_backward. Qed.
Print Assumptions C12_dot_backward.

(* the same at programme level:  .link b / pre / . = X / post *)
Theorem C12_dot_forward_program : forall b pre X post,
  0 <= b -> b + Z.of_nat (length pre) <= X < 65536 ->
  run (dot_prog b pre X post) = Ok (b, pre ++ zeros (Z.to_nat (X - (b + Z.of_nat (length pre)))) ++ post).
Proof. exact dot_forward_program. Qed.
Print Assumptions C12_dot_forward_program.

Theorem C12_dot_backward_program : forall b pre X post,
  0 <= b < 65536 -> 0 <= X < b + Z.of_nat (length pre) -> X < 65536 ->
  run (dot_prog b pre X post) = Err ["value-out-of-bounds"%string].
Proof. exact dot_backward_program. Qed.
Print Assumptions C12_dot_backward_program.

(* ---- non-vacuity ---- *)
(* the shape that used to be rejected:  x = e / s: .word 1,2 / .link x - s / e:
   the link expression is -LA + x with LA (0) settled to the Deferred d (1), which is being computed,
   and the symbol x (2) settled to LA + 4: the substitution now yields the constant 4 *)
Example C12_ex_substitute :
  let w := World [(0, VVar 1); (2, VPoly (addc (pvar 0) 4))] [1] [] in
  substitute w (add (neg (pvar 0)) (pvar 2)) = (Poly [] 4, []) /\
  substitute_oof w (add (neg (pvar 0)) (pvar 2)) = false.
Proof. vm_compute. split; reflexivity. Qed.
(* .link 1000 + e - s / s: .word 1,2 / e:      base 0o1004 *)
Example C12_ex_solved :
  run [SLink (LAdd (LConst 512) (LSub (LLabel 1) (LLabel 0))); SLabel; SBytes [1;0;2;0]; SLabel]
  = Ok (516, [1;0;2;0]).
Proof. vm_compute. reflexivity. Qed.
(* .link a / a: nop      .link 2*a      .link a/2 *)
Example C12_ex_self :
  run [SLink (LLabel 0); SLabel; SBytes [160;0]] = Err ["recursive-definition"%string] /\
  run [SLink (LMul (LConst 2) (LLabel 0)); SLabel; SBytes [160;0]] = Err ["recursive-definition"%string] /\
  run [SLink (LAw OpDiv (LLabel 0) (LConst 2)); SLabel; SBytes [160;0]] = Err ["recursive-definition"%string].
Proof. vm_compute. repeat split. Qed.
(* . = 2000 / nop ;   .link 1000 / nop / . = 1010 / nop ;  a gap between the two labels of a difference *)
Example C12_ex_dot :
  run [SDot (LConst 1024); SBytes [160;0]] = Ok (1024, [160;0]) /\
  run [SLink (LConst 512); SBytes [160;0]; SDot (LConst 520); SBytes [160;0]] = Ok (512, [160;0;0;0;0;0;0;0;160;0]) /\
  run [SLink (LSub (LLabel 1) (LLabel 0)); SLabel; SDot (LConst 520); SLabel] = Err ["recursive-definition"%string].
Proof. vm_compute. repeat split. Qed.
