(* C13 -- Output containers carry exactly the image.
   Only statements, each closed by [exact] of a lemma from Proofs/, then Print Assumptions.
   Models: Model/Formats.v, Model/BkWav.v (over Gen/GenBkWav.v, regenerated from bk_wav.py and
   formats.py on every run), Model/OutPath.v.  Specs: Spec/BinFile.v, Spec/Riff.v, Spec/BkTape.v. *)
From Coq Require Import String Ascii List ZArith Bool.
From Verif Require Import Base.Res Base.Bytes Gen.GenBkWav Model.Formats Model.BkWav Model.OutPath
  Spec.BinFile Spec.Riff Spec.BkTape
  Proofs.C13Formats Proofs.C13Checksum Proofs.C13Wav Proofs.C13Demod Proofs.C13Path.
Import ListNotations.
Open Scope list_scope.
Open Scope Z_scope.

(* ------------------------------------------------------------------ raw and bin *)
Theorem C13_raw_id : forall base code, fmt_raw base code = Ok code.
Proof. exact raw_id. Qed.
Print Assumptions C13_raw_id.

(* bin = base and length as little-endian words, then the bytes *)
Theorem C13_bin_layout :
  forall base code, 0 <= base < 65536 -> Z.of_nat (length code) < 65536 ->
  fmt_bin base code = Ok (le16 base ++ le16 (Z.of_nat (length code)) ++ code).
Proof. exact bin_layout. Qed.
Print Assumptions C13_bin_layout.

(* outside 16 bits struct.pack raises: never a truncated header *)
Theorem C13_bin_refuses :
  forall base code, ~ (0 <= base < 65536 /\ Z.of_nat (length code) < 65536) ->
  fmt_bin base code = Crash "struct.error".
Proof. exact bin_crash. Qed.
Print Assumptions C13_bin_refuses.

(* whatever bin returns, the independent reader gets base, length and the bytes back *)
Theorem C13_bin_reads_back :
  forall base code f, Forall (fun b => 0 <= b < 256) code -> fmt_bin base code = Ok f ->
  parse_bin f = Some (base, Z.of_nat (length code), code).
Proof. exact bin_reads_back. Qed.
Print Assumptions C13_bin_reads_back.

Theorem C13_raw_reads_back :
  forall base code f, Forall (fun b => 0 <= b < 256) code -> fmt_raw base code = Ok f ->
  parse_raw f = Some code.
Proof. exact raw_reads_back. Qed.
Print Assumptions C13_raw_reads_back.

(* ------------------------------------------------------------------ checksum *)
(* the translated checksum() is the end-around-carry sum, for every byte list of any length *)
Theorem C13_checksum_correct :
  forall code, Forall is_byte_z code -> checksum code = Ok (cksum_spec code).
Proof. exact checksum_is_spec. Qed.
Print Assumptions C13_checksum_correct.

Theorem C13_checksum_range :
  forall code, Forall is_byte_z code -> 0 <= cksum_spec code <= 65535.
Proof. exact cksum_spec_range. Qed.
Print Assumptions C13_checksum_range.

(* a byte sum that is a non-zero multiple of 65535 gives 0xFFFF, not 0 *)
Theorem C13_checksum_ffff :
  forall code, Forall is_byte_z code -> zsum code <> 0 -> zsum code mod 65535 = 0 ->
  checksum code = Ok 65535.
Proof. exact checksum_ffff. Qed.
Print Assumptions C13_checksum_ffff.

Theorem C13_checksum_zero_iff :
  forall code, Forall is_byte_z code -> (cksum_spec code = 0 <-> zsum code = 0).
Proof. exact cksum_spec_zero_iff. Qed.
Print Assumptions C13_checksum_zero_iff.

Theorem C13_checksum_congruent :
  forall code, Forall is_byte_z code -> cksum_spec code mod 65535 = zsum code mod 65535.
Proof. exact cksum_spec_congruent. Qed.
Print Assumptions C13_checksum_congruent.

(* ------------------------------------------------------------------ bits *)
(* for every byte, bit 0 up to bit 7: the ONE envelope when the bit is set, else the ZERO one *)
Theorem C13_encode_data_bits_structure :
  forall turbo data, exists zero one,
    env_attr turbo "ZERO" = Ok zero /\ env_attr turbo "ONE" = Ok one /\
    encode_data_bits turbo data =
    Ok (flat_map (fun byte => flat_map (fun i => if Z.testbit byte i then one else zero) [0; 1; 2; 3; 4; 5; 6; 7]) data).
Proof. exact encode_data_bits_structure. Qed.
Print Assumptions C13_encode_data_bits_structure.

Theorem C13_encode_data_bits_app :
  forall turbo a b, exists x y,
    encode_data_bits turbo a = Ok x /\ encode_data_bits turbo b = Ok y /\
    encode_data_bits turbo (a ++ b) = Ok (x ++ y).
Proof. exact encode_data_bits_app. Qed.
Print Assumptions C13_encode_data_bits_app.

(* unique decoding at the bit level, whatever follows the bits *)
Theorem C13_bits_roundtrip_std :
  forall data rest, Forall is_byte_z data ->
  read_bytes (read_bit_std 4) (length data) (bits_ps false data ++ rest) = Some (data, rest).
Proof. exact bits_roundtrip_std. Qed.
Print Assumptions C13_bits_roundtrip_std.

Theorem C13_bits_roundtrip_turbo :
  forall data rest, Forall is_byte_z data ->
  read_bytes (read_bit_turbo 3) (length data) (map fst (bits_ps true data) ++ rest) = Some (data, rest).
Proof. exact bits_roundtrip_turbo. Qed.
Print Assumptions C13_bits_roundtrip_turbo.

(* ------------------------------------------------------------------ WAV *)
(* a well-formed 8-bit mono RIFF file, all length fields consistent, for every image *)
Theorem C13_wav_wellformed :
  forall turbo base code name,
  0 <= base < 65536 -> Z.of_nat (length code) < 65536 -> Forall is_byte_z code ->
  exists f, encode_as_wav turbo base code name = Ok f /\
            parse_wav f = Some (sample_rate turbo, 1, 8, samples_of turbo base code name).
Proof. exact wav_wellformed. Qed.
Print Assumptions C13_wav_wellformed.

Theorem C13_wav_refuses :
  forall turbo base code name, ~ (0 <= base < 65536 /\ Z.of_nat (length code) < 65536) ->
  encode_as_wav turbo base code name = Crash "struct.error".
Proof. exact wav_crash. Qed.
Print Assumptions C13_wav_refuses.

(* the pulse train, demodulated by the tape rules of Spec/BkTape.v, yields header, bytes and the
   end-around-carry checksum: every image of every length, normal and turbo *)
Theorem C13_wav_roundtrip :
  forall turbo base code name,
  0 <= base < 65536 -> Z.of_nat (length code) < 65536 -> Forall is_byte_z code ->
  Forall is_byte_z name -> length name = 16%nat ->
  exists f smp t,
    encode_as_wav turbo base code name = Ok f /\
    parse_wav f = Some (sample_rate turbo, 1, 8, smp) /\
    demod turbo smp = Some t /\ carries t base code name.
Proof. exact wav_roundtrip. Qed.
Print Assumptions C13_wav_roundtrip.

(* ------------------------------------------------------------------ tape name *)
Theorem C13_name_padding_short :
  forall enc, (length enc <= 16)%nat -> pad_name enc = (enc ++ repeat 32 (16 - length enc), false).
Proof. exact pad_name_short. Qed.
Print Assumptions C13_name_padding_short.

(* longer than 16 bytes: an error is reported (the assembly fails); the entry keeps 16 bytes *)
Theorem C13_name_padding_long :
  forall enc, (16 < length enc)%nat -> pad_name enc = (firstn 16 enc, true).
Proof. exact pad_name_long. Qed.
Print Assumptions C13_name_padding_long.

Theorem C13_name_padding_length : forall enc, length (fst (pad_name enc)) = 16%nat.
Proof. exact pad_name_length. Qed.
Print Assumptions C13_name_padding_length.

Theorem C13_wav_directive_name :
  forall d file_path tape filename, d = MakeWav \/ d = MakeTurboWav ->
  let e := emit_directive d file_path tape filename in
  let shown := match tape with
               | Some n => n
               | None => strip_suffix_ci (last_comp slash (e_path e)) (s ".wav")
               end in
  e_name e = Some (fst (pad_name (encode_name shown))) /\ e_error e = snd (pad_name (encode_name shown)).
Proof. exact wav_directive_name. Qed.
Print Assumptions C13_wav_directive_name.

(* ------------------------------------------------------------------ paths (string model; the file
   system side is tied by the CLI correspondence) -- partial: "is written at that path" is not a
   theorem, only that the path string handed to open() is the one derived here *)
Theorem C13_default_path_mac_partial :
  forall stem suf ext, lower suf = s ".mac" ->
  default_path (stem ++ suf) (Some ext) = stem ++ dot :: ext /\ default_path (stem ++ suf) None = stem.
Proof. exact default_path_mac. Qed.
Print Assumptions C13_default_path_mac_partial.

Theorem C13_default_path_other_partial :
  forall f ext, ends_with (lower f) (s ".mac") = false ->
  default_path f (Some ext) = f ++ dot :: ext /\ default_path f None = f.
Proof. exact default_path_other. Qed.
Print Assumptions C13_default_path_other_partial.

Theorem C13_directive_outputs_partial :
  forall d file_path tape filename,
  let e := emit_directive d file_path tape filename in
  e_format e = match d with MakeBin | MakeBk0010Rom => FmtBin | MakeRaw => FmtRaw
                          | MakeWav => FmtBkWav | MakeTurboWav => FmtBkTurboWav end
  /\ e_path e = match file_path with
                | Some p => resolve_relative_path p filename
                | None => default_path filename
                            match d with MakeBin | MakeBk0010Rom => Some (s "bin") | MakeRaw => None
                                       | _ => Some (s "wav") end
                end.
Proof. exact directive_outputs. Qed.
Print Assumptions C13_directive_outputs_partial.

Theorem C13_o_option_format_partial :
  forall outfile, o_format (o_option_output outfile) =
  if ends_with (lower (last_comp slash outfile)) (s ".bin") then FmtBin else FmtRaw.
Proof. exact o_option_format. Qed.
Print Assumptions C13_o_option_format_partial.

Theorem C13_implicit_bin_partial :
  forall stem suf, lower suf = s ".mac" ->
  cli_outputs (stem ++ suf) [] None true = Some [o_option_output (stem ++ s ".bin")].
Proof. exact implicit_bin_output. Qed.
Print Assumptions C13_implicit_bin_partial.

(* an explicit -o is written whatever --implicit-bin says, after the directives' files *)
Theorem C13_o_option_written_partial :
  forall first emitted_list o implicit_bin, existsb e_error emitted_list = false ->
  cli_outputs first emitted_list (Some o) implicit_bin =
  Some (map (fun e => {| o_dest := ToFile (e_path e); o_format := e_format e; o_tape_name := e_name e |}) emitted_list
        ++ [o_option_output o]).
Proof. exact o_option_written. Qed.
Print Assumptions C13_o_option_written_partial.

(* standard output is selected by the whole -o argument only: with a directory part ("./-",
   "out/-.bin") the argument always names a file ... *)
Theorem C13_o_option_with_directory_partial :
  forall outfile, contains slash outfile = true -> o_dest (o_option_output outfile) = ToFile outfile.
Proof. exact o_option_with_directory. Qed.
Print Assumptions C13_o_option_with_directory_partial.

(* ... and standard output means the argument is "-" or "-.<ext>", ext without dot or slash *)
Theorem C13_o_option_stdout_only_partial :
  forall outfile, o_dest (o_option_output outfile) = ToStdout ->
  outfile = s "-" \/ exists ext, outfile = s "-." ++ ext /\ ~ In dot ext /\ ~ In slash ext.
Proof. exact o_option_stdout_only. Qed.
Print Assumptions C13_o_option_stdout_only_partial.

(* directives inside an included file: resolved against the INCLUDED file (whose name is the include
   operand resolved against the including file), default name = the included file's name *)
Theorem C13_included_directive_partial :
  forall d file_path tape operand including,
  let inner := resolve_relative_path operand including in
  let e := emit_directive d file_path tape (included_name operand including) in
  e_path e = match file_path with
             | Some p => resolve_relative_path p inner
             | None => default_path inner
                         match d with MakeBin | MakeBk0010Rom => Some (s "bin") | MakeRaw => None
                                    | _ => Some (s "wav") end
             end.
Proof. exact included_directive_outputs. Qed.
Print Assumptions C13_included_directive_partial.

Theorem C13_included_relative_partial :
  forall d p tape operand including,
  is_absolute_path operand = false -> is_absolute_path p = false ->
  e_path (emit_directive d (Some p) tape (included_name operand including)) =
  normpath (path_join (dirname (normpath (path_join (dirname including) operand))) p).
Proof. exact included_relative. Qed.
Print Assumptions C13_included_relative_partial.

(* ------------------------------------------------------------------ non-vacuity *)
(* 257 x 0xFF sums to 65535: the checksum is 0xFFFF *)
Example C13_checksum_257_ff : checksum (repeat 255 257) = Ok 65535 /\ zsum (repeat 255 257) = 65535.
Proof. vm_compute. split; reflexivity. Qed.

Example C13_bin_example : fmt_bin 512 [1; 2; 3] = Ok [0; 2; 3; 0; 1; 2; 3].
Proof. vm_compute. reflexivity. Qed.

(* the hypotheses of the round trip are met by a concrete image, and the demodulator run on
   the model's samples gives the image back *)
Example C13_roundtrip_example :
  let name := [80; 82; 79; 71; 32; 32; 32; 32; 32; 32; 32; 32; 32; 32; 32; 32] in
  forall turbo,
  match encode_as_wav turbo 512 [192; 21; 255; 0] name with
  | Ok f => match parse_wav f with
            | Some (_, 1, 8, smp) =>
                match demod turbo smp with
                | Some t => carriesb t 512 [192; 21; 255; 0] name
                | None => false
                end
            | _ => false
            end
  | _ => false
  end = true.
Proof. intros name turbo. destruct turbo; vm_compute; reflexivity. Qed.

Example C13_default_path_example :
  default_path (s "/w/PROG.MaC") (Some (s "wav")) = s "/w/PROG.wav" /\
  default_path (s "/w/prog") (Some (s "bin")) = s "/w/prog.bin" /\
  default_path (s "/w/prog.mac") None = s "/w/prog".
Proof. vm_compute. repeat split; reflexivity. Qed.

Example C13_dash_file_example :
  o_dest (o_option_output (s "./-")) = ToFile (s "./-") /\
  o_dest (o_option_output (s "out/-.bin")) = ToFile (s "out/-.bin") /\
  o_dest (o_option_output (s "-.bin")) = ToStdout /\ o_format (o_option_output (s "-.bin")) = FmtBin /\
  o_dest (o_option_output (s "-.a.b")) = ToFile (s "-.a.b").
Proof. vm_compute. repeat split; reflexivity. Qed.

Example C13_included_example :
  e_path (emit_directive MakeBin (Some (s "up.bin")) None (included_name (s "lib/part.mac") (s "/w/src/main.mac"))) = s "/w/src/lib/up.bin" /\
  e_path (emit_directive MakeRaw None None (included_name (s "lib/part.mac") (s "/w/src/main.mac"))) = s "/w/src/lib/part" /\
  e_path (emit_directive MakeWav (Some (s "../x.wav")) None (included_name (s "sub2/leaf.mac") (included_name (s "lib/part.mac") (s "/w/src/main.mac")))) = s "/w/src/lib/x.wav".
Proof. vm_compute. repeat split; reflexivity. Qed.
