(* C18 -- Assembly is a pure function of its inputs.
   Only statements, each closed by [exact] of a lemma from Proofs/GStateP.v, then Print Assumptions.

   What is proved: for the module-level state of the package -- try_compute.depth,
   Awaiting.awaiting_stack, every is_awaiting flag, handle_reports.handlers_stack -- whose steps
   are regenerated from deferred.py / reports.py (Gen/GenGState.v): every nesting of the three
   context managers, with bodies that may finish, return or raise anything anywhere, restores it;
   a program's outcome depends on nothing else that survives (the latch is per instance).  Programs
   may also *read* the state the way the package does: not_ready() (depth), emit_report (top of the
   handlers stack), and `if d.is_awaiting` (LinearPolynomial._wait since commit 0fa6448).
   `partial`: per-token caches, hash randomisation, interpreter state and "there is no other
   module-level state" are runtime facts -- tied by the translator's usage scan and by the history /
   fresh-process / PYTHONHASHSEED correspondence in tools/props/c18.py. *)
From Coq Require Import String List NArith ZArith Bool.
From Verif Require Import Gen.GenReports Gen.GenGState Model.GState Proofs.GStateP.
Import ListNotations.

(* for every nesting and every outcome: depth, awaiting_stack, handlers_stack and every
   is_awaiting flag are the same after as before, and so is the height of found_cycles_stack
   ([gstate_eq] does not mention not_ready_yet nor the content of the cycle memo: see below) *)
Theorem C18_state_restored : forall p s, gstate_eq (g (snd (eval p s))) (g s).
Proof. exact state_restored. Qed.
Print Assumptions C18_state_restored.

(* ... hence after any history of programs, whatever their outcomes *)
Theorem C18_history_restored : forall hist s, gstate_eq (g (run_all hist s)) (g s).
Proof. exact history_restored. Qed.
Print Assumptions C18_history_restored.

(* is_error_condition lives on the handle_reports instance: the latches of instances that are not
   on the handlers stack cannot influence what a program does *)
Theorem C18_latch_is_per_block : forall p gs l1 l2,
  (forall h, In h (handlers gs) -> l1 h = l2 h) ->
  fst (eval p (mk_mstate gs l1)) = fst (eval p (mk_mstate gs l2)) /\
  gstate_eq (g (snd (eval p (mk_mstate gs l1)))) (g (snd (eval p (mk_mstate gs l2)))).
Proof. exact latch_is_per_block. Qed.
Print Assumptions C18_latch_is_per_block.

(* the outcome of a program is a function of the module-level state (flags compared object by
   object; not_ready_yet only while depth > 0) and of the latches of the instances on the stack *)
Theorem C18_outcome_is_function_of_state : forall p s1 s2, agree s1 s2 ->
  fst (eval p s1) = fst (eval p s2) /\ agree (snd (eval p s1)) (snd (eval p s2)).
Proof. exact eval_congr. Qed.
Print Assumptions C18_outcome_is_function_of_state.

(* a probe run after any history behaves as in the state before the history, if the process is not inside a
   speculation (depth 0; by C18_history_restored it stays 0 between runs once it is 0) -- in particular whatever the
   history left in try_compute.not_ready_yet does not matter  (partial: as far as the modelled state goes) *)
Theorem C18_probe_after_history_partial : forall hist p s,
  handlers (g s) = [] -> depth (g s) = 0%Z -> awaiting (g s) = [] -> wf (g s) ->
  fst (eval p (run_all hist s)) = fst (eval p s) /\
  gstate_eq (g (snd (eval p (run_all hist s)))) (g s).
Proof. exact probe_after_history. Qed.
Print Assumptions C18_probe_after_history_partial.

(* the cycle memo of class Awaiting (known_cycles, found_cycles_stack): [wf] = found_cycles_stack is as long as
   awaiting_stack, known_cycles holds exactly the identities on the lists of found_cycles_stack, each once.
   It is an invariant of every program, whatever its outcome: remember_cycle adds an identity only if it is not yet
   known; a frame that ends is forgotten, or -- when it ends by DeferredCycle and has a parent -- its list is handed to
   the parent's list (2b465cd), which moves identities between lists but neither duplicates nor loses any ... *)
Theorem C18_cycle_memo_invariant : forall p s, wf (g s) -> wf (g (snd (eval p s))).
Proof. exact eval_wf. Qed.
Print Assumptions C18_cycle_memo_invariant.

(* ... so whenever nothing is being awaited -- between runs -- both structures are empty: no run can see what an
   earlier run remembered *)
Theorem C18_cycle_memo_empty_between_runs : forall hist s, wf (g s) -> awaiting (g s) = [] ->
  kc (g (run_all hist s)) = [] /\ fcs (g (run_all hist s)) = [].
Proof. exact cycle_memo_empty_between_runs. Qed.
Print Assumptions C18_cycle_memo_empty_between_runs.

(* try_compute.not_ready_yet is NOT restored (it keeps what the last speculation found not ready), but it is dead data
   outside a speculation: every read is guarded by depth > 0, and the only way to depth > 0 is __enter__ at depth 0,
   which replaces the dict.  So with depth <= 0 two runs that differ only in the leftover behave the same. *)
Theorem C18_leftover_not_ready_irrelevant : forall p dp aw fl hs n1 n2 k f l,
  (dp <= 0)%Z ->
  fst (eval p (mk_mstate (mk_gstate dp aw fl hs n1 k f) l)) = fst (eval p (mk_mstate (mk_gstate dp aw fl hs n2 k f) l)).
Proof. exact leftover_not_ready_irrelevant. Qed.
Print Assumptions C18_leftover_not_ready_irrelevant.

(* the `assert ... pop() is ...` of the three __exit__ methods never fail: only exceptions that the
   program raises itself, or NotReadyError / DeferredCycle / UnrecoverableError / "unhandled
   report", leave a program *)
Theorem C18_asserts_never_fire : forall p s,
  ~ In EAssertion (raised_in p) -> ~ In EIndex (raised_in p) ->
  fst (eval p s) <> ORaise EAssertion /\ fst (eval p s) <> ORaise EIndex.
Proof. exact asserts_never_fire. Qed.
Print Assumptions C18_asserts_never_fire.

(* the translator's usage scan ran (it aborts the generation of GenGState.v otherwise): every write
   to module-level objects at run time is one of the seven known ones, the state attributes are
   only touched inside the three classes / not_ready / emit_report, every instance of the classes is
   a `with` item.  This is a fact about the translator run, not a Coq proof about the source. *)
Theorem C18_no_other_global_scan_partial : usage_scan_passed = true.
Proof. exact (eq_refl true). Qed.
Print Assumptions C18_no_other_global_scan_partial.

(* non-vacuity: a cycle met inside a speculative evaluation inside a report block, an exception in
   the middle, a return through two `with`s *)
Example C18_ex_nesting :
  let p := PWith (CHandle 1 ObjNone)
             (PWith CTry (PWith (CAwait 5) (PNotReady (PWith (CAwait 5) PEnd PEnd)) PEnd)
                (PWith (CAwait 6) (PWith (CAwait 6) PEnd PEnd)
                   (PReport PError (PCall (PWith CTry (PWith (CAwait 7) PReturn PEnd) PEnd) (PRaise (EOther 3))))))
             PEnd in
  let r := eval p (mk_mstate initial_gstate (fun _ => false)) in
  fst r = ORaise EDeferredCycle /\ depth (g (snd r)) = 0%Z /\ awaiting (g (snd r)) = [] /\ handlers (g (snd r)) = [] /\
  flags (g (snd r)) 5%N = false /\ flags (g (snd r)) 6%N = false.
Proof. vm_compute. repeat split; reflexivity. Qed.
(* a speculation that finds d1 not ready records it, a second request inside the same speculation is refused at once
   (the body, which would raise something else, is not run), the next outermost speculation starts from an empty record *)
Example C18_ex_not_ready_yet :
  let once := PWith CTry (PWait 1 (PNotReady PEnd) PEnd) PEnd in
  let twice := PWith CTry (PCall (PWith CTry (PWait 1 (PNotReady PEnd) PEnd) PEnd) (PWait 1 (PRaise (EOther 5)) PEnd)) PEnd in
  let s0 := mk_mstate initial_gstate (fun _ => false) in
  nry (g (snd (eval once s0))) = [1%N] /\ fst (eval twice s0) = ONormal /\
  fst (eval (PWith CTry (PWait 1 (PRaise (EOther 5)) PEnd) PEnd) (snd (eval once s0))) = ORaise (EOther 5).
Proof. vm_compute. repeat split; reflexivity. Qed.
(* a value remembered as cyclic while d1 is awaited is refused at once inside that frame and forgotten when it ends *)
Example C18_ex_cycle_memo :
  let s0 := mk_mstate initial_gstate (fun _ => false) in
  let inside := PWith (CAwait 1) (PRemember 2 (PWith (CAwait 2) (PRaise (EOther 4)) PEnd)) PEnd in
  wf (g s0) /\ fst (eval inside s0) = ORaise EDeferredCycle /\ kc (g (snd (eval inside s0))) = [] /\
  fst (eval (PCall inside (PWith (CAwait 2) (PRaise (EOther 4)) PEnd)) s0) = ORaise EDeferredCycle /\
  fst (eval (PCall (PWith (CTry) inside PEnd) (PWith (CAwait 2) (PRaise (EOther 4)) PEnd)) s0) = ORaise (EOther 4).
Proof. vm_compute. repeat split; try reflexivity; try constructor; intros []. Qed.
Example C18_ex_latch :
  let p := PWith (CHandle 2 ObjNone) (PReport PError PEnd) PEnd in
  fst (eval p (mk_mstate initial_gstate (fun _ => false))) = ORaise EUnrecoverable /\
  fst (eval (PWith (CHandle 3 ObjNone) (PReport PWarning PEnd) PEnd)
            (snd (eval p (mk_mstate initial_gstate (fun _ => false))))) = ONormal.
Proof. vm_compute. repeat split; reflexivity. Qed.
