(* Props/T_context.v -- the code translated from pdpy11/context.py (Gen/GenPureContext.v, regenerated on every run)
   equals the hand model Model/ContextM.v.  See the table in Props/T.v.  Only statements, each closed by [exact] of a
   lemma of Proofs/GenPureContextP.v, then Print Assumptions. *)
From Coq Require Import String List ZArith NArith Bool.
From Verif Require Import Base.Res Gen.GenPure Gen.GenPureContext Model.ContextM Proofs.GenPureContextP.
Import ListNotations.
Open Scope list_scope.
Open Scope Z_scope.

(* Context.__repr__ returns f"{self.filename}:{line_no + 1}:{col_no + 1}": the pieces of that f-string are the
   file name, ":", the model's line, ":", the model's column -- for every text and every offset pos >= 0
   (for a negative self.pos the translated function follows Python's negative-index rules; the model has no such case) *)
Theorem T_context_repr_is_model : forall fn code pos,
  context_repr fn code (Z.of_nat pos) =
  Ok [FStr fn; FLit [58%N]; FInt (fst (repr code pos)); FLit [58%N]; FInt (snd (repr code pos))].
Proof. exact context_repr_is_model. Qed.
Print Assumptions T_context_repr_is_model.

Example T_ex_context :
  context_repr [102%N] [97; 10; 9; 98; 10; 99]%N 4 = Ok [FStr [102%N]; FLit [58%N]; FInt 2; FLit [58%N]; FInt 6]
  /\ repr [97; 10; 9; 98; 10; 99]%N 4 = (2, 6).
Proof. split; reflexivity. Qed.
