(* Props/T_insns2.v -- the loops translated from Instruction.compile_insn of pdpy11/insns.py (Gen/GenPure2Insns.v,
   regenerated on every run by tools/gens/gen_pure2.py: `indexes_of_char = {}` + its loop, and `def get_opcode()`)
   equal the hand model Model/Insns.v (indexes_of_char, subst_bits, subst_all, bin_value, get_opcode).
   Only statements, each closed by [exact] of a lemma of Proofs/TInsns2P.v, then Print Assumptions.

   [res_sim a b]: a = b, except that two Python exceptions are not told apart (crash sites are informative only).
   [conv_reps]: the model's (stub, value) pairs as the objects get_opcode reads (pattern_char, bit_indexes as ints).
   [ioc_ok d p]: d.get(c, []) is the model's indexes_of_char c p for every character c.
   The generated code returns the bytes struct.pack("<H", .) of the word the model returns.
   p <> []: Python asserts "".isdigit() (False) where the model's bin_value [] is 0 (T_ex_empty_pattern); init()
   asserts len(opcode_pattern) == 16. *)
From Coq Require Import String Ascii List ZArith NArith Bool.
From Verif Require Import Base.Res Base.Bytes Gen.GenPure2 Gen.GenPure2Insns Spec.PDP11 Model.Insns Proofs.TInsns2P.
Import ListNotations.
Open Scope list_scope.
Open Scope Z_scope.

(* the dict built before get_opcode is defined: never raises, and holds the model's position lists *)
Theorem T_indexes_of_char_is_model : forall p, exists d, g_indexes_of_char p = Ok d /\ ioc_ok d p.
Proof. exact indexes_of_char_is_model. Qed.
Print Assumptions T_indexes_of_char_is_model.

(* get_opcode with any closure dict that holds the model's position lists *)
Theorem T_get_opcode_given_dict : forall p d reps, ioc_ok d p -> p <> [] ->
  res_sim (g_get_opcode p (conv_reps reps) d) (do w <- get_opcode p reps; pack_H w).
Proof. exact get_opcode_given_dict. Qed.
Print Assumptions T_get_opcode_given_dict.

(* the two together (g_opcode_bytes p r = do d <- g_indexes_of_char p; g_get_opcode p r d) *)
Theorem T_get_opcode_is_model : forall p reps, p <> [] ->
  res_sim (g_opcode_bytes p (conv_reps reps)) (do w <- get_opcode p reps; pack_H w).
Proof. exact get_opcode_is_model. Qed.
Print Assumptions T_get_opcode_is_model.

Theorem T_get_opcode_is_model_ok : forall p reps bs, p <> [] ->
  (g_opcode_bytes p (conv_reps reps) = Ok bs <-> (do w <- get_opcode p reps; pack_H w) = Ok bs).
Proof. exact get_opcode_is_model_ok. Qed.
Print Assumptions T_get_opcode_is_model_ok.

Theorem T_get_opcode_word : forall p reps w, p <> [] -> get_opcode p reps = Ok w -> 0 <= w < 65536 ->
  g_opcode_bytes p (conv_reps reps) = Ok [w mod 256; w / 256].
Proof. exact get_opcode_word. Qed.
Print Assumptions T_get_opcode_word.

(* the pieces, loop by loop *)
Theorem T_get_opcode_inner_loop : forall orig d st v, ioc_ok d orig -> forall idxs cur i,
  res_sim (g_get_opcode_for2 d (conv_stub st) v cur (Z.of_nat i) (map Z.of_nat idxs))
          (subst_bits orig cur (pchar st) idxs i v).
Proof. exact for2_sim. Qed.
Print Assumptions T_get_opcode_inner_loop.

Theorem T_get_opcode_outer_loop : forall orig d, ioc_ok d orig -> forall reps cur,
  res_sim (g_get_opcode_for1 d cur (conv_reps reps)) (subst_all orig cur reps).
Proof. exact for1_sim. Qed.
Print Assumptions T_get_opcode_outer_loop.

(* the generated functions run: mov r1, (r2)+ ; an out-of-range bit index ; a non-binary pattern *)
Definition ex_mov : list ascii := list_ascii_of_string "0001ssssssdddddd".
Definition ex_s := mkStub SkRegMode "s"%char [5;4;3;2;1;0]%nat false.
Definition ex_d := mkStub SkRegMode "d"%char [5;4;3;2;1;0]%nat false.
Example T_ex_get_opcode :
  g_opcode_bytes ex_mov (conv_reps [(ex_s, 1); (ex_d, 18)]) = Ok [82; 16]
  /\ get_opcode ex_mov [(ex_s, 1); (ex_d, 18)] = Ok 4178
  /\ g_indexes_of_char (list_ascii_of_string "0s1s") = Ok [("0"%char, [0]); ("s"%char, [1; 3]); ("1"%char, [2])]
  /\ is_crash (g_opcode_bytes ex_mov (conv_reps [(mkStub SkRegMode "s"%char [6]%nat false, 1)])) = true
  /\ is_crash (g_opcode_bytes ex_mov (conv_reps [(mkStub SkRegMode "x"%char [0]%nat false, 1)])) = true
  /\ is_crash (g_opcode_bytes ex_mov (conv_reps [(ex_s, 1)])) = true
  /\ g_opcode_bytes (list_ascii_of_string "ss") [(mkStub2 "s"%char [-1; 0], 2)] = Ok [2; 0].
Proof. repeat split; reflexivity. Qed.

(* the hypothesis p <> [] is needed *)
Example T_ex_empty_pattern : is_crash (g_opcode_bytes [] []) = true /\ get_opcode [] [] = Ok 0.
Proof. split; reflexivity. Qed.
