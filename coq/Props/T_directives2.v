(* Props/T_directives2.v -- the WHOLE bodies of byte / word / dword translated from pdpy11/metacommands.py
   (Gen/GenPure3Directives.v, regenerated on every run by tools/gens/gen_pure3.py: the odd-address prefix and report, the
   implicit-operand branch, and b"".join(struct.pack(...) / encode_i32(...) for operand in operands)) EQUAL the hand
   model Model/Directives.v byte_body / word_body / dword_body, the bodies the C06 theorems are about.  Only statements,
   each closed by [exact] of a lemma of Proofs/TDirectives2P.v, then Print Assumptions.

   [as_out]: reports in order as the model's diagnostics (error -> E, warning -> W) and the bytes; an exception
   (struct.error) loses both.  The operands are the ints the @metacommand wrapper has already cooked (Model cook). *)
From Coq Require Import String Ascii List ZArith NArith Bool.
From Verif Require Import Base.Res Base.Bytes Gen.GenPureDirectives Gen.GenPure3 Gen.GenPure3Directives Model.Directives Proofs.TDirectives2P.
Import ListNotations.
Open Scope list_scope.
Open Scope Z_scope.

Theorem T_byte_body_is_model : forall addr vs, as_out (g_byte_body addr vs) = byte_body vs.
Proof. exact byte_body_is_model. Qed.
Print Assumptions T_byte_body_is_model.

Theorem T_word_body_is_model : forall addr vs, as_out (g_word_body addr vs) = word_body addr vs.
Proof. exact word_body_is_model. Qed.
Print Assumptions T_word_body_is_model.

Theorem T_dword_body_is_model : forall addr vs, as_out (g_dword_body addr vs) = dword_body addr vs.
Proof. exact dword_body_is_model. Qed.
Print Assumptions T_dword_body_is_model.

(* the operand loop: b"".join(F(x) for x in xs) as translated is the model's pack_all, for any F *)
Theorem T_join_is_pack_all : forall f l, py3_join_map f l = pack_all f l.
Proof. exact join_map_is_pack_all. Qed.
Print Assumptions T_join_is_pack_all.

(* the generated bodies run: little-endian words after the odd-address byte; the implicit operand; struct.error *)
Example T_ex_directives2 :
  g_word_body 513 [258; 65535] = Ok ([("error", "odd-address")]%string, [0; 2; 1; 255; 255])
  /\ g_dword_body 512 [65536 * 2 + 5] = Ok ([], [2; 0; 5; 0])
  /\ g_byte_body 0 [] = Ok ([("warning", "implicit-operand")]%string, [0])
  /\ g_word_body 1 [] = Ok ([("error", "odd-address"); ("warning", "implicit-operand")]%string, [0; 0; 0])
  /\ is_crash (g_byte_body 0 [1; 256; 2]) = true
  /\ is_crash (g_dword_body 0 [-1]) = true.
Proof. repeat split; reflexivity. Qed.
